/-
  Semantic half of the code-generation correctness proof: if the code of a tree sits in a graph
  as `Shape` describes, every terminating source evaluation is matched by the graph machine.
-/
import PyTealV.Proofs.ShapeMach
import PyTealV.Proofs.ShapeOps
namespace PyTealV.Proofs.Shape
open PyTealV PyTealV.Avm PyTealV.Src PyTealV.Comp PyTealV.Models.Fragment PyTealV.Proofs.Ops

def isUnm (f : Fail) : Prop := ∃ msg, f = .unmodelled msg

/-- outcome of `return` with top value `v` -/
def retOut (v : Val) (w : World) : Outcome :=
  match v with
  | .u _ => .done v w
  | .b _ => .fail (.typeErr "return of bytes")

section
variable (cx : Ctx) (G : Graph)

/-- What the machine, started at block `s` with stack `σ` and world `w`, must do for a source
    result `r, w'`; `V` is the claim for normal completion. -/
def GoalX (s : Nat) (L : Option Loop) (bc : Bool) (σ : List Val) (ic : List Nat) (bcs : List Bytes)
    (w : World) (V : List Val → World → Prop) : Res → World → Prop
  | .vals vs, w' => V vs w'
  | .brk, w' => bc = true ∧ ∃ l, L = some l ∧
      ReachO cx G ⟨s, 0⟩ ⟨σ, ic, bcs, w⟩ ⟨l.brk, 0⟩ ⟨σ, ic, bcs, w'⟩
  | .cont, w' => bc = true ∧ ∃ l, L = some l ∧
      ReachO cx G ⟨s, 0⟩ ⟨σ, ic, bcs, w⟩ ⟨l.cont, 0⟩ ⟨σ, ic, bcs, w'⟩
  | .ret none, _ => False
  | .ret (some v), w' => HaltO cx G ⟨s, 0⟩ ⟨σ, ic, bcs, w⟩ (retOut v w')
  | .exit v, w' => HaltO cx G ⟨s, 0⟩ ⟨σ, ic, bcs, w⟩ (retOut v w')
  | .fail f, _ => isUnm f ∨ Fails cx G ⟨s, 0⟩ ⟨σ, ic, bcs, w⟩

/-- normal completion: exactly `n` values on top of the untouched stack, at block `k` -/
def Goal (s k : Nat) (L : Option Loop) (bc : Bool) (n : Nat) (σ : List Val) (ic : List Nat)
    (bcs : List Bytes) (w : World) (r : Res) (w' : World) : Prop :=
  GoalX cx G s L bc σ ic bcs w
    (fun vs w' => vs.length = n ∧ ReachO cx G ⟨s, 0⟩ ⟨σ, ic, bcs, w⟩ ⟨k, 0⟩ ⟨vs ++ σ, ic, bcs, w'⟩) r w'

variable {cx G}

/-- abnormal results pass through an enclosing construct unchanged -/
theorem GoalX.pass {s s0 : Nat} {L : Option Loop} {bc bc' : Bool} {σ σ' : List Val} {ic bcs}
    {w w0 : World} {V V' : List Val → World → Prop} {r : Res} {w' : World}
    (hnv : ∀ vs, r ≠ .vals vs)
    (pre : ReachO cx G ⟨s0, 0⟩ ⟨σ', ic, bcs, w0⟩ ⟨s, 0⟩ ⟨σ, ic, bcs, w⟩)
    (hbc : bc = true → σ' = σ ∧ bc' = true)
    (h : GoalX cx G s L bc σ ic bcs w V r w') : GoalX cx G s0 L bc' σ' ic bcs w0 V' r w' := by
  cases r with
  | vals vs => exact absurd rfl (hnv vs)
  | brk =>
    obtain ⟨hb, l, hl, hr⟩ := h
    obtain ⟨rfl, hb'⟩ := hbc hb
    exact ⟨hb', l, hl, pre.trans hr⟩
  | cont =>
    obtain ⟨hb, l, hl, hr⟩ := h
    obtain ⟨rfl, hb'⟩ := hbc hb
    exact ⟨hb', l, hl, pre.trans hr⟩
  | ret v =>
    cases v with
    | none => exact h
    | some v => exact pre.haltO h
  | exit v => exact pre.haltO h
  | fail f => exact h.imp id pre.fails

theorem GoalX.same {s : Nat} {L : Option Loop} {bc bc' : Bool} {σ : List Val} {ic bcs}
    {w : World} {V V' : List Val → World → Prop} {r : Res} {w' : World}
    (hnv : ∀ vs, r ≠ .vals vs) (hbc : bc = true → bc' = true)
    (h : GoalX cx G s L bc σ ic bcs w V r w') : GoalX cx G s L bc' σ ic bcs w V' r w' :=
  h.pass hnv (.refl _ _) (fun hb => ⟨rfl, hbc hb⟩)

end

/-- the five statements proved together by induction on the fuel -/
structure All (G : Graph) (cfg : GenCfg) (env : Env) (fuel : Nat) : Prop where
  ev : ∀ e s k L bc n σ ic bcs w r w', Shape G cfg e s k L → wt bc n e = true →
    eval env fuel e w = (r, w') → Goal env.cx G s k L bc n σ ic bcs w r w'
  args : ∀ es s k L acc σ ic bcs w r w', ShapeArgs G cfg es s k L → wtArgs es = true →
    evalArgs env fuel es w acc = (r, w') →
    GoalX env.cx G s L false (acc ++ σ) ic bcs w
      (fun st w' => st.length = acc.length + es.length ∧
        ReachO env.cx G ⟨s, 0⟩ ⟨acc ++ σ, ic, bcs, w⟩ ⟨k, 0⟩ ⟨st ++ σ, ic, bcs, w'⟩) r w'
  seq : ∀ es s k L bc n σ ic bcs w r w', ShapeSeq G cfg es s k L → wtSeq bc n es = true →
    evalSeq env fuel es w = (r, w') → Goal env.cx G s k L bc n σ ic bcs w r w'
  cond : ∀ arms s endB errB L bc n σ ic bcs w r w', ShapeCond G cfg arms s endB errB L →
    Blk G errB [.err] .none → wtArms bc n arms = true →
    evalCond env fuel arms w = (r, w') → Goal env.cx G s endB L bc n σ ic bcs w r w'
  forL : ∀ c st d cs br ss shdr ds endB k L bc σ ic bcs w r w',
    Shape G cfg c cs br (some ⟨endB, shdr⟩) → Shape G cfg st ss cs (some ⟨endB, shdr⟩) →
    Blk G shdr [] (.next ss) → Shape G cfg d ds shdr (some ⟨endB, shdr⟩) →
    Blk G br [] (.cond ds endB) → Blk G endB [] (.next k) →
    wt false 1 c = true → wt false 0 st = true → wt true 0 d = true →
    evalForLoop env fuel c st d w = (r, w') → Goal env.cx G cs k L bc 0 σ ic bcs w r w'

section Cases
variable {G : Graph} {cfg : GenCfg} {env : Env} {fuel : Nat}

theorem pushV_reach {b k : Nat} {i : Instr} {v : Val} {σ ic bcs w}
    (hb : Blk G b [i] (.next k))
    (hi : execSimple env.cx i ⟨σ, ic, bcs, w⟩ = some (pushV ⟨σ, ic, bcs, w⟩ v)) :
    ReachO env.cx G ⟨b, 0⟩ ⟨σ, ic, bcs, w⟩ ⟨k, 0⟩ ⟨v :: σ, ic, bcs, w⟩ := by
  by_cases hlt : σ.length < maxStack
  · refine .inr (block_next hb ?_)
    simp only [execOps, hi, pushV, hlt, if_true]
  · refine .inl (block_halt hb ?_)
    simp only [execOps, hi, pushV, hlt, if_false, ovf]

theorem empty_reach {b k : Nat} {m : MS} (hb : Blk G b [] (.next k)) :
    ReachO env.cx G ⟨b, 0⟩ m ⟨k, 0⟩ m := .inr (block_next hb rfl)

/-- terminal results (return / exit / failure) pass through any context -/
def isTerm : Res → Prop
  | .ret _ => True
  | .exit _ => True
  | .fail _ => True
  | _ => False

theorem GoalX.pass_term {s s0 : Nat} {L L' : Option Loop} {bc bc' : Bool} {σ σ' : List Val} {ic bcs}
    {w w0 : World} {V V' : List Val → World → Prop} {r : Res} {w' : World}
    (ht : isTerm r)
    (pre : ReachO env.cx G ⟨s0, 0⟩ ⟨σ', ic, bcs, w0⟩ ⟨s, 0⟩ ⟨σ, ic, bcs, w⟩)
    (h : GoalX env.cx G s L bc σ ic bcs w V r w') : GoalX env.cx G s0 L' bc' σ' ic bcs w0 V' r w' := by
  cases r with
  | vals vs => exact ht.elim
  | brk => exact ht.elim
  | cont => exact ht.elim
  | ret v =>
    cases v with
    | none => exact h
    | some v => exact pre.haltO h
  | exit v => exact pre.haltO h
  | fail f => exact h.imp id pre.fails

theorem Goal.pre {s0 s k : Nat} {L bc n σ ic bcs w0 w r w'}
    (pre : ReachO env.cx G ⟨s0, 0⟩ ⟨σ, ic, bcs, w0⟩ ⟨s, 0⟩ ⟨σ, ic, bcs, w⟩)
    (h : Goal env.cx G s k L bc n σ ic bcs w r w') : Goal env.cx G s0 k L bc n σ ic bcs w0 r w' := by
  cases r with
  | vals vs => exact ⟨h.1, pre.trans h.2⟩
  | _ => exact GoalX.pass (by intro vs hh; cases hh) pre (fun hb => ⟨rfl, hb⟩) h

theorem Goal.post {s k' k : Nat} {L bc n σ ic bcs w r w'}
    (post : ∀ st w, ReachO env.cx G ⟨k', 0⟩ ⟨st, ic, bcs, w⟩ ⟨k, 0⟩ ⟨st, ic, bcs, w⟩)
    (h : Goal env.cx G s k' L bc n σ ic bcs w r w') : Goal env.cx G s k L bc n σ ic bcs w r w' := by
  cases r with
  | vals vs => exact ⟨h.1, h.2.trans (post _ _)⟩
  | _ => exact GoalX.same (by intro vs hh; cases hh) id h

theorem case_int {n s k L bc m σ ic bcs w r w'} (hb : Blk G s [.pushInt n] (.next k)) (hm : m = 1)
    (h : eval env (fuel + 1) (.int n) w = (r, w')) : Goal env.cx G s k L bc m σ ic bcs w r w' := by
  simp only [eval] at h
  cases h
  exact ⟨hm.symm ▸ rfl, pushV_reach hb rfl⟩

theorem case_bytes {b s k L bc m σ ic bcs w r w'} (hb : Blk G s [.pushBytes b] (.next k)) (hm : m = 1)
    (h : eval env (fuel + 1) (.bytes b) w = (r, w')) : Goal env.cx G s k L bc m σ ic bcs w r w' := by
  simp only [eval] at h
  cases h
  exact ⟨hm.symm ▸ rfl, pushV_reach hb rfl⟩

theorem case_index {v s k L bc m σ ic bcs w r w'} (hmark : cfg.markIndex = false)
    (hb : Blk G s [if cfg.markIndex then .prim "__index" [toString v] else .pushInt v] (.next k)) (hm : m = 1)
    (h : eval env (fuel + 1) (.index v) w = (r, w')) : Goal env.cx G s k L bc m σ ic bcs w r w' := by
  simp only [eval] at h
  cases h
  rw [hmark] at hb
  exact ⟨hm.symm ▸ rfl, pushV_reach hb rfl⟩

theorem case_load {v s k L bc m σ ic bcs w r w'} (hb : Blk G s [.load v] (.next k)) (hm : m = 1)
    (hv : v < 256)
    (h : eval env (fuel + 1) (.load v) w = (r, w')) : Goal env.cx G s k L bc m σ ic bcs w r w' := by
  simp only [eval] at h
  cases h
  exact ⟨hm.symm ▸ rfl, pushV_reach hb (by simp only [execSimple, hv, if_true])⟩

theorem case_store {v e s ob k L bc n σ ic bcs w r w'} (ih : All G cfg env fuel)
    (hb : Blk G ob [.store v] (.next k)) (he : Shape G cfg e s ob L)
    (hn : n = 0) (hv : v < 256) (hwe : wt false 1 e = true)
    (h : eval env (fuel + 1) (.store v e) w = (r, w')) : Goal env.cx G s k L bc n σ ic bcs w r w' := by
  simp only [eval] at h
  rcases hev : eval env fuel e w with ⟨r1, w1⟩
  rw [hev] at h
  have g1 := ih.ev _ _ _ _ _ _ σ ic bcs _ _ _ he hwe hev
  cases r1 with
  | vals vs =>
    obtain ⟨hlen, hr⟩ := g1
    match vs, hlen with
    | [x], _ =>
      simp only [] at h
      cases h
      refine ⟨hn.symm ▸ rfl, hr.trans (.inr (block_next hb ?_))⟩
      simp only [execOps, execSimple, hv, if_true, List.cons_append, List.nil_append]
  | _ =>
    simp only [] at h
    cases h
    exact g1.same (by intro vs hh; cases hh) (by simp)

/-- executing a `prim` block whose opcode has a signature -/
theorem prim_block {op imms ob k k0 p st σ ic bcs w1} (hsig : primSig op = some (k0, p))
    (hb : Blk G ob [.prim op imms] (.next k)) (hlen : st.length = k0) :
    match execPrim env.cx op imms w1 st with
    | .ok (st', w2) => st'.length = p ∧
        ReachO env.cx G ⟨ob, 0⟩ ⟨st ++ σ, ic, bcs, w1⟩ ⟨k, 0⟩ ⟨st' ++ σ, ic, bcs, w2⟩
    | .error f => Halts env.cx G ⟨ob, 0⟩ ⟨st ++ σ, ic, bcs, w1⟩ (.fail f) := by
  obtain ⟨h1, h2⟩ := execPrim_sig hsig env.cx imms w1 st σ hlen
  cases hB : execPrim env.cx op imms w1 st with
  | error f =>
    simp only []
    rw [hB] at h1
    refine block_halt hb ?_
    simp only [execOps, execSimple, h1, liftR]
  | ok x =>
    obtain ⟨st', w2⟩ := x
    simp only []
    rw [hB] at h1
    refine ⟨h2 _ _ hB, ?_⟩
    by_cases hlt : (st' ++ σ).length ≤ maxStack
    · refine .inr (block_next hb ?_)
      simp only [execOps, execSimple, h1, liftR, hlt, if_true]
    · refine .inl (block_halt hb ?_)
      simp only [execOps, execSimple, h1, liftR, hlt, if_false, ovf]

theorem case_prim {op imms args s ob k L bc n σ ic bcs w r w' k0 p} (ih : All G cfg env fuel)
    (hb : Blk G ob [.prim op imms] (.next k)) (ha : ShapeArgs G cfg args s ob L)
    (hsig : primSig op = some (k0, p)) (hk : args.length = k0) (hp : p = n) (hwa : wtArgs args = true)
    (h : eval env (fuel + 1) (.prim op imms args) w = (r, w')) : Goal env.cx G s k L bc n σ ic bcs w r w' := by
  simp only [eval] at h
  rcases hev : evalArgs env fuel args w [] with ⟨r1, w1⟩
  rw [hev] at h
  have g1 := ih.args _ _ _ _ [] σ ic bcs _ _ _ ha hwa hev
  simp only [List.nil_append, List.length_nil, Nat.zero_add] at g1
  cases r1 with
  | vals st =>
    obtain ⟨hlen, hr⟩ := g1
    have pb := prim_block (env := env) (σ := σ) (ic := ic) (bcs := bcs) (w1 := w1) hsig hb (hlen.trans hk)
    simp only [] at h
    cases hB : execPrim env.cx op imms w1 st with
    | error f =>
      rw [hB] at h pb
      cases h
      exact .inr (hr.fails ⟨_, pb⟩)
    | ok x =>
      obtain ⟨st', w2⟩ := x
      rw [hB] at h pb
      cases h
      exact ⟨pb.1.trans hp, hr.trans pb.2⟩
  | _ =>
    simp only [] at h
    cases h
    exact g1.same (by intro vs hh; cases hh) (by simp)

theorem unm_goal {s L bc σ ic bcs w V msg w'} :
    GoalX env.cx G s L bc σ ic bcs w V (.fail (.unmodelled msg)) w' := .inl ⟨msg, rfl⟩

theorem all_zero : All G cfg env 0 where
  ev := by
    intro e s k L bc n σ ic bcs w r w' _ _ h
    simp only [eval] at h; cases h; exact unm_goal
  args := by
    intro es s k L acc σ ic bcs w r w' _ _ h
    simp only [evalArgs] at h; cases h; exact unm_goal
  seq := by
    intro es s k L bc n σ ic bcs w r w' _ _ h
    simp only [evalSeq] at h; cases h; exact unm_goal
  cond := by
    intro arms s endB errB L bc n σ ic bcs w r w' _ _ _ h
    simp only [evalCond] at h; cases h; exact unm_goal
  forL := by
    intro c st d cs br ss shdr ds endB k L bc σ ic bcs w r w' _ _ _ _ _ _ _ _ _ h
    simp only [evalForLoop] at h; cases h; exact unm_goal

theorem step_args {es s k L acc σ ic bcs w r w'} (ih : All G cfg env fuel)
    (ha : ShapeArgs G cfg es s k L) (hw : wtArgs es = true)
    (h : evalArgs env (fuel + 1) es w acc = (r, w')) :
    GoalX env.cx G s L false (acc ++ σ) ic bcs w
      (fun st w' => st.length = acc.length + es.length ∧
        ReachO env.cx G ⟨s, 0⟩ ⟨acc ++ σ, ic, bcs, w⟩ ⟨k, 0⟩ ⟨st ++ σ, ic, bcs, w'⟩) r w' := by
  cases ha with
  | nil =>
    simp only [evalArgs] at h
    cases h
    exact ⟨rfl, .refl _ _⟩
  | cons hes he =>
    rename_i e es k'
    simp only [wtArgs, Bool.and_eq_true] at hw
    simp only [evalArgs] at h
    rcases hev : eval env fuel e w with ⟨r1, w1⟩
    rw [hev] at h
    have g1 := ih.ev _ _ _ _ _ _ (acc ++ σ) ic bcs _ _ _ he hw.1 hev
    cases r1 with
    | vals vs =>
      obtain ⟨hlen, hr⟩ := g1
      simp only [] at h
      have g2 := ih.args _ _ _ _ (vs ++ acc) σ ic bcs _ _ _ hes hw.2 h
      rw [List.append_assoc] at g2
      cases r with
      | vals st =>
        obtain ⟨hl2, hr2⟩ := g2
        refine ⟨?_, hr.trans hr2⟩
        simp only [List.length_append, List.length_cons] at hl2 ⊢
        omega
      | _ => exact g2.pass (by intro vs hh; cases hh) hr (by simp)
    | _ =>
      simp only [] at h
      cases h
      exact g1.same (by intro vs hh; cases hh) (by simp)

theorem step_seq {es s k L bc n σ ic bcs w r w'} (ih : All G cfg env fuel)
    (hs : ShapeSeq G cfg es s k L) (hw : wtSeq bc n es = true)
    (h : evalSeq env (fuel + 1) es w = (r, w')) : Goal env.cx G s k L bc n σ ic bcs w r w' := by
  cases hs with
  | nil hb =>
    simp only [evalSeq] at h
    cases h
    simp only [wtSeq, beq_iff_eq] at hw
    exact ⟨hw.symm ▸ rfl, empty_reach hb⟩
  | cons hes he =>
    rename_i e es k'
    cases hes with
    | nil hb =>
      simp only [evalSeq] at h
      simp only [wtSeq] at hw
      exact (ih.ev _ _ _ _ _ _ σ ic bcs _ _ _ he hw h).post (fun _ _ => empty_reach hb)
    | cons hes2 he2 =>
      rename_i e2 es2 k''
      simp only [evalSeq] at h
      simp only [wtSeq, Bool.and_eq_true] at hw
      rcases hev : eval env fuel e w with ⟨r1, w1⟩
      rw [hev] at h
      have g1 := ih.ev _ _ _ _ _ _ σ ic bcs _ _ _ he hw.1 hev
      cases r1 with
      | vals vs =>
        obtain ⟨hlen, hr⟩ := g1
        simp only [] at h
        have hnil : vs = [] := List.length_eq_zero_iff.mp hlen
        subst hnil
        exact (ih.seq _ _ _ _ _ _ σ ic bcs _ _ _ (.cons hes2 he2) hw.2 h).pre hr
      | _ =>
        simp only [] at h
        cases h
        exact g1.same (by intro vs hh; cases hh) id

/-- what the machine does after a condition `c` (entry `s`, then the branch block `ts / es`) -/
def CondB (cx : Ctx) (G : Graph) (s ts es : Nat) (σ : List Val) (ic : List Nat) (bcs : List Bytes) (w : World) :
    Res → World → Prop
  | .vals [.u n], w1 => ReachO cx G ⟨s, 0⟩ ⟨σ, ic, bcs, w⟩ ⟨if n = 0 then es else ts, 0⟩ ⟨σ, ic, bcs, w1⟩
  | .vals _, _ => Fails cx G ⟨s, 0⟩ ⟨σ, ic, bcs, w⟩
  | r, w1 => ∀ L' bc' V', GoalX cx G s L' bc' σ ic bcs w V' r w1

/-- the value of a condition: exactly one value; a `uint64` branches, bytes fail -/
theorem cond_branch {c s br ts es L σ ic bcs w r1 w1} (ih : All G cfg env fuel)
    (hc : Shape G cfg c s br L) (hbr : Blk G br [] (.cond ts es)) (hwc : wt false 1 c = true)
    (hev : eval env fuel c w = (r1, w1)) : CondB env.cx G s ts es σ ic bcs w r1 w1 := by
  have g1 := ih.ev _ _ _ _ _ _ σ ic bcs _ _ _ hc hwc hev
  cases r1 with
  | vals vs =>
    obtain ⟨hlen, hr⟩ := g1
    match vs, hlen with
    | [x], _ =>
      cases x with
      | u n => exact hr.trans (.inr (block_cond hbr))
      | b y => exact hr.fails ⟨_, block_cond_bytes hbr⟩
  | brk => exact absurd g1.1 (by simp)
  | cont => exact absurd g1.1 (by simp)
  | ret v => intro L' bc' V'; exact g1.pass_term trivial (.refl _ _)
  | exit v => intro L' bc' V'; exact g1.pass_term trivial (.refl _ _)
  | fail f => intro L' bc' V'; exact g1.pass_term trivial (.refl _ _)

theorem typeErr_goal {s L bc σ ic bcs w V msg w'} (h : Fails env.cx G ⟨s, 0⟩ ⟨σ, ic, bcs, w⟩) :
    GoalX env.cx G s L bc σ ic bcs w V (.fail (.typeErr msg)) w' := .inr h

theorem case_iteSome {c t e s br ts es endB k L bc n σ ic bcs w r w'} (ih : All G cfg env fuel)
    (hend : Blk G endB [] (.next k)) (ht : Shape G cfg t ts endB L) (hee : Shape G cfg e es endB L)
    (hbr : Blk G br [] (.cond ts es)) (hc : Shape G cfg c s br L)
    (hwc : wt false 1 c = true) (hwt : wt bc n t = true) (hwe : wt bc n e = true)
    (h : eval env (fuel + 1) (.ite c t (some e)) w = (r, w')) :
    Goal env.cx G s k L bc n σ ic bcs w r w' := by
  simp only [eval] at h
  rcases hev : eval env fuel c w with ⟨r1, w1⟩
  rw [hev] at h
  have cb := cond_branch (σ := σ) (ic := ic) (bcs := bcs) ih hc hbr hwc hev
  clear hev
  cases r1 with
  | vals vs =>
    match vs with
    | [] => simp only [CondB] at h cb; cases h; exact typeErr_goal cb
    | [.b y] => simp only [CondB] at h cb; cases h; exact typeErr_goal cb
    | x :: _ :: _ => cases x <;> (simp only [CondB] at h cb; cases h; exact typeErr_goal cb)
    | [.u m] =>
      simp only [CondB] at h cb
      by_cases hm : m = 0
      · simp only [hm, ne_eq, not_true_eq_false, if_false, if_true] at h cb
        exact ((ih.ev _ _ _ _ _ _ σ ic bcs _ _ _ hee hwe h).pre cb).post (fun _ _ => empty_reach hend)
      · simp only [hm, ne_eq, not_false_eq_true, if_true, if_false] at h cb
        exact ((ih.ev _ _ _ _ _ _ σ ic bcs _ _ _ ht hwt h).pre cb).post (fun _ _ => empty_reach hend)
  | _ =>
    simp only [CondB] at h cb
    cases h
    exact cb _ _ _

theorem case_iteNone {c t s br ts endB k L bc n σ ic bcs w r w'} (ih : All G cfg env fuel)
    (hend : Blk G endB [] (.next k)) (ht : Shape G cfg t ts endB L)
    (hbr : Blk G br [] (.cond ts endB)) (hc : Shape G cfg c s br L)
    (hn : n = 0) (hwc : wt false 1 c = true) (hwt : wt bc 0 t = true)
    (h : eval env (fuel + 1) (.ite c t none) w = (r, w')) :
    Goal env.cx G s k L bc n σ ic bcs w r w' := by
  subst hn
  simp only [eval] at h
  rcases hev : eval env fuel c w with ⟨r1, w1⟩
  rw [hev] at h
  have cb := cond_branch (σ := σ) (ic := ic) (bcs := bcs) ih hc hbr hwc hev
  clear hev
  cases r1 with
  | vals vs =>
    match vs with
    | [] => simp only [CondB] at h cb; cases h; exact typeErr_goal cb
    | [.b y] => simp only [CondB] at h cb; cases h; exact typeErr_goal cb
    | x :: _ :: _ => cases x <;> (simp only [CondB] at h cb; cases h; exact typeErr_goal cb)
    | [.u m] =>
      simp only [CondB] at h cb
      by_cases hm : m = 0
      · simp only [hm, ne_eq, not_true_eq_false, if_false, if_true] at h cb
        cases h
        exact ⟨rfl, cb.trans (empty_reach hend)⟩
      · simp only [hm, ne_eq, not_false_eq_true, if_true, if_false] at h cb
        exact ((ih.ev _ _ _ _ _ _ σ ic bcs _ _ _ ht hwt h).pre cb).post (fun _ _ => empty_reach hend)
  | _ =>
    simp only [CondB] at h cb
    cases h
    exact cb _ _ _

theorem step_cond {arms s endB errB L bc n σ ic bcs w r w'} (ih : All G cfg env fuel)
    (hs : ShapeCond G cfg arms s endB errB L) (herr : Blk G errB [.err] .none)
    (hw : wtArms bc n arms = true)
    (h : evalCond env (fuel + 1) arms w = (r, w')) : Goal env.cx G s endB L bc n σ ic bcs w r w' := by
  cases hs with
  | nil =>
    simp only [evalCond] at h
    cases h
    exact .inr ⟨_, block_halt herr rfl⟩
  | cons hrest hb hbr hc =>
    rename_i c b rest br bs nxt
    simp only [evalCond] at h
    simp only [wtArms, Bool.and_eq_true] at hw
    rcases hev : eval env fuel c w with ⟨r1, w1⟩
    rw [hev] at h
    have cb := cond_branch (σ := σ) (ic := ic) (bcs := bcs) ih hc hbr hw.1.1 hev
    clear hev
    cases r1 with
    | vals vs =>
      match vs with
      | [] => simp only [CondB] at h cb; cases h; exact typeErr_goal cb
      | [.b y] => simp only [CondB] at h cb; cases h; exact typeErr_goal cb
      | x :: _ :: _ => cases x <;> (simp only [CondB] at h cb; cases h; exact typeErr_goal cb)
      | [.u m] =>
        simp only [CondB] at h cb
        by_cases hm : m = 0
        · simp only [hm, ne_eq, not_true_eq_false, if_false, if_true] at h cb
          exact (ih.cond _ _ _ _ _ _ _ σ ic bcs _ _ _ hrest herr hw.2 h).pre cb
        · simp only [hm, ne_eq, not_false_eq_true, if_true, if_false] at h cb
          exact (ih.ev _ _ _ _ _ _ σ ic bcs _ _ _ hb hw.1.2 h).pre cb
    | _ =>
      simp only [CondB] at h cb
      cases h
      exact cb _ _ _

theorem condB_no_brk {s ts es σ ic bcs w w1} (cb : CondB env.cx G s ts es σ ic bcs w .brk w1) : False := by
  have := cb none false (fun _ _ => True)
  exact absurd this.1 (by simp)

theorem condB_no_cont {s ts es σ ic bcs w w1} (cb : CondB env.cx G s ts es σ ic bcs w .cont w1) : False := by
  have := cb none false (fun _ _ => True)
  exact absurd this.1 (by simp)

theorem case_while {c d hdr cs br ds endB k L bc n σ ic bcs w r w'} (ih : All G cfg env fuel)
    (hend : Blk G endB [] (.next k)) (hhdr : Blk G hdr [] (.next cs))
    (hc : Shape G cfg c cs br (some ⟨endB, hdr⟩)) (hd : Shape G cfg d ds hdr (some ⟨endB, hdr⟩))
    (hbr : Blk G br [] (.cond ds endB))
    (hw : wt bc n (.while_ c d) = true)
    (h : eval env (fuel + 1) (.while_ c d) w = (r, w')) :
    Goal env.cx G hdr k L bc n σ ic bcs w r w' := by
  have hsh : Shape G cfg (.while_ c d) hdr k L := .while_ hend hhdr hc hd hbr
  have hw' := hw
  simp only [wt, Bool.and_eq_true, beq_iff_eq] at hw'
  obtain ⟨⟨hn, hwc⟩, hwd⟩ := hw'
  simp only [eval] at h
  rcases hev : eval env fuel c w with ⟨r1, w1⟩
  rw [hev] at h
  have cb := cond_branch (σ := σ) (ic := ic) (bcs := bcs) ih hc hbr hwc hev
  have pre0 : ReachO env.cx G ⟨hdr, 0⟩ ⟨σ, ic, bcs, w⟩ ⟨cs, 0⟩ ⟨σ, ic, bcs, w⟩ := empty_reach hhdr
  clear hev
  cases r1 with
  | vals vs =>
    match vs with
    | [] => simp only [CondB] at h cb; cases h; exact typeErr_goal (pre0.fails cb)
    | [.b y] => simp only [CondB] at h cb; cases h; exact typeErr_goal (pre0.fails cb)
    | x :: _ :: _ => cases x <;> (simp only [CondB] at h cb; cases h; exact typeErr_goal (pre0.fails cb))
    | [.u m] =>
      simp only [CondB] at h cb
      by_cases hm : m = 0
      · simp only [hm, if_true] at h cb
        cases h
        exact ⟨hn.symm ▸ rfl, pre0.trans (cb.trans (empty_reach hend))⟩
      · simp only [hm, if_false] at h cb
        have pre1 := pre0.trans cb
        rcases hev2 : eval env fuel d w1 with ⟨r2, w2⟩
        rw [hev2] at h
        have g2 := ih.ev _ _ _ _ _ _ σ ic bcs _ _ _ hd hwd hev2
        cases r2 with
        | vals vs2 =>
          obtain ⟨hl2, hr2⟩ := g2
          have hnil : vs2 = [] := List.length_eq_zero_iff.mp hl2
          subst hnil
          simp only [] at h
          exact (ih.ev _ _ _ _ _ _ σ ic bcs _ _ _ hsh hw h).pre (pre1.trans hr2)
        | cont =>
          obtain ⟨_, l, hl, hr2⟩ := g2
          cases hl
          simp only [] at h
          exact (ih.ev _ _ _ _ _ _ σ ic bcs _ _ _ hsh hw h).pre (pre1.trans hr2)
        | brk =>
          obtain ⟨_, l, hl, hr2⟩ := g2
          cases hl
          simp only [] at h
          cases h
          exact ⟨hn.symm ▸ rfl, pre1.trans (hr2.trans (empty_reach hend))⟩
        | ret v => simp only [] at h; cases h; exact g2.pass_term trivial pre1
        | exit v => simp only [] at h; cases h; exact g2.pass_term trivial pre1
        | fail f => simp only [] at h; cases h; exact g2.pass_term trivial pre1
  | brk => exact (condB_no_brk cb).elim
  | cont => exact (condB_no_cont cb).elim
  | ret v => simp only [] at h; cases h; exact (cb none false (fun _ _ => True)).pass_term trivial pre0
  | exit v => simp only [] at h; cases h; exact (cb none false (fun _ _ => True)).pass_term trivial pre0
  | fail f => simp only [] at h; cases h; exact (cb none false (fun _ _ => True)).pass_term trivial pre0

/-- the part of a `For` iteration after the body: step, then the loop again -/
theorem after_body {c st d cs br ss shdr ds endB k L bc σ ic bcs w w2 r w'} (ih : All G cfg env fuel)
    (hc : Shape G cfg c cs br (some ⟨endB, shdr⟩)) (hst : Shape G cfg st ss cs (some ⟨endB, shdr⟩))
    (hshdr : Blk G shdr [] (.next ss)) (hd : Shape G cfg d ds shdr (some ⟨endB, shdr⟩))
    (hbr : Blk G br [] (.cond ds endB)) (hend : Blk G endB [] (.next k))
    (hwc : wt false 1 c = true) (hws : wt false 0 st = true) (hwd : wt true 0 d = true)
    (pre : ReachO env.cx G ⟨cs, 0⟩ ⟨σ, ic, bcs, w⟩ ⟨shdr, 0⟩ ⟨σ, ic, bcs, w2⟩)
    (h : (match eval env fuel st w2 with
          | (.vals _, w3) => evalForLoop env fuel c st d w3
          | (.brk, w3) => (.vals [], w3)
          | (.cont, w3) => (.fail (.unmodelled "continue inside For step"), w3)
          | r => r) = (r, w')) :
    Goal env.cx G cs k L bc 0 σ ic bcs w r w' := by
  have pre1 := pre.trans (empty_reach (env := env) hshdr)
  rcases hev : eval env fuel st w2 with ⟨r3, w3⟩
  rw [hev] at h
  have g3 := ih.ev _ _ _ _ _ _ σ ic bcs _ _ _ hst hws hev
  cases r3 with
  | vals vs =>
    obtain ⟨hl, hr⟩ := g3
    have hnil : vs = [] := List.length_eq_zero_iff.mp hl
    subst hnil
    simp only [] at h
    exact (ih.forL _ _ _ _ _ _ _ _ _ _ _ _ σ ic bcs _ _ _ hc hst hshdr hd hbr hend hwc hws hwd h).pre
      (pre1.trans hr)
  | brk => exact absurd g3.1 (by simp)
  | cont => exact absurd g3.1 (by simp)
  | ret v => simp only [] at h; cases h; exact g3.pass_term trivial pre1
  | exit v => simp only [] at h; cases h; exact g3.pass_term trivial pre1
  | fail f => simp only [] at h; cases h; exact g3.pass_term trivial pre1

theorem step_for {c st d cs br ss shdr ds endB k L bc σ ic bcs w r w'} (ih : All G cfg env fuel)
    (hc : Shape G cfg c cs br (some ⟨endB, shdr⟩)) (hst : Shape G cfg st ss cs (some ⟨endB, shdr⟩))
    (hshdr : Blk G shdr [] (.next ss)) (hd : Shape G cfg d ds shdr (some ⟨endB, shdr⟩))
    (hbr : Blk G br [] (.cond ds endB)) (hend : Blk G endB [] (.next k))
    (hwc : wt false 1 c = true) (hws : wt false 0 st = true) (hwd : wt true 0 d = true)
    (h : evalForLoop env (fuel + 1) c st d w = (r, w')) :
    Goal env.cx G cs k L bc 0 σ ic bcs w r w' := by
  simp only [evalForLoop] at h
  rcases hev : eval env fuel c w with ⟨r1, w1⟩
  rw [hev] at h
  have cb := cond_branch (σ := σ) (ic := ic) (bcs := bcs) ih hc hbr hwc hev
  clear hev
  cases r1 with
  | vals vs =>
    match vs with
    | [] => simp only [CondB] at h cb; cases h; exact typeErr_goal cb
    | [.b y] => simp only [CondB] at h cb; cases h; exact typeErr_goal cb
    | x :: _ :: _ => cases x <;> (simp only [CondB] at h cb; cases h; exact typeErr_goal cb)
    | [.u m] =>
      simp only [CondB] at h cb
      by_cases hm : m = 0
      · simp only [hm, if_true] at h cb
        cases h
        exact ⟨rfl, cb.trans (empty_reach hend)⟩
      · simp only [hm, if_false] at h cb
        rcases hev2 : eval env fuel d w1 with ⟨r2, w2⟩
        rw [hev2] at h
        have g2 := ih.ev _ _ _ _ _ _ σ ic bcs _ _ _ hd hwd hev2
        cases r2 with
        | vals vs2 =>
          obtain ⟨hl2, hr2⟩ := g2
          have hnil : vs2 = [] := List.length_eq_zero_iff.mp hl2
          subst hnil
          simp only [] at h
          exact after_body ih hc hst hshdr hd hbr hend hwc hws hwd (cb.trans hr2) h
        | cont =>
          obtain ⟨_, l, hl, hr2⟩ := g2
          cases hl
          simp only [] at h
          exact after_body ih hc hst hshdr hd hbr hend hwc hws hwd (cb.trans hr2) h
        | brk =>
          obtain ⟨_, l, hl, hr2⟩ := g2
          cases hl
          simp only [] at h
          cases h
          exact ⟨rfl, cb.trans (hr2.trans (empty_reach hend))⟩
        | ret v => simp only [] at h; cases h; exact g2.pass_term trivial cb
        | exit v => simp only [] at h; cases h; exact g2.pass_term trivial cb
        | fail f => simp only [] at h; cases h; exact g2.pass_term trivial cb
  | brk => exact (condB_no_brk cb).elim
  | cont => exact (condB_no_cont cb).elim
  | ret v => simp only [] at h; cases h; exact cb _ _ _
  | exit v => simp only [] at h; cases h; exact cb _ _ _
  | fail f => simp only [] at h; cases h; exact cb _ _ _

theorem case_for {i c st d s cs br ss shdr ds endB k L bc n σ ic bcs w r w'} (ih : All G cfg env fuel)
    (hend : Blk G endB [] (.next k))
    (hc : Shape G cfg c cs br (some ⟨endB, shdr⟩)) (hst : Shape G cfg st ss cs (some ⟨endB, shdr⟩))
    (hshdr : Blk G shdr [] (.next ss)) (hd : Shape G cfg d ds shdr (some ⟨endB, shdr⟩))
    (hbr : Blk G br [] (.cond ds endB)) (hi : Shape G cfg i s cs (some ⟨endB, shdr⟩))
    (hn : n = 0) (hwi : wt false 0 i = true)
    (hwc : wt false 1 c = true) (hws : wt false 0 st = true) (hwd : wt true 0 d = true)
    (h : eval env (fuel + 1) (.for_ i c st d) w = (r, w')) :
    Goal env.cx G s k L bc n σ ic bcs w r w' := by
  subst hn
  simp only [eval] at h
  rcases hev : eval env fuel i w with ⟨r1, w1⟩
  rw [hev] at h
  have g1 := ih.ev _ _ _ _ _ _ σ ic bcs _ _ _ hi hwi hev
  cases r1 with
  | vals vs =>
    obtain ⟨hl, hr⟩ := g1
    have hnil : vs = [] := List.length_eq_zero_iff.mp hl
    subst hnil
    simp only [] at h
    exact (ih.forL _ _ _ _ _ _ _ _ _ _ _ _ σ ic bcs _ _ _ hc hst hshdr hd hbr hend hwc hws hwd h).pre hr
  | brk => exact absurd g1.1 (by simp)
  | cont => exact absurd g1.1 (by simp)
  | ret v => simp only [] at h; cases h; exact g1.pass_term trivial (.refl _ _)
  | exit v => simp only [] at h; cases h; exact g1.pass_term trivial (.refl _ _)
  | fail f => simp only [] at h; cases h; exact g1.pass_term trivial (.refl _ _)

theorem case_assert3 {c s ob k L bc n σ ic bcs w r w'} (ih : All G cfg env fuel)
    (hb : Blk G ob [.prim "assert" []] (.next k)) (hc : Shape G cfg c s ob L)
    (hn : n = 0) (hwc : wt false 1 c = true)
    (h : eval env (fuel + 1) (.assert_ c) w = (r, w')) : Goal env.cx G s k L bc n σ ic bcs w r w' := by
  subst hn
  simp only [eval] at h
  rcases hev : eval env fuel c w with ⟨r1, w1⟩
  rw [hev] at h
  have g1 := ih.ev _ _ _ _ _ _ σ ic bcs _ _ _ hc hwc hev
  cases r1 with
  | vals vs =>
    obtain ⟨hlen, hr⟩ := g1
    match vs, hlen with
    | [x], _ =>
      cases x with
      | b y =>
        simp only [] at h
        cases h
        refine typeErr_goal (hr.fails (Fails.of_halts (f := .typeErr "expected uint64") (block_halt hb ?_)))
        simp only [execOps, execSimple, List.cons_append, List.nil_append, exec_assert]
      | u m =>
        simp only [] at h
        by_cases hm : m = 0
        · simp only [hm, ne_eq, not_true_eq_false, if_false] at h
          cases h
          refine .inr (hr.fails (Fails.of_halts (f := .logic "assert failed") (block_halt hb ?_)))
          simp only [execOps, execSimple, List.cons_append, List.nil_append, exec_assert, hm, ne_eq,
            not_true_eq_false, if_false]
        · simp only [hm, ne_eq, not_false_eq_true, if_true] at h
          cases h
          have hlen' : σ.length ≤ maxStack → True := fun _ => trivial
          by_cases hlt : σ.length ≤ maxStack
          · refine ⟨rfl, hr.trans (.inr (block_next hb ?_))⟩
            simp only [execOps, execSimple, List.cons_append, List.nil_append, exec_assert, hm, ne_eq,
              not_false_eq_true, if_true, hlt]
          · refine ⟨rfl, hr.trans (.inl (block_halt hb ?_))⟩
            simp only [execOps, execSimple, List.cons_append, List.nil_append, exec_assert, hm, ne_eq,
              not_false_eq_true, if_true, hlt, if_false, ovf]
  | _ =>
    simp only [] at h
    cases h
    exact g1.same (by intro vs hh; cases hh) (by simp)

theorem case_assert2 {c s br endB errB k L bc n σ ic bcs w r w'} (ih : All G cfg env fuel)
    (hend : Blk G endB [] (.next k)) (herr : Blk G errB [.err] .none)
    (hbr : Blk G br [] (.cond endB errB)) (hc : Shape G cfg c s br L)
    (hn : n = 0) (hwc : wt false 1 c = true)
    (h : eval env (fuel + 1) (.assert_ c) w = (r, w')) : Goal env.cx G s k L bc n σ ic bcs w r w' := by
  subst hn
  simp only [eval] at h
  rcases hev : eval env fuel c w with ⟨r1, w1⟩
  rw [hev] at h
  have cb := cond_branch (σ := σ) (ic := ic) (bcs := bcs) ih hc hbr hwc hev
  clear hev
  cases r1 with
  | vals vs =>
    match vs with
    | [] => simp only [CondB] at h cb; cases h; exact typeErr_goal cb
    | [.b y] => simp only [CondB] at h cb; cases h; exact typeErr_goal cb
    | x :: _ :: _ => cases x <;> (simp only [CondB] at h cb; cases h; exact typeErr_goal cb)
    | [.u m] =>
      simp only [CondB] at h cb
      by_cases hm : m = 0
      · simp only [hm, ne_eq, not_true_eq_false, if_false, if_true] at h cb
        cases h
        exact .inr (cb.fails ⟨_, block_halt herr rfl⟩)
      · simp only [hm, ne_eq, not_false_eq_true, if_true, if_false] at h cb
        cases h
        exact ⟨rfl, cb.trans (empty_reach hend)⟩
  | _ =>
    simp only [] at h
    cases h
    exact cb _ _ _

theorem ret_block {ob k x σ ic bcs w1} (hb : Blk G ob [.ret] (.next k)) :
    Halts env.cx G ⟨ob, 0⟩ ⟨x :: σ, ic, bcs, w1⟩ (retOut x w1) := by
  refine block_halt hb ?_
  cases x <;> rfl

theorem case_ret {e s ob k L bc n σ ic bcs w r w'} (ih : All G cfg env fuel) (hsub : cfg.inSub = false)
    (hb : Blk G ob [if cfg.inSub then .retsub else .ret] (.next k)) (he : Shape G cfg e s ob L)
    (hwe : wt false 1 e = true)
    (h : eval env (fuel + 1) (.ret (some e)) w = (r, w')) : Goal env.cx G s k L bc n σ ic bcs w r w' := by
  rw [hsub] at hb
  simp only [eval] at h
  rcases hev : eval env fuel e w with ⟨r1, w1⟩
  rw [hev] at h
  have g1 := ih.ev _ _ _ _ _ _ σ ic bcs _ _ _ he hwe hev
  cases r1 with
  | vals vs =>
    obtain ⟨hlen, hr⟩ := g1
    match vs, hlen with
    | [x], _ =>
      simp only [] at h
      cases h
      exact hr.haltO (.inr (ret_block hb))
  | _ =>
    simp only [] at h
    cases h
    exact g1.same (by intro vs hh; cases hh) (by simp)

theorem case_exit {e s ob k L bc n σ ic bcs w r w'} (ih : All G cfg env fuel)
    (hb : Blk G ob [.ret] (.next k)) (he : Shape G cfg e s ob L)
    (hwe : wt false 1 e = true)
    (h : eval env (fuel + 1) (.exit e) w = (r, w')) : Goal env.cx G s k L bc n σ ic bcs w r w' := by
  simp only [eval] at h
  rcases hev : eval env fuel e w with ⟨r1, w1⟩
  rw [hev] at h
  have g1 := ih.ev _ _ _ _ _ _ σ ic bcs _ _ _ he hwe hev
  cases r1 with
  | vals vs =>
    obtain ⟨hlen, hr⟩ := g1
    match vs, hlen with
    | [x], _ =>
      simp only [] at h
      cases h
      exact hr.haltO (.inr (ret_block hb))
  | _ =>
    simp only [] at h
    cases h
    exact g1.same (by intro vs hh; cases hh) (by simp)

theorem case_err {s k L bc n σ ic bcs w r w'} (hb : Blk G s [.err] (.next k))
    (h : eval env (fuel + 1) .err w = (r, w')) : Goal env.cx G s k L bc n σ ic bcs w r w' := by
  simp only [eval] at h
  cases h
  exact .inr ⟨_, block_halt hb rfl⟩

theorem case_noteNone {s k L bc n σ ic bcs w r w'} (hb : Blk G s [] (.next k)) (hn : n = 0)
    (h : eval env (fuel + 1) (.note none) w = (r, w')) : Goal env.cx G s k L bc n σ ic bcs w r w' := by
  simp only [eval] at h
  cases h
  exact ⟨hn.symm ▸ rfl, empty_reach hb⟩

theorem case_nonce {b e s es k L bc n σ ic bcs w r w'} (ih : All G cfg env fuel)
    (he : Shape G cfg e es k L) (hb : Blk G s [.pushBytes b, .prim "pop" []] (.next es))
    (hwe : wt bc n e = true)
    (h : eval env (fuel + 1) (.nonce b e) w = (r, w')) : Goal env.cx G s k L bc n σ ic bcs w r w' := by
  simp only [eval] at h
  have g1 := ih.ev _ _ _ _ _ _ σ ic bcs _ _ _ he hwe h
  refine g1.pre ?_
  by_cases hlt : σ.length < maxStack
  · refine .inr (block_next hb ?_)
    have hle : σ.length ≤ maxStack := Nat.le_of_lt hlt
    simp only [execOps, execSimple, pushV, hlt, if_true, exec_pop, hle]
  · refine .inl (block_halt hb ?_)
    simp only [execOps, execSimple, pushV, hlt, if_false, ovf]

theorem stores_exec {σ ic bcs} : ∀ (vs : List Nat) (vals : List Val) (w : World),
    vals.length = vs.length → (∀ v ∈ vs, v < 256) →
    execOps env.cx (vs.map .store) ⟨vals ++ σ, ic, bcs, w⟩ =
      .ok ⟨σ, ic, bcs, { w with scratch := (vs.zip vals).foldl (fun sc (p : Var × Val) => setSlot sc p.1 p.2) w.scratch }⟩ := by
  intro vs
  induction vs with
  | nil =>
    intro vals w hl _
    have : vals = [] := List.length_eq_zero_iff.mp hl
    subst this
    rfl
  | cons v vs ih =>
    intro vals w hl hv
    match vals, hl with
    | x :: vals', hl =>
      have hv0 : v < 256 := hv v (List.mem_cons_self ..)
      have hl' : vals'.length = vs.length := by simpa using hl
      have := ih vals' { w with scratch := setSlot w.scratch v x } hl'
        (fun u hu => hv u (List.mem_cons_of_mem _ hu))
      simp only [List.map_cons, execOps, execSimple, List.cons_append, hv0, if_true, this, List.zip_cons_cons,
        List.foldl_cons]

theorem case_multi {op imms args outs s ob sb k L bc n σ ic bcs w r w' k0 p} (ih : All G cfg env fuel)
    (hsb : Blk G sb (outs.reverse.map .store) (.next k)) (hb : Blk G ob [.prim op imms] (.next sb))
    (ha : ShapeArgs G cfg args s ob L)
    (hn : n = 0) (hsig : primSig op = some (k0, p)) (hk : args.length = k0) (hp : p = outs.length)
    (houts : ∀ v ∈ outs, v < 256) (hwa : wtArgs args = true)
    (h : eval env (fuel + 1) (.multi op imms args outs) w = (r, w')) :
    Goal env.cx G s k L bc n σ ic bcs w r w' := by
  subst hn
  simp only [eval] at h
  rcases hev : evalArgs env fuel args w [] with ⟨r1, w1⟩
  rw [hev] at h
  have g1 := ih.args _ _ _ _ [] σ ic bcs _ _ _ ha hwa hev
  simp only [List.nil_append, List.length_nil, Nat.zero_add] at g1
  cases r1 with
  | vals st =>
    obtain ⟨hlen, hr⟩ := g1
    have pb := prim_block (env := env) (σ := σ) (ic := ic) (bcs := bcs) (w1 := w1) hsig hb (hlen.trans hk)
    simp only [] at h
    cases hB : execPrim env.cx op imms w1 st with
    | error f =>
      rw [hB] at h pb
      cases h
      exact .inr (hr.fails ⟨_, pb⟩)
    | ok x =>
      obtain ⟨st', w2⟩ := x
      rw [hB] at h pb
      simp only [] at h pb
      have hl' : st'.length = outs.length := pb.1.trans hp
      rw [if_pos hl'] at h
      cases h
      refine ⟨rfl, hr.trans (pb.2.trans (.inr (block_next hsb ?_)))⟩
      have := stores_exec (env := env) (σ := σ) (ic := ic) (bcs := bcs) outs.reverse st' w2
        (by simpa using hl') (fun v hv => houts v (List.mem_reverse.mp hv))
      simpa using this
  | _ =>
    simp only [] at h
    cases h
    exact g1.same (by intro vs hh; cases hh) (by simp)

/-! ### Substring / Extract / Suffix: the source evaluates `[s, a, b]` and applies the pseudo
    operation; the graph evaluates the lowered operand list and the selected opcodes. -/

theorem evalArgs_nil (g : Nat) (w : World) (acc : List Val) :
    evalArgs env (g + 1) [] w acc = (.vals acc, w) := by
  simp only [evalArgs]

theorem evalArgs_int1 (g a : Nat) (w : World) (acc : List Val) :
    evalArgs env g [.int a] w acc =
      if 2 ≤ g then (.vals (.u a :: acc), w) else (.fail (.unmodelled "fuel"), w) := by
  match g with
  | 0 => simp [evalArgs]
  | 1 => simp [evalArgs, eval]
  | g + 2 => simp [evalArgs, eval]

theorem evalArgs_int2 (g a b : Nat) (w : World) (acc : List Val) :
    evalArgs env g [.int a, .int b] w acc =
      if 3 ≤ g then (.vals (.u b :: .u a :: acc), w) else (.fail (.unmodelled "fuel"), w) := by
  match g with
  | 0 => simp [evalArgs]
  | 1 => simp [evalArgs, eval]
  | 2 => simp [evalArgs, eval]
  | g + 3 => simp [evalArgs, eval]

/-- relation between the operand evaluation of the source (`args`) and of the graph (`args'`) -/
def LowRel (env : Env) (f : Nat) (args args' : List Expr) (w : World) (S : List Val → List Val → World → Prop) : Prop :=
  (∃ msg w1, evalArgs env f args w [] = (.fail (.unmodelled msg), w1)) ∨
  (∃ sst gst w1, evalArgs env f args w [] = (.vals sst, w1) ∧ evalArgs env f args' w [] = (.vals gst, w1) ∧
    (gst.length = args'.length → S sst gst w1)) ∨
  ((∀ st, (evalArgs env f args w []).1 ≠ .vals st) ∧ evalArgs env f args' w [] = evalArgs env f args w [])

theorem lowRel_self (f : Nat) (args : List Expr) (w : World) {S : List Val → List Val → World → Prop}
    (hS : ∀ st w1, st.length = args.length → S st st w1) : LowRel env f args args w S := by
  rcases hev : evalArgs env f args w [] with ⟨r1, w1⟩
  cases r1 with
  | vals st => exact .inr (.inl ⟨st, st, w1, hev, hev, hS st w1⟩)
  | _ => exact .inr (.inr ⟨(by rw [hev]; intro st hh; cases hh), rfl⟩)

theorem lowRel_two (f : Nat) (s : Expr) (a b a' b' : Nat) (w : World) {S : List Val → List Val → World → Prop}
    (hS : ∀ x w1, S [.u b, .u a, x] [.u b', .u a', x] w1) :
    LowRel env f [s, .int a, .int b] [s, .int a', .int b'] w S := by
  match f with
  | 0 => exact .inl ⟨"fuel", w, by simp only [evalArgs]⟩
  | g + 1 =>
    unfold LowRel
    simp only [evalArgs]
    rcases eval env g s w with ⟨r1, w1⟩
    cases r1 with
    | vals vs =>
      simp only [evalArgs_int2, List.append_nil]
      by_cases hg : 3 ≤ g
      · simp only [hg, if_true]
        refine .inr (.inl ⟨_, _, w1, rfl, rfl, ?_⟩)
        intro hl
        match vs, hl with
        | [x], _ => exact hS x w1
      · simp only [hg, if_false]
        exact .inl ⟨_, w1, rfl⟩
    | _ => exact .inr (.inr ⟨(by intro st hh; cases hh), rfl⟩)

theorem lowRel_two_one (f : Nat) (s : Expr) (a b : Nat) (w : World) {S : List Val → List Val → World → Prop}
    (hS : ∀ x w1, S [.u b, .u a, x] [x] w1) :
    LowRel env f [s, .int a, .int b] [s] w S := by
  match f with
  | 0 => exact .inl ⟨"fuel", w, by simp only [evalArgs]⟩
  | g + 1 =>
    unfold LowRel
    simp only [evalArgs]
    rcases eval env g s w with ⟨r1, w1⟩
    cases r1 with
    | vals vs =>
      simp only [evalArgs_int2, List.append_nil]
      by_cases hg : 3 ≤ g
      · simp only [hg, if_true]
        obtain ⟨g', rfl⟩ : ∃ g', g = g' + 1 := ⟨g - 1, by omega⟩
        simp only [evalArgs_nil]
        refine .inr (.inl ⟨_, _, w1, rfl, rfl, ?_⟩)
        intro hl
        match vs, hl with
        | [x], _ => exact hS x w1
      · simp only [hg, if_false]
        exact .inl ⟨_, w1, rfl⟩
    | _ => exact .inr (.inr ⟨(by intro st hh; cases hh), rfl⟩)

theorem lowRel_one_one (f : Nat) (s : Expr) (a : Nat) (w : World) {S : List Val → List Val → World → Prop}
    (hS : ∀ x w1, S [.u a, x] [x] w1) :
    LowRel env f [s, .int a] [s] w S := by
  match f with
  | 0 => exact .inl ⟨"fuel", w, by simp only [evalArgs]⟩
  | g + 1 =>
    unfold LowRel
    simp only [evalArgs]
    rcases eval env g s w with ⟨r1, w1⟩
    cases r1 with
    | vals vs =>
      simp only [evalArgs_int1, List.append_nil]
      by_cases hg : 2 ≤ g
      · simp only [hg, if_true]
        obtain ⟨g', rfl⟩ : ∃ g', g = g' + 1 := ⟨g - 1, by omega⟩
        simp only [evalArgs_nil]
        refine .inr (.inl ⟨_, _, w1, rfl, rfl, ?_⟩)
        intro hl
        match vs, hl with
        | [x], _ => exact hS x w1
      · simp only [hg, if_false]
        exact .inl ⟨_, w1, rfl⟩
    | _ => exact .inr (.inr ⟨(by intro st hh; cases hh), rfl⟩)

/-- common end of all lowered forms -/
theorem lowered {s ob k L bc σ ic bcs w r w' f args args' srcop ops} (ih : All G cfg env f)
    (hb : Blk G ob ops (.next k)) (ha : ShapeArgs G cfg args' s ob L) (hwa : wtArgs args' = true)
    (hrel : LowRel env f args args' w (fun sst gst w1 => BlockSim env.cx ops gst sst srcop σ ic bcs w1))
    (h : evalOp env (f + 1) srcop args w = (r, w')) : Goal env.cx G s k L bc 1 σ ic bcs w r w' := by
  simp only [evalOp] at h
  rcases hrel with ⟨msg, w1, hR⟩ | ⟨sst, gst, w1, hR, hR', hS⟩ | ⟨hnv, hR'⟩
  · rw [hR] at h
    simp only [] at h
    cases h
    exact unm_goal
  · rw [hR] at h
    simp only [] at h
    have g1 := ih.args _ _ _ _ [] σ ic bcs _ _ _ ha hwa hR'
    simp only [List.nil_append, List.length_nil, Nat.zero_add] at g1
    obtain ⟨hlen, hr⟩ := g1
    have hsim : BlockSim env.cx ops gst sst srcop σ ic bcs w1 := hS hlen
    unfold BlockSim at hsim
    cases hB : execPrim env.cx srcop [] w1 sst with
    | error e =>
      rw [hB] at h hsim
      cases h
      obtain ⟨f', hf⟩ := hsim
      exact .inr (hr.fails ⟨f', block_halt hb hf⟩)
    | ok x =>
      obtain ⟨st', w2⟩ := x
      rw [hB] at h hsim
      cases h
      obtain ⟨hl1, hok | hov⟩ := hsim
      · exact ⟨hl1, hr.trans (.inr (block_next hb hok))⟩
      · exact ⟨hl1, hr.trans (.inl (block_halt hb hov))⟩
  · rcases hR : evalArgs env f args w [] with ⟨r1, w1⟩
    rw [hR] at h hR' hnv
    have g1 := ih.args _ _ _ _ [] σ ic bcs _ _ _ ha hwa hR'
    simp only [List.nil_append] at g1
    cases r1 with
    | vals st => exact absurd rfl (hnv st)
    | _ =>
      simp only [] at h
      cases h
      exact g1.same (by intro vs hh; cases hh) (by simp)

theorem lowerSubstring_cases {v : Nat} {a b : Expr} {low : Low} (h : lowerSubstring v a b = .ok low) :
    low = .asGiven (.prim "substring3" []) ∨
    ∃ st en, a = .int st ∧ b = .int en ∧ st ≤ en ∧
      ((low = .one (.prim "extract" [toString st, toString (en - st)]) ∧ 0 < en - st ∧ st < 256 ∧ en - st < 256) ∨
       low = .consts (.prim "extract3" []) st (en - st) ∨
       (low = .one (.prim "substring" [toString st, toString en]) ∧ st < 256 ∧ en < 256)) := by
  unfold lowerSubstring at h
  split at h
  · rename_i st en
    split at h
    · cases h
    · rename_i hlt
      have hle : st ≤ en := Nat.le_of_not_lt hlt
      simp only [] at h
      split at h
      · rename_i h1
        split at h
        · rename_i h2
          cases h
          exact .inr ⟨st, en, rfl, rfl, hle, .inl ⟨rfl, h1.1, h2.1, h2.2⟩⟩
        · cases h
          exact .inr ⟨st, en, rfl, rfl, hle, .inr (.inl rfl)⟩
      · split at h
        · rename_i h2
          cases h
          exact .inr ⟨st, en, rfl, rfl, hle, .inr (.inr ⟨rfl, h2.1, h2.2⟩)⟩
        · cases h
          exact .inl rfl
  · cases h
    exact .inl rfl

theorem lowerExtract_cases (a l : Expr) :
    lowerExtract a l = .asGiven (.prim "extract3" []) ∨
    ∃ st ln, a = .int st ∧ l = .int ln ∧
      lowerExtract a l = .one (.prim "extract" [toString st, toString ln]) ∧ st < 256 ∧ 0 < ln ∧ ln < 256 := by
  unfold lowerExtract
  split
  · rename_i st ln
    split
    · rename_i h
      exact .inr ⟨st, ln, rfl, rfl, rfl, h.1, h.2.1, h.2.2⟩
    · exact .inl rfl
  · exact .inl rfl

theorem evalOp_eq_prim (f : Nat) (op : String) (args : List Expr) (w : World) :
    evalOp env (f + 1) op args w = eval env (f + 1) (.prim op [] args) w := by
  simp only [evalOp, eval]

theorem wtArgs3 {s a b : Expr} (hs : wt false 1 s = true) (ha : wt false 1 a = true) (hb : wt false 1 b = true) :
    wtArgs [s, a, b] = true := by
  simp only [wtArgs, hs, ha, hb, Bool.and_self]

theorem wtArgs1 {s : Expr} (hs : wt false 1 s = true) : wtArgs [s] = true := by
  simp only [wtArgs, hs, Bool.and_self]

theorem wt_int (n : Nat) : wt false 1 (.int n) = true := by simp only [wt, beq_self_eq_true]

theorem case_substring {str a b low s ob k L bc n σ ic bcs w r w'}
    (ihs : ∀ f, f ≤ fuel → All G cfg env f)
    (hlow : lowerSubstring cfg.version a b = .ok low) (hb : Blk G ob [lowInstr low] (.next k))
    (ha : ShapeArgs G cfg (lowArgs low str a b) s ob L)
    (hn : n = 1) (hws : wt false 1 str = true) (hwa : wt false 1 a = true) (hwb : wt false 1 b = true)
    (h : eval env (fuel + 1) (.substring str a b) w = (r, w')) :
    Goal env.cx G s k L bc n σ ic bcs w r w' := by
  subst hn
  simp only [eval] at h
  match fuel, ihs, h with
  | 0, _, h => simp only [evalOp] at h; cases h; exact unm_goal
  | f + 1, ihs, h =>
    have ih := ihs f (Nat.le_succ f)
    rcases lowerSubstring_cases hlow with rfl | ⟨st, en, rfl, rfl, hle, hc⟩
    · rw [evalOp_eq_prim] at h
      exact case_prim ih hb ha (k0 := 3) (p := 1) rfl rfl rfl (wtArgs3 hws hwa hwb) h
    · rcases hc with ⟨rfl, h0, h1, h2⟩ | rfl | ⟨rfl, h1, h2⟩
      · exact lowered ih hb ha (wtArgs1 hws)
          (lowRel_two_one _ _ _ _ _ (fun x w1 => sim_sub_extract x hle h1 h2 h0)) h
      · exact lowered ih hb ha (wtArgs3 hws (wt_int _) (wt_int _))
          (lowRel_two _ _ _ _ _ _ _ (fun x w1 => sim_sub_consts x hle)) h
      · exact lowered ih hb ha (wtArgs1 hws)
          (lowRel_two_one _ _ _ _ _ (fun x w1 => sim_sub_substring x h1 h2)) h

theorem case_extract {str a l s ob k L bc n σ ic bcs w r w'}
    (ihs : ∀ f, f ≤ fuel → All G cfg env f)
    (hb : Blk G ob [lowInstr (lowerExtract a l)] (.next k))
    (ha : ShapeArgs G cfg (lowArgs (lowerExtract a l) str a l) s ob L)
    (hn : n = 1) (hws : wt false 1 str = true) (hwa : wt false 1 a = true) (hwl : wt false 1 l = true)
    (h : eval env (fuel + 1) (.extract str a l) w = (r, w')) :
    Goal env.cx G s k L bc n σ ic bcs w r w' := by
  subst hn
  simp only [eval] at h
  match fuel, ihs, h with
  | 0, _, h => simp only [evalOp] at h; cases h; exact unm_goal
  | f + 1, ihs, h =>
    have ih := ihs f (Nat.le_succ f)
    rcases lowerExtract_cases a l with hl | ⟨st, ln, rfl, rfl, hl, h1, h0, h2⟩
    · rw [hl] at hb ha
      rw [evalOp_eq_prim] at h
      exact case_prim ih hb ha (k0 := 3) (p := 1) rfl rfl rfl (wtArgs3 hws hwa hwl) h
    · rw [hl] at hb ha
      exact lowered ih hb ha (wtArgs1 hws)
        (lowRel_two_one _ _ _ _ _ (fun x w1 => sim_ext_extract x h1 h2 h0)) h

theorem case_suffixImm {str st s ob k L bc n σ ic bcs w r w'}
    (ihs : ∀ f, f ≤ fuel → All G cfg env f) (hst : st < 256)
    (hb : Blk G ob [.prim "extract" [toString st, "0"]] (.next k))
    (ha : ShapeArgs G cfg [str] s ob L)
    (hn : n = 1) (hws : wt false 1 str = true)
    (h : eval env (fuel + 1) (.suffix str (.int st)) w = (r, w')) :
    Goal env.cx G s k L bc n σ ic bcs w r w' := by
  subst hn
  simp only [eval] at h
  match fuel, ihs, h with
  | 0, _, h => simp only [evalOp] at h; cases h; exact unm_goal
  | f + 1, ihs, h =>
    exact lowered (ihs f (Nat.le_succ f)) hb ha (wtArgs1 hws)
      (lowRel_one_one _ _ _ _ (fun x w1 => sim_suffix_imm x hst)) h

theorem case_suffixGen {str a s ob k L bc n σ ic bcs w r w'}
    (ihs : ∀ f, f ≤ fuel → All G cfg env f)
    (hb : Blk G ob suffixOps (.next k))
    (ha : ShapeArgs G cfg [str, a] s ob L)
    (hn : n = 1) (hws : wt false 1 str = true) (hwa : wt false 1 a = true)
    (h : eval env (fuel + 1) (.suffix str a) w = (r, w')) :
    Goal env.cx G s k L bc n σ ic bcs w r w' := by
  subst hn
  simp only [eval] at h
  match fuel, ihs, h with
  | 0, _, h => simp only [evalOp] at h; cases h; exact unm_goal
  | f + 1, ihs, h =>
    refine lowered (ihs f (Nat.le_succ f)) hb ha (by simp only [wtArgs, hws, hwa, Bool.and_self])
      (lowRel_self _ _ _ ?_) h
    intro st w1 hl
    match st, hl with
    | [a', x], _ => exact sim_suffix_gen a' x

theorem step_ev {e s k L bc n σ ic bcs w r w'} (hsub : cfg.inSub = false) (hmark : cfg.markIndex = false)
    (ihs : ∀ f, f ≤ fuel → All G cfg env f)
    (hs : Shape G cfg e s k L) (hw : wt bc n e = true)
    (h : eval env (fuel + 1) e w = (r, w')) : Goal env.cx G s k L bc n σ ic bcs w r w' := by
  have ih := ihs fuel (Nat.le_refl _)
  cases hs with
  | int hb =>
    simp only [wt, beq_iff_eq] at hw
    exact case_int hb hw h
  | bytes hb =>
    simp only [wt, beq_iff_eq] at hw
    exact case_bytes hb hw h
  | prim hb ha =>
    rename_i op imms args ob
    simp only [wt, Bool.and_eq_true] at hw
    cases hsig : primSig op with
    | none => rw [hsig] at hw; exact absurd hw.1 (by simp)
    | some kp =>
      obtain ⟨k0, p⟩ := kp
      rw [hsig] at hw
      simp only [Bool.and_eq_true, beq_iff_eq] at hw
      exact case_prim ih hb ha hsig hw.1.1 hw.1.2 hw.2 h
  | load hb =>
    simp only [wt, Bool.and_eq_true, beq_iff_eq, decide_eq_true_eq] at hw
    exact case_load hb hw.1 hw.2 h
  | store hb he =>
    simp only [wt, Bool.and_eq_true, beq_iff_eq, decide_eq_true_eq] at hw
    exact case_store ih hb he hw.1.1 hw.1.2 hw.2 h
  | index hb =>
    simp only [wt, beq_iff_eq] at hw
    exact case_index hmark hb hw h
  | multi hsb hb ha =>
    rename_i op imms args outs ob sb
    simp only [wt, Bool.and_eq_true] at hw
    cases hsig : primSig op with
    | none => rw [hsig] at hw; exact absurd hw.1.1.2 (by simp)
    | some kp =>
      obtain ⟨k0, p⟩ := kp
      rw [hsig] at hw
      simp only [Bool.and_eq_true, beq_iff_eq, List.all_eq_true, decide_eq_true_eq] at hw
      exact case_multi ih hsb hb ha hw.1.1.1 hsig hw.1.1.2.1 hw.1.1.2.2 hw.1.2 hw.2 h
  | seq hss =>
    simp only [wt] at hw
    simp only [eval] at h
    exact ih.seq _ _ _ _ _ _ σ ic bcs _ _ _ hss hw h
  | iteSome hend ht hee hbr hc =>
    simp only [wt, Bool.and_eq_true] at hw
    exact case_iteSome ih hend ht hee hbr hc hw.1.1 hw.1.2 hw.2 h
  | iteNone hend ht hbr hc =>
    simp only [wt, Bool.and_eq_true, beq_iff_eq] at hw
    exact case_iteNone ih hend ht hbr hc hw.1.1 hw.1.2 hw.2 h
  | cond hend herr harms =>
    simp only [wt] at hw
    simp only [eval] at h
    exact (ih.cond _ _ _ _ _ _ _ σ ic bcs _ _ _ harms herr hw h).post (fun _ _ => empty_reach hend)
  | while_ hend hhdr hc hd hbr => exact case_while ih hend hhdr hc hd hbr hw h
  | for_ hend hc hst hshdr hd hbr hi =>
    simp only [wt, Bool.and_eq_true, beq_iff_eq] at hw
    exact case_for ih hend hc hst hshdr hd hbr hi hw.1.1.1.1 hw.1.1.1.2 hw.1.1.2 hw.1.2 hw.2 h
  | brk hb =>
    simp only [wt] at hw
    simp only [eval] at h
    cases h
    exact ⟨hw, _, rfl, empty_reach hb⟩
  | cont hb =>
    simp only [wt] at hw
    simp only [eval] at h
    cases h
    exact ⟨hw, _, rfl, empty_reach hb⟩
  | assert3 hv hb hc =>
    simp only [wt, Bool.and_eq_true, beq_iff_eq] at hw
    exact case_assert3 ih hb hc hw.1 hw.2 h
  | assert2 hv hend herr hbr hc =>
    simp only [wt, Bool.and_eq_true, beq_iff_eq] at hw
    exact case_assert2 ih hend herr hbr hc hw.1 hw.2 h
  | ret hb he =>
    simp only [wt] at hw
    exact case_ret ih hsub hb he hw h
  | exit hb he =>
    simp only [wt] at hw
    exact case_exit ih hb he hw h
  | err hb => exact case_err hb h
  | noteNone hb =>
    simp only [wt, beq_iff_eq] at hw
    exact case_noteNone hb hw h
  | noteSome he =>
    simp only [wt] at hw
    simp only [eval] at h
    exact ih.ev _ _ _ _ _ _ σ ic bcs _ _ _ he hw h
  | nonce he hb =>
    simp only [wt] at hw
    exact case_nonce ih he hb hw h
  | substring hlow hb ha =>
    simp only [wt, Bool.and_eq_true, beq_iff_eq] at hw
    exact case_substring ihs hlow hb ha hw.1.1.1 hw.1.1.2 hw.1.2 hw.2 h
  | extract hb ha =>
    simp only [wt, Bool.and_eq_true, beq_iff_eq] at hw
    exact case_extract ihs hb ha hw.1.1.1 hw.1.1.2 hw.1.2 hw.2 h
  | suffixImm hst hv hb ha =>
    simp only [wt, Bool.and_eq_true, beq_iff_eq] at hw
    exact case_suffixImm ihs hst hb ha hw.1.1 hw.1.2 h
  | suffixGen hb ha =>
    simp only [wt, Bool.and_eq_true, beq_iff_eq] at hw
    exact case_suffixGen ihs hb ha hw.1.1 hw.1.2 hw.2 h

end Cases

/-- **Semantic half.**  If the code of a tree sits in `G` as `Shape` describes, every source
    evaluation is matched by the graph machine (all five mutually recursive evaluators). -/
theorem sound_all {G : Graph} {cfg : GenCfg} {env : Env} (hsub : cfg.inSub = false)
    (hmark : cfg.markIndex = false) : ∀ fuel, All G cfg env fuel := by
  intro fuel
  induction fuel using Nat.strongRecOn with
  | _ fuel ih =>
    match fuel, ih with
    | 0, _ => exact all_zero
    | f + 1, ih =>
      have ihs : ∀ f', f' ≤ f → All G cfg env f' := fun f' h => ih f' (Nat.lt_succ_of_le h)
      have ihf := ihs f (Nat.le_refl _)
      exact {
        ev := fun e s k L bc n σ ic bcs w r w' hs hw h => step_ev hsub hmark ihs hs hw h
        args := fun es s k L acc σ ic bcs w r w' ha hw h => step_args ihf ha hw h
        seq := fun es s k L bc n σ ic bcs w r w' hs hw h => step_seq ihf hs hw h
        cond := fun arms s endB errB L bc n σ ic bcs w r w' hs herr hw h => step_cond ihf hs herr hw h
        forL := fun c st d cs br ss shdr ds endB k L bc σ ic bcs w r w' hc hst hshdr hd hbr hend hwc hws hwd h =>
          step_for ihf hc hst hshdr hd hbr hend hwc hws hwd h }

end PyTealV.Proofs.Shape
