/-
  C05 — soundness of the stack / type discipline checker `StackCheck.ok` against `Avm.step`.

  Main results (bottom of the file):
    * `stackcheck_sound`     every reachable state satisfies the instrumented invariant `Inv`
                             and every halting step is `GoodHalt`;
    * `run_sound`            `Avm.runFrom` from the initial state never ends in `.fail .underflow`,
                             `.fail (.frame _)`, `.fail .badPc`, `.fail (.badLabel _)`;
    * `typeErr_only_at_any`  a run that ends in `.fail (.typeErr _)` does so at a pc whose inspected
                             operands include abstract type `any`;
    * `no_any_no_type_error` if no abstract state contains `any`: no type error at all;
    * `base_preserved`       an instruction never touches the values below its routine's base.
-/
import PyTealV.Proofs.C05Struct
namespace PyTealV.Proofs.C05
open PyTealV PyTealV.Avm PyTealV.Check.StackCheck

/-! ### The invariant -/

/-- The call stack is consistent with the certificate: `FramesOK c rt pd calls rest` says that the
    current routine is `rt` (0 = main, with an empty call stack and nothing below it), that `rest`
    — the operand stack below the current routine's base — splits into the caller's own values and
    what lies below the caller, that the frame records `height = base + #args`, the `proto` state,
    and that the certificate has a state for the return site that accepts the summary's results on
    top of the caller's remaining values. -/
inductive FramesOK (c : Cert) : Nat → Bool → List Frame → List Val → Prop
  | main : FramesOK c 0 false [] []
  | sub {r : Nat} {pd : Bool} {f : Frame} {cs : List Frame} {sg : RSig} {own rest : List Val}
      {restTys : List ATy} {crt : Nat} {cpd : Bool} :
      r ≠ 0 → c.routines[r]? = some sg →
      TysOK own restTys → FramesOK c crt cpd cs rest →
      f.height = sg.args.length + (own.length + rest.length) →
      f.proto = (if pd then some (sg.args.length, sg.rets.length) else none) →
      (sg.returns = true → c.need f.retPc ⟨crt, cpd, sg.rets ++ restTys⟩ = true) →
      FramesOK c r pd (f :: cs) (own ++ rest)

/-- the instrumented invariant with explicit witnesses: abstract state `x` at the pc, the routine's
    own segment `own` (typed by `x.tys`, so `own.length` = abstract height) on top of `rest` -/
def InvW (c : Cert) (s : St) (x : AState) (own rest : List Val) : Prop :=
  c.stateAt s.pc = some x ∧ s.ms.stack = own ++ rest ∧ TysOK own x.tys ∧
    FramesOK c x.rt x.proto s.calls rest ∧ SlotsOK c s.ms.world.scratch

def Inv (c : Cert) (s : St) : Prop := ∃ x own rest, InvW c s x own rest

/-- outcomes a checked program may halt with at `pc` -/
def GoodHalt (c : Cert) (p : Program) (pc : Nat) : Outcome → Prop
  | .fail .underflow => False
  | .fail (.typeErr _) => anyAt c p pc = true
  | .fail (.frame _) => False
  | .fail .badPc => False
  | .fail (.badLabel _) => False
  | _ => True

/-! ### Reading the certificate check -/

theorem AState.le_iff {x y : AState} (h : x.le y = true) :
    x.rt = y.rt ∧ x.proto = y.proto ∧ tysLe x.tys y.tys = true := by
  unfold AState.le at h
  simp only [Bool.and_eq_true, beq_iff_eq] at h
  exact ⟨h.1.1, h.1.2, h.2⟩

theorem need_iff {c : Cert} {pc : Nat} {x : AState} (h : c.need pc x = true) :
    ∃ y, c.stateAt pc = some y ∧ x.rt = y.rt ∧ x.proto = y.proto ∧ tysLe x.tys y.tys = true := by
  unfold Cert.need at h
  split at h
  · rename_i y hy; exact ⟨y, hy, AState.le_iff h⟩
  · cases h

theorem stateAt_lt {c : Cert} {pc : Nat} {x : AState} (h : c.stateAt pc = some x) : pc < c.states.size := by
  unfold Cert.stateAt at h
  cases hs : c.states[pc]? with
  | none => simp [hs] at h
  | some o => exact (Array.getElem?_eq_some_iff.mp hs).1

structure OkFacts (c : Cert) (p : Program) : Prop where
  size : c.states.size = p.size + 1
  slots : slotsInit c = true
  entry : c.need 0 ⟨0, false, []⟩ = true
  pcs : ∀ pc, pc ≤ p.size → checkPc c p pc = true

theorem ok_facts {c : Cert} {p : Program} (h : ok c p = true) : OkFacts c p := by
  unfold ok at h
  simp only [Bool.and_eq_true, beq_iff_eq, List.all_eq_true, List.mem_range] at h
  exact ⟨h.1.1.1, h.1.1.2, h.1.2, fun pc hpc => h.2 pc (by omega)⟩

/-- what `checkPc` gives at an instruction -/
theorem ok_instr {c : Cert} {p : Program} (h : OkFacts c p) {pc : Nat} {x : AState} {ln : Line}
    (hx : c.stateAt pc = some x) (hl : p[pc]? = some ln) :
    ∃ ss, transfer c p pc x ln.instr = .ok ss ∧ ∀ q ∈ ss, c.need q.1 q.2 = true := by
  have hpc : pc ≤ p.size := by have := stateAt_lt hx; rw [h.size] at this; omega
  have := h.pcs pc hpc
  unfold checkPc at this
  simp only [hx, hl] at this
  split at this
  · rename_i ss hss
    exact ⟨ss, hss, by simpa [List.all_eq_true] using this⟩
  · cases this

theorem ok_end {c : Cert} {p : Program} (h : OkFacts c p) {pc : Nat} {x : AState}
    (hx : c.stateAt pc = some x) (hl : p[pc]? = none) :
    pc = p.size ∧ x.rt = 0 ∧ endOK x.tys = true := by
  have hlt := stateAt_lt hx; rw [h.size] at hlt
  have hge : p.size ≤ pc := by
    rcases Nat.lt_or_ge pc p.size with h' | h'
    · simp [Array.getElem?_eq_getElem h'] at hl
    · exact h'
  have hpc : pc = p.size := by omega
  have := h.pcs pc (by omega)
  unfold checkPc at this
  simp only [hx, hl, Bool.and_eq_true, beq_iff_eq] at this
  exact ⟨hpc, this.1, this.2⟩

/-- the invariant at a successor the certificate subsumes -/
theorem inv_of_need {c : Cert} {pc' : Nat} {x' : AState} {calls : List Frame} {m : MS} {own rest : List Val}
    (hn : c.need pc' x' = true) (hst : m.stack = own ++ rest) (hty : TysOK own x'.tys)
    (hfr : FramesOK c x'.rt x'.proto calls rest) (hsl : SlotsOK c m.world.scratch) :
    Inv c { pc := pc', calls := calls, ms := m } := by
  obtain ⟨y, hy, hrt, hpr, hle⟩ := need_iff hn
  exact ⟨y, own, rest, hy, hst, TysOK_le hty hle, by rw [← hrt, ← hpr]; exact hfr, hsl⟩

/-! ### One step -/

/-- result of a straight-line instruction is fine: the invariant holds at `pc + 1` with the same
    `rest` below the routine's base, or the machine halts with an allowed outcome -/
def SRGood (c : Cert) (p : Program) (s : St) (rest : List Val) : SR → Prop
  | .ok m => Inv c { s with pc := s.pc + 1, ms := m } ∧ ∃ own', m.stack = own' ++ rest
  | .halt o => GoodHalt c p s.pc o

/-- result of any instruction is fine -/
def StepGood (c : Cert) (p : Program) (s : St) (rest : List Val) : StepR → Prop
  | .next s' => Inv c s' ∧ (s'.calls = s.calls → ∃ own', s'.ms.stack = own' ++ rest)
  | .halt o => GoodHalt c p s.pc o

theorem stepGood_of_simple {c : Cert} {p : Program} {cx : Ctx} {s : St} {rest : List Val} {ln : Line} {r : SR}
    (hl : p[s.pc]? = some ln) (he : execSimple cx ln.instr s.ms = some r) (h : SRGood c p s rest r) :
    StepGood c p s rest (step cx p s) := by
  unfold step
  simp only [hl, he]
  cases r with
  | ok m => exact ⟨h.1, fun _ => h.2⟩
  | halt o => exact h

section
variable {c : Cert} {p : Program} {cx : Ctx} {s : St} {x : AState} {own rest : List Val}

/-- a straight-line instruction that keeps routine and proto flag -/
theorem srGood_ok {m : MS} {x' : AState} {own' : List Val} (hi : InvW c s x own rest)
    (hn : c.need (s.pc + 1) x' = true) (hrt : x'.rt = x.rt) (hpr : x'.proto = x.proto)
    (hst : m.stack = own' ++ rest) (hty : TysOK own' x'.tys) (hsl : SlotsOK c m.world.scratch) :
    SRGood c p s rest (.ok m) :=
  ⟨inv_of_need hn hst hty (by rw [hrt, hpr]; exact hi.2.2.2.1) hsl, own', hst⟩

theorem pushV_good {v : Val} {t : ATy} (hi : InvW c s x own rest)
    (hn : c.need (s.pc + 1) (x.push t) = true) (hv : hasTy v t) : SRGood c p s rest (pushV s.ms v) := by
  unfold pushV
  split
  · exact srGood_ok (own' := v :: own) hi hn rfl rfl (by simp [hi.2.1])
      (show TysOK (v :: own) (t :: x.tys) from ⟨hv, hi.2.2.1⟩) hi.2.2.2.2
  · trivial

theorem need_single {c : Cert} {pc : Nat} {x' : AState}
    (h : ∀ q ∈ [(pc, x')], c.need q.1 q.2 = true) : c.need pc x' = true := h (pc, x') (by simp)

theorem covered_prim {p : Program} (hcov : covered p = true) {pc : Nat} {ln : Line} (hl : p[pc]? = some ln)
    {op : String} {imms : List String} (hins : ln.instr = .prim op imms) : coveredPrim op imms = true := by
  unfold covered at hcov
  rw [Array.all_eq_true_iff_forall_mem] at hcov
  have := hcov ln (Array.mem_of_getElem? hl)
  simpa [hins] using this

theorem anyAt_of {c : Cert} {p : Program} {pc : Nat} {x : AState} {ln : Line}
    (hx : c.stateAt pc = some x) (hl : p[pc]? = some ln) (h : (operandTys ln.instr x.tys).any ATy.isAny = true) :
    anyAt c p pc = true := by
  unfold anyAt; simp only [hx, hl]; exact h

/-- every straight-line instruction (those `execSimple` handles) -/
theorem simple_good (hcov : covered p = true) (hc : CtxOK cx) (hi : InvW c s x own rest)
    {ln : Line} (hl : p[s.pc]? = some ln) {ss : List (Nat × AState)}
    (htr : transfer c p s.pc x ln.instr = .ok ss) (hneed : ∀ q ∈ ss, c.need q.1 q.2 = true)
    {r : SR} (he : execSimple cx ln.instr s.ms = some r) : SRGood c p s rest r := by
  obtain ⟨hx, hst, hty, hfr, hsl⟩ := hi
  have hi : InvW c s x own rest := ⟨hx, hst, hty, hfr, hsl⟩
  cases hins : ln.instr with
  | label l =>
    rw [hins] at htr he
    simp only [transfer, execSimple, Except.ok.injEq, Option.some.injEq] at htr he
    subst htr he
    exact srGood_ok hi (need_single hneed) rfl rfl hst hty hsl
  | pragma a b =>
    rw [hins] at htr he
    simp only [transfer, execSimple, Except.ok.injEq, Option.some.injEq] at htr he
    subst htr he
    exact srGood_ok hi (need_single hneed) rfl rfl hst hty hsl
  | intcblock vs =>
    rw [hins] at htr he
    simp only [transfer, execSimple, Except.ok.injEq, Option.some.injEq] at htr he
    subst htr he
    exact srGood_ok hi (need_single hneed) rfl rfl hst hty hsl
  | bytecblock vs =>
    rw [hins] at htr he
    simp only [transfer, execSimple, Except.ok.injEq, Option.some.injEq] at htr he
    subst htr he
    exact srGood_ok hi (need_single hneed) rfl rfl hst hty hsl
  | intc i =>
    rw [hins] at htr he
    simp only [transfer, execSimple, Except.ok.injEq, Option.some.injEq] at htr he
    subst htr he
    split
    · exact pushV_good (t := .uint64) hi (need_single hneed) trivial
    · trivial
  | bytec i =>
    rw [hins] at htr he
    simp only [transfer, execSimple, Except.ok.injEq, Option.some.injEq] at htr he
    subst htr he
    split
    · exact pushV_good (t := .bytes) hi (need_single hneed) trivial
    · trivial
  | pushInt n =>
    rw [hins] at htr he
    simp only [transfer, execSimple, Except.ok.injEq, Option.some.injEq] at htr he
    subst htr he
    exact pushV_good (t := .uint64) hi (need_single hneed) trivial
  | pushBytes b =>
    rw [hins] at htr he
    simp only [transfer, execSimple, Except.ok.injEq, Option.some.injEq] at htr he
    subst htr he
    exact pushV_good (t := .bytes) hi (need_single hneed) trivial
  | tmpl a b =>
    rw [hins] at he
    simp only [execSimple, Option.some.injEq] at he
    subst he; trivial
  | err =>
    rw [hins] at he
    simp only [execSimple, Option.some.injEq] at he
    subst he; trivial
  | ret =>
    rw [hins] at htr he
    simp only [transfer, execSimple, Option.some.injEq] at htr he
    subst he
    match hxt : x.tys, own, hty with
    | t :: ts, v :: vs, hty =>
      rw [hxt] at htr
      simp only at htr
      split at htr
      · rename_i hcmp
        simp only [hst, List.cons_append]
        cases v with
        | u n => trivial
        | b bs =>
          apply anyAt_of hx hl
          rw [hins, hxt]
          simp only [operandTys, List.take, List.any_cons, List.any_nil, Bool.or_false]
          exact any_of_b_compat_u hty.1 hcmp
      · cases htr
    | [], [], _ => rw [hxt] at htr; cases htr
  | load n =>
    rw [hins] at htr he
    simp only [transfer, execSimple, Except.ok.injEq, Option.some.injEq] at htr he
    subst htr he
    split
    · exact pushV_good hi (need_single hneed) (hsl n)
    · trivial
  | store n =>
    rw [hins] at htr he
    simp only [transfer, execSimple, Option.some.injEq] at htr he
    subst he
    match hxt : x.tys, own, hty with
    | t :: ts, v :: vs, hty =>
      rw [hxt] at htr
      simp only at htr
      split at htr
      · rename_i hle
        cases htr
        simp only [hst, List.cons_append]
        split
        · exact srGood_ok (own' := vs) hi (need_single hneed) rfl rfl rfl hty.2
            (SlotsOK_set hsl (hasTy_le hty.1 hle))
        · trivial
      · cases htr
    | [], [], _ => rw [hxt] at htr; cases htr
  | prim op imms =>
    rw [hins] at htr he
    simp only [transfer, execSimple, Option.some.injEq, bind, Except.bind] at htr he
    subst he
    cases hpt : primT c op imms x.tys with
    | error e => simp [hpt] at htr
    | ok tys' =>
      simp only [hpt, Except.ok.injEq] at htr
      subst htr
      have hps := primT_sound (rest := rest) hc (covered_prim hcov hl hins) hpt hty hsl
      rw [hst]
      generalize execPrim cx op imms s.ms.world (own ++ rest) = res at hps
      cases res with
      | ok pr =>
        obtain ⟨st', w'⟩ := pr
        obtain ⟨own', rfl, hty', hsl'⟩ := hps
        simp only
        split
        · exact srGood_ok (x' := { x with tys := tys' }) (own' := own') hi (need_single hneed) rfl rfl rfl hty' hsl'
        · trivial
      | error e =>
        simp only
        obtain ⟨⟨h1, h2, h3, h4⟩, h5⟩ := hps
        cases e with
        | underflow => exact h1 rfl
        | typeErr m =>
          apply anyAt_of hx hl
          rw [hins]; exact h5 m rfl
        | frame m => exact h2 m rfl
        | badPc => exact h3 rfl
        | badLabel l => exact h4 l rfl
        | _ => trivial
  | b l => rw [hins] at he; simp [execSimple] at he
  | bz l => rw [hins] at he; simp [execSimple] at he
  | bnz l => rw [hins] at he; simp [execSimple] at he
  | callsub l => rw [hins] at he; simp [execSimple] at he
  | retsub => rw [hins] at he; simp [execSimple] at he
  | proto a r => rw [hins] at he; simp [execSimple] at he
  | frameDig i => rw [hins] at he; simp [execSimple] at he
  | frameBury i => rw [hins] at he; simp [execSimple] at he

end

/-! ### Control instructions -/

theorem findRt_spec : ∀ {l : List RSig} {i t j : Nat} {sg : RSig}, findRt l i t = some (j, sg) →
    ∃ k, j = i + k ∧ l[k]? = some sg ∧ sg.entry = t ∧ j ≠ 0
  | [], _, _, _, _, h => by simp [findRt] at h
  | s :: l, i, t, j, sg, h => by
    simp only [findRt] at h
    split at h
    · rename_i hc
      simp only [Option.some.injEq, Prod.mk.injEq] at h
      obtain ⟨rfl, rfl⟩ := h
      exact ⟨0, rfl, rfl, hc.1, hc.2⟩
    · obtain ⟨k, hj, hk, he, h0⟩ := findRt_spec (l := l) h
      exact ⟨k + 1, by omega, by simpa using hk, he, h0⟩

theorem frames_main {c : Cert} {pd : Bool} {calls : List Frame} {rest : List Val}
    (h : FramesOK c 0 pd calls rest) : calls = [] ∧ rest = [] ∧ pd = false := by
  cases h with
  | main => exact ⟨rfl, rfl, rfl⟩
  | sub h0 => exact absurd rfl h0

theorem frames_sub {c : Cert} {r : Nat} {pd : Bool} {calls : List Frame} {rest : List Val}
    (hr : r ≠ 0) (h : FramesOK c r pd calls rest) :
    ∃ f cs sg own' rest' restTys crt cpd, calls = f :: cs ∧ rest = own' ++ rest' ∧
      c.routines[r]? = some sg ∧ TysOK own' restTys ∧ FramesOK c crt cpd cs rest' ∧
      f.height = sg.args.length + (own'.length + rest'.length) ∧
      f.proto = (if pd then some (sg.args.length, sg.rets.length) else none) ∧
      (sg.returns = true → c.need f.retPc ⟨crt, cpd, sg.rets ++ restTys⟩ = true) := by
  cases h with
  | main => exact absurd rfl hr
  | sub h0 h1 h2 h3 h4 h5 h6 => exact ⟨_, _, _, _, _, _, _, _, rfl, rfl, h1, h2, h3, h4, h5, h6⟩

section
variable {c : Cert} {p : Program} {cx : Ctx} {s : St} {x : AState} {own rest : List Val}

theorem ctl_b (hi : InvW c s x own rest) {ln : Line} (hl : p[s.pc]? = some ln) {ss : List (Nat × AState)}
    {l : String} (hins : ln.instr = .b l)
    (htr : transfer c p s.pc x ln.instr = .ok ss) (hneed : ∀ q ∈ ss, c.need q.1 q.2 = true) :
    StepGood c p s rest (step cx p s) := by
  obtain ⟨hx, hst, hty, hfr, hsl⟩ := hi
  rw [hins] at htr
  simp only [transfer] at htr
  unfold step
  simp only [hl, hins, execSimple, jump]
  split at htr
  · rename_i t ht
    cases htr
    simp only [ht]
    exact ⟨inv_of_need (need_single hneed) hst hty hfr hsl, fun _ => ⟨own, hst⟩⟩
  · cases htr

theorem ctl_bz (hi : InvW c s x own rest) {ln : Line} (hl : p[s.pc]? = some ln) {ss : List (Nat × AState)}
    {l : String} (hins : ln.instr = .bz l)
    (htr : transfer c p s.pc x ln.instr = .ok ss) (hneed : ∀ q ∈ ss, c.need q.1 q.2 = true) :
    StepGood c p s rest (step cx p s) := by
  obtain ⟨hx, hst, hty, hfr, hsl⟩ := hi
  rw [hins] at htr
  simp only [transfer] at htr
  unfold step
  simp only [hl, hins, execSimple, jump]
  match hxt : x.tys, own, hty with
  | t :: ts, v :: vs, hty =>
    rw [hxt] at htr
    simp only at htr
    split at htr
    · rename_i hcmp
      split at htr
      · rename_i tg htg
        cases htr
        have hn1 := hneed (tg, { x with tys := ts }) (by simp)
        have hn2 := hneed (s.pc + 1, { x with tys := ts }) (by simp)
        simp only [hst, List.cons_append, htg]
        cases v with
        | u n =>
          cases n with
          | zero => exact ⟨inv_of_need hn1 rfl hty.2 hfr hsl, fun _ => ⟨vs, rfl⟩⟩
          | succ k => exact ⟨inv_of_need hn2 rfl hty.2 hfr hsl, fun _ => ⟨vs, rfl⟩⟩
        | b bs =>
          apply anyAt_of hx hl
          rw [hins, hxt]
          simp only [operandTys, List.take, List.any_cons, List.any_nil, Bool.or_false]
          exact any_of_b_compat_u hty.1 hcmp
      · cases htr
    · cases htr
  | [], [], _ => rw [hxt] at htr; cases htr

theorem ctl_bnz (hi : InvW c s x own rest) {ln : Line} (hl : p[s.pc]? = some ln) {ss : List (Nat × AState)}
    {l : String} (hins : ln.instr = .bnz l)
    (htr : transfer c p s.pc x ln.instr = .ok ss) (hneed : ∀ q ∈ ss, c.need q.1 q.2 = true) :
    StepGood c p s rest (step cx p s) := by
  obtain ⟨hx, hst, hty, hfr, hsl⟩ := hi
  rw [hins] at htr
  simp only [transfer] at htr
  unfold step
  simp only [hl, hins, execSimple, jump]
  match hxt : x.tys, own, hty with
  | t :: ts, v :: vs, hty =>
    rw [hxt] at htr
    simp only at htr
    split at htr
    · rename_i hcmp
      split at htr
      · rename_i tg htg
        cases htr
        have hn1 := hneed (tg, { x with tys := ts }) (by simp)
        have hn2 := hneed (s.pc + 1, { x with tys := ts }) (by simp)
        simp only [hst, List.cons_append, htg]
        cases v with
        | u n =>
          cases n with
          | zero => exact ⟨inv_of_need hn2 rfl hty.2 hfr hsl, fun _ => ⟨vs, rfl⟩⟩
          | succ k => exact ⟨inv_of_need hn1 rfl hty.2 hfr hsl, fun _ => ⟨vs, rfl⟩⟩
        | b bs =>
          apply anyAt_of hx hl
          rw [hins, hxt]
          simp only [operandTys, List.take, List.any_cons, List.any_nil, Bool.or_false]
          exact any_of_b_compat_u hty.1 hcmp
      · cases htr
    · cases htr
  | [], [], _ => rw [hxt] at htr; cases htr

theorem ctl_callsub (hi : InvW c s x own rest) {ln : Line} (hl : p[s.pc]? = some ln) {ss : List (Nat × AState)}
    {l : String} (hins : ln.instr = .callsub l)
    (htr : transfer c p s.pc x ln.instr = .ok ss) (hneed : ∀ q ∈ ss, c.need q.1 q.2 = true) :
    StepGood c p s rest (step cx p s) := by
  obtain ⟨hx, hst, hty, hfr, hsl⟩ := hi
  rw [hins] at htr
  simp only [transfer] at htr
  unfold step
  simp only [hl, hins, execSimple, jump]
  split at htr
  · rename_i tg htg
    split at htr
    · rename_i j sg hrt
      obtain ⟨k, hj, hk, _, hj0⟩ := findRt_spec hrt
      have hjk : j = k := by omega
      subst hjk
      cases hpl : popLe x.tys sg.args with
      | error e => simp [hpl, bind, Except.bind] at htr
      | ok rtys =>
        simp only [hpl, bind, Except.bind, Except.ok.injEq] at htr
        subst htr
        obtain ⟨ts, hts, hle⟩ := popLe_ok hpl
        rw [hts] at hty
        obtain ⟨args, own2, rfl, hargs, hown2⟩ := TysOK_split hty
        have hentry := hneed (tg, ⟨j, false, sg.args⟩) (by simp)
        simp only [htg]
        refine ⟨?_, fun h => absurd h (List.cons_ne_self _ _)⟩
        refine inv_of_need (own := args) (rest := own2 ++ rest) hentry (by simp [hst]) (TysOK_le hargs hle) ?_ hsl
        refine FramesOK.sub (restTys := rtys) (crt := x.rt) (cpd := x.proto) hj0 hk hown2 hfr ?_ rfl ?_
        · simp only [hst, List.length_append]
          have := TysOK_length (TysOK_le hargs hle)
          omega
        · intro hret
          exact hneed (s.pc + 1, { x with tys := sg.rets ++ rtys }) (by simp [hret])
    · cases htr
  · cases htr

/-- list algebra of the `proto` return: what `retsub` keeps, read top-first -/
theorem retsub_kept (own below : List Val) (A R : Nat) :
    (((own ++ below).reverse.take (A + below.length - A)) ++
        (((own ++ below).reverse.drop (A + below.length)).take R)).reverse =
      ((own.reverse.drop A).take R).reverse ++ below := by
  have hX : (own ++ below).reverse = below.reverse ++ own.reverse := List.reverse_append
  have h1 : A + below.length - A = below.reverse.length := by simp
  have h2 : A + below.length = below.reverse.length + A := by simp; omega
  rw [hX, h1, List.take_left' rfl, h2, List.drop_append]
  simp
  rw [List.drop_eq_nil_of_le (by simp : below.reverse.length ≤ below.length + A)]
  simp

theorem ctl_retsub (hi : InvW c s x own rest) {ln : Line} (hl : p[s.pc]? = some ln) {ss : List (Nat × AState)}
    (hins : ln.instr = .retsub)
    (htr : transfer c p s.pc x ln.instr = .ok ss) :
    StepGood c p s rest (step cx p s) := by
  obtain ⟨hx, hst, hty, hfr, hsl⟩ := hi
  rw [hins] at htr
  simp only [transfer] at htr
  unfold step
  simp only [hl, hins, execSimple]
  split at htr
  · cases htr
  · rename_i hrt0
    obtain ⟨f, cs, sg, own', rest', restTys, crt, cpd, hcalls, hrest, hsg, hown', hfr', hh, hpr, hret⟩ :=
      frames_sub hrt0 hfr
    simp only [hsg] at htr
    split at htr
    · cases htr
    · rename_i hreturns
      simp only [Bool.not_eq_true, Bool.not_eq_false'] at hreturns
      have hret' := hret (by simpa using hreturns)
      simp only [hcalls]
      subst hrest
      cases hxp : x.proto with
      | false =>
        simp only [hxp, Bool.false_eq_true, if_false] at htr hpr
        split at htr
        · rename_i hle
          simp only [hpr]
          refine ⟨?_, fun h => ?_⟩
          · refine inv_of_need (own := own ++ own') (rest := rest') hret' (by simp [hst])
              (TysOK_append (TysOK_le hty hle) hown') hfr' hsl
          · exact absurd h.symm (by rw [hcalls]; exact List.cons_ne_self _ _)
        · cases htr
      | true =>
        simp only [hxp, if_true] at htr hpr
        split at htr
        · rename_i hlen
          split at htr
          · rename_i hle
            simp only [hpr]
            have hol := TysOK_length hty
            have h1 : ¬ (s.ms.stack.length < f.height + sg.rets.length) := by
              simp only [hst, List.length_append, hh]; omega
            have h2 : ¬ (f.height < sg.args.length) := by omega
            simp only [h1, h2, if_false]
            refine ⟨?_, fun h => ?_⟩
            · have hk := retsub_kept own (own' ++ rest') sg.args.length sg.rets.length
              have hhh : f.height = sg.args.length + (own' ++ rest').length := by simp [hh]
              refine inv_of_need (own := ((own.reverse.drop sg.args.length).take sg.rets.length).reverse ++ own')
                (rest := rest') hret' ?_ ?_ hfr' hsl
              · simp only [hst, hhh]
                rw [hk]; simp
              · refine TysOK_append (TysOK_le ?_ hle) hown'
                exact TysOK_reverse (TysOK_take _ (TysOK_drop _ (TysOK_reverse hty)))
            · exact absurd h.symm (by rw [hcalls]; exact List.cons_ne_self _ _)
          · cases htr
        · cases htr

theorem ctl_proto (hi : InvW c s x own rest) {ln : Line} (hl : p[s.pc]? = some ln) {ss : List (Nat × AState)}
    {A R : Nat} (hins : ln.instr = .proto A R)
    (htr : transfer c p s.pc x ln.instr = .ok ss) (hneed : ∀ q ∈ ss, c.need q.1 q.2 = true) :
    StepGood c p s rest (step cx p s) := by
  obtain ⟨hx, hst, hty, hfr, hsl⟩ := hi
  rw [hins] at htr
  simp only [transfer] at htr
  unfold step
  simp only [hl, hins, execSimple]
  split at htr
  · cases htr
  · rename_i hrt0
    split at htr
    · cases htr
    · rename_i hnp
      simp only [Bool.not_eq_true] at hnp
      obtain ⟨f, cs, sg, own', rest', restTys, crt, cpd, hcalls, hrest, hsg, hown', hfr', hh, hpr, hret⟩ :=
        frames_sub hrt0 hfr
      simp only [hsg] at htr
      split at htr
      · rename_i hAR
        obtain ⟨hA, hR, hAle⟩ := hAR
        cases htr
        simp only [hnp, Bool.false_eq_true, if_false] at hpr
        have hol := TysOK_length hty
        have h2 : ¬ (s.ms.stack.length < A) := by simp only [hst, List.length_append]; omega
        simp only [hcalls, hpr, Option.isSome_none, Bool.false_eq_true, if_false, h2]
        refine ⟨?_, fun _ => ⟨own, hst⟩⟩
        refine inv_of_need (own := own) (rest := rest) (need_single hneed) hst hty ?_ hsl
        subst hrest
        exact FramesOK.sub (pd := true) hrt0 hsg hown' hfr' hh (by simp [hA, hR]) hret
      · cases htr

theorem not_belowArgs {f : Frame} {i : Int} {A R : Nat} {pd : Bool}
    (hpr : f.proto = (if pd then some (A, R) else none)) (hk : 0 ≤ (A : Int) + i) : belowArgs f i = false := by
  unfold belowArgs
  cases pd with
  | false => simp [hpr]
  | true =>
    simp only [hpr, if_true, decide_eq_false_iff_not, not_and]
    intro _
    omega

theorem ctl_frameDig (hi : InvW c s x own rest) {ln : Line} (hl : p[s.pc]? = some ln) {ss : List (Nat × AState)}
    {i : Int} (hins : ln.instr = .frameDig i)
    (htr : transfer c p s.pc x ln.instr = .ok ss) (hneed : ∀ q ∈ ss, c.need q.1 q.2 = true) :
    StepGood c p s rest (step cx p s) := by
  obtain ⟨hx, hst, hty, hfr, hsl⟩ := hi
  have hi : InvW c s x own rest := ⟨hx, hst, hty, hfr, hsl⟩
  rw [hins] at htr
  simp only [transfer] at htr
  unfold step
  simp only [hl, hins, execSimple]
  split at htr
  · cases htr
  · rename_i hrt0
    obtain ⟨f, cs, sg, own', rest', restTys, crt, cpd, hcalls, hrest, hsg, hown', hfr', hh, hpr, hret⟩ :=
      frames_sub hrt0 hfr
    simp only [hsg] at htr
    split at htr
    · rename_i hk
      obtain ⟨hk0, hklt⟩ := hk
      split at htr
      · rename_i t ht
        cases htr
        obtain ⟨v, hv, hvt⟩ := TysOK_get hty ht
        have hol := TysOK_length hty
        have hrl : rest.length = own'.length + rest'.length := by simp [hrest]
        simp only [hcalls, not_belowArgs hpr hk0, Bool.false_eq_true, if_false]
        have h1 : ¬ ((f.height : Int) + i < 0) := by omega
        have h2 : ¬ (((f.height : Int) + i).toNat ≥ s.ms.stack.length) := by
          simp only [hst, List.length_append]; omega
        have h3 : fromBottom s.ms.stack ((f.height : Int) + i).toNat
            = x.tys.length - 1 - ((sg.args.length : Int) + i).toNat := by
          unfold fromBottom; simp only [hst, List.length_append]; omega
        simp only [h1, h2, if_false, h3]
        have h4 : s.ms.stack[x.tys.length - 1 - ((sg.args.length : Int) + i).toNat]? = some v := by
          rw [hst]; exact getElem?_append_own hv
        simp only [h4]
        have := pushV_good (p := p) (v := v) (t := t) hi (need_single hneed) hvt
        generalize pushV s.ms v = r at this
        cases r with
        | ok m => exact ⟨by rw [← hcalls]; exact this.1, fun _ => this.2⟩
        | halt o => exact this
      · cases htr
    · cases htr

theorem ctl_frameBury (hi : InvW c s x own rest) {ln : Line} (hl : p[s.pc]? = some ln) {ss : List (Nat × AState)}
    {i : Int} (hins : ln.instr = .frameBury i)
    (htr : transfer c p s.pc x ln.instr = .ok ss) (hneed : ∀ q ∈ ss, c.need q.1 q.2 = true) :
    StepGood c p s rest (step cx p s) := by
  obtain ⟨hx, hst, hty, hfr, hsl⟩ := hi
  rw [hins] at htr
  simp only [transfer] at htr
  unfold step
  simp only [hl, hins, execSimple]
  split at htr
  · cases htr
  · rename_i hrt0
    obtain ⟨f, cs, sg, own', rest', restTys, crt, cpd, hcalls, hrest, hsg, hown', hfr', hh, hpr, hret⟩ :=
      frames_sub hrt0 hfr
    simp only [hsg] at htr
    match hxt : x.tys, own, hty with
    | t :: ts, v :: vs, hty =>
      rw [hxt] at htr
      simp only at htr
      split at htr
      · rename_i hk
        obtain ⟨hk0, hklt⟩ := hk
        cases htr
        have hol := TysOK_length hty.2
        have hrl : rest.length = own'.length + rest'.length := by simp [hrest]
        simp only [hcalls, hst, List.cons_append, not_belowArgs hpr hk0, Bool.false_eq_true, if_false]
        have h1 : ¬ ((f.height : Int) + i < 0) := by omega
        have h2 : ¬ (((f.height : Int) + i).toNat ≥ (vs ++ rest).length) := by
          simp only [List.length_append]; omega
        have h3 : fromBottom (vs ++ rest) ((f.height : Int) + i).toNat
            = ts.length - 1 - ((sg.args.length : Int) + i).toNat := by
          unfold fromBottom; simp only [List.length_append]; omega
        simp only [h1, h2, if_false, h3]
        have hlt : ts.length - 1 - ((sg.args.length : Int) + i).toNat < vs.length := by omega
        refine ⟨?_, fun _ => ⟨vs.set (ts.length - 1 - ((sg.args.length : Int) + i).toNat) v, ?_⟩⟩
        · refine inv_of_need (own := vs.set (ts.length - 1 - ((sg.args.length : Int) + i).toNat) v)
            (rest := rest) (need_single hneed) ?_ (TysOK_set _ hty.2 hty.1) (hcalls ▸ hfr) hsl
          simp only; rw [List.set_append_left _ _ hlt]
        · simp only; rw [List.set_append_left _ _ hlt]
      · cases htr
    | [], [], _ => rw [hxt] at htr; cases htr

theorem ctl_end (hok : OkFacts c p) (hi : InvW c s x own rest) (hl : p[s.pc]? = none) :
    StepGood c p s rest (step cx p s) := by
  obtain ⟨hx, hst, hty, hfr, hsl⟩ := hi
  obtain ⟨hpc, hrt, hend⟩ := ok_end hok hx hl
  rw [hrt] at hfr
  obtain ⟨_, hrest, _⟩ := frames_main hfr
  subst hrest
  unfold step
  simp only [hl]
  rw [if_pos hpc]
  match hxt : x.tys, own, hty with
  | [t], [v], hty =>
    rw [hxt] at hend
    simp only [endOK] at hend
    simp only [finish, hst, List.append_nil]
    cases v with
    | u n => trivial
    | b bs =>
      show anyAt c p s.pc = true
      unfold anyAt
      simp only [hx, hl, hxt, List.any_cons, List.any_nil, Bool.or_false]
      exact any_of_b_compat_u hty.1 hend
  | [], [], _ => rw [hxt] at hend; simp [endOK] at hend
  | _ :: _ :: _, _ :: _ :: _, _ => rw [hxt] at hend; simp [endOK] at hend

/-- **one step of a checked program preserves the invariant or halts acceptably** -/
theorem step_sound (hok : OkFacts c p) (hcov : covered p = true) (hc : CtxOK cx) (hi : InvW c s x own rest) :
    StepGood c p s rest (step cx p s) := by
  cases hl : p[s.pc]? with
  | none => exact ctl_end hok hi hl
  | some ln =>
    obtain ⟨ss, htr, hneed⟩ := ok_instr hok hi.1 hl
    cases he : execSimple cx ln.instr s.ms with
    | some r => exact stepGood_of_simple hl he (simple_good hcov hc hi hl htr hneed he)
    | none =>
      cases hins : ln.instr with
      | b l => exact ctl_b hi hl hins htr hneed
      | bz l => exact ctl_bz hi hl hins htr hneed
      | bnz l => exact ctl_bnz hi hl hins htr hneed
      | callsub l => exact ctl_callsub hi hl hins htr hneed
      | retsub => exact ctl_retsub hi hl hins htr
      | proto a r => exact ctl_proto hi hl hins htr hneed
      | frameDig i => exact ctl_frameDig hi hl hins htr hneed
      | frameBury i => exact ctl_frameBury hi hl hins htr hneed
      | _ => rw [hins] at he; simp [execSimple] at he

end

/-! ### Runs -/

/-- states reachable from `s0` by `Avm.step` -/
inductive Reach (cx : Ctx) (p : Program) (s0 : St) : St → Prop
  | refl : Reach cx p s0 s0
  | step {s s' : St} : Reach cx p s0 s → step cx p s = .next s' → Reach cx p s0 s'

/-- the machine's initial state (as in `Avm.run`) -/
def init (w0 : World) : St := { ms := { world := w0 } }

theorem inv_init {c : Cert} {p : Program} (hok : OkFacts c p) {w0 : World} (hw : SlotsOK c w0.scratch) :
    Inv c (init w0) :=
  inv_of_need (own := []) (rest := []) hok.entry rfl trivial FramesOK.main hw

/-- a run that stops does so by a halting step of a reachable state -/
theorem runFrom_halts {cx : Ctx} {p : Program} : ∀ (fuel : Nat) (s : St) (o : Outcome),
    runFrom cx p fuel s = o → (∀ s', Reach cx p s s' → ∀ o', step cx p s' = .halt o' → o' ≠ o) → o = .outOfFuel
  | 0, _, _, h, _ => by simpa [runFrom] using h.symm
  | fuel + 1, s, o, h, hno => by
    simp only [runFrom] at h
    cases hs : step cx p s with
    | halt o' =>
      simp only [hs] at h
      exact absurd h (hno s .refl o' hs)
    | next s' =>
      simp only [hs] at h
      refine runFrom_halts fuel s' o h (fun s'' hr o' ho' => hno s'' ?_ o' ho')
      clear h hno ho'
      induction hr with
      | refl => exact .step .refl hs
      | step _ hstep ih => exact .step ih hstep

section
variable {c : Cert} {p : Program} {cx : Ctx}

/-- **Soundness of the certificate check.**  If `ok c p` accepts and the program stays inside the
    proved opcode fragment, then for every well-typed context, every initial world whose scratch
    space is typed by the certificate (in particular the empty one) and every reachable state `s`:
    the instrumented invariant holds at `s` — the operand stack is `own ++ rest` with `own` typed by
    the abstract state at `s.pc` (so its length is the abstract height) and `rest` the values below
    the current routine's base, consistent with the call stack — and if `s` halts, the outcome is
    `GoodHalt`: never `.underflow`, never a `.frame` / `.badPc` / `.badLabel` failure, and a
    `.typeErr` only where an inspected operand has abstract type `any`. -/
theorem stackcheck_sound (hok : ok c p = true) (hcov : covered p = true) (hc : CtxOK cx)
    {w0 : World} (hw : SlotsOK c w0.scratch) {s : St} (hr : Reach cx p (init w0) s) :
    Inv c s ∧ ∀ o, step cx p s = .halt o → GoodHalt c p s.pc o := by
  have hf := ok_facts hok
  have hinv : Inv c s := by
    induction hr with
    | refl => exact inv_init hf hw
    | step _ hstep ih =>
      obtain ⟨x, own, rest, hi⟩ := ih
      have := step_sound (cx := cx) hf hcov hc hi
      rw [hstep] at this
      exact this.1
  refine ⟨hinv, fun o ho => ?_⟩
  obtain ⟨x, own, rest, hi⟩ := hinv
  have := step_sound (cx := cx) hf hcov hc hi
  rw [ho] at this
  exact this

/-- **No instruction touches the values below its routine's base**: a step that stays in the same
    activation leaves `rest` (everything below the routine's base) in place. -/
theorem base_preserved (hok : ok c p = true) (hcov : covered p = true) (hc : CtxOK cx)
    {s s' : St} {x : AState} {own rest : List Val} (hi : InvW c s x own rest)
    (hs : step cx p s = .next s') (hcalls : s'.calls = s.calls) : ∃ own', s'.ms.stack = own' ++ rest := by
  have := step_sound (cx := cx) (ok_facts hok) hcov hc hi
  rw [hs] at this
  exact this.2 hcalls

/-- the concrete stack height is the abstract height plus the routine's base -/
theorem height_invariant {s : St} (hi : Inv c s) :
    ∃ x own rest, c.stateAt s.pc = some x ∧ s.ms.stack = own ++ rest ∧ own.length = x.tys.length ∧
      s.ms.stack.length = x.tys.length + rest.length := by
  obtain ⟨x, own, rest, hx, hst, hty, _, _⟩ := hi
  exact ⟨x, own, rest, hx, hst, TysOK_length hty, by rw [hst, List.length_append, TysOK_length hty]⟩

/-- **Runs of a checked program**: whatever the fuel, `Avm.runFrom` from the initial state never
    ends in a stack underflow or a call-frame / pc / label failure, and a type error can only be
    raised at a pc whose inspected operands include abstract type `any`. -/
theorem run_sound (hok : ok c p = true) (hcov : covered p = true) (hc : CtxOK cx)
    {w0 : World} (hw : SlotsOK c w0.scratch) (fuel : Nat) :
    runFrom cx p fuel (init w0) ≠ .fail .underflow ∧
    (∀ m, runFrom cx p fuel (init w0) ≠ .fail (.frame m)) ∧
    runFrom cx p fuel (init w0) ≠ .fail .badPc ∧
    (∀ l, runFrom cx p fuel (init w0) ≠ .fail (.badLabel l)) ∧
    (∀ m, runFrom cx p fuel (init w0) = .fail (.typeErr m) → ∃ pc, anyAt c p pc = true) := by
  have key : ∀ o, runFrom cx p fuel (init w0) = o → o ≠ .outOfFuel →
      ∃ s, Reach cx p (init w0) s ∧ GoodHalt c p s.pc o := by
    intro o ho hne
    apply Classical.byContradiction
    intro hcon
    refine hne (runFrom_halts fuel (init w0) o ho (fun s' hr o' ho' heq => hcon ⟨s', hr, ?_⟩))
    subst heq
    exact (stackcheck_sound hok hcov hc hw hr).2 o' ho'
  refine ⟨fun h => ?_, fun m h => ?_, fun h => ?_, fun l h => ?_, fun m h => ?_⟩
  · obtain ⟨s, _, hg⟩ := key _ h (by simp); exact hg
  · obtain ⟨s, _, hg⟩ := key _ h (by simp); exact hg
  · obtain ⟨s, _, hg⟩ := key _ h (by simp); exact hg
  · obtain ⟨s, _, hg⟩ := key _ h (by simp); exact hg
  · obtain ⟨s, _, hg⟩ := key _ h (by simp); exact ⟨s.pc, hg⟩

theorem any_of_take {ts : List ATy} {n : Nat} (h : (ts.take n).any ATy.isAny = true) : ts.any ATy.isAny = true := by
  rw [List.any_eq_true] at h ⊢
  obtain ⟨t, ht, h⟩ := h
  exact ⟨t, List.mem_of_mem_take ht, h⟩

theorem operandTys_sub {i : Instr} {ts : List ATy} (h : (operandTys i ts).any ATy.isAny = true) :
    ts.any ATy.isAny = true := by
  unfold operandTys at h
  split at h
  · exact any_of_take h
  · exact any_of_take h
  · exact any_of_take h
  · split at h
    · unfold structOperands at h
      split at h
      · exact any_of_take h
      · exact any_of_take h
      · exact any_of_take h
      · exact any_of_take h
      · exact any_of_take h
      · simp at h
    · split at h
      · exact any_of_take h
      · simp at h
  · simp at h

theorem anyFree_anyAt (hfree : anyFree c = true) (pc : Nat) : anyAt c p pc = false := by
  cases hx : c.stateAt pc with
  | none => simp [anyAt, hx]
  | some x =>
    have hxa : x.tys.any ATy.isAny = false := by
      unfold anyFree at hfree
      rw [Array.all_eq_true_iff_forall_mem] at hfree
      unfold Cert.stateAt at hx
      cases hs : c.states[pc]? with
      | none => simp [hs] at hx
      | some o =>
        simp only [hs, Option.join_some] at hx
        subst hx
        have := hfree (some x) (Array.mem_of_getElem? hs)
        simpa using this
    cases hl : p[pc]? with
    | none => simp [anyAt, hx, hl, hxa]
    | some ln =>
      simp only [anyAt, hx, hl]
      cases h : (operandTys ln.instr x.tys).any ATy.isAny with
      | false => rfl
      | true => rw [operandTys_sub h] at hxa; cases hxa

/-- **Corollary**: if moreover no abstract state of the certificate contains `any`, a run cannot
    fail with a type error or a stack underflow at all. -/
theorem no_any_no_type_error (hok : ok c p = true) (hcov : covered p = true) (hc : CtxOK cx)
    (hfree : anyFree c = true) {w0 : World} (hw : SlotsOK c w0.scratch) (fuel : Nat) :
    (∀ m, runFrom cx p fuel (init w0) ≠ .fail (.typeErr m)) ∧
    runFrom cx p fuel (init w0) ≠ .fail .underflow := by
  obtain ⟨h1, _, _, _, h5⟩ := run_sound (cx := cx) hok hcov hc hw fuel
  refine ⟨fun m h => ?_, h1⟩
  obtain ⟨pc, hpc⟩ := h5 m h
  rw [anyFree_anyAt hfree pc] at hpc
  cases hpc

/-- the same for `Avm.run` started on an empty world (all scratch slots hold `uint64 0`) -/
theorem run_sound_empty (hok : ok c p = true) (hcov : covered p = true) (hc : CtxOK cx) (fuel : Nat) :
    run cx p fuel ≠ .fail .underflow ∧ (∀ m, run cx p fuel = .fail (.typeErr m) → ∃ pc, anyAt c p pc = true) := by
  have hw : SlotsOK c ({} : World).scratch := SlotsOK_nil (ok_facts hok).slots
  obtain ⟨h1, _, _, _, h5⟩ := run_sound (cx := cx) hok hcov hc hw fuel
  exact ⟨h1, h5⟩

/-- the decision procedure: `check p` accepts only programs that have an accepted certificate -/
theorem check_has_cert {p : Program} (h : check p = true) : ∃ c, ok c p = true := by
  unfold check at h
  split at h
  · exact ⟨_, h⟩
  · cases h

end

/-! ### Non-vacuity: a concrete program with a subroutine, its certificate, and the theorems applied -/

def mkLn (op : String) (imms : List String) (i : Instr) : Line := ⟨⟨op, imms⟩, i⟩

/-- `int 5; callsub f; return; f: store 0; load 0; load 0; +; retsub` -/
def exProg : Program := #[
  mkLn "int" ["5"] (.pushInt 5), mkLn "callsub" ["f"] (.callsub "f"), mkLn "return" [] .ret,
  mkLn "f:" [] (.label "f"), mkLn "store" ["0"] (.store 0), mkLn "load" ["0"] (.load 0),
  mkLn "load" ["0"] (.load 0), mkLn "+" [] (.prim "+" []), mkLn "retsub" [] .retsub]

def exCert : Cert :=
  { routines := [⟨0, [], [], false⟩, ⟨3, [.uint64], [.uint64], true⟩],
    slots := [.uint64],
    states := #[some ⟨0, false, []⟩, some ⟨0, false, [.uint64]⟩, some ⟨0, false, [.uint64]⟩,
      some ⟨1, false, [.uint64]⟩, some ⟨1, false, [.uint64]⟩, some ⟨1, false, []⟩,
      some ⟨1, false, [.uint64]⟩, some ⟨1, false, [.uint64, .uint64]⟩, some ⟨1, false, [.uint64]⟩, none] }

set_option maxRecDepth 4000 in
theorem ex_ok : ok exCert exProg = true := by
  simp only [ok, Bool.and_eq_true, List.all_eq_true, List.mem_range]
  refine ⟨⟨⟨?_, ?_⟩, ?_⟩, ?_⟩
  · simp [exCert, exProg]
  · simp [slotsInit, exCert, ATy.le]
  · simp [Cert.need, Cert.stateAt, exCert, AState.le, tysLe]
  · intro pc hpc
    have hsz : exProg.size = 9 := by simp [exProg]
    rw [hsz] at hpc
    match pc, hpc with
    | 0, _ | 1, _ | 2, _ | 3, _ | 4, _ | 5, _ | 6, _ | 7, _ | 8, _ | 9, _ =>
      simp [checkPc, Cert.stateAt, exCert, exProg, mkLn, transfer, findLabel, List.findIdx?_cons, findRt,
        popLe, Cert.need, AState.le, AState.push, tysLe, ATy.le, ATy.compat, Cert.slotTy, primT, structOps, tableT,
        sig, sigDoc, lookupS, coveredTable, popCompat, bind, Except.bind, endOK]
    | n + 10, h => omega

theorem ex_covered : covered exProg = true := by
  unfold covered
  rw [Array.all_eq_true_iff_forall_mem]
  intro ln h
  simp only [exProg, mkLn] at h
  simp only [List.mem_toArray, List.mem_cons, List.not_mem_nil, or_false] at h
  rcases h with rfl | rfl | rfl | rfl | rfl | rfl | rfl | rfl | rfl
  all_goals simp [coveredPrim, structOps, lookupS, coveredTable]

theorem ex_anyFree : anyFree exCert = true := by
  simp [anyFree, exCert, ATy.isAny]

theorem ctxOK_default : CtxOK {} :=
  ⟨fun t flds f vs h => by simp at h, fun f v h => by simp [assocGet] at h⟩

/-- all hypotheses of the soundness theorems hold for `exProg`: no run of it, with any fuel, ends in
    an underflow or a type error -/
example (fuel : Nat) :
    (∀ m, runFrom {} exProg fuel (init {}) ≠ .fail (.typeErr m)) ∧
    runFrom {} exProg fuel (init {}) ≠ .fail .underflow :=
  no_any_no_type_error ex_ok ex_covered ctxOK_default ex_anyFree (SlotsOK_nil (ok_facts ex_ok).slots) fuel

end PyTealV.Proofs.C05
