/-
  `decode` inverts `encode` (ARC-4 specification `PyTealV.Arc4`).
-/
import PyTealV.Proofs.Arc4
namespace PyTealV.Arc4

/-! ### numbers -/

theorem beNat_append (xs : Bytes) (b : UInt8) : beNat (xs ++ [b]) = beNat xs * 256 + b.toNat := by
  simp [beNat, List.foldl_append]

theorem beNat_beBytes (w v : Nat) (h : v < 256 ^ w) : beNat (beBytes w v) = v := by
  induction w generalizing v with
  | zero => simp at h; subst h; rfl
  | succ w ih =>
    rw [beBytes, beNat_append, ih (v / 256) (by
      rw [Nat.div_lt_iff_lt_mul (by decide)]; rw [Nat.pow_succ] at h; exact h)]
    have : (UInt8.ofNat (v % 256)).toNat = v % 256 := by
      simp [UInt8.toNat_ofNat']
    rw [this]; omega

theorem u16_eq (n : Nat) (h : n < lim16) :
    u16 n = [UInt8.ofNat (n / 256), UInt8.ofNat (n % 256)] := by
  have : n / 256 % 256 = n / 256 := Nat.mod_eq_of_lt (by simp [lim16] at h; omega)
  simp [u16, beBytes, this]

theorem u16_value (n : Nat) (h : n < lim16) :
    (UInt8.ofNat (n / 256)).toNat * 256 + (UInt8.ofNat (n % 256)).toNat = n := by
  have h1 : n / 256 < 256 := by simp [lim16] at h; omega
  simp [UInt8.toNat_ofNat', Nat.mod_eq_of_lt h1]; omega

/-! ### bits -/

theorem byte_bits_roundtrip : ∀ b0 b1 b2 b3 b4 b5 b6 b7 : Bool,
    natBits 8 (UInt8.ofNat (bitsNat [b0, b1, b2, b3, b4, b5, b6, b7])).toNat =
      [b0, b1, b2, b3, b4, b5, b6, b7] := by decide

theorem natBits8_of_len8 (L : List Bool) (h : L.length = 8) :
    natBits 8 (UInt8.ofNat (bitsNat L)).toNat = L := by
  match L, h with
  | [b0, b1, b2, b3, b4, b5, b6, b7], _ => exact byte_bits_roundtrip b0 b1 b2 b3 b4 b5 b6 b7

theorem natBits_packByte (l : List Bool) (h : l.length ≤ 8) :
    natBits 8 (packByte l).toNat = l ++ List.replicate (8 - l.length) false :=
  natBits8_of_len8 _ (by simp; omega)

theorem unpack_cons (b : UInt8) (bs : Bytes) : unpack (b :: bs) = natBits 8 b.toNat ++ unpack bs := by
  simp [unpack]

/-- unpacking a packed run gives the run back (followed by padding bits) -/
theorem unpack_packBits (fuel : Nat) (run : List Bool) (h : run.length ≤ fuel) :
    (unpack (packBits fuel run)).take run.length = run := by
  induction fuel generalizing run with
  | zero =>
    have : run = [] := List.eq_nil_of_length_eq_zero (by omega)
    subst this; rfl
  | succ fuel ih =>
    unfold packBits
    cases hr : run.isEmpty with
    | true => simp [List.isEmpty_iff.1 hr]
    | false =>
      have hne : run ≠ [] := by intro e; simp [e] at hr
      have hpos : 0 < run.length := List.length_pos_iff.2 hne
      simp only [Bool.false_eq_true, ↓reduceIte, unpack_cons]
      rw [natBits_packByte _ (by simp; omega)]
      by_cases h8 : 8 ≤ run.length
      · have hlen : (run.take 8).length = 8 := by simp; omega
        simp only [hlen, Nat.sub_self, List.replicate_zero, List.append_nil]
        rw [List.take_append, hlen]
        have := ih (run.drop 8) (by simp; omega)
        simp only [List.length_drop] at this
        rw [this, List.take_of_length_le (by simp; omega), List.take_append_drop]
      · have hlt : run.length < 8 := by omega
        have htake : run.take 8 = run := List.take_of_length_le (by omega)
        have hdrop : run.drop 8 = [] := List.drop_eq_nil_of_le (by omega)
        rw [htake, hdrop]
        have : unpack (packBits fuel []) = [] := by cases fuel <;> simp [packBits, unpack]
        rw [this, List.append_nil, List.take_append_of_le_length (by simp)]
        simp

theorem unpack_pack (run : List Bool) : (unpack (pack run)).take run.length = run :=
  unpack_packBits _ _ (Nat.le_refl _)

/-! ### the tuple layer: `split` inverts `assemble` -/

def partPiece : Part → Piece
  | .bit b => .bit b
  | .stat s => .bytes s
  | .dyn s => .bytes s

def segPieces : Seg → List Piece
  | .bits run => run.map .bit
  | .stat s => [.bytes s]
  | .dyn s => [.bytes s]

/-- the head items `readHeads` must find when the first tail body sits at offset `o` -/
def itemsOf : Nat → List Seg → List HItem
  | _, [] => []
  | o, .bits run :: ss => .pieces (run.map .bit) :: itemsOf o ss
  | o, .stat s :: ss => .pieces [.bytes s] :: itemsOf o ss
  | o, .dyn s :: ss => .off o :: itemsOf (o + s.length) ss

theorem readHeads_heads (ss : List Seg) (o : Nat) (hd rest : Bytes) (h : heads o ss = some hd) :
    readHeads (ss.map segKind) (hd ++ rest) = some (itemsOf o ss, rest) := by
  induction ss generalizing o hd with
  | nil => simp [heads] at h; subst h; rfl
  | cons s ss ih =>
    cases s with
    | bits run =>
      simp only [heads, Option.map_eq_some_iff] at h
      obtain ⟨hd', e, rfl⟩ := h
      have hlen : (pack run).length = ceil8 run.length := pack_length run
      simp only [List.map_cons, segKind, readHeads, List.append_assoc, List.length_append, hlen]
      rw [if_neg (by omega), List.drop_left' hlen, ih o hd' e, List.take_left' hlen, unpack_pack]
      rfl
    | stat bs =>
      simp only [heads, Option.map_eq_some_iff] at h
      obtain ⟨hd', e, rfl⟩ := h
      simp only [List.map_cons, segKind, readHeads, List.append_assoc, List.length_append]
      rw [if_neg (by omega), List.drop_left' rfl, ih o hd' e, List.take_left' rfl]
      rfl
    | dyn bs =>
      simp only [heads] at h
      split at h
      · rename_i ho
        simp only [Option.map_eq_some_iff] at h
        obtain ⟨hd', e, rfl⟩ := h
        simp only [List.map_cons, segKind, u16_eq o ho, List.cons_append, List.nil_append, readHeads,
          ih (o + bs.length) hd' e, u16_value o ho]
        rfl
      · cases h

theorem nextOff_itemsOf (total o : Nat) (ss : List Seg) (h : total = o + (tails ss).length) :
    nextOff total (itemsOf o ss) = o := by
  induction ss with
  | nil => simp [tails] at h; simp [itemsOf, nextOff, h]
  | cons s ss ih => cases s <;> simp_all [itemsOf, nextOff, tails]

theorem resolve_itemsOf (bs pre : Bytes) (o : Nat) (ss : List Seg)
    (hbs : bs = pre ++ tails ss) (hpre : pre.length = o) :
    resolve bs (itemsOf o ss) = some (ss.flatMap segPieces) := by
  induction ss generalizing pre o with
  | nil => rfl
  | cons s ss ih =>
    cases s with
    | bits run => simp [itemsOf, resolve, segPieces, ih pre o (by simpa [tails] using hbs) hpre]
    | stat s => simp [itemsOf, resolve, segPieces, ih pre o (by simpa [tails] using hbs) hpre]
    | dyn s =>
      simp only [tails] at hbs
      have hlen : bs.length = o + s.length + (tails ss).length := by
        rw [hbs]; simp [hpre]; omega
      have hn : nextOff bs.length (itemsOf (o + s.length) ss) = o + s.length :=
        nextOff_itemsOf _ _ _ hlen
      simp only [itemsOf, resolve, hn]
      rw [if_pos (by omega), ih (pre ++ s) (o + s.length) (by rw [hbs]; simp) (by simp [hpre])]
      have : (bs.drop o).take (o + s.length - o) = s := by
        rw [hbs, ← hpre, List.drop_left, Nat.add_sub_cancel_left, List.take_left]
      rw [this]
      simp [segPieces]

theorem tails_of_no_off (o : Nat) (ss : List Seg) (h : hasOff (itemsOf o ss) = false) : tails ss = [] := by
  induction ss generalizing o with
  | nil => rfl
  | cons s ss ih =>
    cases s with
    | bits run => simp only [itemsOf, hasOff] at h; simpa [tails] using ih o h
    | stat bs => simp only [itemsOf, hasOff] at h; simpa [tails] using ih o h
    | dyn bs => simp [itemsOf, hasOff] at h

theorem group_pieces (ps : List Part) : (group ps).flatMap segPieces = ps.map partPiece := by
  induction ps with
  | nil => rfl
  | cons p ps ih =>
    cases p with
    | bit b =>
      simp only [group, List.map_cons, partPiece, ← ih]
      cases hg : group ps with
      | nil => simp [segPieces]
      | cons s ss => cases s <;> simp [segPieces]
    | stat bs => simp [group, partPiece, segPieces, ih]
    | dyn bs => simp [group, partPiece, segPieces, ih]

/-- **split ∘ assemble**: cutting an assembled tuple by the kinds of its parts gives the parts back -/
theorem split_assemble (ps : List Part) (bs : Bytes) (h : assemble ps = some bs) :
    split (ps.map partKind) bs = some (ps.map partPiece) := by
  simp only [assemble, Option.map_eq_some_iff] at h
  obtain ⟨hd, e, rfl⟩ := h
  simp only [split, ← group_kinds, readHeads_heads _ _ hd _ e]
  have hres := resolve_itemsOf (hd ++ tails (group ps)) hd (segHeadLen (group ps)) (group ps) rfl
    (heads_length _ _ _ e)
  cases ho : hasOff (itemsOf (segHeadLen (group ps)) (group ps)) with
  | true => simp [hres, group_pieces]
  | false =>
    rw [tails_of_no_off _ _ ho, List.append_nil] at hres ⊢
    simp [hres, group_pieces]

/-! ### the typed layer -/

theorem decBytes_encByte (vs : List V) (bs : Bytes) (h : optMap encByte vs = some bs) :
    decBytes bs = .seq vs := by
  induction vs generalizing bs with
  | nil => simp [optMap] at h; subst h; rfl
  | cons v vs ih =>
    obtain ⟨b, bs', hb, hbs, rfl⟩ := (optMap_eq_some_cons _ _ _ _).1 h
    have := ih bs' hbs
    simp only [decBytes, V.ofBytes, V.seq.injEq] at this ⊢
    rw [List.map_cons, this]
    cases v with
    | uint n =>
      simp only [encByte] at hb
      split at hb
      · rename_i hn
        cases hb
        simp [UInt8.toNat_ofNat', Nat.mod_eq_of_lt hn]
      · cases hb
    | bool b => simp [encByte] at hb
    | seq vs => simp [encByte] at hb

/-- how `decode` reads one piece of a component of type `t` -/
def pieceDec (t : Ty) (p : Piece) : Option V :=
  match p with
  | .bit b => some (.bool b)
  | .bytes s => decode t s

theorem piece_toPart (t : Ty) (v : V) (bs : Bytes) (h : encode t v = some bs)
    (hd : decode t bs = some v) : pieceDec t (partPiece (toPart t v bs)) = some v := by
  cases t with
  | bool => cases v <;> simp [encode] at h; simp [toPart, partPiece, pieceDec]
  | _ =>
    all_goals
      simp only [toPart]
      split <;> simpa [partPiece, pieceDec] using hd

theorem decode_elems (e : Ty) (ih : ∀ v bs, encode e v = some bs → decode e bs = some v)
    (vs : List V) (ps : List Part)
    (h : optMap (fun v => (encode e v).map (toPart e v)) vs = some ps) :
    optMap (pieceDec e) (ps.map partPiece) = some vs := by
  induction vs generalizing ps with
  | nil => simp [optMap] at h; subst h; rfl
  | cons v vs ihv =>
    obtain ⟨p, ps', hp, hps, rfl⟩ := (optMap_eq_some_cons _ _ _ _).1 h
    obtain ⟨bs, hb, rfl⟩ := Option.map_eq_some_iff.1 hp
    simp only [List.map_cons, optMap, piece_toPart e v bs hb (ih v bs hb), ihv ps' hps]

theorem elems_kinds (e : Ty) (vs : List V) (ps : List Part)
    (h : optMap (fun v => (encode e v).map (toPart e v)) vs = some ps) :
    ps.map partKind = List.replicate vs.length (kind e) :=
  optMap_map _ partKind (kind e) vs ps h (by
    intro a b _ hab
    obtain ⟨bs', he, rfl⟩ := Option.map_eq_some_iff.1 hab
    exact toPart_kind e a bs' he (fun hd => encode_len_static e a bs' he hd))

theorem pieceDec_eq (e : Ty) :
    (fun p => match p with
      | Piece.bit b => some (V.bool b)
      | Piece.bytes s => decode e s) = pieceDec e := by
  funext p; cases p <;> rfl

mutual
  /-- **decode_encode**: decoding an encoding gives the value back. -/
  theorem decode_encode (t : Ty) (v : V) (bs : Bytes) (h : encode t v = some bs) :
      decode t bs = some v := by
    match t, v with
    | .bool, .bool b => simp [encode] at h; subst h; cases b <;> simp [decode]
    | .byte, .uint n =>
      simp only [encode] at h; split at h
      · rename_i hn; cases h; simp [decode, UInt8.toNat_ofNat', Nat.mod_eq_of_lt hn]
      · cases h
    | .uint bits, .uint n =>
      simp only [encode] at h; split at h
      · rename_i hc
        cases h
        simp only [Bool.and_eq_true, decide_eq_true_eq] at hc
        have hb : bits / 8 * 8 = bits := by
          have := hc.1; simp [uintOk] at this; omega
        have hn : n < 256 ^ (bits / 8) := by
          rw [show (256 : Nat) = 2 ^ 8 by rfl, ← Nat.pow_mul, Nat.mul_comm, hb]; exact hc.2
        simp [decode, hc.1, beNat_beBytes _ _ hn]
      · cases h
    | .address, .seq vs =>
      simp only [encode] at h; split at h
      · rename_i h32
        simp [decode, encByte_length _ _ h, h32, decBytes_encByte _ _ h]
      · cases h
    | .string, .seq vs =>
      simp only [encode] at h; split at h
      · rename_i hl
        obtain ⟨bs', hb, rfl⟩ := Option.map_eq_some_iff.1 h
        simp only [decode, u16_eq _ hl, List.cons_append, List.nil_append]
        rw [u16_value _ hl, encByte_length _ _ hb, if_pos rfl, decBytes_encByte _ _ hb]
      · cases h
    | .sarray e n, .seq vs =>
      simp only [encode] at h; split at h
      · rename_i hn
        obtain ⟨ps, hps, hasm⟩ := Option.bind_eq_some_iff.1 h
        have hk := elems_kinds e vs ps hps
        have hsp := split_assemble ps bs hasm
        rw [hk, hn.1] at hsp
        have hd := decode_elems e (fun v bs h => decode_encode e v bs h) vs ps hps
        simp only [decode, hsp, Option.bind_some]
        show Option.map V.seq (optMap (pieceDec e) (ps.map partPiece)) = some (V.seq vs)
        rw [hd]; rfl
      · cases h
    | .darray e, .seq vs =>
      simp only [encode] at h; split at h
      · rename_i hl
        obtain ⟨body, hbody, rfl⟩ := Option.map_eq_some_iff.1 h
        obtain ⟨ps, hps, hasm⟩ := Option.bind_eq_some_iff.1 hbody
        have hk := elems_kinds e vs ps hps
        have hsp := split_assemble ps body hasm
        rw [hk] at hsp
        have hd := decode_elems e (fun v bs h => decode_encode e v bs h) vs ps hps
        simp only [decode, u16_eq _ hl, List.cons_append, List.nil_append]
        rw [u16_value _ hl]
        simp only [hsp, Option.bind_some]
        show Option.map V.seq (optMap (pieceDec e) (ps.map partPiece)) = some (V.seq vs)
        rw [hd]; rfl
      · cases h
    | .tuple ts, .seq vs =>
      simp only [encode] at h; split at h
      · obtain ⟨ps, hps, hasm⟩ := Option.bind_eq_some_iff.1 h
        have hsp := split_assemble ps bs hasm
        rw [encodeFields_kinds ts vs ps hps] at hsp
        simp only [decode, hsp, Option.bind_some, decodeFields_encodeFields ts vs ps hps, Option.map_some]
      · cases h
    | .bool, .uint _ | .bool, .seq _ | .byte, .bool _ | .byte, .seq _ | .uint _, .bool _
    | .uint _, .seq _ | .address, .bool _ | .address, .uint _ | .string, .bool _ | .string, .uint _
    | .sarray _ _, .bool _ | .sarray _ _, .uint _ | .darray _, .bool _ | .darray _, .uint _
    | .tuple _, .bool _ | .tuple _, .uint _ => simp [encode] at h
  theorem decodeFields_encodeFields (ts : List Ty) (vs : List V) (ps : List Part)
      (h : encodeFields ts vs = some ps) : decodeFields ts (ps.map partPiece) = some vs := by
    match ts, vs with
    | [], [] => simp [encodeFields] at h; subst h; rfl
    | t :: ts, v :: vs =>
      simp only [encodeFields] at h
      split at h
      · rename_i bs ps' hb hps
        cases h
        have h1 := piece_toPart t v bs hb (decode_encode t v bs hb)
        have h2 := decodeFields_encodeFields ts vs ps' hps
        simp only [List.map_cons, decodeFields, h2]
        simp only [pieceDec] at h1
        cases hp : partPiece (toPart t v bs) <;> simp only [hp] at h1 ⊢ <;> simp_all
      · cases h
    | [], _ :: _ => simp [encodeFields] at h
    | _ :: _, [] => simp [encodeFields] at h
end

/-! ### encodable values are well-typed -/

theorem isByteVal_of_encByte (vs : List V) (bs : Bytes) (h : optMap encByte vs = some bs) :
    vs.all isByteVal = true := by
  induction vs generalizing bs with
  | nil => rfl
  | cons v vs ih =>
    obtain ⟨b, bs', hb, hbs, rfl⟩ := (optMap_eq_some_cons _ _ _ _).1 h
    simp only [List.all_cons, ih bs' hbs, Bool.and_true]
    cases v with
    | uint n =>
      simp only [encByte] at hb
      split at hb
      · simpa [isByteVal]
      · cases hb
    | bool b => simp [encByte] at hb
    | seq vs => simp [encByte] at hb

theorem all_of_optMap {α β} (f : α → Option β) (p : α → Bool) (as : List α) (r : List β)
    (h : optMap f as = some r) (hp : ∀ a b, a ∈ as → f a = some b → p a = true) :
    as.all p = true := by
  induction as generalizing r with
  | nil => rfl
  | cons a as ih =>
    obtain ⟨b, bs, hb, hbs, rfl⟩ := (optMap_eq_some_cons f a as r).1 h
    simp only [List.all_cons, hp a b List.mem_cons_self hb,
      ih bs hbs (fun a' b' ha' => hp a' b' (List.mem_cons_of_mem _ ha')), Bool.and_self]

mutual
  /-- `encode` succeeds only on well-typed values -/
  theorem hasType_of_encode (t : Ty) (v : V) (bs : Bytes) (h : encode t v = some bs) :
      hasType t v = true := by
    match t, v with
    | .bool, .bool b => rfl
    | .byte, .uint n =>
      simp only [encode] at h; split at h
      · simpa [hasType]
      · cases h
    | .uint bits, .uint n =>
      simp only [encode] at h; split at h
      · rename_i hc; simpa [hasType] using hc
      · cases h
    | .address, .seq vs =>
      simp only [encode] at h; split at h
      · rename_i h32; simp [hasType, h32, isByteVal_of_encByte _ _ h]
      · cases h
    | .string, .seq vs =>
      simp only [encode] at h; split at h
      · obtain ⟨bs', hb, _⟩ := Option.map_eq_some_iff.1 h
        simp [hasType, isByteVal_of_encByte _ _ hb]
      · cases h
    | .sarray e n, .seq vs =>
      simp only [encode] at h; split at h
      · rename_i hn
        obtain ⟨ps, hps, _⟩ := Option.bind_eq_some_iff.1 h
        have := all_of_optMap _ (fun v => hasType e v) vs ps hps (by
          intro a b _ hab
          obtain ⟨bs', he, _⟩ := Option.map_eq_some_iff.1 hab
          exact hasType_of_encode e a bs' he)
        simp [hasType, hn.1, this]
      · cases h
    | .darray e, .seq vs =>
      simp only [encode] at h; split at h
      · obtain ⟨body, hbody, _⟩ := Option.map_eq_some_iff.1 h
        obtain ⟨ps, hps, _⟩ := Option.bind_eq_some_iff.1 hbody
        have := all_of_optMap _ (fun v => hasType e v) vs ps hps (by
          intro a b _ hab
          obtain ⟨bs', he, _⟩ := Option.map_eq_some_iff.1 hab
          exact hasType_of_encode e a bs' he)
        simp [hasType, this]
      · cases h
    | .tuple ts, .seq vs =>
      simp only [encode] at h; split at h
      · obtain ⟨ps, hps, _⟩ := Option.bind_eq_some_iff.1 h
        simp [hasType, hasTypes_of_encodeFields ts vs ps hps]
      · cases h
    | .bool, .uint _ | .bool, .seq _ | .byte, .bool _ | .byte, .seq _ | .uint _, .bool _
    | .uint _, .seq _ | .address, .bool _ | .address, .uint _ | .string, .bool _ | .string, .uint _
    | .sarray _ _, .bool _ | .sarray _ _, .uint _ | .darray _, .bool _ | .darray _, .uint _
    | .tuple _, .bool _ | .tuple _, .uint _ => simp [encode] at h
  theorem hasTypes_of_encodeFields (ts : List Ty) (vs : List V) (ps : List Part)
      (h : encodeFields ts vs = some ps) : hasTypes ts vs = true := by
    match ts, vs with
    | [], [] => rfl
    | t :: ts, v :: vs =>
      simp only [encodeFields] at h
      split at h
      · rename_i bs ps' hb hps
        simp [hasTypes, hasType_of_encode t v bs hb, hasTypes_of_encodeFields ts vs ps' hps]
      · cases h
    | [], _ :: _ => simp [encodeFields] at h
    | _ :: _, [] => simp [encodeFields] at h
end

/-! ### closed forms of `staticLen` for arrays -/

theorem groupKinds_replicate_bit (n : Nat) :
    groupKinds (List.replicate (n + 1) Kind.bit) = [.bits (n + 1)] := by
  induction n with
  | zero => rfl
  | succ n ih => rw [List.replicate_succ, groupKinds, ih]

theorem staticLen_sarray_bool (n : Nat) : staticLen (.sarray .bool n) = ceil8 n := by
  cases n with
  | zero => rfl
  | succ n => simp [staticLen, mkKind, kindsHeadLen, groupKinds_replicate_bit, gkindsLen]

theorem kindsHeadLen_replicate_stat (n k : Nat) :
    kindsHeadLen (List.replicate n (Kind.stat k)) = n * k := by
  induction n with
  | zero => simp [kindsHeadLen, groupKinds, gkindsLen]
  | succ n ih =>
    simp only [kindsHeadLen] at ih
    simp only [kindsHeadLen, List.replicate_succ, groupKinds, gkindsLen, ih]
    rw [Nat.succ_mul]; omega

theorem kindsHeadLen_replicate_dyn (n : Nat) :
    kindsHeadLen (List.replicate n Kind.dyn) = n * 2 := by
  induction n with
  | zero => rfl
  | succ n ih =>
    simp only [kindsHeadLen] at ih
    simp only [kindsHeadLen, List.replicate_succ, groupKinds, gkindsLen, ih]
    omega

/-- a `T[N]` with `T ≠ bool` has `N` head slots of `headLen T` bytes -/
theorem staticLen_sarray (e : Ty) (n : Nat) (h : e ≠ .bool) :
    staticLen (.sarray e n) = n * headLen e := by
  have hk : mkKind e (staticLen e) = if isDynamic e then .dyn else .stat (staticLen e) := by
    cases e <;> simp_all [mkKind]
  simp only [staticLen, hk, headLen]
  split
  · exact kindsHeadLen_replicate_dyn n
  · exact kindsHeadLen_replicate_stat n _

/-! ### non-vacuity -/

/-- `(bool,bool,uint16,string,bool[9])`: bool packing, a dynamic member, head/tail offsets -/
example : encode (.tuple [.bool, .bool, .uint 16, .string, .sarray .bool 9])
    (.seq [.bool true, .bool false, .uint 513, .seq [.uint 104, .uint 105],
           .seq (List.replicate 9 (.bool true))]) =
    some [0x80, 0x02, 0x01, 0x00, 0x07, 0xff, 0x80, 0x00, 0x02, 104, 105] := by decide

example : staticLen (.tuple [.bool, .bool, .uint 16, .sarray .bool 9, .address]) = 37 ∧
    isDynamic (.tuple [.bool, .bool, .uint 16, .sarray .bool 9, .address]) = false := by decide

/-- an offset that does not fit a uint16 has no encoding (`heads` at offset 65536) -/
example (x : Bytes) (hx : x.length = 65532) : heads 4 [.dyn x, .dyn []] = none := by
  simp [heads, lim16, hx]

/-- **the ARC-4 encoding is injective on each type**: two values of a type with the same encoding
    are the same value (corollary of `decode_encode`) -/
theorem encode_injective (t : Ty) (v w : V) (bs : Bytes) (hv : encode t v = some bs)
    (hw : encode t w = some bs) : v = w := by
  have h1 := decode_encode t v bs hv
  rw [decode_encode t w bs hw] at h1
  exact (Option.some.inj h1).symm

end PyTealV.Arc4
