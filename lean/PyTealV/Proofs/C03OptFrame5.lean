/- C03 — frame property of `Avm.execPrim`: `divmodw` (the generic case analysis of `frame_tac` does not
   get through the kernel for this opcode; here `Except.map` is pushed through the binds instead) -/
import PyTealV.Proofs.C03OptFrameTac
namespace PyTealV.Models.Optimizer
open PyTealV PyTealV.Avm

theorem map_bind_except {ε α β γ} (f : β → γ) (x : Except ε α) (g : α → Except ε β) :
    Except.map f (x >>= g) = x >>= fun a => Except.map f (g a) := by cases x <;> rfl

theorem primFrame_125 : PrimFrame "divmodw" := by
  intro cx imms w sc st
  eval_prim
  rw [map_bind_except]
  congr 1
  funext x
  obtain ⟨a, b, c, d, r⟩ := x
  simp only []
  rw [map_bind_except]; congr 1; funext a'
  rw [map_bind_except]; congr 1; funext b'
  rw [map_bind_except]; congr 1; funext c'
  rw [map_bind_except]; congr 1; funext d'
  by_cases h : c' * two64 + d' = 0
  · rw [if_pos h, if_pos h]; rfl
  · rw [if_neg h, if_neg h]; rfl

end PyTealV.Models.Optimizer
