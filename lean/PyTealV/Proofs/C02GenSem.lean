/-
  C02Gen (part 4): semantic half for one routine of a program — if the code of a tree sits in the
  routine graph as `ShapeR` describes, every terminating source evaluation is matched by the
  multi-routine graph machine, up to `SameW` and unless the operand stack overflows.
  Port of `Proofs/ShapeSem.lean` (same case structure, same names); the differences:
    * reachability is `ReachO cx X` (inside routine `X.r` with call stack `X.cs`, up to `SameW`);
    * `ret` is `retsub` inside a subroutine: the goal of a `.ret` result is `RetGoal`
      (main routine: the program ends; subroutine: the machine is back at the return point of the
      innermost frame with the returned value on top of the stack the evaluation started with),
      and `ret` is only allowed where the stack is the one of the routine entry (`rc`);
    * the `call` case is in `Proofs/C02GenCall.lean`, the `wideRatio` case in
      `Proofs/C02GenWide.lean`; here they are hypotheses of `step_ev`.
-/
import PyTealV.Proofs.C02GenShape
import PyTealV.Proofs.C02GenPrim
import PyTealV.Proofs.ShapeSem
namespace PyTealV.Proofs.C02Gen
open PyTealV PyTealV.Avm PyTealV.Src PyTealV.Comp PyTealV.Models.Fragment PyTealV.Models.FragmentR PyTealV.Proofs.Ops
open PyTealV.Check (isSimple)
open PyTealV.Proofs.Shape (ovf Blk lowInstr lowArgs isUnm retOut)

section
variable (cx : Ctx) (X : MCtx)

/-- the caller's stack after `retsub`: without `proto` the stack is untouched; with `proto a r` the
    arguments (the top `a` entries of the base) and everything above the base except the `r`
    entries directly above it are removed -/
def retStack (fr : GFrame) (ov : Option Val) (σ : List Val) : List Val :=
  match fr.proto with
  | none => (ov.toList ++ σ) ++ X.base
  | some (a, r) => ((ov.toList ++ σ).reverse.take r).reverse ++ X.base.drop a

/-- what the machine must do for a `.ret ov` result of the source evaluation started at block `s`
    with stack `σ` -/
def RetGoal (s : Nat) (σ : List Val) (ic : List Nat) (bcs : List Bytes) (w : World) (ov : Option Val)
    (w' : World) : Prop :=
  match X.r, X.cs with
  | none, _ => ∃ v, ov = some v ∧ HaltO cx X ⟨s, 0⟩ ⟨σ, ic, bcs, w⟩ (retOut v w')
  | some _, fr :: cs' =>
      ReachS X.dev X.ign cx X.Pg X.inv noInv (X.st ⟨s, 0⟩ (X.onBase ⟨σ, ic, bcs, w⟩))
        ⟨fr.ret, fr.pt, cs', ⟨retStack X fr ov σ, ic, bcs, w'⟩⟩
  | some _, [] => False

/-- What the machine, started at block `s` with stack `σ` and (source) world `w`, must do for a
    source result `r, w'`; `V` is the claim for normal completion. -/
def GoalX (s : Nat) (L : Option Loop) (bc rc rv : Bool) (σ : List Val) (ic : List Nat) (bcs : List Bytes)
    (w : World) (V : List Val → World → Prop) : Res → World → Prop
  | .vals vs, w' => V vs w'
  | .brk, w' => bc = true ∧ ∃ l, L = some l ∧
      ReachO cx X ⟨s, 0⟩ ⟨σ, ic, bcs, w⟩ ⟨l.brk, 0⟩ ⟨σ, ic, bcs, w'⟩
  | .cont, w' => bc = true ∧ ∃ l, L = some l ∧
      ReachO cx X ⟨s, 0⟩ ⟨σ, ic, bcs, w⟩ ⟨l.cont, 0⟩ ⟨σ, ic, bcs, w'⟩
  | .ret ov, w' => rc = true ∧ ov.isSome = rv ∧ RetGoal cx X s σ ic bcs w ov w'
  | .exit v, w' => HaltO cx X ⟨s, 0⟩ ⟨σ, ic, bcs, w⟩ (retOut v w')
  | .fail f, _ => isUnm f ∨ Fails cx X ⟨s, 0⟩ ⟨σ, ic, bcs, w⟩

/-- normal completion: exactly `n` values on top of the untouched stack, at block `k` -/
def Goal (s k : Nat) (L : Option Loop) (bc rc rv : Bool) (n : Nat) (σ : List Val) (ic : List Nat)
    (bcs : List Bytes) (w : World) (r : Res) (w' : World) : Prop :=
  GoalX cx X s L bc rc rv σ ic bcs w
    (fun vs w' => vs.length = n ∧ ReachO cx X ⟨s, 0⟩ ⟨σ, ic, bcs, w⟩ ⟨k, 0⟩ ⟨vs ++ σ, ic, bcs, w'⟩) r w'

variable {cx X}

theorem RetGoal.pre {s s0 : Nat} {σ : List Val} {ic bcs} {w w0 : World} {ov : Option Val} {w' : World}
    (pre : ReachO cx X ⟨s0, 0⟩ ⟨σ, ic, bcs, w0⟩ ⟨s, 0⟩ ⟨σ, ic, bcs, w⟩)
    (h : RetGoal cx X s σ ic bcs w ov w') : RetGoal cx X s0 σ ic bcs w0 ov w' := by
  unfold RetGoal at h ⊢
  split
  · rename_i hr
    simp only [hr] at h
    obtain ⟨v, hv, hh⟩ := h
    exact ⟨v, hv, pre.haltO hh⟩
  · rename_i l fr cs' hr hcs
    simp only [hr, hcs] at h
    exact ReachS.trans pre h
  · rename_i l hr hcs
    simp only [hr, hcs] at h

/-- abnormal results pass through an enclosing construct unchanged -/
theorem GoalX.pass {s s0 : Nat} {L : Option Loop} {bc bc' rc rc' rv : Bool} {σ σ' : List Val} {ic bcs}
    {w w0 : World} {V V' : List Val → World → Prop} {r : Res} {w' : World}
    (hnv : ∀ vs, r ≠ .vals vs)
    (pre : ReachO cx X ⟨s0, 0⟩ ⟨σ', ic, bcs, w0⟩ ⟨s, 0⟩ ⟨σ, ic, bcs, w⟩)
    (hbc : bc = true → σ' = σ ∧ bc' = true) (hrc : rc = true → σ' = σ ∧ rc' = true)
    (h : GoalX cx X s L bc rc rv σ ic bcs w V r w') : GoalX cx X s0 L bc' rc' rv σ' ic bcs w0 V' r w' := by
  cases r with
  | vals vs => exact absurd rfl (hnv vs)
  | brk =>
    obtain ⟨hb, l, hl, hr⟩ := h
    obtain ⟨rfl, hb'⟩ := hbc hb
    exact ⟨hb', l, hl, pre.trans hr⟩
  | cont =>
    obtain ⟨hb, l, hl, hr⟩ := h
    obtain ⟨rfl, hb'⟩ := hbc hb
    exact ⟨hb', l, hl, pre.trans hr⟩
  | ret v =>
    obtain ⟨hr, hv, hg⟩ := h
    obtain ⟨rfl, hr'⟩ := hrc hr
    exact ⟨hr', hv, hg.pre pre⟩
  | exit v => exact pre.haltO h
  | fail f => exact h.imp id pre.fails

theorem GoalX.same {s : Nat} {L : Option Loop} {bc bc' rc rc' rv : Bool} {σ : List Val} {ic bcs}
    {w : World} {V V' : List Val → World → Prop} {r : Res} {w' : World}
    (hnv : ∀ vs, r ≠ .vals vs) (hbc : bc = true → bc' = true) (hrc : rc = true → rc' = true)
    (h : GoalX cx X s L bc rc rv σ ic bcs w V r w') : GoalX cx X s L bc' rc' rv σ ic bcs w V' r w' :=
  h.pass hnv (.refl _ _) (fun hb => ⟨rfl, hbc hb⟩) (fun hb => ⟨rfl, hrc hb⟩)

end

/-- the five statements proved together by induction on the fuel, for one routine -/
structure AllX (X : MCtx) (cfg : RCfg) (K : RK) (env : Env) (fuel : Nat) : Prop where
  ev : ∀ e s k L bc rc n σ ic bcs w r w', ShapeR X.G cfg e s k L → wtR K bc rc n e = true →
    eval env fuel e w = (r, w') → Goal env.cx X s k L bc rc K.rv n σ ic bcs w r w'
  args : ∀ es s k L acc σ ic bcs w r w', ShapeRArgs X.G cfg es s k L → wtRArgs K es = true →
    evalArgs env fuel es w acc = (r, w') →
    GoalX env.cx X s L false false K.rv (acc ++ σ) ic bcs w
      (fun st w' => st.length = acc.length + es.length ∧
        ReachO env.cx X ⟨s, 0⟩ ⟨acc ++ σ, ic, bcs, w⟩ ⟨k, 0⟩ ⟨st ++ σ, ic, bcs, w'⟩) r w'
  seq : ∀ es s k L bc rc n σ ic bcs w r w', ShapeRSeq X.G cfg es s k L → wtRSeq K bc rc n es = true →
    evalSeq env fuel es w = (r, w') → Goal env.cx X s k L bc rc K.rv n σ ic bcs w r w'
  cond : ∀ arms s endB errB L bc rc n σ ic bcs w r w', ShapeRCond X.G cfg arms s endB errB L →
    Blk X.G errB [.err] .none → wtRArms K bc rc n arms = true →
    evalCond env fuel arms w = (r, w') → Goal env.cx X s endB L bc rc K.rv n σ ic bcs w r w'
  forL : ∀ c st d cs br ss shdr ds endB k L bc rc σ ic bcs w r w',
    ShapeR X.G cfg c cs br (some ⟨endB, shdr⟩) → ShapeR X.G cfg st ss cs (some ⟨endB, shdr⟩) →
    Blk X.G shdr [] (.next ss) → ShapeR X.G cfg d ds shdr (some ⟨endB, shdr⟩) →
    Blk X.G br [] (.cond ds endB) → Blk X.G endB [] (.next k) →
    wtR K false false 1 c = true → wtR K false rc 0 st = true → wtR K true rc 0 d = true →
    evalForLoop env fuel c st d w = (r, w') → Goal env.cx X cs k L bc rc K.rv 0 σ ic bcs w r w'

section Cases
variable {X : MCtx} {cfg : RCfg} {K : RK} {env : Env} {fuel : Nat}

theorem pushV_reach {b k : Nat} {i : Instr} {v : Val} {σ ic bcs w}
    (hb : Blk X.G b [i] (.next k)) (hsim : isSimple i = true)
    (hi : ∀ wm τ, SameW X.ign w wm → execSimple env.cx i ⟨τ, ic, bcs, wm⟩ = some (pushV ⟨τ, ic, bcs, wm⟩ v)) :
    ReachO env.cx X ⟨b, 0⟩ ⟨σ, ic, bcs, w⟩ ⟨k, 0⟩ ⟨v :: σ, ic, bcs, w⟩ := by
  refine ReachO.of_block hb (by simpa using hsim) (fun wm hw hinv _ => ?_)
  by_cases hlt : (σ ++ X.base).length < maxStack
  · refine .inr ⟨wm, hw, hinv, ?_⟩
    simp only [execOps, MCtx.onBase, hi wm _ hw, pushV, hlt, if_true, List.cons_append]
  · refine .inl ?_
    simp only [execOps, MCtx.onBase, hi wm _ hw, pushV, hlt, if_false, ovf]

theorem empty_reach {b k : Nat} {m : MS} (hb : Blk X.G b [] (.next k)) :
    ReachO env.cx X ⟨b, 0⟩ m ⟨k, 0⟩ m :=
  ReachO.of_block hb (by simp) (fun wm hw hinv _ => .inr ⟨wm, hw, hinv, rfl⟩)

theorem err_fails {b : Nat} {succ : Succ} {m : MS} (hb : Blk X.G b [.err] succ) : Fails env.cx X ⟨b, 0⟩ m :=
  Fails.of_block hb (by simp [isSimple]) (fun _ _ => ⟨_, rfl⟩)

/-- terminal results (return / exit / failure) pass through any context -/
def isTerm : Res → Prop
  | .ret _ => True
  | .exit _ => True
  | .fail _ => True
  | _ => False

theorem GoalX.pass_term {s s0 : Nat} {L L' : Option Loop} {bc bc' rc rc' rv : Bool} {σ σ' : List Val} {ic bcs}
    {w w0 : World} {V V' : List Val → World → Prop} {r : Res} {w' : World}
    (ht : isTerm r)
    (pre : ReachO env.cx X ⟨s0, 0⟩ ⟨σ', ic, bcs, w0⟩ ⟨s, 0⟩ ⟨σ, ic, bcs, w⟩)
    (hrc : rc = true → σ' = σ ∧ rc' = true)
    (h : GoalX env.cx X s L bc rc rv σ ic bcs w V r w') : GoalX env.cx X s0 L' bc' rc' rv σ' ic bcs w0 V' r w' := by
  cases r with
  | vals vs => exact ht.elim
  | brk => exact ht.elim
  | cont => exact ht.elim
  | ret v =>
    obtain ⟨hr, hv, hg⟩ := h
    obtain ⟨rfl, hr'⟩ := hrc hr
    exact ⟨hr', hv, hg.pre pre⟩
  | exit v => exact pre.haltO h
  | fail f => exact h.imp id pre.fails

theorem Goal.pre {s0 s k : Nat} {L bc rc n σ ic bcs w0 w r w'}
    (pre : ReachO env.cx X ⟨s0, 0⟩ ⟨σ, ic, bcs, w0⟩ ⟨s, 0⟩ ⟨σ, ic, bcs, w⟩)
    (h : Goal env.cx X s k L bc rc K.rv n σ ic bcs w r w') : Goal env.cx X s0 k L bc rc K.rv n σ ic bcs w0 r w' := by
  cases r with
  | vals vs => exact ⟨h.1, pre.trans h.2⟩
  | _ => exact GoalX.pass (by intro vs hh; cases hh) pre (fun hb => ⟨rfl, hb⟩) (fun hb => ⟨rfl, hb⟩) h

theorem Goal.post {s k' k : Nat} {L bc rc n σ ic bcs w r w'}
    (post : ∀ st w, ReachO env.cx X ⟨k', 0⟩ ⟨st, ic, bcs, w⟩ ⟨k, 0⟩ ⟨st, ic, bcs, w⟩)
    (h : Goal env.cx X s k' L bc rc K.rv n σ ic bcs w r w') : Goal env.cx X s k L bc rc K.rv n σ ic bcs w r w' := by
  cases r with
  | vals vs => exact ⟨h.1, h.2.trans (post _ _)⟩
  | _ => exact GoalX.same (by intro vs hh; cases hh) id id h

theorem case_int {n s k L bc rc m σ ic bcs w r w'} (hb : Blk X.G s [.pushInt n] (.next k)) (hm : m = 1)
    (h : eval env (fuel + 1) (.int n) w = (r, w')) : Goal env.cx X s k L bc rc K.rv m σ ic bcs w r w' := by
  simp only [eval] at h
  cases h
  exact ⟨hm.symm ▸ rfl, pushV_reach hb rfl (fun _ _ _ => rfl)⟩

theorem case_bytes {b s k L bc rc m σ ic bcs w r w'} (hb : Blk X.G s [.pushBytes b] (.next k)) (hm : m = 1)
    (h : eval env (fuel + 1) (.bytes b) w = (r, w')) : Goal env.cx X s k L bc rc K.rv m σ ic bcs w r w' := by
  simp only [eval] at h
  cases h
  exact ⟨hm.symm ▸ rfl, pushV_reach hb rfl (fun _ _ _ => rfl)⟩

theorem case_index {v s k L bc rc m σ ic bcs w r w'} (hmark : cfg.markIndex = false)
    (hb : Blk X.G s [if cfg.markIndex then .prim "__index" [toString v] else .pushInt v] (.next k)) (hm : m = 1)
    (h : eval env (fuel + 1) (.index v) w = (r, w')) : Goal env.cx X s k L bc rc K.rv m σ ic bcs w r w' := by
  simp only [eval] at h
  cases h
  rw [hmark] at hb
  exact ⟨hm.symm ▸ rfl, pushV_reach hb rfl (fun _ _ _ => rfl)⟩

theorem case_load {v s k L bc rc m σ ic bcs w r w'} (hb : Blk X.G s [.load v] (.next k)) (hm : m = 1)
    (hv : v < 256) (hvi : v ∉ X.ign)
    (h : eval env (fuel + 1) (.load v) w = (r, w')) : Goal env.cx X s k L bc rc K.rv m σ ic bcs w r w' := by
  simp only [eval] at h
  cases h
  exact ⟨hm.symm ▸ rfl, pushV_reach hb rfl (fun wm τ hw => by simp only [execSimple, hv, if_true, hw.1 v hvi])⟩

/-- the machine side of a by-value parameter under the frame-pointer convention: `frame_dig idx`
    pushes the value that the source semantics keeps in the parameter cell `v` -/
def FrameCell (cx : Ctx) (X : MCtx) (idx : Int) (v : Nat) : Prop :=
  ∃ val, (∀ w, X.inv w → getSlot w.scratch v = val) ∧
    ∀ (b : Nat) (blk : Block) (m : MS), X.G[b]? = some blk → blk.ops = [.frameDig idx] →
      gstepP cx X.Pg (X.st ⟨b, 0⟩ (X.onBase m)) =
        (match pushV (X.onBase m) val with
         | .ok m' => .next (X.st ⟨b, 1⟩ m')
         | .halt o => .halt o)

theorem case_loadF {v idx s k L bc rc m σ ic bcs w r w'} (hb : Blk X.G s [.frameDig idx] (.next k)) (hm : m = 1)
    (hc : FrameCell env.cx X idx v)
    (h : eval env (fuel + 1) (.load v) w = (r, w')) : Goal env.cx X s k L bc rc K.rv m σ ic bcs w r w' := by
  simp only [eval] at h
  cases h
  refine ⟨hm.symm ▸ rfl, ?_⟩
  obtain ⟨val, hval, hstep⟩ := hc
  intro wm hw hinv hbound
  have hst := hstep s _ ⟨σ, ic, bcs, wm⟩ hb rfl
  rw [hval w hinv]
  by_cases hlt : (σ ++ X.base).length < maxStack
  · refine .inr ⟨wm, hw, hinv, ?_⟩
    simp only [pushV, MCtx.onBase, hlt, if_true] at hst
    refine (ReachP.step hst).trans (.step ?_)
    unfold Blk at hb
    exact step_exit hb rfl rfl
  · refine .inl ⟨ovfF, X.devOvf, .step ?_⟩
    simp only [pushV, MCtx.onBase, hlt, if_false] at hst
    exact hst

theorem case_store {v e s ob k L bc rc n σ ic bcs w r w'} (ih : AllX X cfg K env fuel) (hX : X.InvOK)
    (hb : Blk X.G ob [.store v] (.next k)) (he : ShapeR X.G cfg e s ob L)
    (hn : n = 0) (hv : v < 256) (hvi : v ∉ X.ign) (hvp : v ∉ X.prot) (hwe : wtR K false false 1 e = true)
    (h : eval env (fuel + 1) (.store v e) w = (r, w')) : Goal env.cx X s k L bc rc K.rv n σ ic bcs w r w' := by
  simp only [eval] at h
  rcases hev : eval env fuel e w with ⟨r1, w1⟩
  rw [hev] at h
  have g1 := ih.ev _ _ _ _ _ _ _ σ ic bcs _ _ _ he hwe hev
  cases r1 with
  | vals vs =>
    obtain ⟨hlen, hr⟩ := g1
    match vs, hlen with
    | [x], _ =>
      simp only [] at h
      cases h
      refine ⟨hn.symm ▸ rfl, hr.trans (ReachO.of_block hb (by simp [isSimple])
        (fun wm hw hinv _ => .inr ⟨_, hw.set v x, hX.set hvp hinv, ?_⟩))⟩
      simp only [execOps, execSimple, MCtx.onBase, hv, if_true, List.cons_append, List.nil_append]
  | _ =>
    simp only [] at h
    cases h
    exact g1.same (by intro vs hh; cases hh) (by simp) (by simp)

theorem renOp_same {op : String} (h : Models.Optimizer.framedOps.contains op = true ∨ op = "loads" ∨ op = "stores") : renOp op = op := by
  unfold renOp
  split
  · rename_i hop
    simp only [beq_iff_eq] at hop
    subst hop
    rcases h with hf | hh | hh
    · exact absurd hf (by decide)
    · exact absurd hh (by decide)
    · exact absurd hh (by decide)
  · split
    · rename_i hop
      simp only [beq_iff_eq] at hop
      subst hop
      rcases h with hf | hh | hh
      · exact absurd hf (by decide)
      · exact absurd hh (by decide)
      · exact absurd hh (by decide)
    · rfl

/-- executing a `prim` block whose opcode the machine runs under the same name -/
theorem prim_block_same {op imms ob k k0 p st σ ic bcs w1} (hKI : K.ign = X.ign) (hX : X.InvOK)
    (hprot : K.strict = false → X.prot = X.ign)
    (hsig' : Models.Fragment.primSig op = some (k0, p))
    (hk : Models.Optimizer.framedOps.contains op = true ∨ (K.ign = [] ∧ K.strict = false ∧ (op = "loads" ∨ op = "stores")))
    (hb : Blk X.G ob [.prim op imms] (.next k)) (hlen : st.length = k0) :
    match execPrim env.cx op imms w1 st with
    | .ok (st', w2) => st'.length = p ∧
        ReachO env.cx X ⟨ob, 0⟩ ⟨st ++ σ, ic, bcs, w1⟩ ⟨k, 0⟩ ⟨st' ++ σ, ic, bcs, w2⟩
    | .error _ => Fails env.cx X ⟨ob, 0⟩ ⟨st ++ σ, ic, bcs, w1⟩ := by
  have hign : ∀ {a a' : World} {st st' : List Val}, execPrim env.cx op imms a st = .ok (st', a') →
      ∀ s, s ∈ X.prot → getSlot a'.scratch s = getSlot a.scratch s := by
    intro a a' st st' hA s hs
    rcases hk with hf | ⟨hI, hstr, _⟩
    · rw [framed_scratch hf env.cx imms hA]
    · rw [hprot hstr, ← hKI, hI] at hs; cases hs
  cases hB : execPrim env.cx op imms w1 st with
  | error f =>
    simp only []
    refine Fails.of_block hb (by simp [isSimple]) (fun wm hw => ⟨f, ?_⟩)
    rw [← hKI] at hw
    have hc := execPrim_sameW (hk.imp id (fun h => ⟨h.1, h.2.2⟩)) env.cx imms hw st
    obtain ⟨h1, _⟩ := execPrim_sig hsig' env.cx imms wm st (σ ++ X.base) hlen
    rw [hB] at hc
    cases hB' : execPrim env.cx op imms wm st with
    | ok x => rw [hB'] at hc; obtain ⟨a, b⟩ := x; exact hc.elim
    | error f' =>
      rw [hB'] at hc h1
      simp only [CongR] at hc
      subst hc
      simp only [execOps, execSimple, MCtx.onBase, List.append_assoc, h1, liftR]
  | ok x =>
    obtain ⟨st', w2⟩ := x
    simp only []
    obtain ⟨_, h2⟩ := execPrim_sig hsig' env.cx imms w1 st σ hlen
    refine ⟨h2 _ _ hB, ReachO.of_block hb (by simp [isSimple]) (fun wm hw hinv _ => ?_)⟩
    have hw0 := hw
    rw [← hKI] at hw
    have hc := execPrim_sameW (hk.imp id (fun h => ⟨h.1, h.2.2⟩)) env.cx imms hw st
    obtain ⟨h1, _⟩ := execPrim_sig hsig' env.cx imms wm st (σ ++ X.base) hlen
    rw [hB] at hc
    cases hB' : execPrim env.cx op imms wm st with
    | error f' => rw [hB'] at hc; exact hc.elim
    | ok y =>
      obtain ⟨st2, w2'⟩ := y
      rw [hB'] at hc h1
      obtain ⟨rfl, hw2⟩ := hc
      rw [hKI] at hw2
      have hinv2 : X.inv w2 := hX w1 w2 (fun s hs => hign hB s hs) hinv
      by_cases hlt : (st' ++ (σ ++ X.base)).length ≤ maxStack
      · refine .inr ⟨w2', hw2, hinv2, ?_⟩
        simp only [execOps, execSimple, MCtx.onBase, List.append_assoc, h1, liftR, hlt, if_true]
      · refine .inl ?_
        simp only [execOps, execSimple, MCtx.onBase, List.append_assoc, h1, liftR, hlt, if_false, ovf]

/-- the address operand (the deepest of the operands `st`) of a run-time addressed slot opcode is a
    slot number the machine accepts and that the invariant does not look at -/
def AddrOK (X : MCtx) (st : List Val) : Prop :=
  ∀ s, st.getLast? = some (.u s) → s < 256 ∧ s ∉ X.prot ∧ s ∉ X.ign

/-- either the range failures of `loads` / `stores` are permitted deviations, or the address is
    known to be in range (by-reference discipline) -/
def DynOK (X : MCtx) (st : List Val) : Prop :=
  (X.dev rangeL ∧ X.dev rangeS ∧ X.prot = [] ∧ X.ign = []) ∨ AddrOK X st

/-- `vloads` / `vstores`: the source semantics accepts every slot number, the generated `loads` /
    `stores` checks the range: a permitted deviation (`X.dev rangeL / rangeS`), or excluded by the
    by-reference discipline -/
theorem prim_block_dyn {op imms ob k k0 p st σ ic bcs w1} (hX : X.InvOK)
    (hdev : DynOK X st)
    (hsig' : Models.Fragment.primSig op = some (k0, p)) (hop : op = "vloads" ∨ op = "vstores")
    (hb : Blk X.G ob [.prim (renOp op) imms] (.next k)) (hlen : st.length = k0) :
    match execPrim env.cx op imms w1 st with
    | .ok (st', w2) => st'.length = p ∧
        ReachO env.cx X ⟨ob, 0⟩ ⟨st ++ σ, ic, bcs, w1⟩ ⟨k, 0⟩ ⟨st' ++ σ, ic, bcs, w2⟩
    | .error _ => Fails env.cx X ⟨ob, 0⟩ ⟨st ++ σ, ic, bcs, w1⟩ := by
  rcases hop with rfl | rfl
  · -- vloads
    have hk0 : k0 = 1 := by
      have : Models.Fragment.primSig "vloads" = some (1, 1) := by decide
      rw [this] at hsig'; cases hsig'; rfl
    have hp1 : p = 1 := by
      have : Models.Fragment.primSig "vloads" = some (1, 1) := by decide
      rw [this] at hsig'; cases hsig'; rfl
    subst hk0 hp1
    have hb' : Blk X.G ob [.prim "loads" imms] (.next k) := hb
    match st, hlen with
    | [.b x], _ =>
      rw [exec_vloads_b]
      refine Fails.of_block hb' (by simp [isSimple]) (fun wm _ => ⟨.typeErr "expected uint64", ?_⟩)
      simp only [execOps, execSimple, MCtx.onBase, List.cons_append, List.nil_append, exec_loads_b]
    | [.u s], _ =>
      rw [exec_vloads_u]
      refine ⟨rfl, ReachO.of_block_dev hb' (by simp [isSimple]) (fun wm hw hinv hbound => ?_)⟩
      have hni : s ∉ X.ign := by
        rcases hdev with h | h
        · rw [h.2.2.2]; simp
        · exact (h s rfl).2.2
      by_cases hs : s < 256
      · refine .inr ⟨wm, hw, hinv, ?_⟩
        have hbound' : (getSlot wm.scratch s :: (σ ++ X.base)).length ≤ maxStack := by
          simpa using hbound
        simp only [execOps, execSimple, MCtx.onBase, List.cons_append, List.nil_append, exec_loads_u, hs, if_true,
          hbound', hw.1 s hni]
      · rcases hdev with hdev | ha
        · refine .inl ⟨rangeL, hdev.1, ?_⟩
          simp only [execOps, execSimple, MCtx.onBase, List.cons_append, List.nil_append, exec_loads_u, hs, if_false,
            rangeL]
        · exact absurd (ha s rfl).1 hs
  · -- vstores
    have hk0 : k0 = 2 := by
      have : Models.Fragment.primSig "vstores" = some (2, 0) := by decide
      rw [this] at hsig'; cases hsig'; rfl
    have hp0 : p = 0 := by
      have : Models.Fragment.primSig "vstores" = some (2, 0) := by decide
      rw [this] at hsig'; cases hsig'; rfl
    subst hk0 hp0
    have hb' : Blk X.G ob [.prim "stores" imms] (.next k) := hb
    match st, hlen with
    | [b, .b x], _ =>
      rw [exec_vstores_b]
      refine Fails.of_block hb' (by simp [isSimple]) (fun wm _ => ⟨.typeErr "expected uint64", ?_⟩)
      simp only [execOps, execSimple, MCtx.onBase, List.cons_append, List.nil_append, exec_stores_b]
    | [b, .u s], _ =>
      rw [exec_vstores_u]
      refine ⟨rfl, ReachO.of_block_dev hb' (by simp [isSimple]) (fun wm hw hinv hbound => ?_)⟩
      by_cases hs : s < 256
      · have hinv2 : X.inv { w1 with scratch := setSlot w1.scratch s b } := by
          rcases hdev with hdev | ha
          · exact hX _ _ (fun s hs => by rw [hdev.2.2.1] at hs; cases hs) hinv
          · exact hX.set (ha s rfl).2.1 hinv
        refine .inr ⟨_, hw.set s b, hinv2, ?_⟩
        have hbound' : (σ ++ X.base).length ≤ maxStack := by
          have : (b :: Val.u s :: (σ ++ X.base)).length ≤ maxStack := by simpa using hbound
          simp only [List.length_cons] at this
          omega
        simp only [execOps, execSimple, MCtx.onBase, List.cons_append, List.nil_append, exec_stores_u, hs, if_true,
          hbound']
      · rcases hdev with hdev | ha
        · refine .inl ⟨rangeS, hdev.2.1, ?_⟩
          simp only [execOps, execSimple, MCtx.onBase, List.cons_append, List.nil_append, exec_stores_u, hs, if_false,
            rangeS]
        · exact absurd (ha s rfl).1 hs

/-- executing a `prim` block whose opcode has a signature -/
theorem prim_block {op imms ob k k0 p st σ ic bcs w1} (hKI : K.ign = X.ign) (hX : X.InvOK)
    (hprot : K.strict = false → X.prot = X.ign)
    (hdyn : (op = "vloads" ∨ op = "vstores") → DynOK X st)
    (hsig : primSigK K op = some (k0, p))
    (hb : Blk X.G ob [.prim (renOp op) imms] (.next k)) (hlen : st.length = k0) :
    match execPrim env.cx op imms w1 st with
    | .ok (st', w2) => st'.length = p ∧
        ReachO env.cx X ⟨ob, 0⟩ ⟨st ++ σ, ic, bcs, w1⟩ ⟨k, 0⟩ ⟨st' ++ σ, ic, bcs, w2⟩
    | .error _ => Fails env.cx X ⟨ob, 0⟩ ⟨st ++ σ, ic, bcs, w1⟩ := by
  obtain ⟨hsig', hkind⟩ := primSigK_cases hsig
  cases hkind with
  | framed hf =>
    rw [renOp_same (.inl hf)] at hb
    exact prim_block_same hKI hX hprot hsig' (.inl hf) hb hlen
  | slot hI hstr hop =>
    rw [renOp_same (.inr hop)] at hb
    exact prim_block_same hKI hX hprot hsig' (.inr ⟨hI, hstr, hop⟩) hb hlen
  | dyn _ hd hop => exact prim_block_dyn hX (hdyn hop) hsig' hop hb hlen

theorem case_prim {op imms args s ob k L bc n σ ic bcs w r w' k0 p} (ih : AllX X cfg K env fuel) (hKI : K.ign = X.ign) (hX : X.InvOK)
    (hprot : K.strict = false → X.prot = X.ign)
    (hdyn : (op = "vloads" ∨ op = "vstores") → X.inv w → ∀ st w1, evalArgs env fuel args w [] = (.vals st, w1) → DynOK X st)
    (hb : Blk X.G ob [.prim (renOp op) imms] (.next k)) (ha : ShapeRArgs X.G cfg args s ob L)
    (hsig : primSigK K op = some (k0, p)) (hk : args.length = k0) (hp : p = n) (hwa : wtRArgs K args = true)
    (h : eval env (fuel + 1) (.prim op imms args) w = (r, w')) : Goal env.cx X s k L bc rc K.rv n σ ic bcs w r w' := by
  simp only [eval] at h
  rcases hev : evalArgs env fuel args w [] with ⟨r1, w1⟩
  rw [hev] at h
  have g1 := ih.args _ _ _ _ [] σ ic bcs _ _ _ ha hwa hev
  simp only [List.nil_append, List.length_nil, Nat.zero_add] at g1
  cases r1 with
  | vals st =>
    obtain ⟨hlen, hr⟩ := g1
    have pb := fun hq => prim_block (env := env) (σ := σ) (ic := ic) (bcs := bcs) (w1 := w1) hKI hX hprot hq hsig hb (hlen.trans hk)
    -- the address of a run-time addressed slot opcode is known under the invariant of the start world
    have hq : X.inv w → (op = "vloads" ∨ op = "vstores") → DynOK X st := fun hi hop => hdyn hop hi st w1 hev
    simp only [] at h
    cases hB : execPrim env.cx op imms w1 st with
    | error f =>
      rw [hB] at h pb
      cases h
      exact .inr (fun wm hw hinv hm => (hr.fails (pb (hq hinv))) wm hw hinv hm)
    | ok x =>
      obtain ⟨st', w2⟩ := x
      rw [hB] at h pb
      cases h
      have hlen2 : st'.length = p := by
        obtain ⟨_, h2⟩ := execPrim_sig (primSigK_primSig hsig) env.cx imms w1 st σ (hlen.trans hk)
        exact h2 _ _ hB
      exact ⟨hlen2.trans hp, fun wm hw hinv hm => (hr.trans (pb (hq hinv)).2) wm hw hinv hm⟩
  | _ =>
    simp only [] at h
    cases h
    exact g1.same (by intro vs hh; cases hh) (by simp) (by simp)

theorem unm_goal {s L bc rc rv σ ic bcs w V msg w'} :
    GoalX env.cx X s L bc rc rv σ ic bcs w V (.fail (.unmodelled msg)) w' := .inl ⟨msg, rfl⟩

theorem all_zero : AllX X cfg K env 0 where
  ev := by
    intro e s k L bc rc n σ ic bcs w r w' _ _ h
    simp only [eval] at h; cases h; exact unm_goal
  args := by
    intro es s k L acc σ ic bcs w r w' _ _ h
    simp only [evalArgs] at h; cases h; exact unm_goal
  seq := by
    intro es s k L bc rc n σ ic bcs w r w' _ _ h
    simp only [evalSeq] at h; cases h; exact unm_goal
  cond := by
    intro arms s endB errB L bc rc n σ ic bcs w r w' _ _ _ h
    simp only [evalCond] at h; cases h; exact unm_goal
  forL := by
    intro c st d cs br ss shdr ds endB k L bc rc σ ic bcs w r w' _ _ _ _ _ _ _ _ _ h
    simp only [evalForLoop] at h; cases h; exact unm_goal

theorem step_args {es s k L acc σ ic bcs w r w'} (ih : AllX X cfg K env fuel)
    (ha : ShapeRArgs X.G cfg es s k L) (hw : wtRArgs K es = true)
    (h : evalArgs env (fuel + 1) es w acc = (r, w')) :
    GoalX env.cx X s L false false K.rv (acc ++ σ) ic bcs w
      (fun st w' => st.length = acc.length + es.length ∧
        ReachO env.cx X ⟨s, 0⟩ ⟨acc ++ σ, ic, bcs, w⟩ ⟨k, 0⟩ ⟨st ++ σ, ic, bcs, w'⟩) r w' := by
  cases ha with
  | nil =>
    simp only [evalArgs] at h
    cases h
    exact ⟨rfl, .refl _ _⟩
  | cons hes he =>
    rename_i e es k'
    simp only [wtRArgs, Bool.and_eq_true] at hw
    simp only [evalArgs] at h
    rcases hev : eval env fuel e w with ⟨r1, w1⟩
    rw [hev] at h
    have g1 := ih.ev _ _ _ _ _ _ _ (acc ++ σ) ic bcs _ _ _ he hw.1 hev
    cases r1 with
    | vals vs =>
      obtain ⟨hlen, hr⟩ := g1
      simp only [] at h
      have g2 := ih.args _ _ _ _ (vs ++ acc) σ ic bcs _ _ _ hes hw.2 h
      rw [List.append_assoc] at g2
      cases r with
      | vals st =>
        obtain ⟨hl2, hr2⟩ := g2
        refine ⟨?_, hr.trans hr2⟩
        simp only [List.length_append, List.length_cons] at hl2 ⊢
        omega
      | _ => exact g2.pass (by intro vs hh; cases hh) hr (by simp) (by simp)
    | _ =>
      simp only [] at h
      cases h
      exact g1.same (by intro vs hh; cases hh) (by simp) (by simp)

theorem step_seq {es s k L bc rc n σ ic bcs w r w'} (ih : AllX X cfg K env fuel)
    (hs : ShapeRSeq X.G cfg es s k L) (hw : wtRSeq K bc rc n es = true)
    (h : evalSeq env (fuel + 1) es w = (r, w')) : Goal env.cx X s k L bc rc K.rv n σ ic bcs w r w' := by
  cases hs with
  | nil hb =>
    simp only [evalSeq] at h
    cases h
    simp only [wtRSeq, beq_iff_eq] at hw
    exact ⟨hw.symm ▸ rfl, empty_reach hb⟩
  | cons hes he =>
    rename_i e es k'
    cases hes with
    | nil hb =>
      simp only [evalSeq] at h
      simp only [wtRSeq] at hw
      exact (ih.ev _ _ _ _ _ _ _ σ ic bcs _ _ _ he hw h).post (fun _ _ => empty_reach hb)
    | cons hes2 he2 =>
      rename_i e2 es2 k''
      simp only [evalSeq] at h
      simp only [wtRSeq, Bool.and_eq_true] at hw
      rcases hev : eval env fuel e w with ⟨r1, w1⟩
      rw [hev] at h
      have g1 := ih.ev _ _ _ _ _ _ _ σ ic bcs _ _ _ he hw.1 hev
      cases r1 with
      | vals vs =>
        obtain ⟨hlen, hr⟩ := g1
        simp only [] at h
        have hnil : vs = [] := List.length_eq_zero_iff.mp hlen
        subst hnil
        exact (ih.seq _ _ _ _ _ _ _ σ ic bcs _ _ _ (.cons hes2 he2) hw.2 h).pre hr
      | _ =>
        simp only [] at h
        cases h
        exact g1.same (by intro vs hh; cases hh) id id

/-- what the machine does after a condition `c` (entry `s`, then the branch block `ts / es`) -/
def CondB (cx : Ctx) (X : MCtx) (rv : Bool) (s ts es : Nat) (σ : List Val) (ic : List Nat) (bcs : List Bytes) (w : World) :
    Res → World → Prop
  | .vals [.u n], w1 => ReachO cx X ⟨s, 0⟩ ⟨σ, ic, bcs, w⟩ ⟨if n = 0 then es else ts, 0⟩ ⟨σ, ic, bcs, w1⟩
  | .vals _, _ => Fails cx X ⟨s, 0⟩ ⟨σ, ic, bcs, w⟩
  | r, w1 => ∀ L' bc' rc' V', GoalX cx X s L' bc' rc' rv σ ic bcs w V' r w1

/-- the value of a condition: exactly one value; a `uint64` branches, bytes fail -/
theorem cond_branch {c s br ts es L σ ic bcs w r1 w1} (ih : AllX X cfg K env fuel)
    (hc : ShapeR X.G cfg c s br L) (hbr : Blk X.G br [] (.cond ts es)) (hwc : wtR K false false 1 c = true)
    (hev : eval env fuel c w = (r1, w1)) : CondB env.cx X K.rv s ts es σ ic bcs w r1 w1 := by
  have g1 := ih.ev _ _ _ _ _ _ _ σ ic bcs _ _ _ hc hwc hev
  cases r1 with
  | vals vs =>
    obtain ⟨hlen, hr⟩ := g1
    match vs, hlen with
    | [x], _ =>
      cases x with
      | u n => exact hr.trans (blockO_cond hbr)
      | b y => exact hr.fails (blockO_cond_bytes hbr)
  | brk => exact absurd g1.1 (by simp)
  | cont => exact absurd g1.1 (by simp)
  | ret v => intro L' bc' rc' V'; exact g1.pass_term trivial (.refl _ _) (by simp)
  | exit v => intro L' bc' rc' V'; exact g1.pass_term trivial (.refl _ _) (by simp)
  | fail f => intro L' bc' rc' V'; exact g1.pass_term trivial (.refl _ _) (by simp)

theorem typeErr_goal {s L bc σ ic bcs w V msg w'} (h : Fails env.cx X ⟨s, 0⟩ ⟨σ, ic, bcs, w⟩) :
    GoalX env.cx X s L bc rc K.rv σ ic bcs w V (.fail (.typeErr msg)) w' := .inr h

theorem case_iteSome {c t e s br ts es endB k L bc rc n σ ic bcs w r w'} (ih : AllX X cfg K env fuel)
    (hend : Blk X.G endB [] (.next k)) (ht : ShapeR X.G cfg t ts endB L) (hee : ShapeR X.G cfg e es endB L)
    (hbr : Blk X.G br [] (.cond ts es)) (hc : ShapeR X.G cfg c s br L)
    (hwc : wtR K false false 1 c = true) (hwt : wtR K bc rc n t = true) (hwe : wtR K bc rc n e = true)
    (h : eval env (fuel + 1) (.ite c t (some e)) w = (r, w')) :
    Goal env.cx X s k L bc rc K.rv n σ ic bcs w r w' := by
  simp only [eval] at h
  rcases hev : eval env fuel c w with ⟨r1, w1⟩
  rw [hev] at h
  have cb := cond_branch (σ := σ) (ic := ic) (bcs := bcs) ih hc hbr hwc hev
  clear hev
  cases r1 with
  | vals vs =>
    match vs with
    | [] => simp only [CondB] at h cb; cases h; exact typeErr_goal cb
    | [.b y] => simp only [CondB] at h cb; cases h; exact typeErr_goal cb
    | x :: _ :: _ => cases x <;> (simp only [CondB] at h cb; cases h; exact typeErr_goal cb)
    | [.u m] =>
      simp only [CondB] at h cb
      by_cases hm : m = 0
      · simp only [hm, ne_eq, not_true_eq_false, if_false, if_true] at h cb
        exact ((ih.ev _ _ _ _ _ _ _ σ ic bcs _ _ _ hee hwe h).pre cb).post (fun _ _ => empty_reach hend)
      · simp only [hm, ne_eq, not_false_eq_true, if_true, if_false] at h cb
        exact ((ih.ev _ _ _ _ _ _ _ σ ic bcs _ _ _ ht hwt h).pre cb).post (fun _ _ => empty_reach hend)
  | _ =>
    simp only [CondB] at h cb
    cases h
    exact cb _ _ _ _

theorem case_iteNone {c t s br ts endB k L bc rc n σ ic bcs w r w'} (ih : AllX X cfg K env fuel)
    (hend : Blk X.G endB [] (.next k)) (ht : ShapeR X.G cfg t ts endB L)
    (hbr : Blk X.G br [] (.cond ts endB)) (hc : ShapeR X.G cfg c s br L)
    (hn : n = 0) (hwc : wtR K false false 1 c = true) (hwt : wtR K bc rc 0 t = true)
    (h : eval env (fuel + 1) (.ite c t none) w = (r, w')) :
    Goal env.cx X s k L bc rc K.rv n σ ic bcs w r w' := by
  subst hn
  simp only [eval] at h
  rcases hev : eval env fuel c w with ⟨r1, w1⟩
  rw [hev] at h
  have cb := cond_branch (σ := σ) (ic := ic) (bcs := bcs) ih hc hbr hwc hev
  clear hev
  cases r1 with
  | vals vs =>
    match vs with
    | [] => simp only [CondB] at h cb; cases h; exact typeErr_goal cb
    | [.b y] => simp only [CondB] at h cb; cases h; exact typeErr_goal cb
    | x :: _ :: _ => cases x <;> (simp only [CondB] at h cb; cases h; exact typeErr_goal cb)
    | [.u m] =>
      simp only [CondB] at h cb
      by_cases hm : m = 0
      · simp only [hm, ne_eq, not_true_eq_false, if_false, if_true] at h cb
        cases h
        exact ⟨rfl, cb.trans (empty_reach hend)⟩
      · simp only [hm, ne_eq, not_false_eq_true, if_true, if_false] at h cb
        exact ((ih.ev _ _ _ _ _ _ _ σ ic bcs _ _ _ ht hwt h).pre cb).post (fun _ _ => empty_reach hend)
  | _ =>
    simp only [CondB] at h cb
    cases h
    exact cb _ _ _ _

theorem step_cond {arms s endB errB L bc rc n σ ic bcs w r w'} (ih : AllX X cfg K env fuel)
    (hs : ShapeRCond X.G cfg arms s endB errB L) (herr : Blk X.G errB [.err] .none)
    (hw : wtRArms K bc rc n arms = true)
    (h : evalCond env (fuel + 1) arms w = (r, w')) : Goal env.cx X s endB L bc rc K.rv n σ ic bcs w r w' := by
  cases hs with
  | nil =>
    simp only [evalCond] at h
    cases h
    exact .inr (err_fails herr)
  | cons hrest hb hbr hc =>
    rename_i c b rest br bs nxt
    simp only [evalCond] at h
    simp only [wtRArms, Bool.and_eq_true] at hw
    rcases hev : eval env fuel c w with ⟨r1, w1⟩
    rw [hev] at h
    have cb := cond_branch (σ := σ) (ic := ic) (bcs := bcs) ih hc hbr hw.1.1 hev
    clear hev
    cases r1 with
    | vals vs =>
      match vs with
      | [] => simp only [CondB] at h cb; cases h; exact typeErr_goal cb
      | [.b y] => simp only [CondB] at h cb; cases h; exact typeErr_goal cb
      | x :: _ :: _ => cases x <;> (simp only [CondB] at h cb; cases h; exact typeErr_goal cb)
      | [.u m] =>
        simp only [CondB] at h cb
        by_cases hm : m = 0
        · simp only [hm, ne_eq, not_true_eq_false, if_false, if_true] at h cb
          exact (ih.cond _ _ _ _ _ _ _ _ σ ic bcs _ _ _ hrest herr hw.2 h).pre cb
        · simp only [hm, ne_eq, not_false_eq_true, if_true, if_false] at h cb
          exact (ih.ev _ _ _ _ _ _ _ σ ic bcs _ _ _ hb hw.1.2 h).pre cb
    | _ =>
      simp only [CondB] at h cb
      cases h
      exact cb _ _ _ _

theorem condB_no_brk {s ts es σ ic bcs w w1} (cb : CondB env.cx X K.rv s ts es σ ic bcs w .brk w1) : False := by
  have := cb none false false (fun _ _ => True)
  exact absurd this.1 (by simp)

theorem condB_no_cont {s ts es σ ic bcs w w1} (cb : CondB env.cx X K.rv s ts es σ ic bcs w .cont w1) : False := by
  have := cb none false false (fun _ _ => True)
  exact absurd this.1 (by simp)

theorem case_while {c d hdr cs br ds endB k L bc rc n σ ic bcs w r w'} (ih : AllX X cfg K env fuel)
    (hend : Blk X.G endB [] (.next k)) (hhdr : Blk X.G hdr [] (.next cs))
    (hc : ShapeR X.G cfg c cs br (some ⟨endB, hdr⟩)) (hd : ShapeR X.G cfg d ds hdr (some ⟨endB, hdr⟩))
    (hbr : Blk X.G br [] (.cond ds endB))
    (hw : wtR K bc rc n (.while_ c d) = true)
    (h : eval env (fuel + 1) (.while_ c d) w = (r, w')) :
    Goal env.cx X hdr k L bc rc K.rv n σ ic bcs w r w' := by
  have hsh : ShapeR X.G cfg (.while_ c d) hdr k L := .while_ hend hhdr hc hd hbr
  have hw' := hw
  simp only [wtR, Bool.and_eq_true, beq_iff_eq] at hw'
  obtain ⟨⟨hn, hwc⟩, hwd⟩ := hw'
  simp only [eval] at h
  rcases hev : eval env fuel c w with ⟨r1, w1⟩
  rw [hev] at h
  have cb := cond_branch (σ := σ) (ic := ic) (bcs := bcs) ih hc hbr hwc hev
  have pre0 : ReachO env.cx X ⟨hdr, 0⟩ ⟨σ, ic, bcs, w⟩ ⟨cs, 0⟩ ⟨σ, ic, bcs, w⟩ := empty_reach hhdr
  clear hev
  cases r1 with
  | vals vs =>
    match vs with
    | [] => simp only [CondB] at h cb; cases h; exact typeErr_goal (pre0.fails cb)
    | [.b y] => simp only [CondB] at h cb; cases h; exact typeErr_goal (pre0.fails cb)
    | x :: _ :: _ => cases x <;> (simp only [CondB] at h cb; cases h; exact typeErr_goal (pre0.fails cb))
    | [.u m] =>
      simp only [CondB] at h cb
      by_cases hm : m = 0
      · simp only [hm, if_true] at h cb
        cases h
        exact ⟨hn.symm ▸ rfl, pre0.trans (cb.trans (empty_reach hend))⟩
      · simp only [hm, if_false] at h cb
        have pre1 := pre0.trans cb
        rcases hev2 : eval env fuel d w1 with ⟨r2, w2⟩
        rw [hev2] at h
        have g2 := ih.ev _ _ _ _ _ _ _ σ ic bcs _ _ _ hd hwd hev2
        cases r2 with
        | vals vs2 =>
          obtain ⟨hl2, hr2⟩ := g2
          have hnil : vs2 = [] := List.length_eq_zero_iff.mp hl2
          subst hnil
          simp only [] at h
          exact (ih.ev _ _ _ _ _ _ _ σ ic bcs _ _ _ hsh hw h).pre (pre1.trans hr2)
        | cont =>
          obtain ⟨_, l, hl, hr2⟩ := g2
          cases hl
          simp only [] at h
          exact (ih.ev _ _ _ _ _ _ _ σ ic bcs _ _ _ hsh hw h).pre (pre1.trans hr2)
        | brk =>
          obtain ⟨_, l, hl, hr2⟩ := g2
          cases hl
          simp only [] at h
          cases h
          exact ⟨hn.symm ▸ rfl, pre1.trans (hr2.trans (empty_reach hend))⟩
        | ret v => simp only [] at h; cases h; exact g2.pass_term trivial pre1 (fun h => ⟨rfl, h⟩)
        | exit v => simp only [] at h; cases h; exact g2.pass_term trivial pre1 (fun h => ⟨rfl, h⟩)
        | fail f => simp only [] at h; cases h; exact g2.pass_term trivial pre1 (fun h => ⟨rfl, h⟩)
  | brk => exact (condB_no_brk cb).elim
  | cont => exact (condB_no_cont cb).elim
  | ret v => simp only [] at h; cases h; exact (cb none false rc (fun _ _ => True)).pass_term trivial pre0 (fun h => ⟨rfl, h⟩)
  | exit v => simp only [] at h; cases h; exact (cb none false rc (fun _ _ => True)).pass_term trivial pre0 (fun h => ⟨rfl, h⟩)
  | fail f => simp only [] at h; cases h; exact (cb none false rc (fun _ _ => True)).pass_term trivial pre0 (fun h => ⟨rfl, h⟩)

/-- the part of a `For` iteration after the body: step, then the loop again -/
theorem after_body {c st d cs br ss shdr ds endB k L bc σ ic bcs w w2 r w'} (ih : AllX X cfg K env fuel)
    (hc : ShapeR X.G cfg c cs br (some ⟨endB, shdr⟩)) (hst : ShapeR X.G cfg st ss cs (some ⟨endB, shdr⟩))
    (hshdr : Blk X.G shdr [] (.next ss)) (hd : ShapeR X.G cfg d ds shdr (some ⟨endB, shdr⟩))
    (hbr : Blk X.G br [] (.cond ds endB)) (hend : Blk X.G endB [] (.next k))
    (hwc : wtR K false false 1 c = true) (hws : wtR K false rc 0 st = true) (hwd : wtR K true rc 0 d = true)
    (pre : ReachO env.cx X ⟨cs, 0⟩ ⟨σ, ic, bcs, w⟩ ⟨shdr, 0⟩ ⟨σ, ic, bcs, w2⟩)
    (h : (match eval env fuel st w2 with
          | (.vals _, w3) => evalForLoop env fuel c st d w3
          | (.brk, w3) => (.vals [], w3)
          | (.cont, w3) => (.fail (.unmodelled "continue inside For step"), w3)
          | r => r) = (r, w')) :
    Goal env.cx X cs k L bc rc K.rv 0 σ ic bcs w r w' := by
  have pre1 := pre.trans (empty_reach (env := env) hshdr)
  rcases hev : eval env fuel st w2 with ⟨r3, w3⟩
  rw [hev] at h
  have g3 := ih.ev _ _ _ _ _ _ _ σ ic bcs _ _ _ hst hws hev
  cases r3 with
  | vals vs =>
    obtain ⟨hl, hr⟩ := g3
    have hnil : vs = [] := List.length_eq_zero_iff.mp hl
    subst hnil
    simp only [] at h
    exact (ih.forL _ _ _ _ _ _ _ _ _ _ _ _ _ σ ic bcs _ _ _ hc hst hshdr hd hbr hend hwc hws hwd h).pre
      (pre1.trans hr)
  | brk => exact absurd g3.1 (by simp)
  | cont => exact absurd g3.1 (by simp)
  | ret v => simp only [] at h; cases h; exact g3.pass_term trivial pre1 (fun h => ⟨rfl, h⟩)
  | exit v => simp only [] at h; cases h; exact g3.pass_term trivial pre1 (fun h => ⟨rfl, h⟩)
  | fail f => simp only [] at h; cases h; exact g3.pass_term trivial pre1 (fun h => ⟨rfl, h⟩)

theorem step_for {c st d cs br ss shdr ds endB k L bc rc σ ic bcs w r w'} (ih : AllX X cfg K env fuel)
    (hc : ShapeR X.G cfg c cs br (some ⟨endB, shdr⟩)) (hst : ShapeR X.G cfg st ss cs (some ⟨endB, shdr⟩))
    (hshdr : Blk X.G shdr [] (.next ss)) (hd : ShapeR X.G cfg d ds shdr (some ⟨endB, shdr⟩))
    (hbr : Blk X.G br [] (.cond ds endB)) (hend : Blk X.G endB [] (.next k))
    (hwc : wtR K false false 1 c = true) (hws : wtR K false rc 0 st = true) (hwd : wtR K true rc 0 d = true)
    (h : evalForLoop env (fuel + 1) c st d w = (r, w')) :
    Goal env.cx X cs k L bc rc K.rv 0 σ ic bcs w r w' := by
  simp only [evalForLoop] at h
  rcases hev : eval env fuel c w with ⟨r1, w1⟩
  rw [hev] at h
  have cb := cond_branch (σ := σ) (ic := ic) (bcs := bcs) ih hc hbr hwc hev
  clear hev
  cases r1 with
  | vals vs =>
    match vs with
    | [] => simp only [CondB] at h cb; cases h; exact typeErr_goal cb
    | [.b y] => simp only [CondB] at h cb; cases h; exact typeErr_goal cb
    | x :: _ :: _ => cases x <;> (simp only [CondB] at h cb; cases h; exact typeErr_goal cb)
    | [.u m] =>
      simp only [CondB] at h cb
      by_cases hm : m = 0
      · simp only [hm, if_true] at h cb
        cases h
        exact ⟨rfl, cb.trans (empty_reach hend)⟩
      · simp only [hm, if_false] at h cb
        rcases hev2 : eval env fuel d w1 with ⟨r2, w2⟩
        rw [hev2] at h
        have g2 := ih.ev _ _ _ _ _ _ _ σ ic bcs _ _ _ hd hwd hev2
        cases r2 with
        | vals vs2 =>
          obtain ⟨hl2, hr2⟩ := g2
          have hnil : vs2 = [] := List.length_eq_zero_iff.mp hl2
          subst hnil
          simp only [] at h
          exact after_body ih hc hst hshdr hd hbr hend hwc hws hwd (cb.trans hr2) h
        | cont =>
          obtain ⟨_, l, hl, hr2⟩ := g2
          cases hl
          simp only [] at h
          exact after_body ih hc hst hshdr hd hbr hend hwc hws hwd (cb.trans hr2) h
        | brk =>
          obtain ⟨_, l, hl, hr2⟩ := g2
          cases hl
          simp only [] at h
          cases h
          exact ⟨rfl, cb.trans (hr2.trans (empty_reach hend))⟩
        | ret v => simp only [] at h; cases h; exact g2.pass_term trivial cb (fun h => ⟨rfl, h⟩)
        | exit v => simp only [] at h; cases h; exact g2.pass_term trivial cb (fun h => ⟨rfl, h⟩)
        | fail f => simp only [] at h; cases h; exact g2.pass_term trivial cb (fun h => ⟨rfl, h⟩)
  | brk => exact (condB_no_brk cb).elim
  | cont => exact (condB_no_cont cb).elim
  | ret v => simp only [] at h; cases h; exact cb _ _ _ _
  | exit v => simp only [] at h; cases h; exact cb _ _ _ _
  | fail f => simp only [] at h; cases h; exact cb _ _ _ _

theorem case_for {i c st d s cs br ss shdr ds endB k L bc rc n σ ic bcs w r w'} (ih : AllX X cfg K env fuel)
    (hend : Blk X.G endB [] (.next k))
    (hc : ShapeR X.G cfg c cs br (some ⟨endB, shdr⟩)) (hst : ShapeR X.G cfg st ss cs (some ⟨endB, shdr⟩))
    (hshdr : Blk X.G shdr [] (.next ss)) (hd : ShapeR X.G cfg d ds shdr (some ⟨endB, shdr⟩))
    (hbr : Blk X.G br [] (.cond ds endB)) (hi : ShapeR X.G cfg i s cs (some ⟨endB, shdr⟩))
    (hn : n = 0) (hwi : wtR K false rc 0 i = true)
    (hwc : wtR K false false 1 c = true) (hws : wtR K false rc 0 st = true) (hwd : wtR K true rc 0 d = true)
    (h : eval env (fuel + 1) (.for_ i c st d) w = (r, w')) :
    Goal env.cx X s k L bc rc K.rv n σ ic bcs w r w' := by
  subst hn
  simp only [eval] at h
  rcases hev : eval env fuel i w with ⟨r1, w1⟩
  rw [hev] at h
  have g1 := ih.ev _ _ _ _ _ _ _ σ ic bcs _ _ _ hi hwi hev
  cases r1 with
  | vals vs =>
    obtain ⟨hl, hr⟩ := g1
    have hnil : vs = [] := List.length_eq_zero_iff.mp hl
    subst hnil
    simp only [] at h
    exact (ih.forL _ _ _ _ _ _ _ _ _ _ _ _ _ σ ic bcs _ _ _ hc hst hshdr hd hbr hend hwc hws hwd h).pre hr
  | brk => exact absurd g1.1 (by simp)
  | cont => exact absurd g1.1 (by simp)
  | ret v => simp only [] at h; cases h; exact g1.pass_term trivial (.refl _ _) (fun h => ⟨rfl, h⟩)
  | exit v => simp only [] at h; cases h; exact g1.pass_term trivial (.refl _ _) (fun h => ⟨rfl, h⟩)
  | fail f => simp only [] at h; cases h; exact g1.pass_term trivial (.refl _ _) (fun h => ⟨rfl, h⟩)

theorem case_assert3 {c s ob k L bc rc n σ ic bcs w r w'} (ih : AllX X cfg K env fuel)
    (hb : Blk X.G ob [.prim "assert" []] (.next k)) (hc : ShapeR X.G cfg c s ob L)
    (hn : n = 0) (hwc : wtR K false false 1 c = true)
    (h : eval env (fuel + 1) (.assert_ c) w = (r, w')) : Goal env.cx X s k L bc rc K.rv n σ ic bcs w r w' := by
  subst hn
  simp only [eval] at h
  rcases hev : eval env fuel c w with ⟨r1, w1⟩
  rw [hev] at h
  have g1 := ih.ev _ _ _ _ _ _ _ σ ic bcs _ _ _ hc hwc hev
  cases r1 with
  | vals vs =>
    obtain ⟨hlen, hr⟩ := g1
    match vs, hlen with
    | [x], _ =>
      cases x with
      | b y =>
        simp only [] at h
        cases h
        refine typeErr_goal (hr.fails (Fails.of_block hb (by simp [isSimple]) (fun wm _ => ⟨.typeErr "expected uint64", ?_⟩)))
        simp only [execOps, execSimple, MCtx.onBase, List.cons_append, List.nil_append, exec_assert]
      | u m =>
        simp only [] at h
        by_cases hm : m = 0
        · simp only [hm, ne_eq, not_true_eq_false, if_false] at h
          cases h
          refine .inr (hr.fails (Fails.of_block hb (by simp [isSimple]) (fun wm _ => ⟨.logic "assert failed", ?_⟩)))
          simp only [execOps, execSimple, MCtx.onBase, List.cons_append, List.nil_append, exec_assert, hm, ne_eq,
            not_true_eq_false, if_false]
        · simp only [hm, ne_eq, not_false_eq_true, if_true] at h
          cases h
          refine ⟨rfl, hr.trans (ReachO.of_block hb (by simp [isSimple]) (fun wm hw hinv _ => ?_))⟩
          by_cases hlt : (σ ++ X.base).length ≤ maxStack
          · refine .inr ⟨wm, hw, hinv, ?_⟩
            simp only [execOps, execSimple, MCtx.onBase, List.cons_append, List.nil_append, exec_assert, hm, ne_eq,
              not_false_eq_true, if_true, hlt]
          · refine .inl ?_
            simp only [execOps, execSimple, MCtx.onBase, List.cons_append, List.nil_append, exec_assert, hm, ne_eq,
              not_false_eq_true, if_true, hlt, if_false, ovf]
  | _ =>
    simp only [] at h
    cases h
    exact g1.same (by intro vs hh; cases hh) (by simp) (by simp)

theorem case_assert2 {c s br endB errB k L bc rc n σ ic bcs w r w'} (ih : AllX X cfg K env fuel)
    (hend : Blk X.G endB [] (.next k)) (herr : Blk X.G errB [.err] .none)
    (hbr : Blk X.G br [] (.cond endB errB)) (hc : ShapeR X.G cfg c s br L)
    (hn : n = 0) (hwc : wtR K false false 1 c = true)
    (h : eval env (fuel + 1) (.assert_ c) w = (r, w')) : Goal env.cx X s k L bc rc K.rv n σ ic bcs w r w' := by
  subst hn
  simp only [eval] at h
  rcases hev : eval env fuel c w with ⟨r1, w1⟩
  rw [hev] at h
  have cb := cond_branch (σ := σ) (ic := ic) (bcs := bcs) ih hc hbr hwc hev
  clear hev
  cases r1 with
  | vals vs =>
    match vs with
    | [] => simp only [CondB] at h cb; cases h; exact typeErr_goal cb
    | [.b y] => simp only [CondB] at h cb; cases h; exact typeErr_goal cb
    | x :: _ :: _ => cases x <;> (simp only [CondB] at h cb; cases h; exact typeErr_goal cb)
    | [.u m] =>
      simp only [CondB] at h cb
      by_cases hm : m = 0
      · simp only [hm, ne_eq, not_true_eq_false, if_false, if_true] at h cb
        cases h
        exact .inr (cb.fails (err_fails herr))
      · simp only [hm, ne_eq, not_false_eq_true, if_true, if_false] at h cb
        cases h
        exact ⟨rfl, cb.trans (empty_reach hend)⟩
  | _ =>
    simp only [] at h
    cases h
    exact cb _ _ _ _

theorem ret_block {ob k x σ ic bcs w1} (hb : Blk X.G ob [.ret] (.next k)) :
    HaltO env.cx X ⟨ob, 0⟩ ⟨x :: σ, ic, bcs, w1⟩ (retOut x w1) := by
  refine HaltO.of_block hb (by simp [isSimple]) (fun wm hw => ⟨retOut x wm, ?_, ?_⟩)
  · cases x with
    | u n => exact ⟨rfl, hw⟩
    | b y => rfl
  · cases x <;> rfl

/-- the three kinds of routine: in the main routine `ret` ends the program; in a subroutine
    `retsub` returns to the innermost frame, which carries no `proto` under the scratch-slot
    convention and `proto a r` (`r` = number of results) under the frame-pointer convention -/
inductive RKind (X : MCtx) (cfg : RCfg) (K : RK) : Prop
  | main : cfg.inSub = false → X.r = none → RKind X cfg K
  | sub {l fr cs'} : cfg.inSub = true → X.r = some l → X.cs = fr :: cs' → fr.proto = none → RKind X cfg K
  | subFp {l fr cs' a r} : cfg.inSub = true → X.r = some l → X.cs = fr :: cs' → fr.proto = some (a, r) →
      fr.height = X.base.length → a ≤ X.base.length → r = (if K.rv then 1 else 0) → RKind X cfg K

/-- the `retsub` block as a `ReachS` to the caller's state -/
theorem retsub_reach {b k : Nat} {l : String} {fr : GFrame} {cs' : List GFrame} {ov : Option Val} {σ ic bcs w}
    (hR : RKind X cfg K) (hb : Blk X.G b [.retsub] (.next k)) (hr0 : X.r = some l) (hcs : X.cs = fr :: cs')
    (hov : ov.isSome = K.rv) :
    ReachS X.dev X.ign env.cx X.Pg X.inv noInv (X.st ⟨b, 0⟩ (X.onBase ⟨ov.toList ++ σ, ic, bcs, w⟩))
      ⟨fr.ret, fr.pt, cs', ⟨retStack X fr ov σ, ic, bcs, w⟩⟩ := by
  intro wm hw _ _
  refine .inr ⟨wm, hw, trivial, .step ?_⟩
  cases hR with
  | main _ hr0' => rw [hr0] at hr0'; cases hr0'
  | sub _ _ hcs' hpr =>
    rw [hcs] at hcs'; cases hcs'
    simp only [retStack, hpr]
    exact retsub_step hb hcs hpr
  | subFp _ _ hcs' hpr hh ha hr =>
    rw [hcs] at hcs'; cases hcs'
    simp only [retStack, hpr]
    have hlen : (if K.rv then 1 else 0) ≤ (ov.toList ++ σ).length := by
      cases ov with
      | none => simp only [Option.isSome_none] at hov; simp [← hov]
      | some x => simp only [Option.isSome_some] at hov; simp [← hov]
    rw [← hr] at hlen
    exact retsub_step_proto (top := ov.toList ++ σ) hb hcs hpr hh ha hlen

theorem case_ret {e s ob k L bc rc n σ ic bcs w r w'} (ih : AllX X cfg K env fuel) (hR : RKind X cfg K)
    (hb : Blk X.G ob [if cfg.inSub then .retsub else .ret] (.next k)) (he : ShapeR X.G cfg e s ob L)
    (hrc : rc = true) (hrv : K.rv = true) (hwe : wtR K false false 1 e = true)
    (h : eval env (fuel + 1) (.ret (some e)) w = (r, w')) : Goal env.cx X s k L bc rc K.rv n σ ic bcs w r w' := by
  simp only [eval] at h
  rcases hev : eval env fuel e w with ⟨r1, w1⟩
  rw [hev] at h
  have g1 := ih.ev _ _ _ _ _ _ _ σ ic bcs _ _ _ he hwe hev
  cases r1 with
  | vals vs =>
    obtain ⟨hlen, hr⟩ := g1
    match vs, hlen with
    | [x], _ =>
      simp only [] at h
      cases h
      refine ⟨hrc, by simp [hrv], ?_⟩
      have hsubcase : ∀ {l fr cs'}, cfg.inSub = true → X.r = some l → X.cs = fr :: cs' →
          RetGoal env.cx X s σ ic bcs w (some x) w' := by
        intro l fr cs' hsub hr0 hcs
        rw [hsub] at hb
        unfold RetGoal
        simp only [hr0, hcs]
        exact ReachS.trans hr (retsub_reach (ov := some x) hR hb hr0 hcs (by simp [hrv]))
      cases hR with
      | main hsub hr0 =>
        rw [hsub] at hb
        unfold RetGoal
        simp only [hr0]
        exact ⟨x, rfl, hr.haltO (ret_block hb)⟩
      | sub hsub hr0 hcs _ => exact hsubcase hsub hr0 hcs
      | subFp hsub hr0 hcs _ _ _ _ => exact hsubcase hsub hr0 hcs
  | _ =>
    simp only [] at h
    cases h
    exact g1.same (by intro vs hh; cases hh) (by simp) (by simp)

theorem case_retNone {s k L bc rc n σ ic bcs w r w'} (hR : RKind X cfg K) (hsub : cfg.inSub = true)
    (hb : Blk X.G s [.retsub] (.next k)) (hrc : rc = true) (hrv : K.rv = false)
    (h : eval env (fuel + 1) (.ret none) w = (r, w')) : Goal env.cx X s k L bc rc K.rv n σ ic bcs w r w' := by
  simp only [eval] at h
  cases h
  refine ⟨hrc, by simp [hrv], ?_⟩
  have hsubcase : ∀ {l fr cs'}, X.r = some l → X.cs = fr :: cs' → RetGoal env.cx X s σ ic bcs w none w := by
    intro l fr cs' hr0 hcs
    unfold RetGoal
    simp only [hr0, hcs]
    exact retsub_reach (ov := none) hR hb hr0 hcs (by simp [hrv])
  cases hR with
  | main hsub' _ => rw [hsub] at hsub'; cases hsub'
  | sub _ hr0 hcs _ => exact hsubcase hr0 hcs
  | subFp _ hr0 hcs _ _ _ _ => exact hsubcase hr0 hcs

theorem case_exit {e s ob k L bc rc n σ ic bcs w r w'} (ih : AllX X cfg K env fuel)
    (hb : Blk X.G ob [.ret] (.next k)) (he : ShapeR X.G cfg e s ob L)
    (hwe : wtR K false false 1 e = true)
    (h : eval env (fuel + 1) (.exit e) w = (r, w')) : Goal env.cx X s k L bc rc K.rv n σ ic bcs w r w' := by
  simp only [eval] at h
  rcases hev : eval env fuel e w with ⟨r1, w1⟩
  rw [hev] at h
  have g1 := ih.ev _ _ _ _ _ _ _ σ ic bcs _ _ _ he hwe hev
  cases r1 with
  | vals vs =>
    obtain ⟨hlen, hr⟩ := g1
    match vs, hlen with
    | [x], _ =>
      simp only [] at h
      cases h
      exact hr.haltO (ret_block hb)
  | _ =>
    simp only [] at h
    cases h
    exact g1.same (by intro vs hh; cases hh) (by simp) (by simp)

theorem case_err {s k L bc rc n σ ic bcs w r w'} (hb : Blk X.G s [.err] (.next k))
    (h : eval env (fuel + 1) .err w = (r, w')) : Goal env.cx X s k L bc rc K.rv n σ ic bcs w r w' := by
  simp only [eval] at h
  cases h
  exact .inr (err_fails hb)

theorem case_noteNone {s k L bc rc n σ ic bcs w r w'} (hb : Blk X.G s [] (.next k)) (hn : n = 0)
    (h : eval env (fuel + 1) (.note none) w = (r, w')) : Goal env.cx X s k L bc rc K.rv n σ ic bcs w r w' := by
  simp only [eval] at h
  cases h
  exact ⟨hn.symm ▸ rfl, empty_reach hb⟩

theorem case_nonce {b e s es k L bc rc n σ ic bcs w r w'} (ih : AllX X cfg K env fuel)
    (he : ShapeR X.G cfg e es k L) (hb : Blk X.G s [.pushBytes b, .prim "pop" []] (.next es))
    (hwe : wtR K bc rc n e = true)
    (h : eval env (fuel + 1) (.nonce b e) w = (r, w')) : Goal env.cx X s k L bc rc K.rv n σ ic bcs w r w' := by
  simp only [eval] at h
  have g1 := ih.ev _ _ _ _ _ _ _ σ ic bcs _ _ _ he hwe h
  refine g1.pre (ReachO.of_block hb (by simp [isSimple]) (fun wm hw hinv _ => ?_))
  by_cases hlt : (σ ++ X.base).length < maxStack
  · refine .inr ⟨wm, hw, hinv, ?_⟩
    have hle : (σ ++ X.base).length ≤ maxStack := Nat.le_of_lt hlt
    simp only [execOps, execSimple, MCtx.onBase, pushV, hlt, if_true, exec_pop, hle]
  · refine .inl ?_
    simp only [execOps, execSimple, MCtx.onBase, pushV, hlt, if_false, ovf]

theorem getSlot_foldl_notin : ∀ (l : List (Nat × Val)) (sc : List (Nat × Val)) (s : Nat), s ∉ l.map (·.1) →
    getSlot (l.foldl (fun sc (p : Nat × Val) => setSlot sc p.1 p.2) sc) s = getSlot sc s
  | [], _, _, _ => rfl
  | (k, v) :: l, sc, s, h => by
    simp only [List.map_cons, List.mem_cons, not_or] at h
    rw [List.foldl_cons, getSlot_foldl_notin l _ s h.2, PyTealV.Proofs.C02Spill.getSlot_setSlot, if_neg h.1]

theorem stores_exec {σ ic bcs} : ∀ (vs : List Nat) (vals : List Val) (w : World),
    vals.length = vs.length → (∀ v ∈ vs, v < 256) →
    execOps env.cx (vs.map .store) ⟨vals ++ σ, ic, bcs, w⟩ =
      .ok ⟨σ, ic, bcs, { w with scratch := (vs.zip vals).foldl (fun sc (p : Var × Val) => setSlot sc p.1 p.2) w.scratch }⟩ := by
  intro vs
  induction vs with
  | nil =>
    intro vals w hl _
    have : vals = [] := List.length_eq_zero_iff.mp hl
    subst this
    rfl
  | cons v vs ih =>
    intro vals w hl hv
    match vals, hl with
    | x :: vals', hl =>
      have hv0 : v < 256 := hv v (List.mem_cons_self ..)
      have hl' : vals'.length = vs.length := by simpa using hl
      have := ih vals' { w with scratch := setSlot w.scratch v x } hl'
        (fun u hu => hv u (List.mem_cons_of_mem _ hu))
      simp only [List.map_cons, execOps, execSimple, List.cons_append, hv0, if_true, this, List.zip_cons_cons,
        List.foldl_cons]

theorem case_multi {op imms args outs s ob sb k L bc rc n σ ic bcs w r w' k0 p} (ih : AllX X cfg K env fuel) (hKI : K.ign = X.ign) (hX : X.InvOK)
    (hprot : K.strict = false → X.prot = X.ign)
    (hsb : Blk X.G sb (outs.reverse.map .store) (.next k)) (hb : Blk X.G ob [.prim op imms] (.next sb))
    (ha : ShapeRArgs X.G cfg args s ob L)
    (hn : n = 0) (hsig : primSigK { K with dyn := false } op = some (k0, p)) (hk : args.length = k0) (hp : p = outs.length)
    (houts : ∀ v ∈ outs, v < 256 ∧ v ∉ X.ign ∧ v ∉ X.prot) (hwa : wtRArgs K args = true)
    (h : eval env (fuel + 1) (.multi op imms args outs) w = (r, w')) :
    Goal env.cx X s k L bc rc K.rv n σ ic bcs w r w' := by
  subst hn
  simp only [eval] at h
  rcases hev : evalArgs env fuel args w [] with ⟨r1, w1⟩
  rw [hev] at h
  have g1 := ih.args _ _ _ _ [] σ ic bcs _ _ _ ha hwa hev
  simp only [List.nil_append, List.length_nil, Nat.zero_add] at g1
  cases r1 with
  | vals st =>
    obtain ⟨hlen, hr⟩ := g1
    have hkind : Models.Optimizer.framedOps.contains op = true ∨ (K.ign = [] ∧ K.strict = false ∧ (op = "loads" ∨ op = "stores")) := by
      cases (primSigK_cases hsig).2 with
      | framed hf => exact .inl hf
      | slot hI hstr hop => exact .inr ⟨hI, hstr, hop⟩
      | dyn _ hd _ => cases hd
    have pb := prim_block_same (K := K) (env := env) (σ := σ) (ic := ic) (bcs := bcs) (w1 := w1) hKI hX hprot
      (primSigK_cases hsig).1 hkind hb (hlen.trans hk)
    simp only [] at h
    cases hB : execPrim env.cx op imms w1 st with
    | error f =>
      rw [hB] at h pb
      cases h
      exact .inr (hr.fails pb)
    | ok x =>
      obtain ⟨st', w2⟩ := x
      rw [hB] at h pb
      simp only [] at h pb
      have hl' : st'.length = outs.length := pb.1.trans hp
      rw [if_pos hl'] at h
      cases h
      refine ⟨rfl, hr.trans (pb.2.trans (ReachO.of_block hsb (stores_simple _)
        (fun wm hw hinv _ => .inr ⟨_, SameW.foldl hw (outs.reverse.zip st'), ?_, ?_⟩)))⟩
      · refine hX _ _ (fun s hs => ?_) hinv
        have hns : s ∉ (outs.reverse.zip st').map (·.1) := by
          intro hmem
          obtain ⟨pr, hpr, rfl⟩ := List.mem_map.mp hmem
          have := (List.of_mem_zip hpr).1
          exact (houts _ (List.mem_reverse.mp this)).2.2 hs
        exact getSlot_foldl_notin _ _ _ hns
      · have := stores_exec (env := env) (σ := σ ++ X.base) (ic := ic) (bcs := bcs) outs.reverse st' wm
          (by simpa using hl') (fun v hv => (houts v (List.mem_reverse.mp hv)).1)
        simpa [MCtx.onBase, List.append_assoc] using this
  | _ =>
    simp only [] at h
    cases h
    exact g1.same (by intro vs hh; cases hh) (by simp) (by simp)

/-! ### Substring / Extract / Suffix: the source evaluates `[s, a, b]` and applies the pseudo
    operation; the graph evaluates the lowered operand list and the selected opcodes.
    (`LowRel`, `lowRel_*`, `lowerSubstring_cases`, `lowerExtract_cases`, `BlockSim`, `sim_*` are
    statements about the source semantics and `execOps` only: reused from `Proofs/ShapeSem.lean` and
    `Proofs/ShapeOps.lean`.) -/

open PyTealV.Proofs.Shape (LowRel lowRel_self lowRel_two lowRel_two_one lowRel_one_one lowerSubstring_cases
  lowerExtract_cases evalOp_eq_prim)

/-- common end of all lowered forms -/
theorem lowered {s ob k L bc rc σ ic bcs w r w' f args args' srcop ops} (ih : AllX X cfg K env f) (hX : X.InvOK)
    (hsrc : Models.Optimizer.framedOps.contains srcop = true) (hsimp : ∀ x ∈ ops, isSimple x = true)
    (hb : Blk X.G ob ops (.next k)) (ha : ShapeRArgs X.G cfg args' s ob L) (hwa : wtRArgs K args' = true)
    (hrel : LowRel env f args args' w (fun sst gst _ => ∀ τ wm, BlockSim env.cx ops gst sst srcop τ ic bcs wm))
    (h : evalOp env (f + 1) srcop args w = (r, w')) : Goal env.cx X s k L bc rc K.rv 1 σ ic bcs w r w' := by
  simp only [evalOp] at h
  rcases hrel with ⟨msg, w1, hR⟩ | ⟨sst, gst, w1, hR, hR', hS⟩ | ⟨hnv, hR'⟩
  · rw [hR] at h
    simp only [] at h
    cases h
    exact unm_goal
  · rw [hR] at h
    simp only [] at h
    have g1 := ih.args _ _ _ _ [] σ ic bcs _ _ _ ha hwa hR'
    simp only [List.nil_append, List.length_nil, Nat.zero_add] at g1
    obtain ⟨hlen, hr⟩ := g1
    have hsim := hS hlen
    cases hB : execPrim env.cx srcop [] w1 sst with
    | error e =>
      rw [hB] at h
      cases h
      refine .inr (hr.fails (Fails.of_block hb hsimp (fun wm hw => ?_)))
      have hs := hsim (σ ++ X.base) wm
      unfold BlockSim at hs
      have hc := congR_framed hsrc env.cx [] hw sst
      rw [hB] at hc
      cases hB' : execPrim env.cx srcop [] wm sst with
      | ok x => rw [hB'] at hc; obtain ⟨a, b⟩ := x; exact hc.elim
      | error e' =>
        rw [hB'] at hs
        simpa [MCtx.onBase, List.append_assoc] using hs
    | ok x =>
      obtain ⟨st', w2⟩ := x
      rw [hB] at h
      cases h
      have hl1 : st'.length = 1 := by
        have hs := hsim σ w1
        unfold BlockSim at hs
        rw [hB] at hs
        exact hs.1
      refine ⟨hl1, hr.trans (ReachO.of_block hb hsimp (fun wm hw hinv _ => ?_))⟩
      have hs := hsim (σ ++ X.base) wm
      unfold BlockSim at hs
      have hc := congR_framed hsrc env.cx [] hw sst
      rw [hB] at hc
      cases hB' : execPrim env.cx srcop [] wm sst with
      | error e' => rw [hB'] at hc; exact hc.elim
      | ok y =>
        obtain ⟨st2, w2'⟩ := y
        rw [hB'] at hc hs
        obtain ⟨rfl, hw2⟩ := hc
        obtain ⟨_, hok | hov⟩ := hs
        · refine .inr ⟨w2', hw2, hX.same (framed_scratch hsrc env.cx [] hB) hinv, ?_⟩
          simpa [MCtx.onBase, List.append_assoc] using hok
        · refine .inl ?_
          simpa [MCtx.onBase, List.append_assoc, ovf] using hov
  · rcases hR : evalArgs env f args w [] with ⟨r1, w1⟩
    rw [hR] at h hR' hnv
    have g1 := ih.args _ _ _ _ [] σ ic bcs _ _ _ ha hwa hR'
    simp only [List.nil_append] at g1
    cases r1 with
    | vals st => exact absurd rfl (hnv st)
    | _ =>
      simp only [] at h
      cases h
      exact g1.same (by intro vs hh; cases hh) (by simp) (by simp)

theorem wtRArgs3 {s a b : Expr} (hs : wtR K false false 1 s = true) (ha : wtR K false false 1 a = true)
    (hb : wtR K false false 1 b = true) : wtRArgs K [s, a, b] = true := by
  simp only [wtRArgs, hs, ha, hb, Bool.and_self]

theorem wtRArgs1 {s : Expr} (hs : wtR K false false 1 s = true) : wtRArgs K [s] = true := by
  simp only [wtRArgs, hs, Bool.and_self]

theorem wtR_int (n : Nat) : wtR K false false 1 (.int n) = true := by simp only [wtR, beq_self_eq_true]

theorem case_substring (hKI : K.ign = X.ign) (hX : X.InvOK) (hprot : K.strict = false → X.prot = X.ign) {str a b low s ob k L bc rc n σ ic bcs w r w'}
    (ihs : ∀ f, f ≤ fuel → AllX X cfg K env f)
    (hlow : lowerSubstring cfg.version a b = .ok low) (hb : Blk X.G ob [lowInstr low] (.next k))
    (ha : ShapeRArgs X.G cfg (lowArgs low str a b) s ob L)
    (hn : n = 1) (hws : wtR K false false 1 str = true) (hwa : wtR K false false 1 a = true)
    (hwb : wtR K false false 1 b = true)
    (h : eval env (fuel + 1) (.substring str a b) w = (r, w')) :
    Goal env.cx X s k L bc rc K.rv n σ ic bcs w r w' := by
  subst hn
  simp only [eval] at h
  match fuel, ihs, h with
  | 0, _, h => simp only [evalOp] at h; cases h; exact unm_goal
  | f + 1, ihs, h =>
    have ih := ihs f (Nat.le_succ f)
    rcases lowerSubstring_cases hlow with rfl | ⟨st, en, rfl, rfl, hle, hc⟩
    · rw [evalOp_eq_prim] at h
      exact case_prim ih hKI hX hprot (fun hop => absurd hop (by decide)) (op := "substring3") (by rw [renOp_same (.inl (by decide))]; exact hb) ha (k0 := 3) (p := 1) (by rw [primSigK_of_framed (by decide)]; decide) rfl rfl (wtRArgs3 hws hwa hwb) h
    · rcases hc with ⟨rfl, h0, h1, h2⟩ | rfl | ⟨rfl, h1, h2⟩
      · exact lowered ih hX (by decide) (by simp [lowInstr, isSimple]) hb ha (wtRArgs1 hws)
          (lowRel_two_one _ _ _ _ _ (fun x w1 τ wm => sim_sub_extract x hle h1 h2 h0)) h
      · exact lowered ih hX (by decide) (by simp [lowInstr, isSimple]) hb ha (wtRArgs3 hws (wtR_int _) (wtR_int _))
          (lowRel_two _ _ _ _ _ _ _ (fun x w1 τ wm => sim_sub_consts x hle)) h
      · exact lowered ih hX (by decide) (by simp [lowInstr, isSimple]) hb ha (wtRArgs1 hws)
          (lowRel_two_one _ _ _ _ _ (fun x w1 τ wm => sim_sub_substring x h1 h2)) h

theorem case_extract (hKI : K.ign = X.ign) (hX : X.InvOK) (hprot : K.strict = false → X.prot = X.ign) {str a l s ob k L bc rc n σ ic bcs w r w'}
    (ihs : ∀ f, f ≤ fuel → AllX X cfg K env f)
    (hb : Blk X.G ob [lowInstr (lowerExtract a l)] (.next k))
    (ha : ShapeRArgs X.G cfg (lowArgs (lowerExtract a l) str a l) s ob L)
    (hn : n = 1) (hws : wtR K false false 1 str = true) (hwa : wtR K false false 1 a = true)
    (hwl : wtR K false false 1 l = true)
    (h : eval env (fuel + 1) (.extract str a l) w = (r, w')) :
    Goal env.cx X s k L bc rc K.rv n σ ic bcs w r w' := by
  subst hn
  simp only [eval] at h
  match fuel, ihs, h with
  | 0, _, h => simp only [evalOp] at h; cases h; exact unm_goal
  | f + 1, ihs, h =>
    have ih := ihs f (Nat.le_succ f)
    rcases lowerExtract_cases a l with hl | ⟨st, ln, rfl, rfl, hl, h1, h0, h2⟩
    · rw [hl] at hb ha
      rw [evalOp_eq_prim] at h
      exact case_prim ih hKI hX hprot (fun hop => absurd hop (by decide)) (op := "extract3") (by rw [renOp_same (.inl (by decide))]; exact hb) ha (k0 := 3) (p := 1) (by rw [primSigK_of_framed (by decide)]; decide) rfl rfl (wtRArgs3 hws hwa hwl) h
    · rw [hl] at hb ha
      exact lowered ih hX (by decide) (by simp [lowInstr, isSimple]) hb ha (wtRArgs1 hws)
        (lowRel_two_one _ _ _ _ _ (fun x w1 τ wm => sim_ext_extract x h1 h2 h0)) h

theorem case_suffixImm (hKI : K.ign = X.ign) (hX : X.InvOK) {str st s ob k L bc rc n σ ic bcs w r w'}
    (ihs : ∀ f, f ≤ fuel → AllX X cfg K env f) (hst : st < 256)
    (hb : Blk X.G ob [.prim "extract" [toString st, "0"]] (.next k))
    (ha : ShapeRArgs X.G cfg [str] s ob L)
    (hn : n = 1) (hws : wtR K false false 1 str = true)
    (h : eval env (fuel + 1) (.suffix str (.int st)) w = (r, w')) :
    Goal env.cx X s k L bc rc K.rv n σ ic bcs w r w' := by
  subst hn
  simp only [eval] at h
  match fuel, ihs, h with
  | 0, _, h => simp only [evalOp] at h; cases h; exact unm_goal
  | f + 1, ihs, h =>
    exact lowered (ihs f (Nat.le_succ f)) hX (by decide) (by simp [isSimple]) hb ha (wtRArgs1 hws)
      (lowRel_one_one _ _ _ _ (fun x w1 τ wm => sim_suffix_imm x hst)) h

theorem case_suffixGen (hKI : K.ign = X.ign) (hX : X.InvOK) {str a s ob k L bc rc n σ ic bcs w r w'}
    (ihs : ∀ f, f ≤ fuel → AllX X cfg K env f)
    (hb : Blk X.G ob suffixOps (.next k))
    (ha : ShapeRArgs X.G cfg [str, a] s ob L)
    (hn : n = 1) (hws : wtR K false false 1 str = true) (hwa : wtR K false false 1 a = true)
    (h : eval env (fuel + 1) (.suffix str a) w = (r, w')) :
    Goal env.cx X s k L bc rc K.rv n σ ic bcs w r w' := by
  subst hn
  simp only [eval] at h
  match fuel, ihs, h with
  | 0, _, h => simp only [evalOp] at h; cases h; exact unm_goal
  | f + 1, ihs, h =>
    refine lowered (ihs f (Nat.le_succ f)) hX (by decide) (by simp [suffixOps, isSimple]) hb ha
      (by simp only [wtRArgs, hws, hwa, Bool.and_self]) (lowRel_self _ _ _ ?_) h
    intro st w1 hl τ wm
    match st, hl with
    | [a', x], _ => exact sim_suffix_gen a' x

/-- the operands pushed so far stay at the bottom -/
theorem evalArgs_acc {env : Env} : ∀ {es : List Expr} {fuel : Nat} {w : World} {acc st : List Val} {w1 : World},
    evalArgs env fuel es w acc = (.vals st, w1) → ∃ pre, st = pre ++ acc
  | _, 0, _, _, _, _, h => by simp only [evalArgs] at h; cases h
  | [], _ + 1, _, _, _, _, h => by simp only [evalArgs] at h; cases h; exact ⟨[], rfl⟩
  | e :: es, fuel + 1, w, acc, st, w1, h => by
    simp only [evalArgs] at h
    split at h
    · rename_i vs w2 _
      obtain ⟨pre, rfl⟩ := evalArgs_acc h
      exact ⟨pre ++ vs, by simp⟩
    · rename_i hne
      exact (hne st w1 h).elim

/-- the first operand `load v` ends up deepest -/
theorem evalArgs_load_last {env : Env} {fuel : Nat} {v : Nat} {rest : List Expr} {w : World} {st : List Val}
    {w1 : World} (h : evalArgs env fuel (.load v :: rest) w [] = (.vals st, w1)) :
    st.getLast? = some (getSlot w.scratch v) := by
  match fuel, h with
  | 0, h => simp only [evalArgs] at h; cases h
  | 1, h => simp only [evalArgs, eval] at h; cases h
  | f + 2, h =>
    simp only [evalArgs, eval] at h
    obtain ⟨pre, rfl⟩ := evalArgs_acc h
    simp

/-- by-reference discipline: the address operand is a by-reference parameter of the routine -/
theorem dynShape_load {K : RK} {op : String} {args : List Expr} (hstr : K.strict = true)
    (hop : op = "vloads" ∨ op = "vstores") (h : dynShapeOk K op args = true) :
    ∃ v rest, args = .load v :: rest ∧ v ∈ K.ref := by
  unfold dynShapeOk at h
  have hb : (!(K.strict && (op == "vloads" || op == "vstores"))) = false := by
    rcases hop with rfl | rfl <;> simp [hstr]
  rw [hb, Bool.false_or] at h
  split at h
  next v rest => exact ⟨v, rest, rfl, by simpa using h⟩
  next => cases h

/-- what the case lemmas need to know about the routine the tree belongs to -/
structure RFacts (cx : Ctx) (X : MCtx) (cfg : RCfg) (K : RK) : Prop where
  ign : K.ign = X.ign
  inv : X.InvOK
  mark : cfg.markIndex = false
  kind : RKind X cfg K
  /-- with run-time addressed slots the range failures of `loads` / `stores` are permitted, or the
      by-reference discipline holds: the by-reference parameter cells of the routine hold slot
      numbers in range that the invariant does not look at -/
  dyn : K.dyn = true → (K.ign = [] ∨ K.strict = true) → (X.dev rangeL ∧ X.dev rangeS ∧ X.prot = [] ∧ X.ign = []) ∨
    (K.strict = true ∧ ∀ w, X.inv w → ∀ v, v ∈ K.ref →
      ∃ s, getSlot w.scratch v = .u s ∧ s < 256 ∧ s ∉ X.prot ∧ s ∉ X.ign)
  prot : K.strict = false → X.prot = X.ign
  /-- the trees never store into a slot the invariant looks at -/
  protS : ∀ v, v ∉ K.ign → K.refAll.contains v = false → v ∉ X.prot
  /-- reads of an own parameter under the frame-pointer convention -/
  dig : ∀ v pr, cfg.frameParams.find? (·.1 == v) = some pr → FrameCell cx X pr.2 v
  /-- an ignored slot that the routine may read is one of its frame parameters -/
  own : ∀ v, v ∈ K.ign → v ∈ K.own → cfg.frameParams.find? (·.1 == v) ≠ none

theorem step_ev {e s k L bc rc n σ ic bcs w r w'} (hF : RFacts env.cx X cfg K)
    (ihs : ∀ f, f ≤ fuel → AllX X cfg K env f)
    (hcall : ∀ f args ce s cb k L bc rc n σ ic bcs w r w', cfg.callees.find? (·.id == f) = some ce →
      Blk X.G cb (callOps cfg f ce) (.next k) → ShapeRArgs X.G cfg args s cb L →
      wtR K bc rc n (.call f args) = true → eval env (fuel + 1) (.call f args) w = (r, w') →
      Goal env.cx X s k L bc rc K.rv n σ ic bcs w r w')
    (hwide : ∀ ns ds s dstart cb k L bc rc n σ ic bcs w r w',
      Blk X.G cb (wideInstrs Models.WideRatio.combine) (.next k) →
      ShapeRWideTop X.G cfg ds dstart cb L → ShapeRWideTop X.G cfg ns s dstart L →
      wtR K bc rc n (.wideRatio ns ds) = true → eval env (fuel + 1) (.wideRatio ns ds) w = (r, w') →
      Goal env.cx X s k L bc rc K.rv n σ ic bcs w r w')
    (hs : ShapeR X.G cfg e s k L) (hw : wtR K bc rc n e = true)
    (h : eval env (fuel + 1) e w = (r, w')) : Goal env.cx X s k L bc rc K.rv n σ ic bcs w r w' := by
  have ih := ihs fuel (Nat.le_refl _)
  have hKI := hF.ign
  have hX := hF.inv
  cases hs with
  | int hb =>
    simp only [wtR, beq_iff_eq] at hw
    exact case_int hb hw h
  | bytes hb =>
    simp only [wtR, beq_iff_eq] at hw
    exact case_bytes hb hw h
  | prim hb ha =>
    rename_i op imms args ob
    simp only [wtR, Bool.and_eq_true] at hw
    cases hsig : primSigK K op with
    | none => rw [hsig] at hw; exact absurd hw.1 (by simp)
    | some kp =>
      obtain ⟨k0, p⟩ := kp
      obtain ⟨hw, hds⟩ := hw
      rw [hsig] at hw
      simp only [Bool.and_eq_true, beq_iff_eq] at hw
      refine case_prim ih hKI hX hF.prot ?_ hb ha hsig hw.1.1 hw.1.2 hw.2 h
      intro hop hi st w1 hev
      have hd : K.dyn = true ∧ (K.ign = [] ∨ K.strict = true) := by
        cases (primSigK_cases hsig).2 with
        | framed hf => rcases hop with rfl | rfl <;> exact absurd hf (by decide)
        | slot _ _ hop' => rcases hop with rfl | rfl <;> rcases hop' with hh | hh <;> exact absurd hh (by decide)
        | dyn hI hd _ => exact ⟨hd, hI⟩
      rcases hF.dyn hd.1 hd.2 with hl | ⟨hstr, hv⟩
      · exact .inl hl
      · refine .inr ?_
        obtain ⟨v, rest, rfl, hvr⟩ := dynShape_load hstr hop hds
        intro s hs
        rw [evalArgs_load_last hev] at hs
        obtain ⟨s', h1, h2, h3⟩ := hv w hi v hvr
        rw [h1] at hs
        cases hs
        exact ⟨h2, h3⟩
  | load hf hb =>
    rename_i v
    simp only [wtR, Bool.and_eq_true, beq_iff_eq, decide_eq_true_eq, Bool.or_eq_true, Bool.not_eq_true',
      List.contains_eq_mem, decide_eq_false_iff_not] at hw
    rcases hw.2 with h1 | h1
    · exact absurd hf (hF.own v h1.1 h1.2)
    · exact case_load hb hw.1 h1.1 (hKI ▸ h1.2) h
  | loadF hf hb =>
    simp only [wtR, Bool.and_eq_true, beq_iff_eq] at hw
    exact case_loadF hb hw.1 (hF.dig _ _ hf) h
  | store hb he =>
    simp only [wtR, Bool.and_eq_true, beq_iff_eq, decide_eq_true_eq, Bool.not_eq_true', List.contains_eq_mem,
      decide_eq_false_iff_not] at hw
    exact case_store ih hX hb he hw.1.1.1.1 hw.1.1.1.2 (hKI ▸ hw.1.1.2) (hF.protS _ hw.1.1.2 (by simpa using hw.2)) hw.1.2 h
  | index hb =>
    simp only [wtR, beq_iff_eq] at hw
    exact case_index hF.mark hb hw h
  | multi hsb hb ha =>
    rename_i op imms args outs ob sb
    simp only [wtR, Bool.and_eq_true] at hw
    cases hsig : primSigK { K with dyn := false } op with
    | none => rw [hsig] at hw; exact absurd hw.1.1.1.2 (by simp)
    | some kp =>
      obtain ⟨k0, p⟩ := kp
      rw [hsig] at hw
      simp only [Bool.and_eq_true, beq_iff_eq, List.all_eq_true, decide_eq_true_eq, Bool.not_eq_true',
        List.contains_eq_mem, decide_eq_false_iff_not] at hw
      exact case_multi ih hKI hX hF.prot hsb hb ha hw.1.1.1.1 hsig hw.1.1.1.2.1 hw.1.1.1.2.2
        (fun v hv => ⟨(hw.1.1.2 v hv).1, hKI ▸ (hw.1.1.2 v hv).2,
          hF.protS v (hw.1.1.2 v hv).2 (by simpa using hw.2 v hv)⟩) hw.1.2 h
  | seq hss =>
    simp only [wtR] at hw
    simp only [eval] at h
    exact ih.seq _ _ _ _ _ _ _ σ ic bcs _ _ _ hss hw h
  | iteSome hend ht hee hbr hc =>
    simp only [wtR, Bool.and_eq_true] at hw
    exact case_iteSome ih hend ht hee hbr hc hw.1.1 hw.1.2 hw.2 h
  | iteNone hend ht hbr hc =>
    simp only [wtR, Bool.and_eq_true, beq_iff_eq] at hw
    exact case_iteNone ih hend ht hbr hc hw.1.1 hw.1.2 hw.2 h
  | cond hend herr harms =>
    simp only [wtR] at hw
    simp only [eval] at h
    exact (ih.cond _ _ _ _ _ _ _ _ σ ic bcs _ _ _ harms herr hw h).post (fun _ _ => empty_reach hend)
  | while_ hend hhdr hc hd hbr => exact case_while ih hend hhdr hc hd hbr hw h
  | for_ hend hc hst hshdr hd hbr hi =>
    simp only [wtR, Bool.and_eq_true, beq_iff_eq] at hw
    exact case_for ih hend hc hst hshdr hd hbr hi hw.1.1.1.1 hw.1.1.1.2 hw.1.1.2 hw.1.2 hw.2 h
  | brk hb =>
    simp only [wtR] at hw
    simp only [eval] at h
    cases h
    exact ⟨hw, _, rfl, empty_reach hb⟩
  | cont hb =>
    simp only [wtR] at hw
    simp only [eval] at h
    cases h
    exact ⟨hw, _, rfl, empty_reach hb⟩
  | assert3 hv hb hc =>
    simp only [wtR, Bool.and_eq_true, beq_iff_eq] at hw
    exact case_assert3 ih hb hc hw.1 hw.2 h
  | assert2 hv hend herr hbr hc =>
    simp only [wtR, Bool.and_eq_true, beq_iff_eq] at hw
    exact case_assert2 ih hend herr hbr hc hw.1 hw.2 h
  | ret hb he =>
    simp only [wtR, Bool.and_eq_true] at hw
    exact case_ret ih hF.kind hb he hw.1.1 hw.1.2 hw.2 h
  | retNone hsub hb =>
    simp only [wtR, Bool.and_eq_true, Bool.not_eq_true'] at hw
    exact case_retNone hF.kind hsub hb hw.1 hw.2 h
  | exit hb he =>
    simp only [wtR] at hw
    exact case_exit ih hb he hw h
  | err hb => exact case_err hb h
  | noteNone hb =>
    simp only [wtR, beq_iff_eq] at hw
    exact case_noteNone hb hw h
  | noteSome he =>
    simp only [wtR] at hw
    simp only [eval] at h
    exact ih.ev _ _ _ _ _ _ _ σ ic bcs _ _ _ he hw h
  | nonce he hb =>
    simp only [wtR] at hw
    exact case_nonce ih he hb hw h
  | call hf hb ha => exact hcall _ _ _ _ _ _ _ _ _ _ σ ic bcs _ _ _ hf hb ha hw h
  | wide hb hd hn => exact hwide _ _ _ _ _ _ _ _ _ _ σ ic bcs _ _ _ hb hd hn hw h
  | substring hlow hb ha =>
    simp only [wtR, Bool.and_eq_true, beq_iff_eq] at hw
    exact case_substring hKI hX hF.prot ihs hlow hb ha hw.1.1.1 hw.1.1.2 hw.1.2 hw.2 h
  | extract hb ha =>
    simp only [wtR, Bool.and_eq_true, beq_iff_eq] at hw
    exact case_extract hKI hX hF.prot ihs hb ha hw.1.1.1 hw.1.1.2 hw.1.2 hw.2 h
  | suffixImm hst hv hb ha =>
    simp only [wtR, Bool.and_eq_true, beq_iff_eq] at hw
    exact case_suffixImm hKI hX ihs hst hb ha hw.1.1 hw.1.2 h
  | suffixGen hb ha =>
    simp only [wtR, Bool.and_eq_true, beq_iff_eq] at hw
    exact case_suffixGen hKI hX ihs hb ha hw.1.1 hw.1.2 hw.2 h

end Cases

end PyTealV.Proofs.C02Gen
