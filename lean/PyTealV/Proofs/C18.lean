/-
  C18 — comments, assert comments, pragmas, nonces and subroutine names are annotations.

  Property: adding, removing or changing a Comment, an Assert comment, a Pragma with a satisfied
  constraint, a Nonce or a subroutine name leaves the executable instruction stream unchanged apart
  from comment lines, label spellings and, for Nonce, the push-and-pop of the nonce bytes — whatever
  text they contain.

  What is proved here (for all inputs), against the independent TEAL grammar `PyTealV.Avm.Syntax`
  (`tokenise`, `splitStatements`, `parseInstr`) through `Models.Annot.stripComments`:
    text level    comment_line_vanishes, comment_line_strips, commentexpr_guard_safe, comment_total,
                  comment_lines_safe, comment_lines_invisible, assert_comment_invisible/_unused,
                  label_sanitised_legal, label_injective(_in_index), label_not_main,
                  header_comment_lines_safe, header_lines, name_comment_safe (every name; the old text:
                  name_comment_regression)
    wrapper nodes note_transparent, note_stmt_empty_block, nonce_only_push_pop, note_semantics,
                  nonce_semantics, hasReturn_note/_nonce (code-generation model `Comp.gen`, source
                  semantics `Src.eval`; C01's `gen_correct` covers their run-time meaning)
    recorded      wrapped_literal_counterexample, layout_counterexample, optimiser_counterexample
  Stream identity of whole compiled programs is the harness's search target (see the section
  "stream identity" below).

  ASSUMPTION about real assemblers (part of the trusted grammar): a TEAL text is cut into
  physical lines at `\n` ONLY; `\r`, VT, FF, FS, GS, RS, NEL, U+2028, U+2029 do not end a line
  (`\r`, blank and tab are token separators, the others ordinary characters), and `//` outside a
  string literal / `base64(...)` discards the rest of the physical line.
-/
import PyTealV.Proofs.C13Lemmas
import PyTealV.Proofs.AnnotLemmas
import PyTealV.Models.Annot
import PyTealV.Models.LabelText
import PyTealV.Comp.Gen
import PyTealV.Src
namespace PyTealV.Proofs.C18
open PyTealV PyTealV.Avm PyTealV.Models.Annot PyTealV.Proofs.C13

/-! ## helper lemmas -/

-- `toList_commentOp`, `tokenise_slashes`, `tokenise_empty`, `comment_line_vanishes` and the `splitlines` lemmas
-- (`splitlinesAux_no_break`, `splitlines_piece_chars`, `not_break_ne`, `headerPieces_chars`) are in
-- `Proofs/AnnotLemmas.lean` (shared with C04), in this namespace.

/-! ### physical lines -/

theorem splitNl_append (a b cur : List Char) :
    splitNl (a ++ '\n' :: b) cur = splitNl a cur ++ splitNl b [] := by
  induction a generalizing cur with
  | nil => simp [splitNl]
  | cons c a ih =>
    by_cases hc : c = '\n'
    · subst hc; simp [splitNl, ih]
    · simp [splitNl, hc, ih]

/-- lines of `a ++ "\n" ++ b` are the lines of `a` followed by the lines of `b` -/
theorem lines_append (a b : String) : lines (a ++ "\n" ++ b) = lines a ++ lines b := by
  have h : (a ++ "\n" ++ b).toList = a.toList ++ '\n' :: b.toList := by simp
  simp only [lines, h, splitNl_append, List.map_append]

theorem splitNl_no_nl (a cur : List Char) (h : '\n' ∉ a) : splitNl a cur = [cur.reverse ++ a] := by
  induction a generalizing cur with
  | nil => simp [splitNl]
  | cons c a ih =>
    have hc : c ≠ '\n' := fun e => h (by simp [e])
    have ha : '\n' ∉ a := fun e => h (by simp [e])
    simp [splitNl, hc, ih _ ha]

theorem lines_single (l : String) (h : '\n' ∉ l.toList) : lines l = [l] := by
  simp [lines, splitNl_no_nl _ _ h]

/-- `stripComments` works line by line -/
theorem strip_append (a b : String) :
    stripComments (a ++ "\n" ++ b) = stripComments a ++ stripComments b := by
  simp [stripComments, lines_append]

theorem strip_single (l : String) (h : '\n' ∉ l.toList) :
    stripComments l = splitStatements (tokenise l) := by
  simp [stripComments, lines_single l h]

theorem strip_empty : stripComments "" = [] := by decide

theorem mapM_ok {α β : Type} (f : α → Except String β) (g : α → β) (l : List α)
    (h : ∀ x ∈ l, f x = .ok (g x)) : l.mapM f = .ok (l.map g) := by
  induction l with
  | nil => rfl
  | cons x xs ih =>
    rw [List.mapM_cons, h x (by simp), ih (fun y hy => h y (by simp [hy]))]
    rfl

/-! ## Property theorems: comments -/

-- (a) `comment_line_vanishes` (a comment op's line has no tokens, whatever its text) is in
-- `Proofs/AnnotLemmas.lean`, shared with C04.

/-- … and, if the text has no `\n`, the comment op is one physical line that the assembler drops. -/
theorem comment_line_strips (text : String) (h : '\n' ∉ text.toList) :
    stripComments (commentOp text) = [] := by
  rw [strip_single _ (by simp [toList_commentOp, h]), comment_line_vanishes]; rfl

/-- What the `CommentExpr` guard buys: an accepted single-line comment is dropped by the assembler. -/
theorem commentexpr_guard_safe (line out : String) (h : mkCommentExpr line = .ok out) :
    out = commentOp line ∧ stripComments out = [] := by
  unfold mkCommentExpr at h
  split at h
  · simp at h
  · rename_i hn
    simp only [Except.ok.injEq] at h
    subst h
    refine ⟨rfl, comment_line_strips line ?_⟩
    intro hm
    simp only [hasNewline, Bool.not_eq_true, List.any_eq_false] at hn
    have := hn _ hm
    simp at this

/-- The `CommentExpr` guard can never fire inside `Comment`: `Comment(text)` is total and emits one
    comment op per `splitlines` piece (so a comment never changes whether a program compiles). -/
theorem comment_total (text : String) : comment text = .ok (commentLines text) := by
  unfold comment commentLines
  apply mapM_ok
  intro p hp
  have hb := splitlines_piece_chars text p hp
  have : hasNewline p = false := by
    simp only [hasNewline, List.any_eq_false]
    intro c hc
    have := not_break_ne (hb c hc)
    simp [this.1, this.2]
  simp [mkCommentExpr, this]

/-- (b) Every line emitted for `Comment(text)` / `Assert(…, comment=text)`: starts with `//`,
    contains none of the ten `splitlines` boundaries (hence is ONE physical TEAL line — lines end
    at `\n` only), and has no tokens. -/
theorem comment_lines_safe (text : String) :
    ∀ l ∈ commentLines text,
      tokenise l = [] ∧ stripComments l = [] ∧ (∃ r, l.toList = '/' :: '/' :: ' ' :: r) ∧
      ∀ c ∈ l.toList, isBreak c = false := by
  intro l hl
  simp only [commentLines, List.mem_map] at hl
  obtain ⟨p, hp, rfl⟩ := hl
  have hb := splitlines_piece_chars text p hp
  have hnl : '\n' ∉ p.toList := fun h => (not_break_ne (hb _ h)).1 rfl
  refine ⟨comment_line_vanishes p, comment_line_strips p hnl, ⟨p.toList, toList_commentOp p⟩, ?_⟩
  intro c hc
  rw [toList_commentOp] at hc
  simp only [List.mem_cons] at hc
  rcases hc with rfl | rfl | rfl | hc
  · decide
  · decide
  · decide
  · exact hb c hc

theorem strip_joined_comments (ls : List String) (h : ∀ l ∈ ls, stripComments l = []) :
    stripComments ("\n".intercalate ls) = [] := by
  induction ls with
  | nil => simpa using strip_empty
  | cons l ls ih =>
    cases ls with
    | nil => simpa using h l (by simp)
    | cons m ms =>
      rw [String.intercalate_cons_cons, strip_append, h l (by simp),
        ih (fun x hx => h x (by simp [hx]))]
      rfl

/-- The block of lines of a `Comment` is invisible wherever it is put between two lines of a
    program text: the assembler sees exactly the statements of what precedes and what follows. -/
theorem comment_lines_invisible (pre post text : String) :
    stripComments (pre ++ "\n" ++ "\n".intercalate (commentLines text) ++ "\n" ++ post)
      = stripComments pre ++ stripComments post := by
  have h := strip_joined_comments (commentLines text) (fun l hl => (comment_lines_safe text l hl).2.1)
  rw [strip_append, strip_append, h]
  simp

/-- (d) `Assert(cond, comment=text)` from version 3 on: the lines after the condition are the
    comment block followed by `assert` — i.e. those of `Assert(cond)` plus lines the assembler
    drops — for every text; it never fails because of the text. -/
theorem assert_comment_invisible (version : Nat) (hv : version ≥ 3) (text l : String) :
    assertLines version (some text) l = .ok (commentLines text ++ ["assert"]) ∧
    assertLines version none l = .ok ["assert"] ∧
    stripComments ("\n".intercalate (commentLines text ++ ["assert"])) = [["assert"]] := by
  refine ⟨by simp [assertLines, hv, comment_total, Except.map], by simp [assertLines, hv], ?_⟩
  have h := strip_joined_comments (commentLines text) (fun l hl => (comment_lines_safe text l hl).2.1)
  have ha : stripComments "assert" = [["assert"]] := by decide
  by_cases hne : commentLines text = []
  · simpa [hne] using ha
  · rw [String.intercalate_append_of_ne_nil hne (by simp), strip_append, h]
    simpa using ha

/-- … and below version 3 the comment argument is not used at all. -/
theorem assert_comment_unused (version : Nat) (hv : version < 3) (c c' : Option String) (l : String) :
    assertLines version c l = assertLines version c' l := by
  have : ¬ version ≥ 3 := by omega
  simp [assertLines, this]

/-! ## labels -/

theorem dropEnd_colon (l : String) : ((l ++ ":").dropEnd 1).copy = l := by
  apply String.toList_inj.mp
  simp

theorem parseInstr_label (sels) (l : String) : parseInstr sels [l ++ ":"] = .ok (.label l) := by
  have h1 : (l ++ ":").endsWith ":" = true := by
    rw [endsWith_iff]; exact ⟨l.toList, by simp⟩
  have h2 := dropEnd_colon l
  simp [parseInstr, h1, h2]

theorem tokenise_plain (cs : List Char) (h : ∀ c ∈ cs, okChar false c) (hne : cs ≠ []) :
    tokenise (String.ofList cs) = [String.ofList cs] := by
  have hg : tokenise.go cs {} = outSt [] cs.reverse false := by
    have := tgo_plains cs [] [] [] false h
    simpa [tokenise.go] using this
  rw [tokenise_end cs [] cs.reverse false (by simpa using hne) hg]
  simp

/-- characters a label may consist of -/
def labelChar (c : Char) : Prop := isAlnum c = true ∨ c = '_'

theorem alnum_facts (c : Char) (h : isAlnum c = true) :
    okChar false c ∧ c ≠ '_' ∧ c ≠ ':' ∧ c ≠ ';' := by
  have hv : (65 ≤ c.val.toNat ∧ c.val.toNat ≤ 90) ∨ (97 ≤ c.val.toNat ∧ c.val.toNat ≤ 122) ∨ (48 ≤ c.val.toNat ∧ c.val.toNat ≤ 57) := by
    simp only [isAlnum, Bool.or_eq_true, Bool.and_eq_true, decide_eq_true_eq, Char.le_def] at h
    rcases h with (⟨a, b⟩ | ⟨a, b⟩) | ⟨a, b⟩
    · left; exact ⟨by simpa using UInt32.le_iff_toNat_le.mp a, by simpa using UInt32.le_iff_toNat_le.mp b⟩
    · right; left; exact ⟨by simpa using UInt32.le_iff_toNat_le.mp a, by simpa using UInt32.le_iff_toNat_le.mp b⟩
    · right; right; exact ⟨by simpa using UInt32.le_iff_toNat_le.mp a, by simpa using UInt32.le_iff_toNat_le.mp b⟩
  have ne : ∀ d : Char, (d.val.toNat < 48 ∨ (57 < d.val.toNat ∧ d.val.toNat < 65) ∨ (90 < d.val.toNat ∧ d.val.toNat < 97) ∨ 122 < d.val.toNat) → c ≠ d := by
    intro d hd e; subst e; omega
  refine ⟨⟨ne _ (by decide), ne _ (by decide), ne _ (by decide), ne _ (by decide), ne _ (by decide), ne _ (by decide), ?_⟩, ne _ (by decide), ne _ (by decide), ne _ (by decide)⟩
  intro e; exact absurd e (ne _ (by decide))

theorem digit_alnum (n : Nat) (c : Char) (h : c ∈ Nat.toDigits 10 n) : isAlnum c = true := by
  have := Nat.isDigit_of_mem_toDigits (by decide) (by decide) h
  simp only [Char.isDigit, Bool.and_eq_true, decide_eq_true_eq] at this
  have a : '0' ≤ c := by rw [Char.le_def]; exact UInt32.le_iff_toNat_le.mpr (by simpa using UInt32.le_iff_toNat_le.mp this.1)
  have b : c ≤ '9' := by rw [Char.le_def]; exact UInt32.le_iff_toNat_le.mpr (by simpa using UInt32.le_iff_toNat_le.mp this.2)
  simp [isAlnum, a, b]

theorem toList_sanitise (name : String) : (sanitise name).toList = name.toList.filter isAlnum := by
  simp [sanitise]

theorem toList_subLabel (name : String) (idx : Nat) :
    (subLabel name idx).toList = name.toList.filter isAlnum ++ '_' :: Nat.toDigits 10 idx := by
  simp [subLabel, toList_sanitise]

theorem okChar_underscore : okChar false '_' := by decide
theorem okChar_colon : okChar false ':' := by decide

/-- splitting at the first `_` is unique when the part before it has none -/
theorem append_underscore_inj (s1 s2 d1 d2 : List Char) (h1 : '_' ∉ s1) (h2 : '_' ∉ s2)
    (h : s1 ++ '_' :: d1 = s2 ++ '_' :: d2) : s1 = s2 ∧ d1 = d2 := by
  induction s1 generalizing s2 with
  | nil =>
    cases s2 with
    | nil => simpa using h
    | cons c s2 =>
      simp only [List.nil_append, List.cons_append, List.cons.injEq] at h
      exact absurd h.1.symm (fun e => h2 (by simp [e]))
  | cons c s1 ih =>
    cases s2 with
    | nil =>
      simp only [List.nil_append, List.cons_append, List.cons.injEq] at h
      exact absurd h.1 (fun e => h1 (by simp [e]))
    | cons c' s2 =>
      simp only [List.cons_append, List.cons.injEq] at h
      obtain ⟨r1, r2⟩ := ih s2 (fun e => h1 (by simp [e])) (fun e => h2 (by simp [e])) h.2
      exact ⟨by rw [h.1, r1], r2⟩

theorem sanitised_no_underscore (name : String) : '_' ∉ name.toList.filter isAlnum := by
  intro h
  have := (List.mem_filter.mp h).2
  exact absurd this (by decide)

theorem label_chars_ok (name : String) (idx : Nat) :
    ∀ c ∈ (subLabel name idx).toList ++ [':'], okChar false c ∧ c ≠ ';' := by
  intro c hc
  rw [toList_subLabel] at hc
  simp only [List.append_assoc, List.cons_append, List.mem_append, List.mem_cons, List.mem_filter,
    List.not_mem_nil, or_false] at hc
  rcases hc with ⟨_, h⟩ | rfl | h | rfl
  · exact ⟨(alnum_facts c h).1, (alnum_facts c h).2.2.2⟩
  · exact ⟨okChar_underscore, by decide⟩
  · have := alnum_facts c (digit_alnum idx c h); exact ⟨this.1, this.2.2.2⟩
  · exact ⟨okChar_colon, by decide⟩

/-- (c) The label of a subroutine — for EVERY name (any characters, empty, only symbols) and index:
    consists of `[A-Za-z0-9_]` only, is not empty, and `label:` is one token that the grammar
    reads as the definition of exactly that label. -/
theorem label_sanitised_legal (sels : List (Bytes × Bytes)) (name : String) (idx : Nat) :
    (∀ c ∈ (subLabel name idx).toList, labelChar c) ∧
    subLabel name idx ≠ "" ∧
    tokenise (subLabel name idx ++ ":") = [subLabel name idx ++ ":"] ∧
    splitStatements [subLabel name idx ++ ":"] = [[subLabel name idx ++ ":"]] ∧
    parseInstr sels [subLabel name idx ++ ":"] = .ok (.label (subLabel name idx)) := by
  refine ⟨?_, ?_, ?_, ?_, parseInstr_label sels _⟩
  · intro c hc
    rw [toList_subLabel] at hc
    simp only [List.mem_append, List.mem_cons, List.mem_filter] at hc
    rcases hc with ⟨_, h⟩ | rfl | h
    · exact Or.inl h
    · exact Or.inr rfl
    · exact Or.inl (digit_alnum idx c h)
  · intro h
    have := congrArg String.toList h
    rw [toList_subLabel] at this
    simp at this
  · have e : subLabel name idx ++ ":" = String.ofList ((subLabel name idx).toList ++ [':']) := by
      apply String.toList_inj.mp; simp
    rw [e]
    exact tokenise_plain _ (fun c hc => (label_chars_ok name idx c hc).1) (by simp)
  · have hne : subLabel name idx ++ ":" ≠ ";" := by
      intro h
      have := congrArg String.toList h
      rw [String.toList_append, toList_subLabel] at this
      have hl := congrArg List.length this
      simp at hl
      omega
    simp [splitStatements, splitStatements.go, hne]

/-- Labels determine the index (and the sanitised name): two subroutines of one program — they have
    different indices — never share a label, whatever their names. -/
theorem label_injective (n1 n2 : String) (i j : Nat) (h : subLabel n1 i = subLabel n2 j) :
    sanitise n1 = sanitise n2 ∧ i = j := by
  have h' := congrArg String.toList h
  rw [toList_subLabel, toList_subLabel] at h'
  obtain ⟨a, b⟩ := append_underscore_inj _ _ _ _ (sanitised_no_underscore n1) (sanitised_no_underscore n2) h'
  refine ⟨String.toList_inj.mp (by rw [toList_sanitise, toList_sanitise, a]), ?_⟩
  have := congrArg (fun l => Nat.ofDigitChars 10 l 0) b
  simpa using this

theorem label_injective_in_index (n1 n2 : String) (i j : Nat) (h : i ≠ j) :
    subLabel n1 i ≠ subLabel n2 j := fun e => h (label_injective n1 n2 i j e).2

/-- a subroutine label is never one of the main routine's branch labels `main_l<k>` -/
theorem label_not_main (name : String) (idx k : Nat) :
    subLabel name idx ≠ "main_l" ++ toString k := by
  intro h
  have h' := congrArg String.toList h
  rw [toList_subLabel] at h'
  have e : ("main_l" ++ toString k).toList = ['m', 'a', 'i', 'n'] ++ '_' :: ('l' :: Nat.toDigits 10 k) := by simp
  rw [e] at h'
  obtain ⟨_, b⟩ := append_underscore_inj _ _ _ _ (sanitised_no_underscore name) (by decide) h'
  have : 'l' ∈ Nat.toDigits 10 idx := by rw [b]; simp
  have := Nat.isDigit_of_mem_toDigits (by decide) (by decide) this
  exact absurd this (by decide)

/-! ## subroutine headers

`TealLabel.assemble` (since the repair 90c7383) cuts the comment — the raw subroutine name — with
`str.splitlines()` and writes one `// piece` line per piece (one `// ` line when there is none). -/

theorem header_eq (name : String) (idx : Nat) :
    header name idx =
      "" ++ "\n" ++ ("\n".intercalate (headerCommentLines name) ++ "\n" ++ (subLabel name idx ++ ":")) := by
  apply String.toList_inj.mp; simp [header]

/-- the header is the C04 model of `TealLabel.assemble` applied to the raw name and the sanitised label -/
theorem header_eq_assemble (name : String) (idx : Nat) :
    header name idx = PyTealV.Models.LabelText.assemble (some name) (subLabel name idx) := rfl

theorem subLabel_line_no_nl (name : String) (idx : Nat) : '\n' ∉ (subLabel name idx ++ ":").toList := by
  intro hm
  rw [String.toList_append, toList_subLabel] at hm
  simp only [List.append_assoc, List.cons_append, List.mem_append, List.mem_cons, List.mem_filter] at hm
  rcases hm with ⟨_, hm⟩ | hm | hm | hm
  · exact absurd hm (by decide)
  · exact absurd hm (by decide)
  · exact absurd (digit_alnum idx _ hm) (by decide)
  · exact absurd hm (by decide)

/-- Every comment line of a header — for EVERY name: is `// ` followed by a piece of
    `name.splitlines()` (or by nothing), contains none of the ten line boundaries (so it is ONE
    physical TEAL line), has no tokens and is dropped by the assembler. -/
theorem header_comment_lines_safe (name : String) :
    ∀ l ∈ headerCommentLines name,
      tokenise l = [] ∧ stripComments l = [] ∧ (∃ p ∈ headerPieces name, l = commentOp p) ∧
      ∀ c ∈ l.toList, isBreak c = false := by
  intro l hl
  simp only [headerCommentLines, List.mem_map] at hl
  obtain ⟨p, hp, rfl⟩ := hl
  have hb := headerPieces_chars name p hp
  have hnl : '\n' ∉ p.toList := fun h => (not_break_ne (hb _ h)).1 rfl
  refine ⟨comment_line_vanishes p, comment_line_strips p hnl, ⟨p, hp, rfl⟩, ?_⟩
  intro c hc
  rw [toList_commentOp] at hc
  simp only [List.mem_cons] at hc
  rcases hc with rfl | rfl | rfl | hc
  · decide
  · decide
  · decide
  · exact hb c hc

theorem lines_empty : lines "" = [""] := by decide

/-- a non-empty block of lines without `\n`, joined by `\n`, is read back as those lines -/
theorem lines_intercalate (ls : List String) (hne : ls ≠ []) (h : ∀ l ∈ ls, '\n' ∉ l.toList) :
    lines ("\n".intercalate ls) = ls := by
  induction ls with
  | nil => exact absurd rfl hne
  | cons l ls ih =>
    cases ls with
    | nil => simpa using lines_single l (h l (by simp))
    | cons m ms =>
      rw [String.intercalate_cons_cons, lines_append, lines_single l (h l (by simp)),
        ih (by simp) (fun x hx => h x (by simp [hx]))]
      rfl

/-- The physical lines of a header, for EVERY name and index: an empty line, the comment lines
    (one per piece of the name), the label line. -/
theorem header_lines (name : String) (idx : Nat) :
    lines (header name idx) = "" :: (headerCommentLines name ++ [subLabel name idx ++ ":"]) := by
  have hc : ∀ l ∈ headerCommentLines name, '\n' ∉ l.toList := fun l hl hm =>
    (not_break_ne ((header_comment_lines_safe name l hl).2.2.2 _ hm)).1 rfl
  have hne : headerCommentLines name ≠ [] := by
    simpa [headerCommentLines] using headerPieces_ne_nil name
  rw [header_eq, lines_append, lines_append, lines_empty, lines_intercalate _ hne hc,
    lines_single _ (subLabel_line_no_nl name idx)]
  rfl

/-- **Whatever the subroutine is called** (any characters: `\n`, `\r`, `\r\n`, VT, FF, FS, GS, RS, NEL,
    U+2028, U+2029, quotes, `//`, `;`, `#pragma …`, empty, arbitrarily long), **its header contributes
    exactly one statement, the label.**  (Before the repair 90c7383 this was false for names with a
    `\n`: `name_comment_regression`.) -/
theorem name_comment_safe (name : String) (idx : Nat) :
    stripComments (header name idx) = [[subLabel name idx ++ ":"]] := by
  obtain ⟨_, _, ht, hs, _⟩ := label_sanitised_legal [] name idx
  rw [header_eq, strip_append, strip_append, strip_empty,
    strip_joined_comments _ (fun l hl => (header_comment_lines_safe name l hl).2.1),
    strip_single _ (subLabel_line_no_nl name idx), ht, hs]
  rfl

/-- Regression example for `Subroutine(TealType.none, name="f\nerr")`: the OLD text (`headerOld`,
    the raw name after `// `) contributed an `err` instruction in front of the label; the text of
    the repaired code does not (the harness compiles this program with the real compiler and
    reports a violation if the extra statement ever comes back). -/
theorem name_comment_regression :
    headerOld "f\nerr" 0 = "\n// f\nerr\nferr_0:" ∧
    stripComments (headerOld "f\nerr" 0) = [["err"], ["ferr_0:"]] ∧
    parseInstr [] ["err"] = .ok .err ∧
    header "f\nerr" 0 = "\n// f\n// err\nferr_0:" ∧
    stripComments (header "f\nerr" 0) = [["ferr_0:"]] := by
  refine ⟨by decide, by decide, by
    have h : "err".endsWith ":" = false := by
      rw [Bool.eq_false_iff]; intro e; rw [endsWith_iff] at e; revert e; decide
    simp [parseInstr, h], by decide, by decide⟩

/-! ## wrappers in the code-generation model -/
section GenLemmas
open PyTealV.Comp PyTealV.Src

theorem note_transparent (cfg : GenCfg) (e : Expr) (k : Nat) (L : Option Loop) :
    gen cfg (.note (some e)) k L = gen cfg e k L := rfl

theorem note_stmt_empty_block (cfg : GenCfg) (k : Nat) (L : Option Loop) :
    gen cfg (.note none) k L = opBlock [] k := rfl

theorem nonce_only_push_pop (cfg : GenCfg) (b : Bytes) (e : Expr) (k : Nat) (L : Option Loop) :
    gen cfg (.nonce b e) k L = (do
      let es ← gen cfg e k L
      opBlock [.pushBytes b, .prim "pop" []] es) := rfl

theorem note_semantics (env : Env) (fuel : Nat) (e : Expr) (w : World) :
    eval env (fuel + 1) (.note (some e)) w = eval env fuel e w := rfl

theorem nonce_semantics (env : Env) (fuel : Nat) (b : Bytes) (e : Expr) (w : World) :
    eval env (fuel + 1) (.nonce b e) w = eval env fuel e w := rfl

theorem hasReturn_note (e : Expr) : hasReturn (.note (some e)) = hasReturn e := rfl
theorem hasReturn_nonce (b : Bytes) (e : Expr) : hasReturn (.nonce b e) = hasReturn e := rfl

end GenLemmas

section Counter
open PyTealV.Comp PyTealV.Src

/-- all instructions of the graph generated for `e` (continuation: block 0), in block order -/
def opsOf (cfg : GenCfg) (e : Expr) : Except String (List Instr) :=
  ((gen cfg e 0 none).run #[{}]).map (fun r => r.2.toList.flatMap (·.ops))

theorem wrapped_literal_counterexample :
    lowerSubstring 6 (.int 1) (.int 3) = .ok (.one (.prim "extract" ["1", "2"])) ∧
    lowerSubstring 6 (.note (some (.int 1))) (.int 3) = .ok (.asGiven (.prim "substring3" [])) ∧
    opsOf { version := 6 } (.substring (.bytes [104, 105]) (.int 1) (.int 3))
      = .ok [.prim "extract" ["1", "2"], .pushBytes [104, 105]] ∧
    opsOf { version := 6 } (.substring (.bytes [104, 105]) (.note (some (.int 1))) (.int 3))
      = .ok [.prim "substring3" [], .pushInt 3, .pushInt 1, .pushBytes [104, 105]] := by
  refine ⟨rfl, rfl, rfl, rfl⟩
end Counter

/-! ## stream identity: what is false of the unchanged compiler

  FULL STATEMENT (search target of the harness; no theorem — flattening and the optimiser are not
  modelled here): for every program `p`, every insertion point and every text,
      stripComments (compile (annotate p)) =α stripComments (compile p)
  (`=α`: up to a renaming of labels; for Nonce after deleting the `byte b; pop` pair).
  It holds on all but three kinds of inputs found by the search; each kind is recorded below on a
  concrete pair of outputs of the real compiler (the harness recompiles the pair and compares the
  texts, and reports the kinds as known findings):
   * `wrapped_literal_counterexample` — a wrapper hides a literal from the opcode selection;
   * `layout_counterexample` — a comment-only block changes the block layout (same control flow);
   * `optimiser_counterexample` — a comment between a store and its load inhibits the slot optimiser.
  (A fourth kind — a line feed in a subroutine name injected instructions — was repaired in the code
  by 90c7383: `name_comment_safe`, `name_comment_regression`.)  All three leave behaviour, control-flow graph and constants unchanged.
-/

/-- a text assembled from lines without `\n` has the statements of its lines -/
theorem strip_intercalate (ls : List String) (h : ∀ l ∈ ls, '\n' ∉ l.toList) :
    stripComments ("\n".intercalate ls) = stmts ls := by
  induction ls with
  | nil => simpa [stmts] using strip_empty
  | cons l ls ih =>
    cases ls with
    | nil => simpa [stmts] using strip_single l (h l (by simp))
    | cons m ms =>
      rw [String.intercalate_cons_cons, strip_append, ih (fun x hx => h x (by simp [hx])),
        strip_single l (h l (by simp))]
      simp [stmts]

/-- `If(i).Then(Comment("x", Continue()))` inside a `For`: one more `b` instruction and one more label
    than without the comment (so the two streams are not equal up to label names either). -/
theorem layout_counterexample :
    (stripComments layoutVariant).length = (stripComments layoutBase).length + 2 ∧
    ["b", "main_l3"] ∈ stripComments layoutVariant ∧ ["b", "main_l3"] ∉ stripComments layoutBase := by
  have hb : stripComments layoutBase = stmts layoutBaseLines := strip_intercalate _ (by decide)
  have hv : stripComments layoutVariant = stmts layoutVariantLines := strip_intercalate _ (by decide)
  have sb : stmts layoutBaseLines =
      [["#pragma", "version", "6"], ["int", "0"], ["store", "0"], ["int", "0"], ["store", "0"], ["main_l1:"],
       ["load", "0"], ["int", "2"], ["<"], ["bz", "main_l4"], ["load", "0"], ["bnz", "main_l3"], ["main_l3:"],
       ["load", "0"], ["int", "1"], ["+"], ["store", "0"], ["b", "main_l1"], ["main_l4:"], ["int", "1"], ["return"]] := by
    decide
  have sv : stmts layoutVariantLines =
      [["#pragma", "version", "6"], ["int", "0"], ["store", "0"], ["int", "0"], ["store", "0"], ["main_l1:"],
       ["load", "0"], ["int", "2"], ["<"], ["bz", "main_l5"], ["load", "0"], ["bnz", "main_l4"], ["main_l3:"],
       ["load", "0"], ["int", "1"], ["+"], ["store", "0"], ["b", "main_l1"], ["main_l4:"], ["b", "main_l3"],
       ["main_l5:"], ["int", "1"], ["return"]] := by
    decide
  rw [hb, hv, sb, sv]
  decide

/-- A comment statement between `k.store(…)` and the `If(k.load())` at version 10: the `store 0` /
    `load 0` pair survives. -/
theorem optimiser_counterexample :
    stripComments optimiserBase =
      [["#pragma", "version", "10"], ["txn", "Fee"], ["bz", "main_l2"], ["int", "1"], ["return"],
       ["main_l2:"], ["int", "0"], ["return"]] ∧
    stripComments optimiserVariant =
      [["#pragma", "version", "10"], ["txn", "Fee"], ["store", "0"], ["load", "0"], ["bz", "main_l2"],
       ["int", "1"], ["return"], ["main_l2:"], ["int", "0"], ["return"]] := by
  constructor
  · rw [show stripComments optimiserBase = stmts optimiserBaseLines from strip_intercalate _ (by decide)]
    decide
  · rw [show stripComments optimiserVariant = stmts optimiserVariantLines from strip_intercalate _ (by decide)]
    decide

/-! ## non-vacuity -/

example : commentLines "int 0\nreturn" = ["// int 0", "// return"] := by decide
example : commentLines "a\r\nb\u2028c\x0b" = ["// a", "// b", "// c"] := by decide
example : comment "x\n\ny" = .ok ["// x", "// ", "// y"] := by
  rw [comment_total]; exact congrArg _ (by decide)
example : mkCommentExpr "a\rb" = .error "TealInputError: Newlines should not be present in the CommentExpr constructor" := by
  have : hasNewline "a\rb" = true := by decide
  simp [mkCommentExpr, this]
example : header "a\r\nb\u2028c\x0b" 3 = "\n// a\n// b\n// c\nabc_3:" ∧ header "" 0 = "\n// \n_0:" ∧
    header "\n\nx" 1 = "\n// \n// \n// x\nx_1:" := by decide
example : stripComments (header "a b//;\"é☃\r " 12) = [["ab_12:"]] := by decide
example : subLabel "" 0 = "_0" ∧ subLabel "é☃ ;" 7 = "_7" := by decide
example : stripComments ("int 1\n" ++ "\n".intercalate (commentLines "int 0\nreturn") ++ "\n" ++ "return")
    = [["int", "1"], ["return"]] := by decide

end PyTealV.Proofs.C18
