/-
  C02Gen, `WideRatio` (machine side): the op items of `Models/WideRatio.lean` on the graph machine
  (`execOps_wide`, `wide_block`, `wide_block_fail`), what `mulStep` / `combine` do on byte strings
  and on 128-bit pairs in any representation, and W1: `u64B_val` (a syntactically-uint64 tree
  yields a `uint64` below 2^64; `execPrim_u64` for the opcodes of `u64Ops`).
-/
import PyTealV.Proofs.C02GenSem
import PyTealV.Proofs.C02GenWideSrc
namespace PyTealV.Proofs.C02Gen
open PyTealV PyTealV.Avm PyTealV.Src PyTealV.Comp PyTealV.Models.Fragment PyTealV.Models.FragmentR PyTealV.Proofs.Ops
open PyTealV.Check (isSimple)
open PyTealV.Proofs.Shape (ovf Blk isUnm retOut)
open PyTealV.Models.WideRatio (Item mulStep combine runItems stepItem)

/-! ### the op items on the graph machine -/

theorem wideInstrs_simple (items : List Item) : ∀ x ∈ wideInstrs items, isSimple x = true := by
  intro x hx
  simp only [wideInstrs, List.mem_filterMap] at hx
  obtain ⟨it, _, h⟩ := hx
  cases it with
  | fac b i => simp at h
  | int n => simp only [Option.some.injEq] at h; subst h; rfl
  | op o is => simp only [Option.some.injEq] at h; subst h; rfl

theorem wideInstrs_int (n : Nat) (rest : List Item) : wideInstrs (.int n :: rest) = .pushInt n :: wideInstrs rest := by
  simp [wideInstrs]

theorem wideInstrs_op (o : String) (is : List String) (rest : List Item) :
    wideInstrs (.op o is :: rest) = .prim o is :: wideInstrs rest := by
  simp [wideInstrs]

/-- the graph machine runs the op items as `Models.WideRatio.runItems` does, unless the operand
    stack overflows -/
theorem execOps_wide (cx : Ctx) (ns ds : List Nat) (ic : List Nat) (bcs : List Bytes) :
    ∀ (items : List Item), (∀ it ∈ items, ∀ b i, it ≠ Item.fac b i) → ∀ (w : World) (st : List Val),
      (∀ st' w', runItems cx ns ds items w st = .ok (st', w') →
        execOps cx (wideInstrs items) ⟨st, ic, bcs, w⟩ = .ok ⟨st', ic, bcs, w'⟩ ∨
        execOps cx (wideInstrs items) ⟨st, ic, bcs, w⟩ = .halt ovf) ∧
      (∀ e, runItems cx ns ds items w st = .error e →
        ∃ f, execOps cx (wideInstrs items) ⟨st, ic, bcs, w⟩ = .halt (.fail f)) := by
  intro items
  induction items with
  | nil =>
    intro _ w st
    refine ⟨fun st' w' h => ?_, fun e h => ?_⟩
    · simp only [runItems, Except.ok.injEq, Prod.mk.injEq] at h
      obtain ⟨rfl, rfl⟩ := h
      exact .inl rfl
    · simp only [runItems] at h; cases h
  | cons it rest ih =>
    intro hnf w st
    have hnf' : ∀ it ∈ rest, ∀ b i, it ≠ Item.fac b i := fun x hx => hnf x (List.mem_cons_of_mem _ hx)
    cases it with
    | fac b i => exact absurd rfl (hnf _ (List.mem_cons_self ..) b i)
    | int n =>
      rw [wideInstrs_int]
      have hr : runItems cx ns ds (.int n :: rest) w st = runItems cx ns ds rest w (.u n :: st) := by
        rw [runItems, stepItem]
      rw [hr]
      by_cases hlt : st.length < maxStack
      · have he : execOps cx (.pushInt n :: wideInstrs rest) ⟨st, ic, bcs, w⟩ =
            execOps cx (wideInstrs rest) ⟨.u n :: st, ic, bcs, w⟩ := by
          simp only [execOps, execSimple, pushV, hlt, if_true]
        rw [he]
        exact ih hnf' w (.u n :: st)
      · have he : execOps cx (.pushInt n :: wideInstrs rest) ⟨st, ic, bcs, w⟩ = .halt ovf := by
          simp only [execOps, execSimple, pushV, hlt, if_false, ovf]
        rw [he]
        exact ⟨fun _ _ _ => .inr rfl, fun _ _ => ⟨_, rfl⟩⟩
    | op o is =>
      rw [wideInstrs_op]
      cases hp : execPrim cx o is w st with
      | error e0 =>
        have hr : runItems cx ns ds (.op o is :: rest) w st = .error e0 := by
          rw [runItems, stepItem, hp]
        have he : execOps cx (.prim o is :: wideInstrs rest) ⟨st, ic, bcs, w⟩ = .halt (.fail e0) := by
          simp only [execOps, execSimple, hp]
        rw [hr, he]
        exact ⟨fun _ _ h => (by cases h), fun _ _ => ⟨_, rfl⟩⟩
      | ok x =>
        obtain ⟨st1, w1⟩ := x
        have hr : runItems cx ns ds (.op o is :: rest) w st = runItems cx ns ds rest w1 st1 := by
          rw [runItems, stepItem, hp]
        rw [hr]
        by_cases hle : st1.length ≤ maxStack
        · have he : execOps cx (.prim o is :: wideInstrs rest) ⟨st, ic, bcs, w⟩ =
              execOps cx (wideInstrs rest) ⟨st1, ic, bcs, w1⟩ := by
            simp only [execOps, execSimple, hp, hle, if_true]
          rw [he]
          exact ih hnf' w1 st1
        · have he : execOps cx (.prim o is :: wideInstrs rest) ⟨st, ic, bcs, w⟩ = .halt ovf := by
            simp only [execOps, execSimple, hp, hle, if_false, ovf]
          rw [he]
          exact ⟨fun _ _ _ => .inr rfl, fun _ _ => ⟨_, rfl⟩⟩

section Blocks
variable {X : MCtx} {cx : Ctx}

/-- a block of op items that runs through on every stack below it, leaving the world alone -/
theorem wide_block {items : List Item} {b k : Nat} {st st' σ : List Val} {ic bcs} {w : World}
    (hb : Blk X.G b (wideInstrs items) (.next k)) (hnf : ∀ it ∈ items, ∀ b i, it ≠ Item.fac b i)
    (hrun : ∀ wm (τ : List Val), runItems cx [] [] items wm (st ++ τ) = .ok (st' ++ τ, wm)) :
    ReachO cx X ⟨b, 0⟩ ⟨st ++ σ, ic, bcs, w⟩ ⟨k, 0⟩ ⟨st' ++ σ, ic, bcs, w⟩ := by
  refine ReachO.of_block hb (wideInstrs_simple items) (fun wm hw hinv _ => ?_)
  rcases (execOps_wide cx [] [] ic bcs items hnf wm (st ++ (σ ++ X.base))).1 _ _ (hrun wm (σ ++ X.base)) with h | h
  · refine .inr ⟨wm, hw, hinv, ?_⟩
    simpa [MCtx.onBase, List.append_assoc] using h
  · refine .inl ?_
    simpa [MCtx.onBase, List.append_assoc] using h

/-- a block of op items that fails on every stack below it -/
theorem wide_block_fail {items : List Item} {b : Nat} {succ : Succ} {st σ : List Val} {ic bcs} {w : World}
    (hb : Blk X.G b (wideInstrs items) succ) (hnf : ∀ it ∈ items, ∀ b i, it ≠ Item.fac b i)
    (hrun : ∀ wm (τ : List Val), ∃ e, runItems cx [] [] items wm (st ++ τ) = .error e) :
    Fails cx X ⟨b, 0⟩ ⟨st ++ σ, ic, bcs, w⟩ := by
  refine Fails.of_block hb (wideInstrs_simple items) (fun wm _ => ?_)
  obtain ⟨e, he⟩ := hrun wm (σ ++ X.base)
  obtain ⟨f, hf⟩ := (execOps_wide cx [] [] ic bcs items hnf wm (st ++ (σ ++ X.base))).2 e he
  exact ⟨f, by simpa [MCtx.onBase, List.append_assoc] using hf⟩

end Blocks

theorem mulStep_noFac : ∀ it ∈ mulStep, ∀ b i, it ≠ Item.fac b i := by
  intro it hit b i h
  subst h
  simp [mulStep] at hit

theorem combine_noFac : ∀ it ∈ combine, ∀ b i, it ≠ Item.fac b i := by
  intro it hit b i h
  subst h
  simp [combine] at hit

/-! ### the opcodes on byte strings -/

theorem exec_mul_bytes (cx : Ctx) (w : World) (x : Bytes) (h : Nat) (r : List Val) :
    execPrim cx "*" [] w (.b x :: .u h :: r) = .error (.typeErr "expected uint64") := by
  unfold execPrim
  rw [m20_mul]
  rfl

theorem exec_divmodw_bytes_n (cx : Ctx) (w : World) (x : Bytes) (a : Nat) (d c : Val) (r : List Val) :
    execPrim cx "divmodw" [] w (d :: c :: .b x :: .u a :: r) = .error (.typeErr "expected uint64") := by
  unfold execPrim
  rw [m20_divmodw]
  rfl

theorem exec_divmodw_bytes_d (cx : Ctx) (w : World) (x : Bytes) (a b c : Nat) (r : List Val) :
    execPrim cx "divmodw" [] w (.b x :: .u c :: .u b :: .u a :: r) = .error (.typeErr "expected uint64") := by
  unfold execPrim
  rw [m20_divmodw]
  rfl

/-- a byte string as the new factor: the `*` of `mulStep` fails -/
theorem run_mulStep_bytes (cx : Ctx) (w : World) (x : Bytes) (lo : Val) (h : Nat) (σ : List Val) :
    ∃ e, runItems cx [] [] mulStep w (.b x :: lo :: .u h :: σ) = .error e := by
  refine ⟨.typeErr "expected uint64", ?_⟩
  unfold mulStep
  rw [C16.runItems_op_ok (C16.exec_uncover2 cx w _ _ _ _), C16.runItems_op_ok (C16.exec_dig1 cx w _ _ _),
    C16.runItems_op_err (exec_mul_bytes cx w _ _ _)]

/-- `combine` on two 128-bit pairs in any representation `hi * 2^64 + lo` -/
theorem run_combine' (cx : Ctx) (w : World) (σ : List Val) (a b c d pn pd : Nat)
    (en : a * two64 + b = pn) (ed : c * two64 + d = pd) :
    runItems cx [] [] combine w (.u d :: .u c :: .u b :: .u a :: σ) =
      if pd = 0 then .error (.logic "divmodw by zero")
      else if pn / pd < two64 then .ok (.u (pn / pd) :: σ, w)
      else .error (.logic "assert failed") := by
  unfold combine
  by_cases hz : pd = 0
  · have hc : c * two64 + d = 0 := by rw [ed]; exact hz
    rw [if_pos hz, C16.runItems_op_err (C16.exec_divmodw_zero cx w _ _ _ _ _ hc)]
  · rw [if_neg hz, C16.runItems_op_ok (C16.exec_divmodw_ok cx w _ _ _ _ _ pn pd en ed hz),
      C16.runItems_op_ok (C16.exec_pop cx w _ _), C16.runItems_op_ok (C16.exec_pop cx w _ _),
      C16.runItems_op_ok (C16.exec_swap cx w _ _ _), C16.runItems_op_ok (C16.exec_not cx w _ _)]
    by_cases hq : pn / pd < two64
    · have hq0 : pn / pd / two64 = 0 := Nat.div_eq_of_lt hq
      have hqm : pn / pd % two64 = pn / pd := Nat.mod_eq_of_lt hq
      have hb : boolV (decide (pn / pd / two64 = 0)) = .u 1 := by rw [hq0]; rfl
      rw [if_pos hq, hb, hqm, C16.runItems_op_ok (w' := w) (st' := .u (pn / pd) :: σ)
        (by rw [C16.exec_assert, if_pos Nat.one_ne_zero])]
      rfl
    · have hq0 : ¬ pn / pd / two64 = 0 := by
        intro h
        apply hq
        have := (Nat.div_lt_iff_lt_mul (x := pn / pd) (y := 1) C16.two64_pos).mp (by rw [h]; exact Nat.zero_lt_one)
        rwa [Nat.one_mul] at this
      have hb : boolV (decide (pn / pd / two64 = 0)) = .u 0 := by rw [decide_eq_false hq0]; rfl
      rw [if_neg hq, hb, C16.runItems_op_err (e := .logic "assert failed")
        (by rw [C16.exec_assert, if_neg (by simp)])]

theorem run_combine_bytes_n (cx : Ctx) (w : World) (x : Bytes) (a : Nat) (d c : Val) (σ : List Val) :
    ∃ e, runItems cx [] [] combine w (d :: c :: .b x :: .u a :: σ) = .error e :=
  ⟨_, by unfold combine; rw [C16.runItems_op_err (exec_divmodw_bytes_n cx w x a d c σ)]⟩

theorem run_combine_bytes_d (cx : Ctx) (w : World) (x : Bytes) (a b c : Nat) (σ : List Val) :
    ∃ e, runItems cx [] [] combine w (.b x :: .u c :: .u b :: .u a :: σ) = .error e :=
  ⟨_, by unfold combine; rw [C16.runItems_op_err (exec_divmodw_bytes_d cx w x a b c σ)]⟩

/-! ### W1: syntactically-uint64 trees -/

theorem mkU_bound {n : Nat} {v : Val} (h : mkU n = .ok v) : ∃ m, v = .u m ∧ m < two64 := by
  unfold mkU at h
  split at h
  · rename_i hlt; cases h; exact ⟨_, rfl, hlt⟩
  · cases h

theorem boolV_bound (c : Bool) : ∃ m, boolV c = .u m ∧ m < two64 := by
  cases c
  · exact ⟨0, rfl, C16.two64_pos⟩
  · exact ⟨1, rfl, by decide⟩

theorem pure_bound {c : Bool} {v : Val} (h : (pure (boolV c) : M Val) = .ok v) : ∃ m, v = .u m ∧ m < two64 := by
  cases h; exact boolV_bound c

theorem bind_ok_inv {α β} {x : M α} {f : α → M β} {b : β} (h : (x >>= f) = .ok b) : ∃ a, x = .ok a ∧ f a = .ok b := by
  cases x with
  | error e => cases h
  | ok a => exact ⟨a, rfl, h⟩

theorem pop2_ok_inv {β} {st : List Val} {F : Val × Val × List Val → M β} {res : β}
    (h : (pop2 st >>= F) = .ok res) : ∃ a b r, st = b :: a :: r ∧ F (a, b, r) = .ok res := by
  match st, h with
  | [], h => cases h
  | [_], h => cases h
  | b :: a :: r, h => exact ⟨a, b, r, rfl, h⟩

theorem pop1_ok_inv {β} {st : List Val} {F : Val × List Val → M β} {res : β}
    (h : (pop1 st >>= F) = .ok res) : ∃ a r, st = a :: r ∧ F (a, r) = .ok res := by
  match st, h with
  | [], h => cases h
  | a :: r, h => exact ⟨a, r, rfl, h⟩

theorem binU_ok_inv {a b : Val} {g : Nat → Nat → M Val} {v : Val}
    (h : (do let x ← asU a; let y ← asU b; g x y) = Except.ok v) : ∃ x y, g x y = .ok v := by
  cases a with
  | b _ => cases h
  | u x =>
    cases b with
    | b _ => cases h
    | u y => exact ⟨x, y, h⟩

theorem unU_ok_inv {a : Val} {g : Nat → M Val} {v : Val}
    (h : (do let x ← asU a; g x) = Except.ok v) : ∃ x, g x = .ok v := by
  cases a with
  | b _ => cases h
  | u x => exact ⟨x, h⟩

set_option hygiene false in
local macro "bin_open" : tactic => `(tactic|
  (obtain ⟨a, b, r, hst, h2⟩ := pop2_ok_inv h
   clear h
   dsimp only at h2
   obtain ⟨v, hv, h3⟩ := bind_ok_inv h2
   cases h3))

set_option hygiene false in
local macro "un_open" : tactic => `(tactic|
  (obtain ⟨a, r, hst, h2⟩ := pop1_ok_inv h
   clear h
   dsimp only at h2
   obtain ⟨v, hv, h3⟩ := bind_ok_inv h2
   cases h3))

set_option hygiene false in
local macro "fin_mkU" : tactic => `(tactic|
  (obtain ⟨m, rfl, hlt⟩ := mkU_bound hg
   exact ⟨m, _, rfl, hlt⟩))

set_option hygiene false in
local macro "fin_bool" t:term : tactic => `(tactic|
  (obtain ⟨m, rfl, hlt⟩ := pure_bound $t
   exact ⟨m, _, rfl, hlt⟩))

/-- the opcodes of `u64Ops` yield a `uint64` below 2^64 -/
theorem execPrim_u64 {cx : Ctx} {op : String} {imms : List String} {w w' : World} {st st' : List Val}
    (hop : u64Ops.contains op = true) (h : execPrim cx op imms w st = .ok (st', w')) :
    ∃ m r, st' = .u m :: r ∧ m < two64 := by
  simp only [u64Ops, List.contains_eq_mem, List.mem_cons, List.not_mem_nil, or_false, decide_eq_true_eq] at hop
  rcases hop with rfl | rfl | rfl | rfl | rfl | rfl | rfl | rfl | rfl | rfl | rfl | rfl | rfl | rfl | rfl
  · unfold execPrim at h; rw [m20_add] at h; dsimp only at h
    bin_open
    obtain ⟨x, y, hg⟩ := binU_ok_inv hv
    fin_mkU
  · unfold execPrim at h; rw [m20_sub] at h; dsimp only at h
    bin_open
    obtain ⟨x, y, hg⟩ := binU_ok_inv hv
    split at hg
    · fin_mkU
    · cases hg
  · unfold execPrim at h; rw [m20_mul] at h; dsimp only at h
    bin_open
    obtain ⟨x, y, hg⟩ := binU_ok_inv hv
    fin_mkU
  · unfold execPrim at h; rw [m20_div] at h; dsimp only at h
    bin_open
    obtain ⟨x, y, hg⟩ := binU_ok_inv hv
    split at hg
    · cases hg
    · fin_mkU
  · unfold execPrim at h; rw [m20_mod] at h; dsimp only at h
    bin_open
    obtain ⟨x, y, hg⟩ := binU_ok_inv hv
    split at hg
    · cases hg
    · fin_mkU
  · unfold execPrim at h; rw [m20_lt] at h; dsimp only at h
    bin_open
    obtain ⟨x, y, hg⟩ := binU_ok_inv hv
    fin_bool hg
  · unfold execPrim at h; rw [m20_gt] at h; dsimp only at h
    bin_open
    obtain ⟨x, y, hg⟩ := binU_ok_inv hv
    fin_bool hg
  · unfold execPrim at h; rw [m20_le] at h; dsimp only at h
    bin_open
    obtain ⟨x, y, hg⟩ := binU_ok_inv hv
    fin_bool hg
  · unfold execPrim at h; rw [m20_ge] at h; dsimp only at h
    bin_open
    obtain ⟨x, y, hg⟩ := binU_ok_inv hv
    fin_bool hg
  · unfold execPrim at h; rw [m20_land] at h; dsimp only at h
    bin_open
    obtain ⟨x, y, hg⟩ := binU_ok_inv hv
    fin_bool hg
  · unfold execPrim at h; rw [m20_lor] at h; dsimp only at h
    bin_open
    obtain ⟨x, y, hg⟩ := binU_ok_inv hv
    fin_bool hg
  · unfold execPrim at h; rw [m20_eq] at h; dsimp only at h
    bin_open
    split at hv
    · fin_bool hv
    · fin_bool hv
    · cases hv
  · unfold execPrim at h; rw [m20_ne] at h; dsimp only at h
    bin_open
    split at hv
    · fin_bool hv
    · fin_bool hv
    · cases hv
  · unfold execPrim at h; rw [m20_not] at h; dsimp only at h
    un_open
    obtain ⟨x, hg⟩ := unU_ok_inv hv
    fin_bool hg
  · unfold execPrim at h; rw [m20_compl] at h; dsimp only at h
    un_open
    obtain ⟨x, hg⟩ := unU_ok_inv hv
    cases hg
    exact ⟨_, _, rfl, Nat.lt_of_le_of_lt (Nat.sub_le _ _) (Nat.sub_lt C16.two64_pos Nat.one_pos)⟩

/-- **W1.** a syntactically-uint64 tree yields, if it yields one value, a `uint64` below 2^64 -/
theorem u64B_val (env : Env) : ∀ (fuel : Nat) (e : Expr) (w : World) (v : Val) (w' : World), u64B e = true →
    eval env fuel e w = (.vals [v], w') → ∃ n, v = .u n ∧ n < two64 := by
  intro fuel
  induction fuel with
  | zero => intro e w v w' _ h; simp only [eval] at h; cases h
  | succ f ih =>
    intro e w v w' hb h
    cases e with
    | int n =>
      simp only [u64B, decide_eq_true_eq] at hb
      simp only [eval] at h
      cases h
      exact ⟨n, rfl, hb⟩
    | index n =>
      simp only [u64B, decide_eq_true_eq] at hb
      simp only [eval] at h
      cases h
      exact ⟨n, rfl, hb⟩
    | prim op imms args =>
      simp only [u64B] at hb
      simp only [eval] at h
      split at h
      · split at h
        · rename_i hp
          cases h
          obtain ⟨m, r, hs, hlt⟩ := execPrim_u64 hb hp
          cases hs
          exact ⟨m, rfl, hlt⟩
        · cases h
      · rename_i hne
        exact absurd h (by intro hh; exact hne _ _ hh)
    | wideRatio ns ds =>
      rw [eval_wideRatio] at h
      split at h
      · rename_i st w1 _
        rcases wrRes_cases ns.length st with ⟨q, hq, hlt⟩ | ⟨f', hf, _⟩
        · rw [hq] at h; cases h; exact ⟨q, rfl, hlt⟩
        · rw [hf] at h; cases h
      · rename_i hne
        exact absurd h (by intro hh; exact hne _ _ hh)
    | ite c t e =>
      cases e with
      | none => simp [u64B] at hb
      | some e =>
        simp only [u64B, Bool.and_eq_true] at hb
        simp only [eval] at h
        split at h
        · split at h
          · exact ih t _ v w' hb.1 h
          · exact ih e _ v w' hb.2 h
        · cases h
        · rename_i hne1 hne2
          exact (hne2 _ _ h).elim
    | note e =>
      cases e with
      | none => simp [u64B] at hb
      | some e =>
        simp only [u64B] at hb
        simp only [eval] at h
        exact ih e w v w' hb h
    | nonce b e =>
      simp only [u64B] at hb
      simp only [eval] at h
      exact ih e w v w' hb h
    | _ => simp [u64B] at hb

end PyTealV.Proofs.C02Gen
