/-
  C02Gen, `WideRatio`: the `wideRatio` case of the semantic half (`step_ev` of
  `Proofs/C02GenSem.lean` takes it as a hypothesis, `sound_all` supplies `case_wide`).

  The source semantics evaluates all factors `ns ++ ds` first and then computes
  `wideProd ns / wideProd ds`; the generated code (`genRWideTop / genRWideRest`) interleaves factor
  evaluation with `mulw` / `mulStep` and ends with `combine`.  The op sequences are those of
  `Models/WideRatio.lean`; what they compute on values is taken from `Proofs/C16.lean`
  (`run_mulStep`, `exec_divmodw_ok`), transported to the graph machine in
  `Proofs/C02GenWideOps.lean`.

  Two side conditions of the fragment (`Models/FragmentR.lean`, W1 and W2) are needed and used:
    * W1 (`u64B_val`): `mulw` multiplies any two naturals, `Src.wideProd` fails when the product
      of the first two factors is not below 2^128 — the values `Val.u n` of the model are unbounded;
    * W2 (`noExit_all`): a factor evaluated after an opcode that can fail must not end the program
      with `Exit` — the source semantics would still reach it when the machine has already failed.
-/
import PyTealV.Proofs.C02GenWideOps
namespace PyTealV.Proofs.C02Gen
open PyTealV PyTealV.Avm PyTealV.Src PyTealV.Comp PyTealV.Models.Fragment PyTealV.Models.FragmentR PyTealV.Proofs.Ops
open PyTealV.Check (isSimple)
open PyTealV.Proofs.Shape (ovf Blk isUnm retOut)
open PyTealV.Models.WideRatio (Item mulStep combine runItems stepItem)

/-! ### values: what the machine computes, and the link to `Src.wideProd` -/

/-- the 128-bit pair of `q` on the stack (top first: low word, high word) -/
@[reducible] def pairV (q : Nat) : List Val := [.u (q % two64), .u (q / two64)]

/-- the loop of `multiplyFactors` on values: `none` = the machine fails -/
def restRes (p : Nat) : List Val → Option Nat
  | [] => some p
  | .u C :: vs => if p * C < two64 * two64 then restRes (p * C) vs else none
  | .b _ :: _ => none

/-- `multiplyFactors` on values: the two stack entries it leaves (top first), `none` = failure -/
def topRes : List Val → Option (List Val)
  | [v] => some [v, .u 0]
  | .u x0 :: .u x1 :: vs => (restRes (x0 * x1) vs).map pairV
  | _ => none

/-- W1 on values -/
def U64Top : List Val → Prop
  | [_] => True
  | .u x0 :: .u x1 :: _ => x0 < two64 ∧ x1 < two64
  | _ => False

theorem natsOf_nil : natsOf [] = some [] := rfl

theorem natsOf_u (n : Nat) (vs : List Val) : natsOf (.u n :: vs) = (natsOf vs).map (n :: ·) := by
  simp only [natsOf, List.mapM_cons]
  cases List.mapM (fun v => match v with | Val.u n => some n | _ => none) vs <;> rfl

theorem natsOf_b (x : Bytes) (vs : List Val) : natsOf (.b x :: vs) = none := by
  simp only [natsOf, List.mapM_cons]
  rfl

theorem natsOf_length : ∀ (vs : List Val) (xs : List Nat), natsOf vs = some xs → xs.length = vs.length
  | [], xs, h => by rw [natsOf_nil] at h; cases h; rfl
  | .u n :: vs, xs, h => by
    rw [natsOf_u] at h
    cases hv : natsOf vs with
    | none => rw [hv] at h; cases h
    | some ys => rw [hv] at h; cases h; simp [natsOf_length vs ys hv]
  | .b x :: vs, xs, h => by rw [natsOf_b] at h; cases h

theorem natsOf_append : ∀ (a b : List Val), natsOf (a ++ b) =
    match natsOf a, natsOf b with
    | some x, some y => some (x ++ y)
    | _, _ => none
  | [], b => by simp only [List.nil_append, natsOf_nil]; cases natsOf b <;> rfl
  | .u n :: a, b => by
    rw [List.cons_append, natsOf_u, natsOf_u, natsOf_append a b]
    cases natsOf a <;> cases natsOf b <;> rfl
  | .b x :: a, b => by rw [List.cons_append, natsOf_b, natsOf_b]

theorem restRes_eq : ∀ (vs : List Val) (p : Nat),
    restRes p vs = (natsOf vs).bind (fun xs => xs.foldl C16.wstep (some p))
  | [], p => by rw [natsOf_nil]; rfl
  | .u C :: vs, p => by
    rw [natsOf_u]
    simp only [restRes]
    by_cases hf : p * C < two64 * two64
    · rw [if_pos hf, restRes_eq vs (p * C)]
      cases natsOf vs with
      | none => rfl
      | some xs =>
        simp only [Option.map_some, Option.bind_some, List.foldl_cons]
        rw [C16.wstep_some_pos hf]
    · rw [if_neg hf]
      cases natsOf vs with
      | none => rfl
      | some xs =>
        simp only [Option.map_some, Option.bind_some, List.foldl_cons]
        rw [C16.wstep_some_neg hf, C16.foldl_wstep_none]
  | .b x :: vs, p => by rw [natsOf_b]; rfl

/-- what one factor list amounts to: a 128-bit pair that represents `Src.wideProd`, a byte string
    as the only factor, or a failure of the machine where the source semantics has no product -/
theorem side_cases (vs : List Val) (hU : U64Top vs) :
    (∃ a b xs q, topRes vs = some [.u b, .u a] ∧ natsOf vs = some xs ∧ wideProd xs = some q ∧ a * two64 + b = q) ∨
    (∃ x, topRes vs = some [.b x, .u 0] ∧ natsOf vs = none) ∨
    (topRes vs = none ∧ ∀ xs, natsOf vs = some xs → wideProd xs = none) := by
  match vs, hU with
  | [.u x], _ =>
    refine .inl ⟨0, x, [x], x, rfl, ?_, rfl, by rw [Nat.zero_mul, Nat.zero_add]⟩
    rw [natsOf_u, natsOf_nil]; rfl
  | [.b x], _ => exact .inr (.inl ⟨x, rfl, natsOf_b x []⟩)
  | .u x0 :: .u x1 :: vs', hU =>
    have hf : x0 * x1 < two64 * two64 := Nat.mul_lt_mul'' hU.1 hU.2
    have ht : topRes (.u x0 :: .u x1 :: vs') = (restRes (x0 * x1) vs').map pairV := rfl
    rw [ht, restRes_eq, natsOf_u, natsOf_u]
    cases natsOf vs' with
    | none => exact .inr (.inr ⟨rfl, fun xs h => by cases h⟩)
    | some xs' =>
      have hw : wideProd (x0 :: x1 :: xs') = xs'.foldl C16.wstep (some (x0 * x1)) := by
        rw [C16.wideProd_cons, List.foldl_cons, C16.wstep_some_pos hf]
      simp only [Option.map_some, Option.bind_some]
      cases hq : xs'.foldl C16.wstep (some (x0 * x1)) with
      | none =>
        refine .inr (.inr ⟨rfl, fun xs h => ?_⟩)
        cases h
        rw [hw, hq]
      | some q =>
        refine .inl ⟨q / two64, q % two64, _, q, rfl, rfl, ?_, Nat.div_add_mod' q two64⟩
        rw [hw, hq]

/-- the arithmetic tail of `wrRes` -/
def wr2 (a b : Option Nat) : Res :=
  match a, b with
  | some pn, some pd =>
    if pd = 0 then .fail (.logic "WideRatio division by zero")
    else if pn / pd < two64 then .vals [.u (pn / pd)]
    else .fail (.logic "WideRatio overflow")
  | _, _ => .fail (.logic "WideRatio product overflow")

theorem wrRes_split (vsN vsD : List Val) : wrRes vsN.length (vsN ++ vsD).reverse =
    match natsOf vsN, natsOf vsD with
    | some xn, some xd => wr2 (wideProd xn) (wideProd xd)
    | _, _ => .fail (.typeErr "WideRatio factor not uint64") := by
  unfold wrRes
  rw [List.reverse_reverse, natsOf_append]
  cases hn : natsOf vsN with
  | none => rfl
  | some xn =>
    cases hd : natsOf vsD with
    | none => rfl
    | some xd =>
      have hl := natsOf_length vsN xn hn
      simp only []
      rw [← hl, List.take_left, List.drop_left]
      unfold wr2
      cases wideProd xn <;> cases wideProd xd <;> rfl

/-- **values.** On the stack entries the two `multiplyFactors` leave, `combine` computes what the
    source semantics computes from all factor values, or fails where it fails; where
    `multiplyFactors` fails, the source semantics fails -/
theorem wide_pure (vsN vsD : List Val) (hN : U64Top vsN) (hD : U64Top vsD) :
    match topRes vsN, topRes vsD with
    | some tN, some tD =>
      (∃ q, wrRes vsN.length (vsN ++ vsD).reverse = .vals [.u q] ∧
        ∀ (cx : Ctx) (w : World) (τ : List Val), runItems cx [] [] combine w ((tD ++ tN) ++ τ) = .ok ([.u q] ++ τ, w)) ∨
      (∃ f, wrRes vsN.length (vsN ++ vsD).reverse = .fail f ∧
        ∀ (cx : Ctx) (w : World) (τ : List Val), ∃ e, runItems cx [] [] combine w ((tD ++ tN) ++ τ) = .error e)
    | _, _ => ∃ f, wrRes vsN.length (vsN ++ vsD).reverse = .fail f := by
  rw [wrRes_split]
  rcases side_cases vsN hN with ⟨a, b, xn, pn, htn, hnn, hpn, en⟩ | ⟨x, htn, hnn⟩ | ⟨htn, hnn⟩
  · rcases side_cases vsD hD with ⟨c, d, xd, pd, htd, hnd, hpd, ed⟩ | ⟨y, htd, hnd⟩ | ⟨htd, hnd⟩
    · simp only [htn, htd, hnn, hnd, hpn, hpd, wr2]
      have hrun := fun (cx : Ctx) (w : World) (τ : List Val) => run_combine' cx w τ a b c d pn pd en ed
      by_cases hz : pd = 0
      · simp only [if_pos hz] at hrun ⊢
        exact .inr ⟨_, rfl, fun cx w τ => ⟨_, hrun cx w τ⟩⟩
      · by_cases hq : pn / pd < two64
        · simp only [if_neg hz, if_pos hq] at hrun ⊢
          exact .inl ⟨_, rfl, fun cx w τ => hrun cx w τ⟩
        · simp only [if_neg hz, if_neg hq] at hrun ⊢
          exact .inr ⟨_, rfl, fun cx w τ => ⟨_, hrun cx w τ⟩⟩
    · rw [htn, htd, hnn, hnd]
      exact .inr ⟨_, rfl, fun cx w τ => run_combine_bytes_d cx w y a b 0 τ⟩
    · rw [htn, htd, hnn]
      cases hnd' : natsOf vsD with
      | none => exact ⟨_, rfl⟩
      | some xd => simp only []; rw [hpn, hnd xd hnd']; exact ⟨_, rfl⟩
  · rw [htn, hnn]
    rcases side_cases vsD hD with ⟨c, d, xd, pd, htd, hnd, hpd, ed⟩ | ⟨y, htd, hnd⟩ | ⟨htd, hnd⟩
    · rw [htd]
      exact .inr ⟨_, rfl, fun cx w τ => run_combine_bytes_n cx w x 0 (.u d) (.u c) τ⟩
    · rw [htd]
      exact .inr ⟨_, rfl, fun cx w τ => run_combine_bytes_n cx w x 0 (.b y) (.u 0) τ⟩
    · rw [htd]
      exact ⟨_, rfl⟩
  · rw [htn]
    cases hnn' : natsOf vsN with
    | none => exact ⟨_, rfl⟩
    | some xn =>
      cases hnd' : natsOf vsD with
      | none => exact ⟨_, rfl⟩
      | some xd => simp only []; rw [hnn xn hnn']; exact ⟨_, rfl⟩

/-! ### source side: factor lists -/

theorem evalArgs_append (env : Env) : ∀ (a b : List Expr) (F : Nat) (w : World) (acc : List Val),
    evalArgs env F (a ++ b) w acc =
      match evalArgs env F a w acc with
      | (.vals st, w1) => evalArgs env (F - a.length) b w1 st
      | r => r := by
  intro a
  induction a with
  | nil =>
    intro b F w acc
    cases F with
    | zero => simp only [List.nil_append, evalArgs]
    | succ f => simp only [List.nil_append, evalArgs, List.length_nil, Nat.sub_zero]
  | cons e a ih =>
    intro b F w acc
    cases F with
    | zero => simp only [List.cons_append, evalArgs]
    | succ f =>
      simp only [List.cons_append, evalArgs, List.length_cons, Nat.add_sub_add_right]
      rcases eval env f e w with ⟨r1, w1⟩
      cases r1 with
      | vals vs => exact ih b f w1 (vs ++ acc)
      | _ => rfl

theorem noExitL_drop2 : ∀ (l : List Expr), noExitL l = true → noExitL (l.drop 2) = true
  | [], _ => rfl
  | [_], _ => rfl
  | e0 :: e1 :: rest, h => by
    simp only [noExitL, Bool.and_eq_true] at h
    exact h.2.2

section Sim
variable {X : MCtx} {cfg : RCfg} {K : RK} {env : Env} {fuel : Nat}

/-- what the machine, at block `s` with stack `τ`, must do for the result of evaluating a factor
    list: `Mc vs w'` is the claim for the factor values `vs` -/
def ListGoal (cx : Ctx) (X : MCtx) (s : Nat) (τ : List Val) (ic : List Nat) (bcs : List Bytes) (w : World)
    (acc : List Val) (n : Nat) (Mc : List Val → World → Prop) : Res → World → Prop
  | .vals st, w' => ∃ vs, st = vs.reverse ++ acc ∧ vs.length = n ∧ Mc vs w'
  | .exit v, w' => HaltO cx X ⟨s, 0⟩ ⟨τ, ic, bcs, w⟩ (retOut v w')
  | .fail f, _ => isUnm f ∨ Fails cx X ⟨s, 0⟩ ⟨τ, ic, bcs, w⟩
  | _, _ => False

/-- one factor: a one-value operand -/
theorem factor_ev {e s k L τ ic bcs w r1 w1 f} (ihs : ∀ f, f ≤ fuel → AllX X cfg K env f) (hf : f ≤ fuel)
    (he : ShapeR X.G cfg e s k L) (hw : wtR K false false 1 e = true) (hev : eval env f e w = (r1, w1)) :
    match r1 with
    | .vals vs => ∃ v, vs = [v] ∧ ReachO env.cx X ⟨s, 0⟩ ⟨τ, ic, bcs, w⟩ ⟨k, 0⟩ ⟨v :: τ, ic, bcs, w1⟩
    | .exit v => HaltO env.cx X ⟨s, 0⟩ ⟨τ, ic, bcs, w⟩ (retOut v w1)
    | .fail f' => isUnm f' ∨ Fails env.cx X ⟨s, 0⟩ ⟨τ, ic, bcs, w⟩
    | _ => False := by
  have g1 := (ihs f hf).ev _ _ _ _ _ _ _ τ ic bcs _ _ _ he hw hev
  cases r1 with
  | vals vs =>
    obtain ⟨hlen, hr⟩ := g1
    match vs, hlen, hr with
    | [v], _, hr => exact ⟨v, rfl, hr⟩
  | brk => exact absurd g1.1 (by simp)
  | cont => exact absurd g1.1 (by simp)
  | ret v => exact absurd g1.1 (by simp)
  | exit v => exact g1
  | fail f' => exact g1

/-- the machine claim of the `mulStep` loop, started with the pair of `p` -/
def RestM (cx : Ctx) (X : MCtx) (s k p : Nat) (σ : List Val) (ic : List Nat) (bcs : List Bytes) (w : World)
    (vs : List Val) (w' : World) : Prop :=
  match restRes p vs with
  | some q => ReachO cx X ⟨s, 0⟩ ⟨pairV p ++ σ, ic, bcs, w⟩ ⟨k, 0⟩ ⟨pairV q ++ σ, ic, bcs, w'⟩
  | none => Fails cx X ⟨s, 0⟩ ⟨pairV p ++ σ, ic, bcs, w⟩

theorem wide_rest {L : Option Loop} {ic : List Nat} {bcs : List Bytes} (ihs : ∀ f, f ≤ fuel → AllX X cfg K env f) :
    ∀ (rest : List Expr) (F : Nat), F ≤ fuel + 1 → ∀ (s k : Nat), ShapeRWideRest X.G cfg rest s k L →
      wtRArgs K rest = true → noExitL rest = true →
      ∀ (p : Nat) (σ : List Val) (w : World) (acc : List Val) (r : Res) (w' : World),
        evalArgs env F rest w acc = (r, w') →
        ListGoal env.cx X s (pairV p ++ σ) ic bcs w acc rest.length (RestM env.cx X s k p σ ic bcs w) r w' := by
  intro rest
  induction rest with
  | nil =>
    intro F hF s k hsh _ _ p σ w acc r w' hev
    cases hsh
    cases F with
    | zero => simp only [evalArgs] at hev; cases hev; exact .inl ⟨_, rfl⟩
    | succ f =>
      simp only [evalArgs] at hev
      cases hev
      exact ⟨[], rfl, rfl, ReachO.refl _ _⟩
  | cons e rest ih =>
    intro F hF s k hsh hwt hnx p σ w acc r w' hev
    have hnoexit := (noExit_all env F).args (e :: rest) w acc r w' hnx hev
    cases hsh with
    | cons hrest hb he =>
      rename_i sb k'
      simp only [wtRArgs, Bool.and_eq_true] at hwt
      simp only [noExitL, Bool.and_eq_true] at hnx
      cases F with
      | zero => simp only [evalArgs] at hev; cases hev; exact .inl ⟨_, rfl⟩
      | succ f =>
        simp only [evalArgs] at hev
        rcases hev1 : eval env f e w with ⟨r1, w1⟩
        rw [hev1] at hev
        have g1 := factor_ev (τ := pairV p ++ σ) (ic := ic) (bcs := bcs) ihs (by omega) he hwt.1 hev1
        cases r1 with
        | vals vs1 =>
          obtain ⟨v, rfl, hr⟩ := g1
          simp only [] at hev
          have ihp := fun p' => ih f (by omega) k' k hrest hwt.2 hnx.2 p' σ w1 ([v] ++ acc) r w' hev
          -- the `mulStep` block
          have hstep : (∃ C, v = .u C ∧ p * C < two64 * two64 ∧
                ReachO env.cx X ⟨s, 0⟩ ⟨pairV p ++ σ, ic, bcs, w⟩ ⟨k', 0⟩ ⟨pairV (p * C) ++ σ, ic, bcs, w1⟩) ∨
              ((∀ vs, restRes p (v :: vs) = none) ∧ Fails env.cx X ⟨s, 0⟩ ⟨pairV p ++ σ, ic, bcs, w⟩) := by
            cases v with
            | b x =>
              refine .inr ⟨fun vs => rfl, hr.fails ?_⟩
              exact wide_block_fail (st := [.b x, .u (p % two64), .u (p / two64)]) (σ := σ) (w := w1) hb mulStep_noFac
                (fun wm τ => run_mulStep_bytes env.cx wm x (.u (p % two64)) (p / two64) τ)
            | u C =>
              by_cases hfit : p * C < two64 * two64
              · refine .inl ⟨C, rfl, hfit, hr.trans ?_⟩
                refine wide_block (st := [.u C, .u (p % two64), .u (p / two64)]) (st' := pairV (p * C)) (σ := σ) (w := w1) hb mulStep_noFac
                  (fun wm τ => ?_)
                have := C16.run_mulStep env.cx [] [] wm τ p C
                rw [if_pos hfit] at this
                exact this
              · refine .inr ⟨fun vs => by simp only [restRes, if_neg hfit], hr.fails ?_⟩
                refine wide_block_fail (st := [.u C, .u (p % two64), .u (p / two64)]) (σ := σ) (w := w1) hb mulStep_noFac (fun wm τ => ⟨Fail.logic "uint64 overflow", ?_⟩)
                have := C16.run_mulStep env.cx [] [] wm τ p C
                rw [if_neg hfit] at this
                exact this
          rcases hstep with ⟨C, rfl, hfit, hreach⟩ | ⟨hnone, hfail⟩
          · have i0 := ihp (p * C)
            cases r with
            | vals st =>
              obtain ⟨vs, hst, hl, hM⟩ := i0
              refine ⟨.u C :: vs, by simp [hst], by simp [hl], ?_⟩
              revert hM
              unfold RestM
              simp only [restRes, if_pos hfit]
              cases restRes (p * C) vs with
              | none => exact fun hM => hreach.fails hM
              | some q => exact fun hM => hreach.trans hM
            | fail f' => exact i0.imp id (fun h => hreach.fails h)
            | exit v' => exact (hnoexit v' rfl).elim
            | brk => exact i0
            | cont => exact i0
            | ret _ => exact i0
          · have i0 := ihp p
            cases r with
            | vals st =>
              obtain ⟨vs, hst, hl, _⟩ := i0
              refine ⟨v :: vs, by simp [hst], by simp [hl], ?_⟩
              unfold RestM
              rw [hnone vs]
              exact hfail
            | fail f' => exact .inr hfail
            | exit v' => exact (hnoexit v' rfl).elim
            | brk => exact i0
            | cont => exact i0
            | ret _ => exact i0
        | exit v' => simp only [] at hev; cases hev; exact (hnoexit v' rfl).elim
        | fail f' => simp only [] at hev; cases hev; exact g1
        | brk => exact g1.elim
        | cont => exact g1.elim
        | ret _ => exact g1.elim

/-- the machine claim of `multiplyFactors` -/
def TopM (cx : Ctx) (X : MCtx) (s k : Nat) (σ : List Val) (ic : List Nat) (bcs : List Bytes) (w : World)
    (vs : List Val) (w' : World) : Prop :=
  U64Top vs ∧
  match topRes vs with
  | some t => ReachO cx X ⟨s, 0⟩ ⟨σ, ic, bcs, w⟩ ⟨k, 0⟩ ⟨t ++ σ, ic, bcs, w'⟩
  | none => Fails cx X ⟨s, 0⟩ ⟨σ, ic, bcs, w⟩

theorem wide_top {L : Option Loop} {ic : List Nat} {bcs : List Bytes} (ihs : ∀ f, f ≤ fuel → AllX X cfg K env f)
    {es : List Expr} {F : Nat} (hF : F ≤ fuel + 1) {s k : Nat} (hsh : ShapeRWideTop X.G cfg es s k L)
    (hwt : wtRArgs K es = true) (hu : u64Top es = true) (hnx : noExitL (es.drop 2) = true)
    (σ : List Val) (w : World) (acc : List Val) (r : Res) (w' : World)
    (hev : evalArgs env F es w acc = (r, w')) :
    ListGoal env.cx X s σ ic bcs w acc es.length (TopM env.cx X s k σ ic bcs w) r w' := by
  cases hsh with
  | one hb he =>
    rename_i e0 b
    simp only [wtRArgs, Bool.and_eq_true] at hwt
    have push0 : ReachO env.cx X ⟨s, 0⟩ ⟨σ, ic, bcs, w⟩ ⟨b, 0⟩ ⟨.u 0 :: σ, ic, bcs, w⟩ :=
      pushV_reach hb rfl (fun _ _ _ => rfl)
    cases F with
    | zero => simp only [evalArgs] at hev; cases hev; exact .inl ⟨_, rfl⟩
    | succ f =>
      simp only [evalArgs] at hev
      rcases hev1 : eval env f e0 w with ⟨r1, w1⟩
      rw [hev1] at hev
      have g1 := factor_ev (τ := .u 0 :: σ) (ic := ic) (bcs := bcs) ihs (by omega) he hwt.1 hev1
      cases r1 with
      | vals vs1 =>
        obtain ⟨v, rfl, hr⟩ := g1
        simp only [] at hev
        cases f with
        | zero => simp only [evalArgs] at hev; cases hev; exact .inl ⟨_, rfl⟩
        | succ f' =>
          simp only [evalArgs] at hev
          cases hev
          exact ⟨[v], rfl, rfl, trivial, push0.trans hr⟩
      | exit v' => simp only [] at hev; cases hev; exact push0.haltO g1
      | fail f' => simp only [] at hev; cases hev; exact g1.imp id (fun h => push0.fails h)
      | brk => exact g1.elim
      | cont => exact g1.elim
      | ret _ => exact g1.elim
  | many hrest hmb he1 he0 =>
    rename_i e0 e1 rest b1 mb rk
    simp only [wtRArgs, Bool.and_eq_true] at hwt
    simp only [u64Top, Bool.and_eq_true] at hu
    have hnx' : noExitL rest = true := hnx
    cases F with
    | zero => simp only [evalArgs] at hev; cases hev; exact .inl ⟨_, rfl⟩
    | succ f =>
      simp only [evalArgs] at hev
      rcases hev0 : eval env f e0 w with ⟨r0, w0⟩
      rw [hev0] at hev
      have g0 := factor_ev (τ := σ) (ic := ic) (bcs := bcs) ihs (by omega) he0 hwt.1 hev0
      cases r0 with
      | vals vs0 =>
        obtain ⟨v0, rfl, hr0⟩ := g0
        obtain ⟨x0, rfl, hx0⟩ := u64B_val env f e0 w v0 w0 hu.1 hev0
        simp only [] at hev
        cases f with
        | zero => simp only [evalArgs] at hev; cases hev; exact .inl ⟨_, rfl⟩
        | succ f1 =>
          simp only [evalArgs] at hev
          rcases hev1 : eval env f1 e1 w0 with ⟨r1, w1⟩
          rw [hev1] at hev
          have g1 := factor_ev (τ := .u x0 :: σ) (ic := ic) (bcs := bcs) ihs (by omega) he1 hwt.2.1 hev1
          cases r1 with
          | vals vs1 =>
            obtain ⟨v1, rfl, hr1⟩ := g1
            obtain ⟨x1, rfl, hx1⟩ := u64B_val env f1 e1 w0 v1 w1 hu.2 hev1
            simp only [] at hev
            have hmb' : Blk X.G mb (wideInstrs [.op "mulw" []]) (.next rk) := by
              simpa [wideInstrs] using hmb
            have hmul : ReachO env.cx X ⟨mb, 0⟩ ⟨[.u x1, .u x0] ++ σ, ic, bcs, w1⟩ ⟨rk, 0⟩
                ⟨pairV (x0 * x1) ++ σ, ic, bcs, w1⟩ := by
              refine wide_block hmb' (by intro it hit b i h; subst h; simp at hit) (fun wm τ => ?_)
              show runItems env.cx [] [] [Item.op "mulw" []] wm (.u x1 :: .u x0 :: τ) = _
              rw [C16.runItems_op_ok (C16.exec_mulw env.cx wm x0 x1 τ)]
              rfl
            have pre : ReachO env.cx X ⟨s, 0⟩ ⟨σ, ic, bcs, w⟩ ⟨rk, 0⟩ ⟨pairV (x0 * x1) ++ σ, ic, bcs, w1⟩ :=
              hr0.trans (hr1.trans hmul)
            have irest := wide_rest (ic := ic) (bcs := bcs) ihs rest f1 (by omega) rk k hrest hwt.2.2 hnx'
              (x0 * x1) σ w1 ([.u x1] ++ ([.u x0] ++ acc)) r w' hev
            have hnoexit := (noExit_all env f1).args rest w1 _ r w' hnx' hev
            cases r with
            | vals st =>
              obtain ⟨vs, hst, hl, hM⟩ := irest
              refine ⟨.u x0 :: .u x1 :: vs, by simp [hst], by simp [hl], ⟨hx0, hx1⟩, ?_⟩
              revert hM
              unfold RestM
              simp only [topRes]
              cases restRes (x0 * x1) vs with
              | none => exact fun hM => pre.fails hM
              | some q => exact fun hM => pre.trans hM
            | fail f' => exact irest.imp id (fun h => pre.fails h)
            | exit v' => exact (hnoexit v' rfl).elim
            | brk => exact irest
            | cont => exact irest
            | ret _ => exact irest
          | exit v' => simp only [] at hev; cases hev; exact hr0.haltO g1
          | fail f' => simp only [] at hev; cases hev; exact g1.imp id (fun h => hr0.fails h)
          | brk => exact g1.elim
          | cont => exact g1.elim
          | ret _ => exact g1.elim
      | exit v' => simp only [] at hev; cases hev; exact g0
      | fail f' => simp only [] at hev; cases hev; exact g0
      | brk => exact g0.elim
      | cont => exact g0.elim
      | ret _ => exact g0.elim

/-- **the `wideRatio` case of `step_ev`** -/
theorem case_wide {ns ds s dstart cb k L bc rc n σ ic bcs w r w'} (ihs : ∀ f, f ≤ fuel → AllX X cfg K env f)
    (hb : Blk X.G cb (wideInstrs combine) (.next k)) (hd : ShapeRWideTop X.G cfg ds dstart cb L)
    (hn : ShapeRWideTop X.G cfg ns s dstart L) (hw : wtR K bc rc n (.wideRatio ns ds) = true)
    (h : eval env (fuel + 1) (.wideRatio ns ds) w = (r, w')) :
    Goal env.cx X s k L bc rc K.rv n σ ic bcs w r w' := by
  simp only [wtR, Bool.and_eq_true, beq_iff_eq] at hw
  obtain ⟨⟨⟨⟨⟨⟨hn1, _⟩, _⟩, _⟩, hwn⟩, hwd⟩, hok⟩ := hw
  simp only [wideOk, Bool.and_eq_true] at hok
  obtain ⟨⟨⟨hun, hud⟩, hxn⟩, hxd⟩ := hok
  subst hn1
  rw [eval_wideRatio, evalArgs_append] at h
  rcases hevN : evalArgs env fuel ns w [] with ⟨rN, wN⟩
  rw [hevN] at h
  have gN := wide_top (ic := ic) (bcs := bcs) ihs (Nat.le_succ fuel) hn hwn hun hxn σ w [] rN wN hevN
  cases rN with
  | vals stN =>
    obtain ⟨vsN, hstN, hlN, hUN, hMN⟩ := gN
    simp only [] at h
    rcases hevD : evalArgs env (fuel - ns.length) ds wN stN with ⟨rD, wD⟩
    rw [hevD] at h
    have hnoexit := (noExit_all env (fuel - ns.length)).args ds wN stN rD wD hxd hevD
    have gD := fun τ => wide_top (ic := ic) (bcs := bcs) ihs (F := fuel - ns.length) (by omega) hd hwd hud (noExitL_drop2 ds hxd) τ wN stN rD wD hevD
    have pure := wide_pure vsN
    cases htN : topRes vsN with
    | none =>
      rw [htN] at hMN
      -- the numerators already fail on the machine
      have g0 := gD σ
      cases rD with
      | vals stD =>
        obtain ⟨vsD, hstD, hlD, hUD, _⟩ := g0
        simp only [] at h
        cases h
        have := pure vsD hUN hUD
        rw [htN] at this
        obtain ⟨f, hf⟩ := this
        rw [hstD, hstN, List.append_nil, ← List.reverse_append, ← hlN, hf]
        exact .inr hMN
      | fail f' => simp only [] at h; cases h; exact .inr hMN
      | exit v' => exact (hnoexit v' rfl).elim
      | brk => exact g0.elim
      | cont => exact g0.elim
      | ret _ => exact g0.elim
    | some tN =>
      rw [htN] at hMN
      have g0 := gD (tN ++ σ)
      cases rD with
      | vals stD =>
        obtain ⟨vsD, hstD, hlD, hUD, hMD⟩ := g0
        simp only [] at h
        cases h
        have hp := pure vsD hUN hUD
        rw [htN] at hp
        rw [hstD, hstN, List.append_nil, ← List.reverse_append, ← hlN]
        cases htD : topRes vsD with
        | none =>
          rw [htD] at hMD hp
          obtain ⟨f, hf⟩ := hp
          rw [hf]
          exact .inr (hMN.fails hMD)
        | some tD =>
          rw [htD] at hMD hp
          have pre := hMN.trans hMD
          rw [← List.append_assoc] at pre
          rcases hp with ⟨q, hq, hrun⟩ | ⟨f, hf, hrun⟩
          · rw [hq]
            exact ⟨rfl, pre.trans (wide_block hb combine_noFac (fun wm τ => hrun env.cx wm τ))⟩
          · rw [hf]
            exact .inr (pre.fails (wide_block_fail hb combine_noFac (fun wm τ => hrun env.cx wm τ)))
      | fail f' => simp only [] at h; cases h; exact g0.imp id (fun hh => hMN.fails hh)
      | exit v' => exact (hnoexit v' rfl).elim
      | brk => exact g0.elim
      | cont => exact g0.elim
      | ret _ => exact g0.elim
  | exit v' => simp only [] at h; cases h; exact gN
  | fail f' => simp only [] at h; cases h; exact gN
  | brk => exact gN.elim
  | cont => exact gN.elim
  | ret _ => exact gN.elim

end Sim

end PyTealV.Proofs.C02Gen
