/-
  C03 — tactics for the frame property of `Avm.execPrim` (used by Proofs/C03OptFrame*.lean):
  `PrimFrame op` says that the opcode `op` neither reads nor writes the scratch space.
  `eval_prim` evaluates `execPrim cx "<literal>" …` down to the arm of that opcode (the `match` on
  the opcode name is a chain of 130 string comparisons; the comparison is done by evaluation,
  each step justified by `of_decide_eq_true/false rfl`), `frame_tac` then closes the goal by case
  analysis on the monadic steps.
-/
import Lean
import PyTealV.Avm.Sem
namespace PyTealV.Models.Optimizer
open PyTealV PyTealV.Avm

/-- replace the scratch space of a result -/
def setSc (sc : List (Nat × Val)) (r : List Val × World) : List Val × World := (r.1, { r.2 with scratch := sc })

/-- the opcode `op` does not look at the scratch space and does not change it -/
def PrimFrame (op : String) : Prop :=
  ∀ (cx : Ctx) (imms : List String) (w : World) (sc : List (Nat × Val)) (st : List Val),
    execPrim cx op imms { w with scratch := sc } st = (execPrim cx op imms w st).map (setSc sc)

open Lean Meta Elab Tactic in
/-- lazily evaluate the head of `e`: beta, zeta, unfolding of `execPrim` and of its matcher, and
    `dite`s whose condition is decided by evaluation (string literal comparisons) -/
def evalHead (e : Expr) : MetaM Expr := do
  let mut e := e
  for _ in [0:1000] do
    e := e.headBeta
    match e with
    | .letE _ _ v b _ => e := b.instantiate1 v; continue
    | .mdata _ b => e := b; continue
    | _ => pure ()
    let fn := e.getAppFn
    if e.isAppOfArity ``Eq.ndrec_symm 6 then
      let args := e.getAppArgs
      if args[1]! == args[4]! then e := args[3]!; continue
    let bigMatcher ← if fn.isConst && e.getAppNumArgs > 100 then isMatcher fn.constName! else pure false
    if fn.isConstOf ``execPrim || bigMatcher then
      match ← delta? e with
      | some e' => e := e'; continue
      | none => break
    if e.isAppOfArity ``dite 5 then
      let args := e.getAppArgs
      let d ← whnfD (mkApp2 (mkConst ``Decidable.decide) args[1]! args[2]!)
      if d.isConstOf ``Bool.true then
        let h := mkApp3 (mkConst ``of_decide_eq_true) args[1]! args[2]! (← mkEqRefl (mkConst ``Bool.true))
        e := mkApp args[3]! h; continue
      else if d.isConstOf ``Bool.false then
        let h := mkApp3 (mkConst ``of_decide_eq_false) args[1]! args[2]! (← mkEqRefl (mkConst ``Bool.false))
        e := mkApp args[4]! h; continue
      else break
    break
  return e

open Lean Meta Elab Tactic in
/-- on a goal `execPrim … = Except.map f (execPrim …)`: evaluate both `execPrim`s to their arm
    (the new goal is definitionally equal; the kernel re-checks it) -/
elab "eval_prim" : tactic => do
  let g ← getMainGoal
  let t ← instantiateMVars (← g.getType)
  let some (_, lhs, rhs) := t.eq? | throwError "not an equation"
  let lhs' ← evalHead lhs
  let rhs' ← if rhs.isAppOfArity ``Except.map 5 then
      pure (mkApp (rhs.appFn!) (← evalHead rhs.appArg!))
    else evalHead rhs
  let g' ← g.replaceTargetDefEq (← mkEq lhs' rhs')
  replaceMainGoal [g']

set_option linter.unusedSimpArgs false in
macro "frame_tac" : tactic => `(tactic| (
  intro cx imms w sc st
  eval_prim
  try (simp only [bind, Except.bind, pure, Except.pure, Except.map, setSc, throw, throwThe, MonadExceptOf.throw])
  repeat' (first | with_reducible rfl | split)
  all_goals (first | assumption | contradiction | (simp_all; done))))

end PyTealV.Models.Optimizer
