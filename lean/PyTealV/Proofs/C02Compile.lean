/-
  C02 — composition: for a program with subroutines whose real TEAL `P` passed the whole-program
  certificate check (`Check.checkCert`, sound by `Proofs/SimR.lean`) against the routine graphs of
  the (renamed) source program `p`, the real TEAL computes what the program denotes, on every
  context, every initial state and every run length.  Analogue of
  `Proofs.C01.compile_correct_validated` for call graphs (scratch-slot convention, by-value
  parameters, recursion allowed).

  The certificate holds the routines *reachable* from the main routine only, so the semantic half
  (`C02Gen.sound_all`) is used with `ProgOK` restricted to the routines that have a graph and with
  `CallPresent` obtained from the decidable closure check `certClosed`.

  α-renaming: `p` is the program AFTER `validateProg`'s renaming of source variables to the slots of
  the real TEAL (`Check.renamedProg`; the bindings are checked to be a bijection).  The theorems of
  this file speak about the renamed program; invariance of `Src.runProg` under the renaming is
  `Proofs/Rename.lean`, and the statements about the ORIGINAL program (under the additional decidable
  hypothesis `Check.renameOk`) are `Proofs/CompileOriginal.lean`: `compile_correct_original_prog[_ref]`.
-/
import PyTealV.Proofs.C02Gen
import PyTealV.Check.ComposeProg
namespace PyTealV.Proofs.C02Compile
open PyTealV PyTealV.Avm PyTealV.Src PyTealV.Comp PyTealV.Check PyTealV.Models.FragmentR
open PyTealV.Proofs.C02Gen
open PyTealV.Proofs.Shape (Blk)

theorem lookup_mem {α : Type} (l : List (String × α)) (k : String) (v : α) (h : l.lookup k = some v) :
    ∃ k', (k', v) ∈ l := by
  induction l with
  | nil => cases h
  | cons x xs ih =>
    obtain ⟨k0, v0⟩ := x
    simp only [List.lookup_cons] at h
    split at h
    · cases h; exact ⟨k0, List.mem_cons_self ..⟩
    · obtain ⟨k', hk'⟩ := ih h; exact ⟨k', List.mem_cons_of_mem _ hk'⟩

/-- every graph of the certificate program only calls routines of the certificate program -/
theorem graphOf_callsOk {c : ProgCert} (hcl : certClosed c = true) {r : RId} {G : Graph}
    (hG : c.prog.graphOf r = some G) : graphCallsOk c.prog.subs G = true := by
  simp only [certClosed, Bool.and_eq_true, List.all_eq_true] at hcl
  cases r with
  | none =>
    simp only [PProg.graphOf, Option.some.injEq] at hG
    subst hG
    exact hcl.1
  | some l =>
    simp only [PProg.graphOf, Option.map_eq_some_iff] at hG
    obtain ⟨⟨G', s⟩, hl, rfl⟩ := hG
    obtain ⟨k', hk'⟩ := lookup_mem _ _ _ hl
    exact hcl.2 _ hk'

theorem callPresent_of_cert {version : Nat} {fp dyn strict : Bool} {p : Prog} {c : ProgCert} (cx : Ctx)
    (hcl : certClosed c = true) : CallPresent ⟨cx, p, c.prog, version, fp, dyn, strict⟩ := by
  intro X cfg K cur hR f ce cb k _ hb
  have hG := X.hG
  rw [hR.pg] at hG
  have hok := graphOf_callsOk hcl hG
  simp only [graphCallsOk, List.all_eq_true] at hok
  unfold Blk at hb
  have hblk := hok _ (Array.mem_toList_iff.mpr (Array.mem_of_getElem? hb))
  have hmem : Instr.callsub (subLabel f) ∈ callOps cfg f ce := by
    unfold callOps
    simp
  exact hblk _ hmem

/-- the per-routine part of `fragmentOnCert` -/
theorem subOkC_of_cert {fp dyn strict : Bool} {p : Prog} {c : ProgCert} (hf : fragmentOnCert fp p c dyn strict = true)
    {f : Nat} {sd : SubDef} (hsd : findSub p f = some sd) (hpres : (c.prog.subs.lookup (subLabel f)).isSome = true) :
    subOkC fp p sd dyn strict = true := by
  have hmem : sd ∈ p.subs := List.mem_of_find?_eq_some hsd
  have hid : sd.id = f := findSub_id hsd
  simp only [fragmentOnCert, Bool.and_eq_true, List.all_eq_true, Bool.or_eq_true, Bool.not_eq_true'] at hf
  rcases hf.1.1.2 sd hmem with h | h
  · simp only [certHas, hid] at h; rw [h] at hpres; cases hpres
  · exact h

theorem progOK_of_cert {version : Nat} {fp dyn strict : Bool} {p : Prog} {c : ProgCert} (cx : Ctx)
    (hf : fragmentOnCert fp p c dyn strict = true) (hs : certSubsOk version fp p c = true) :
    ProgOK ⟨cx, p, c.prog, version, fp, dyn, strict⟩ := by
  intro f sd hsd hpres
  have hmem : sd ∈ p.subs := List.mem_of_find?_eq_some hsd
  have hid : sd.id = f := findSub_id hsd
  simp only [certSubsOk, List.all_eq_true] at hs
  have h1 := hs sd hmem
  rw [hid] at h1
  have hso := subOkC_of_cert hf hsd hpres
  simp only [Present] at hpres
  cases hl : c.prog.subs.lookup (subLabel f) with
  | none => rw [hl] at hpres; cases hpres
  | some e =>
    obtain ⟨G, s⟩ := e
    rw [hl] at h1
    simp only [] at h1
    cases hr : genSub version fp false p sd (spillSlotsC fp sd) with
    | error e => rw [hr] at h1; cases h1
    | ok r =>
      rw [hr] at h1
      simp only [Bool.and_eq_true, decide_eq_true_eq, beq_iff_eq] at h1
      obtain ⟨rfl, rfl⟩ := h1
      exact subOK_of_genSub (P := ⟨cx, p, c.prog, version, fp, dyn, strict⟩) hr hl hmem hso

theorem callInv_of_cert {version : Nat} {fp : Bool} {p : Prog} {c : ProgCert} (cx : Ctx)
    (hf : fragmentOnCert fp p c = true) : CallInv ⟨cx, p, c.prog, version, fp, false, false⟩ := by
  cases fp with
  | false => exact callInv_scratch rfl rfl
  | true =>
    have hf' := hf
    simp only [fragmentOnCert, Bool.and_eq_true, List.all_eq_true, Bool.or_eq_true, Bool.not_eq_true',
      Bool.not_true, Bool.false_or] at hf'
    obtain ⟨⟨_, hpnd, hreach⟩, _⟩ := hf'
    refine callInv_fp_of (P := ⟨cx, p, c.prog, version, true, false, false⟩) rfl rfl rfl hpnd
      (fun f sd hsd hpres => subOkC_of_cert hf hsd hpres) ?_
    intro f0 sd0 hsd0 hpres0 g hg hre h hh
    have hmem0 : sd0 ∈ p.subs := List.mem_of_find?_eq_some hsd0
    have hid0 : sd0.id = f0 := findSub_id hsd0
    rcases hreach sd0 hmem0 with h1 | h1
    · simp only [certHas, hid0] at h1
      simp only [Present] at hpres0
      rw [h1] at hpres0; cases hpres0
    · rcases h1 g hg with h2 | h2
      · rw [hre] at h2; cases h2
      · exact h2 h hh

/-- the generator facts about the main graph of the certificate -/
theorem main_of_cert {version : Nat} {p : Prog} {c : ProgCert} (hm : certMainOk version p c = true) :
    c.prog.main[0]? = some ({} : Block) ∧
      ShapeR c.prog.main { version := version, inSub := false, callees := calleesOf p, markIndex := false }
        (if hasReturn p.main then p.main else .ret (some p.main)) c.prog.start 0 none := by
  simp only [certMainOk] at hm
  cases hr : genMainR version false p with
  | error e => rw [hr] at hm; cases hm
  | ok r =>
    rw [hr] at hm
    simp only [Bool.and_eq_true, decide_eq_true_eq, beq_iff_eq] at hm
    have := genMainR_spec hr
    rw [hm.1, hm.2] at this
    exact this

/-- transfer from the graph machine on the certificate's program to the AVM on the real TEAL -/
theorem to_avm {D : Fail → Prop} {I : List Nat} {cx : Ctx} {p : Prog} {P : Program} {c : ProgCert} {w0 : World}
    {fuel : Nat} (hk : checkCert P c = true)
    (key : match Src.runProg cx p fuel w0 with
      | .done v w => ∃ n, (∃ w'', SameW I w w'' ∧ runP cx c.prog n { world := w0 } = .done v w'')
                      ∨ ∃ f, D f ∧ runP cx c.prog n { world := w0 } = .fail f
      | .fail (.unmodelled _) => True
      | .fail _ => ∃ n f, runP cx c.prog n { world := w0 } = .fail f
      | .outOfFuel => True) :
    match Src.runProg cx p fuel w0 with
    | .done v w => ∃ n, (∃ w', SameW I w w' ∧ Avm.run cx P n w0 = .done v w')
                    ∨ ∃ f, D f ∧ Avm.run cx P n w0 = .fail f
    | .fail (.unmodelled _) => True
    | .fail _ => ∃ n f, Avm.run cx P n w0 = .fail f
    | .outOfFuel => True := by
  revert key
  cases hr : Src.runProg cx p fuel w0 with
  | done v w =>
    intro key
    obtain ⟨n, ⟨w'', hw, hrun⟩ | ⟨f, hd, hrun⟩⟩ := key
    · obtain ⟨n', hn'⟩ := simR_sound_forward P c hk cx { world := w0 } n _ hrun (by simp)
      exact ⟨n', .inl ⟨w'', hw, hn'⟩⟩
    · obtain ⟨n', hn'⟩ := simR_sound_forward P c hk cx { world := w0 } n _ hrun (by simp)
      exact ⟨n', .inr ⟨f, hd, hn'⟩⟩
  | fail f =>
    intro key
    cases f with
    | unmodelled m => trivial
    | underflow | typeErr _ | badPc | badLabel _ | illegal _ | frame _ | logic _ =>
      obtain ⟨n, f', hrun⟩ := key
      obtain ⟨n', hn'⟩ := simR_sound_forward P c hk cx { world := w0 } n _ hrun (by simp)
      exact ⟨n', f', hn'⟩
  | outOfFuel => intro _; trivial

/-- **Composition for programs with subroutine calls** (both calling conventions).  Whenever the
    source run of the (renamed) program terminates, the real TEAL terminates with the same verdict
    and return value and a final world equal up to the representation of the scratch space — and,
    under the frame-pointer convention, up to the parameter slots (`ignOf fp p`); the only permitted
    deviation is the AVM's 1000-deep operand stack.  When the source run fails, the TEAL fails. -/
theorem compile_correct_validated_prog (version : Nat) (fp : Bool) (p : Prog) (P : Program) (c : ProgCert)
    (h : composedOk version fp p P c = true) (cx : Ctx) (w0 : World) (fuel : Nat) :
    match Src.runProg cx p fuel w0 with
    | .done v w => ∃ n, (∃ w', SameW (ignOf fp p) w w' ∧ Avm.run cx P n w0 = .done v w')
                    ∨ Avm.run cx P n w0 = .fail (.logic "stack overflow")
    | .fail (.unmodelled _) => True
    | .fail _ => ∃ n f, Avm.run cx P n w0 = .fail f
    | .outOfFuel => True := by
  simp only [composedOk, Bool.and_eq_true] at h
  obtain ⟨⟨⟨⟨hf, hm⟩, hs⟩, hcl⟩, hk⟩ := h
  have hwm : mainOkC fp p false = true := by
    simp only [fragmentOnCert, Bool.and_eq_true] at hf
    exact hf.1.1.1
  have hP := progOK_of_cert (version := version) (strict := false) cx hf hs
  have key := to_avm hk (genProg_correct_of ⟨cx, p, c.prog, version, fp, false, false⟩ hP
    (callPresent_of_cert cx hcl) (callInv_of_cert cx hf) (callEntry_plain hP rfl) (main_of_cert hm) hwm w0 fuel)
  revert key
  cases Src.runProg cx p fuel w0 with
  | done v w =>
    intro ⟨n, h⟩
    exact ⟨n, h.imp id (fun ⟨f, hf', hr⟩ => by rw [hr, hf']; rfl)⟩
  | fail f => cases f <;> (intro key; exact key)
  | outOfFuel => intro _; trivial

/-- **Composition with run-time addressed slots (stage 3, scratch-slot convention) — PARTIAL**: as
    `C02Gen.genProg_correct_dyn_partial`, the range check of the generated `loads` / `stores` is a
    permitted deviation. -/
theorem compile_correct_validated_prog_dyn_partial (version : Nat) (p : Prog) (P : Program) (c : ProgCert)
    (h : composedOk version false p P c true = true) (cx : Ctx) (w0 : World) (fuel : Nat) :
    match Src.runProg cx p fuel w0 with
    | .done v w => ∃ n, (∃ w', SameW [] w w' ∧ Avm.run cx P n w0 = .done v w')
                    ∨ Avm.run cx P n w0 = .fail (.logic "stack overflow")
                    ∨ Avm.run cx P n w0 = .fail (.logic "loads slot out of range")
                    ∨ Avm.run cx P n w0 = .fail (.logic "stores slot out of range")
    | .fail (.unmodelled _) => True
    | .fail _ => ∃ n f, Avm.run cx P n w0 = .fail f
    | .outOfFuel => True := by
  simp only [composedOk, Bool.and_eq_true] at h
  obtain ⟨⟨⟨⟨hf, hm⟩, hs⟩, hcl⟩, hk⟩ := h
  have hwm : mainOkC false p true = true := by
    simp only [fragmentOnCert, Bool.and_eq_true] at hf
    exact hf.1.1.1
  have hP := progOK_of_cert (version := version) (strict := false) cx hf hs
  have key := to_avm hk (genProg_correct_of ⟨cx, p, c.prog, version, false, true, false⟩ hP
    (callPresent_of_cert cx hcl) (callInv_scratch rfl rfl) (callEntry_plain hP rfl) (main_of_cert hm) hwm w0 fuel)
  revert key
  cases Src.runProg cx p fuel w0 with
  | done v w =>
    intro ⟨n, h⟩
    refine ⟨n, h.imp id (fun ⟨f, hf', hr⟩ => ?_)⟩
    rcases hf' with rfl | rfl | rfl
    · exact .inl hr
    · exact .inr (.inl hr)
    · exact .inr (.inr hr)
  | fail f => cases f <;> (intro key; exact key)
  | outOfFuel => intro _; trivial

/-- **Composition with by-reference parameters (stage 3, both calling conventions)**: as
    `C02Gen.genProg_correct_ref` / `genProg_correct_fp_ref` — under the by-reference discipline
    (checked by `composedOk … true true` for the main routine and the certified routines) the
    range check of the generated `loads` / `stores` cannot fail where the source run succeeds; the
    only permitted deviation is the operand-stack limit.  Under the frame-pointer convention the
    final worlds agree up to the by-value parameter slots (`ignOf true p true = allValSlots p`). -/
theorem compile_correct_validated_prog_ref (version : Nat) (fp : Bool) (p : Prog) (P : Program) (c : ProgCert)
    (h : composedOk version fp p P c true true = true) (cx : Ctx) (w0 : World) (fuel : Nat) :
    match Src.runProg cx p fuel w0 with
    | .done v w => ∃ n, (∃ w', SameW (ignOf fp p true) w w' ∧ Avm.run cx P n w0 = .done v w')
                    ∨ Avm.run cx P n w0 = .fail (.logic "stack overflow")
    | .fail (.unmodelled _) => True
    | .fail _ => ∃ n f, Avm.run cx P n w0 = .fail f
    | .outOfFuel => True := by
  simp only [composedOk, Bool.and_eq_true] at h
  obtain ⟨⟨⟨⟨hf, hm⟩, hs⟩, hcl⟩, hk⟩ := h
  have hf' := hf
  simp only [fragmentOnCert, Bool.and_eq_true, List.all_eq_true, Bool.or_eq_true, Bool.not_eq_true',
    Bool.not_true, Bool.false_or, Option.isNone_iff_eq_none] at hf'
  obtain ⟨⟨⟨hwm, _⟩, hfpp⟩, hcm, hcs⟩ := hf'
  let Q : PCtx := ⟨cx, p, c.prog, version, fp, true, true⟩
  have hP : ProgOK Q := progOK_of_cert cx hf hs
  have hT : ∀ g, (certHas c g = true ∨ findSub p g = none) → PresentT Q g := by
    intro g hg sd hsd
    rcases hg with hg | hg
    · exact hg
    · rw [hg] at hsd; cases hsd
  have hcalls : ∀ f sd, findSub p f = some sd → Present Q f → ∀ g, g ∈ callsOf sd.body → PresentT Q g := by
    intro f sd hsd hpres g hg
    have hmem : sd ∈ p.subs := List.mem_of_find?_eq_some hsd
    have hid : sd.id = f := findSub_id hsd
    rcases hcs sd hmem with h1 | h1
    · simp only [certHas, hid] at h1
      have : (c.prog.subs.lookup (subLabel f)).isSome = true := hpres
      rw [h1] at this; cases this
    · exact hT g (h1 g hg)
  have hcl' : ∀ f sd, findSub p f = some sd → Present Q f →
      ∃ l, (subK fp p sd true true).okCalls = some l ∧ ∀ g, g ∈ l → PresentT Q g := by
    intro f sd hsd hpres
    cases fp with
    | false => exact ⟨callsOf sd.body, rfl, hcalls f sd hsd hpres⟩
    | true =>
      refine ⟨okCallsOf p sd, rfl, fun g hg => hcalls f sd hsd hpres g ?_⟩
      simp only [okCallsOf, List.mem_filter] at hg
      exact hg.1
  have hsubs : ∀ f sd, findSub Q.p f = some sd → Present Q f → subOkC fp Q.p sd Q.dyn true = true :=
    fun f sd hsd hpres => subOkC_of_cert hf hsd hpres
  have hC : ValCtx p fp true (PresentT Q) := valCtx_of (P := Q) hsubs hcl'
  have hkv : ∀ X cfg K cur, RoutOK Q X cfg K cur → KV Q.p (PresentT Q) X.act K :=
    fun X cfg K cur hR => kv_of (P := Q) rfl (fun g hg => hT g (hcm g hg)) hcl' hR
  have hI : CallInv Q := by
    cases hfp : fp with
    | false => subst hfp; exact callInv_ref rfl rfl hC hkv
    | true =>
      subst hfp
      rcases hfpp with hh | ⟨hpnd, hreach⟩
      · cases hh
      · refine callInv_fp_ref (P := Q) rfl rfl hpnd hsubs ?_ hC hkv
        intro f0 sd0 hsd0 hpres0 g hg hre h hh
        have hmem0 : sd0 ∈ p.subs := List.mem_of_find?_eq_some hsd0
        have hid0 : sd0.id = f0 := findSub_id hsd0
        rcases hreach sd0 hmem0 with h1 | h1
        · simp only [certHas, hid0] at h1
          have : (c.prog.subs.lookup (subLabel f0)).isSome = true := hpres0
          rw [h1] at this; cases this
        · rcases h1 g hg with h2 | h2
          · rw [hre] at h2; cases h2
          · exact h2 h hh
  have key := to_avm hk (genProg_correct_of Q hP (callPresent_of_cert cx hcl) hI
    (callEntry_ref hP rfl hC hkv) (main_of_cert hm) hwm w0 fuel)
  revert key
  cases Src.runProg cx p fuel w0 with
  | done v w =>
    intro ⟨n, h⟩
    exact ⟨n, h.imp id (fun ⟨f, hf', hr⟩ => by rw [hr, hf']; rfl)⟩
  | fail f => cases f <;> (intro key; exact key)
  | outOfFuel => intro _; trivial

/-- the form the driver evaluates: `validateComposed` answers `true` -/
theorem compile_correct_validateComposed (version : Nat) (fp : Bool) (p0 : Prog) (P : Program)
    (h : validateComposed version fp p0 P = .ok true) :
    ∃ p c, renamedProg version fp p0 P = .ok p ∧ composedOk version fp p P c = true ∧
      ∀ (cx : Ctx) (w0 : World) (fuel : Nat),
        match Src.runProg cx p fuel w0 with
        | .done v w => ∃ n, (∃ w', SameW (ignOf fp p) w w' ∧ Avm.run cx P n w0 = .done v w')
                        ∨ Avm.run cx P n w0 = .fail (.logic "stack overflow")
        | .fail (.unmodelled _) => True
        | .fail _ => ∃ n f, Avm.run cx P n w0 = .fail f
        | .outOfFuel => True := by
  unfold validateComposed at h
  cases hp : renamedProg version fp p0 P with
  | error e => rw [hp] at h; cases h
  | ok p =>
    rw [hp] at h
    cases hc : validateProgCert version fp p0 P with
    | error e => rw [hc] at h; cases h
    | ok cv =>
      obtain ⟨c, v⟩ := cv
      rw [hc] at h
      simp only [bind, Except.bind, pure, Except.pure, Except.ok.injEq] at h
      exact ⟨p, c, rfl, h, fun cx w0 fuel => compile_correct_validated_prog version fp p P c h cx w0 fuel⟩

theorem compile_correct_composedB (version : Nat) (fp : Bool) (p0 : Prog) (P : Program)
    (h : composedB version fp p0 P = true) :
    ∃ p, renamedProg version fp p0 P = .ok p ∧
      ∀ (cx : Ctx) (w0 : World) (fuel : Nat),
        match Src.runProg cx p fuel w0 with
        | .done v w => ∃ n, (∃ w', SameW (ignOf fp p) w w' ∧ Avm.run cx P n w0 = .done v w')
                        ∨ Avm.run cx P n w0 = .fail (.logic "stack overflow")
        | .fail (.unmodelled _) => True
        | .fail _ => ∃ n f, Avm.run cx P n w0 = .fail f
        | .outOfFuel => True := by
  unfold composedB at h
  cases hv : validateComposed version fp p0 P with
  | error e => rw [hv] at h; cases h
  | ok b =>
    rw [hv] at h
    simp only [] at h
    subst h
    obtain ⟨p, c, hp, _, hall⟩ := compile_correct_validateComposed version fp p0 P hv
    exact ⟨p, hp, hall⟩

/-! ### Non-vacuity: real compiler output (PyTeal, version 6, `compileTeal` of the two programs of
    `Proofs/C02Gen.lean` written with automatically numbered variables), transcribed line by line -/

/-- `f(a, b) = a - b`; main `f(10, 3) + 1`; variables 256, 257 are automatically numbered -/
def exProg0 : Prog :=
  { subs := [{ id := 0, name := "f", params := [(.val, 256), (.val, 257)], hasRet := true,
               body := .prim "-" [] [.load 256, .load 257], locals := [256, 257], reenters := [] }],
    main := .prim "+" [] [.call 0 [.int 10, .int 3], .int 1] }

def exTeal : Program := #[
  ⟨⟨"#pragma", ["version", "6"]⟩, .pragma "version" "6"⟩,
  ⟨⟨"int", ["10"]⟩, .pushInt 10⟩,
  ⟨⟨"int", ["3"]⟩, .pushInt 3⟩,
  ⟨⟨"callsub", ["f_0"]⟩, .callsub "f_0"⟩,
  ⟨⟨"int", ["1"]⟩, .pushInt 1⟩,
  ⟨⟨"+", []⟩, .prim "+" []⟩,
  ⟨⟨"return", []⟩, .ret⟩,
  ⟨⟨"f_0:", []⟩, .label "f_0"⟩,
  ⟨⟨"store", ["1"]⟩, .store 1⟩,
  ⟨⟨"store", ["0"]⟩, .store 0⟩,
  ⟨⟨"load", ["0"]⟩, .load 0⟩,
  ⟨⟨"load", ["1"]⟩, .load 1⟩,
  ⟨⟨"-", []⟩, .prim "-" []⟩,
  ⟨⟨"retsub", []⟩, .retsub⟩]

set_option maxRecDepth 100000 in
theorem exTeal_composed : composedB 6 false exProg0 exTeal = true := by decide +kernel

/-- recursive factorial with a local live across the re-entrant call (spill code `uncover 2` /
    `cover 2` in the real TEAL) -/
def factProg0 : Prog :=
  { subs := [{ id := 0, name := "fact", params := [(.val, 300)], hasRet := true,
               body := .seq [.store 301 (.load 300),
                             .ite (.prim "==" [] [.load 300, .int 0]) (.ret (some (.int 1))) none,
                             .prim "*" [] [.call 0 [.prim "-" [] [.load 300, .int 1]], .load 301]],
               locals := [300, 301], reenters := [0] }],
    main := .call 0 [.int 5] }

def factTeal : Program := #[
  ⟨⟨"#pragma", ["version", "6"]⟩, .pragma "version" "6"⟩,
  ⟨⟨"int", ["5"]⟩, .pushInt 5⟩,
  ⟨⟨"callsub", ["fact_0"]⟩, .callsub "fact_0"⟩,
  ⟨⟨"return", []⟩, .ret⟩,
  ⟨⟨"fact_0:", []⟩, .label "fact_0"⟩,
  ⟨⟨"store", ["0"]⟩, .store 0⟩,
  ⟨⟨"load", ["0"]⟩, .load 0⟩,
  ⟨⟨"store", ["1"]⟩, .store 1⟩,
  ⟨⟨"load", ["0"]⟩, .load 0⟩,
  ⟨⟨"int", ["0"]⟩, .pushInt 0⟩,
  ⟨⟨"==", []⟩, .prim "==" []⟩,
  ⟨⟨"bz", ["fact_0_l2"]⟩, .bz "fact_0_l2"⟩,
  ⟨⟨"int", ["1"]⟩, .pushInt 1⟩,
  ⟨⟨"retsub", []⟩, .retsub⟩,
  ⟨⟨"fact_0_l2:", []⟩, .label "fact_0_l2"⟩,
  ⟨⟨"load", ["0"]⟩, .load 0⟩,
  ⟨⟨"int", ["1"]⟩, .pushInt 1⟩,
  ⟨⟨"-", []⟩, .prim "-" []⟩,
  ⟨⟨"load", ["0"]⟩, .load 0⟩,
  ⟨⟨"load", ["1"]⟩, .load 1⟩,
  ⟨⟨"uncover", ["2"]⟩, .prim "uncover" ["2"]⟩,
  ⟨⟨"callsub", ["fact_0"]⟩, .callsub "fact_0"⟩,
  ⟨⟨"cover", ["2"]⟩, .prim "cover" ["2"]⟩,
  ⟨⟨"store", ["1"]⟩, .store 1⟩,
  ⟨⟨"store", ["0"]⟩, .store 0⟩,
  ⟨⟨"load", ["1"]⟩, .load 1⟩,
  ⟨⟨"*", []⟩, .prim "*" []⟩,
  ⟨⟨"retsub", []⟩, .retsub⟩]

set_option maxRecDepth 100000 in
theorem factTeal_composed : composedB 6 false factProg0 factTeal = true := by decide +kernel

/-- hence the real TEAL computes what the (renamed) programs denote, on every context and world,
    without running it -/
example : ∃ p, renamedProg 6 false factProg0 factTeal = .ok p ∧
    ∀ (cx : Ctx) (w0 : World) (fuel : Nat),
      match Src.runProg cx p fuel w0 with
      | .done v w => ∃ n, (∃ w', SameW (ignOf false p) w w' ∧ Avm.run cx factTeal n w0 = .done v w')
                      ∨ Avm.run cx factTeal n w0 = .fail (.logic "stack overflow")
      | .fail (.unmodelled _) => True
      | .fail _ => ∃ n f, Avm.run cx factTeal n w0 = .fail f
      | .outOfFuel => True :=
  compile_correct_composedB 6 false factProg0 factTeal factTeal_composed

/-- the link checks bite: the same TEAL against a program whose routine subtracts the other way
    round is rejected -/
example : composedB 6 false { exProg0 with subs := exProg0.subs.map (fun sd =>
    { sd with body := .prim "-" [] [.load 257, .load 256] }) } exTeal = false := by decide +kernel

/-- the same recursive factorial compiled by PyTeal for version 8 (frame-pointer convention:
    `proto 1 1`, the parameter is read with `frame_dig -1`, only the local `m` is spilled) -/
def fact8Teal : Program := #[
  ⟨⟨"#pragma", ["version", "8"]⟩, .pragma "version" "8"⟩,
  ⟨⟨"int", ["5"]⟩, .pushInt 5⟩,
  ⟨⟨"callsub", ["fact_0"]⟩, .callsub "fact_0"⟩,
  ⟨⟨"return", []⟩, .ret⟩,
  ⟨⟨"fact_0:", []⟩, .label "fact_0"⟩,
  ⟨⟨"proto", ["1", "1"]⟩, .proto 1 1⟩,
  ⟨⟨"frame_dig", ["-1"]⟩, .frameDig (-1)⟩,
  ⟨⟨"store", ["0"]⟩, .store 0⟩,
  ⟨⟨"frame_dig", ["-1"]⟩, .frameDig (-1)⟩,
  ⟨⟨"int", ["0"]⟩, .pushInt 0⟩,
  ⟨⟨"==", []⟩, .prim "==" []⟩,
  ⟨⟨"bz", ["fact_0_l2"]⟩, .bz "fact_0_l2"⟩,
  ⟨⟨"int", ["1"]⟩, .pushInt 1⟩,
  ⟨⟨"retsub", []⟩, .retsub⟩,
  ⟨⟨"fact_0_l2:", []⟩, .label "fact_0_l2"⟩,
  ⟨⟨"frame_dig", ["-1"]⟩, .frameDig (-1)⟩,
  ⟨⟨"int", ["1"]⟩, .pushInt 1⟩,
  ⟨⟨"-", []⟩, .prim "-" []⟩,
  ⟨⟨"load", ["0"]⟩, .load 0⟩,
  ⟨⟨"swap", []⟩, .prim "swap" []⟩,
  ⟨⟨"callsub", ["fact_0"]⟩, .callsub "fact_0"⟩,
  ⟨⟨"swap", []⟩, .prim "swap" []⟩,
  ⟨⟨"store", ["0"]⟩, .store 0⟩,
  ⟨⟨"load", ["0"]⟩, .load 0⟩,
  ⟨⟨"*", []⟩, .prim "*" []⟩,
  ⟨⟨"retsub", []⟩, .retsub⟩]

set_option maxRecDepth 100000 in
theorem fact8Teal_composed : composedB 8 true factProg0 fact8Teal = true := by decide +kernel

example : ∃ p, renamedProg 8 true factProg0 fact8Teal = .ok p ∧
    ∀ (cx : Ctx) (w0 : World) (fuel : Nat),
      match Src.runProg cx p fuel w0 with
      | .done v w => ∃ n, (∃ w', SameW (ignOf true p) w w' ∧ Avm.run cx fact8Teal n w0 = .done v w')
                      ∨ Avm.run cx fact8Teal n w0 = .fail (.logic "stack overflow")
      | .fail (.unmodelled _) => True
      | .fail _ => ∃ n f, Avm.run cx fact8Teal n w0 = .fail f
      | .outOfFuel => True :=
  compile_correct_composedB 8 true factProg0 fact8Teal fact8Teal_composed

/-! ### by-reference parameters: real compiler output for both conventions -/

/-- the driver's form of `compile_correct_validated_prog_ref` -/
theorem compile_correct_composedB_ref (version : Nat) (fp : Bool) (p0 : Prog) (P : Program)
    (h : composedB version fp p0 P true true = true) :
    ∃ p, renamedProg version fp p0 P = .ok p ∧
      ∀ (cx : Ctx) (w0 : World) (fuel : Nat),
        match Src.runProg cx p fuel w0 with
        | .done v w => ∃ n, (∃ w', SameW (ignOf fp p true) w w' ∧ Avm.run cx P n w0 = .done v w')
                        ∨ Avm.run cx P n w0 = .fail (.logic "stack overflow")
        | .fail (.unmodelled _) => True
        | .fail _ => ∃ n f, Avm.run cx P n w0 = .fail f
        | .outOfFuel => True := by
  unfold composedB at h
  cases hv : validateComposed version fp p0 P true true with
  | error e => rw [hv] at h; cases h
  | ok b =>
    rw [hv] at h
    simp only [] at h
    subst h
    unfold validateComposed at hv
    cases hp : renamedProg version fp p0 P with
    | error e => rw [hp] at hv; cases hv
    | ok p =>
      rw [hp] at hv
      cases hc : validateProgCert version fp p0 P with
      | error e => rw [hc] at hv; cases hv
      | ok cv =>
        obtain ⟨c, v⟩ := cv
        rw [hc] at hv
        simp only [bind, Except.bind, pure, Except.pure, Except.ok.injEq] at hv
        exact ⟨p, rfl, fun cx w0 fuel => compile_correct_validated_prog_ref version fp p P c hv cx w0 fuel⟩

/-- `inc(x: ScratchVar) = x.store(x.load() + Int(1))`;  main `v.store(7); inc(v); Return(v.load())`
    (variables 256 = `v`, 257 = the parameter cell are automatically numbered) -/
def incProg0 : Prog :=
  { subs := [{ id := 0, name := "inc", params := [(.ref, 257)], hasRet := false,
               body := .prim "vstores" [] [.load 257, .prim "+" [] [.prim "vloads" [] [.load 257], .int 1]],
               locals := [257], reenters := [] }],
    main := .seq [.store 256 (.int 7), .call 0 [.index 256], .ret (some (.load 256))] }

/-- PyTeal, version 6 (scratch-slot convention): the reference is the slot number `int 0` -/
def incTeal : Program := #[
  ⟨⟨"#pragma", ["version", "6"]⟩, .pragma "version" "6"⟩,
  ⟨⟨"int", ["7"]⟩, .pushInt 7⟩,
  ⟨⟨"store", ["0"]⟩, .store 0⟩,
  ⟨⟨"int", ["0"]⟩, .pushInt 0⟩,
  ⟨⟨"callsub", ["inc_0"]⟩, .callsub "inc_0"⟩,
  ⟨⟨"load", ["0"]⟩, .load 0⟩,
  ⟨⟨"return", []⟩, .ret⟩,
  ⟨⟨"inc_0:", []⟩, .label "inc_0"⟩,
  ⟨⟨"store", ["1"]⟩, .store 1⟩,
  ⟨⟨"load", ["1"]⟩, .load 1⟩,
  ⟨⟨"load", ["1"]⟩, .load 1⟩,
  ⟨⟨"loads", []⟩, .prim "loads" []⟩,
  ⟨⟨"int", ["1"]⟩, .pushInt 1⟩,
  ⟨⟨"+", []⟩, .prim "+" []⟩,
  ⟨⟨"stores", []⟩, .prim "stores" []⟩,
  ⟨⟨"retsub", []⟩, .retsub⟩]

set_option maxRecDepth 100000 in
theorem incTeal_composed : composedB 6 false incProg0 incTeal true true = true := by decide +kernel

/-- PyTeal, version 8 (frame-pointer convention): `proto 1 0; frame_dig -1; store 1` copies the
    reference from the frame into the parameter's scratch slot -/
def inc8Teal : Program := #[
  ⟨⟨"#pragma", ["version", "8"]⟩, .pragma "version" "8"⟩,
  ⟨⟨"int", ["7"]⟩, .pushInt 7⟩,
  ⟨⟨"store", ["0"]⟩, .store 0⟩,
  ⟨⟨"int", ["0"]⟩, .pushInt 0⟩,
  ⟨⟨"callsub", ["inc_0"]⟩, .callsub "inc_0"⟩,
  ⟨⟨"load", ["0"]⟩, .load 0⟩,
  ⟨⟨"return", []⟩, .ret⟩,
  ⟨⟨"inc_0:", []⟩, .label "inc_0"⟩,
  ⟨⟨"proto", ["1", "0"]⟩, .proto 1 0⟩,
  ⟨⟨"frame_dig", ["-1"]⟩, .frameDig (-1)⟩,
  ⟨⟨"store", ["1"]⟩, .store 1⟩,
  ⟨⟨"load", ["1"]⟩, .load 1⟩,
  ⟨⟨"load", ["1"]⟩, .load 1⟩,
  ⟨⟨"loads", []⟩, .prim "loads" []⟩,
  ⟨⟨"int", ["1"]⟩, .pushInt 1⟩,
  ⟨⟨"+", []⟩, .prim "+" []⟩,
  ⟨⟨"stores", []⟩, .prim "stores" []⟩,
  ⟨⟨"retsub", []⟩, .retsub⟩]

set_option maxRecDepth 100000 in
theorem inc8Teal_composed : composedB 8 true incProg0 inc8Teal true true = true := by decide +kernel

/-- hence both real TEAL texts compute what the (renamed) program denotes, on every context and
    world; outside the discipline flags the same inputs are only covered by the partial theorem -/
example : ∃ p, renamedProg 8 true incProg0 inc8Teal = .ok p ∧
    ∀ (cx : Ctx) (w0 : World) (fuel : Nat),
      match Src.runProg cx p fuel w0 with
      | .done v w => ∃ n, (∃ w', SameW (ignOf true p true) w w' ∧ Avm.run cx inc8Teal n w0 = .done v w')
                      ∨ Avm.run cx inc8Teal n w0 = .fail (.logic "stack overflow")
      | .fail (.unmodelled _) => True
      | .fail _ => ∃ n f, Avm.run cx inc8Teal n w0 = .fail f
      | .outOfFuel => True :=
  compile_correct_composedB_ref 8 true incProg0 inc8Teal inc8Teal_composed

set_option maxRecDepth 100000 in
example : composedB 6 false incProg0 incTeal = false := by decide +kernel

end PyTealV.Proofs.C02Compile
