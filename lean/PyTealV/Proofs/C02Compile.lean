/-
  C02 — composition: for a program with subroutines whose real TEAL `P` passed the whole-program
  certificate check (`Check.checkCert`, sound by `Proofs/SimR.lean`) against the routine graphs of
  the (renamed) source program `p`, the real TEAL computes what the program denotes, on every
  context, every initial state and every run length.  Analogue of
  `Proofs.C01.compile_correct_validated` for call graphs (scratch-slot convention, by-value
  parameters, recursion allowed).

  The certificate holds the routines *reachable* from the main routine only, so the semantic half
  (`C02Gen.sound_all`) is used with `ProgOK` restricted to the routines that have a graph and with
  `CallPresent` obtained from the decidable closure check `certClosed`.

  α-renaming: `p` is the program AFTER `validateProg`'s renaming of source variables to the slots of
  the real TEAL (`Check.renamedProg`; the bindings are checked to be a bijection).  Invariance of
  `Src.runProg` under bijective renaming of variables is NOT proved here (nor in C01): the theorem
  speaks about the renamed program.
-/
import PyTealV.Proofs.C02Gen
import PyTealV.Check.ComposeProg
namespace PyTealV.Proofs.C02Compile
open PyTealV PyTealV.Avm PyTealV.Src PyTealV.Comp PyTealV.Check PyTealV.Models.FragmentR
open PyTealV.Proofs.C02Gen
open PyTealV.Proofs.Shape (Blk)

theorem lookup_mem {α : Type} (l : List (String × α)) (k : String) (v : α) (h : l.lookup k = some v) :
    ∃ k', (k', v) ∈ l := by
  induction l with
  | nil => cases h
  | cons x xs ih =>
    obtain ⟨k0, v0⟩ := x
    simp only [List.lookup_cons] at h
    split at h
    · cases h; exact ⟨k0, List.mem_cons_self ..⟩
    · obtain ⟨k', hk'⟩ := ih h; exact ⟨k', List.mem_cons_of_mem _ hk'⟩

/-- every graph of the certificate program only calls routines of the certificate program -/
theorem graphOf_callsOk {c : ProgCert} (hcl : certClosed c = true) {r : RId} {G : Graph}
    (hG : c.prog.graphOf r = some G) : graphCallsOk c.prog.subs G = true := by
  simp only [certClosed, Bool.and_eq_true, List.all_eq_true] at hcl
  cases r with
  | none =>
    simp only [PProg.graphOf, Option.some.injEq] at hG
    subst hG
    exact hcl.1
  | some l =>
    simp only [PProg.graphOf, Option.map_eq_some_iff] at hG
    obtain ⟨⟨G', s⟩, hl, rfl⟩ := hG
    obtain ⟨k', hk'⟩ := lookup_mem _ _ _ hl
    exact hcl.2 _ hk'

theorem callPresent_of_cert {version : Nat} {p : Prog} {c : ProgCert} (cx : Ctx) (hcl : certClosed c = true) :
    CallPresent ⟨cx, p, c.prog, version⟩ := by
  intro X cfg K cur hR f ce cb k _ hb
  have hG := X.hG
  rw [hR.pg] at hG
  have hok := graphOf_callsOk hcl hG
  simp only [graphCallsOk, List.all_eq_true] at hok
  unfold Blk at hb
  have hblk := hok _ (Array.mem_toList_iff.mpr (Array.mem_of_getElem? hb))
  have hmem : Instr.callsub (subLabel f) ∈ callOps cfg f ce := by
    unfold callOps
    simp
  exact hblk _ hmem

theorem progOK_of_cert {version : Nat} {p : Prog} {c : ProgCert} (cx : Ctx)
    (hf : fragmentOnCert p c = true) (hs : certSubsOk version p c = true) :
    ProgOK ⟨cx, p, c.prog, version⟩ := by
  intro f sd hsd hpres
  have hmem : sd ∈ p.subs := List.mem_of_find?_eq_some hsd
  have hid : sd.id = f := by
    have := List.find?_some hsd
    simpa using this
  simp only [certSubsOk, List.all_eq_true] at hs
  have h1 := hs sd hmem
  rw [hid] at h1
  simp only [Present] at hpres
  cases hl : c.prog.subs.lookup (subLabel f) with
  | none => rw [hl] at hpres; cases hpres
  | some e =>
    obtain ⟨G, s⟩ := e
    rw [hl] at h1
    simp only [] at h1
    cases hr : genSub version false false p sd (spillSlots sd) with
    | error e => rw [hr] at h1; cases h1
    | ok r =>
      rw [hr] at h1
      simp only [Bool.and_eq_true, decide_eq_true_eq, beq_iff_eq] at h1
      obtain ⟨rfl, rfl⟩ := h1
      simp only [fragmentOnCert, Bool.and_eq_true, List.all_eq_true, Bool.or_eq_true, Bool.not_eq_true'] at hf
      have hso : subOk p sd = true := by
        rcases hf.2 sd hmem with h | h
        · rw [hid, hl] at h; cases h
        · exact h
      exact subOK_of_genSub (P := ⟨cx, p, c.prog, version⟩) hr hl hso

/-- **Composition for programs with subroutine calls.**  Whenever the source run of the (renamed)
    program terminates, the real TEAL terminates with the same verdict and return value and a
    final world equal up to the representation of the scratch space; the only permitted deviation
    is the AVM's 1000-deep operand stack.  When the source run fails, the TEAL fails. -/
theorem compile_correct_validated_prog (version : Nat) (p : Prog) (P : Program) (c : ProgCert)
    (h : composedOk version p P c = true) (cx : Ctx) (w0 : World) (fuel : Nat) :
    match Src.runProg cx p fuel w0 with
    | .done v w => ∃ n, (∃ w', SameW w w' ∧ Avm.run cx P n w0 = .done v w')
                    ∨ Avm.run cx P n w0 = .fail (.logic "stack overflow")
    | .fail (.unmodelled _) => True
    | .fail _ => ∃ n f, Avm.run cx P n w0 = .fail f
    | .outOfFuel => True := by
  simp only [composedOk, Bool.and_eq_true] at h
  obtain ⟨⟨⟨⟨hf, hm⟩, hs⟩, hcl⟩, hk⟩ := h
  have hwm : mainOk p = true := by
    simp only [fragmentOnCert, Bool.and_eq_true] at hf
    exact hf.1
  have hmain : c.prog.main[0]? = some ({} : Block) ∧
      ShapeR c.prog.main { version := version, inSub := false, callees := calleesOf p, markIndex := false }
        (if hasReturn p.main then p.main else .ret (some p.main)) c.prog.start 0 none := by
    simp only [certMainOk] at hm
    cases hr : genMainR version false p with
    | error e => rw [hr] at hm; cases hm
    | ok r =>
      rw [hr] at hm
      simp only [Bool.and_eq_true, decide_eq_true_eq, beq_iff_eq] at hm
      have := genMainR_spec hr
      rw [hm.1, hm.2] at this
      exact this
  rcases hev : eval ⟨cx, p, none⟩ fuel p.main w0 with ⟨r, w'⟩
  have key := runProg_of_final hev
    (main_graph_of cx (progOK_of_cert cx hf hs) (callPresent_of_cert cx hcl) hmain hwm w0 fuel hev)
  revert key
  cases hr : Src.runProg cx p fuel w0 with
  | done v w =>
    intro key
    obtain ⟨n, ⟨w'', hw, hrun⟩ | hrun⟩ := key
    · obtain ⟨n', hn'⟩ := simR_sound_forward P c hk cx { world := w0 } n _ hrun (by simp)
      exact ⟨n', .inl ⟨w'', hw, hn'⟩⟩
    · obtain ⟨n', hn'⟩ := simR_sound_forward P c hk cx { world := w0 } n _ hrun (by simp)
      exact ⟨n', .inr hn'⟩
  | fail f =>
    intro key
    cases f with
    | unmodelled m => trivial
    | underflow | typeErr _ | badPc | badLabel _ | illegal _ | frame _ | logic _ =>
      obtain ⟨n, f', hrun⟩ := key
      obtain ⟨n', hn'⟩ := simR_sound_forward P c hk cx { world := w0 } n _ hrun (by simp)
      exact ⟨n', f', hn'⟩
  | outOfFuel => intro _; trivial

/-- the form the driver evaluates: `validateComposed` answers `true` -/
theorem compile_correct_validateComposed (version : Nat) (p0 : Prog) (P : Program)
    (h : validateComposed version p0 P = .ok true) :
    ∃ p c, renamedProg version false p0 P = .ok p ∧ composedOk version p P c = true ∧
      ∀ (cx : Ctx) (w0 : World) (fuel : Nat),
        match Src.runProg cx p fuel w0 with
        | .done v w => ∃ n, (∃ w', SameW w w' ∧ Avm.run cx P n w0 = .done v w')
                        ∨ Avm.run cx P n w0 = .fail (.logic "stack overflow")
        | .fail (.unmodelled _) => True
        | .fail _ => ∃ n f, Avm.run cx P n w0 = .fail f
        | .outOfFuel => True := by
  unfold validateComposed at h
  cases hp : renamedProg version false p0 P with
  | error e => rw [hp] at h; cases h
  | ok p =>
    rw [hp] at h
    cases hc : validateProgCert version false p0 P with
    | error e => rw [hc] at h; cases h
    | ok cv =>
      obtain ⟨c, v⟩ := cv
      rw [hc] at h
      simp only [bind, Except.bind, pure, Except.pure, Except.ok.injEq] at h
      exact ⟨p, c, rfl, h, fun cx w0 fuel => compile_correct_validated_prog version p P c h cx w0 fuel⟩

theorem compile_correct_composedB (version : Nat) (p0 : Prog) (P : Program) (h : composedB version p0 P = true) :
    ∃ p, renamedProg version false p0 P = .ok p ∧
      ∀ (cx : Ctx) (w0 : World) (fuel : Nat),
        match Src.runProg cx p fuel w0 with
        | .done v w => ∃ n, (∃ w', SameW w w' ∧ Avm.run cx P n w0 = .done v w')
                        ∨ Avm.run cx P n w0 = .fail (.logic "stack overflow")
        | .fail (.unmodelled _) => True
        | .fail _ => ∃ n f, Avm.run cx P n w0 = .fail f
        | .outOfFuel => True := by
  unfold composedB at h
  cases hv : validateComposed version p0 P with
  | error e => rw [hv] at h; cases h
  | ok b =>
    rw [hv] at h
    simp only [] at h
    subst h
    obtain ⟨p, c, hp, _, hall⟩ := compile_correct_validateComposed version p0 P hv
    exact ⟨p, hp, hall⟩

/-! ### Non-vacuity: real compiler output (PyTeal, version 6, `compileTeal` of the two programs of
    `Proofs/C02Gen.lean` written with automatically numbered variables), transcribed line by line -/

/-- `f(a, b) = a - b`; main `f(10, 3) + 1`; variables 256, 257 are automatically numbered -/
def exProg0 : Prog :=
  { subs := [{ id := 0, name := "f", params := [(.val, 256), (.val, 257)], hasRet := true,
               body := .prim "-" [] [.load 256, .load 257], locals := [256, 257], reenters := [] }],
    main := .prim "+" [] [.call 0 [.int 10, .int 3], .int 1] }

def exTeal : Program := #[
  ⟨⟨"#pragma", ["version", "6"]⟩, .pragma "version" "6"⟩,
  ⟨⟨"int", ["10"]⟩, .pushInt 10⟩,
  ⟨⟨"int", ["3"]⟩, .pushInt 3⟩,
  ⟨⟨"callsub", ["f_0"]⟩, .callsub "f_0"⟩,
  ⟨⟨"int", ["1"]⟩, .pushInt 1⟩,
  ⟨⟨"+", []⟩, .prim "+" []⟩,
  ⟨⟨"return", []⟩, .ret⟩,
  ⟨⟨"f_0:", []⟩, .label "f_0"⟩,
  ⟨⟨"store", ["1"]⟩, .store 1⟩,
  ⟨⟨"store", ["0"]⟩, .store 0⟩,
  ⟨⟨"load", ["0"]⟩, .load 0⟩,
  ⟨⟨"load", ["1"]⟩, .load 1⟩,
  ⟨⟨"-", []⟩, .prim "-" []⟩,
  ⟨⟨"retsub", []⟩, .retsub⟩]

set_option maxRecDepth 100000 in
theorem exTeal_composed : composedB 6 exProg0 exTeal = true := by decide +kernel

/-- recursive factorial with a local live across the re-entrant call (spill code `uncover 2` /
    `cover 2` in the real TEAL) -/
def factProg0 : Prog :=
  { subs := [{ id := 0, name := "fact", params := [(.val, 300)], hasRet := true,
               body := .seq [.store 301 (.load 300),
                             .ite (.prim "==" [] [.load 300, .int 0]) (.ret (some (.int 1))) none,
                             .prim "*" [] [.call 0 [.prim "-" [] [.load 300, .int 1]], .load 301]],
               locals := [300, 301], reenters := [0] }],
    main := .call 0 [.int 5] }

def factTeal : Program := #[
  ⟨⟨"#pragma", ["version", "6"]⟩, .pragma "version" "6"⟩,
  ⟨⟨"int", ["5"]⟩, .pushInt 5⟩,
  ⟨⟨"callsub", ["fact_0"]⟩, .callsub "fact_0"⟩,
  ⟨⟨"return", []⟩, .ret⟩,
  ⟨⟨"fact_0:", []⟩, .label "fact_0"⟩,
  ⟨⟨"store", ["0"]⟩, .store 0⟩,
  ⟨⟨"load", ["0"]⟩, .load 0⟩,
  ⟨⟨"store", ["1"]⟩, .store 1⟩,
  ⟨⟨"load", ["0"]⟩, .load 0⟩,
  ⟨⟨"int", ["0"]⟩, .pushInt 0⟩,
  ⟨⟨"==", []⟩, .prim "==" []⟩,
  ⟨⟨"bz", ["fact_0_l2"]⟩, .bz "fact_0_l2"⟩,
  ⟨⟨"int", ["1"]⟩, .pushInt 1⟩,
  ⟨⟨"retsub", []⟩, .retsub⟩,
  ⟨⟨"fact_0_l2:", []⟩, .label "fact_0_l2"⟩,
  ⟨⟨"load", ["0"]⟩, .load 0⟩,
  ⟨⟨"int", ["1"]⟩, .pushInt 1⟩,
  ⟨⟨"-", []⟩, .prim "-" []⟩,
  ⟨⟨"load", ["0"]⟩, .load 0⟩,
  ⟨⟨"load", ["1"]⟩, .load 1⟩,
  ⟨⟨"uncover", ["2"]⟩, .prim "uncover" ["2"]⟩,
  ⟨⟨"callsub", ["fact_0"]⟩, .callsub "fact_0"⟩,
  ⟨⟨"cover", ["2"]⟩, .prim "cover" ["2"]⟩,
  ⟨⟨"store", ["1"]⟩, .store 1⟩,
  ⟨⟨"store", ["0"]⟩, .store 0⟩,
  ⟨⟨"load", ["1"]⟩, .load 1⟩,
  ⟨⟨"*", []⟩, .prim "*" []⟩,
  ⟨⟨"retsub", []⟩, .retsub⟩]

set_option maxRecDepth 100000 in
theorem factTeal_composed : composedB 6 factProg0 factTeal = true := by decide +kernel

/-- hence the real TEAL computes what the (renamed) programs denote, on every context and world,
    without running it -/
example : ∃ p, renamedProg 6 false factProg0 factTeal = .ok p ∧
    ∀ (cx : Ctx) (w0 : World) (fuel : Nat),
      match Src.runProg cx p fuel w0 with
      | .done v w => ∃ n, (∃ w', SameW w w' ∧ Avm.run cx factTeal n w0 = .done v w')
                      ∨ Avm.run cx factTeal n w0 = .fail (.logic "stack overflow")
      | .fail (.unmodelled _) => True
      | .fail _ => ∃ n f, Avm.run cx factTeal n w0 = .fail f
      | .outOfFuel => True :=
  compile_correct_composedB 6 factProg0 factTeal factTeal_composed

/-- the link checks bite: the same TEAL against a program whose routine subtracts the other way
    round is rejected -/
example : composedB 6 { exProg0 with subs := exProg0.subs.map (fun sd =>
    { sd with body := .prim "-" [] [.load 257, .load 256] }) } exTeal = false := by decide +kernel

end PyTealV.Proofs.C02Compile
