/-
  C05, part 2: typing of stack segments, the context / scratch invariants, soundness of the
  field-dependent and the structural opcodes, and `primT_sound` (abstract `primT` vs `execPrim`).
-/
import PyTealV.Proofs.C05Prim
namespace PyTealV.Proofs.C05
open PyTealV PyTealV.Avm PyTealV.Check.StackCheck

/-! ### Abstract types -/

theorem hasTy_le {v : Val} {t t' : ATy} (h : hasTy v t) (hl : t.le t' = true) : hasTy v t' := by
  cases v <;> cases t <;> cases t' <;> simp_all [ATy.le, hasTy]

theorem hasTy_join_left {v : Val} {t t' : ATy} (h : hasTy v t) : hasTy v (t.join t') := by
  cases v <;> cases t <;> cases t' <;> simp_all [ATy.join, hasTy]

theorem hasTy_join_right {v : Val} {t t' : ATy} (h : hasTy v t') : hasTy v (t.join t') := by
  cases v <;> cases t <;> cases t' <;> simp_all [ATy.join, hasTy]

theorem hasTy_u_of_u {n m : Nat} {t : ATy} (h : hasTy (.u n) t) : hasTy (.u m) t := by
  cases t <;> simp_all [hasTy]

theorem hasTy_b_of_b {x y : Bytes} {t : ATy} (h : hasTy (.b x) t) : hasTy (.b y) t := by
  cases t <;> simp_all [hasTy]

/-- a value of a type compatible with `uint64` that is a byte string has abstract type `any` -/
theorem any_of_b_compat_u {x : Bytes} {t : ATy} (h : hasTy (.b x) t) (hc : t.compat .uint64 = true) :
    t.isAny = true := by
  cases t <;> simp_all [hasTy, ATy.compat, ATy.isAny]

theorem hasTy_of_compat {v : Val} {t q : ATy} (h : hasTy v t) (hc : t.compat q = true)
    (hn : t.isAny = false) : hasTy v q := by
  cases v <;> cases t <;> cases q <;> simp_all [hasTy, ATy.compat, ATy.isAny]

/-! ### Typed stack segments -/

theorem TysOK_length : ∀ {vs : List Val} {ts : List ATy}, TysOK vs ts → vs.length = ts.length
  | [], [], _ => rfl
  | _ :: vs, _ :: ts, h => by simp [TysOK_length (vs := vs) (ts := ts) h.2]
  | [], _ :: _, h => h.elim
  | _ :: _, [], h => h.elim

theorem TysOK_append : ∀ {a : List Val} {ta : List ATy} {b : List Val} {tb : List ATy},
    TysOK a ta → TysOK b tb → TysOK (a ++ b) (ta ++ tb)
  | [], [], _, _, _, h => h
  | _ :: a, _ :: ta, _, _, h1, h2 => ⟨h1.1, TysOK_append (a := a) (ta := ta) h1.2 h2⟩
  | [], _ :: _, _, _, h, _ => h.elim
  | _ :: _, [], _, _, h, _ => h.elim

/-- a segment typed by `ta ++ tb` splits accordingly -/
theorem TysOK_split : ∀ {vs : List Val} {ta tb : List ATy}, TysOK vs (ta ++ tb) →
    ∃ a b, vs = a ++ b ∧ TysOK a ta ∧ TysOK b tb
  | vs, [], tb, h => ⟨[], vs, rfl, trivial, h⟩
  | [], _ :: _, _, h => h.elim
  | v :: vs, t :: ta, tb, h => by
    obtain ⟨a, b, e, h1, h2⟩ := TysOK_split (vs := vs) (ta := ta) (tb := tb) h.2
    exact ⟨v :: a, b, by simp [e], ⟨h.1, h1⟩, h2⟩

theorem TysOK_take : ∀ {vs : List Val} {ts : List ATy} (n : Nat), TysOK vs ts → TysOK (vs.take n) (ts.take n)
  | _, _, 0, _ => by simp
  | [], [], _ + 1, _ => by simp
  | _ :: vs, _ :: ts, n + 1, h => ⟨h.1, TysOK_take (vs := vs) (ts := ts) n h.2⟩
  | [], _ :: _, _ + 1, h => h.elim
  | _ :: _, [], _ + 1, h => h.elim

theorem TysOK_drop : ∀ {vs : List Val} {ts : List ATy} (n : Nat), TysOK vs ts → TysOK (vs.drop n) (ts.drop n)
  | _, _, 0, h => by simpa using h
  | [], [], _ + 1, _ => by simp
  | _ :: vs, _ :: ts, n + 1, h => by simpa using TysOK_drop (vs := vs) (ts := ts) n h.2
  | [], _ :: _, _ + 1, h => h.elim
  | _ :: _, [], _ + 1, h => h.elim

theorem TysOK_get : ∀ {vs : List Val} {ts : List ATy} {n : Nat} {t : ATy}, TysOK vs ts → ts[n]? = some t →
    ∃ v, vs[n]? = some v ∧ hasTy v t
  | [], [], _, _, _, h => by simp at h
  | v :: _, _ :: _, 0, _, h, e => by
    simp at e; subst e; exact ⟨v, by simp, h.1⟩
  | _ :: vs, _ :: ts, n + 1, _, h, e => by
    simp at e
    obtain ⟨v, e', hv⟩ := TysOK_get (vs := vs) (ts := ts) h.2 e
    exact ⟨v, by simpa using e', hv⟩
  | [], _ :: _, _, _, h, _ => h.elim
  | _ :: _, [], _, _, h, _ => h.elim

theorem TysOK_set : ∀ {vs : List Val} {ts : List ATy} (n : Nat) {v : Val} {t : ATy}, TysOK vs ts → hasTy v t →
    TysOK (vs.set n v) (ts.set n t)
  | [], [], _, _, _, _, _ => by simp
  | _ :: _, _ :: _, 0, _, _, h, hv => ⟨hv, h.2⟩
  | _ :: vs, _ :: ts, n + 1, _, _, h, hv => ⟨h.1, TysOK_set (vs := vs) (ts := ts) n h.2 hv⟩
  | [], _ :: _, _, _, _, h, _ => h.elim
  | _ :: _, [], _, _, _, h, _ => h.elim

theorem TysOK_replicate {v : Val} {t : ATy} (h : hasTy v t) : ∀ n, TysOK (List.replicate n v) (List.replicate n t)
  | 0 => trivial
  | n + 1 => ⟨h, TysOK_replicate h n⟩

theorem TysOK_reverse : ∀ {vs : List Val} {ts : List ATy}, TysOK vs ts → TysOK vs.reverse ts.reverse
  | [], [], _ => trivial
  | v :: vs, t :: ts, h => by
    simp only [List.reverse_cons]
    exact TysOK_append (TysOK_reverse (vs := vs) (ts := ts) h.2) ⟨h.1, trivial⟩
  | [], _ :: _, h => h.elim
  | _ :: _, [], h => h.elim

theorem TysOK_le : ∀ {vs : List Val} {ts ts' : List ATy}, TysOK vs ts → tysLe ts ts' = true → TysOK vs ts'
  | [], [], [], _, _ => trivial
  | _ :: vs, _ :: ts, _ :: ts', h, hl => by
    simp only [tysLe, Bool.and_eq_true] at hl
    exact ⟨hasTy_le h.1 hl.1, TysOK_le (vs := vs) (ts := ts) (ts' := ts') h.2 hl.2⟩
  | [], _ :: _, _, h, _ => h.elim
  | _ :: _, [], _, h, _ => h.elim
  | [], [], _ :: _, _, hl => by simp [tysLe] at hl
  | _ :: _, _ :: _, [], _, hl => by simp [tysLe] at hl

theorem tysLe_length : ∀ {ts ts' : List ATy}, tysLe ts ts' = true → ts.length = ts'.length
  | [], [], _ => rfl
  | _ :: ts, _ :: ts', h => by
    simp only [tysLe, Bool.and_eq_true] at h
    simp [tysLe_length (ts := ts) (ts' := ts') h.2]
  | [], _ :: _, h => by simp [tysLe] at h
  | _ :: _, [], h => by simp [tysLe] at h

/-- pointwise compatibility (head = top on both sides) -/
def compatL : List ATy → List ATy → Prop
  | [], [] => True
  | t :: ts, q :: qs => t.compat q = true ∧ compatL ts qs
  | _, _ => False

theorem popCompat_ok : ∀ {tys want r : List ATy}, popCompat tys want = .ok r →
    ∃ ts, tys = ts ++ r ∧ compatL ts want
  | tys, [], r, h => by
    simp only [popCompat, Except.ok.injEq] at h
    subst h; exact ⟨[], rfl, trivial⟩
  | [], _ :: _, _, h => by simp [popCompat] at h
  | t :: ts, q :: qs, r, h => by
    simp only [popCompat] at h
    split at h
    · obtain ⟨ts', e, hc⟩ := popCompat_ok (tys := ts) (want := qs) h
      exact ⟨t :: ts', by simp [e], ⟨‹_›, hc⟩⟩
    · simp at h

theorem compatL_length : ∀ {ts qs : List ATy}, compatL ts qs → ts.length = qs.length
  | [], [], _ => rfl
  | _ :: ts, _ :: qs, h => by simp [compatL_length (ts := ts) (qs := qs) h.2]
  | [], _ :: _, h => h.elim
  | _ :: _, [], h => h.elim

/-- concrete operand types: compatible + no `any` ⇒ the values have the signature's types -/
theorem TysOK_of_compat : ∀ {vs : List Val} {ts qs : List ATy}, TysOK vs ts → compatL ts qs →
    ts.any ATy.isAny = false → TysOK vs qs
  | [], [], [], _, _, _ => trivial
  | _ :: vs, _ :: ts, _ :: qs, h, hc, hn => by
    simp only [List.any_cons, Bool.or_eq_false_iff] at hn
    exact ⟨hasTy_of_compat h.1 hc.1 hn.1, TysOK_of_compat (vs := vs) (ts := ts) (qs := qs) h.2 hc.2 hn.2⟩
  | [], _ :: _, _, h, _, _ => h.elim
  | _ :: _, [], _, h, _, _ => h.elim
  | [], [], _ :: _, _, hc, _ => hc.elim
  | _ :: _, _ :: _, [], _, hc, _ => hc.elim

theorem popLe_ok : ∀ {tys want r : List ATy}, popLe tys want = .ok r →
    ∃ ts, tys = ts ++ r ∧ tysLe ts want = true
  | tys, [], r, h => by
    simp only [popLe, Except.ok.injEq] at h
    subst h; exact ⟨[], rfl, rfl⟩
  | [], _ :: _, _, h => by simp [popLe] at h
  | t :: ts, q :: qs, r, h => by
    simp only [popLe] at h
    split at h
    · obtain ⟨ts', e, hc⟩ := popLe_ok (tys := ts) (want := qs) h
      exact ⟨t :: ts', by simp [e], by simp [tysLe, *]⟩
    · simp at h

/-! ### Context and scratch invariants -/

/-- the transaction group / globals of the context carry values of the field table's types -/
def CtxOK (cx : Ctx) : Prop :=
  (∀ (t : Nat) (flds : List (String × List Val)) (f : String) (vs : List Val),
      cx.group[t]? = some flds → assocGet flds f = some vs → ∀ v ∈ vs, hasTy v (txnTy f)) ∧
  (∀ (f : String) (v : Val), assocGet cx.globalF f = some v → hasTy v (globalTy f))

/-- every scratch slot holds a value of its certificate type -/
def SlotsOK (c : Cert) (sc : List (Nat × Val)) : Prop := ∀ n, hasTy (getSlot sc n) (c.slotTy n)

theorem find_filter_ne (sc : List (Nat × Val)) (s n : Nat) (h : s ≠ n) :
    (sc.filter (fun p => p.1 != s)).find? (fun p => p.1 == n) = sc.find? (fun p => p.1 == n) := by
  induction sc with
  | nil => rfl
  | cons p sc ih =>
    by_cases hp : p.1 = s
    · have h1 : (p.1 != s) = false := by simp [hp]
      have h2 : (p.1 == n) = false := by rw [hp]; simp [h]
      simp only [List.filter_cons, h1, List.find?_cons, h2]
      simpa using ih
    · have h1 : (p.1 != s) = true := by simp [hp]
      simp only [List.filter_cons, h1, if_true, List.find?_cons]
      cases hq : (p.1 == n) <;> simp [ih]

theorem getSlot_setSlot (sc : List (Nat × Val)) (s n : Nat) (v : Val) :
    getSlot (setSlot sc s v) n = if s = n then v else getSlot sc n := by
  unfold getSlot setSlot
  by_cases h : s = n
  · simp [List.find?, h]
  · have : (s == n) = false := by simp [h]
    simp only [List.find?, this, h, if_false]
    rw [find_filter_ne sc s n h]

theorem SlotsOK_set {c : Cert} {sc : List (Nat × Val)} {s : Nat} {v : Val}
    (h : SlotsOK c sc) (hv : hasTy v (c.slotTy s)) : SlotsOK c (setSlot sc s v) := by
  intro n
  rw [getSlot_setSlot]
  split
  · subst_vars; exact hv
  · exact h n

theorem SlotsOK_nil {c : Cert} (h : slotsInit c = true) : SlotsOK c [] := by
  intro n
  have : getSlot [] n = .u 0 := rfl
  rw [this]
  unfold slotsInit at h
  simp only [List.all_eq_true] at h
  unfold Cert.slotTy
  cases hs : c.slots[n]? with
  | none => simp
  | some t =>
    have := h t (List.mem_of_getElem? hs)
    simpa using hasTy_le (v := .u 0) (t := .uint64) trivial this

/-! ### Field-dependent opcodes -/

def Benign (e : Fail) : Prop := Mild e ∧ ∀ m, e ≠ .typeErr m

theorem ResOK_err_of_benign {r p sc typed e} (h : Benign e) : ResOK r p sc typed (.error e) :=
  ⟨h.1, fun _ => h.2⟩

theorem fieldLookup_ok {flds : List (String × List Val)} {f : String} {idx : Option Nat} {v : Val}
    (hf : ∀ vs, assocGet flds f = some vs → ∀ v ∈ vs, hasTy v (txnTy f))
    (h : fieldLookup flds f idx = .ok v) : hasTy v (txnTy f) := by
  unfold fieldLookup at h
  split at h
  · simp at h
  · rename_i vs hvs
    split at h
    · split at h
      · simp only [Except.ok.injEq] at h; subst h; exact hf _ hvs _ (by simp)
      · simp at h
    · split at h
      · rename_i i x hx
        simp only [Except.ok.injEq] at h; subst h
        exact hf _ hvs _ (List.mem_of_getElem? hx)
      · simp at h

theorem fieldLookup_err {flds : List (String × List Val)} {f : String} {idx : Option Nat} {e : Fail}
    (h : fieldLookup flds f idx = .error e) : Benign e := by
  unfold fieldLookup at h
  repeat' split at h
  all_goals first
    | (simp only [Except.error.injEq] at h; subst h; exact ⟨by simp [Mild], by simp⟩)
    | simp at h

theorem txnLookup_ok {cx : Ctx} (hc : CtxOK cx) {t : Nat} {f : String} {idx : Option Nat} {v : Val}
    (h : txnLookup cx t f idx = .ok v) : hasTy v (txnTy f) := by
  unfold txnLookup at h
  split at h
  · rename_i flds hfl
    exact fieldLookup_ok (fun vs hvs => hc.1 t flds f vs hfl hvs) h
  · simp at h

theorem txnLookup_err {cx : Ctx} {t : Nat} {f : String} {idx : Option Nat} {e : Fail}
    (h : txnLookup cx t f idx = .error e) : Benign e := by
  unfold txnLookup at h
  split at h
  · exact fieldLookup_err h
  · simp only [Except.error.injEq] at h; subst h; exact ⟨by simp [Mild], by simp⟩

syntax "field_loop" ident ident : tactic
macro_rules | `(tactic| field_loop $hc $hf) => `(tactic|
  (prim_norm; (try (simp only [$hf:ident]; prim_norm));
   first
   | close_leaf
   | exact ResOK_err_of_benign (txnLookup_err ‹_›)
   | (have := txnLookup_ok $hc ‹txnLookup _ _ _ _ = Except.ok _›; close_leaf)
   | ((first
        | split
        | refine ResOK_bind_bind _ _ _ ?_
        | refine ResOK_bind _ _ ?_ ?_) <;> (intros; field_loop $hc $hf))))

macro "field_go" hc:ident hf:ident : tactic => `(tactic| ((conv => arg 5; whnf); field_loop $hc $hf))

section
variable {cx : Ctx} {imms : List String} {f : String}

theorem ok_txn (hc : CtxOK cx) (hf : imms[0]? = some f) : PrimOK cx "txn" imms [] [txnTy f] := by
  apply primOK_of0; intro w r; field_go hc hf
theorem ok_txna (hc : CtxOK cx) (hf : imms[0]? = some f) : PrimOK cx "txna" imms [] [txnTy f] := by
  apply primOK_of0; intro w r; field_go hc hf
theorem ok_txnas (hc : CtxOK cx) (hf : imms[0]? = some f) : PrimOK cx "txnas" imms [.uint64] [txnTy f] := by
  apply primOK_of1; intro w x1 r; cases x1 <;> field_go hc hf
theorem ok_gtxn (hc : CtxOK cx) (hf : imms[1]? = some f) : PrimOK cx "gtxn" imms [] [txnTy f] := by
  apply primOK_of0; intro w r; field_go hc hf
theorem ok_gtxna (hc : CtxOK cx) (hf : imms[1]? = some f) : PrimOK cx "gtxna" imms [] [txnTy f] := by
  apply primOK_of0; intro w r; field_go hc hf
theorem ok_gtxnas (hc : CtxOK cx) (hf : imms[1]? = some f) : PrimOK cx "gtxnas" imms [.uint64] [txnTy f] := by
  apply primOK_of1; intro w x1 r; cases x1 <;> field_go hc hf
theorem ok_gtxns (hc : CtxOK cx) (hf : imms[0]? = some f) : PrimOK cx "gtxns" imms [.uint64] [txnTy f] := by
  apply primOK_of1; intro w x1 r; cases x1 <;> field_go hc hf
theorem ok_gtxnsa (hc : CtxOK cx) (hf : imms[0]? = some f) : PrimOK cx "gtxnsa" imms [.uint64] [txnTy f] := by
  apply primOK_of1; intro w x1 r; cases x1 <;> field_go hc hf
theorem ok_gtxnsas (hc : CtxOK cx) (hf : imms[0]? = some f) :
    PrimOK cx "gtxnsas" imms [.uint64, .uint64] [txnTy f] := by
  apply primOK_of2; intro w x1 x2 r; cases x1 <;> cases x2 <;> field_go hc hf
end

theorem ok_global {cx : Ctx} {imms : List String} {f : String} (hc : CtxOK cx) (hf : imms[0]? = some f) :
    PrimOK cx "global" imms [] [globalTy f] := by
  apply primOK_of0; intro w r
  conv => arg 5; whnf
  prim_norm; simp only [hf]; prim_norm
  split
  · have := hc.2 _ _ ‹_›
    close_leaf
  · close_leaf

theorem ok_itxn_field {cx : Ctx} {imms : List String} (t : ATy) : PrimOK cx "itxn_field" imms [t] [] := by
  apply primOK_of1; intro w x1 r; cases x1 <;> prim_go

theorem ok_asset_params (cx : Ctx) (imms : List String) :
    PrimOK cx "asset_params_get" imms [.uint64] [.uint64, .uint64] := by prim_auto
theorem ok_app_params (cx : Ctx) (imms : List String) :
    PrimOK cx "app_params_get" imms [.uint64] [.uint64, .uint64] := by prim_auto
theorem ok_acct_params (cx : Ctx) (imms : List String) :
    PrimOK cx "acct_params_get" imms [.any] [.uint64, .uint64] := by prim_auto

/-- every immediate-dependent covered signature is sound (under a well-typed context) -/
theorem sigImm_ok {cx : Ctx} (hc : CtxOK cx) {op : String} {imms : List String} {pops pushes : List ATy}
    (h : sigImm op imms = some (pops, pushes)) : PrimOK cx op imms pops.reverse pushes.reverse := by
  unfold sigImm at h
  simp only at h
  split at h
  all_goals first
    | (split at h
       · simp only [Option.some.injEq, Prod.mk.injEq] at h
         obtain ⟨rfl, rfl⟩ := h
         first
           | exact ok_txn hc ‹_› | exact ok_txna hc ‹_› | exact ok_txnas hc ‹_› | exact ok_gtxn hc ‹_›
           | exact ok_gtxna hc ‹_› | exact ok_gtxnas hc ‹_› | exact ok_gtxns hc ‹_› | exact ok_gtxnsa hc ‹_›
           | exact ok_gtxnsas hc ‹_› | exact ok_global hc ‹_› | exact ok_itxn_field _
       · simp at h)
    | (split at h
       · split at h
         · simp only [Option.some.injEq, Prod.mk.injEq] at h
           obtain ⟨rfl, rfl⟩ := h
           first | exact ok_asset_params _ _ | exact ok_app_params _ _ | exact ok_acct_params _ _
         · simp at h
       · simp at h)
    | simp at h

end PyTealV.Proofs.C05
