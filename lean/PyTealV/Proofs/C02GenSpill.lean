/-
  C02Gen (part 8): the spill / restore code around a re-entrant `callsub` as a `CallFrame`
  (stage 2).  Uses the lemmas behind `C02Spill.spill_correct` (`before_ok`, `restore_ok`, `pops_ok`)
  with the explicit shape of the stack between `before` and `after`, and adds what
  `spill_correct` leaves open: when the spilled values do not fit under the 1000-entry stack limit,
  `spillBefore` fails with exactly the stack-overflow failure (`before_ovf`).
-/
import PyTealV.Proofs.C02GenCall
namespace PyTealV.Proofs.C02Gen
open PyTealV PyTealV.Avm PyTealV.Src PyTealV.Comp PyTealV.Models.Spill PyTealV.Models.FragmentR
open PyTealV.Check (isSimple)
open PyTealV.Proofs.Shape (ovf Blk)
open PyTealV.Proofs.C02Spill

/-! ### `spillBefore` on a stack that is too deep -/

theorem step_load_ovf (cx : Ctx) (m : MS) (st : List Val) (sc : Scratch) (s : Nat)
    (hs : s < 256) (hl : ¬ st.length < maxStack) :
    execSimple cx (.load s) (withSS m st sc) = some (.halt ovf) := by
  simp [execSimple, withSS, hs, pushV, hl, ovf]

theorem step_dig_ovf (cx : Ctx) (m : MS) (x : Val) (P τ : List Val) (sc : Scratch)
    (hl : ¬ P.length + τ.length + 2 ≤ maxStack) :
    execSimple cx (opN "dig" P.length) (withSS m (P ++ x :: τ) sc) = some (.halt ovf) := by
  simp only [opN, execSimple, withSS, prim_dig_eq, immNat_toString]
  simp [bind, Except.bind, pure, Except.pure, ovf]
  omega

theorem execOps_cons_halt {cx : Ctx} {i : Instr} {is : List Instr} {m : MS} {o : Outcome}
    (h : execSimple cx i m = some (.halt o)) : execOps cx (i :: is) m = .halt o := by
  simp [execOps, h]

theorem execOps_append_halt {cx : Ctx} : ∀ {a b : List Instr} {m : MS} {o : Outcome},
    execOps cx a m = .halt o → execOps cx (a ++ b) m = .halt o
  | [], b, m, o, h => by simp [execOps] at h
  | i :: a, b, m, o, h => by
    simp only [List.cons_append, execOps] at h ⊢
    cases hi : execSimple cx i m with
    | none => simp only [hi] at h ⊢; exact h
    | some r =>
      cases r with
      | halt o' => simp only [hi] at h ⊢; exact h
      | ok m1 =>
        simp only [hi] at h ⊢
        exact execOps_append_halt h

theorem loads_plain_ovf (cx : Ctx) (m : MS) (sc : Scratch) : ∀ (slots : List Nat) (τ : List Val),
    (∀ s ∈ slots, s < 256) → τ.length ≤ maxStack → ¬ τ.length + slots.length ≤ maxStack →
    execOps cx (slots.map Instr.load) (withSS m τ sc) = .halt ovf
  | [], τ, _, h1, h2 => by simp at h2; omega
  | s :: t, τ, h, h1, h2 => by
    by_cases hlt : τ.length < maxStack
    · rw [List.map_cons, execOps_cons_ok (step_load cx m τ sc s (h s (by simp)) hlt)]
      exact loads_plain_ovf cx m sc t _ (fun x hx => h x (by simp [hx]))
        (by simp only [List.length_cons]; omega) (by simp only [List.length_cons] at h2 ⊢; omega)
    · rw [List.map_cons, execOps_cons_halt (step_load_ovf cx m τ sc s (h s (by simp)) hlt)]

theorem loads_cover_ovf (cx : Ctx) (m : MS) (sc : Scratch) (A : List Val) :
    ∀ (slots : List Nat) (τ : List Val),
    (∀ s ∈ slots, s < 256) → A.length + τ.length ≤ maxStack → ¬ A.length + τ.length + slots.length ≤ maxStack →
    execOps cx (slots.flatMap (fun s => [Instr.load s, opN "cover" A.length])) (withSS m (A ++ τ) sc) = .halt ovf
  | [], τ, _, h1, h2 => by simp at h2; omega
  | s :: t, τ, h, h1, h2 => by
    simp only [List.length_cons] at h2
    by_cases hlt : (A ++ τ).length < maxStack
    · have hlt' : A.length + τ.length < maxStack := by simpa using hlt
      rw [List.flatMap_cons, List.cons_append, List.cons_append, List.nil_append,
        execOps_cons_ok (step_load cx m (A ++ τ) sc s (h s (by simp)) hlt),
        execOps_cons_ok (step_cover cx m _ A τ sc (by omega))]
      exact loads_cover_ovf cx m sc A t (getSlot sc s :: τ) (fun x hx => h x (by simp [hx]))
        (by simp only [List.length_cons]; omega) (by simp only [List.length_cons]; omega)
    · rw [List.flatMap_cons, List.cons_append,
        execOps_cons_halt (step_load_ovf cx m (A ++ τ) sc s (h s (by simp)) hlt)]

theorem dig_loop_ovf (cx : Ctx) (m : MS) (sc : Scratch) (V : List Val) (D : Nat) :
    ∀ (args Q τ : List Val), D + 1 = Q.length + V.length + args.length →
    Q.length + V.length + args.length + τ.length ≤ maxStack →
    ¬ Q.length + V.length + args.length + τ.length + args.length ≤ maxStack →
    execOps cx (List.replicate args.length (opN "dig" D))
        (withSS m (Q ++ (V ++ (args.reverse ++ τ))) sc) = .halt ovf
  | [], Q, τ, _, h1, h2 => by simp at h1 h2; omega
  | x :: t, Q, τ, hD, h1, h2 => by
    simp only [List.length_cons] at hD h1 h2
    have hst : Q ++ (V ++ ((x :: t).reverse ++ τ)) = (Q ++ (V ++ t.reverse)) ++ x :: τ := by simp
    have hP : (Q ++ (V ++ t.reverse)).length = D := by simp; omega
    by_cases hfit : (Q ++ (V ++ t.reverse)).length + τ.length + 2 ≤ maxStack
    · rw [List.length_cons, List.replicate_succ, hst, ← hP,
        execOps_cons_ok (step_dig cx m x (Q ++ (V ++ t.reverse)) τ sc hfit)]
      have h2' : x :: (Q ++ (V ++ t.reverse) ++ x :: τ) = (x :: Q) ++ (V ++ (t.reverse ++ x :: τ)) := by simp
      rw [h2', hP]
      exact dig_loop_ovf cx m sc V D t (x :: Q) (x :: τ) (by simp only [List.length_cons]; omega)
        (by simp only [List.length_cons]; simp at hfit; omega) (by simp only [List.length_cons]; omega)
    · rw [List.length_cons, List.replicate_succ, hst, ← hP,
        execOps_cons_halt (step_dig_ovf cx m x (Q ++ (V ++ t.reverse)) τ sc hfit)]

/-- `spillBefore` entered with too little room under the stack limit fails with the
    stack-overflow failure (the complement of `before_ok`) -/
theorem before_ovf (cx : Ctx) (m : MS) (sc : Scratch) (slots : List Nat) (cov : Bool)
    (args σ : List Val) (hne : slots ≠ []) (h256 : ∀ s ∈ slots, s < 256)
    (hfit : σ.length + args.length ≤ maxStack)
    (hl : ¬ σ.length + args.length + slots.length + (if cov then 0 else args.length) ≤ maxStack) :
    execOps cx (spillBefore slots args.length cov) (withSS m (args.reverse ++ σ) sc) = .halt ovf := by
  have hemp : slots.isEmpty = false := by cases slots <;> simp_all
  have hk : 1 ≤ slots.length := by cases slots <;> simp_all
  cases cov with
  | false =>
    simp only [Bool.false_eq_true, ↓reduceIte] at hl
    have hshape : spillBefore slots args.length false
        = slots.map Instr.load ++ List.replicate args.length (opN "dig" (slots.length + args.length - 1)) := by
      simp [spillBefore, hemp, flatMap_eq_map_of _ Instr.load slots (fun _ _ => rfl)]
    rw [hshape]
    by_cases hld : σ.length + args.length + slots.length ≤ maxStack
    · have h1 := loads_plain cx m sc slots (args.reverse ++ σ) h256 (by simp; omega)
      rw [execOps_append_ok h1]
      have h2 := dig_loop_ovf cx m sc (slots.map (getSlot sc)).reverse (slots.length + args.length - 1)
        args [] σ (by simp; omega) (by simp; omega) (by simp; omega)
      simpa using h2
    · exact execOps_append_halt (loads_plain_ovf cx m sc slots (args.reverse ++ σ) h256 (by simp; omega)
        (by simp; omega))
  | true =>
    simp only [↓reduceIte, Nat.add_zero] at hl
    by_cases hlt : slots.length < args.length
    · have hshape : spillBefore slots args.length true
          = slots.flatMap (fun s => [Instr.load s, opN "cover" args.length]) := by
        simp [spillBefore, hemp, hlt]
      rw [hshape]
      have := loads_cover_ovf cx m sc args.reverse slots σ h256 (by simp; omega) (by simp; omega)
      simpa using this
    · have hshape : spillBefore slots args.length true
          = slots.map Instr.load ++ List.replicate args.length
              (if slots.length + args.length - 1 == 1 then swapI
               else opN "uncover" (slots.length + args.length - 1)) := by
        simp [spillBefore, hemp, hlt, flatMap_eq_map_of _ Instr.load slots (fun _ _ => rfl)]
      rw [hshape]
      exact execOps_append_halt (loads_plain_ovf cx m sc slots (args.reverse ++ σ) h256 (by simp; omega)
        (by simp; omega))

/-! ### the spill / restore code as a `CallFrame` -/

theorem ovf_ne_control : ovf ≠ .fail (.illegal "control instruction inside a block") := by
  simp [ovf]

theorem restoreW_get (locals : List Var) (w1 w3 : World) (x : Nat) :
    getSlot (restoreW locals w1 w3).scratch x =
      if x ∈ locals then getSlot w1.scratch x else getSlot w3.scratch x := by
  have : (restoreW locals w1 w3).scratch = storeAll (getSlot w1.scratch) locals w3.scratch := by
    simp only [restoreW, storeAll, List.foldl_map]
  rw [this, getSlot_storeAll]

theorem frame_spill_core {cx : Ctx} {X : MCtx} {f cb k nArgs : Nat} {crv cov : Bool} {slots : List Nat}
    {locals : List Var} {st σ : List Val} {ic bcs} {w1 : World}
    (hne : slots ≠ []) (hnd : slots.Nodup) (h256 : ∀ s ∈ slots, s < 256) (hsi : ∀ s ∈ slots, s ∉ X.ign)
    (hset : ∀ x, x ∉ X.ign → (x ∈ locals ↔ x ∈ slots)) (hlen : st.length = nArgs)
    (hb : X.G[cb]? = some { ops := spillBefore slots nArgs cov ++ [.callsub (subLabel f)] ++ spillAfter slots nArgs crv cov,
                            succ := .next k }) :
    CallFrame cx X cb k f (if crv then 1 else 0) locals st σ ic bcs w1 := by
  refine ⟨_, (spillBefore slots nArgs cov).length,
    (slots.map (getSlot w1.scratch)).reverse ++ ((if cov then [] else st) ++ σ), hb, by simp, ?_, ?_⟩
  · -- `before`
    intro wm hw hinv hm
    have hm' : st.length + σ.length ≤ maxStack := by simpa [MCtx.st] using hm
    have hmap : slots.map (getSlot wm.scratch) = slots.map (getSlot w1.scratch) :=
      List.map_congr_left (fun s hs => (hw.1 s (hsi s hs)).symm)
    by_cases hd : σ.length + st.reverse.length + slots.length + (if cov then 0 else st.reverse.length) ≤ maxStack
    · have h1 := before_ok cx ⟨st ++ σ, ic, bcs, wm⟩ wm.scratch slots cov st.reverse σ hne h256 hd
      simp only [List.reverse_reverse, List.length_reverse, hlen, hmap] at h1
      have h2 := run_opsP_ok (cx := cx) (X := X) hb _ [] (Instr.callsub (subLabel f) :: spillAfter slots nArgs crv cov)
        _ _ (by simp) h1
      simp only [List.length_nil, Nat.zero_add] at h2
      exact .inr ⟨wm, hw, hinv, h2⟩
    · have h1 := before_ovf cx ⟨st ++ σ, ic, bcs, wm⟩ wm.scratch slots cov st.reverse σ hne h256 (by simp; omega) hd
      simp only [List.reverse_reverse, List.length_reverse, hlen] at h1
      exact .inl ⟨ovfF, X.devOvf, run_opsP_halt (cx := cx) (X := X) hb ovf_ne_control _ []
        (Instr.callsub (subLabel f) :: spillAfter slots nArgs crv cov) _ (by simp) h1⟩
  · -- `after`
    intro rets w3 hr wm3 hw3 _ hm3
    have hm3' : (rets ++ ((slots.map (getSlot w1.scratch)).reverse ++ ((if cov then [] else st) ++ σ))).length
        ≤ maxStack := hm3
    simp only [List.length_append, List.length_reverse, List.length_map] at hm3'
    obtain ⟨sc'', hres, hrun⟩ := restore_ok cx
      ⟨rets ++ ((slots.map (getSlot w1.scratch)).reverse ++ ((if cov then [] else st) ++ σ)), ic, bcs, wm3⟩
      (getSlot w1.scratch) slots crv cov nArgs rets ((if cov then [] else st) ++ σ) wm3.scratch hne hnd h256 hr
      (by simp only [List.length_append]; omega)
    have hpop := pops_ok cx
      ⟨rets ++ ((slots.map (getSlot w1.scratch)).reverse ++ ((if cov then [] else st) ++ σ)), ic, bcs, wm3⟩
      sc'' crv cov st.reverse rets σ hr (by
        simp only [List.length_reverse]
        cases cov <;> simp at hm3' ⊢ <;> omega)
    simp only [List.reverse_reverse, List.length_reverse, hlen] at hpop
    rw [hpop] at hrun
    have h2 := run_opsP_ok (cx := cx) (X := X) hb _ (spillBefore slots nArgs cov ++ [.callsub (subLabel f)]) [] _ _
      (by simp) hrun
    have hexit : ReachP cx X.Pg
        (X.st ⟨cb, (spillBefore slots nArgs cov ++ [Instr.callsub (subLabel f)]).length +
          (spillAfter slots nArgs crv cov).length⟩ ⟨rets ++ σ, ic, bcs, { wm3 with scratch := sc'' }⟩)
        (X.st ⟨k, 0⟩ ⟨rets ++ σ, ic, bcs, { wm3 with scratch := sc'' }⟩) := by
      exact .step (step_exit hb (by simp; omega) rfl)
    refine .inr ⟨{ wm3 with scratch := sc'' }, ⟨fun x hxi => ?_, ?_⟩, trivial, ?_⟩
    · show getSlot (restoreW locals w1 w3).scratch x = getSlot sc'' x
      rw [restoreW_get]
      by_cases hx : x ∈ slots
      · rw [if_pos ((hset x hxi).mpr hx), hres.1 x hx]
      · rw [if_neg (fun h => hx ((hset x hxi).mp h)), hres.2 x hx]
        exact hw3.1 x hxi
    · show _ = { restoreW locals w1 w3 with scratch := sc'' }
      rw [hw3.2]
      rfl
    · simp only [List.length_append, List.length_cons, List.length_nil, Nat.zero_add] at h2 hexit
      exact ReachP.trans h2 hexit

theorem frame_spill {cx : Ctx} {X : MCtx} {cfg : RCfg} {f : Nat} {ce : Callee} {cb k : Nat}
    {locals : List Var} {st σ : List Val} {ic bcs} {w1 : World}
    (hsp : (cfg.reenters.contains f && !cfg.localSlots.isEmpty) = true)
    (hnd : cfg.localSlots.Nodup) (h256 : ∀ s ∈ cfg.localSlots, s < 256) (hsi : ∀ s ∈ cfg.localSlots, s ∉ X.ign)
    (hset : ∀ x, x ∉ X.ign → (x ∈ locals ↔ x ∈ cfg.localSlots))
    (hlen : st.length = ce.nArgs)
    (hb : Blk X.G cb (callOps cfg f ce) (.next k)) :
    CallFrame cx X cb k f (if ce.hasRet then 1 else 0) locals st σ ic bcs w1 := by
  have hne : cfg.localSlots ≠ [] := by
    intro h
    simp [h] at hsp
  have hops : callOps cfg f ce =
      spillBefore cfg.localSlots ce.nArgs (decide (cfg.version ≥ 5)) ++ [.callsub (subLabel f)] ++
        spillAfter cfg.localSlots ce.nArgs ce.hasRet (decide (cfg.version ≥ 5)) := by
    unfold callOps
    rw [hsp]
    rfl
  rw [hops] at hb
  exact frame_spill_core hne hnd h256 hsi hset hlen hb

end PyTealV.Proofs.C02Gen
