/- C03 — frame property of `Avm.execPrim`, part 1 of 4 (generated list of opcodes; see C03OptFrameTac) -/
import PyTealV.Proofs.C03OptFrameTac
namespace PyTealV.Models.Optimizer
open PyTealV PyTealV.Avm
set_option linter.unusedSimpArgs false

theorem primFrame_0 : PrimFrame "+" := by frame_tac
theorem primFrame_1 : PrimFrame "-" := by frame_tac
theorem primFrame_2 : PrimFrame "*" := by frame_tac
theorem primFrame_3 : PrimFrame "/" := by frame_tac
theorem primFrame_4 : PrimFrame "%" := by frame_tac
theorem primFrame_5 : PrimFrame "<" := by frame_tac
theorem primFrame_6 : PrimFrame ">" := by frame_tac
theorem primFrame_7 : PrimFrame "<=" := by frame_tac
theorem primFrame_8 : PrimFrame ">=" := by frame_tac
theorem primFrame_9 : PrimFrame "&&" := by frame_tac
theorem primFrame_10 : PrimFrame "||" := by frame_tac
theorem primFrame_11 : PrimFrame "==" := by frame_tac
theorem primFrame_12 : PrimFrame "!=" := by frame_tac
theorem primFrame_13 : PrimFrame "!" := by frame_tac
theorem primFrame_14 : PrimFrame "~" := by frame_tac
theorem primFrame_15 : PrimFrame "&" := by frame_tac
theorem primFrame_16 : PrimFrame "|" := by frame_tac
theorem primFrame_17 : PrimFrame "^" := by frame_tac
theorem primFrame_18 : PrimFrame "shl" := by frame_tac
theorem primFrame_19 : PrimFrame "shr" := by frame_tac
theorem primFrame_20 : PrimFrame "sqrt" := by frame_tac
theorem primFrame_21 : PrimFrame "bitlen" := by frame_tac
theorem primFrame_22 : PrimFrame "exp" := by frame_tac
theorem primFrame_23 : PrimFrame "mulw" := by frame_tac
theorem primFrame_24 : PrimFrame "addw" := by frame_tac
theorem primFrame_25 : PrimFrame "expw" := by frame_tac
theorem primFrame_26 : PrimFrame "divw" := by frame_tac
theorem primFrame_27 : PrimFrame "len" := by frame_tac
theorem primFrame_28 : PrimFrame "itob" := by frame_tac
theorem primFrame_29 : PrimFrame "btoi" := by frame_tac
theorem primFrame_30 : PrimFrame "concat" := by frame_tac
theorem primFrame_31 : PrimFrame "substring" := by frame_tac

end PyTealV.Models.Optimizer
