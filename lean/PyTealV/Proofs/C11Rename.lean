/-
  C11 — helper lemmas: `assignScratchSlotsToSubroutines` (model `Models/Slots.lean`, C10) uses the
  ids of the automatic slot objects only through their RELATIVE ORDER.

  `assignWith_rename`: for every renaming `g` of slot objects that is injective, keeps the
  `reserved` flag and the ids of requested slots, and preserves `≤` between the ids of the slot
  objects the program references, the assignment of the renamed program is the renamed assignment
  (same numbers, same rewritten ops, same local sets, same error).

  `assignWith_tiebreak_irrelevant`: when the referenced slot objects have pairwise different ids,
  every function that returns its argument sorted by id gives the same assignment — CPython's
  address-dependent iteration order of the set `allSlots` cannot show.
-/
import PyTealV.Models.Slots
import PyTealV.Proofs.C10
namespace PyTealV.Proofs.C11Rename
open PyTealV.Models.Slots
open PyTealV.Proofs.C10

/-! ## Python-set operations commute with an injective map -/

section Sets
variable {α β : Type} [DecidableEq α] [DecidableEq β] {f : α → β}

omit [DecidableEq α] [DecidableEq β] in
theorem mem_map_inj (hf : Function.Injective f) {x : α} {l : List α} : f x ∈ l.map f ↔ x ∈ l := by
  constructor
  · intro h
    obtain ⟨y, hy, e⟩ := List.mem_map.1 h
    exact hf e ▸ hy
  · exact List.mem_map_of_mem

theorem filter_ne_map (hf : Function.Injective f) (a : α) (l : List α) :
    (l.map f).filter (fun y => decide (y ≠ f a)) = (l.filter (fun x => decide (x ≠ a))).map f := by
  rw [List.filter_map]
  congr 1
  apply List.filter_congr
  intro x _
  simp only [Function.comp, ne_eq, decide_not, Bool.not_eq_eq_eq_not, Bool.not_not]
  by_cases h : x = a
  · simp [h]
  · have : f x ≠ f a := fun e => h (hf e)
    simp [h, this]

theorem dedup_map (hf : Function.Injective f) (l : List α) : dedup (l.map f) = (dedup l).map f := by
  induction l with
  | nil => rfl
  | cons a l ih => simp only [List.map_cons, dedup, ih, filter_ne_map hf]

theorem filter_mem_map (hf : Function.Injective f) (l m : List α) :
    (l.map f).filter (fun y => decide (y ∈ m.map f)) = (l.filter (fun x => decide (x ∈ m))).map f := by
  rw [List.filter_map]
  congr 1
  apply List.filter_congr
  intro x _
  simp only [Function.comp, mem_map_inj hf]

theorem filter_not_mem_map (hf : Function.Injective f) (l m : List α) :
    (l.map f).filter (fun y => decide (y ∉ m.map f)) = (l.filter (fun x => decide (x ∉ m))).map f := by
  rw [List.filter_map]
  congr 1
  apply List.filter_congr
  intro x _
  simp only [Function.comp, mem_map_inj hf]

theorem union_map (hf : Function.Injective f) (a b : List α) :
    union (a.map f) (b.map f) = (union a b).map f := by
  simp only [union, dedup_map hf, filter_not_mem_map hf, List.map_append]

theorem inter_map (hf : Function.Injective f) (a b : List α) :
    inter (a.map f) (b.map f) = (inter a b).map f := by
  simp only [inter, filter_mem_map hf]

theorem diff_map (hf : Function.Injective f) (a b : List α) :
    diff (a.map f) (b.map f) = (diff a b).map f := by
  simp only [diff, filter_not_mem_map hf]

theorem foldl_union_map (hf : Function.Injective f) (ls : List (List α)) (acc : List α) :
    (ls.map (List.map f)).foldl union (acc.map f) = (ls.foldl union acc).map f := by
  induction ls generalizing acc with
  | nil => rfl
  | cons l ls ih => simp only [List.map_cons, List.foldl_cons, union_map hf, ih]

theorem unionAll_map (hf : Function.Injective f) (ls : List (List α)) :
    unionAll (ls.map (List.map f)) = (unionAll ls).map f := by
  have := foldl_union_map hf ls []
  simpa [unionAll] using this

end Sets

/-! ## Renaming the slot objects of a program -/

def mapArg (g : Slot → Slot) : Arg → Arg
  | .slot s => .slot (g s)
  | .imm n => .imm n

def mapOp (g : Slot → Slot) (op : Op) : Op := { kind := op.kind, args := op.args.map (mapArg g) }

def mapProgram (g : Slot → Slot) (p : Program) : Program := p.map (fun r => (r.1, r.2.map (mapOp g)))

def mapEntry (g : Slot → Slot) (e : Key × List Slot) : Key × List Slot := (e.1, e.2.map g)

def mapResult (g : Slot → Slot) (r : Result) : Result :=
  { assignment := r.assignment.map (fun e => (g e.1, e.2)), program := r.program, localSets := r.localSets }

/-- what is assumed of a renaming, relative to the slot objects `S` it is applied to -/
structure OrderIso (g : Slot → Slot) (S : List Slot) : Prop where
  inj : Function.Injective g
  reserved : ∀ a, (g a).reserved = a.reserved
  rid : ∀ a, a.reserved = true → (g a).id = a.id
  mono : ∀ a ∈ S, ∀ b ∈ S, (a.id ≤ b.id ↔ (g a).id ≤ (g b).id)

section Rename
variable {g : Slot → Slot}

theorem opSlots_map (op : Op) : (mapOp g op).slots = op.slots.map g := by
  simp only [Op.slots, mapOp, List.filterMap_map, List.map_filterMap]
  congr 1
  funext a
  cases a <;> rfl

@[simp] theorem mapOp_kind (op : Op) : (mapOp g op).kind = op.kind := rfl

theorem routineSlots_map (hg : Function.Injective g) (ops : List Op) :
    routineSlots (ops.map (mapOp g)) = (routineSlots ops).map g := by
  simp only [routineSlots, ← dedup_map hg]
  congr 1
  induction ops with
  | nil => rfl
  | cons op rest ih => simp [List.flatMap_cons, opSlots_map, ih]

theorem collectGo_map (hg : Function.Injective g) (before rest : List (Key × List Slot)) (gl : List Slot) :
    collectGo (before.map (mapEntry g)) (rest.map (mapEntry g)) (gl.map g) =
      ((collectGo before rest gl).1.map g, (collectGo before rest gl).2.map (mapEntry g)) := by
  induction rest generalizing before gl with
  | nil => rfl
  | cons x rest ih =>
    obtain ⟨k, slots⟩ := x
    have h1 : (before.map (mapEntry g)).map (·.2) ++ (rest.map (mapEntry g)).map (·.2) =
        (before.map (·.2) ++ rest.map (·.2)).map (List.map g) := by
      simp [mapEntry, List.map_append, Function.comp_def]
    have ih' := ih (before ++ [(k, slots)])
      (union gl (inter slots (unionAll (before.map (·.2) ++ rest.map (·.2)))))
    simp only [List.map_append, List.map_cons, List.map_nil] at ih'
    simp only [List.map_cons, collectGo, List.map_append]
    simp only [mapEntry] at ih' h1 ⊢
    rw [h1, unionAll_map hg, inter_map hg, union_map hg, diff_map hg, ih']

theorem routineSets_map (hg : Function.Injective g) (p : Program) :
    (mapProgram g p).map (fun r => (r.1, routineSlots r.2)) =
      (p.map (fun r => (r.1, routineSlots r.2))).map (mapEntry g) := by
  simp [mapProgram, mapEntry, routineSlots_map hg, Function.comp_def]

theorem collectSlots_map (hg : Function.Injective g) (p : Program) :
    collectSlots (mapProgram g p) = ((collectSlots p).1.map g, (collectSlots p).2.map (mapEntry g)) := by
  unfold collectSlots
  rw [routineSets_map hg]
  exact collectGo_map hg [] _ []

theorem allSlots_map (hg : Function.Injective g) (p : Program) :
    allSlots (mapProgram g p) = (allSlots p).map g := by
  unfold allSlots
  simp only [collectSlots_map hg]
  have : ((collectSlots p).2.map (mapEntry g)).map (·.2) = ((collectSlots p).2.map (·.2)).map (List.map g) := by
    simp [mapEntry, Function.comp_def]
  rw [this, unionAll_map hg, union_map hg]

theorem reservedIdsCheck_map (hr : ∀ a, (g a).reserved = a.reserved)
    (hi : ∀ a, a.reserved = true → (g a).id = a.id) (l : List Slot) (ids : List Nat) :
    reservedIdsCheck (l.map g) ids = reservedIdsCheck l ids := by
  induction l generalizing ids with
  | nil => rfl
  | cons s rest ih =>
    simp only [List.map_cons, reservedIdsCheck, hr]
    cases hs : s.reserved with
    | false => simp [ih]
    | true => simp [hi s hs, ih]

theorem validateOps_map (hg : Function.Injective g) (inUse : List Slot) (ops : List Op) :
    validateOps (inUse.map g) (ops.map (mapOp g)) = validateOps inUse ops := by
  induction ops generalizing inUse with
  | nil => rfl
  | cons op rest ih =>
    simp only [List.map_cons, validateOps, mapOp_kind, opSlots_map]
    have e1 : (if op.kind = OpKind.store then (op.slots.map g).reverse ++ inUse.map g else inUse.map g) =
        (if op.kind = OpKind.store then op.slots.reverse ++ inUse else inUse).map g := by
      split <;> simp [List.map_append, List.map_reverse]
    rw [e1, ih, filter_not_mem_map hg, List.length_map]

theorem validateAll_map (hg : Function.Injective g) (gl : List Slot) (p : Program) :
    validateAll (gl.map g) (mapProgram g p) = validateAll gl p := by
  simp only [validateAll, mapProgram, List.all_map, Function.comp_def, validateOps_map hg]

theorem numberGo_map (hr : ∀ a, (g a).reserved = a.reserved)
    (hi : ∀ a, a.reserved = true → (g a).id = a.id) (next : Nat) (used : List Nat) (order : List Slot) :
    numberGo next used (order.map g) = (numberGo next used order).map (fun e => (g e.1, e.2)) := by
  induction order generalizing next used with
  | nil => rfl
  | cons s rest ih =>
    simp only [List.map_cons, numberGo, hr]
    cases hs : s.reserved with
    | true => simp [hi s hs, ih]
    | false => simp [ih]

theorem insertById_map (x : Slot) (l : List Slot)
    (h : ∀ y ∈ l, (x.id ≤ y.id ↔ (g x).id ≤ (g y).id)) :
    insertById (g x) (l.map g) = (insertById x l).map g := by
  induction l with
  | nil => rfl
  | cons y l ih =>
    have hy := h y List.mem_cons_self
    have ih := ih (fun z hz => h z (List.mem_cons_of_mem _ hz))
    simp only [List.map_cons, insertById]
    by_cases hle : x.id ≤ y.id
    · rw [if_pos hle, if_pos (hy.1 hle)]; rfl
    · rw [if_neg hle, if_neg (fun h' => hle (hy.2 h')), ih]; rfl

theorem sortById_map (l : List Slot)
    (h : ∀ a ∈ l, ∀ b ∈ l, (a.id ≤ b.id ↔ (g a).id ≤ (g b).id)) :
    sortById (l.map g) = (sortById l).map g := by
  induction l with
  | nil => rfl
  | cons x l ih =>
    have ih := ih (fun a ha b hb => h a (List.mem_cons_of_mem _ ha) b (List.mem_cons_of_mem _ hb))
    have hperm : (sortById l).Perm l := sortById_isReorder l
    show insertById (g x) (sortById (l.map g)) = (insertById x (sortById l)).map g
    rw [ih]
    exact insertById_map x _ (fun y hy =>
      h x List.mem_cons_self y (List.mem_cons_of_mem _ (hperm.mem_iff.1 hy)))

theorem lookupSlot_map (hg : Function.Injective g) (asg : List (Slot × Nat)) (s : Slot) :
    lookupSlot (asg.map (fun e => (g e.1, e.2))) (g s) = lookupSlot asg s := by
  unfold lookupSlot
  rw [List.find?_map]
  have : ((fun e : Slot × Nat => decide (e.1 = g s)) ∘ fun e : Slot × Nat => (g e.1, e.2)) = (fun e => decide (e.1 = s)) := by
    funext e
    simp only [Function.comp]
    by_cases h : e.1 = s
    · simp [h]
    · have : g e.1 ≠ g s := fun e' => h (hg e')
      simp [h, this]
  rw [this]
  cases asg.find? (fun e => decide (e.1 = s)) <;> rfl

theorem rewriteArgs_map (hg : Function.Injective g) (asg : List (Slot × Nat)) (args : List Arg) :
    rewriteArgs (asg.map (fun e => (g e.1, e.2))) (args.map (mapArg g)) = rewriteArgs asg args := by
  induction args with
  | nil => rfl
  | cons a rest ih =>
    cases a with
    | imm n => simp only [List.map_cons, mapArg, rewriteArgs, ih]
    | slot s => simp only [List.map_cons, mapArg, rewriteArgs, ih, lookupSlot_map hg]

theorem rewriteOps_map (hg : Function.Injective g) (asg : List (Slot × Nat)) (ops : List Op) :
    rewriteOps (asg.map (fun e => (g e.1, e.2))) (ops.map (mapOp g)) = rewriteOps asg ops := by
  induction ops with
  | nil => rfl
  | cons op rest ih =>
    simp only [List.map_cons, rewriteOps, ih]
    have : (mapOp g op).args = op.args.map (mapArg g) := rfl
    rw [this, rewriteArgs_map hg]
    rfl

theorem rewriteProgram_map (hg : Function.Injective g) (asg : List (Slot × Nat)) (p : Program) :
    rewriteProgram (asg.map (fun e => (g e.1, e.2))) (mapProgram g p) = rewriteProgram asg p := by
  induction p with
  | nil => rfl
  | cons r rest ih =>
    obtain ⟨k, ops⟩ := r
    have ih' : rewriteProgram (asg.map (fun e => (g e.1, e.2))) (rest.map (fun r => (r.1, r.2.map (mapOp g)))) =
        rewriteProgram asg rest := ih
    simp only [mapProgram, List.map_cons, rewriteProgram, rewriteOps_map hg, ih']

theorem lookupAll_map (hg : Function.Injective g) (asg : List (Slot × Nat)) (l : List Slot) :
    lookupAll (asg.map (fun e => (g e.1, e.2))) (l.map g) = lookupAll asg l := by
  induction l with
  | nil => rfl
  | cons s rest ih => simp only [List.map_cons, lookupAll, ih, lookupSlot_map hg]

theorem assignedLocals_map (hg : Function.Injective g) (asg : List (Slot × Nat)) (ls : List (Key × List Slot)) :
    assignedLocals (asg.map (fun e => (g e.1, e.2))) (ls.map (mapEntry g)) = assignedLocals asg ls := by
  induction ls with
  | nil => rfl
  | cons e rest ih =>
    obtain ⟨k, slots⟩ := e
    simp only [List.map_cons, assignedLocals, ih]
    simp only [mapEntry, lookupAll_map hg]

/-- the sorting function commutes with the renaming on the slot objects of the program -/
def SortCommutes (sortf : List Slot → List Slot) (g : Slot → Slot) (l : List Slot) : Prop :=
  sortf (l.map g) = (sortf l).map g

/-- **the slot assignment only sees the relative order of ids**: renaming the slot objects of a
    program by an order isomorphism renames the assignment and changes nothing else -/
theorem assignWith_rename {sortf : List Slot → List Slot} (p : Program)
    (hg : Function.Injective g) (hr : ∀ a, (g a).reserved = a.reserved)
    (hi : ∀ a, a.reserved = true → (g a).id = a.id)
    (hs : SortCommutes sortf g (allSlots p)) :
    assignWith sortf (mapProgram g p) = (assignWith sortf p).map (mapResult g) := by
  unfold assignWith
  simp only [allSlots_map hg, collectSlots_map hg, reservedIdsCheck_map hr hi, List.length_map,
    validateAll_map hg]
  cases hres : reservedIdsCheck (allSlots p) [] with
  | error e => rfl
  | ok ids =>
    simp only
    split
    · rfl
    · split
      · rfl
      · have hasg : numberLoop ids (sortf ((allSlots p).map g)) =
            (numberLoop ids (sortf (allSlots p))).map (fun e => (g e.1, e.2)) := by
          unfold numberLoop
          rw [hs, numberGo_map hr hi]
        rw [hasg, rewriteProgram_map hg, assignedLocals_map hg]
        cases rewriteProgram (numberLoop ids (sortf (allSlots p))) p with
        | error e => rfl
        | ok prog =>
          simp only
          cases assignedLocals (numberLoop ids (sortf (allSlots p))) (collectSlots p).2 with
          | error e => rfl
          | ok locals => rfl

theorem assignSlots_rename (p : Program) (h : OrderIso g (allSlots p)) :
    assignSlots (mapProgram g p) = (assignSlots p).map (mapResult g) :=
  assignWith_rename p h.inj h.reserved h.rid (sortById_map _ h.mono)

/-- numbers are read off the renamed result at the renamed object -/
theorem number_mapResult (hg : Function.Injective g) (r : Result) (s : Slot) :
    (mapResult g r).number (g s) = r.number s := by
  unfold Result.number mapResult
  simp only
  rw [List.find?_map]
  have : ((fun e : Slot × Nat => decide (e.1 = g s)) ∘ fun e : Slot × Nat => (g e.1, e.2)) = (fun e => decide (e.1 = s)) := by
    funext e
    simp only [Function.comp]
    by_cases h : e.1 = s
    · simp [h]
    · have : g e.1 ≠ g s := fun e' => h (hg e')
      simp [h, this]
  rw [this]
  cases r.assignment.find? (fun e => decide (e.1 = s)) <;> rfl

end Rename

/-! ## Distinct ids: the tie-break of `sorted(allSlots, key=id)` cannot show -/

/-- `sortf` returns its argument sorted by id (what `sorted(set, key=id)` guarantees, whatever the
    iteration order of the set) -/
def IsSortById (sortf : List Slot → List Slot) : Prop :=
  ∀ l, (sortf l).Perm l ∧ (sortf l).Pairwise (fun a b => a.id ≤ b.id)

theorem sortById_isSortById : IsSortById sortById :=
  fun l => ⟨sortById_isReorder l, sortById_sorted l⟩

/-- sorting the reversed list is another valid result of `sorted(set, key=id)` -/
theorem sortById_reverse_isSortById : IsSortById (fun l => sortById l.reverse) :=
  fun l => ⟨(sortById_isReorder l.reverse).trans (List.reverse_perm l), sortById_sorted l.reverse⟩

theorem sorted_unique {sortf : List Slot → List Slot} (hs : IsSortById sortf) (l : List Slot)
    (hd : (l.map (·.id)).Nodup) : sortf l = sortById l := by
  have h1 := hs l
  have h2 := sortById_isSortById l
  refine List.Perm.eq_of_pairwise (le := fun a b => a.id ≤ b.id) ?_ h1.2 h2.2 (h1.1.trans h2.1.symm)
  intro a b ha hb hab hba
  have ha' : a ∈ l := h1.1.mem_iff.1 ha
  have hb' : b ∈ l := h2.1.mem_iff.1 hb
  exact eq_of_nodup_map hd ha' hb' (Nat.le_antisymm hab hba)

/-- with pairwise different ids every sort-by-id gives the assignment of the model's stable sort -/
theorem assignWith_tiebreak_irrelevant {sortf : List Slot → List Slot} (hs : IsSortById sortf) (p : Program)
    (hd : ((allSlots p).map (·.id)).Nodup) : assignWith sortf p = assignSlots p := by
  simp only [assignSlots, assignWith, sorted_unique hs _ hd]

end PyTealV.Proofs.C11Rename
