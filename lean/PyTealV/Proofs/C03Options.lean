/-
  C03 — "compile options change cost and shape, never behaviour", as a theorem for the fragment
  of the validated-compilation theorems (scratch-slot optimiser off; C03's optimiser theorem is
  `Proofs/C03Opt.lean`).

  The same source program `p` is compiled to `P1` under one setting (program version `v1`,
  calling convention `fp1`) and to `P2` under another (`v2`, `fp2`: frame pointers on/off, or two
  versions).  If both outputs satisfy the composed hypotheses for the ORIGINAL program
  (`Check.originalB`: certificate accepted, graphs are the generator's, renamed program in the
  fragment, renaming admissible — all evaluated by the driver on every generated program), then for
  every context, every initial world (with `StartOk` for both slot assignments: e.g. empty scratch
  space) and every fuel:

    * when `Src.runProg` of `p` ends `.done v w`, BOTH AVM runs end `.done v _` (or hit the
      operand-stack limit, the one deviation of the compilation theorems), and the two final AVM
      worlds are equal on effects, globals, locals, boxes, inner transactions, hold the same
      value for every variable of the program — each in the slot its compilation chose — and in
      particular have equal contents in every user-numbered slot (`AgreeW`, `AgreeW.requested`);
    * when the source run fails, both AVM runs fail.

  Both outputs are related THROUGH the source semantics of the one program `p`; this is possible
  only because the compilation theorems now speak about `p` itself and not about its two
  differently renamed forms (`Proofs/Rename.lean`).

  Not covered: programs outside the fragments of the composed theorems; the scratch-slot optimiser
  (`optimize.scratch_slots=True`); `assembleConstants`; `Avm.parse` of the two texts.
-/
import PyTealV.Proofs.CompileOriginal
namespace PyTealV.Proofs.C03Options
open PyTealV PyTealV.Avm PyTealV.Src PyTealV.Comp PyTealV.Check PyTealV.Models.FragmentR
open PyTealV.Proofs.Rename PyTealV.Proofs.CompileOriginal

/-- two AVM final worlds: everything but scratch space equal; every variable of the program (no
    by-reference parameter cell, not ignored under either convention) has the same value, in the
    slot of the first resp. second compilation -/
def AgreeW (p : Prog) (f1 f2 : Nat → Nat) (I1 I2 : List Nat) (w1 w2 : World) : Prop :=
  w2 = { w1 with scratch := w2.scratch } ∧
  ∀ v, v ∈ varsP p → v ∉ allRefSlots p → f1 v ∉ I1 → f2 v ∉ I2 → getSlot w1.scratch (f1 v) = getSlot w2.scratch (f2 v)

theorem agree_of_finalRel {p : Prog} {f1 f2 : Nat → Nat} {I1 I2 : List Nat} {w w1 w2 : World}
    (h1 : FinalRel f1 p I1 w w1) (h2 : FinalRel f2 p I2 w w2) : AgreeW p f1 f2 I1 I2 w1 w2 := by
  refine ⟨?_, fun v hv hnr hi1 hi2 => ?_⟩
  · have a := h1.1
    have b := h2.1
    rw [b, a]
  · rw [← h1.2 v hv hnr hi1, ← h2.2 v hv hnr hi2]

/-- everything but scratch space is equal -/
theorem AgreeW.effects {p : Prog} {f1 f2 : Nat → Nat} {I1 I2 : List Nat} {w1 w2 : World} (h : AgreeW p f1 f2 I1 I2 w1 w2) :
    w2.effects = w1.effects ∧ w2.globals = w1.globals ∧ w2.locals = w1.locals ∧ w2.boxes = w1.boxes ∧
      w2.itxnB = w1.itxnB ∧ w2.lastItxn = w1.lastItxn := by
  have := h.1
  rw [this]
  exact ⟨rfl, rfl, rfl, rfl, rfl, rfl⟩

/-- user-numbered slots of the program hold the same value after both runs -/
theorem AgreeW.requested {p : Prog} {f1 f2 : Nat → Nat} {I1 I2 : List Nat} {w1 w2 : World} (h : AgreeW p f1 f2 I1 I2 w1 w2)
    (hr1 : renameOk f1 p = true) (hr2 : renameOk f2 p = true) {v : Nat} (hv : v ∈ varsP p) (hlt : v < 256)
    (hnr : v ∉ allRefSlots p) (hi1 : v ∉ I1) (hi2 : v ∉ I2) : getSlot w1.scratch v = getSlot w2.scratch v := by
  have e1 := fixes_of_renameOk hr1 hv hlt
  have e2 := fixes_of_renameOk hr2 hv hlt
  have := h.2 v hv hnr (by rw [e1]; exact hi1) (by rw [e2]; exact hi2)
  rw [e1, e2] at this
  exact this

theorem combine {o : Outcome} {Q1 Q2 : Val → World → Prop} {F1 F2 : Prop} (h1 : OutSpec Q1 F1 o) (h2 : OutSpec Q2 F2 o) :
    OutSpec (fun v w => Q1 v w ∧ Q2 v w) (F1 ∧ F2) o := by
  cases o with
  | done v w => exact ⟨h1, h2⟩
  | fail f => cases f <;> first | exact ⟨h1, h2⟩ | trivial
  | outOfFuel => trivial

/-- **Option independence** (by-value parameters; recursion allowed): two compilations of the same
    program, each with `composedOk` for its renamed form and an admissible renaming. -/
theorem options_independent (v1 v2 : Nat) (fp1 fp2 : Bool) (p : Prog) (f1 f2 : Nat → Nat) (P1 P2 : Program) (c1 c2 : ProgCert)
    (hr1 : renameOk f1 p = true) (h1 : composedOk v1 fp1 (renameProg f1 p) P1 c1 = true)
    (hr2 : renameOk f2 p = true) (h2 : composedOk v2 fp2 (renameProg f2 p) P2 c2 = true)
    (cx : Ctx) (w0 : World) (fuel : Nat) (h01 : StartOk f1 (varsP p) w0) (h02 : StartOk f2 (varsP p) w0) :
    match Src.runProg cx p fuel w0 with
    | .done v w =>
      (∃ n, (∃ w1, FinalRel f1 p (ignOf fp1 (renameProg f1 p)) w w1 ∧ Avm.run cx P1 n w0 = .done v w1)
              ∨ Avm.run cx P1 n w0 = .fail (.logic "stack overflow")) ∧
      (∃ n, (∃ w2, FinalRel f2 p (ignOf fp2 (renameProg f2 p)) w w2 ∧ Avm.run cx P2 n w0 = .done v w2)
              ∨ Avm.run cx P2 n w0 = .fail (.logic "stack overflow"))
    | .fail (.unmodelled _) => True
    | .fail _ => (∃ n f, Avm.run cx P1 n w0 = .fail f) ∧ (∃ n f, Avm.run cx P2 n w0 = .fail f)
    | .outOfFuel => True := by
  have a := compile_correct_original_prog v1 fp1 p f1 P1 c1 hr1 h1 cx w0 fuel h01
  have b := compile_correct_original_prog v2 fp2 p f2 P2 c2 hr2 h2 cx w0 fuel h02
  have := combine (Q1 := _) (F1 := _) (Q2 := _) (F2 := _) a b
  revert this
  cases Src.runProg cx p fuel w0 with
  | done v w => exact id
  | fail f => cases f <;> exact id
  | outOfFuel => exact id

/-- **Option independence under the by-reference discipline** (by-reference parameters). -/
theorem options_independent_ref (v1 v2 : Nat) (fp1 fp2 : Bool) (p : Prog) (f1 f2 : Nat → Nat) (P1 P2 : Program) (c1 c2 : ProgCert)
    (hr1 : renameOk f1 p = true) (h1 : composedOk v1 fp1 (renameProg f1 p) P1 c1 true true = true)
    (hr2 : renameOk f2 p = true) (h2 : composedOk v2 fp2 (renameProg f2 p) P2 c2 true true = true)
    (cx : Ctx) (w0 : World) (fuel : Nat) (h01 : StartOk f1 (varsP p) w0) (h02 : StartOk f2 (varsP p) w0) :
    match Src.runProg cx p fuel w0 with
    | .done v w =>
      (∃ n, (∃ w1, FinalRel f1 p (ignOf fp1 (renameProg f1 p) true) w w1 ∧ Avm.run cx P1 n w0 = .done v w1)
              ∨ Avm.run cx P1 n w0 = .fail (.logic "stack overflow")) ∧
      (∃ n, (∃ w2, FinalRel f2 p (ignOf fp2 (renameProg f2 p) true) w w2 ∧ Avm.run cx P2 n w0 = .done v w2)
              ∨ Avm.run cx P2 n w0 = .fail (.logic "stack overflow"))
    | .fail (.unmodelled _) => True
    | .fail _ => (∃ n f, Avm.run cx P1 n w0 = .fail f) ∧ (∃ n f, Avm.run cx P2 n w0 = .fail f)
    | .outOfFuel => True := by
  have a := compile_correct_original_prog_ref v1 fp1 p f1 P1 c1 hr1 h1 cx w0 fuel h01
  have b := compile_correct_original_prog_ref v2 fp2 p f2 P2 c2 hr2 h2 cx w0 fuel h02
  have := combine (Q1 := _) (F1 := _) (Q2 := _) (F2 := _) a b
  revert this
  cases Src.runProg cx p fuel w0 with
  | done v w => exact id
  | fail f => cases f <;> exact id
  | outOfFuel => exact id

/-- **The form the driver evaluates**: both outputs are reported `original=true` by `composed-sexp`
    (`dyn = strict = false`: by-value parameters; `true`: by-reference discipline); every execution
    starts from an empty scratch space.  Normal completion of the source run: each AVM run returns
    the same value or hits the operand-stack limit, and if both return, the final worlds agree. -/
theorem options_agree (v1 v2 : Nat) (fp1 fp2 ds : Bool) (p : Prog) (P1 P2 : Program)
    (h1 : originalB v1 fp1 p P1 ds ds = true) (h2 : originalB v2 fp2 p P2 ds ds = true) :
    ∃ f1 f2 I1 I2, renameOk f1 p = true ∧ renameOk f2 p = true ∧
      ∀ (cx : Ctx) (w0 : World) (fuel : Nat), w0.scratch = [] →
        match Src.runProg cx p fuel w0 with
        | .done v _ =>
          ∃ n1 n2, Avm.run cx P1 n1 w0 = .fail (.logic "stack overflow") ∨ Avm.run cx P2 n2 w0 = .fail (.logic "stack overflow") ∨
            ∃ w1 w2, Avm.run cx P1 n1 w0 = .done v w1 ∧ Avm.run cx P2 n2 w0 = .done v w2 ∧ AgreeW p f1 f2 I1 I2 w1 w2
        | .fail (.unmodelled _) => True
        | .fail _ => (∃ n f, Avm.run cx P1 n w0 = .fail f) ∧ (∃ n f, Avm.run cx P2 n w0 = .fail f)
        | .outOfFuel => True := by
  obtain ⟨bs1, c1, _, hr1, hc1⟩ := originalB_spec h1
  obtain ⟨bs2, c2, _, hr2, hc2⟩ := originalB_spec h2
  cases ds with
  | false =>
    refine ⟨applyBindings bs1, applyBindings bs2, ignOf fp1 (renameProg (applyBindings bs1) p), ignOf fp2 (renameProg (applyBindings bs2) p),
      hr1, hr2, fun cx w0 fuel h0 => ?_⟩
    have := options_independent v1 v2 fp1 fp2 p _ _ P1 P2 c1 c2 hr1 hc1 hr2 hc2 cx w0 fuel
      (startOk_empty _ _ w0 h0) (startOk_empty _ _ w0 h0)
    revert this
    cases Src.runProg cx p fuel w0 with
    | done v w =>
      rintro ⟨⟨n1, a⟩, ⟨n2, b⟩⟩
      refine ⟨n1, n2, ?_⟩
      rcases a with ⟨w1, hf1, hrun1⟩ | a
      · rcases b with ⟨w2, hf2, hrun2⟩ | b
        · exact .inr (.inr ⟨w1, w2, hrun1, hrun2, agree_of_finalRel hf1 hf2⟩)
        · exact .inr (.inl b)
      · exact .inl a
    | fail f => cases f <;> exact id
    | outOfFuel => exact id
  | true =>
    refine ⟨applyBindings bs1, applyBindings bs2, ignOf fp1 (renameProg (applyBindings bs1) p) true,
      ignOf fp2 (renameProg (applyBindings bs2) p) true, hr1, hr2, fun cx w0 fuel h0 => ?_⟩
    have := options_independent_ref v1 v2 fp1 fp2 p _ _ P1 P2 c1 c2 hr1 hc1 hr2 hc2 cx w0 fuel
      (startOk_empty _ _ w0 h0) (startOk_empty _ _ w0 h0)
    revert this
    cases Src.runProg cx p fuel w0 with
    | done v w =>
      rintro ⟨⟨n1, a⟩, ⟨n2, b⟩⟩
      refine ⟨n1, n2, ?_⟩
      rcases a with ⟨w1, hf1, hrun1⟩ | a
      · rcases b with ⟨w2, hf2, hrun2⟩ | b
        · exact .inr (.inr ⟨w1, w2, hrun1, hrun2, agree_of_finalRel hf1 hf2⟩)
        · exact .inr (.inl b)
      · exact .inl a
    | fail f => cases f <;> exact id
    | outOfFuel => exact id

/-! ### Non-vacuity: the two real outputs of `CompileOriginal.optProg` (version 6, scratch-slot
    convention: `w ↦ 0, a ↦ 1, b ↦ 2, t ↦ 3`; version 8, frame pointers: `w ↦ 0, t ↦ 1`, parameters in
    the frame; the user-numbered slot 7 in both) and of the by-reference program `incProg0` -/

example : ∃ f1 f2 I1 I2, renameOk f1 optProg = true ∧ renameOk f2 optProg = true ∧
    ∀ (cx : Ctx) (w0 : World) (fuel : Nat), w0.scratch = [] →
      match Src.runProg cx optProg fuel w0 with
      | .done v _ =>
        ∃ n1 n2, Avm.run cx optTeal6 n1 w0 = .fail (.logic "stack overflow") ∨ Avm.run cx optTeal8 n2 w0 = .fail (.logic "stack overflow") ∨
          ∃ w1 w2, Avm.run cx optTeal6 n1 w0 = .done v w1 ∧ Avm.run cx optTeal8 n2 w0 = .done v w2 ∧ AgreeW optProg f1 f2 I1 I2 w1 w2
      | .fail (.unmodelled _) => True
      | .fail _ => (∃ n f, Avm.run cx optTeal6 n w0 = .fail f) ∧ (∃ n f, Avm.run cx optTeal8 n w0 = .fail f)
      | .outOfFuel => True :=
  options_agree 6 8 false true false optProg optTeal6 optTeal8 optTeal6_original optTeal8_original

example : ∃ f1 f2 I1 I2, renameOk f1 C02Compile.incProg0 = true ∧ renameOk f2 C02Compile.incProg0 = true ∧
    ∀ (cx : Ctx) (w0 : World) (fuel : Nat), w0.scratch = [] →
      match Src.runProg cx C02Compile.incProg0 fuel w0 with
      | .done v _ =>
        ∃ n1 n2, Avm.run cx C02Compile.incTeal n1 w0 = .fail (.logic "stack overflow") ∨
          Avm.run cx C02Compile.inc8Teal n2 w0 = .fail (.logic "stack overflow") ∨
          ∃ w1 w2, Avm.run cx C02Compile.incTeal n1 w0 = .done v w1 ∧ Avm.run cx C02Compile.inc8Teal n2 w0 = .done v w2 ∧
            AgreeW C02Compile.incProg0 f1 f2 I1 I2 w1 w2
      | .fail (.unmodelled _) => True
      | .fail _ => (∃ n f, Avm.run cx C02Compile.incTeal n w0 = .fail f) ∧ (∃ n f, Avm.run cx C02Compile.inc8Teal n w0 = .fail f)
      | .outOfFuel => True :=
  options_agree 6 8 false true true C02Compile.incProg0 C02Compile.incTeal C02Compile.inc8Teal incTeal_original inc8Teal_original

/-- the statement is about something: the source run of `optProg` terminates (value 50) and the two
    real outputs, executed, return 50 with slot 7 = 1 in both final worlds (`t` = 7 in slot 3 resp. 1) -/
example : (∃ w, Src.runProg {} optProg 20 {} = .done (.u 50) w) ∧
    (match Avm.run {} optTeal6 100 {} with
      | .done v w1 => v == .u 50 && getSlot w1.scratch 7 == .u 1 && getSlot w1.scratch 3 == .u 7
      | _ => false) = true ∧
    (match Avm.run {} optTeal8 100 {} with
      | .done v w2 => v == .u 50 && getSlot w2.scratch 7 == .u 1 && getSlot w2.scratch 1 == .u 7
      | _ => false) = true := by
  refine ⟨⟨_, rfl⟩, ?_, ?_⟩ <;> decide +kernel

end PyTealV.Proofs.C03Options
