/-
  Validated compilation, stated for the ORIGINAL program (the one the harness renders from the
  user's PyTeal expression) instead of the renamed one: compositions of
  `C01.compile_correct_validated` / `C02Compile.compile_correct_validated_prog[_ref]` with the
  renaming invariance of the source semantics (`Proofs/Rename.lean`).

  Relation between the final world `w` of the source run of the original program and the final
  world `w'` of the AVM run of the real TEAL (`FinalRel f p I w w'`):
    * effects, globals, locals, boxes, inner transactions: equal;
    * scratch: for every variable `v` of the program that is no by-reference parameter cell and
      whose slot `f v` is not ignored (`I`: under the frame-pointer convention the by-value
      parameter cells, which the generated code keeps in the stack frame), cell `v` of the source
      world = slot `f v` of the AVM;
    * user-numbered slots (variables with a key `< 256`): they are never renamed (`renameOk`), so
      the contents of slot `v` are EQUAL in both worlds (`FinalRel.requested`).
  Nothing is said about slots that the program does not mention, nor about by-reference parameter
  cells (they hold slot numbers: `index s` in the source world, the slot of `s` in the AVM).

  Initial world: `StartOk f (varsP p) w0` — cell `v` and cell `f v` of `w0` agree for every
  variable of the program; true for the empty scratch space every execution starts from
  (`Rename.startOk_empty`; the `_empty` corollaries).
-/
import PyTealV.Proofs.Rename
import PyTealV.Proofs.C01
import PyTealV.Proofs.C02Compile
import PyTealV.Check.Validate
namespace PyTealV.Proofs.CompileOriginal
open PyTealV PyTealV.Avm PyTealV.Src PyTealV.Comp PyTealV.Check PyTealV.Models.FragmentR PyTealV.Models.Fragment
open PyTealV.Proofs.Rename PyTealV.Proofs.C02Gen

/-- final world of the original source run vs final world of the AVM run (see the header) -/
def FinalRel (f : Nat → Nat) (p : Prog) (I : List Nat) (w w' : World) : Prop :=
  w' = { w with scratch := w'.scratch } ∧
  ∀ v, v ∈ varsP p → v ∉ allRefSlots p → f v ∉ I → getSlot w.scratch v = getSlot w'.scratch (f v)

/-- everything but scratch space is equal -/
theorem FinalRel.effects {f : Nat → Nat} {p : Prog} {I : List Nat} {w w' : World} (h : FinalRel f p I w w') :
    w'.effects = w.effects ∧ w'.globals = w.globals ∧ w'.locals = w.locals ∧ w'.boxes = w.boxes ∧
      w'.itxnB = w.itxnB ∧ w'.lastItxn = w.lastItxn := by
  have := h.1
  rw [this]
  exact ⟨rfl, rfl, rfl, rfl, rfl, rfl⟩

/-- user-numbered slots: equal contents -/
theorem FinalRel.requested {f : Nat → Nat} {p : Prog} {I : List Nat} {w w' : World} (h : FinalRel f p I w w')
    (hr : renameOk f p = true) {v : Nat} (hv : v ∈ varsP p) (hlt : v < 256) (hnr : v ∉ allRefSlots p) (hI : v ∉ I) :
    getSlot w.scratch v = getSlot w'.scratch v := by
  have hf := fixes_of_renameOk hr hv hlt
  have := h.2 v hv hnr (by rw [hf]; exact hI)
  rw [this, hf]

theorem finalRel_of {cx : Ctx} {p : Prog} {f : Nat → Nat} {S : Nat → Prop} {I : List Nat} {w w1 w' : World}
    (h1 : WR ⟨cx, p, f⟩ S w w1) (h2 : SameW I w1 w') : FinalRel f p I w w' := by
  refine ⟨?_, fun v hv hnr hI => ?_⟩
  · have a := h1.rest
    have b := h2.2
    rw [b, a]
  · rw [h1.var (C := ⟨cx, p, f⟩) hv hnr]
    exact h2.1 _ hI

/-- the shape of the validated-compilation statements: `Q` on normal completion, `F` on failure -/
def OutSpec (Q : Val → World → Prop) (F : Prop) : Outcome → Prop
  | .done v w => Q v w
  | .fail (.unmodelled _) => True
  | .fail _ => F
  | .outOfFuel => True

/-- transfer of a statement about the renamed program's outcome to the original program's -/
theorem transfer {C : RCtx} {o1 o2 : Outcome} (hrel : OutRel C o1 o2) {Q : Val → World → Prop} {F : Prop}
    (h2 : OutSpec Q F o2) : OutSpec (fun v w => ∃ w1, WR C (fun _ => False) w w1 ∧ Q v w1) F o1 := by
  cases o1 with
  | done v w =>
    cases o2 with
    | done v' w' =>
      obtain ⟨rfl, hW⟩ := hrel
      exact ⟨w', hW, h2⟩
    | _ => cases hrel
  | fail f =>
    cases o2 with
    | fail f' =>
      have : f' = f := hrel
      subst this
      cases f' <;> exact h2
    | _ => cases hrel
  | outOfFuel => trivial

/-! ### C01: call-free programs -/

/-- **`compile_correct_validated` for the original tree.**  `bs`: the bindings `validateMain`
    discovered; `hg`, `hf`, `hc`: what `validateMain` establishes for the renamed tree;
    `hr`: the renaming is injective on the variables of the tree, fixes the requested slots, and the
    tree reaches scratch space through its variables only. -/
theorem compile_correct_original (version : Nat) (e : Expr) (f : Nat → Nat) (P : Program) (G : Graph) (s : Nat) (V : Rel)
    (hr : renameOk f { subs := [], main := e } = true)
    (hg : genMain { version := version } (renameVars f e) = .ok (G, s))
    (hf : inFragment (renameVars f e) = true)
    (hc : closed G s P V = true)
    (cx : Ctx) (w0 : World) (fuel : Nat) (h0 : StartOk f (varsP { subs := [], main := e }) w0) :
    match Src.runProg cx { subs := [], main := e } fuel w0 with
    | .done v w => ∃ n, (∃ w', FinalRel f { subs := [], main := e } [] w w' ∧ Avm.run cx P n w0 = .done v w')
                    ∨ Avm.run cx P n w0 = .fail (.logic "stack overflow")
    | .fail (.unmodelled _) => True
    | .fail _ => ∃ n f, Avm.run cx P n w0 = .fail f
    | .outOfFuel => True := by
  have hrel := runProg_rename_same cx { subs := [], main := e } f hr fuel w0 h0
  have hv := C01.compile_correct_validated version (renameVars f e) P G s V hg hf hc cx w0 fuel
  have e1 : renameProg f { subs := [], main := e } = { subs := [], main := renameVars f e } := rfl
  rw [e1] at hrel
  have := transfer hrel (Q := _) (F := _) hv
  revert this
  cases Src.runProg cx { subs := [], main := e } fuel w0 with
  | done v w =>
    rintro ⟨w1, hW, n, h | h⟩
    · exact ⟨n, .inl ⟨w1, finalRel_of hW (SameW.refl [] w1), h⟩⟩
    · exact ⟨n, .inr h⟩
  | fail f => cases f <;> exact id
  | outOfFuel => exact id

/-- the same from the empty scratch space -/
theorem compile_correct_original_empty (version : Nat) (e : Expr) (f : Nat → Nat) (P : Program) (G : Graph) (s : Nat) (V : Rel)
    (hr : renameOk f { subs := [], main := e } = true)
    (hg : genMain { version := version } (renameVars f e) = .ok (G, s))
    (hf : inFragment (renameVars f e) = true)
    (hc : closed G s P V = true)
    (cx : Ctx) (w0 : World) (fuel : Nat) (h0 : w0.scratch = []) :
    match Src.runProg cx { subs := [], main := e } fuel w0 with
    | .done v w => ∃ n, (∃ w', FinalRel f { subs := [], main := e } [] w w' ∧ Avm.run cx P n w0 = .done v w')
                    ∨ Avm.run cx P n w0 = .fail (.logic "stack overflow")
    | .fail (.unmodelled _) => True
    | .fail _ => ∃ n f, Avm.run cx P n w0 = .fail f
    | .outOfFuel => True :=
  compile_correct_original version e f P G s V hr hg hf hc cx w0 fuel (startOk_empty f _ w0 h0)

theorem validateMain_ok {version : Nat} {e : Expr} {P : Program} {r : Validated} (h : validateMain version e P = .ok r) :
    ∃ G s V, genMain { version := version } (renameVars (applyBindings r.bindings) e) = .ok (G, s) ∧ closed G s P V = true ∧
      r.inFragment = inFragment (renameVars (applyBindings r.bindings) e) := by
  unfold validateMain at h
  simp only [bind, Except.bind, pure, Except.pure] at h
  split at h
  · cases h
  · rename_i G0s0 _
    split at h
    · cases h
    · rename_i V0 _
      split at h
      · cases h
      · split at h
        · cases h
        · rename_i Gs hGs
          split at h
          · cases h
          · rename_i V _
            split at h
            · rename_i hcl
              cases h
              exact ⟨Gs.1, Gs.2, V, hGs, hcl, rfl⟩
            · cases h

/-- **the form the driver evaluates** (`c01-original`): `originalMainB version e P = true` -/
theorem compile_correct_originalMainB (version : Nat) (e : Expr) (P : Program) (h : originalMainB version e P = true) :
    ∃ f, renameOk f { subs := [], main := e } = true ∧
      ∀ (cx : Ctx) (w0 : World) (fuel : Nat), StartOk f (varsP { subs := [], main := e }) w0 →
        match Src.runProg cx { subs := [], main := e } fuel w0 with
        | .done v w => ∃ n, (∃ w', FinalRel f { subs := [], main := e } [] w w' ∧ Avm.run cx P n w0 = .done v w')
                        ∨ Avm.run cx P n w0 = .fail (.logic "stack overflow")
        | .fail (.unmodelled _) => True
        | .fail _ => ∃ n f, Avm.run cx P n w0 = .fail f
        | .outOfFuel => True := by
  unfold originalMainB at h
  cases hv : validateMain version e P with
  | error _ => rw [hv] at h; cases h
  | ok r =>
    rw [hv] at h
    simp only [Bool.and_eq_true] at h
    obtain ⟨G, s, V, hg, hc, hfr⟩ := validateMain_ok hv
    exact ⟨applyBindings r.bindings, h.2, fun cx w0 fuel h0 =>
      compile_correct_original version e _ P G s V h.2 hg (by rw [← hfr]; exact h.1) hc cx w0 fuel h0⟩

/-! ### C02: programs with subroutines, both calling conventions -/

/-- **`compile_correct_validated_prog` for the original program** (by-value parameters; recursion
    allowed; `fp`: frame-pointer convention). -/
theorem compile_correct_original_prog (version : Nat) (fp : Bool) (p : Prog) (f : Nat → Nat) (P : Program) (c : ProgCert)
    (hr : renameOk f p = true) (h : composedOk version fp (renameProg f p) P c = true)
    (cx : Ctx) (w0 : World) (fuel : Nat) (h0 : StartOk f (varsP p) w0) :
    match Src.runProg cx p fuel w0 with
    | .done v w => ∃ n, (∃ w', FinalRel f p (ignOf fp (renameProg f p)) w w' ∧ Avm.run cx P n w0 = .done v w')
                    ∨ Avm.run cx P n w0 = .fail (.logic "stack overflow")
    | .fail (.unmodelled _) => True
    | .fail _ => ∃ n f, Avm.run cx P n w0 = .fail f
    | .outOfFuel => True := by
  have hrel := runProg_rename_same cx p f hr fuel w0 h0
  have hv := C02Compile.compile_correct_validated_prog version fp (renameProg f p) P c h cx w0 fuel
  have := transfer hrel (Q := _) (F := _) hv
  revert this
  cases Src.runProg cx p fuel w0 with
  | done v w =>
    rintro ⟨w1, hW, n, ⟨w', hS, h⟩ | h⟩
    · exact ⟨n, .inl ⟨w', finalRel_of hW hS, h⟩⟩
    · exact ⟨n, .inr h⟩
  | fail f => cases f <;> exact id
  | outOfFuel => exact id

/-- **`compile_correct_validated_prog_ref` for the original program** (by-reference parameters under
    the by-reference discipline, both conventions). -/
theorem compile_correct_original_prog_ref (version : Nat) (fp : Bool) (p : Prog) (f : Nat → Nat) (P : Program) (c : ProgCert)
    (hr : renameOk f p = true) (h : composedOk version fp (renameProg f p) P c true true = true)
    (cx : Ctx) (w0 : World) (fuel : Nat) (h0 : StartOk f (varsP p) w0) :
    match Src.runProg cx p fuel w0 with
    | .done v w => ∃ n, (∃ w', FinalRel f p (ignOf fp (renameProg f p) true) w w' ∧ Avm.run cx P n w0 = .done v w')
                    ∨ Avm.run cx P n w0 = .fail (.logic "stack overflow")
    | .fail (.unmodelled _) => True
    | .fail _ => ∃ n f, Avm.run cx P n w0 = .fail f
    | .outOfFuel => True := by
  have hrel := runProg_rename_same cx p f hr fuel w0 h0
  have hv := C02Compile.compile_correct_validated_prog_ref version fp (renameProg f p) P c h cx w0 fuel
  have := transfer hrel (Q := _) (F := _) hv
  revert this
  cases Src.runProg cx p fuel w0 with
  | done v w =>
    rintro ⟨w1, hW, n, ⟨w', hS, h⟩ | h⟩
    · exact ⟨n, .inl ⟨w', finalRel_of hW hS, h⟩⟩
    · exact ⟨n, .inr h⟩
  | fail f => cases f <;> exact id
  | outOfFuel => exact id

/-- **`compile_correct_validated_prog_dyn_partial` for the original program — PARTIAL** as that
    theorem (run-time addressed slots, scratch-slot convention: the range check of the generated
    `loads` / `stores` is an additional permitted deviation).  `renameOk` still demands that the
    address operands are references, so this adds nothing over `_ref` except that the fragment
    flags of the by-reference discipline need not hold for the renamed program. -/
theorem compile_correct_original_prog_dyn_partial (version : Nat) (p : Prog) (f : Nat → Nat) (P : Program) (c : ProgCert)
    (hr : renameOk f p = true) (h : composedOk version false (renameProg f p) P c true = true)
    (cx : Ctx) (w0 : World) (fuel : Nat) (h0 : StartOk f (varsP p) w0) :
    match Src.runProg cx p fuel w0 with
    | .done v w => ∃ n, (∃ w', FinalRel f p [] w w' ∧ Avm.run cx P n w0 = .done v w')
                    ∨ Avm.run cx P n w0 = .fail (.logic "stack overflow")
                    ∨ Avm.run cx P n w0 = .fail (.logic "loads slot out of range")
                    ∨ Avm.run cx P n w0 = .fail (.logic "stores slot out of range")
    | .fail (.unmodelled _) => True
    | .fail _ => ∃ n f, Avm.run cx P n w0 = .fail f
    | .outOfFuel => True := by
  have hrel := runProg_rename_same cx p f hr fuel w0 h0
  have hv := C02Compile.compile_correct_validated_prog_dyn_partial version (renameProg f p) P c h cx w0 fuel
  have := transfer hrel (Q := _) (F := _) hv
  revert this
  cases Src.runProg cx p fuel w0 with
  | done v w =>
    rintro ⟨w1, hW, n, ⟨w', hS, h⟩ | h⟩
    · exact ⟨n, .inl ⟨w', finalRel_of hW hS, h⟩⟩
    · exact ⟨n, .inr h⟩
  | fail f => cases f <;> exact id
  | outOfFuel => exact id

/-! ### the forms the driver evaluates (`composed-sexp … original=true`) -/

/-- the driver computes `original` as `renameOkB && (the composed check that succeeded)` -/
theorem originalB_eq (version : Nat) (fp dyn strict : Bool) (p : Prog) (P : Program) :
    originalB version fp p P dyn strict = (renameOkB version fp p P && composedB version fp p P dyn strict) := by
  unfold originalB renameOkB
  cases bindingsProg version fp p P <;> simp

/-- `renamedProg` applies the bindings of `bindingsProg` -/
theorem renamedProg_eq (version : Nat) (fp : Bool) (p : Prog) (P : Program) :
    renamedProg version fp p P = (bindingsProg version fp p P).map (fun bs => renameProg (applyBindings bs) p) := by
  unfold renamedProg bindingsProg
  simp only [bind, Except.bind, pure, Except.pure, Except.map]
  cases genMainR version true p with
  | error _ => rfl
  | ok m0 =>
    simp only []
    generalize Except.mapError _ (explore P looseEqR m0 _ _) = X
    cases X with
    | error _ => rfl
    | ok x =>
      simp only []
      split <;> rfl

/-- from `originalB … = true`: the bindings, `renameOk`, and a certificate with `composedOk` -/
theorem originalB_spec {version : Nat} {fp dyn strict : Bool} {p : Prog} {P : Program}
    (h : originalB version fp p P dyn strict = true) :
    ∃ bs c, bindingsProg version fp p P = .ok bs ∧ renameOk (applyBindings bs) p = true ∧
      composedOk version fp (renameProg (applyBindings bs) p) P c dyn strict = true := by
  unfold originalB at h
  cases hb : bindingsProg version fp p P with
  | error _ => rw [hb] at h; cases h
  | ok bs =>
    rw [hb] at h
    simp only [Bool.and_eq_true] at h
    obtain ⟨hr, hc⟩ := h
    unfold composedB at hc
    cases hv : validateComposed version fp p P dyn strict with
    | error _ => rw [hv] at hc; cases hc
    | ok b =>
      rw [hv] at hc
      simp only at hc
      subst hc
      unfold validateComposed at hv
      rw [renamedProg_eq, hb] at hv
      simp only [Except.map] at hv
      cases hcert : validateProgCert version fp p P with
      | error _ => rw [hcert] at hv; cases hv
      | ok cv =>
        obtain ⟨c, v⟩ := cv
        rw [hcert] at hv
        simp only [bind, Except.bind, pure, Except.pure, Except.ok.injEq] at hv
        exact ⟨bs, c, rfl, hr, hv⟩

/-- **what `composed-sexp` reports as `original=true`** (by-value parameters) -/
theorem compile_correct_originalB (version : Nat) (fp : Bool) (p : Prog) (P : Program) (h : originalB version fp p P = true) :
    ∃ f, renameOk f p = true ∧
      ∀ (cx : Ctx) (w0 : World) (fuel : Nat), StartOk f (varsP p) w0 →
        match Src.runProg cx p fuel w0 with
        | .done v w => ∃ n, (∃ w', FinalRel f p (ignOf fp (renameProg f p)) w w' ∧ Avm.run cx P n w0 = .done v w')
                        ∨ Avm.run cx P n w0 = .fail (.logic "stack overflow")
        | .fail (.unmodelled _) => True
        | .fail _ => ∃ n f, Avm.run cx P n w0 = .fail f
        | .outOfFuel => True := by
  obtain ⟨bs, c, _, hr, hc⟩ := originalB_spec h
  exact ⟨_, hr, fun cx w0 fuel h0 => compile_correct_original_prog version fp p _ P c hr hc cx w0 fuel h0⟩

/-- **what `composed-sexp` reports as `original=true thm=ref`** (by-reference discipline) -/
theorem compile_correct_originalB_ref (version : Nat) (fp : Bool) (p : Prog) (P : Program)
    (h : originalB version fp p P true true = true) :
    ∃ f, renameOk f p = true ∧
      ∀ (cx : Ctx) (w0 : World) (fuel : Nat), StartOk f (varsP p) w0 →
        match Src.runProg cx p fuel w0 with
        | .done v w => ∃ n, (∃ w', FinalRel f p (ignOf fp (renameProg f p) true) w w' ∧ Avm.run cx P n w0 = .done v w')
                        ∨ Avm.run cx P n w0 = .fail (.logic "stack overflow")
        | .fail (.unmodelled _) => True
        | .fail _ => ∃ n f, Avm.run cx P n w0 = .fail f
        | .outOfFuel => True := by
  obtain ⟨bs, c, _, hr, hc⟩ := originalB_spec h
  exact ⟨_, hr, fun cx w0 fuel h0 => compile_correct_original_prog_ref version fp p _ P c hr hc cx w0 fuel h0⟩


/-! ### Non-vacuity: real compiler output (PyTeal, `optimize=OptimizeOptions(scratch_slots=False)`),
    transcribed line by line; programs with automatically numbered variables (keys ≥ 256) and one
    user-numbered slot (7) -/

/-- call-free: `x, y = ScratchVar(), ScratchVar(); u = ScratchVar(uint64, 7)`;
    `Seq(x.store(3), y.store(4), u.store(x.load() * y.load()), Return(u.load() + x.load()))` -/
def mainE : Expr :=
  .seq [.store 256 (.int 3), .store 257 (.int 4), .store 7 (.prim "*" [] [.load 256, .load 257]),
        .ret (some (.prim "+" [] [.load 7, .load 256]))]

/-- PyTeal, version 6: `x ↦ 0`, `y ↦ 1`, `u` stays in slot 7 -/
def mainTeal : Program := #[
  ⟨⟨"#pragma", ["version", "6"]⟩, .pragma "version" "6"⟩,
  ⟨⟨"int", ["3"]⟩, .pushInt 3⟩,
  ⟨⟨"store", ["0"]⟩, .store 0⟩,
  ⟨⟨"int", ["4"]⟩, .pushInt 4⟩,
  ⟨⟨"store", ["1"]⟩, .store 1⟩,
  ⟨⟨"load", ["0"]⟩, .load 0⟩,
  ⟨⟨"load", ["1"]⟩, .load 1⟩,
  ⟨⟨"*", []⟩, .prim "*" []⟩,
  ⟨⟨"store", ["7"]⟩, .store 7⟩,
  ⟨⟨"load", ["7"]⟩, .load 7⟩,
  ⟨⟨"load", ["0"]⟩, .load 0⟩,
  ⟨⟨"+", []⟩, .prim "+" []⟩,
  ⟨⟨"return", []⟩, .ret⟩]

set_option maxRecDepth 100000 in
theorem mainTeal_original : originalMainB 6 mainE mainTeal = true := by decide +kernel

/-- hence the real TEAL computes what the ORIGINAL tree denotes, from every world with an empty
    scratch space -/
example : ∃ f, renameOk f { subs := [], main := mainE } = true ∧
    ∀ (cx : Ctx) (w0 : World) (fuel : Nat), w0.scratch = [] →
      match Src.runProg cx { subs := [], main := mainE } fuel w0 with
      | .done v w => ∃ n, (∃ w', FinalRel f { subs := [], main := mainE } [] w w' ∧ Avm.run cx mainTeal n w0 = .done v w')
                      ∨ Avm.run cx mainTeal n w0 = .fail (.logic "stack overflow")
      | .fail (.unmodelled _) => True
      | .fail _ => ∃ n f, Avm.run cx mainTeal n w0 = .fail f
      | .outOfFuel => True := by
  obtain ⟨f, hr, h⟩ := compile_correct_originalMainB 6 mainE mainTeal mainTeal_original
  exact ⟨f, hr, fun cx w0 fuel h0 => h cx w0 fuel (startOk_empty f _ w0 h0)⟩

/-- the hypotheses are not vacuous on the source side either: the original tree returns 15 -/
example : ∃ w, Src.runProg {} { subs := [], main := mainE } 20 {} = .done (.u 15) w ∧ getSlot w.scratch 7 = .u 12 ∧
    getSlot w.scratch 256 = .u 3 := ⟨_, rfl, rfl, rfl⟩

/-- with a subroutine: `v = ScratchVar(uint64, 7)`, `w = ScratchVar()`,
    `f(a, b) = Seq(t.store(a - b), t.load() * t.load())` (`t = ScratchVar()` local to `f`);
    main `Seq(v.store(1), w.store(10), Return(f(w.load(), 3) + v.load()))`.
    Variables: 256 = `w`, 300 / 301 = the parameters, 302 = `t`, 7 = the user-numbered slot. -/
def optProg : Prog :=
  { subs := [{ id := 0, name := "f", params := [(.val, 300), (.val, 301)], hasRet := true,
               body := .seq [.store 302 (.prim "-" [] [.load 300, .load 301]), .prim "*" [] [.load 302, .load 302]],
               locals := [300, 301, 302], reenters := [] }],
    main := .seq [.store 7 (.int 1), .store 256 (.int 10),
                  .ret (some (.prim "+" [] [.call 0 [.load 256, .int 3], .load 7]))] }

/-- PyTeal, version 6 (scratch-slot convention): `w ↦ 0`, `a ↦ 1`, `b ↦ 2`, `t ↦ 3` -/
def optTeal6 : Program := #[
  ⟨⟨"#pragma", ["version", "6"]⟩, .pragma "version" "6"⟩,
  ⟨⟨"int", ["1"]⟩, .pushInt 1⟩,
  ⟨⟨"store", ["7"]⟩, .store 7⟩,
  ⟨⟨"int", ["10"]⟩, .pushInt 10⟩,
  ⟨⟨"store", ["0"]⟩, .store 0⟩,
  ⟨⟨"load", ["0"]⟩, .load 0⟩,
  ⟨⟨"int", ["3"]⟩, .pushInt 3⟩,
  ⟨⟨"callsub", ["f_0"]⟩, .callsub "f_0"⟩,
  ⟨⟨"load", ["7"]⟩, .load 7⟩,
  ⟨⟨"+", []⟩, .prim "+" []⟩,
  ⟨⟨"return", []⟩, .ret⟩,
  ⟨⟨"f_0:", []⟩, .label "f_0"⟩,
  ⟨⟨"store", ["2"]⟩, .store 2⟩,
  ⟨⟨"store", ["1"]⟩, .store 1⟩,
  ⟨⟨"load", ["1"]⟩, .load 1⟩,
  ⟨⟨"load", ["2"]⟩, .load 2⟩,
  ⟨⟨"-", []⟩, .prim "-" []⟩,
  ⟨⟨"store", ["3"]⟩, .store 3⟩,
  ⟨⟨"load", ["3"]⟩, .load 3⟩,
  ⟨⟨"load", ["3"]⟩, .load 3⟩,
  ⟨⟨"*", []⟩, .prim "*" []⟩,
  ⟨⟨"retsub", []⟩, .retsub⟩]

/-- PyTeal, version 8 (frame-pointer convention): `w ↦ 0`, `t ↦ 1`, the parameters live in the frame -/
def optTeal8 : Program := #[
  ⟨⟨"#pragma", ["version", "8"]⟩, .pragma "version" "8"⟩,
  ⟨⟨"int", ["1"]⟩, .pushInt 1⟩,
  ⟨⟨"store", ["7"]⟩, .store 7⟩,
  ⟨⟨"int", ["10"]⟩, .pushInt 10⟩,
  ⟨⟨"store", ["0"]⟩, .store 0⟩,
  ⟨⟨"load", ["0"]⟩, .load 0⟩,
  ⟨⟨"int", ["3"]⟩, .pushInt 3⟩,
  ⟨⟨"callsub", ["f_0"]⟩, .callsub "f_0"⟩,
  ⟨⟨"load", ["7"]⟩, .load 7⟩,
  ⟨⟨"+", []⟩, .prim "+" []⟩,
  ⟨⟨"return", []⟩, .ret⟩,
  ⟨⟨"f_0:", []⟩, .label "f_0"⟩,
  ⟨⟨"proto", ["2", "1"]⟩, .proto 2 1⟩,
  ⟨⟨"frame_dig", ["-2"]⟩, .frameDig (-2)⟩,
  ⟨⟨"frame_dig", ["-1"]⟩, .frameDig (-1)⟩,
  ⟨⟨"-", []⟩, .prim "-" []⟩,
  ⟨⟨"store", ["1"]⟩, .store 1⟩,
  ⟨⟨"load", ["1"]⟩, .load 1⟩,
  ⟨⟨"load", ["1"]⟩, .load 1⟩,
  ⟨⟨"*", []⟩, .prim "*" []⟩,
  ⟨⟨"retsub", []⟩, .retsub⟩]

set_option maxRecDepth 100000 in
theorem optTeal6_original : originalB 6 false optProg optTeal6 = true := by decide +kernel

set_option maxRecDepth 100000 in
theorem optTeal8_original : originalB 8 true optProg optTeal8 = true := by decide +kernel

example : ∃ f, renameOk f optProg = true ∧
    ∀ (cx : Ctx) (w0 : World) (fuel : Nat), StartOk f (varsP optProg) w0 →
      match Src.runProg cx optProg fuel w0 with
      | .done v w => ∃ n, (∃ w', FinalRel f optProg (ignOf false (renameProg f optProg)) w w' ∧ Avm.run cx optTeal6 n w0 = .done v w')
                      ∨ Avm.run cx optTeal6 n w0 = .fail (.logic "stack overflow")
      | .fail (.unmodelled _) => True
      | .fail _ => ∃ n f, Avm.run cx optTeal6 n w0 = .fail f
      | .outOfFuel => True :=
  compile_correct_originalB 6 false optProg optTeal6 optTeal6_original

/-- the original program returns 50 = (10 − 3)² + 1 -/
example : ∃ w, Src.runProg {} optProg 20 {} = .done (.u 50) w ∧ getSlot w.scratch 7 = .u 1 ∧ getSlot w.scratch 302 = .u 7 :=
  ⟨_, rfl, rfl, rfl⟩

/-! by-reference parameter (`Rename.exProg`'s shape, real output): the program `incProg0` of
    `Proofs/C02Compile.lean` with its version-6 and version-8 TEAL -/

set_option maxRecDepth 100000 in
theorem incTeal_original : originalB 6 false C02Compile.incProg0 C02Compile.incTeal true true = true := by decide +kernel

set_option maxRecDepth 100000 in
theorem inc8Teal_original : originalB 8 true C02Compile.incProg0 C02Compile.inc8Teal true true = true := by decide +kernel

/-- the checks bite: a renaming that is not injective on the variables of the program is rejected -/
example : renameOk (applyBindings [(256, 7)]) optProg = false := by decide

end PyTealV.Proofs.CompileOriginal
