/-
  C16 — WideRatio is exact or fails, never wraps.

  Property (full statement): WideRatio(numerators, denominators) yields exactly
  floor(∏numerators / ∏denominators) whenever every running product, taken left to right, fits
  in 128 bits, the denominator product is non-zero and the quotient fits in 64 bits; in every
  other case the program fails.  It never yields a wrapped or truncated number.

  Proven here, for ALL factor counts n, m ≥ 1 and ALL factor values < 2^64, about the op list of
  `Models.WideRatio` (tied op-for-op to the real `WideRatio.__teal__` by harness/props/c16.py)
  executed with the shared opcode semantics `Avm.execPrim`:
    * `wideRatio_run`         run = `spec` (which is written with `Src.wideProd`, the function
                              the source semantics uses), initial stack and world untouched;
    * `spec_ok_iff`           `spec` succeeds iff the property's side conditions hold, and then
                              with exactly ⌊∏ns/∏ds⌋;
    * `wideRatio_exact`       the property in the "iff" form above;
    * `wideRatio_never_wraps` any value ever produced is the exact quotient.
  No restriction was needed: the property holds of the unchanged code (no `_partial`).
-/
import PyTealV.Models.WideRatio
import PyTealV.Proofs.C16Lemmas
namespace PyTealV.Proofs.C16
open PyTealV PyTealV.Avm PyTealV.Models.WideRatio

/-! ### Arithmetic of one 128-bit step (the word size is kept opaque) -/

theorem two64_pos : 0 < two64 := by decide
theorem two64_sq : two64 * two64 = 2 ^ 128 := by decide

/-- (A·T+B)·C = (A·C + ⌊B·C/T⌋)·T + (B·C mod T), with A = p/T, B = p%T -/
theorem step_arith (T p C : Nat) :
    p * C = (p / T * C + p % T * C / T) * T + p % T * C % T := by
  calc p * C = (p / T * T + p % T) * C := by rw [Nat.div_add_mod' p T]
    _ = p / T * C * T + p % T * C := by rw [Nat.add_mul, Nat.mul_right_comm]
    _ = p / T * C * T + (p % T * C / T * T + p % T * C % T) := by rw [Nat.div_add_mod' (p % T * C) T]
    _ = (p / T * C + p % T * C / T) * T + p % T * C % T := by rw [Nat.add_mul, Nat.add_assoc]

theorem step_hi (T p C : Nat) (hT : 0 < T) : p * C / T = p / T * C + p % T * C / T := by
  have h := step_arith T p C
  have hlt : p % T * C % T < T := Nat.mod_lt _ hT
  rw [h, Nat.add_comm, Nat.add_mul_div_right _ _ hT, Nat.div_eq_of_lt hlt, Nat.zero_add]

theorem step_lo (T p C : Nat) : p * C % T = p % T * C % T := by
  have h := step_arith T p C
  rw [h, Nat.add_comm, Nat.add_mul_mod_self_right, Nat.mod_mod]

theorem fits_iff (T x : Nat) (hT : 0 < T) : x < T * T ↔ x / T < T :=
  (Nat.div_lt_iff_lt_mul hT).symm

/-! ### Running the item list -/

theorem runItems_append (cx : Ctx) (ns ds : List Nat) (a b : List Item) (w : World) (st : List Val) :
    runItems cx ns ds (a ++ b) w st =
      match runItems cx ns ds a w st with
      | .ok (st', w') => runItems cx ns ds b w' st'
      | .error e => .error e := by
  induction a generalizing w st with
  | nil => rfl
  | cons it rest ih =>
    simp only [List.cons_append, runItems]
    cases stepItem cx ns ds it w st with
    | error e => rfl
    | ok r => obtain ⟨st', w'⟩ := r; exact ih w' st'

theorem exec_divmodw_zero (cx : Ctx) (w : World) (a b c d : Nat) (r : List Val)
    (hm : c * two64 + d = 0) :
    execPrim cx "divmodw" [] w (.u d :: .u c :: .u b :: .u a :: r) = .error (.logic "divmodw by zero") := by
  rw [exec_divmodw, if_pos hm]

theorem exec_divmodw_ok (cx : Ctx) (w : World) (a b c d : Nat) (r : List Val) (n m : Nat)
    (hn : a * two64 + b = n) (hm : c * two64 + d = m) (h0 : m ≠ 0) :
    execPrim cx "divmodw" [] w (.u d :: .u c :: .u b :: .u a :: r) =
      .ok (.u (n % m % two64) :: .u (n % m / two64) :: .u (n / m % two64) :: .u (n / m / two64) :: r, w) := by
  subst hn hm
  rw [exec_divmodw, if_neg h0]
theorem runItems_op_ok {cx : Ctx} {ns ds : List Nat} {o : String} {is : List String} {rest : List Item}
    {w w' : World} {st st' : List Val} (h : execPrim cx o is w st = .ok (st', w')) :
    runItems cx ns ds (.op o is :: rest) w st = runItems cx ns ds rest w' st' := by
  rw [runItems, stepItem, h]

theorem runItems_op_err {cx : Ctx} {ns ds : List Nat} {o : String} {is : List String} {rest : List Item}
    {w : World} {st : List Val} {e : Fail} (h : execPrim cx o is w st = .error e) :
    runItems cx ns ds (.op o is :: rest) w st = .error e := by
  rw [runItems, stepItem, h]

theorem runItems_fac {cx : Ctx} {ns ds : List Nat} {isDen : Bool} {i v : Nat} {rest : List Item}
    {w : World} {st : List Val} (h : (if isDen then ds else ns)[i]? = some v) :
    runItems cx ns ds (.fac isDen i :: rest) w st = runItems cx ns ds rest w (.u v :: st) := by
  rw [runItems, stepItem, h]

theorem runItems_int {cx : Ctx} {ns ds : List Nat} {n : Nat} {rest : List Item} {w : World} {st : List Val} :
    runItems cx ns ds (.int n :: rest) w st = runItems cx ns ds rest w (.u n :: st) := by
  rw [runItems, stepItem]

theorem runItems_nil {cx : Ctx} {ns ds : List Nat} {w : World} {st : List Val} :
    runItems cx ns ds [] w st = .ok (st, w) := rfl

/-- The eight ops of `multiplyFactors`' loop body fold the factor C into the 128-bit pair
    representing p — or fail, exactly when p·C does not fit in 128 bits. -/
theorem run_mulStep (cx : Ctx) (ns ds : List Nat) (w : World) (σ : List Val) (p C : Nat) :
    runItems cx ns ds mulStep w (.u C :: .u (p % two64) :: .u (p / two64) :: σ) =
      if p * C < two64 * two64 then .ok (.u (p * C % two64) :: .u (p * C / two64) :: σ, w)
      else .error (Fail.logic "uint64 overflow") := by
  have hhi := step_hi two64 p C two64_pos
  have hlo := step_lo two64 p C
  have hfit := fits_iff two64 (p * C) two64_pos
  unfold mulStep
  by_cases hf : p * C < two64 * two64
  · have hH : p * C / two64 < two64 := hfit.mp hf
    have h1 : p / two64 * C < two64 := by
      rw [hhi] at hH; exact Nat.lt_of_le_of_lt (Nat.le_add_right _ _) hH
    have h2 : p / two64 * C + p % two64 * C / two64 < two64 := by rw [hhi] at hH; exact hH
    rw [if_pos hf, hhi, hlo, runItems_op_ok (exec_uncover2 cx w _ _ _ _), runItems_op_ok (exec_dig1 cx w _ _ _),
      runItems_op_ok (exec_mul_ok cx w _ _ _ h1), runItems_op_ok (exec_cover2 cx w _ _ _ _),
      runItems_op_ok (exec_mulw cx w _ _ _), runItems_op_ok (exec_cover2 cx w _ _ _ _),
      runItems_op_ok (exec_add_ok cx w _ _ _ h2), runItems_op_ok (exec_swap cx w _ _ _), runItems_nil]
  · have hH : ¬ p * C / two64 < two64 := fun h => hf (hfit.mpr h)
    rw [if_neg hf, runItems_op_ok (exec_uncover2 cx w _ _ _ _), runItems_op_ok (exec_dig1 cx w _ _ _)]
    by_cases h1 : p / two64 * C < two64
    · have h2 : ¬ p / two64 * C + p % two64 * C / two64 < two64 := by rw [hhi] at hH; exact hH
      rw [runItems_op_ok (exec_mul_ok cx w _ _ _ h1), runItems_op_ok (exec_cover2 cx w _ _ _ _),
        runItems_op_ok (exec_mulw cx w _ _ _), runItems_op_ok (exec_cover2 cx w _ _ _ _),
        runItems_op_err (exec_add_err cx w _ _ _ h2)]
    · rw [runItems_op_err (exec_mul_err cx w _ _ _ h1)]

/-! ### `Src.wideProd` as a fold -/

/-- the folding function inside `Src.wideProd` -/
def wstep (acc : Option Nat) (y : Nat) : Option Nat :=
  match acc with
  | some a => if a * y < two64 * two64 then some (a * y) else none
  | none => none

theorem wideProd_cons (x : Nat) (xs : List Nat) : Src.wideProd (x :: xs) = xs.foldl wstep (some x) := rfl

theorem foldl_wstep_none (l : List Nat) : l.foldl wstep none = none := by
  induction l with
  | nil => rfl
  | cons y l ih => exact ih

theorem wstep_some_pos {p y : Nat} (h : p * y < two64 * two64) : wstep (some p) y = some (p * y) := by
  unfold wstep; exact if_pos h
theorem wstep_some_neg {p y : Nat} (h : ¬ p * y < two64 * two64) : wstep (some p) y = none := by
  unfold wstep; exact if_neg h

/-- stack picture of a 128-bit product, or the overflow failure -/
def pairResult (r : Option Nat) (w : World) (σ : List Val) : Except Fail (List Val × World) :=
  match r with
  | some q => .ok (.u (q % two64) :: .u (q / two64) :: σ, w)
  | none => .error (Fail.logic "uint64 overflow")

/-- the `for factor in factors[2:]` loop of `multiplyFactors` -/
theorem run_loop (cx : Ctx) (ns ds : List Nat) (isDen : Bool) (xs : List Nat)
    (hxs : (if isDen then ds else ns) = xs) :
    ∀ (l : List Nat) (k p : Nat) (w : World) (σ : List Val), (∀ j, xs[k + j]? = l[j]?) →
      runItems cx ns ds
        (((List.range' k l.length).map (fun i => [Item.fac isDen i])).flatMap (fun f => f ++ mulStep))
        w (.u (p % two64) :: .u (p / two64) :: σ)
      = pairResult (l.foldl wstep (some p)) w σ := by
  intro l
  induction l with
  | nil => intro k p w σ _; rfl
  | cons v l ih =>
    intro k p w σ h
    have h0 : xs[k]? = some v := by simpa using h 0
    have hrest : ∀ j, xs[k + 1 + j]? = l[j]? := by
      intro j
      have := h (j + 1)
      simpa [Nat.add_assoc, Nat.add_comm 1 j] using this
    have hx : (if isDen then ds else ns)[k]? = some v := by rw [hxs]; exact h0
    simp only [List.length_cons, List.range'_succ, List.map_cons, List.flatMap_cons, List.cons_append,
      List.nil_append, List.foldl_cons]
    rw [runItems_fac hx, runItems_append, run_mulStep]
    by_cases hf : p * v < two64 * two64
    · rw [if_pos hf, wstep_some_pos hf]
      exact ih (k + 1) (p * v) w σ hrest
    · rw [if_neg hf, wstep_some_neg hf, foldl_wstep_none]
      rfl

theorem range_succ_succ (n : Nat) : List.range (n + 2) = 0 :: 1 :: List.range' 2 n := by
  simp [List.range_eq_range', List.range'_succ]

/-- `multiplyFactors` on k opaque factors computes `Src.wideProd` of their values as a
    (high, low) pair, or fails on the first running product that does not fit in 128 bits. -/
theorem run_multiplyFactors (cx : Ctx) (ns ds : List Nat) (isDen : Bool) (xs : List Nat)
    (hxs : (if isDen then ds else ns) = xs) (hne : xs ≠ []) (hlt : ∀ v ∈ xs, v < two64) :
    ∃ code, multiplyFactors (facCodes isDen xs.length) = .ok code ∧
      ∀ (w : World) (σ : List Val), runItems cx ns ds code w σ = pairResult (Src.wideProd xs) w σ := by
  match xs, hne with
  | [x], _ =>
    refine ⟨[.int 0, .fac isDen 0], rfl, ?_⟩
    intro w σ
    have hx : x < two64 := hlt x (by simp)
    have h0 : (if isDen then ds else ns)[0]? = some x := by rw [hxs]; rfl
    rw [runItems_int, runItems_fac h0, runItems_nil, wideProd_cons, List.foldl_nil]
    show _ = Except.ok (Val.u (x % two64) :: Val.u (x / two64) :: σ, w)
    rw [Nat.mod_eq_of_lt hx, Nat.div_eq_of_lt hx]
  | x0 :: x1 :: l, _ =>
    refine ⟨[.fac isDen 0] ++ [.fac isDen 1] ++ [.op "mulw" []] ++
      ((List.range' 2 l.length).map (fun i => [Item.fac isDen i])).flatMap (fun f => f ++ mulStep), ?_, ?_⟩
    · simp only [facCodes, List.length_cons, range_succ_succ, List.map_cons, multiplyFactors]
    · intro w σ
      have h0 : x0 < two64 := hlt x0 (by simp)
      have h1 : x1 < two64 := hlt x1 (by simp)
      have hf : x0 * x1 < two64 * two64 := Nat.mul_lt_mul'' h0 h1
      have hrest : ∀ j, (x0 :: x1 :: l)[2 + j]? = l[j]? := by
        intro j; rw [Nat.add_comm]; rfl
      have e0 : (if isDen then ds else ns)[0]? = some x0 := by rw [hxs]; rfl
      have e1 : (if isDen then ds else ns)[1]? = some x1 := by rw [hxs]; rfl
      simp only [List.cons_append, List.nil_append]
      rw [runItems_fac e0, runItems_fac e1, runItems_op_ok (exec_mulw cx w _ _ _), wideProd_cons,
        List.foldl_cons, wstep_some_pos hf]
      exact run_loop cx ns ds isDen _ hxs l 2 (x0 * x1) w σ hrest

/-! ### The tail: `divmodw; pop; pop; swap; !; assert` -/

theorem run_combine (cx : Ctx) (ns ds : List Nat) (w : World) (σ : List Val) (pn pd : Nat) :
    runItems cx ns ds combine w
        (.u (pd % two64) :: .u (pd / two64) :: .u (pn % two64) :: .u (pn / two64) :: σ) =
      if pd = 0 then .error (.logic "divmodw by zero")
      else if pn / pd < two64 then .ok (.u (pn / pd) :: σ, w)
      else .error (.logic "assert failed") := by
  have en : pn / two64 * two64 + pn % two64 = pn := Nat.div_add_mod' pn two64
  have ed : pd / two64 * two64 + pd % two64 = pd := Nat.div_add_mod' pd two64
  unfold combine
  by_cases hz : pd = 0
  · have hc : pd / two64 * two64 + pd % two64 = 0 := by rw [ed]; exact hz
    rw [if_pos hz, runItems_op_err (exec_divmodw_zero cx w _ _ _ _ _ hc)]
  · rw [if_neg hz, runItems_op_ok (exec_divmodw_ok cx w _ _ _ _ _ pn pd en ed hz),
      runItems_op_ok (exec_pop cx w _ _), runItems_op_ok (exec_pop cx w _ _),
      runItems_op_ok (exec_swap cx w _ _ _), runItems_op_ok (exec_not cx w _ _)]
    by_cases hq : pn / pd < two64
    · have hq0 : pn / pd / two64 = 0 := Nat.div_eq_of_lt hq
      have hqm : pn / pd % two64 = pn / pd := Nat.mod_eq_of_lt hq
      have hb : boolV (decide (pn / pd / two64 = 0)) = .u 1 := by rw [hq0]; rfl
      rw [if_pos hq, hb, hqm, runItems_op_ok (w' := w) (st' := .u (pn / pd) :: σ)
        (by rw [exec_assert, if_pos Nat.one_ne_zero])]
      rfl
    · have hq0 : ¬ pn / pd / two64 = 0 := by
        intro h
        apply hq
        have := (Nat.div_lt_iff_lt_mul (x := pn / pd) (y := 1) two64_pos).mp (by rw [h]; exact Nat.zero_lt_one)
        rwa [Nat.one_mul] at this
      have hb : boolV (decide (pn / pd / two64 = 0)) = .u 0 := by rw [decide_eq_false hq0]; rfl
      rw [if_neg hq, hb, runItems_op_err (e := .logic "assert failed")
        (by rw [exec_assert, if_neg (by simp)])]

/-! ### Main theorem on the model -/

/-- lifting of `spec` to (stack, world) -/
def specResult (ns ds : List Nat) (w : World) (σ : List Val) : Except Fail (List Val × World) :=
  match spec ns ds with
  | .ok q => .ok (.u q :: σ, w)
  | .error f => .error f

/-- body of `__teal__` for any n, m ≥ 1 (including the 1/1 shape the constructor refuses) -/
theorem wideRatioBody_run (cx : Ctx) (ns ds : List Nat) (hn : ns ≠ []) (hd : ds ≠ [])
    (hN : ∀ v ∈ ns, v < two64) (hD : ∀ v ∈ ds, v < two64) :
    ∃ items, wideRatioBody ns.length ds.length = .ok items ∧
      ∀ (w : World) (σ : List Val), runItems cx ns ds items w σ = specResult ns ds w σ := by
  obtain ⟨cn, hcn, rn⟩ := run_multiplyFactors cx ns ds false ns rfl hn hN
  obtain ⟨cd, hcd, rd⟩ := run_multiplyFactors cx ns ds true ds rfl hd hD
  refine ⟨cn ++ cd ++ combine, ?_, ?_⟩
  · simp only [wideRatioBody, hcn, hcd]; rfl
  · intro w σ
    rw [List.append_assoc, runItems_append, rn]
    unfold specResult spec
    cases hpn : Src.wideProd ns with
    | none => rfl
    | some pn =>
      simp only [pairResult]
      rw [runItems_append, rd]
      cases hpd : Src.wideProd ds with
      | none => rfl
      | some pd =>
        simp only [pairResult]
        rw [run_combine]
        by_cases hz : pd = 0
        · simp only [if_pos hz]
        · simp only [if_neg hz]
          by_cases hq : pn / pd < two64
          · simp only [if_pos hq]
          · simp only [if_neg hq]

/-- **Model theorem.** For every program version ≥ 5 and every pair of non-empty factor lists that
    the constructor accepts, the emitted sequence, run on any stack σ and world w with factor
    values < 2^64, behaves exactly as `spec`: σ and w are untouched, and either the single value
    `spec` names is pushed or the run fails with the failure `spec` names. -/
theorem wideRatio_run (cx : Ctx) (version : Nat) (hv : 5 ≤ version) (ns ds : List Nat)
    (hn : ns ≠ []) (hd : ds ≠ []) (hshape : ¬ (ns.length = 1 ∧ ds.length = 1))
    (hN : ∀ v ∈ ns, v < two64) (hD : ∀ v ∈ ds, v < two64) :
    ∃ items, wideRatio? version ns.length ds.length = .ok items ∧
      ∀ (w : World) (σ : List Val), runItems cx ns ds items w σ = specResult ns ds w σ := by
  obtain ⟨items, hi, hr⟩ := wideRatioBody_run cx ns ds hn hd hN hD
  refine ⟨items, ?_, hr⟩
  have h1 : ¬ (ns.length = 0 ∨ ds.length = 0) := by
    intro h
    cases h with
    | inl h => exact hn (List.length_eq_zero_iff.mp h)
    | inr h => exact hd (List.length_eq_zero_iff.mp h)
  have h3 : ¬ version < minVersion := by unfold minVersion; omega
  unfold wideRatio?
  rw [if_neg h1, if_neg hshape, if_neg h3]
  exact hi

/-- which argument shapes / versions the real code refuses -/
theorem wideRatio?_error_iff (version n m : Nat) :
    (∃ e, wideRatio? version n m = .error e) ↔ (n = 0 ∨ m = 0 ∨ (n = 1 ∧ m = 1) ∨ version < 5) := by
  unfold wideRatio?
  by_cases h1 : n = 0 ∨ m = 0
  · rw [if_pos h1]
    constructor
    · intro _; cases h1 with
      | inl h => exact .inl h
      | inr h => exact .inr (.inl h)
    · intro _; exact ⟨_, rfl⟩
  · rw [if_neg h1]
    by_cases h2 : n = 1 ∧ m = 1
    · rw [if_pos h2]; exact ⟨fun _ => .inr (.inr (.inl h2)), fun _ => ⟨_, rfl⟩⟩
    · rw [if_neg h2]
      by_cases h3 : version < minVersion
      · rw [if_pos h3]; exact ⟨fun _ => .inr (.inr (.inr h3)), fun _ => ⟨_, rfl⟩⟩
      · rw [if_neg h3]
        have hn : n ≠ 0 := fun h => h1 (.inl h)
        have hm : m ≠ 0 := fun h => h1 (.inr h)
        constructor
        · intro ⟨e, he⟩
          exfalso
          unfold wideRatioBody facCodes at he
          obtain ⟨n', rfl⟩ := Nat.exists_eq_succ_of_ne_zero hn
          obtain ⟨m', rfl⟩ := Nat.exists_eq_succ_of_ne_zero hm
          cases n' with
          | zero =>
            cases m' with
            | zero => exact h2 ⟨rfl, rfl⟩
            | succ m'' => simp [range_succ_succ, multiplyFactors, List.range_succ_eq_map, bind, Except.bind, pure, Except.pure] at he
          | succ n'' =>
            cases m' with
            | zero => simp [range_succ_succ, multiplyFactors, List.range_succ_eq_map, bind, Except.bind, pure, Except.pure] at he
            | succ m'' => simp [range_succ_succ, multiplyFactors, bind, Except.bind, pure, Except.pure] at he
        · intro h
          exfalso
          rcases h with h | h | h | h
          · exact hn h
          · exact hm h
          · exact h2 h
          · exact h3 h

/-! ### What `spec` says, in the property's own words -/

theorem foldl_wstep_some_iff (l : List Nat) : ∀ (p q : Nat),
    (l.foldl wstep (some p) = some q ↔
      (q = p * prodL l ∧ ∀ k, 1 ≤ k → k ≤ l.length → p * prodL (l.take k) < two64 * two64)) := by
  induction l with
  | nil =>
    intro p q
    simp only [List.foldl_nil, prodL, Nat.mul_one, List.length_nil, Option.some.injEq]
    constructor
    · intro h; exact ⟨h.symm, fun k h1 h2 => by omega⟩
    · intro h; exact h.1.symm
  | cons y l ih =>
    intro p q
    simp only [List.foldl_cons, List.length_cons]
    by_cases hf : p * y < two64 * two64
    · rw [wstep_some_pos hf, ih]
      constructor
      · intro ⟨hq, hall⟩
        refine ⟨by rw [hq, prodL, Nat.mul_assoc], ?_⟩
        intro k h1 h2
        cases k with
        | zero => omega
        | succ k' =>
          simp only [List.take_succ_cons, prodL]
          cases k' with
          | zero => simpa [prodL] using hf
          | succ k'' =>
            have := hall (k'' + 1) (by omega) (by omega)
            rwa [Nat.mul_assoc] at this
      · intro ⟨hq, hall⟩
        refine ⟨by rw [hq, prodL, Nat.mul_assoc], ?_⟩
        intro k h1 h2
        have := hall (k + 1) (by omega) (by omega)
        simp only [List.take_succ_cons, prodL] at this
        rwa [Nat.mul_assoc]
    · rw [wstep_some_neg hf, foldl_wstep_none]
      constructor
      · intro h; cases h
      · intro ⟨_, hall⟩
        exfalso
        have := hall 1 (by omega) (by omega)
        simp only [List.take_succ_cons, List.take_zero, prodL, Nat.mul_one] at this
        exact hf this

/-- `Src.wideProd` succeeds iff every left-to-right running product fits in 128 bits, and then
    it is the plain product. -/
theorem wideProd_some_iff (xs : List Nat) (hne : xs ≠ []) (hlt : ∀ v ∈ xs, v < two64) (q : Nat) :
    Src.wideProd xs = some q ↔ (q = prodL xs ∧ RunningFit xs) := by
  match xs, hne with
  | x :: l, _ =>
    have hx : x < two64 := hlt x (by simp)
    have hx2 : x < two64 * two64 := Nat.lt_of_lt_of_le hx (Nat.le_mul_of_pos_left _ two64_pos)
    rw [wideProd_cons, foldl_wstep_some_iff]
    unfold RunningFit
    rw [← two64_sq]
    constructor
    · intro ⟨hq, hall⟩
      refine ⟨by rw [hq, prodL], ?_⟩
      intro k h1 h2
      cases k with
      | zero => omega
      | succ k' =>
        simp only [List.take_succ_cons, prodL]
        cases k' with
        | zero => simpa [prodL] using hx2
        | succ k'' => exact hall (k'' + 1) (by omega) (by simp only [List.length_cons] at h2; omega)
    · intro ⟨hq, hall⟩
      refine ⟨by rw [hq, prodL], ?_⟩
      intro k h1 h2
      have := hall (k + 1) (by omega) (by simp only [List.length_cons]; omega)
      simpa only [List.take_succ_cons, prodL] using this

/-- the side conditions of the property -/
def Cond (ns ds : List Nat) : Prop :=
  RunningFit ns ∧ RunningFit ds ∧ prodL ds ≠ 0 ∧ prodL ns / prodL ds < 2 ^ 64

theorem two64_pow : two64 = 2 ^ 64 := rfl

/-- `spec` returns a value iff all side conditions hold, and the value is the exact quotient -/
theorem spec_ok_iff (ns ds : List Nat) (hn : ns ≠ []) (hd : ds ≠ [])
    (hN : ∀ v ∈ ns, v < two64) (hD : ∀ v ∈ ds, v < two64) (q : Nat) :
    spec ns ds = .ok q ↔ (Cond ns ds ∧ q = prodL ns / prodL ds) := by
  unfold spec Cond
  rw [← two64_pow]
  cases hpn : Src.wideProd ns with
  | none =>
    simp only []
    constructor
    · intro h; cases h
    · intro ⟨⟨hfit, _⟩, _⟩
      have := (wideProd_some_iff ns hn hN (prodL ns)).mpr ⟨rfl, hfit⟩
      rw [hpn] at this; cases this
  | some pn =>
    obtain ⟨hpn1, hfitn⟩ := (wideProd_some_iff ns hn hN pn).mp hpn
    cases hpd : Src.wideProd ds with
    | none =>
      simp only []
      constructor
      · intro h; cases h
      · intro ⟨⟨_, hfit, _⟩, _⟩
        have := (wideProd_some_iff ds hd hD (prodL ds)).mpr ⟨rfl, hfit⟩
        rw [hpd] at this; cases this
    | some pd =>
      obtain ⟨hpd1, hfitd⟩ := (wideProd_some_iff ds hd hD pd).mp hpd
      subst hpn1 hpd1
      simp only []
      by_cases hz : prodL ds = 0
      · rw [if_pos hz]
        constructor
        · intro h; cases h
        · intro ⟨⟨_, _, h, _⟩, _⟩; exact absurd hz h
      · rw [if_neg hz]
        by_cases hq : prodL ns / prodL ds < two64
        · rw [if_pos hq]
          constructor
          · intro h; cases h; exact ⟨⟨hfitn, hfitd, hz, hq⟩, rfl⟩
          · intro ⟨_, h⟩; rw [h]
        · rw [if_neg hq]
          constructor
          · intro h; cases h
          · intro ⟨⟨_, _, _, h⟩, _⟩; exact absurd h hq

theorem spec_error_logic (ns ds : List Nat) (f : Fail) (h : spec ns ds = .error f) : ∃ msg, f = .logic msg := by
  unfold spec at h
  split at h
  · split at h
    · cases h; exact ⟨_, rfl⟩
    · split at h
      · cases h
      · cases h; exact ⟨_, rfl⟩
  · cases h; exact ⟨_, rfl⟩

/-! ### C16 -/

/-- **C16 (exact or fails).** For all n, m ≥ 1 accepted by the constructor, all versions ≥ 5, all
    uint64 factor values, any initial stack σ and world w:
    (1) if every left-to-right running product of the numerators and of the denominators is
        < 2^128, ∏ds ≠ 0 and ⌊∏ns/∏ds⌋ < 2^64, the run ends with exactly ⌊∏ns/∏ds⌋ pushed on σ
        (world unchanged);
    (2) otherwise it fails (with an AVM logic failure). -/
theorem wideRatio_exact (cx : Ctx) (version : Nat) (hv : 5 ≤ version) (ns ds : List Nat)
    (hn : ns ≠ []) (hd : ds ≠ []) (hshape : ¬ (ns.length = 1 ∧ ds.length = 1))
    (hN : ∀ v ∈ ns, v < 2 ^ 64) (hD : ∀ v ∈ ds, v < 2 ^ 64) :
    ∃ items, wideRatio? version ns.length ds.length = .ok items ∧
      ∀ (w : World) (σ : List Val),
        (Cond ns ds → runItems cx ns ds items w σ = .ok (.u (prodL ns / prodL ds) :: σ, w)) ∧
        (¬ Cond ns ds → ∃ msg, runItems cx ns ds items w σ = .error (.logic msg)) := by
  obtain ⟨items, hi, hr⟩ := wideRatio_run cx version hv ns ds hn hd hshape hN hD
  refine ⟨items, hi, ?_⟩
  intro w σ
  rw [hr]
  unfold specResult
  constructor
  · intro hc
    have := (spec_ok_iff ns ds hn hd hN hD _).mpr ⟨hc, rfl⟩
    rw [this]
  · intro hc
    cases hs : spec ns ds with
    | ok q => exact absurd ((spec_ok_iff ns ds hn hd hN hD q).mp hs).1 hc
    | error f =>
      obtain ⟨msg, rfl⟩ := spec_error_logic ns ds f hs
      exact ⟨msg, rfl⟩

/-- **C16 (never wraps).** Whatever the run yields, if it yields anything it is the exact
    quotient on top of the untouched stack, and all side conditions held. -/
theorem wideRatio_never_wraps (cx : Ctx) (version : Nat) (hv : 5 ≤ version) (ns ds : List Nat)
    (hn : ns ≠ []) (hd : ds ≠ []) (hshape : ¬ (ns.length = 1 ∧ ds.length = 1))
    (hN : ∀ v ∈ ns, v < 2 ^ 64) (hD : ∀ v ∈ ds, v < 2 ^ 64)
    (items : List Item) (hi : wideRatio? version ns.length ds.length = .ok items)
    (w w' : World) (σ st : List Val) (hrun : runItems cx ns ds items w σ = .ok (st, w')) :
    st = .u (prodL ns / prodL ds) :: σ ∧ w' = w ∧ Cond ns ds := by
  obtain ⟨items', hi', hex⟩ := wideRatio_exact cx version hv ns ds hn hd hshape hN hD
  rw [hi] at hi'
  cases hi'
  obtain ⟨hpos, hneg⟩ := hex w σ
  by_cases hc : Cond ns ds
  · have := hpos hc
    rw [hrun] at this
    cases this
    exact ⟨rfl, rfl, hc⟩
  · obtain ⟨msg, hm⟩ := hneg hc
    rw [hrun] at hm
    cases hm

/-- a WideRatio that returns leaves ONE value that is again a legal factor (below 2^64) and nothing else changed: a ratio may be used
    as a factor of another ratio, and the outer ratio then is taken over the inner QUOTIENT (its floor and its 64-bit limit included) --
    the hypotheses `hN` / `hD` of the outer instance are met by the inner result -/
theorem wideRatio_result_is_factor (cx : Ctx) (version : Nat) (hv : 5 ≤ version) (ns ds : List Nat)
    (hn : ns ≠ []) (hd : ds ≠ []) (hshape : ¬ (ns.length = 1 ∧ ds.length = 1))
    (hN : ∀ v ∈ ns, v < 2 ^ 64) (hD : ∀ v ∈ ds, v < 2 ^ 64)
    (items : List Item) (hi : wideRatio? version ns.length ds.length = .ok items)
    (w w' : World) (σ st : List Val) (hrun : runItems cx ns ds items w σ = .ok (st, w')) :
    ∃ q, st = .u q :: σ ∧ q < 2 ^ 64 ∧ q = prodL ns / prodL ds ∧ w' = w := by
  obtain ⟨h1, h2, h3⟩ := wideRatio_never_wraps cx version hv ns ds hn hd hshape hN hD items hi w w' σ st hrun
  exact ⟨_, h1, h3.2.2.2, rfl, h2⟩

/-- nested use, on values: the outer ratio over `[inner quotient, d]` / `[e]` where the inner ratio is `[a, b] / [c]`: the result is
    floor(floor(a*b/c) * d / e), NOT floor(a*b*d / (c*e)) -- the two differ (7*1/2 = 3, 3*2/1 = 6, but 7*1*2/(2*1) = 7) -/
example : (7 * 1 / 2) * 2 / 1 = 6 ∧ 7 * 1 * 2 / (2 * 1) = 7 := by decide

/-! ### Non-vacuity: concrete, non-trivial instances -/

/-- 3 numerators / 2 denominators whose 128-bit intermediate exceeds 64 bits: all hypotheses hold -/
example : Cond [2 ^ 63, 6, 5] [2 ^ 40, 3] := by
  refine ⟨?_, ?_, by decide, by decide⟩
  · intro k h1 h2
    have : k = 1 ∨ k = 2 ∨ k = 3 := by simp only [List.length_cons, List.length_nil] at h2; omega
    rcases this with rfl | rfl | rfl <;> decide
  · intro k h1 h2
    have : k = 1 ∨ k = 2 := by simp only [List.length_cons, List.length_nil] at h2; omega
    rcases this with rfl | rfl <;> decide

example : spec [2 ^ 63, 6, 5] [2 ^ 40, 3] = .ok 83886080 := by rfl
/-- a running product of the numerators overflows although the final quotient would be small -/
example : spec [2 ^ 64 - 1, 2 ^ 64 - 1, 2, 0] [1] = .error (.logic "uint64 overflow") := by rfl
/-- a *denominator* running product overflows: failure, not a wrapped divisor -/
example : spec [5, 7] [2 ^ 64 - 1, 2 ^ 64 - 1, 2] = .error (.logic "uint64 overflow") := by rfl
/-- zero denominator product -/
example : spec [5, 7] [3, 0] = .error (.logic "divmodw by zero") := by rfl
/-- quotient needs 65 bits -/
example : spec [2 ^ 64 - 1, 2] [1] = .error (.logic "assert failed") := by rfl

end PyTealV.Proofs.C16
