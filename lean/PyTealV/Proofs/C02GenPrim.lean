/-
  C02Gen (part 3): the opcode semantics `Avm.execPrim` respects `SameW` (worlds that differ only in
  the representation of the scratch space) for every opcode of the fragment (`primSigR`):
  the framed opcodes neither read nor write scratch space (`Optimizer.execPrim_frame`, C03);
  `loads` / `stores` go through `getSlot` / `setSlot`.
-/
import PyTealV.Proofs.C02GenMach
import PyTealV.Proofs.C03OptFrame
import PyTealV.Proofs.ShapeOps
namespace PyTealV.Proofs.C02Gen
open PyTealV PyTealV.Avm PyTealV.Src PyTealV.Comp PyTealV.Models.FragmentR PyTealV.Models.Optimizer
open PyTealV.Proofs.Ops

/-- results of `execPrim` equal up to `SameW` -/
def CongR (I : List Nat) : M (List Val × World) → M (List Val × World) → Prop
  | .ok (st, a), .ok (st', b) => st = st' ∧ SameW I a b
  | .error f, .error f' => f = f'
  | _, _ => False

/-- a framed opcode leaves the scratch space as it is -/
theorem framed_scratch {op : String} (h : framedOps.contains op = true) (cx : Ctx) (imms : List String)
    {a a' : World} {st st' : List Val} (hA : execPrim cx op imms a st = .ok (st', a')) : a'.scratch = a.scratch := by
  have e2 := execPrim_frame cx op imms a a.scratch st h
  have e3 : execPrim cx op imms { a with scratch := a.scratch } st = execPrim cx op imms a st := rfl
  rw [e3, hA] at e2
  simp only [Except.map, setSc, Except.ok.injEq, Prod.mk.injEq, true_and] at e2
  rw [e2]

theorem congR_framed {op : String} (h : framedOps.contains op = true) (cx : Ctx) (imms : List String)
    {I : List Nat} {a b : World} (hw : SameW I a b) (st : List Val) :
    CongR I (execPrim cx op imms a st) (execPrim cx op imms b st) := by
  have e1 := execPrim_frame cx op imms a b.scratch st h
  rw [← hw.2] at e1
  rw [e1]
  cases hA : execPrim cx op imms a st with
  | error f => simp only [Except.map, CongR]
  | ok x =>
    obtain ⟨st', a'⟩ := x
    have hs : a'.scratch = a.scratch := framed_scratch h cx imms hA
    simp only [Except.map, setSc, CongR, true_and]
    refine ⟨fun s hsI => ?_, rfl⟩
    simp only [hs]
    exact hw.1 s hsI

theorem congR_loads (cx : Ctx) (imms : List String) {a b : World} (hw : SameW [] a b) (st : List Val) :
    CongR [] (execPrim cx "loads" imms a st) (execPrim cx "loads" imms b st) := by
  unfold execPrim
  repeat rw [m20_loads]
  match st with
  | [] => simp [pop1, CongR, bind, Except.bind]
  | .b x :: r => simp [pop1, asU, CongR, bind, Except.bind]
  | .u s :: r =>
    by_cases hs : s < 256
    · simp only [pop1, asU, bind, Except.bind, hs, if_true, pure, Except.pure, CongR, hw.1 s (by simp), true_and]
      exact hw
    · simp [pop1, asU, bind, Except.bind, hs, CongR, throw, throwThe, MonadExceptOf.throw]

theorem congR_stores (cx : Ctx) (imms : List String) {a b : World} (hw : SameW [] a b) (st : List Val) :
    CongR [] (execPrim cx "stores" imms a st) (execPrim cx "stores" imms b st) := by
  unfold execPrim
  repeat rw [m20_stores]
  match st with
  | [] => simp [pop2, CongR, bind, Except.bind]
  | [_] => simp [pop2, CongR, bind, Except.bind]
  | v :: .b x :: r => simp [pop2, asU, CongR, bind, Except.bind]
  | v :: .u s :: r =>
    by_cases hs : s < 256
    · simp only [pop2, asU, bind, Except.bind, hs, if_true, pure, Except.pure, CongR, true_and]
      exact hw.set s v
    · simp [pop2, asU, bind, Except.bind, hs, CongR, throw, throwThe, MonadExceptOf.throw]

/-- the three kinds of opcodes of the fragment -/
inductive OpKind (K : RK) (op : String) : Prop
  | framed : framedOps.contains op = true → OpKind K op
  | slot : K.ign = [] → K.strict = false → (op = "loads" ∨ op = "stores") → OpKind K op
  | dyn : (K.ign = [] ∨ K.strict = true) → K.dyn = true → (op = "vloads" ∨ op = "vstores") → OpKind K op

theorem primSigK_cases {K : RK} {op : String} {k p : Nat} (h : primSigK K op = some (k, p)) :
    Models.Fragment.primSig op = some (k, p) ∧ OpKind K op := by
  unfold primSigK at h
  split at h
  · rename_i hI
    have hI' : K.ign = [] := List.isEmpty_iff.mp hI
    split at h
    · rename_i hd
      simp only [Bool.and_eq_true, Bool.or_eq_true, beq_iff_eq] at hd
      exact ⟨h, .dyn (.inl hI') hd.1 hd.2⟩
    · split at h
      · split at h
        · rename_i hop; exact ⟨h, .framed hop⟩
        · cases h
      · rename_i hstr
        have hstr' : K.strict = false := by simpa using hstr
        unfold primSigR at h
        split at h
        · rename_i hop
          simp only [Bool.or_eq_true, beq_iff_eq] at hop
          refine ⟨h, ?_⟩
          rcases hop with (hop | hop) | hop
          · exact .framed hop
          · exact .slot hI' hstr' (.inl hop)
          · exact .slot hI' hstr' (.inr hop)
        · cases h
  · split at h
    · rename_i hop; exact ⟨h, .framed hop⟩
    · split at h
      · rename_i hd
        simp only [Bool.and_eq_true, Bool.or_eq_true, beq_iff_eq] at hd
        exact ⟨h, .dyn (.inr hd.1.1) hd.1.2 hd.2⟩
      · cases h

/-- **`execPrim` respects `SameW`** on the opcodes of the fragment that the machine executes under
    the same name -/
theorem execPrim_sameW {K : RK} {op : String} (hk : framedOps.contains op = true ∨ (K.ign = [] ∧ (op = "loads" ∨ op = "stores")))
    (cx : Ctx) (imms : List String) {a b : World} (hw : SameW K.ign a b) (st : List Val) :
    CongR K.ign (execPrim cx op imms a st) (execPrim cx op imms b st) := by
  rcases hk with hf | ⟨hI, hop | hop⟩
  · exact congR_framed hf cx imms hw st
  · subst hop; rw [hI] at hw ⊢; exact congR_loads cx imms hw st
  · subst hop; rw [hI] at hw ⊢; exact congR_stores cx imms hw st

/-- the ignored slots are left alone by the opcodes of the fragment -/
theorem execPrim_ign {K : RK} {op : String} {k p : Nat} (hstr : K.strict = false) (h : primSigK K op = some (k, p))
    (cx : Ctx) (imms : List String) {a a' : World} {st st' : List Val} (hA : execPrim cx op imms a st = .ok (st', a')) :
    ∀ s, s ∈ K.ign → getSlot a'.scratch s = getSlot a.scratch s := by
  intro s hs
  cases (primSigK_cases h).2 with
  | framed hf => rw [framed_scratch hf cx imms hA]
  | slot hI _ _ => rw [hI] at hs; cases hs
  | dyn hI _ _ =>
    rcases hI with hI | hI
    · rw [hI] at hs; cases hs
    · rw [hstr] at hI; cases hI

/-! closed forms of the run-time addressed slot opcodes -/

theorem exec_vloads_u (cx : Ctx) (imms : List String) (w : World) (s : Nat) (r : List Val) :
    execPrim cx "vloads" imms w (.u s :: r) = .ok (getSlot w.scratch s :: r, w) := by
  unfold execPrim
  repeat rw [m20_vloads]
  rfl
theorem exec_vloads_b (cx : Ctx) (imms : List String) (w : World) (x : Bytes) (r : List Val) :
    execPrim cx "vloads" imms w (.b x :: r) = .error (.typeErr "expected uint64") := by
  unfold execPrim
  repeat rw [m20_vloads]
  rfl
theorem exec_loads_u (cx : Ctx) (imms : List String) (w : World) (s : Nat) (r : List Val) :
    execPrim cx "loads" imms w (.u s :: r) =
      if s < 256 then .ok (getSlot w.scratch s :: r, w) else .error (.logic "loads slot out of range") := by
  unfold execPrim
  repeat rw [m20_loads]
  by_cases h : s < 256 <;> simp [pop1, asU, bind, Except.bind, h, pure, Except.pure, throw, throwThe, MonadExceptOf.throw]
theorem exec_loads_b (cx : Ctx) (imms : List String) (w : World) (x : Bytes) (r : List Val) :
    execPrim cx "loads" imms w (.b x :: r) = .error (.typeErr "expected uint64") := by
  unfold execPrim
  repeat rw [m20_loads]
  rfl
theorem exec_vstores_u (cx : Ctx) (imms : List String) (w : World) (s : Nat) (b : Val) (r : List Val) :
    execPrim cx "vstores" imms w (b :: .u s :: r) = .ok (r, { w with scratch := setSlot w.scratch s b }) := by
  unfold execPrim
  repeat rw [m20_vstores]
  rfl
theorem exec_vstores_b (cx : Ctx) (imms : List String) (w : World) (x : Bytes) (b : Val) (r : List Val) :
    execPrim cx "vstores" imms w (b :: .b x :: r) = .error (.typeErr "expected uint64") := by
  unfold execPrim
  repeat rw [m20_vstores]
  rfl
theorem exec_stores_u (cx : Ctx) (imms : List String) (w : World) (s : Nat) (b : Val) (r : List Val) :
    execPrim cx "stores" imms w (b :: .u s :: r) =
      if s < 256 then .ok (r, { w with scratch := setSlot w.scratch s b }) else .error (.logic "stores slot out of range") := by
  unfold execPrim
  repeat rw [m20_stores]
  by_cases h : s < 256 <;> simp [pop2, asU, bind, Except.bind, h, pure, Except.pure, throw, throwThe, MonadExceptOf.throw]
theorem exec_stores_b (cx : Ctx) (imms : List String) (w : World) (x : Bytes) (b : Val) (r : List Val) :
    execPrim cx "stores" imms w (b :: .b x :: r) = .error (.typeErr "expected uint64") := by
  unfold execPrim
  repeat rw [m20_stores]
  rfl

theorem primSigK_of_framed {K : RK} {op : String} (h : framedOps.contains op = true) :
    primSigK K op = Models.Fragment.primSig op := by
  unfold primSigK primSigR
  simp only [h, Bool.true_or, if_true, ite_self]

theorem primSigK_primSig {K : RK} {op : String} {k p : Nat} (h : primSigK K op = some (k, p)) :
    Models.Fragment.primSig op = some (k, p) := (primSigK_cases h).1

end PyTealV.Proofs.C02Gen
