/-
  C02Gen (part 3): the opcode semantics `Avm.execPrim` respects `SameW` (worlds that differ only in
  the representation of the scratch space) for every opcode of the fragment (`primSigR`):
  the framed opcodes neither read nor write scratch space (`Optimizer.execPrim_frame`, C03);
  `loads` / `stores` go through `getSlot` / `setSlot`.
-/
import PyTealV.Proofs.C02GenMach
import PyTealV.Proofs.C03OptFrame
import PyTealV.Proofs.ShapeOps
namespace PyTealV.Proofs.C02Gen
open PyTealV PyTealV.Avm PyTealV.Src PyTealV.Comp PyTealV.Models.FragmentR PyTealV.Models.Optimizer
open PyTealV.Proofs.Ops

/-- results of `execPrim` equal up to the representation of the scratch space -/
def CongR : M (List Val × World) → M (List Val × World) → Prop
  | .ok (st, a), .ok (st', b) => st = st' ∧ SameW a b
  | .error f, .error f' => f = f'
  | _, _ => False

theorem congR_framed {op : String} (h : framedOps.contains op = true) (cx : Ctx) (imms : List String)
    {a b : World} (hw : SameW a b) (st : List Val) :
    CongR (execPrim cx op imms a st) (execPrim cx op imms b st) := by
  have e1 := execPrim_frame cx op imms a b.scratch st h
  have e2 := execPrim_frame cx op imms a a.scratch st h
  rw [← hw.2] at e1
  rw [e1]
  have e3 : execPrim cx op imms { a with scratch := a.scratch } st = execPrim cx op imms a st := rfl
  rw [e3] at e2
  cases hA : execPrim cx op imms a st with
  | error f => simp only [Except.map, CongR]
  | ok x =>
    obtain ⟨st', a'⟩ := x
    rw [hA] at e2
    simp only [Except.map, setSc, Except.ok.injEq, Prod.mk.injEq, true_and] at e2
    simp only [Except.map, setSc, CongR, true_and]
    have hs : a'.scratch = a.scratch := by rw [e2]
    refine ⟨fun s => ?_, rfl⟩
    simp only [hs]
    exact hw.1 s

theorem congR_loads (cx : Ctx) (imms : List String) {a b : World} (hw : SameW a b) (st : List Val) :
    CongR (execPrim cx "loads" imms a st) (execPrim cx "loads" imms b st) := by
  unfold execPrim
  repeat rw [m20_loads]
  match st with
  | [] => simp [pop1, CongR, bind, Except.bind]
  | .b x :: r => simp [pop1, asU, CongR, bind, Except.bind]
  | .u s :: r =>
    by_cases hs : s < 256
    · simp only [pop1, asU, bind, Except.bind, hs, if_true, pure, Except.pure, CongR, hw.1 s, true_and]
      exact hw
    · simp [pop1, asU, bind, Except.bind, hs, CongR, throw, throwThe, MonadExceptOf.throw]

theorem congR_stores (cx : Ctx) (imms : List String) {a b : World} (hw : SameW a b) (st : List Val) :
    CongR (execPrim cx "stores" imms a st) (execPrim cx "stores" imms b st) := by
  unfold execPrim
  repeat rw [m20_stores]
  match st with
  | [] => simp [pop2, CongR, bind, Except.bind]
  | [_] => simp [pop2, CongR, bind, Except.bind]
  | v :: .b x :: r => simp [pop2, asU, CongR, bind, Except.bind]
  | v :: .u s :: r =>
    by_cases hs : s < 256
    · simp only [pop2, asU, bind, Except.bind, hs, if_true, pure, Except.pure, CongR, true_and]
      exact hw.set s v
    · simp [pop2, asU, bind, Except.bind, hs, CongR, throw, throwThe, MonadExceptOf.throw]

/-- **`execPrim` respects `SameW`** on the opcodes of the fragment -/
theorem execPrim_sameW {op : String} {k p : Nat} (h : primSigR op = some (k, p)) (cx : Ctx) (imms : List String)
    {a b : World} (hw : SameW a b) (st : List Val) :
    CongR (execPrim cx op imms a st) (execPrim cx op imms b st) := by
  unfold primSigR at h
  split at h
  · rename_i hop
    simp only [Bool.or_eq_true, beq_iff_eq] at hop
    rcases hop with (hop | hop) | hop
    · exact congR_framed hop cx imms hw st
    · subst hop; exact congR_loads cx imms hw st
    · subst hop; exact congR_stores cx imms hw st
  · cases h

theorem primSigR_primSig {op : String} {k p : Nat} (h : primSigR op = some (k, p)) :
    Models.Fragment.primSig op = some (k, p) := by
  unfold primSigR at h
  split at h
  · exact h
  · cases h

end PyTealV.Proofs.C02Gen
