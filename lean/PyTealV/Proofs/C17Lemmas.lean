/-
  Helper lemmas for property C17 (see `Proofs/C17.lean` for the property theorems).
-/
import PyTealV.Models.ValidateSlots
namespace PyTealV.Proofs.C17
open PyTealV.Models.ValidateSlots

/-! ## A. the slot set and the scan of one block -/

theorem mem_ins {a x : Nat} {L : List Nat} : a ∈ ins x L ↔ a = x ∨ a ∈ L := by
  induction L with
  | nil => simp [ins]
  | cons y ys ih =>
    unfold ins
    split
    · simp
    · split
      · subst_vars; simp
      · simp only [List.mem_cons, ih]
        constructor
        · rintro (h | h | h) <;> simp [h]
        · rintro (h | h | h) <;> simp [h]

theorem mem_canon {a : Nat} {l : List Nat} : a ∈ canon l ↔ a ∈ l := by
  induction l with
  | nil => simp [canon]
  | cons x xs ih => simp only [canon, List.foldr_cons] at ih ⊢; rw [mem_ins, ih]; simp

theorem mem_stores {a : Nat} {ops : List SOp} {cur : List Nat} :
    a ∈ stores cur ops ↔ a ∈ cur ∨ SOp.store a ∈ ops := by
  induction ops generalizing cur with
  | nil => simp [stores]
  | cons o os ih =>
    cases o <;> simp [stores, ih, mem_ins]
    constructor
    · rintro ((h | h) | h) <;> simp_all
    · rintro (h | h | h) <;> simp_all

theorem stores_append (cur : List Nat) (o1 o2 : List SOp) :
    stores cur (o1 ++ o2) = stores (stores cur o1) o2 := by
  induction o1 generalizing cur with
  | nil => simp [stores]
  | cons o os ih => cases o <;> simp [stores, ih]

/-- characterisation of the errors appended by the scan of a block: the block's op list splits as
    `pre ++ load s e :: post` and `s` is neither in `cur` nor stored in `pre` -/
theorem mem_loadErrs {er : Err} {blk i : Nat} {cur : List Nat} {ops : List SOp} :
    er ∈ loadErrs blk i cur ops ↔
      ∃ pre s post, ops = pre ++ SOp.load s er.expr :: post ∧ er.blk = blk ∧
        er.idx = i + pre.length ∧ s ∉ stores cur pre := by
  induction ops generalizing i cur with
  | nil => simp [loadErrs]
  | cons o os ih =>
    have up : ∀ cur', (∀ pre, stores cur (o :: pre) = stores cur' pre) → (∀ s e, o ≠ .load s e) →
        ((∃ pre s post, os = pre ++ SOp.load s er.expr :: post ∧ er.blk = blk ∧
          er.idx = i + 1 + pre.length ∧ s ∉ stores cur' pre) ↔
        (∃ pre s post, o :: os = pre ++ SOp.load s er.expr :: post ∧ er.blk = blk ∧
          er.idx = i + pre.length ∧ s ∉ stores cur pre)) := by
      intro cur' hst hne
      constructor
      · rintro ⟨pre, s, post, h1, h2, h3, h4⟩
        exact ⟨o :: pre, s, post, by simp [h1], h2, by simp; omega, by rw [hst]; exact h4⟩
      · rintro ⟨pre, s, post, h1, h2, h3, h4⟩
        cases pre with
        | nil => simp at h1; exact absurd h1.1 (hne _ _)
        | cons o' pre =>
          simp at h1; obtain ⟨rfl, rfl⟩ := h1
          exact ⟨pre, s, post, rfl, h2, by simp at h3; omega, by rw [← hst]; exact h4⟩
    cases o with
    | store t => simp only [loadErrs, ih]; exact up (ins t cur) (fun _ => rfl) (by simp)
    | ret => simp only [loadErrs, ih]; exact up cur (fun _ => rfl) (by simp)
    | other => simp only [loadErrs, ih]; exact up cur (fun _ => rfl) (by simp)
    | load t e =>
      have here : (∃ pre s post, SOp.load t e :: os = pre ++ SOp.load s er.expr :: post ∧ er.blk = blk ∧
          er.idx = i + pre.length ∧ s ∉ stores cur pre) ↔
          (e = er.expr ∧ er.blk = blk ∧ er.idx = i ∧ t ∉ cur) ∨
          (∃ pre s post, os = pre ++ SOp.load s er.expr :: post ∧ er.blk = blk ∧
            er.idx = i + 1 + pre.length ∧ s ∉ stores cur pre) := by
        constructor
        · rintro ⟨pre, s, post, h1, h2, h3, h4⟩
          cases pre with
          | nil =>
            simp at h1; obtain ⟨⟨rfl, rfl⟩, rfl⟩ := h1
            exact Or.inl ⟨rfl, h2, by simpa using h3, by simpa [stores] using h4⟩
          | cons o' pre =>
            simp at h1; obtain ⟨rfl, rfl⟩ := h1
            exact Or.inr ⟨pre, s, post, rfl, h2, by simp at h3; omega, by simpa [stores] using h4⟩
        · rintro (⟨rfl, h2, h3, h4⟩ | ⟨pre, s, post, h1, h2, h3, h4⟩)
          · exact ⟨[], t, os, rfl, h2, by simpa using h3, by simpa [stores] using h4⟩
          · exact ⟨SOp.load t e :: pre, s, post, by simp [h1], h2, by simp; omega, by simpa [stores] using h4⟩
      rw [here]
      simp only [loadErrs]
      split
      · rename_i hc
        rw [ih]
        constructor
        · exact Or.inr
        · rintro (⟨_, _, _, h⟩ | h)
          · exact absurd (by simpa using hc) h
          · exact h
      · rename_i hc
        rw [List.mem_cons, ih]
        constructor
        · rintro (h | h)
          · subst h; exact Or.inl ⟨rfl, rfl, rfl, by simpa using hc⟩
          · exact Or.inr h
        · rintro (⟨h1, h2, h3, _⟩ | h)
          · left; cases er; simp_all
          · exact Or.inr h

/-! ## B. the recursion explores exactly the configurations reachable from its argument -/

theorem mem_mergeErrs_left {A B : List Err} {e : Err} (h : e ∈ A) : e ∈ mergeErrs A B := by
  unfold mergeErrs
  induction B generalizing A with
  | nil => simpa
  | cons b bs ih =>
    simp only [List.foldl_cons]
    apply ih
    split
    · exact h
    · exact List.mem_append_left _ h

theorem mem_mergeErrs {A B : List Err} {e : Err} (h : e ∈ mergeErrs A B) : e ∈ A ∨ e ∈ B := by
  unfold mergeErrs at h
  induction B generalizing A with
  | nil => left; simpa using h
  | cons b bs ih =>
    simp only [List.foldl_cons] at h
    rcases ih h with h | h
    · split at h
      · exact Or.inl h
      · rcases List.mem_append.mp h with h | h
        · exact Or.inl h
        · right; simp at h; simp [h]
    · right; simp [h]

theorem mem_mergeErrs_right {A B : List Err} {e : Err} (h : e ∈ B) :
    ∃ e' ∈ mergeErrs A B, e'.expr = e.expr := by
  unfold mergeErrs
  induction B generalizing A with
  | nil => simp at h
  | cons b bs ih =>
    simp only [List.foldl_cons]
    rcases List.mem_cons.mp h with rfl | h
    · by_cases hc : A.any (fun a => a.expr == e.expr) = true
      · rw [if_pos hc]
        obtain ⟨a, ha, hae⟩ := List.any_eq_true.mp hc
        exact ⟨a, mem_mergeErrs_left ha, by simpa using hae⟩
      · rw [if_neg hc]
        exact ⟨e, mem_mergeErrs_left (by simp), rfl⟩
    · exact ih h

/-- one step of the configuration graph: configuration = (block, slots in use at its entry) -/
def cstep (G : Graph) (c c' : Key) : Prop :=
  (G.block c.1).isTerminal = false ∧ c'.1 ∈ (G.block c.1).outgoing ∧
    c'.2 = stores c.2 (G.block c.1).ops

inductive Reach (G : Graph) : Key → Key → Prop
  | refl (c : Key) : Reach G c c
  | tail {a b c : Key} : Reach G a b → cstep G b c → Reach G a c

theorem Reach.head {G : Graph} {a b c : Key} (h : cstep G a b) (r : Reach G b c) : Reach G a c := by
  induction r with
  | refl => exact .tail (.refl _) h
  | tail _ s ih => exact .tail ih s

/-- errors found by the scan of the block of a configuration -/
def localErrs (G : Graph) (c : Key) : List Err := loadErrs c.1 0 c.2 (G.block c.1).ops

/-- what a call `visit … c.1 c.2 vis = some r` guarantees -/
structure Inv (G : Graph) (c : Key) (vis : List Key) (r : St) : Prop where
  sub : ∀ k ∈ vis, k ∈ r.2
  reach : ∀ k ∈ r.2, k ∈ vis ∨ Reach G c k
  closed : ∀ k, (k = c ∨ (k ∈ r.2 ∧ k ∉ vis)) → ∀ k', cstep G k k' → k' ∈ r.2
  esound : ∀ e ∈ r.1, ∃ k, Reach G c k ∧ e ∈ localErrs G k
  ecompl : ∀ k, (k = c ∨ (k ∈ r.2 ∧ k ∉ vis)) → ∀ e ∈ localErrs G k, ∃ e' ∈ r.1, e'.expr = e.expr

/-- invariant of the loop over the outgoing edges -/
structure FInv (G : Graph) (c : Key) (cur : List Nat) (vis : List Key) (done : List Nat) (st : St) : Prop where
  sub : ∀ k ∈ vis, k ∈ st.2
  reach : ∀ k ∈ st.2, k ∈ vis ∨ Reach G c k
  closed : ∀ k ∈ st.2, k ∉ vis → ∀ k', cstep G k k' → k' ∈ st.2
  done : ∀ b' ∈ done, (b', cur) ∈ st.2
  esound : ∀ e ∈ st.1, ∃ k, Reach G c k ∧ e ∈ localErrs G k
  ecompl0 : ∀ e ∈ localErrs G c, ∃ e' ∈ st.1, e'.expr = e.expr
  ecompl : ∀ k ∈ st.2, k ∉ vis → ∀ e ∈ localErrs G k, ∃ e' ∈ st.1, e'.expr = e.expr

theorem foldl_edgeStep_none (rec : Nat → List Nat → List Key → Option St) (cur : List Nat) (outs : List Nat) :
    outs.foldl (edgeStep rec cur) none = none := by
  induction outs with
  | nil => rfl
  | cons o os ih => simpa [List.foldl_cons, edgeStep] using ih

theorem edgeStep_visited (rec : Nat → List Nat → List Key → Option St) {cur : List Nat} (errs : List Err)
    {v : List Key} {b' : Nat} (h : (b', cur) ∈ v) :
    edgeStep rec cur (some (errs, v)) b' = some (errs, v) := by
  simp [edgeStep, h]

theorem edgeStep_new_none (rec : Nat → List Nat → List Key → Option St) {cur : List Nat} (errs : List Err)
    {v : List Key} {b' : Nat} (h : (b', cur) ∉ v) (hr : rec b' cur ((b', cur) :: v) = none) :
    edgeStep rec cur (some (errs, v)) b' = none := by
  simp [edgeStep, h, hr]

theorem edgeStep_new_some (rec : Nat → List Nat → List Key → Option St) {cur : List Nat} (errs : List Err)
    {v : List Key} {b' : Nat} (h : (b', cur) ∉ v) {sub : List Err} {v' : List Key}
    (hr : rec b' cur ((b', cur) :: v) = some (sub, v')) :
    edgeStep rec cur (some (errs, v)) b' = some (mergeErrs errs sub, v') := by
  simp [edgeStep, h, hr]

theorem fold_inv {G : Graph} {c : Key} {cur : List Nat} {vis : List Key}
    {rec : Nat → List Nat → List Key → Option St}
    (hrec : ∀ b' S' vis' r, rec b' S' vis' = some r → Inv G (b', S') vis' r)
    (outs : List Nat) (hedge : ∀ b' ∈ outs, cstep G c (b', cur))
    (done : List Nat) (st res : St) (hst : FInv G c cur vis done st)
    (hres : outs.foldl (edgeStep rec cur) (some st) = some res) :
    FInv G c cur vis (done ++ outs) res := by
  induction outs generalizing done st with
  | nil => simp at hres; subst hres; simpa using hst
  | cons b' rest ih =>
    have hedge' : ∀ b ∈ rest, cstep G c (b, cur) := fun b hb => hedge b (List.mem_cons_of_mem _ hb)
    have hb' : cstep G c (b', cur) := hedge b' (by simp)
    obtain ⟨errs, v⟩ := st
    rw [List.foldl_cons] at hres
    have happ : done ++ b' :: rest = (done ++ [b']) ++ rest := by simp
    rw [happ]
    by_cases hmem : (b', cur) ∈ v
    · rw [edgeStep_visited _ _ hmem] at hres
      refine ih hedge' _ _ ?_ hres
      refine { hst with done := ?_ }
      intro b hb
      rcases List.mem_append.mp hb with hb | hb
      · exact hst.done b hb
      · simp at hb; subst hb; exact hmem
    · have hnin := hmem
      cases hr : rec b' cur ((b', cur) :: v) with
      | none => rw [edgeStep_new_none _ _ hmem hr, foldl_edgeStep_none] at hres; cases hres
      | some r =>
        obtain ⟨sub, v'⟩ := r
        rw [edgeStep_new_some _ _ hmem hr] at hres
        have I := hrec _ _ _ _ hr
        refine ih hedge' _ _ ?_ hres
        have vsub : ∀ k ∈ v, k ∈ v' := fun k hk => I.sub k (List.mem_cons_of_mem _ hk)
        have hk'v' : (b', cur) ∈ v' := I.sub _ (by simp)
        constructor
        · intro k hk; exact vsub k (hst.sub k hk)
        · intro k hk
          rcases I.reach k hk with h | h
          · rcases List.mem_cons.mp h with rfl | h
            · exact Or.inr (.tail (.refl _) hb')
            · exact hst.reach k h
          · exact Or.inr (Reach.head hb' h)
        · intro k hk hkv k' hs
          by_cases hkin : k ∈ v
          · exact vsub _ (hst.closed k hkin hkv k' hs)
          · by_cases hkc : k = (b', cur)
            · exact I.closed k (Or.inl hkc) k' hs
            · exact I.closed k (Or.inr ⟨hk, by simp [hkc, hkin]⟩) k' hs
        · intro b hb
          rcases List.mem_append.mp hb with hb | hb
          · exact vsub _ (hst.done b hb)
          · simp at hb; subst hb; exact hk'v'
        · intro e he
          rcases mem_mergeErrs he with he | he
          · exact hst.esound e he
          · obtain ⟨k, hk, hek⟩ := I.esound e he
            exact ⟨k, Reach.head hb' hk, hek⟩
        · intro e he
          obtain ⟨e', he', hx⟩ := hst.ecompl0 e he
          exact ⟨e', mem_mergeErrs_left he', hx⟩
        · intro k hk hkv e he
          by_cases hkin : k ∈ v
          · obtain ⟨e', he', hx⟩ := hst.ecompl k hkin hkv e he
            exact ⟨e', mem_mergeErrs_left he', hx⟩
          · have : ∃ e' ∈ sub, e'.expr = e.expr := by
              by_cases hkc : k = (b', cur)
              · exact I.ecompl k (Or.inl hkc) e he
              · exact I.ecompl k (Or.inr ⟨hk, by simp [hkc, hkin]⟩) e he
            obtain ⟨e', he', hx⟩ := this
            obtain ⟨e'', he'', hx'⟩ := mem_mergeErrs_right (A := errs) he'
            exact ⟨e'', he'', hx'.trans hx⟩

theorem visit_inv (G : Graph) (fuel b : Nat) (S : List Nat) (vis : List Key) (r : St)
    (h : visit G fuel b S vis = some r) : Inv G (b, S) vis r := by
  induction fuel generalizing b S vis r with
  | zero => simp [visit] at h
  | succ fuel ih =>
    unfold visit at h
    simp only at h
    by_cases ht : (G.block b).isTerminal = true
    · rw [if_pos ht] at h
      cases h
      constructor
      · intro k hk; exact hk
      · intro k hk; exact Or.inl hk
      · rintro k (rfl | ⟨h1, h2⟩) k' hs
        · exact absurd hs.1 (by simp [ht])
        · exact absurd h1 h2
      · intro e he; exact ⟨_, .refl _, he⟩
      · rintro k (rfl | ⟨h1, h2⟩) e he
        · exact ⟨e, he, rfl⟩
        · exact absurd h1 h2
    · rw [if_neg ht] at h
      have ht' : (G.block b).isTerminal = false := by simpa using ht
      have F := fold_inv (G := G) (c := (b, S)) (cur := stores S (G.block b).ops) (vis := vis)
        (fun b' S' vis' r hr => ih b' S' vis' r hr) (G.block b).outgoing
        (fun b' hb' => ⟨ht', hb', rfl⟩) [] _ r
        { sub := fun k hk => hk
          reach := fun k hk => Or.inl hk
          closed := fun k hk hkv => absurd hk hkv
          done := by simp
          esound := fun e he => ⟨_, .refl _, he⟩
          ecompl0 := fun e he => ⟨e, he, rfl⟩
          ecompl := fun k hk hkv => absurd hk hkv } h
      constructor
      · exact F.sub
      · exact F.reach
      · rintro k (rfl | ⟨h1, h2⟩) k' hs
        · obtain ⟨_, h2, h3⟩ := hs
          have : k' = (k'.1, stores S (G.block b).ops) := by rw [← h3]
          rw [this]; exact F.done _ (by simpa using h2)
        · exact F.closed k h1 h2 k' hs
      · exact F.esound
      · rintro k (rfl | ⟨h1, h2⟩) e he
        · exact F.ecompl0 e he
        · exact F.ecompl k h1 h2 e he

/-- at the outermost call (`visited` empty) every reachable configuration has been scanned -/
theorem visit_root (G : Graph) (fuel b : Nat) (S : List Nat) (r : St)
    (h : visit G fuel b S [] = some r) :
    (∀ e ∈ r.1, ∃ k, Reach G (b, S) k ∧ e ∈ localErrs G k) ∧
    (∀ k, Reach G (b, S) k → ∀ e ∈ localErrs G k, ∃ e' ∈ r.1, e'.expr = e.expr) := by
  have I := visit_inv G fuel b S [] r h
  refine ⟨I.esound, ?_⟩
  have all : ∀ k, Reach G (b, S) k → k = (b, S) ∨ k ∈ r.2 := by
    intro k hk
    induction hk with
    | refl => exact Or.inl rfl
    | tail _ hs ih =>
      right
      rcases ih with rfl | ih
      · exact I.closed _ (Or.inl rfl) _ hs
      · exact I.closed _ (Or.inr ⟨ih, by simp⟩) _ hs
  intro k hk e he
  rcases all k hk with rfl | hk
  · exact I.ecompl _ (Or.inl rfl) e he
  · exact I.ecompl _ (Or.inr ⟨hk, by simp⟩) e he

/-! ## D. the recursion depth never exceeds the number of memo keys -/

def subls : List Nat → List (List Nat)
  | [] => [[]]
  | x :: xs => subls xs ++ (subls xs).map (x :: ·)

theorem length_subls (l : List Nat) : (subls l).length = 2 ^ l.length := by
  induction l with
  | nil => rfl
  | cons x xs ih => simp [subls, ih, Nat.pow_succ]; omega

theorem mem_subls_of_sublist {L U : List Nat} (h : L.Sublist U) : L ∈ subls U := by
  induction h with
  | slnil => simp [subls]
  | cons a _ ih => simp [subls, ih]
  | cons_cons a _ ih => simp [subls, ih]

theorem ins_of_lt {x : Nat} {L : List Nat} (h : ∀ y ∈ L, x < y) : ins x L = x :: L := by
  cases L with
  | nil => rfl
  | cons y ys => simp [ins, h y (by simp)]

theorem ins_sublist {U : List Nat} (hU : U.Pairwise (· < ·)) {L : List Nat} {x : Nat}
    (hL : L.Sublist U) (hx : x ∈ U) : (ins x L).Sublist U := by
  induction hL with
  | slnil => simp at hx
  | @cons L U' u hs ih =>
    rw [List.pairwise_cons] at hU
    rcases List.mem_cons.mp hx with rfl | hx
    · rw [ins_of_lt (fun y hy => hU.1 y (hs.subset hy))]
      exact hs.cons_cons _
    · exact (ih hU.2 hx).cons _
  | @cons_cons L U' u hs ih =>
    rw [List.pairwise_cons] at hU
    rcases List.mem_cons.mp hx with rfl | hx
    · simp [ins]; exact hs
    · have : u < x := hU.1 x hx
      have h1 : ¬ x < u := by omega
      have h2 : ¬ x = u := by omega
      simp only [ins, h1, h2, if_false]
      exact (ih hU.2 hx).cons_cons _

theorem range_pairwise (n : Nat) : (List.range n).Pairwise (· < ·) := List.pairwise_lt_range

theorem stores_sublist {ns : Nat} {ops : List SOp} {cur : List Nat}
    (hops : ∀ s, SOp.store s ∈ ops → s < ns) (hcur : cur.Sublist (List.range ns)) :
    (stores cur ops).Sublist (List.range ns) := by
  induction ops generalizing cur with
  | nil => simpa [stores]
  | cons o os ih =>
    have hos : ∀ s, SOp.store s ∈ os → s < ns := fun s h => hops s (List.mem_cons_of_mem _ h)
    cases o with
    | store t =>
      simp only [stores]
      exact ih hos (ins_sublist (range_pairwise ns) hcur (by simpa using hops t (by simp)))
    | load t e => simpa [stores] using ih hos hcur
    | ret => simpa [stores] using ih hos hcur
    | other => simpa [stores] using ih hos hcur

theorem canon_sublist {ns : Nat} {l : List Nat} (h : ∀ s ∈ l, s < ns) :
    (canon l).Sublist (List.range ns) := by
  induction l with
  | nil => simp [canon]
  | cons x xs ih =>
    simp only [canon, List.foldr_cons]
    exact ins_sublist (range_pairwise ns) (ih (fun s hs => h s (List.mem_cons_of_mem _ hs)))
      (by simpa using h x (by simp))

/-- every memo key that can ever be formed -/
def keysU (nb ns : Nat) : List Key :=
  (List.range nb).flatMap (fun b => (subls (List.range ns)).map (fun L => (b, L)))

theorem mem_keysU {nb ns b : Nat} {L : List Nat} (hb : b < nb) (hL : L.Sublist (List.range ns)) :
    (b, L) ∈ keysU nb ns := by
  simp only [keysU, List.mem_flatMap, List.mem_range, List.mem_map]
  exact ⟨b, hb, L, mem_subls_of_sublist hL, rfl⟩

theorem length_keysU (nb ns : Nat) : (keysU nb ns).length = nb * 2 ^ ns := by
  unfold keysU
  induction nb with
  | zero => simp
  | succ n ih =>
    rw [List.range_succ, List.flatMap_append, List.length_append, ih]
    simp [length_subls, Nat.succ_mul]

/-- number of memo keys not yet in `visited` -/
def remaining (nb ns : Nat) (vis : List Key) : Nat :=
  ((keysU nb ns).filter (fun k => !vis.contains k)).length

theorem filter_length_mono {α} (l : List α) (p q : α → Bool) (h : ∀ x, q x = true → p x = true) :
    (l.filter q).length ≤ (l.filter p).length := by
  induction l with
  | nil => simp
  | cons x xs ih =>
    by_cases hq : q x = true
    · simp [hq, h x hq, ih]
    · by_cases hp : p x = true
      · simp [hq, hp]; omega
      · simp [hq, hp]; omega

theorem filter_length_lt {α} (l : List α) (p q : α → Bool) (h : ∀ x, q x = true → p x = true)
    (k : α) (hk : k ∈ l) (hp : p k = true) (hq : q k = false) :
    (l.filter q).length < (l.filter p).length := by
  induction l with
  | nil => simp at hk
  | cons x xs ih =>
    rcases List.mem_cons.mp hk with rfl | hk
    · have := filter_length_mono xs p q h
      simp [hp, hq]; omega
    · have := ih hk
      by_cases hqx : q x = true
      · simp [hqx, h x hqx]; omega
      · by_cases hpx : p x = true
        · simp [hqx, hpx]; omega
        · simp [hqx, hpx]; omega

theorem remaining_le (nb ns : Nat) (vis : List Key) : remaining nb ns vis ≤ nb * 2 ^ ns := by
  rw [← length_keysU]; exact List.length_filter_le _ _

theorem remaining_mono {nb ns : Nat} {vis vis' : List Key} (h : ∀ k ∈ vis, k ∈ vis') :
    remaining nb ns vis' ≤ remaining nb ns vis := by
  apply filter_length_mono
  intro x hx
  simp only [Bool.not_eq_true', List.contains_eq_mem, decide_eq_false_iff_not] at hx ⊢
  exact fun hm => hx (h x hm)

theorem remaining_lt {nb ns : Nat} {vis : List Key} {k : Key} (hk : k ∈ keysU nb ns) (hv : k ∉ vis) :
    remaining nb ns (k :: vis) < remaining nb ns vis := by
  apply filter_length_lt _ _ _ _ k hk
  · simpa using hv
  · simp
  · intro x hx
    simp only [Bool.not_eq_true', List.contains_eq_mem, decide_eq_false_iff_not, List.mem_cons, not_or] at hx ⊢
    exact hx.2

/-- all block indices and slot ids the exploration can meet are below `nb` / `ns` -/
structure Bounded (G : Graph) (nb ns : Nat) : Prop where
  succ : ∀ b, ∀ b' ∈ (G.block b).outgoing, b' < nb
  slot : ∀ (b s : Nat), SOp.store s ∈ (G.block b).ops → s < ns

theorem fold_some {G : Graph} {nb ns fuel : Nat} {cur : List Nat}
    (hcur : cur.Sublist (List.range ns))
    (ih : ∀ b S vis, b < nb → S.Sublist (List.range ns) → remaining nb ns vis < fuel →
      ∃ r, visit G fuel b S vis = some r)
    (outs : List Nat) (houts : ∀ b' ∈ outs, b' < nb) (st : St) (hst : remaining nb ns st.2 ≤ fuel) :
    ∃ res, outs.foldl (edgeStep (visit G fuel) cur) (some st) = some res := by
  induction outs generalizing st with
  | nil => exact ⟨st, rfl⟩
  | cons b' rest ihl =>
    obtain ⟨errs, v⟩ := st
    have hrest : ∀ b ∈ rest, b < nb := fun b hb => houts b (List.mem_cons_of_mem _ hb)
    rw [List.foldl_cons]
    by_cases hmem : (b', cur) ∈ v
    · rw [edgeStep_visited _ _ hmem]; exact ihl hrest _ hst
    · have hlt := remaining_lt (mem_keysU (houts b' (by simp)) hcur) hmem
      obtain ⟨⟨sub, v'⟩, hr⟩ := ih b' cur ((b', cur) :: v) (houts b' (by simp)) hcur
        (by simp only at hst; omega)
      rw [edgeStep_new_some _ _ hmem hr]
      apply ihl hrest
      have I := visit_inv G _ _ _ _ _ hr
      have : remaining nb ns v' ≤ remaining nb ns v :=
        remaining_mono (fun k hk => I.sub k (List.mem_cons_of_mem _ hk))
      simp only at hst ⊢; omega

theorem visit_some {G : Graph} {nb ns : Nat} (hB : Bounded G nb ns) (fuel b : Nat) (S : List Nat)
    (vis : List Key) (hb : b < nb) (hS : S.Sublist (List.range ns))
    (hfuel : remaining nb ns vis < fuel) : ∃ r, visit G fuel b S vis = some r := by
  induction fuel generalizing b S vis with
  | zero => omega
  | succ fuel ih =>
    unfold visit
    simp only
    split
    · exact ⟨_, rfl⟩
    · exact fold_some (stores_sublist (hB.slot b) hS) ih _ (hB.succ b) _ (by simp only; omega)

theorem le_foldr_max {l : List Nat} {x : Nat} (h : x ∈ l) : x ≤ l.foldr max 0 := by
  induction l with
  | nil => simp at h
  | cons y ys ih =>
    simp only [List.foldr_cons]
    rcases List.mem_cons.mp h with rfl | h
    · omega
    · have := ih h; omega

theorem block_cases (G : Graph) (b : Nat) : G.block b ∈ G.toList ∨ G.block b = ⟨[], .none⟩ := by
  unfold Graph.block
  by_cases h : b < G.size
  · left; simp [Array.getD, h]
  · right; simp [Array.getD, h]

theorem bounded (G : Graph) (init : List Nat) (start : Nat) :
    Bounded G (blockBound G start) (slotBound G init) := by
  constructor
  · intro b b' hb'
    rcases block_cases G b with h | h
    · have h1 : b' + 1 ≤ ((G.block b).outgoing.map (· + 1)).foldr max 0 :=
        le_foldr_max (List.mem_map.mpr ⟨b', hb', rfl⟩)
      have h2 : ((G.block b).outgoing.map (· + 1)).foldr max 0 ≤
          (G.toList.map (fun B => (B.outgoing.map (· + 1)).foldr max 0)).foldr max 0 :=
        le_foldr_max (List.mem_map.mpr ⟨_, h, rfl⟩)
      unfold blockBound; omega
    · rw [h] at hb'; simp [Block.outgoing] at hb'
  · intro b s hs
    rcases block_cases G b with h | h
    · have h1 : s + 1 ≤ ((G.block b).ops.map opSlot).foldr max 0 :=
        le_foldr_max (List.mem_map.mpr ⟨_, hs, rfl⟩)
      have h2 : ((G.block b).ops.map opSlot).foldr max 0 ≤
          (G.toList.map (fun B => (B.ops.map opSlot).foldr max 0)).foldr max 0 :=
        le_foldr_max (List.mem_map.mpr ⟨_, h, rfl⟩)
      unfold slotBound; omega
    · rw [h] at hs; simp at hs

theorem init_lt_slotBound (G : Graph) (init : List Nat) : ∀ s ∈ init, s < slotBound G init := by
  intro s hs
  have : s + 1 ≤ (init.map (· + 1)).foldr max 0 := le_foldr_max (List.mem_map.mpr ⟨s, hs, rfl⟩)
  unfold slotBound; omega

theorem start_lt_blockBound (G : Graph) (start : Nat) : start < blockBound G start := by
  unfold blockBound; omega

end PyTealV.Proofs.C17
