/-
  C01 — composition: for a program whose real TEAL `P` passed the certificate check against the
  graph of the (renamed) source tree `e`, the real TEAL computes what the tree denotes, on every
  context, every initial state and every run length.
  The statement about the tree BEFORE the renaming of variables to slots (the one the harness renders)
  is `Proofs.CompileOriginal.compile_correct_original` (with `Proofs/Rename.lean`).
-/
import PyTealV.Proofs.Sim
import PyTealV.Proofs.Shape
namespace PyTealV.Proofs.C01
open PyTealV PyTealV.Avm PyTealV.Src PyTealV.Comp PyTealV.Check PyTealV.Models.Fragment

/-- Whenever the source evaluation of `e` terminates, the real TEAL terminates with the same verdict,
    return value and final world (ordered effects, state, scratch); the only permitted deviation is
    the AVM's 1000-deep operand stack, which the source semantics does not have. When the source
    evaluation fails, the TEAL fails. -/
theorem compile_correct_validated (version : Nat) (e : Expr) (P : Program) (G : Graph) (s : Nat) (V : Rel)
    (hg : genMain { version := version } e = .ok (G, s))
    (hf : inFragment e = true)
    (hc : closed G s P V = true)
    (cx : Ctx) (w0 : World) (fuel : Nat) :
    match Src.runProg cx { subs := [], main := e } fuel w0 with
    | .done v w => ∃ n, Avm.run cx P n w0 = .done v w ∨ Avm.run cx P n w0 = .fail (.logic "stack overflow")
    | .fail (.unmodelled _) => True
    | .fail _ => ∃ n f, Avm.run cx P n w0 = .fail f
    | .outOfFuel => True := by
  have h := PyTealV.Proofs.Shape.gen_correct { version := version } rfl rfl e hf G s hg cx w0 fuel
  revert h
  cases hr : Src.runProg cx { subs := [], main := e } fuel w0 with
  | done v w =>
    intro h
    obtain ⟨n, h | h⟩ := h
    · obtain ⟨n', hn'⟩ := sim_sound_forward G s P V hc cx { world := w0 } n _ h (by simp)
      exact ⟨n', Or.inl hn'⟩
    · obtain ⟨n', hn'⟩ := sim_sound_forward G s P V hc cx { world := w0 } n _ h (by simp)
      exact ⟨n', Or.inr hn'⟩
  | fail f =>
    intro h
    cases f with
    | unmodelled m => trivial
    | underflow | typeErr _ | badPc | badLabel _ | illegal _ | frame _ | logic _ =>
      obtain ⟨n, f', h⟩ := h
      obtain ⟨n', hn'⟩ := sim_sound_forward G s P V hc cx { world := w0 } n _ h (by simp)
      exact ⟨n', f', hn'⟩
  | outOfFuel => intro _; trivial

end PyTealV.Proofs.C01
