/-
  C02Gen (part 2): where the code of a tree sits in a routine graph produced by `Comp.genR`
  (`ShapeR`, the relation of `Proofs/ShapeMach.lean` extended with subroutine calls, `retsub`,
  `frame_dig` parameter reads), and the closing lemma `genR_spec`: the graph produced by `genR`
  satisfies `ShapeR` (monotone-state argument of `Proofs/ShapeGen.lean`, whose generic part —
  `bind_ok`, `Ext`, `Spec` — is reused as it is).
-/
import PyTealV.Proofs.C02GenMach
import PyTealV.Proofs.ShapeGen
namespace PyTealV.Proofs.C02Gen
open PyTealV PyTealV.Avm PyTealV.Src PyTealV.Comp PyTealV.Models.Spill
open PyTealV.Proofs.Shape (ovf Blk lowInstr lowArgs bind_ok emit_ok opBlock_ok reserve_ok write_ok pure_ok throw_ok
  Ext noP Spec set_get)

/-- `genR`'s renaming of the source-level dynamic slot access -/
def renOp (op : String) : String :=
  if op == "vloads" then "loads" else if op == "vstores" then "stores" else op

/-- the ops of a call block: spill, `callsub`, restore -/
def callOps (cfg : RCfg) (f : Nat) (ce : Callee) : List Instr :=
  (if cfg.reenters.contains f && !cfg.localSlots.isEmpty
    then spillBefore cfg.localSlots ce.nArgs (decide (cfg.version ≥ 5)) else []) ++
  [.callsub (subLabel f)] ++
  (if cfg.reenters.contains f && !cfg.localSlots.isEmpty
    then spillAfter cfg.localSlots ce.nArgs ce.hasRet (decide (cfg.version ≥ 5)) else [])

mutual
  /-- `ShapeR G cfg e s k L`: the code of `e` starts at block `s` of `G`, continues at block `k`
      when `e` completes normally, and jumps to the targets in `L` on Break/Continue. -/
  inductive ShapeR (G : Graph) (cfg : RCfg) : Expr → Nat → Nat → Option Loop → Prop
    | int {n s k L} : Blk G s [.pushInt n] (.next k) → ShapeR G cfg (.int n) s k L
    | bytes {b s k L} : Blk G s [.pushBytes b] (.next k) → ShapeR G cfg (.bytes b) s k L
    | prim {op imms args s ob k L} : Blk G ob [.prim (renOp op) imms] (.next k) → ShapeRArgs G cfg args s ob L →
        ShapeR G cfg (.prim op imms args) s k L
    | load {v s k L} : cfg.frameParams.find? (·.1 == v) = none → Blk G s [.load v] (.next k) →
        ShapeR G cfg (.load v) s k L
    | loadF {v pr s k L} : cfg.frameParams.find? (·.1 == v) = some pr → Blk G s [.frameDig pr.2] (.next k) →
        ShapeR G cfg (.load v) s k L
    | retNone {s k L} : cfg.inSub = true → Blk G s [.retsub] (.next k) → ShapeR G cfg (.ret none) s k L
    | call {f args ce s cb k L} : cfg.callees.find? (·.id == f) = some ce →
        Blk G cb (callOps cfg f ce) (.next k) → ShapeRArgs G cfg args s cb L →
        ShapeR G cfg (.call f args) s k L
    | wide {ns ds s dstart cb k L} : Blk G cb (wideInstrs Models.WideRatio.combine) (.next k) →
        ShapeRWideTop G cfg ds dstart cb L → ShapeRWideTop G cfg ns s dstart L →
        ShapeR G cfg (.wideRatio ns ds) s k L
    | store {v e s ob k L} : Blk G ob [.store v] (.next k) → ShapeR G cfg e s ob L →
        ShapeR G cfg (.store v e) s k L
    | index {v s k L} :
        Blk G s [if cfg.markIndex then .prim "__index" [toString v] else .pushInt v] (.next k) →
        ShapeR G cfg (.index v) s k L
    | multi {op imms args outs s ob sb k L} : Blk G sb (outs.reverse.map .store) (.next k) →
        Blk G ob [.prim op imms] (.next sb) → ShapeRArgs G cfg args s ob L →
        ShapeR G cfg (.multi op imms args outs) s k L
    | seq {es s k L} : ShapeRSeq G cfg es s k L → ShapeR G cfg (.seq es) s k L
    | iteSome {c t e s br ts es endB k L} : Blk G endB [] (.next k) → ShapeR G cfg t ts endB L →
        ShapeR G cfg e es endB L → Blk G br [] (.cond ts es) → ShapeR G cfg c s br L →
        ShapeR G cfg (.ite c t (some e)) s k L
    | iteNone {c t s br ts endB k L} : Blk G endB [] (.next k) → ShapeR G cfg t ts endB L →
        Blk G br [] (.cond ts endB) → ShapeR G cfg c s br L →
        ShapeR G cfg (.ite c t none) s k L
    | cond {arms s endB errB k L} : Blk G endB [] (.next k) → Blk G errB [.err] .none →
        ShapeRCond G cfg arms s endB errB L → ShapeR G cfg (.cond arms) s k L
    | while_ {c d hdr cs br ds endB k L} : Blk G endB [] (.next k) → Blk G hdr [] (.next cs) →
        ShapeR G cfg c cs br (some ⟨endB, hdr⟩) → ShapeR G cfg d ds hdr (some ⟨endB, hdr⟩) →
        Blk G br [] (.cond ds endB) → ShapeR G cfg (.while_ c d) hdr k L
    | for_ {i c st d s cs br ss shdr ds endB k L} : Blk G endB [] (.next k) →
        ShapeR G cfg c cs br (some ⟨endB, shdr⟩) → ShapeR G cfg st ss cs (some ⟨endB, shdr⟩) →
        Blk G shdr [] (.next ss) → ShapeR G cfg d ds shdr (some ⟨endB, shdr⟩) →
        Blk G br [] (.cond ds endB) → ShapeR G cfg i s cs (some ⟨endB, shdr⟩) →
        ShapeR G cfg (.for_ i c st d) s k L
    | brk {s k l} : Blk G s [] (.next l.brk) → ShapeR G cfg .brk s k (some l)
    | cont {s k l} : Blk G s [] (.next l.cont) → ShapeR G cfg .cont s k (some l)
    | assert3 {c s ob k L} : cfg.version ≥ 3 → Blk G ob [.prim "assert" []] (.next k) →
        ShapeR G cfg c s ob L → ShapeR G cfg (.assert_ c) s k L
    | assert2 {c s br endB errB k L} : ¬ cfg.version ≥ 3 → Blk G endB [] (.next k) →
        Blk G errB [.err] .none → Blk G br [] (.cond endB errB) → ShapeR G cfg c s br L →
        ShapeR G cfg (.assert_ c) s k L
    | ret {e s ob k L} : Blk G ob [if cfg.inSub then .retsub else .ret] (.next k) →
        ShapeR G cfg e s ob L → ShapeR G cfg (.ret (some e)) s k L
    | exit {e s ob k L} : Blk G ob [.ret] (.next k) → ShapeR G cfg e s ob L →
        ShapeR G cfg (.exit e) s k L
    | err {s k L} : Blk G s [.err] (.next k) → ShapeR G cfg .err s k L
    | noteNone {s k L} : Blk G s [] (.next k) → ShapeR G cfg (.note none) s k L
    | noteSome {e s k L} : ShapeR G cfg e s k L → ShapeR G cfg (.note (some e)) s k L
    | nonce {b e s es k L} : ShapeR G cfg e es k L →
        Blk G s [.pushBytes b, .prim "pop" []] (.next es) → ShapeR G cfg (.nonce b e) s k L
    | substring {str a b low s ob k L} : lowerSubstring cfg.version a b = .ok low →
        Blk G ob [lowInstr low] (.next k) → ShapeRArgs G cfg (lowArgs low str a b) s ob L →
        ShapeR G cfg (.substring str a b) s k L
    | extract {str a l s ob k L} : Blk G ob [lowInstr (lowerExtract a l)] (.next k) →
        ShapeRArgs G cfg (lowArgs (lowerExtract a l) str a l) s ob L →
        ShapeR G cfg (.extract str a l) s k L
    | suffixImm {str st s ob k L} : st < 256 → cfg.version ≥ 5 →
        Blk G ob [.prim "extract" [toString st, "0"]] (.next k) → ShapeRArgs G cfg [str] s ob L →
        ShapeR G cfg (.suffix str (.int st)) s k L
    | suffixGen {str a s ob k L} : Blk G ob suffixOps (.next k) → ShapeRArgs G cfg [str, a] s ob L →
        ShapeR G cfg (.suffix str a) s k L
  /-- `multiplyFactors`: one factor: `int 0`, the factor; else the first two factors, `mulw`, then
      every further factor followed by the eight ops of `mulStep` -/
  inductive ShapeRWideTop (G : Graph) (cfg : RCfg) : List Expr → Nat → Nat → Option Loop → Prop
    | one {e0 s b k L} : Blk G s [.pushInt 0] (.next b) → ShapeR G cfg e0 b k L →
        ShapeRWideTop G cfg [e0] s k L
    | many {e0 e1 rest s b1 mb r k L} : ShapeRWideRest G cfg rest r k L →
        Blk G mb [.prim "mulw" []] (.next r) → ShapeR G cfg e1 b1 mb L → ShapeR G cfg e0 s b1 L →
        ShapeRWideTop G cfg (e0 :: e1 :: rest) s k L
  inductive ShapeRWideRest (G : Graph) (cfg : RCfg) : List Expr → Nat → Nat → Option Loop → Prop
    | nil {k L} : ShapeRWideRest G cfg [] k k L
    | cons {e rest s sb k' k L} : ShapeRWideRest G cfg rest k' k L →
        Blk G sb (wideInstrs Models.WideRatio.mulStep) (.next k') → ShapeR G cfg e s sb L →
        ShapeRWideRest G cfg (e :: rest) s k L
  /-- operands left to right; the entry of an empty operand list is the continuation itself -/
  inductive ShapeRArgs (G : Graph) (cfg : RCfg) : List Expr → Nat → Nat → Option Loop → Prop
    | nil {k L} : ShapeRArgs G cfg [] k k L
    | cons {e es s k' k L} : ShapeRArgs G cfg es k' k L → ShapeR G cfg e s k' L →
        ShapeRArgs G cfg (e :: es) s k L
  inductive ShapeRSeq (G : Graph) (cfg : RCfg) : List Expr → Nat → Nat → Option Loop → Prop
    | nil {s k L} : Blk G s [] (.next k) → ShapeRSeq G cfg [] s k L
    | cons {e es s k' k L} : ShapeRSeq G cfg es k' k L → ShapeR G cfg e s k' L →
        ShapeRSeq G cfg (e :: es) s k L
  /-- `Cond` arms: entry, the common end block, the `err` block reached when no arm fires -/
  inductive ShapeRCond (G : Graph) (cfg : RCfg) : List (Expr × Expr) → Nat → Nat → Nat → Option Loop → Prop
    | nil {endB errB L} : ShapeRCond G cfg [] errB endB errB L
    | cons {c b rest s br bs nxt endB errB L} : ShapeRCond G cfg rest nxt endB errB L →
        ShapeR G cfg b bs endB L → Blk G br [] (.cond bs nxt) → ShapeR G cfg c s br L →
        ShapeRCond G cfg ((c, b) :: rest) s endB errB L
end


variable {cfg : RCfg}

theorem while_spec {c d : Expr} {k : Nat} {L : Option Loop} {g0 gd gf : Graph} {cs ds : Nat}
    (hc : Spec (fun G => ShapeR G cfg c cs (g0.size + 1) (some ⟨g0.size, g0.size + 2⟩))
      (((g0.push { ops := [], succ := .next k }).push {}).push {}) gd)
    (hd : Spec (fun G => ShapeR G cfg d ds (g0.size + 2) (some ⟨g0.size, g0.size + 2⟩))
      (gd.setIfInBounds (g0.size + 2) { ops := [], succ := .next cs }) gf) :
    Spec (fun G => ShapeR G cfg (.while_ c d) (g0.size + 2) k L) g0
      (gf.setIfInBounds (g0.size + 1) { ops := [], succ := .cond ds g0.size }) := by
  have s1 := hc.1.1
  have s2 := hd.1.1
  simp only [Array.size_push, Array.size_setIfInBounds] at s1 s2
  have ea : Ext noP g0 (((g0.push { ops := [], succ := .next k }).push {}).push {}) :=
    ((Ext.push _ _).tm (Ext.push _ _) (fun i _ h => h.elim id id)).tm (Ext.push _ _) (fun i _ h => h.elim id id)
  refine ⟨?_, fun G P hP hG => ?_⟩
  · refine (ea.tm hc.1 (fun i _ h => h.elim id id)).tm
      (((Ext.set gd (g0.size + 2) _).tm hd.1 (fun i _ h => h.elim id (fun f => f.elim))).tm
        (Ext.set gf (g0.size + 1) _) (fun i _ h => h)) ?_
    intro i hi h
    rcases h with h | h | h
    · exact h
    · omega
    · omega
  · have hgf : Ext (fun i => P i ∨ i = g0.size + 1) gf G :=
      (Ext.set gf (g0.size + 1) _).tm hG (fun i _ h => h.symm)
    have hgd : Ext (fun i => P i ∨ i = g0.size + 1 ∨ i = g0.size + 2) gd G :=
      ((Ext.set gd (g0.size + 2) _).tm hd.1 (fun i _ h => h.elim id (fun f => f.elim))).tm hgf
        (fun i _ h => by rcases h with h | h | h <;> simp [h])
    have hga : Ext (fun i => P i ∨ i = g0.size + 1 ∨ i = g0.size + 2) (g0.push { ops := [], succ := .next k }) G :=
      (((Ext.push _ _).tm (Ext.push _ _) (fun i _ h => h.elim id id)).tm hc.1 (fun i _ h => h.elim id id)).tm hgd
        (fun i _ h => h.elim (fun f => f.elim) id)
    have hnP : ∀ j, g0.size ≤ j → ¬ P j := fun j hj h => by have := hP j h; omega
    refine .while_ (endB := g0.size) (br := g0.size + 1) (cs := cs) (ds := ds) ?_ ?_ ?_ ?_ ?_
    · show G[g0.size]? = _
      rw [hga.get (by simp) (by intro h; rcases h with h | h | h; exact hnP _ (Nat.le_refl _) h; omega; omega)]
      simp
    · show G[g0.size + 2]? = _
      rw [hgf.get (by omega) (by intro h; rcases h with h | h; exact hnP _ (by omega) h; omega),
        hd.1.get (by simp; omega) (fun f => f.elim), set_get (by omega)]
    · exact hc.2 G _ (by intro i h; simp only [Array.size_push]; rcases h with h | h | h; have := hP i h; omega; omega; omega) hgd
    · exact hd.2 G _ (by intro i h; simp only [Array.size_setIfInBounds]; rcases h with h | h; have := hP i h; omega; omega) hgf
    · show G[g0.size + 1]? = _
      rw [hG.get (by simp; omega) (hnP _ (by omega)), set_get (by omega)]


theorem for_spec {i c st d : Expr} {k : Nat} {L : Option Loop} {g0 gd ge gg g1 : Graph} {cs ss ds s : Nat}
    (hc : Spec (fun G => ShapeR G cfg c cs (g0.size + 1) (some ⟨g0.size, g0.size + 2⟩))
      (((g0.push { ops := [], succ := .next k }).push {}).push {}) gd)
    (hs : Spec (fun G => ShapeR G cfg st ss cs (some ⟨g0.size, g0.size + 2⟩)) gd ge)
    (hd : Spec (fun G => ShapeR G cfg d ds (g0.size + 2) (some ⟨g0.size, g0.size + 2⟩))
      (ge.setIfInBounds (g0.size + 2) { ops := [], succ := .next ss }) gg)
    (hi : Spec (fun G => ShapeR G cfg i s cs (some ⟨g0.size, g0.size + 2⟩))
      (gg.setIfInBounds (g0.size + 1) { ops := [], succ := .cond ds g0.size }) g1) :
    Spec (fun G => ShapeR G cfg (.for_ i c st d) s k L) g0 g1 := by
  have s1 := hc.1.1
  have s2 := hs.1.1
  have s3 := hd.1.1
  have s4 := hi.1.1
  simp only [Array.size_push, Array.size_setIfInBounds] at s1 s2 s3 s4
  have ea : Ext noP g0 (((g0.push { ops := [], succ := .next k }).push {}).push {}) :=
    ((Ext.push _ _).tm (Ext.push _ _) (fun i _ h => h.elim id id)).tm (Ext.push _ _) (fun i _ h => h.elim id id)
  refine ⟨?_, fun G P hP hG => ?_⟩
  · refine ((ea.tm hc.1 (fun i _ h => h.elim id id)).tm hs.1 (fun i _ h => h.elim id id)).tm
      ((((Ext.set ge (g0.size + 2) _).tm hd.1 (fun i _ h => h.elim id (fun f => f.elim))).tm
        (Ext.set gg (g0.size + 1) _) (fun i _ h => h)).tm hi.1 (fun i _ h => h.elim id (fun f => f.elim))) ?_
    intro i hi h
    rcases h with h | h | h
    · exact h
    · omega
    · omega
  · have hgh : Ext P (gg.setIfInBounds (g0.size + 1) { ops := [], succ := .cond ds g0.size }) G :=
      hi.1.tm hG (fun i _ h => h.elim (fun f => f.elim) id)
    have hgg : Ext (fun i => P i ∨ i = g0.size + 1) gg G :=
      (Ext.set gg (g0.size + 1) _).tm hgh (fun i _ h => h.symm)
    have hgf : Ext (fun i => P i ∨ i = g0.size + 1)
        (ge.setIfInBounds (g0.size + 2) { ops := [], succ := .next ss }) G :=
      hd.1.tm hgg (fun i _ h => h.elim (fun f => f.elim) id)
    have hge : Ext (fun i => P i ∨ i = g0.size + 1 ∨ i = g0.size + 2) ge G :=
      (Ext.set ge (g0.size + 2) _).tm hgf (fun i _ h => by rcases h with h | h | h <;> simp [h])
    have hgd : Ext (fun i => P i ∨ i = g0.size + 1 ∨ i = g0.size + 2) gd G :=
      hs.1.tm hge (fun i _ h => h.elim (fun f => f.elim) id)
    have hga : Ext (fun i => P i ∨ i = g0.size + 1 ∨ i = g0.size + 2) (g0.push { ops := [], succ := .next k }) G :=
      (((Ext.push _ _).tm (Ext.push _ _) (fun i _ h => h.elim id id)).tm hc.1 (fun i _ h => h.elim id id)).tm hgd
        (fun i _ h => h.elim (fun f => f.elim) id)
    have hnP : ∀ j, g0.size ≤ j → ¬ P j := fun j hj h => by have := hP j h; omega
    refine .for_ (endB := g0.size) (br := g0.size + 1) (shdr := g0.size + 2) (cs := cs) (ss := ss) (ds := ds)
      ?_ ?_ ?_ ?_ ?_ ?_ ?_
    · show G[g0.size]? = _
      rw [hga.get (by simp) (by intro h; rcases h with h | h | h; exact hnP _ (Nat.le_refl _) h; omega; omega)]
      simp
    · exact hc.2 G _ (by intro i h; simp only [Array.size_push]; rcases h with h | h | h; have := hP i h; omega; omega; omega) hgd
    · exact hs.2 G _ (by intro i h; rcases h with h | h | h; have := hP i h; omega; omega; omega) hge
    · show G[g0.size + 2]? = _
      rw [hgf.get (by simp; omega) (by intro h; rcases h with h | h; exact hnP _ (by omega) h; omega),
        set_get (by omega)]
    · exact hd.2 G _ (by intro i h; simp only [Array.size_setIfInBounds]; rcases h with h | h; have := hP i h; omega; omega) hgg
    · show G[g0.size + 1]? = _
      rw [hgh.get (by simp; omega) (hnP _ (by omega)), set_get (by omega)]
    · exact hi.2 G _ (by intro i h; simp only [Array.size_setIfInBounds]; have := hP i h; omega) hG

mutual
  theorem genR_spec : ∀ (e : Expr) (k : Nat) (L : Option Loop) (g0 : Graph) (s : Nat) (g1 : Graph),
      genR cfg e k L g0 = .ok (s, g1) → Spec (fun G => ShapeR G cfg e s k L) g0 g1
    | .int n, k, L, g0, s, g1, h => by
      simp only [genR] at h
      cases opBlock_ok h
      exact Spec.emit_only (fun G hb => .int hb)
    | .bytes b, k, L, g0, s, g1, h => by
      simp only [genR] at h
      cases opBlock_ok h
      exact Spec.emit_only (fun G hb => .bytes hb)
    | .load v, k, L, g0, s, g1, h => by
      simp only [genR] at h
      cases hf : cfg.frameParams.find? (·.1 == v) with
      | none =>
        rw [hf] at h
        simp only [] at h
        cases opBlock_ok h
        exact Spec.emit_only (fun G hb => .load hf hb)
      | some pr =>
        rw [hf] at h
        simp only [] at h
        cases opBlock_ok h
        exact Spec.emit_only (fun G hb => .loadF hf hb)
    | .index v, k, L, g0, s, g1, h => by
      simp only [genR] at h
      cases opBlock_ok h
      exact Spec.emit_only (fun G hb => .index hb)
    | .err, k, L, g0, s, g1, h => by
      simp only [genR] at h
      cases opBlock_ok h
      exact Spec.emit_only (fun G hb => .err hb)
    | .note none, k, L, g0, s, g1, h => by
      simp only [genR] at h
      cases opBlock_ok h
      exact Spec.emit_only (fun G hb => .noteNone hb)
    | .note (some e), k, L, g0, s, g1, h => by
      simp only [genR] at h
      exact (genR_spec e _ _ _ _ _ h).mono (fun G he => .noteSome he)
    | .store v e, k, L, g0, s, g1, h => by
      simp only [genR] at h
      obtain ⟨ob, g2, h1, h2⟩ := bind_ok h
      cases opBlock_ok h1
      exact Spec.emit_then (genR_spec e _ _ _ _ _ h2) (fun G hb he => .store hb he)
    | .prim op imms args, k, L, g0, s, g1, h => by
      simp only [genR] at h
      obtain ⟨ob, g2, h1, h2⟩ := bind_ok h
      cases opBlock_ok h1
      exact Spec.emit_then (genRArgs_spec args _ _ _ _ _ h2) (fun G hb ha => .prim hb ha)
    | .seq es, k, L, g0, s, g1, h => by
      simp only [genR] at h
      exact (genRSeq_spec es _ _ _ _ _ h).mono (fun G hs => .seq hs)
    | .multi op imms args outs, k, L, g0, s, g1, h => by
      simp only [genR] at h
      obtain ⟨sb, g2, h1, h⟩ := bind_ok h
      cases opBlock_ok h1
      obtain ⟨ob, g3, h2, h3⟩ := bind_ok h
      cases opBlock_ok h2
      exact Spec.emit_then (Spec.emit_then (genRArgs_spec args _ _ _ _ _ h3) (fun G hb ha => And.intro hb ha))
        (fun G hsb h => .multi hsb h.1 h.2)
    | .ite c t (some e), k, L, g0, s, g1, h => by
      simp only [genR] at h
      obtain ⟨endB, g2, h1, h⟩ := bind_ok h
      cases opBlock_ok h1
      obtain ⟨ts, g3, h2, h⟩ := bind_ok h
      obtain ⟨es, g4, h3, h⟩ := bind_ok h
      obtain ⟨br, g5, h4, h5⟩ := bind_ok h
      cases emit_ok h4
      exact Spec.emit_then (((genR_spec t _ _ _ _ _ h2).seq (genR_spec e _ _ _ _ _ h3)).seq
        (Spec.emit_then (genR_spec c _ _ _ _ _ h5) (fun G hb hc => And.intro hb hc)))
        (fun G hend h => .iteSome hend h.1.1 h.1.2 h.2.1 h.2.2)
    | .ite c t none, k, L, g0, s, g1, h => by
      simp only [genR] at h
      obtain ⟨endB, g2, h1, h⟩ := bind_ok h
      cases opBlock_ok h1
      obtain ⟨ts, g3, h2, h⟩ := bind_ok h
      obtain ⟨es, g4, h3, h⟩ := bind_ok h
      cases pure_ok h3
      obtain ⟨br, g5, h4, h5⟩ := bind_ok h
      cases emit_ok h4
      exact Spec.emit_then ((genR_spec t _ _ _ _ _ h2).seq
        (Spec.emit_then (genR_spec c _ _ _ _ _ h5) (fun G hb hc => And.intro hb hc)))
        (fun G hend h => .iteNone hend h.1 h.2.1 h.2.2)
    | .cond arms, k, L, g0, s, g1, h => by
      simp only [genR] at h
      obtain ⟨endB, g2, h1, h⟩ := bind_ok h
      cases opBlock_ok h1
      obtain ⟨errB, g3, h2, h3⟩ := bind_ok h
      cases emit_ok h2
      exact Spec.emit_then (Spec.emit_then (genRCond_spec arms _ _ _ _ _ _ h3) (fun G hb ha => And.intro hb ha))
        (fun G hend h => .cond hend h.1 h.2)
    | .while_ c d, k, L, g0, s, g1, h => by
      simp only [genR] at h
      obtain ⟨endB, g2, h1, h⟩ := bind_ok h
      cases opBlock_ok h1
      obtain ⟨br, g3, h2, h⟩ := bind_ok h
      cases reserve_ok h2
      obtain ⟨hdr, g4, h3, h⟩ := bind_ok h
      cases reserve_ok h3
      obtain ⟨cs, gd, h4, h⟩ := bind_ok h
      obtain ⟨u1, ge, h5, h⟩ := bind_ok h
      cases write_ok h5
      obtain ⟨ds, gf, h6, h⟩ := bind_ok h
      obtain ⟨u2, gg, h7, h⟩ := bind_ok h
      cases write_ok h7
      cases pure_ok h
      simp only [Array.size_push] at h4 h6 ⊢
      exact while_spec (genR_spec c _ _ _ _ _ h4) (genR_spec d _ _ _ _ _ h6)
    | .for_ i c st d, k, L, g0, s, g1, h => by
      simp only [genR] at h
      obtain ⟨endB, g2, h1, h⟩ := bind_ok h
      cases opBlock_ok h1
      obtain ⟨br, g3, h2, h⟩ := bind_ok h
      cases reserve_ok h2
      obtain ⟨shdr, g4, h3, h⟩ := bind_ok h
      cases reserve_ok h3
      obtain ⟨cs, gd, h4, h⟩ := bind_ok h
      obtain ⟨ss, ge, h5, h⟩ := bind_ok h
      obtain ⟨u1, gf, h6, h⟩ := bind_ok h
      cases write_ok h6
      obtain ⟨ds, gg, h7, h⟩ := bind_ok h
      obtain ⟨u2, gh, h8, h⟩ := bind_ok h
      cases write_ok h8
      simp only [Array.size_push] at h4 h5 h7 h ⊢
      exact for_spec (genR_spec c _ _ _ _ _ h4) (genR_spec st _ _ _ _ _ h5)
        (genR_spec d _ _ _ _ _ h7) (genR_spec i _ _ _ _ _ h)
    | .brk, k, L, g0, s, g1, h => by
      cases L with
      | none => simp only [genR] at h; exact (throw_ok h).elim
      | some l =>
        simp only [genR] at h
        cases emit_ok h
        exact Spec.emit_only (fun G hb => .brk hb)
    | .cont, k, L, g0, s, g1, h => by
      cases L with
      | none => simp only [genR] at h; exact (throw_ok h).elim
      | some l =>
        simp only [genR] at h
        cases emit_ok h
        exact Spec.emit_only (fun G hb => .cont hb)
    | .assert_ c, k, L, g0, s, g1, h => by
      simp only [genR] at h
      split at h
      · rename_i hv
        obtain ⟨ob, g2, h1, h2⟩ := bind_ok h
        cases opBlock_ok h1
        exact Spec.emit_then (genR_spec c _ _ _ _ _ h2) (fun G hb hc => .assert3 hv hb hc)
      · rename_i hv
        obtain ⟨endB, g2, h1, h⟩ := bind_ok h
        cases opBlock_ok h1
        obtain ⟨errB, g3, h2, h⟩ := bind_ok h
        cases emit_ok h2
        obtain ⟨br, g4, h3, h4⟩ := bind_ok h
        cases emit_ok h3
        exact Spec.emit_then (Spec.emit_then (Spec.emit_then (genR_spec c _ _ _ _ _ h4)
          (fun G hb hc => And.intro hb hc)) (fun G hb h => And.intro hb h))
          (fun G hend h => .assert2 hv hend h.1 h.2.1 h.2.2)
    | .ret none, k, L, g0, s, g1, h => by
      simp only [genR] at h
      split at h
      · rename_i hs
        cases opBlock_ok h
        exact Spec.emit_only (fun G hb => .retNone hs hb)
      · exact (throw_ok h).elim
    | .ret (some e), k, L, g0, s, g1, h => by
      simp only [genR] at h
      obtain ⟨ob, g2, h1, h2⟩ := bind_ok h
      cases opBlock_ok h1
      exact Spec.emit_then (genR_spec e _ _ _ _ _ h2) (fun G hb he => .ret hb he)
    | .exit e, k, L, g0, s, g1, h => by
      simp only [genR] at h
      obtain ⟨ob, g2, h1, h2⟩ := bind_ok h
      cases opBlock_ok h1
      exact Spec.emit_then (genR_spec e _ _ _ _ _ h2) (fun G hb he => .exit hb he)
    | .call f args, k, L, g0, s, g1, h => by
      simp only [genR] at h
      cases hf : cfg.callees.find? (·.id == f) with
      | none => rw [hf] at h; exact (throw_ok h).elim
      | some ce =>
        rw [hf] at h
        simp only [] at h
        obtain ⟨cb, g2, h1, h2⟩ := bind_ok h
        cases opBlock_ok h1
        exact Spec.emit_then (genRArgs_spec args _ _ _ _ _ h2) (fun G hb ha => .call hf hb ha)
    | .wideRatio ns ds, k, L, g0, s, g1, h => by
      simp only [genR] at h
      split at h
      · exact (throw_ok h).elim
      · split at h
        · exact (throw_ok h).elim
        · split at h
          · exact (throw_ok h).elim
          · obtain ⟨cb, g2, h1, h⟩ := bind_ok h
            cases opBlock_ok h1
            obtain ⟨dstart, g3, h2, h3⟩ := bind_ok h
            exact Spec.emit_then ((genRWideTop_spec ds _ _ _ _ _ h2).seq (genRWideTop_spec ns _ _ _ _ _ h3))
              (fun G hb h => .wide hb h.1 h.2)
    | .nonce b e, k, L, g0, s, g1, h => by
      simp only [genR] at h
      obtain ⟨es, g2, h1, h2⟩ := bind_ok h
      cases opBlock_ok h2
      exact ((genR_spec e _ _ _ _ _ h1).seq (Spec.emit _ _)).mono (fun G h => .nonce h.1 h.2)
    | .substring str a b, k, L, g0, s, g1, h => by
      simp only [genR] at h
      cases hl : lowerSubstring cfg.version a b with
      | error e => rw [hl] at h; exact (throw_ok h).elim
      | ok low =>
        rw [hl] at h
        cases low with
        | one i =>
          simp only [] at h
          obtain ⟨ob, g2, h1, h2⟩ := bind_ok h
          cases opBlock_ok h1
          exact Spec.emit_then (genR_spec str _ _ _ _ _ h2)
            (fun G hb hs => .substring hl hb (.cons .nil hs))
        | consts i x y =>
          simp only [] at h
          obtain ⟨ob, g2, h1, h⟩ := bind_ok h
          cases opBlock_ok h1
          obtain ⟨b2, g3, h2, h⟩ := bind_ok h
          cases opBlock_ok h2
          obtain ⟨b1, g4, h3, h4⟩ := bind_ok h
          cases opBlock_ok h3
          exact Spec.emit_then (Spec.emit_then (Spec.emit_then (genR_spec str _ _ _ _ _ h4)
            (fun G hb hs => And.intro hb hs)) (fun G hb h => And.intro hb h))
            (fun G hb h => .substring hl hb (.cons (.cons (.cons .nil (.int h.1)) (.int h.2.1)) h.2.2))
        | asGiven i =>
          simp only [] at h
          obtain ⟨ob, g2, h1, h⟩ := bind_ok h
          cases opBlock_ok h1
          obtain ⟨bs, g3, h2, h⟩ := bind_ok h
          obtain ⟨as, g4, h3, h4⟩ := bind_ok h
          exact Spec.emit_then (((genR_spec b _ _ _ _ _ h2).seq (genR_spec a _ _ _ _ _ h3)).seq
            (genR_spec str _ _ _ _ _ h4))
            (fun G hb h => .substring hl hb (.cons (.cons (.cons .nil h.1.1) h.1.2) h.2))
    | .extract str a l, k, L, g0, s, g1, h => by
      simp only [genR] at h
      cases hl : lowerExtract a l with
      | one i =>
        rw [hl] at h
        simp only [] at h
        obtain ⟨ob, g2, h1, h2⟩ := bind_ok h
        cases opBlock_ok h1
        refine Spec.emit_then (genR_spec str _ _ _ _ _ h2) (fun G hb hs => ?_)
        refine .extract (ob := g0.size) ?_ ?_
        · rw [hl]; exact hb
        · rw [hl]; exact .cons .nil hs
      | consts i x y =>
        rw [hl] at h
        simp only [] at h
        obtain ⟨ob, g2, h1, h⟩ := bind_ok h
        cases opBlock_ok h1
        obtain ⟨b2, g3, h2, h⟩ := bind_ok h
        cases opBlock_ok h2
        obtain ⟨b1, g4, h3, h4⟩ := bind_ok h
        cases opBlock_ok h3
        refine Spec.emit_then (Spec.emit_then (Spec.emit_then (genR_spec str _ _ _ _ _ h4)
          (fun G hb hs => And.intro hb hs)) (fun G hb h => And.intro hb h)) (fun G hb h => ?_)
        refine .extract (ob := g0.size) ?_ ?_
        · rw [hl]; exact hb
        · rw [hl]; exact .cons (.cons (.cons .nil (.int h.1)) (.int h.2.1)) h.2.2
      | asGiven i =>
        rw [hl] at h
        simp only [] at h
        obtain ⟨ob, g2, h1, h⟩ := bind_ok h
        cases opBlock_ok h1
        obtain ⟨ls, g3, h2, h⟩ := bind_ok h
        obtain ⟨as, g4, h3, h4⟩ := bind_ok h
        refine Spec.emit_then (((genR_spec l _ _ _ _ _ h2).seq (genR_spec a _ _ _ _ _ h3)).seq
          (genR_spec str _ _ _ _ _ h4)) (fun G hb h => ?_)
        refine .extract (ob := g0.size) ?_ ?_
        · rw [hl]; exact hb
        · rw [hl]; exact .cons (.cons (.cons .nil h.1.1) h.1.2) h.2
    | .suffix str a, k, L, g0, s, g1, h => by
      simp only [genR] at h
      split at h
      · rename_i st
        split at h
        · rename_i hst
          split at h
          · rename_i hv
            obtain ⟨ob, g2, h1, h2⟩ := bind_ok h
            cases opBlock_ok h1
            exact Spec.emit_then (genR_spec str _ _ _ _ _ h2)
              (fun G hb hs => .suffixImm hst hv hb (.cons .nil hs))
          · exact (throw_ok h).elim
        · obtain ⟨ob, g2, h1, h⟩ := bind_ok h
          cases opBlock_ok h1
          obtain ⟨as, g3, h2, h3⟩ := bind_ok h
          cases opBlock_ok h2
          exact Spec.emit_then (Spec.emit_then (genR_spec str _ _ _ _ _ h3) (fun G hb hs => And.intro hb hs))
            (fun G hb h => .suffixGen hb (.cons (.cons .nil (.int h.1)) h.2))
      · obtain ⟨ob, g2, h1, h⟩ := bind_ok h
        cases opBlock_ok h1
        obtain ⟨as, g3, h2, h3⟩ := bind_ok h
        exact Spec.emit_then ((genR_spec a _ _ _ _ _ h2).seq (genR_spec str _ _ _ _ _ h3))
          (fun G hb h => .suffixGen hb (.cons (.cons .nil h.1) h.2))
  theorem genRWideTop_spec : ∀ (es : List Expr) (k : Nat) (L : Option Loop) (g0 : Graph) (s : Nat) (g1 : Graph),
      genRWideTop cfg es k L g0 = .ok (s, g1) → Spec (fun G => ShapeRWideTop G cfg es s k L) g0 g1
    | [], k, L, g0, s, g1, h => by
      simp only [genRWideTop] at h
      exact (throw_ok h).elim
    | [e0], k, L, g0, s, g1, h => by
      simp only [genRWideTop] at h
      obtain ⟨b, g2, h1, h2⟩ := bind_ok h
      cases opBlock_ok h2
      exact ((genR_spec e0 _ _ _ _ _ h1).seq (Spec.emit _ _)).mono (fun G h => .one h.2 h.1)
    | e0 :: e1 :: rest, k, L, g0, s, g1, h => by
      simp only [genRWideTop] at h
      obtain ⟨r, g2, h1, h⟩ := bind_ok h
      obtain ⟨mb, g3, h2, h⟩ := bind_ok h
      cases opBlock_ok h2
      obtain ⟨b1, g4, h3, h4⟩ := bind_ok h
      exact ((((genRWideRest_spec rest _ _ _ _ _ h1).seq (Spec.emit _ _)).seq (genR_spec e1 _ _ _ _ _ h3)).seq
        (genR_spec e0 _ _ _ _ _ h4)).mono (fun G h => .many h.1.1.1 h.1.1.2 h.1.2 h.2)
  theorem genRWideRest_spec : ∀ (es : List Expr) (k : Nat) (L : Option Loop) (g0 : Graph) (s : Nat) (g1 : Graph),
      genRWideRest cfg es k L g0 = .ok (s, g1) → Spec (fun G => ShapeRWideRest G cfg es s k L) g0 g1
    | [], k, L, g0, s, g1, h => by
      simp only [genRWideRest] at h
      cases pure_ok h
      exact (Spec.refl _).mono (fun G _ => .nil)
    | e :: rest, k, L, g0, s, g1, h => by
      simp only [genRWideRest] at h
      obtain ⟨k', g2, h1, h⟩ := bind_ok h
      obtain ⟨sb, g3, h2, h3⟩ := bind_ok h
      cases opBlock_ok h2
      exact (((genRWideRest_spec rest _ _ _ _ _ h1).seq (Spec.emit _ _)).seq (genR_spec e _ _ _ _ _ h3)).mono
        (fun G h => .cons h.1.1 h.1.2 h.2)
  theorem genRArgs_spec : ∀ (es : List Expr) (k : Nat) (L : Option Loop) (g0 : Graph) (s : Nat) (g1 : Graph),
      genRArgs cfg es k L g0 = .ok (s, g1) → Spec (fun G => ShapeRArgs G cfg es s k L) g0 g1
    | [], k, L, g0, s, g1, h => by
      simp only [genRArgs] at h
      cases pure_ok h
      exact (Spec.refl _).mono (fun G _ => .nil)
    | e :: es, k, L, g0, s, g1, h => by
      simp only [genRArgs] at h
      obtain ⟨k', g2, h1, h2⟩ := bind_ok h
      exact ((genRArgs_spec es _ _ _ _ _ h1).seq (genR_spec e _ _ _ _ _ h2)).mono (fun G h => .cons h.1 h.2)
  theorem genRSeq_spec : ∀ (es : List Expr) (k : Nat) (L : Option Loop) (g0 : Graph) (s : Nat) (g1 : Graph),
      genRSeq cfg es k L g0 = .ok (s, g1) → Spec (fun G => ShapeRSeq G cfg es s k L) g0 g1
    | [], k, L, g0, s, g1, h => by
      simp only [genRSeq] at h
      cases opBlock_ok h
      exact Spec.emit_only (fun G hb => .nil hb)
    | e :: es, k, L, g0, s, g1, h => by
      simp only [genRSeq] at h
      obtain ⟨k', g2, h1, h2⟩ := bind_ok h
      exact ((genRSeq_spec es _ _ _ _ _ h1).seq (genR_spec e _ _ _ _ _ h2)).mono (fun G h => .cons h.1 h.2)
  theorem genRCond_spec : ∀ (arms : List (Expr × Expr)) (endB errB : Nat) (L : Option Loop) (g0 : Graph) (s : Nat)
      (g1 : Graph),
      genRCond cfg arms endB errB L g0 = .ok (s, g1) → Spec (fun G => ShapeRCond G cfg arms s endB errB L) g0 g1
    | [], endB, errB, L, g0, s, g1, h => by
      simp only [genRCond] at h
      cases pure_ok h
      exact (Spec.refl _).mono (fun G _ => .nil)
    | (c, b) :: rest, endB, errB, L, g0, s, g1, h => by
      simp only [genRCond] at h
      obtain ⟨nxt, g2, h1, h⟩ := bind_ok h
      obtain ⟨bs, g3, h2, h⟩ := bind_ok h
      obtain ⟨br, g4, h3, h4⟩ := bind_ok h
      cases emit_ok h3
      exact (((genRCond_spec rest _ _ _ _ _ _ h1).seq (genR_spec b _ _ _ _ _ h2)).seq
        (Spec.emit_then (genR_spec c _ _ _ _ _ h4) (fun G hb hc => And.intro hb hc))).mono
        (fun G h => .cons h.1.1 h.1.2 h.2.1 h.2.2)
end


end PyTealV.Proofs.C02Gen
