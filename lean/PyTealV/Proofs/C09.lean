/-
  C09 — routed methods receive their ARC-4 arguments and log their ARC-4 result.
  Theorems about `Models/RouterArgs.lean` (model of pyteal/ast/router.py argument glue).
-/
import PyTealV.Models.RouterArgs
import PyTealV.Models.MethodCall
import PyTealV.Proofs.Arc4Decode
namespace PyTealV.Proofs.C09
open PyTealV PyTealV.Arc4 PyTealV.Models.RouterArgs

/-! ## enumerate ∘ filter -/

/-- `enumerate(...)` starting at `n`, as instances -/
def insts (sig : Sig) (n : Nat) : List Inst := (sig.zipIdx n).map (fun p => (⟨p.1, p.2⟩ : Inst))

theorem insts_nil (n : Nat) : insts [] n = [] := rfl
theorem insts_cons (a : PKind) (sig : Sig) (n : Nat) : insts (a :: sig) n = ⟨a, n⟩ :: insts sig (n + 1) := by
  simp [insts, List.zipIdx_cons]

theorem argVals_eq (sig : Sig) : argVals sig = insts sig 0 := rfl

theorem filter_fwd (q : PKind → Bool) : ∀ (sig : Sig) (n j : Nat) (k : PKind),
    sig[j]? = some k → q k = true →
    ((insts sig n).filter (fun a => q a.kind))[(sig.take j).countP q]? = some ⟨k, n + j⟩ := by
  intro sig
  induction sig with
  | nil => intro n j k hk; simp at hk
  | cons a sig ih =>
    intro n j k hk hq
    cases j with
    | zero =>
      simp at hk; subst hk
      simp [insts_cons, hq]
    | succ j =>
      simp at hk
      have h := ih (n + 1) j k hk hq
      rw [List.take_succ_cons, List.countP_cons, insts_cons, List.filter_cons]
      have e : n + 1 + j = n + (j + 1) := by omega
      by_cases hqa : q a = true
      · simp [hqa, h, e]
      · simp [hqa, h, e]

theorem filter_bwd (q : PKind → Bool) : ∀ (sig : Sig) (n p : Nat) (a : Inst),
    ((insts sig n).filter (fun a => q a.kind))[p]? = some a →
    ∃ j, a.idx = n + j ∧ sig[j]? = some a.kind ∧ q a.kind = true ∧ p = (sig.take j).countP q := by
  intro sig
  induction sig with
  | nil => intro n p a h; simp [insts_nil] at h
  | cons x sig ih =>
    intro n p a h
    rw [insts_cons, List.filter_cons] at h
    by_cases hx : q x = true
    · simp only [hx, if_true] at h
      cases p with
      | zero =>
        simp at h; subst h
        exact ⟨0, by simp, by simp, hx, by simp⟩
      | succ p =>
        simp at h
        obtain ⟨j, h1, h2, h3, h4⟩ := ih (n + 1) p a h
        refine ⟨j + 1, by omega, by simpa using h2, h3, ?_⟩
        rw [List.take_succ_cons, List.countP_cons]; simp [hx, h4]
    · simp only [hx] at h
      obtain ⟨j, h1, h2, h3, h4⟩ := ih (n + 1) p a h
      refine ⟨j + 1, by omega, by simpa using h2, h3, ?_⟩
      rw [List.take_succ_cons, List.countP_cons]; simp [hx, h4]

theorem filter_len (q : PKind → Bool) : ∀ (sig : Sig) (n : Nat),
    ((insts sig n).filter (fun a => q a.kind)).length = sig.countP q := by
  intro sig
  induction sig with
  | nil => intro n; simp [insts_nil]
  | cons x sig ih =>
    intro n
    rw [insts_cons, List.filter_cons, List.countP_cons]
    by_cases hx : q x = true <;> simp [hx, ih (n + 1)]


/-! ## the three instance lists -/

theorem appArgVals_eq (sig : Sig) : appArgVals sig = (insts sig 0).filter (fun a => PKind.isArg a.kind) := rfl
theorem txnArgVals_eq (sig : Sig) : txnArgVals sig = (insts sig 0).filter (fun a => PKind.isTxn a.kind) := rfl

theorem appArgVals_len (sig : Sig) : (appArgVals sig).length = nArgs sig := filter_len PKind.isArg sig 0
theorem txnArgVals_len (sig : Sig) : (txnArgVals sig).length = nTxns sig := filter_len PKind.isTxn sig 0

theorem tuplify_iff (sig : Sig) : tuplify sig = true ↔ 15 < nArgs sig := by
  simp [tuplify, appArgVals_len, METHOD_ARG_NUM_CUTOFF]

theorem app_fwd (sig : Sig) (j : Nat) (k : PKind) (hk : sig[j]? = some k) (hq : k.isTxn = false) :
    (appArgVals sig)[nArgs (sig.take j)]? = some ⟨k, j⟩ := by
  have := filter_fwd PKind.isArg sig 0 j k hk (by simp [PKind.isArg, hq])
  simpa [appArgVals_eq, nArgs] using this

theorem txn_fwd (sig : Sig) (j : Nat) (k : PKind) (hk : sig[j]? = some k) (hq : k.isTxn = true) :
    (txnArgVals sig)[nTxns (sig.take j)]? = some ⟨k, j⟩ := by
  have := filter_fwd PKind.isTxn sig 0 j k hk hq
  simpa [txnArgVals_eq, nTxns] using this

theorem app_bwd (sig : Sig) (p : Nat) (a : Inst) (h : (appArgVals sig)[p]? = some a) :
    sig[a.idx]? = some a.kind ∧ a.kind.isTxn = false ∧ p = nArgs (sig.take a.idx) := by
  obtain ⟨j, h1, h2, h3, h4⟩ := filter_bwd PKind.isArg sig 0 p a (by simpa [appArgVals_eq] using h)
  have e : a.idx = j := by omega
  subst e
  exact ⟨h2, by simpa [PKind.isArg] using h3, h4⟩

theorem txn_bwd (sig : Sig) (p : Nat) (a : Inst) (h : (txnArgVals sig)[p]? = some a) :
    sig[a.idx]? = some a.kind ∧ a.kind.isTxn = true ∧ p = nTxns (sig.take a.idx) := by
  obtain ⟨j, h1, h2, h3, h4⟩ := filter_bwd PKind.isTxn sig 0 p a (by simpa [txnArgVals_eq] using h)
  have e : a.idx = j := by omega
  subst e
  exact ⟨h2, h3, h4⟩

/-! ## membership in the instruction lists -/

theorem mem_zipIdx_map {α β} (f : α × Nat → β) (l : List α) (y : β) :
    y ∈ l.zipIdx.map f ↔ ∃ p x, l[p]? = some x ∧ y = f (x, p) := by
  simp only [List.mem_map]
  constructor
  · rintro ⟨⟨x, p⟩, hm, rfl⟩
    exact ⟨p, x, List.mem_zipIdx_iff_getElem?.1 hm, rfl⟩
  · rintro ⟨p, x, h, rfl⟩
    exact ⟨(x, p), List.mem_zipIdx_iff_getElem?.2 h, rfl⟩

theorem decodeTargets_get (sig : Sig) (p : Nat) (t : Target) :
    (decodeTargets sig)[p]? = some t ↔
      (∃ a, (appArgVals sig)[p]? = some a ∧ (tuplify sig = false ∨ p < 14) ∧ t = .param a.idx) ∨
      (tuplify sig = true ∧ p = 14 ∧ t = .tupled (modelTupleTypes sig)) := by
  unfold decodeTargets
  cases ht : tuplify sig with
  | false =>
    simp only [Bool.false_eq_true, if_false, List.getElem?_map, Option.map_eq_some_iff]
    constructor
    · rintro ⟨a, h, rfl⟩; exact .inl ⟨a, h, .inl trivial, rfl⟩
    · rintro (⟨a, h, _, rfl⟩ | ⟨h, _⟩)
      · exact ⟨a, h, rfl⟩
      · cases h
  | true =>
    have hl : 15 < (appArgVals sig).length := by rw [appArgVals_len]; exact (tuplify_iff sig).1 ht
    have hlen : (List.map (fun a => Target.param a.idx) (List.take (METHOD_ARG_NUM_CUTOFF - 1) (appArgVals sig))).length = 14 := by
      simp [METHOD_ARG_NUM_CUTOFF]; omega
    simp only [if_true]
    by_cases hp : p < 14
    · rw [List.getElem?_append_left (by omega)]
      simp only [List.getElem?_map, List.getElem?_take, METHOD_ARG_NUM_CUTOFF, Option.map_eq_some_iff]
      simp only [show p < 15 - 1 from hp, if_true]
      constructor
      · rintro ⟨a, h, rfl⟩; exact .inl ⟨a, h, .inr trivial, rfl⟩
      · rintro (⟨a, h, _, rfl⟩ | ⟨_, h, _⟩)
        · exact ⟨a, h, rfl⟩
        · omega
    · rw [List.getElem?_append_right (by omega), hlen]
      constructor
      · intro h
        have : p - 14 = 0 := by
          cases hq : p - 14 with
          | zero => rfl
          | succ q => rw [hq] at h; simp at h
        rw [this] at h
        simp at h
        exact .inr ⟨trivial, by omega, h.symm⟩
      · rintro (⟨a, _, h, _⟩ | ⟨_, rfl, rfl⟩)
        · rcases h with h | h
          · cases h
          · omega
        · simp

theorem mem_decodeInstrs (sig : Sig) (ins : Instr) :
    ins ∈ decodeInstrs sig ↔
      (∃ a p, (appArgVals sig)[p]? = some a ∧ (tuplify sig = false ∨ p < 14) ∧
          ins = .decodeArg (.param a.idx) (p + 1)) ∨
      (tuplify sig = true ∧ ins = .decodeArg (.tupled (modelTupleTypes sig)) 15) := by
  unfold decodeInstrs
  rw [mem_zipIdx_map]
  constructor
  · rintro ⟨p, t, h, rfl⟩
    rcases (decodeTargets_get sig p t).1 h with ⟨a, h1, h2, rfl⟩ | ⟨h1, rfl, rfl⟩
    · exact .inl ⟨a, p, h1, h2, rfl⟩
    · exact .inr ⟨h1, rfl⟩
  · rintro (⟨a, p, h1, h2, rfl⟩ | ⟨h1, rfl⟩)
    · exact ⟨p, _, (decodeTargets_get sig p _).2 (.inl ⟨a, h1, h2, rfl⟩), rfl⟩
    · exact ⟨14, _, (decodeTargets_get sig 14 _).2 (.inr ⟨h1, rfl, rfl⟩), rfl⟩

theorem mem_txnInstrs (sig : Sig) (ins : Instr) :
    ins ∈ txnInstrs sig ↔
      ∃ a p, (txnArgVals sig)[p]? = some a ∧
        (ins = .setTxnIndex a.idx (nTxns sig - p) ∨
         ∃ t, a.kind = .txn t ∧ t ≠ .any ∧ ins = .assertType a.idx t) := by
  unfold txnInstrs
  simp only [List.mem_flatMap, txnArgVals_len]
  constructor
  · rintro ⟨⟨a, p⟩, hm, hin⟩
    have hg := List.mem_zipIdx_iff_getElem?.1 hm
    refine ⟨a, p, hg, ?_⟩
    simp only [List.mem_cons] at hin
    rcases hin with rfl | hin
    · exact .inl rfl
    · right
      cases hk : a.kind with
      | plain ty => simp [hk] at hin
      | ref r => simp [hk] at hin
      | txn t =>
        cases t <;> simp [hk] at hin <;> exact ⟨_, rfl, by decide, hin⟩
  · rintro ⟨a, p, hg, h⟩
    refine ⟨(a, p), List.mem_zipIdx_iff_getElem?.2 hg, ?_⟩
    simp only [List.mem_cons]
    rcases h with rfl | ⟨t, hk, hne, rfl⟩
    · exact .inl rfl
    · right
      cases t <;> simp_all

theorem tupled_get (sig : Sig) (p : Nat) (a : Inst) :
    (tupledAppArgs sig)[p]? = some a ↔ tuplify sig = true ∧ (appArgVals sig)[14 + p]? = some a := by
  unfold tupledAppArgs
  cases ht : tuplify sig <;> simp [METHOD_ARG_NUM_CUTOFF]

theorem mem_detupleInstrs (sig : Sig) (ins : Instr) :
    ins ∈ detupleInstrs sig ↔
      ∃ a p, tuplify sig = true ∧ (appArgVals sig)[14 + p]? = some a ∧ ins = .detuple p a.idx := by
  unfold detupleInstrs
  rw [mem_zipIdx_map]
  constructor
  · rintro ⟨p, a, h, rfl⟩
    obtain ⟨h1, h2⟩ := (tupled_get sig p a).1 h
    exact ⟨a, p, h1, h2, rfl⟩
  · rintro ⟨a, p, h1, h2, rfl⟩
    exact ⟨p, a, (tupled_get sig p a).2 ⟨h1, h2⟩, rfl⟩

theorem mem_glue (sig : Sig) (ins : Instr) :
    ins ∈ glue sig ↔ ins ∈ decodeInstrs sig ∨ ins ∈ txnInstrs sig ∨ ins ∈ detupleInstrs sig := by
  unfold glue
  simp only [List.mem_append]
  have h1 : (ins ∈ (if (txnArgVals sig).length > 0 then txnInstrs sig else [])) ↔ ins ∈ txnInstrs sig := by
    by_cases h : (txnArgVals sig).length > 0
    · simp [h]
    · have : txnArgVals sig = [] := by
        cases hl : txnArgVals sig with
        | nil => rfl
        | cons x xs => rw [hl] at h; simp at h
      simp [txnInstrs, this]
  have h2 : (ins ∈ (if tuplify sig = true then detupleInstrs sig else [])) ↔ ins ∈ detupleInstrs sig := by
    cases ht : tuplify sig with
    | true => simp
    | false =>
      simp only [Bool.false_eq_true, if_false, List.not_mem_nil, false_iff]
      intro h
      obtain ⟨_, _, h, _⟩ := (mem_detupleInstrs sig ins).1 h
      rw [ht] at h; cases h
  rw [h1, h2, or_assoc]


/-! ## reading the instruction list -/

theorem findSome_functional {α β} (f : α → Option β) (l : List α) (b : β)
    (hex : ∃ x ∈ l, f x = some b) (hfun : ∀ x ∈ l, ∀ b', f x = some b' → b' = b) :
    l.findSome? f = some b := by
  induction l with
  | nil => obtain ⟨x, hx, _⟩ := hex; cases hx
  | cons x l ih =>
    rw [List.findSome?_cons]
    cases hfx : f x with
    | some b' => simp [hfun x (List.mem_cons_self) b' hfx]
    | none =>
      apply ih
      · obtain ⟨y, hy, hfy⟩ := hex
        rcases List.mem_cons.1 hy with rfl | hy
        · rw [hfx] at hfy; cases hfy
        · exact ⟨y, hy, hfy⟩
      · intro y hy b' h; exact hfun y (List.mem_cons_of_mem _ hy) b' h

theorem findSome_spec {α β} (f : α → Option β) (l : List α) (o : Option β)
    (hsound : ∀ x ∈ l, ∀ b, f x = some b → o = some b)
    (hcompl : ∀ b, o = some b → ∃ x ∈ l, f x = some b) :
    l.findSome? f = o := by
  cases o with
  | none =>
    rw [List.findSome?_eq_none_iff]
    intro x hx
    cases h : f x with
    | none => rfl
    | some b => cases hsound x hx b h
  | some b =>
    apply findSome_functional f l b (hcompl b rfl)
    intro x hx b' h
    have := hsound x hx b' h
    cases this; rfl

/-- the source the standard gives to parameter `j` -/
def specWrite (sig : Sig) (j : Nat) : Option Write :=
  match sig[j]? with
  | none => none
  | some (.txn _) => some (.grp (nTxns sig - nTxns (sig.take j)))
  | some _ =>
    if nArgs sig ≤ 15 ∨ nArgs (sig.take j) < 14 then some (.arg (nArgs (sig.take j) + 1))
    else some (.tup (nArgs (sig.take j) - 14))

theorem specWrite_arg (sig : Sig) (j : Nat) (k : PKind) (hk : sig[j]? = some k) (hq : k.isTxn = false) :
    specWrite sig j =
      if nArgs sig ≤ 15 ∨ nArgs (sig.take j) < 14 then some (.arg (nArgs (sig.take j) + 1))
      else some (.tup (nArgs (sig.take j) - 14)) := by
  unfold specWrite
  rw [hk]
  cases k with
  | txn t => simp [PKind.isTxn] at hq
  | plain ty => rfl
  | ref r => rfl

theorem specWrite_txn (sig : Sig) (j : Nat) (k : PKind) (hk : sig[j]? = some k) (hq : k.isTxn = true) :
    specWrite sig j = some (.grp (nTxns sig - nTxns (sig.take j))) := by
  unfold specWrite
  rw [hk]
  cases k with
  | txn t => rfl
  | plain ty => simp [PKind.isTxn] at hq
  | ref r => simp [PKind.isTxn] at hq

theorem glue_writeOf (sig : Sig) (j : Nat) : (glue sig).findSome? (writeOf j) = specWrite sig j := by
  apply findSome_spec
  · -- every instruction that stores into parameter j does what the standard says
    intro ins hin w hw
    rcases (mem_glue sig ins).1 hin with h | h | h
    · rcases (mem_decodeInstrs sig ins).1 h with ⟨a, p, h1, h2, rfl⟩ | ⟨_, rfl⟩
      · simp only [writeOf] at hw
        split at hw
        · rename_i e
          cases hw
          obtain ⟨b1, b2, b3⟩ := app_bwd sig p a h1
          subst e
          rw [specWrite_arg sig a.idx a.kind b1 b2, ← b3]
          have : nArgs sig ≤ 15 ∨ p < 14 := by
            rcases h2 with h2 | h2
            · left
              have : ¬ 15 < nArgs sig := fun h15 => by
                have := (tuplify_iff sig).2 h15; rw [h2] at this; cases this
              omega
            · exact .inr h2
          simp [this]
        · cases hw
      · simp [writeOf] at hw
    · obtain ⟨a, p, h1, h2⟩ := (mem_txnInstrs sig ins).1 h
      rcases h2 with rfl | ⟨t, _, _, rfl⟩
      · simp only [writeOf] at hw
        split at hw
        · rename_i e
          cases hw
          obtain ⟨b1, b2, b3⟩ := txn_bwd sig p a h1
          subst e
          rw [specWrite_txn sig a.idx a.kind b1 b2, ← b3]
        · cases hw
      · simp [writeOf] at hw
    · obtain ⟨a, p, h1, h2, rfl⟩ := (mem_detupleInstrs sig ins).1 h
      simp only [writeOf] at hw
      split at hw
      · rename_i e
        cases hw
        obtain ⟨b1, b2, b3⟩ := app_bwd sig (14 + p) a h2
        subst e
        rw [specWrite_arg sig a.idx a.kind b1 b2, ← b3]
        have h15 := (tuplify_iff sig).1 h1
        have : ¬ (nArgs sig ≤ 15 ∨ 14 + p < 14) := by omega
        simp only [this, if_false]
        congr 2; omega
      · cases hw
  · -- and there is one
    intro w hw
    cases hk : sig[j]? with
    | none => simp [specWrite, hk] at hw
    | some k =>
      cases hq : k.isTxn with
      | true =>
        rw [specWrite_txn sig j k hk hq] at hw
        cases hw
        have hg := txn_fwd sig j k hk hq
        refine ⟨.setTxnIndex j (nTxns sig - nTxns (sig.take j)), ?_, by simp [writeOf]⟩
        exact (mem_glue sig _).2 (.inr (.inl ((mem_txnInstrs sig _).2 ⟨⟨k, j⟩, _, hg, .inl rfl⟩)))
      | false =>
        rw [specWrite_arg sig j k hk hq] at hw
        have hg := app_fwd sig j k hk hq
        by_cases hc : nArgs sig ≤ 15 ∨ nArgs (sig.take j) < 14
        · simp only [hc, if_true] at hw
          cases hw
          refine ⟨.decodeArg (.param j) (nArgs (sig.take j) + 1), ?_, by simp [writeOf]⟩
          refine (mem_glue sig _).2 (.inl ((mem_decodeInstrs sig _).2 (.inl ⟨⟨k, j⟩, _, hg, ?_, rfl⟩)))
          rcases hc with hc | hc
          · left
            cases ht : tuplify sig with
            | false => rfl
            | true => have := (tuplify_iff sig).1 ht; omega
          · exact .inr hc
        · simp only [hc, if_false] at hw
          cases hw
          refine ⟨.detuple (nArgs (sig.take j) - 14) j, ?_, by simp [writeOf]⟩
          refine (mem_glue sig _).2 (.inr (.inr ((mem_detupleInstrs sig _).2 ⟨⟨k, j⟩, _, ?_, ?_, rfl⟩)))
          · exact (tuplify_iff sig).2 (by omega)
          · have e : 14 + (nArgs (sig.take j) - 14) = nArgs (sig.take j) := by omega
            rw [e]; exact hg

/-- the type assertion the standard demands for parameter `j` -/
def specAssert (sig : Sig) (j : Nat) : Option TxnTy :=
  match sig[j]? with
  | some (.txn t) => if t = .any then none else some t
  | _ => none

theorem glue_assertOf (sig : Sig) (j : Nat) : (glue sig).findSome? (assertOf j) = specAssert sig j := by
  apply findSome_spec
  · intro ins hin t ht
    rcases (mem_glue sig ins).1 hin with h | h | h
    · rcases (mem_decodeInstrs sig ins).1 h with ⟨a, p, _, _, rfl⟩ | ⟨_, rfl⟩ <;> simp [assertOf] at ht
    · obtain ⟨a, p, h1, h2⟩ := (mem_txnInstrs sig ins).1 h
      rcases h2 with rfl | ⟨t', hk, hne, rfl⟩
      · simp [assertOf] at ht
      · simp only [assertOf] at ht
        split at ht
        · rename_i e
          cases ht
          obtain ⟨b1, _, _⟩ := txn_bwd sig p a h1
          subst e
          simp [specAssert, b1, hk, hne]
        · cases ht
    · obtain ⟨a, p, _, _, rfl⟩ := (mem_detupleInstrs sig ins).1 h
      simp [assertOf] at ht
  · intro t ht
    cases hk : sig[j]? with
    | none => simp [specAssert, hk] at ht
    | some k =>
      cases k with
      | plain ty => simp [specAssert, hk] at ht
      | ref r => simp [specAssert, hk] at ht
      | txn t' =>
        simp only [specAssert, hk] at ht
        split at ht
        · cases ht
        · rename_i hne
          cases ht
          have hg := txn_fwd sig j (.txn t) hk rfl
          refine ⟨.assertType j t, ?_, by simp [assertOf]⟩
          exact (mem_glue sig _).2 (.inr (.inl ((mem_txnInstrs sig _).2 ⟨⟨.txn t, j⟩, _, hg, .inr ⟨t, rfl, hne, rfl⟩⟩)))

theorem glue_tupleArgOf (sig : Sig) :
    (glue sig).findSome? tupleArgOf = if tuplify sig = true then some 15 else none := by
  apply findSome_spec
  · intro ins hin i hi
    rcases (mem_glue sig ins).1 hin with h | h | h
    · rcases (mem_decodeInstrs sig ins).1 h with ⟨a, p, _, _, rfl⟩ | ⟨ht, rfl⟩
      · simp [tupleArgOf] at hi
      · simp only [tupleArgOf] at hi; cases hi; simp [ht]
    · obtain ⟨a, p, _, h2⟩ := (mem_txnInstrs sig ins).1 h
      rcases h2 with rfl | ⟨_, _, _, rfl⟩ <;> simp [tupleArgOf] at hi
    · obtain ⟨a, p, _, _, rfl⟩ := (mem_detupleInstrs sig ins).1 h
      simp [tupleArgOf] at hi
  · intro i hi
    cases ht : tuplify sig with
    | false => simp [ht] at hi
    | true =>
      simp [ht] at hi; subst hi
      exact ⟨_, (mem_glue sig _).2 (.inl ((mem_decodeInstrs sig _).2 (.inr ⟨ht, rfl⟩))), rfl⟩

/-! ## C09, part 1: argument binding -/

/-- **arg_binding**: for every signature (any length, transaction and reference parameters
    in any position) and every parameter position, the instructions
    `__decode_constructions_and_args` generates bind the parameter to exactly the place the
    ARC-4 calling convention prescribes (and to nothing if there is no such parameter). -/
theorem arg_binding (sig : Sig) (j : Nat) : modelBinding sig j = specBinding sig j := by
  unfold modelBinding
  simp only [glue_writeOf, glue_assertOf, glue_tupleArgOf]
  cases hk : sig[j]? with
  | none => simp [specWrite, specBinding, hk]
  | some k =>
    cases k with
    | txn t => simp [specWrite, specBinding, specAssert, hk]
    | plain ty =>
      simp only [specWrite, specBinding, hk, maxArgs]
      by_cases hc : nArgs sig ≤ 15 ∨ nArgs (sig.take j) < 15 - 1
      · simp [hc]
      · have ht : tuplify sig = true := (tuplify_iff sig).2 (by omega)
        simp [hc, ht]
    | ref r =>
      simp only [specWrite, specBinding, hk, maxArgs]
      by_cases hc : nArgs sig ≤ 15 ∨ nArgs (sig.take j) < 15 - 1
      · simp [hc]
      · have ht : tuplify sig = true := (tuplify_iff sig).2 (by omega)
        simp [hc, ht]


/-! ## transaction parameters -/

/-- **txn_index_arith**: the `i`-th (from 0) of the `k` transaction parameters is bound to the
    transaction `k − i` places before the call, i.e. to group position `gi − k + i`: the `k`
    transactions immediately preceding the call, in declaration order, the last one at
    `gi − 1`; a specific type is asserted, `txn` is not. -/
theorem txn_index_arith (sig : Sig) (j : Nat) (t : TxnTy) (hj : sig[j]? = some (.txn t)) :
    modelBinding sig j =
        some (.groupTxn (nTxns sig - nTxns (sig.take j)) (if t = .any then none else some t)) ∧
    1 ≤ nTxns sig - nTxns (sig.take j) ∧ nTxns sig - nTxns (sig.take j) ≤ nTxns sig ∧
    (∀ gi, nTxns sig ≤ gi →
      gi - (nTxns sig - nTxns (sig.take j)) = gi - nTxns sig + nTxns (sig.take j) ∧
      gi - (nTxns sig - nTxns (sig.take j)) < gi) := by
  have hlt : nTxns (sig.take j) < nTxns sig := by
    have h := txn_fwd sig j (.txn t) hj rfl
    have : nTxns (sig.take j) < (txnArgVals sig).length := by
      rcases Nat.lt_or_ge (nTxns (sig.take j)) (txnArgVals sig).length with h' | h'
      · exact h'
      · rw [List.getElem?_eq_none h'] at h; cases h
    rwa [txnArgVals_len] at this
  refine ⟨?_, by omega, by omega, fun gi hgi => by omega⟩
  rw [arg_binding]; simp [specBinding, hj]

/-- consecutive transaction parameters sit at consecutive group positions -/
theorem txn_consecutive (sig : Sig) (j j' : Nat) (t t' : TxnTy)
    (_hj : sig[j]? = some (.txn t)) (hj' : sig[j']? = some (.txn t'))
    (hnext : nTxns (sig.take j') = nTxns (sig.take j) + 1) (gi : Nat) (hgi : nTxns sig ≤ gi) :
    gi - (nTxns sig - nTxns (sig.take j')) = gi - (nTxns sig - nTxns (sig.take j)) + 1 := by
  have h := (txn_index_arith sig j' t' hj').2.1
  omega

/-! ## references -/

/-- **ref_resolution**: `Txn.accounts[i]` / `Txn.applications[i]` / `Txn.assets[i]` denote what
    ARC-4 says index `i` of a reference argument denotes. -/
theorem ref_resolution (c : Call) (r : RefKind) (i : Nat) : modelResolve c r i = specResolve c r i := by
  cases r <;> cases i <;> simp [modelResolve, specResolve]

/-! ## the tuple of the 15th, 16th, … argument -/

theorem insts_filter_kind (q : PKind → Bool) : ∀ (sig : Sig) (n : Nat),
    ((insts sig n).filter (fun a => q a.kind)).map (fun a => a.kind) = sig.filter q := by
  intro sig
  induction sig with
  | nil => intro n; simp [insts_nil]
  | cons x sig ih =>
    intro n
    rw [insts_cons, List.filter_cons, List.filter_cons]
    by_cases hx : q x = true <;> simp [hx, ih (n + 1)]

theorem appArgVals_kinds (sig : Sig) : (appArgVals sig).map (fun a => a.kind) = sig.filter PKind.isArg :=
  insts_filter_kind PKind.isArg sig 0

/-- the tuple type the code builds is the one the standard prescribes -/
theorem tuple_types (sig : Sig) :
    modelTupleTypes sig = if tuplify sig = true then specTupleTypes sig else [] := by
  unfold modelTupleTypes tupledAppArgs specTupleTypes
  cases ht : tuplify sig with
  | false => simp
  | true =>
    simp only [if_true, METHOD_ARG_NUM_CUTOFF, maxArgs, ← appArgVals_kinds, List.map_drop, List.map_map]
    rfl

theorem filter_get (sig : Sig) (j : Nat) (k : PKind) (hk : sig[j]? = some k) (hq : k.isTxn = false) :
    (sig.filter PKind.isArg)[nArgs (sig.take j)]? = some k := by
  rw [← appArgVals_kinds, List.getElem?_map, app_fwd sig j k hk hq]; rfl

theorem encodeFields_get : ∀ (ts : List Ty) (vs : List V) (ps : List Part),
    encodeFields ts vs = some ps → ∀ (i : Nat) (t : Ty), ts[i]? = some t →
    ∃ v bs, vs[i]? = some v ∧ encode t v = some bs ∧ ps[i]? = some (toPart t v bs) := by
  intro ts
  induction ts with
  | nil => intro vs ps _ i t ht; simp at ht
  | cons t0 ts ih =>
    intro vs ps h i t ht
    cases vs with
    | nil => simp [encodeFields] at h
    | cons v0 vs =>
      simp only [encodeFields] at h
      split at h
      · rename_i bs ps' hb hps
        cases h
        cases i with
        | zero =>
          simp at ht; subst ht
          exact ⟨v0, bs, by simp, hb, by simp⟩
        | succ i =>
          simp at ht
          obtain ⟨v, bs', h1, h2, h3⟩ := ih vs ps' hps i t ht
          exact ⟨v, bs', by simpa using h1, h2, by simpa using h3⟩
      · cases h

/-- the stand-alone bytes of a tuple component decode to the component -/
theorem piece_bytes_decode (t : Ty) (v : V) (bs : Bytes) (h : encode t v = some bs) :
    decode t (pieceBytes (partPiece (toPart t v bs))) = some v := by
  have hd := decode_encode t v bs h
  cases t with
  | bool =>
    cases v with
    | bool b => cases b <;> simp [toPart, partPiece, pieceBytes, decode]
    | uint n => simp [encode] at h
    | seq vs => simp [encode] at h
  | _ =>
    all_goals
      simp only [toPart]
      split <;> simpa [partPiece, pieceBytes] using hd

/-- **tuple_cutoff**: a method with more than 15 non-transaction parameters.  If the caller
    packed the values of the 15th, 16th, … argument as the ARC-4 tuple `vs` of the prescribed
    type into application argument 15, then every parameter from the 15th on is bound by the
    generated code to component `p − 14` of that argument, the component exists, and its bytes
    decode (ARC-4 `decode`, via `Arc4.split` and `decode_encode`) to exactly the value the
    caller packed at that position.  (The first 14 keep their own argument: `arg_binding`.) -/
theorem tuple_cutoff (sig : Sig) (vs : List V) (bs : Bytes)
    (hmany : maxArgs < nArgs sig)
    (henc : encode (.tuple (specTupleTypes sig)) (.seq vs) = some bs)
    (j : Nat) (k : PKind) (hk : sig[j]? = some k) (hnt : k.isTxn = false)
    (hp : maxArgs - 1 ≤ nArgs (sig.take j)) :
    ∃ piece v,
      modelBinding sig j = some (.tupleElem maxArgs (nArgs (sig.take j) - (maxArgs - 1))) ∧
      (split (kinds (modelTupleTypes sig)) bs).bind (·[nArgs (sig.take j) - (maxArgs - 1)]?) = some piece ∧
      vs[nArgs (sig.take j) - (maxArgs - 1)]? = some v ∧
      decode k.wireTy (pieceBytes piece) = some v := by
  simp only [maxArgs] at hmany hp ⊢
  have ht : tuplify sig = true := (tuplify_iff sig).2 hmany
  rw [tuple_types, ht, if_pos rfl]
  -- the binding
  have hb : modelBinding sig j = some (.tupleElem 15 (nArgs (sig.take j) - (15 - 1))) := by
    rw [arg_binding]
    have hc : ¬ (nArgs sig ≤ 15 ∨ nArgs (sig.take j) < 15 - 1) := by omega
    cases k with
    | txn t => simp [PKind.isTxn] at hnt
    | plain ty => simp [specBinding, hk, maxArgs, hc]
    | ref r => simp [specBinding, hk, maxArgs, hc]
  -- the component type at that position
  have hty : (specTupleTypes sig)[nArgs (sig.take j) - (15 - 1)]? = some k.wireTy := by
    unfold specTupleTypes
    simp only [maxArgs, List.getElem?_map, List.getElem?_drop]
    have e : 15 - 1 + (nArgs (sig.take j) - (15 - 1)) = nArgs (sig.take j) := by omega
    rw [e, filter_get sig j k hk hnt]; rfl
  -- the caller's encoding
  simp only [encode] at henc
  split at henc
  · obtain ⟨ps, hps, hasm⟩ := Option.bind_eq_some_iff.1 henc
    have hsp := split_assemble ps bs hasm
    rw [encodeFields_kinds _ vs ps hps] at hsp
    obtain ⟨v, bs', h1, h2, h3⟩ := encodeFields_get _ vs ps hps _ _ hty
    refine ⟨partPiece (toPart k.wireTy v bs'), v, hb, ?_, h1, piece_bytes_decode _ v bs' h2⟩
    simp [hsp, List.getElem?_map, h3]
  · cases henc


/-- **direct_arg**: with at most 15 non-transaction parameters, or among the first 14 of more,
    a parameter is bound to its own application argument (`p + 1`, after the selector); a plain
    parameter is bound to exactly those bytes, and if they are the ARC-4 encoding of `v` they
    decode to `v`. -/
theorem direct_arg (sig : Sig) (c : Call) (j : Nat) (k : PKind) (hk : sig[j]? = some k)
    (hnt : k.isTxn = false) (hd : nArgs sig ≤ maxArgs ∨ nArgs (sig.take j) < maxArgs - 1)
    (bs : Bytes) (harg : c.appArgs[nArgs (sig.take j) + 1]? = some bs) :
    modelBinding sig j = some (.appArg (nArgs (sig.take j) + 1)) ∧
    (∀ ty, k = .plain ty →
      evalBinding (modelResolve c) (modelTupleTypes sig) c k (.appArg (nArgs (sig.take j) + 1)) = some (.value bs) ∧
      ∀ v, encode ty v = some bs → decode ty bs = some v) := by
  constructor
  · rw [arg_binding]
    cases k with
    | txn t => simp [PKind.isTxn] at hnt
    | plain ty => simp [specBinding, hk, hd]
    | ref r => simp [specBinding, hk, hd]
  · intro ty hty
    subst hty
    exact ⟨by simp [evalBinding, harg, boundOf], fun v hv => decode_encode ty v bs hv⟩

/-- **caller_agrees**: the caller-side packing of property C14's specification
    (`MethodCall.packArgs`) puts slot `p` where the callee looks for it: up to 15 slots each in
    its own argument; beyond that the first 14 in their own argument and one 15th argument
    (the tuple of the rest, read by `tuple_cutoff`). -/
theorem caller_agrees (slots : List Models.MethodCall.Slot) (args : List Bytes)
    (h : Models.MethodCall.packArgs slots = some args) :
    (slots.length ≤ 15 → args = slots.map (·.enc)) ∧
    (15 < slots.length → args.length = 15 ∧ ∀ p, p < 14 → args[p]? = (slots[p]?).map (·.enc)) := by
  unfold Models.MethodCall.packArgs at h
  split at h
  · rename_i hle
    cases h
    exact ⟨fun _ => rfl, fun hgt => by omega⟩
  · rename_i hgt
    obtain ⟨t, _, rfl⟩ := Option.map_eq_some_iff.1 h
    refine ⟨fun hle => by omega, fun _ => ⟨by simp; omega, fun p hp => ?_⟩⟩
    rw [List.getElem?_append_left (by simp; omega)]
    simp [hp]

/-! ## running the glue on a call -/

theorem evalBinding_types (res : RefKind → Nat → Option Bound) (sig : Sig) (c : Call) (k : PKind)
    (j : Nat) (b : Binding) (hb : specBinding sig j = some b) :
    evalBinding res (modelTupleTypes sig) c k b = evalBinding res (specTupleTypes sig) c k b := by
  rw [tuple_types]
  cases ht : tuplify sig with
  | true => simp
  | false =>
    have hn : ¬ 15 < nArgs sig := fun h => by have := (tuplify_iff sig).2 h; rw [ht] at this; cases this
    cases b with
    | appArg i => rfl
    | groupTxn back e => rfl
    | tupleElem i idx =>
      exfalso
      unfold specBinding at hb
      cases hk : sig[j]? with
      | none => simp [hk] at hb
      | some k' =>
        have hc : nArgs sig ≤ maxArgs ∨ nArgs (sig.take j) < maxArgs - 1 := by
          left; simp only [maxArgs]; omega
        cases k' <;> simp [hk, hc] at hb

/-- **run_eq**: on every call, the generated decoding binds exactly the values the ARC-4
    callee convention prescribes, and fails exactly when it prescribes failure (missing
    application argument, missing preceding transaction, wrong transaction type, reference
    index outside its array). -/
theorem run_eq (sig : Sig) (c : Call) : modelRun sig c = specRun sig c := by
  unfold modelRun specRun runWith
  congr 1
  funext j
  cases hk : sig[j]? with
  | none => rfl
  | some k =>
    simp only [Option.bind_some, arg_binding]
    cases hb : specBinding sig j with
    | none => rfl
    | some b =>
      simp only [Option.bind_some]
      rw [evalBinding_types _ sig c k j b hb]
      have : modelResolve c = specResolve c := by funext r i; exact ref_resolution c r i
      rw [this]

theorem mapM_none {α β} (f : α → Option β) : ∀ (l : List α) (x : α), x ∈ l → f x = none → l.mapM f = none := by
  intro l
  induction l with
  | nil => intro x hx; cases hx
  | cons y l ih =>
    intro x hx hf
    rw [List.mapM_cons]
    rcases List.mem_cons.1 hx with rfl | hx
    · simp [hf]
    · cases f y with
      | none => rfl
      | some b => simp [ih x hx hf]

/-- a parameter that cannot be bound makes the whole call fail -/
theorem run_fails_of_param (sig : Sig) (c : Call) (j : Nat) (k : PKind) (b : Binding)
    (hk : sig[j]? = some k) (hb : specBinding sig j = some b)
    (he : evalBinding (specResolve c) (specTupleTypes sig) c k b = none) :
    modelRun sig c = none := by
  rw [run_eq]
  unfold specRun runWith
  apply mapM_none _ _ j
  · rw [List.mem_range]
    rcases Nat.lt_or_ge j sig.length with h | h
    · exact h
    · rw [List.getElem?_eq_none h] at hk; cases hk
  · simp [hk, hb, he]

theorem first_txn : ∀ (sig : Sig), 0 < nTxns sig →
    ∃ j t, sig[j]? = some (.txn t) ∧ nTxns (sig.take j) = 0 := by
  intro sig
  induction sig with
  | nil => intro h; simp [nTxns] at h
  | cons a sig ih =>
    intro h
    cases a with
    | txn t => exact ⟨0, t, by simp, by simp [nTxns]⟩
    | plain ty =>
      have : 0 < nTxns sig := by simpa [nTxns, List.countP_cons, PKind.isTxn] using h
      obtain ⟨j, t, h1, h2⟩ := ih this
      exact ⟨j + 1, t, by simpa using h1, by simpa [nTxns, List.countP_cons, PKind.isTxn] using h2⟩
    | ref r =>
      have : 0 < nTxns sig := by simpa [nTxns, List.countP_cons, PKind.isTxn] using h
      obtain ⟨j, t, h1, h2⟩ := ih this
      exact ⟨j + 1, t, by simpa using h1, by simpa [nTxns, List.countP_cons, PKind.isTxn] using h2⟩

/-- **txn_missing_fails**: fewer transactions before the call than transaction parameters —
    the call fails (`Txn.group_index() - Int(k)` underflows). -/
theorem txn_missing_fails (sig : Sig) (c : Call) (h : c.gi < nTxns sig) : modelRun sig c = none := by
  obtain ⟨j, t, h1, h2⟩ := first_txn sig (by omega)
  apply run_fails_of_param sig c j (.txn t) _ h1 (by simp [specBinding, h1]; rfl)
  have : ¬ (nTxns sig ≤ c.gi) := by omega
  simp [evalBinding, h2, this]

/-- **txn_wrong_type_fails**: a preceding transaction whose type is not the declared one — the
    call fails. -/
theorem txn_wrong_type_fails (sig : Sig) (c : Call) (j : Nat) (t : TxnTy) (ty : Nat)
    (hj : sig[j]? = some (.txn t)) (hspecific : t ≠ .any)
    (hty : c.groupTypes[c.gi - (nTxns sig - nTxns (sig.take j))]? = some ty) (hne : t.code ≠ some ty) :
    modelRun sig c = none := by
  apply run_fails_of_param sig c j (.txn t) _ hj (by simp [specBinding, hj]; rfl)
  simp only [evalBinding]
  split
  · simp [hty, hne]
  · rfl

/-- **missing_arg_fails**: fewer application arguments than the signature needs — the call fails. -/
theorem missing_arg_fails (sig : Sig) (c : Call) (j : Nat) (k : PKind) (hk : sig[j]? = some k)
    (hnt : k.isTxn = false) (hfew : nArgs sig ≤ maxArgs)
    (hlen : c.appArgs.length ≤ nArgs (sig.take j) + 1) : modelRun sig c = none := by
  have hb : specBinding sig j = some (.appArg (nArgs (sig.take j) + 1)) := by
    cases k with
    | txn t => simp [PKind.isTxn] at hnt
    | plain ty => simp [specBinding, hk, hfew]
    | ref r => simp [specBinding, hk, hfew]
  apply run_fails_of_param sig c j k _ hk hb
  simp [evalBinding, List.getElem?_eq_none hlen]

/-! ## frame-pointer flavour -/

/-- **frame_cells**: in the frame-pointer flavour every parameter, the tuple and the output
    get their own cell inside the allocated frame. -/
theorem frame_cells (sig : Sig) (out : Bool) :
    let L := frameLayout sig out
    (∀ i, i < sig.length → L.paramCell i < L.numLocals) ∧
    (∀ i i', L.paramCell i = L.paramCell i' → i = i') ∧
    (∀ o, L.outputCell = some o → o < L.numLocals ∧ ∀ i, L.paramCell i ≠ o) ∧
    (∀ tc, L.tupleCell = some tc → tc < L.numLocals ∧ (∀ i, i < sig.length → L.paramCell i ≠ tc) ∧
        L.outputCell ≠ some tc) := by
  cases out <;> cases ht : tuplify sig <;> simp only [frameLayout, ht] <;>
    refine ⟨fun i hi => ?_, fun i i' h => ?_, fun o ho => ?_, fun tc htc => ?_⟩ <;>
    simp at * <;> (try subst_vars) <;>
    first
      | omega
      | exact ⟨by omega, fun i => by omega⟩
      | exact ⟨by omega, fun i hi => by omega⟩
      | exact ⟨by omega, fun i hi => by omega, by omega⟩

/-! ## C09, part 2: the result -/

theorem prefix_const : RETURN_HASH_PREFIX = returnPrefix ∧ METHOD_ARG_NUM_CUTOFF = maxArgs := ⟨rfl, rfl⟩

/-- **return_logged_once**: both flavours of the wrapped handler do exactly what ARC-4 demands
    of a method call: when the arguments cannot be decoded the call fails; otherwise the body
    runs, a non-void result `r` is logged as `151f7c75 ‖ r` — one log, after everything the
    body logged — and the call is approved; a void method adds no log. -/
theorem return_logged_once (framePointers : Bool) (b : Body) :
    wrapOutcome framePointers b = specEffects b.argsOk b.logs b.result := by
  obtain ⟨ok, logs, result⟩ := b
  cases framePointers <;> cases ok <;> cases result <;>
    simp [wrapOutcome, wrapSteps, wrapVanilla, wrapFramePointers, methodReturn, execSteps, execStep,
      specEffects, RETURN_HASH_PREFIX, returnPrefix]

/-- spelled out: the glue adds exactly one log, the last one, with the prefix -/
theorem return_log_is_last (framePointers : Bool) (logs : List Bytes) (r : Bytes) :
    ∃ out, wrapOutcome framePointers ⟨true, logs, some r⟩ = .approved out ∧
      out.length = logs.length + 1 ∧ out.take logs.length = logs ∧
      out.getLast? = some ([0x15, 0x1f, 0x7c, 0x75] ++ r) := by
  refine ⟨logs ++ [returnPrefix ++ r], ?_, by simp, by simp, by simp [returnPrefix]⟩
  rw [return_logged_once]; rfl

theorem void_adds_no_log (framePointers : Bool) (logs : List Bytes) :
    wrapOutcome framePointers ⟨true, logs, none⟩ = .approved logs := by
  rw [return_logged_once]; rfl

/-! ## C09, part 3: the contract -/

section contract
variable {σ : Type} [DecidableEq σ] (sel : String → σ)

/-- the contract entry `add_method_handler` records has the signature it dispatches on -/
theorem registered_sig (r : Reg) : r.registeredSpec.signature = r.methodSignature := by
  cases h : r.overriding <;>
    simp [Reg.registeredSpec, Reg.methodSpec, MethodSpec.signature, Reg.methodSignature, h]

theorem registerAllWith_spec (specOf : Reg → MethodSpec) : ∀ (regs : List Reg) (st st' : RouterSt σ),
    registerAllWith specOf sel st regs = .ok st' →
    st'.methods = st.methods ++ regs.map specOf ∧
    st'.sigs = st.sigs ++ regs.map Reg.methodSignature ∧
    st'.sels = st.sels ++ regs.map (fun r => sel r.methodSignature) ∧
    (st.sels.Nodup → st'.sels.Nodup) ∧ (st.sigs.Nodup → st'.sigs.Nodup) := by
  intro regs
  induction regs with
  | nil => intro st st' h; simp [registerAllWith] at h; subst h; simp
  | cons r regs ih =>
    intro st st' h
    simp only [registerAllWith] at h
    cases hr : registerWith specOf sel st r with
    | error e => rw [hr] at h; cases h
    | ok st1 =>
      rw [hr] at h
      obtain ⟨h1, h2, h3, h4, h5⟩ := ih st1 st' h
      unfold registerWith at hr
      dsimp only at hr
      split at hr
      · cases hr
      · split at hr
        · cases hr
        · rename_i hns hnl
          cases hr
          refine ⟨by simp [h1], by simp [h2], by simp [h3], ?_, ?_⟩
          · intro hnd; apply h4
            simp only [List.nodup_append, List.nodup_cons, List.not_mem_nil, not_false_eq_true,
              List.nodup_nil, and_self, List.mem_cons, or_false, true_and]
            exact ⟨hnd, fun a ha b hb => by subst hb; intro e; subst e; exact hnl ha⟩
          · intro hnd; apply h5
            simp only [List.nodup_append, List.nodup_cons, List.not_mem_nil, not_false_eq_true,
              List.nodup_nil, and_self, List.mem_cons, or_false, true_and]
            exact ⟨hnd, fun a ha b hb => by subst hb; intro e; subst e; exact hns ha⟩

/-- **contract_selectors**: for every accepted sequence of registrations (with or without
    `overriding_name`), the contract lists exactly the registered methods, in order, under the
    name they were registered with and with their argument / return types; their signatures —
    hence their selectors, for any selector function — are exactly the ones the approval
    program dispatches on, and these are pairwise distinct. -/
theorem contract_selectors (regs : List Reg) (st : RouterSt σ)
    (h : registerAll sel {} regs = .ok st) :
    contractOf st = regs.map Reg.registeredSpec ∧
    (contractOf st).map (fun m => m.signature) = st.sigs ∧
    (contractOf st).map (fun m => sel m.signature) = dispatchedOf sel st ∧
    (dispatchedOf sel st).Nodup ∧
    (contractOf st).map (fun m => (m.name, m.args, m.ret)) =
      regs.map (fun r => (r.overriding.getD r.fnName, r.args, r.ret)) := by
  obtain ⟨h1, h2, h3, h4, _⟩ := registerAllWith_spec sel Reg.registeredSpec regs {} st h
  simp only [List.nil_append] at h1 h2 h3
  have hs : (regs.map Reg.registeredSpec).map (fun m => m.signature) = regs.map Reg.methodSignature := by
    rw [List.map_map]
    apply List.map_congr_left
    intro r _
    exact registered_sig r
  refine ⟨h1, ?_, ?_, ?_, ?_⟩
  · simp only [contractOf]; rw [h1, h2, hs]
  · simp only [contractOf, dispatchedOf]
    rw [h1, h2, List.map_map, List.map_map]
    apply List.map_congr_left
    intro r _
    simp only [Function.comp]
    rw [registered_sig r]
  · simp only [dispatchedOf]
    rw [h2, List.map_map]
    have := h4 List.nodup_nil
    rw [h3] at this
    exact this
  · simp only [contractOf]
    rw [h1, List.map_map]
    apply List.map_congr_left
    intro r _
    cases ho : r.overriding <;> simp [Reg.registeredSpec, Reg.methodSpec, ho]

/-- one contract entry and one dispatched selector per registration -/
theorem contract_shape (regs : List Reg) (st : RouterSt σ) (h : registerAll sel {} regs = .ok st) :
    (contractOf st).length = regs.length ∧ (dispatchedOf sel st).length = regs.length := by
  obtain ⟨h1, h2, _, _, _⟩ := registerAllWith_spec sel Reg.registeredSpec regs {} st h
  simp only [List.nil_append] at h1 h2
  exact ⟨by simp [contractOf, h1], by simp [dispatchedOf, h2]⟩

end contract

/-- **contract_selectors_old_counterexample** (regression witness): the code before commit
    caa13a5 (`registerAllOld`) on `add_method_handler(m, overriding_name="foo")` — the program
    dispatches on `foo()void`, the contract listed `m()void`; the code as it is lists
    `foo()void` (selectors taken as the signature text itself, an injective choice). -/
theorem contract_selectors_old_counterexample :
    (∃ st, registerAllOld (fun s => s) {} [⟨"m", some "foo", [], "void"⟩] = .ok st ∧
      (contractOf st).map (fun m => m.signature) = ["m()void"] ∧
      dispatchedOf (fun s => s) st = ["foo()void"] ∧
      (contractOf st).map (fun m => m.signature) ≠ dispatchedOf (fun s => s) st) ∧
    (∃ st, registerAll (fun s => s) {} [⟨"m", some "foo", [], "void"⟩] = .ok st ∧
      (contractOf st).map (fun m => m.signature) = ["foo()void"] ∧
      dispatchedOf (fun s => s) st = ["foo()void"]) := by
  refine ⟨⟨_, rfl, ?_, ?_, ?_⟩, ⟨_, rfl, ?_, ?_⟩⟩ <;> decide

/-! ## non-vacuity -/

/-- a 19-parameter signature with transaction and reference parameters in the middle -/
def demoSig : Sig :=
  [.plain (.uint 64), .txn .pay, .plain .bool, .ref .account, .txn .any, .plain .string] ++
  List.replicate 10 (.plain (.uint 8)) ++ [.ref .asset, .plain .bool, .plain (.tuple [.uint 16, .string])]

example : nArgs demoSig = 17 ∧ nTxns demoSig = 2 := by decide
example : specBinding demoSig 1 = some (.groupTxn 2 (some .pay)) := by decide
example : specBinding demoSig 4 = some (.groupTxn 1 none) := by decide
example : specBinding demoSig 15 = some (.appArg 14) := by decide
example : specBinding demoSig 16 = some (.tupleElem 15 0) := by decide
example : specBinding demoSig 18 = some (.tupleElem 15 2) := by decide
example : modelBinding demoSig 18 = some (.tupleElem 15 2) := by rw [arg_binding]; decide
example : specTupleTypes demoSig = [.uint 8, .bool, .tuple [.uint 16, .string]] := by decide

/-- a well-formed ARC-4 call of `demoSig`: group pay, pay, axfer, appl (the call) -/
def demoCall : Call :=
  { groupTypes := [1, 1, 4, 6], gi := 3,
    appArgs := [[1,2,3,4], [0,0,0,0,0,0,0,5], [0x80], [1], [0, 2, 104, 105]] ++ List.replicate 10 [9] ++
      [[0, 0x80, 0, 4, 0, 3, 0, 4, 0, 2, 104, 105]],
    sender := [1], accounts := [[2]], appId := 7, apps := [], assets := [500] }

/-- hypotheses of `tuple_cutoff` are satisfiable -/
example : maxArgs < nArgs demoSig ∧
    encode (.tuple (specTupleTypes demoSig)) (.seq [.uint 0, .bool true, .seq [.uint 3, V.ofBytes [104, 105]]])
      = some [0, 0x80, 0, 4, 0, 3, 0, 4, 0, 2, 104, 105] := by decide
example : specRun demoSig demoCall =
    some ([.value [0,0,0,0,0,0,0,5], .txn 1, .value [0x80], .account [2], .txn 2, .value [0, 2, 104, 105]]
      ++ List.replicate 10 (.value [9]) ++ [.asset 500, .value [0x80], .value [0, 3, 0, 4, 0, 2, 104, 105]]) := by decide
/-- wrong type of the transaction bound to the `pay` parameter / too few preceding transactions -/
example : specRun demoSig { demoCall with groupTypes := [1, 4, 4, 6] } = none := by decide
example : specRun demoSig { demoCall with gi := 1 } = none := by decide
example : modelRun demoSig { demoCall with appArgs := demoCall.appArgs.take 15 } = none := by rw [run_eq]; decide
/-- hypotheses of `contract_selectors` are satisfiable (a renamed and an unrenamed method) -/
example : ∃ st, registerAll (fun s => s) {} [⟨"m", none, ["uint64"], "void"⟩, ⟨"n_impl", some "n", [], "uint64"⟩] = .ok st ∧
    (contractOf st).map (fun m => m.signature) = ["m(uint64)void", "n()uint64"] := ⟨_, rfl, by decide⟩
example : (match registerAll (fun s => s) {} [⟨"m", none, [], "void"⟩, ⟨"k", some "m", [], "void"⟩] with
    | .error .duplicate => true | _ => false) = true := by decide

end PyTealV.Proofs.C09
