/-
  C02Gen (part 5): facts about the source semantics and the scratch space used by the call case.
    * `hasReturn_no_vals`: a tree with `hasReturn` (every path ends in return / exit / err) never
      completes normally;
    * `callees_find`: the callee table of `genR` is the subroutine table of the program;
    * binding parameters first-to-last (source) or last-to-first (generated prologue) gives the
      same scratch *content* when the parameter slots are pairwise distinct.
-/
import PyTealV.Proofs.C02GenMach
namespace PyTealV.Proofs.C02Gen
open PyTealV PyTealV.Avm PyTealV.Src PyTealV.Comp PyTealV.Models.FragmentR
open PyTealV.Proofs.C02Spill (getSlot_setSlot storeAll getSlot_storeAll)

/-! ### `hasReturn` -/

structure NoVals (env : Env) (fuel : Nat) : Prop where
  ev : ∀ e w vs w', hasReturn e = true → eval env fuel e w ≠ (.vals vs, w')
  seq : ∀ es w vs w', hasReturnLast es = true → evalSeq env fuel es w ≠ (.vals vs, w')
  cond : ∀ arms w vs w', hasReturnArms arms = true → evalCond env fuel arms w ≠ (.vals vs, w')

theorem noVals_zero (env : Env) : NoVals env 0 where
  ev := by intro e w vs w' _ h; simp only [eval] at h; cases h
  seq := by intro es w vs w' _ h; simp only [evalSeq] at h; cases h
  cond := by intro arms w vs w' _ h; simp only [evalCond] at h; cases h

theorem noVals_succ {env : Env} {fuel : Nat} (ih : NoVals env fuel) : NoVals env (fuel + 1) where
  ev := by
    intro e w vs w' hr h
    cases e with
    | ret e =>
      cases e with
      | none => simp only [eval] at h; cases h
      | some e =>
        simp only [eval] at h
        split at h
        · cases h
        · cases h
        · rename_i h1 h2; exact h2 _ _ h
    | exit e =>
      simp only [eval] at h
      split at h
      · cases h
      · cases h
      · rename_i h1 h2; exact h2 _ _ h
    | err => simp only [eval] at h; cases h
    | seq es =>
      simp only [hasReturn] at hr
      simp only [eval] at h
      exact ih.seq es w vs w' hr h
    | ite c t e =>
      cases e with
      | none => simp only [hasReturn] at hr; cases hr
      | some e =>
        simp only [hasReturn, Bool.and_eq_true] at hr
        simp only [eval] at h
        split at h
        · split at h
          · exact ih.ev t _ vs w' hr.1 h
          · exact ih.ev e _ vs w' hr.2 h
        · cases h
        · rename_i h1 h2; exact h2 _ _ h
    | cond arms =>
      simp only [hasReturn] at hr
      simp only [eval] at h
      exact ih.cond arms w vs w' hr h
    | note e =>
      cases e with
      | none => simp only [hasReturn] at hr; cases hr
      | some e =>
        simp only [hasReturn] at hr
        simp only [eval] at h
        exact ih.ev e w vs w' hr h
    | nonce b e =>
      simp only [hasReturn] at hr
      simp only [eval] at h
      exact ih.ev e w vs w' hr h
    | _ => simp only [hasReturn] at hr; cases hr
  seq := by
    intro es w vs w' hr h
    match es with
    | [] => simp only [hasReturnLast] at hr; cases hr
    | [e] =>
      simp only [hasReturnLast] at hr
      simp only [evalSeq] at h
      exact ih.ev e w vs w' hr h
    | e :: e2 :: es =>
      simp only [hasReturnLast] at hr
      simp only [evalSeq] at h
      split at h
      · exact ih.seq (e2 :: es) _ vs w' hr h
      · rename_i h1; exact h1 _ _ h
  cond := by
    intro arms w vs w' hr h
    match arms with
    | [] => simp only [evalCond] at h; cases h
    | (c, b) :: rest =>
      simp only [hasReturnArms, Bool.and_eq_true] at hr
      simp only [evalCond] at h
      split at h
      · split at h
        · exact ih.ev b _ vs w' hr.1 h
        · exact ih.cond rest _ vs w' hr.2 h
      · cases h
      · rename_i h1 h2; exact h2 _ _ h

theorem noVals (env : Env) : ∀ fuel, NoVals env fuel
  | 0 => noVals_zero env
  | f + 1 => noVals_succ (noVals env f)

/-- a tree in which every path ends in return / exit / err never completes normally -/
theorem hasReturn_no_vals {env : Env} {fuel : Nat} {e : Expr} {w : World} {vs : List Val} {w' : World}
    (hr : hasReturn e = true) (h : eval env fuel e w = (.vals vs, w')) : False :=
  (noVals env fuel).ev e w vs w' hr h

/-! ### the callee table -/

def toCallee (s : SubDef) : Callee := { id := s.id, nArgs := s.params.length, hasRet := s.hasRet }

theorem callees_find (p : Prog) (f : Nat) :
    (calleesOf p).find? (·.id == f) = (findSub p f).map toCallee := by
  unfold calleesOf findSub
  rw [List.find?_map]
  rfl

/-! ### scratch space: a list of bindings with pairwise distinct slots -/

theorem nodup_reverse_of {α} {l : List α} (h : l.Nodup) : l.reverse.Nodup :=
  List.pairwise_reverse.mpr (List.Pairwise.imp (fun hab => Ne.symm hab) h)

theorem zip_reverse_eq {α β} : ∀ (a : List α) (b : List β), a.length = b.length →
    (a.zip b).reverse = a.reverse.zip b.reverse
  | [], [], _ => rfl
  | x :: a, y :: b, h => by
    have h' : a.length = b.length := by simpa using h
    simp only [List.zip_cons_cons, List.reverse_cons]
    rw [zip_reverse_eq a b h', List.zip_append (by simp [h'])]
    rfl

abbrev bindAll (l : List (Nat × Val)) (sc : List (Nat × Val)) : List (Nat × Val) :=
  l.foldl (fun sc (p : Nat × Val) => setSlot sc p.1 p.2) sc

theorem getSlot_bindAll : ∀ (l : List (Nat × Val)) (sc : List (Nat × Val)) (x : Nat), (l.map (·.1)).Nodup →
    getSlot (bindAll l sc) x = (match l.lookup x with | some v => v | none => getSlot sc x)
  | [], sc, x, _ => by simp [bindAll]
  | (k, v) :: l, sc, x, hnd => by
    simp only [List.map_cons, List.nodup_cons] at hnd
    have ih := getSlot_bindAll l (setSlot sc k v) x hnd.2
    simp only [bindAll, List.foldl_cons] at ih ⊢
    rw [ih, getSlot_setSlot]
    by_cases hx : x = k
    · subst hx
      have : l.lookup x = none := by
        rw [List.lookup_eq_none_iff]
        intro p hp
        simp only [bne_iff_ne, ne_eq]
        intro hpx
        exact hnd.1 (List.mem_map.mpr ⟨p, hp, hpx.symm⟩)
      simp [this]
    · have hb : (x == k) = false := by simp [hx]
      simp [List.lookup_cons, hb, hx]

theorem lookup_eq_some_of_mem : ∀ (l : List (Nat × Val)) (x : Nat) (v : Val), (l.map (·.1)).Nodup →
    (x, v) ∈ l → l.lookup x = some v
  | [], _, _, _, h => by cases h
  | (k, u) :: l, x, v, hnd, h => by
    simp only [List.map_cons, List.nodup_cons] at hnd
    rcases List.mem_cons.mp h with hm | hm
    · cases hm; simp
    · have hxk : x ≠ k := by
        intro hxk
        subst hxk
        exact hnd.1 (List.mem_map.mpr ⟨(x, v), hm, rfl⟩)
      have hb : (x == k) = false := by simp [hxk]
      simp only [List.lookup_cons, hb]
      exact lookup_eq_some_of_mem l x v hnd.2 hm

theorem mem_of_lookup_eq_some : ∀ (l : List (Nat × Val)) (x : Nat) (v : Val), l.lookup x = some v → (x, v) ∈ l
  | [], _, _, h => by cases h
  | (k, u) :: l, x, v, h => by
    simp only [List.lookup_cons] at h
    split at h
    · rename_i hb
      simp only [beq_iff_eq] at hb
      cases h
      subst hb
      exact List.mem_cons_self ..
    · exact List.mem_cons_of_mem _ (mem_of_lookup_eq_some l x v h)

theorem lookup_reverse (l : List (Nat × Val)) (x : Nat) (hnd : (l.map (·.1)).Nodup) :
    l.reverse.lookup x = l.lookup x := by
  have hnd' : (l.reverse.map (·.1)).Nodup := by
    rw [List.map_reverse]; exact nodup_reverse_of hnd
  cases h : l.lookup x with
  | some v =>
    exact lookup_eq_some_of_mem _ _ _ hnd' (List.mem_reverse.mpr (mem_of_lookup_eq_some _ _ _ h))
  | none =>
    cases h' : l.reverse.lookup x with
    | none => rfl
    | some v =>
      have := lookup_eq_some_of_mem _ _ _ hnd (List.mem_reverse.mp (mem_of_lookup_eq_some _ _ _ h'))
      rw [h] at this; cases this

/-- binding in reverse order gives the same scratch content -/
theorem getSlot_bindAll_reverse (l : List (Nat × Val)) (sc sc' : List (Nat × Val)) (hnd : (l.map (·.1)).Nodup)
    (hsc : ∀ x, getSlot sc x = getSlot sc' x) (x : Nat) :
    getSlot (bindAll l sc) x = getSlot (bindAll l.reverse sc') x := by
  have hnd' : (l.reverse.map (·.1)).Nodup := by
    rw [List.map_reverse]; exact nodup_reverse_of hnd
  rw [getSlot_bindAll l sc x hnd, getSlot_bindAll l.reverse sc' x hnd', lookup_reverse l x hnd, hsc x]

/-! ### valid references (by-reference discipline, stage 3)

  The by-reference parameter cells of the routines that have an activation on the call stack hold
  slot numbers `< 256` that are no parameter slot of any routine. -/

/-- a slot number that may be dereferenced -/
def okAddr (p : Prog) (s : Nat) : Prop := s < 256 ∧ s ∉ allParamSlots p

def validAt (p : Prog) (w : World) (v : Nat) : Prop := ∃ s, getSlot w.scratch v = .u s ∧ okAddr p s

/-- the by-reference parameter cells of the routines `A` hold valid references -/
def VSet (p : Prog) (A : List Nat) (w : World) : Prop :=
  ∀ f, f ∈ A → ∀ sd, findSub p f = some sd → ∀ v, v ∈ refSlots sd → validAt p w v

theorem refSlots_params {sd : SubDef} {v : Nat} (h : v ∈ refSlots sd) : v ∈ sd.params.map (·.2) := by
  unfold refSlots at h
  obtain ⟨kv, hkv, rfl⟩ := List.mem_map.mp h
  exact List.mem_map.mpr ⟨kv, (List.mem_filter.mp hkv).1, rfl⟩

theorem mem_allRefSlots {p : Prog} {f : Nat} {sd : SubDef} {v : Nat} (hsd : findSub p f = some sd)
    (h : v ∈ refSlots sd) : v ∈ allRefSlots p :=
  List.mem_flatMap.mpr ⟨sd, List.mem_of_find?_eq_some hsd, h⟩

theorem allRefSlots_params {p : Prog} {v : Nat} (h : v ∈ allRefSlots p) : v ∈ allParamSlots p := by
  obtain ⟨sd, hsd, hv⟩ := List.mem_flatMap.mp h
  exact List.mem_flatMap.mpr ⟨sd, hsd, refSlots_params hv⟩

/-- `VSet` only looks at the by-reference parameter slots -/
theorem VSet.congr {p : Prog} {A : List Nat} {w w' : World}
    (hs : ∀ s, s ∈ allRefSlots p → getSlot w'.scratch s = getSlot w.scratch s) (h : VSet p A w) : VSet p A w' := by
  intro f hf sd hsd v hv
  obtain ⟨s, h1, h2⟩ := h f hf sd hsd v hv
  exact ⟨s, by rw [hs v (mem_allRefSlots hsd hv)]; exact h1, h2⟩

theorem VSet.set {p : Prog} {A : List Nat} {w : World} {v : Nat} {x : Val} (hv : v ∉ allRefSlots p)
    (h : VSet p A w) : VSet p A { w with scratch := setSlot w.scratch v x } := by
  refine h.congr (fun s hs => ?_)
  simp only [getSlot_setSlot]
  rw [if_neg]
  intro he; subst he; exact hv hs

theorem VSet.sub {p : Prog} {A B : List Nat} {w : World} (hAB : ∀ f, f ∈ A → f ∈ B) (h : VSet p B w) : VSet p A w :=
  fun f hf => h f (hAB f hf)

end PyTealV.Proofs.C02Gen
