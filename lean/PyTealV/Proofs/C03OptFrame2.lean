/- C03 — frame property of `Avm.execPrim`, part 2 of 4 (generated list of opcodes; see C03OptFrameTac) -/
import PyTealV.Proofs.C03OptFrameTac
namespace PyTealV.Models.Optimizer
open PyTealV PyTealV.Avm
set_option linter.unusedSimpArgs false

theorem primFrame_32 : PrimFrame "substring3" := by frame_tac
theorem primFrame_33 : PrimFrame "extract" := by frame_tac
theorem primFrame_34 : PrimFrame "extract3" := by frame_tac
theorem primFrame_35 : PrimFrame "extract_uint16" := by frame_tac
theorem primFrame_36 : PrimFrame "extract_uint32" := by frame_tac
theorem primFrame_37 : PrimFrame "extract_uint64" := by frame_tac
theorem primFrame_38 : PrimFrame "getbit" := by frame_tac
theorem primFrame_39 : PrimFrame "setbit" := by frame_tac
theorem primFrame_40 : PrimFrame "getbyte" := by frame_tac
theorem primFrame_41 : PrimFrame "setbyte" := by frame_tac
theorem primFrame_42 : PrimFrame "bzero" := by frame_tac
theorem primFrame_43 : PrimFrame "replace2" := by frame_tac
theorem primFrame_44 : PrimFrame "replace3" := by frame_tac
theorem primFrame_45 : PrimFrame "base64_decode" := by frame_tac
theorem primFrame_46 : PrimFrame "b+" := by frame_tac
theorem primFrame_47 : PrimFrame "b-" := by frame_tac
theorem primFrame_48 : PrimFrame "b*" := by frame_tac
theorem primFrame_49 : PrimFrame "b/" := by frame_tac
theorem primFrame_50 : PrimFrame "b%" := by frame_tac
theorem primFrame_51 : PrimFrame "b<" := by frame_tac
theorem primFrame_52 : PrimFrame "b>" := by frame_tac
theorem primFrame_53 : PrimFrame "b<=" := by frame_tac
theorem primFrame_54 : PrimFrame "b>=" := by frame_tac
theorem primFrame_55 : PrimFrame "b==" := by frame_tac
theorem primFrame_56 : PrimFrame "b!=" := by frame_tac
theorem primFrame_57 : PrimFrame "b|" := by frame_tac
theorem primFrame_58 : PrimFrame "b&" := by frame_tac
theorem primFrame_59 : PrimFrame "b^" := by frame_tac
theorem primFrame_60 : PrimFrame "b~" := by frame_tac
theorem primFrame_61 : PrimFrame "bsqrt" := by frame_tac
theorem primFrame_62 : PrimFrame "sha256" := by frame_tac
theorem primFrame_63 : PrimFrame "keccak256" := by frame_tac

end PyTealV.Models.Optimizer
