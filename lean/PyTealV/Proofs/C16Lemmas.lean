/-
  C16 helper lemmas: what `Avm.execPrim` (the shared, trusted opcode semantics) does for the
  eleven opcodes WideRatio emits, on stacks of the shape they meet.  Nothing is redefined here:
  every lemma is `execPrim` unfolded at one literal opcode.
  (Kept in a file of its own: generating the equation lemmas of the 131-way string match in
  `execPrim` is a one-off cost of ~40 s.  Definitional unfolding must never reach an `if`
  whose condition mentions the literal 2^64 - Lean's `Nat.mul x 18446744073709551616` is
  unary - hence the abstracted `divmodw_clause` and the hypothesis-style `mkU` lemmas.)
-/
import PyTealV.Avm.Sem
namespace PyTealV.Proofs.C16
open PyTealV PyTealV.Avm

theorem exec_swap (cx : Ctx) (w : World) (a b : Val) (r : List Val) :
    execPrim cx "swap" [] w (b :: a :: r) = .ok (a :: b :: r, w) := by
  simp only [execPrim]; rfl

theorem exec_mulw (cx : Ctx) (w : World) (x y : Nat) (r : List Val) :
    execPrim cx "mulw" [] w (.u y :: .u x :: r) = .ok (.u (x * y % two64) :: .u (x * y / two64) :: r, w) := by
  simp only [execPrim]; rfl

theorem mkU_ok {n : Nat} (h : n < two64) : mkU n = .ok (.u n) := by
  unfold mkU; rw [if_pos h]

theorem mkU_err {n : Nat} (h : ¬ n < two64) : mkU n = .error (.logic "uint64 overflow") := by
  unfold mkU; rw [if_neg h]

theorem exec_mul (cx : Ctx) (w : World) (x y : Nat) (r : List Val) :
    execPrim cx "*" [] w (.u y :: .u x :: r) = (mkU (x * y) >>= fun v => pure (v :: r, w)) := by
  simp only [execPrim]; rfl

theorem exec_add (cx : Ctx) (w : World) (x y : Nat) (r : List Val) :
    execPrim cx "+" [] w (.u y :: .u x :: r) = (mkU (x + y) >>= fun v => pure (v :: r, w)) := by
  simp only [execPrim]; rfl

theorem exec_mul_ok (cx : Ctx) (w : World) (x y : Nat) (r : List Val) (h : x * y < two64) :
    execPrim cx "*" [] w (.u y :: .u x :: r) = .ok (.u (x * y) :: r, w) := by
  rw [exec_mul, mkU_ok h]; rfl

theorem exec_mul_err (cx : Ctx) (w : World) (x y : Nat) (r : List Val) (h : ¬ x * y < two64) :
    execPrim cx "*" [] w (.u y :: .u x :: r) = .error (.logic "uint64 overflow") := by
  rw [exec_mul, mkU_err h]; rfl

theorem exec_add_ok (cx : Ctx) (w : World) (x y : Nat) (r : List Val) (h : x + y < two64) :
    execPrim cx "+" [] w (.u y :: .u x :: r) = .ok (.u (x + y) :: r, w) := by
  rw [exec_add, mkU_ok h]; rfl

theorem exec_add_err (cx : Ctx) (w : World) (x y : Nat) (r : List Val) (h : ¬ x + y < two64) :
    execPrim cx "+" [] w (.u y :: .u x :: r) = .error (.logic "uint64 overflow") := by
  rw [exec_add, mkU_err h]; rfl

theorem exec_uncover2 (cx : Ctx) (w : World) (a b c : Val) (r : List Val) :
    execPrim cx "uncover" ["2"] w (c :: b :: a :: r) = .ok (a :: c :: b :: r, w) := by
  simp only [execPrim]; rfl

theorem exec_dig1 (cx : Ctx) (w : World) (a b : Val) (r : List Val) :
    execPrim cx "dig" ["1"] w (b :: a :: r) = .ok (a :: b :: a :: r, w) := by
  simp only [execPrim]; rfl

theorem exec_cover2 (cx : Ctx) (w : World) (a b c : Val) (r : List Val) :
    execPrim cx "cover" ["2"] w (c :: b :: a :: r) = .ok (b :: a :: c :: r, w) := by
  simp only [execPrim]; rfl

theorem exec_pop (cx : Ctx) (w : World) (a : Val) (r : List Val) :
    execPrim cx "pop" [] w (a :: r) = .ok (r, w) := by
  simp only [execPrim]; rfl

theorem exec_not (cx : Ctx) (w : World) (x : Nat) (r : List Val) :
    execPrim cx "!" [] w (.u x :: r) = .ok (boolV (x = 0) :: r, w) := by
  simp only [execPrim]; rfl

theorem exec_assert (cx : Ctx) (w : World) (x : Nat) (r : List Val) :
    execPrim cx "assert" [] w (.u x :: r) =
      if x ≠ 0 then .ok (r, w) else .error (.logic "assert failed") := by
  simp only [execPrim]; rfl

/-- the `divmodw` clause with the word size abstracted -/
theorem divmodw_clause (T : Nat) (w : World) (a b c d : Nat) (r : List Val) :
  ((do
      let __x ← pop4 (Val.u d :: Val.u c :: Val.u b :: Val.u a :: r)
      let a ← asU __x.fst
      let b ← asU __x.2.fst
      let c ← asU __x.2.2.fst
      let d ← asU __x.2.2.2.fst
      if c * T + d = 0 then do
          throw (Fail.logic "divmodw by zero")
          pure
              (Val.u ((a * T + b) % (c * T + d) % T) ::
                  Val.u ((a * T + b) % (c * T + d) / T) ::
                    Val.u ((a * T + b) / (c * T + d) % T) ::
                      Val.u ((a * T + b) / (c * T + d) / T) :: __x.2.2.2.snd,
                w)
        else
          pure
            (Val.u ((a * T + b) % (c * T + d) % T) ::
                Val.u ((a * T + b) % (c * T + d) / T) ::
                  Val.u ((a * T + b) / (c * T + d) % T) ::
                    Val.u ((a * T + b) / (c * T + d) / T) :: __x.2.2.2.snd,
              w)) : M (List Val × World)) =
    if c * T + d = 0 then .error (.logic "divmodw by zero") else
      .ok (.u ((a * T + b) % (c * T + d) % T) :: .u ((a * T + b) % (c * T + d) / T) ::
           .u ((a * T + b) / (c * T + d) % T) :: .u ((a * T + b) / (c * T + d) / T) :: r, w) := by
  rfl

theorem exec_divmodw (cx : Ctx) (w : World) (a b c d : Nat) (r : List Val) :
    execPrim cx "divmodw" [] w (.u d :: .u c :: .u b :: .u a :: r) =
      if c * two64 + d = 0 then .error (.logic "divmodw by zero") else
      .ok (.u ((a * two64 + b) % (c * two64 + d) % two64) :: .u ((a * two64 + b) % (c * two64 + d) / two64) ::
           .u ((a * two64 + b) / (c * two64 + d) % two64) :: .u ((a * two64 + b) / (c * two64 + d) / two64) :: r, w) := by
  simp only [execPrim]
  exact divmodw_clause two64 w a b c d r

end PyTealV.Proofs.C16
