/-
  C04 — soundness of `Flow.wf` for legality: a program accepted by `wf` at (v, mode), without
  template placeholders and without constant-block loads, never fails with `.illegal _` when run
  in a context of that mode.  Table-driven: `OpSpec.table` is tied to the `.illegal` sites of
  `execPrim` (`natSiteTable`, `strSiteTable`, `modeSiteTable`) by `decide`.
-/
import PyTealV.Proofs.C04Flow
namespace PyTealV.Proofs.C04L
open PyTealV PyTealV.Avm PyTealV.Util PyTealV.Check.Flow

/-! ## The spec table covers the `.illegal` sites of `execPrim` -/

def natCompat : Bool :=
  natSiteList.all (fun e => match OpSpec.find e.1 with
    | some o => !o.lit && o.imms[e.2]? == some .u8
    | none => true)

def strCompat : Bool :=
  strSiteList.all (fun e => match OpSpec.find e.1 with
    | some o => !o.lit && decide (e.2 < o.imms.length)
    | none => true)

def modeCompat : Bool :=
  modeSiteList.all (fun e => match OpSpec.find e.1 with
    | some o => (match e.2 with
      | .app => !o.sig
      | .sig => !o.app)
    | none => true)

theorem natCompat_ok : natCompat = true := by decide +kernel
theorem strCompat_ok : strCompat = true := by decide +kernel
theorem modeCompat_ok : modeCompat = true := by decide +kernel

/-! ## Immediates -/

theorem immsOK_get {v : Nat} : ∀ {ks : List OpSpec.Imm} {imms : List String} {i : Nat} {k : OpSpec.Imm},
    immsOK v ks imms = true → ks[i]? = some k → ∃ s, imms[i]? = some s ∧ immOK v k s = true
  | [], [], i, k, _, hk => by simp at hk
  | [], _ :: _, _, _, h, _ => by simp [immsOK] at h
  | _ :: _, [], _, _, h, _ => by simp [immsOK] at h
  | k0 :: ks, s0 :: ss, 0, k, h, hk => by
    simp only [immsOK, Bool.and_eq_true] at h
    simp only [List.getElem?_cons_zero, Option.some.injEq] at hk
    subst hk
    exact ⟨s0, by simp, h.1⟩
  | k0 :: ks, s0 :: ss, i + 1, k, h, hk => by
    simp only [immsOK, Bool.and_eq_true] at h
    simp only [List.getElem?_cons_succ] at hk
    obtain ⟨s, hs, hok⟩ := immsOK_get h.2 hk
    exact ⟨s, by simpa using hs, hok⟩

theorem immsOK_length {v : Nat} : ∀ {ks : List OpSpec.Imm} {imms : List String},
    immsOK v ks imms = true → imms.length = ks.length
  | [], [], _ => rfl
  | [], _ :: _, h => by simp [immsOK] at h
  | _ :: _, [], h => by simp [immsOK] at h
  | _ :: ks, _ :: ss, h => by
    simp only [immsOK, Bool.and_eq_true] at h
    simp [immsOK_length h.2]

/-- failures other than `.illegal _` -/
def NoIll (e : Fail) : Prop := ∀ msg, e ≠ .illegal msg

theorem noIll_data : DataOK NoIll := ⟨nofun, fun _ => nofun, fun _ => nofun, fun _ => nofun⟩
theorem noIll_frame (m : String) : NoIll (.frame m) := nofun

/-- **Legal immediates are exactly what `execPrim` can read, and mode-restricted opcodes pass the
    mode test**: an `OpSpec`-legal (opcode, immediates) pair never makes `execPrim` raise `.illegal`. -/
theorem prim_legal_errs {v : Nat} {cx : Ctx} {op : String} {imms : List String}
    (h : primLegal v cx.mode op imms = true) (w : World) (st : List Val)
    (hnl : ∀ o, OpSpec.find op = some o → o.lit = false) :
    Errs NoIll (execPrim cx op imms w st) := by
  unfold primLegal at h
  cases hfind : OpSpec.find op with
  | none => rw [hfind] at h; cases h
  | some o =>
    rw [hfind] at h
    have hlit := hnl o hfind
    simp only [hlit, Bool.false_or, Bool.and_eq_true, decide_eq_true_eq] at h
    obtain ⟨⟨_, hmode⟩, himms⟩ := h
    apply execPrim_errs noIll_data
    · -- numeric immediates
      intro i hi
      have hc := natCompat_ok
      simp only [natCompat, List.all_eq_true] at hc
      have := hc _ hi
      simp only [hfind, Bool.and_eq_true, beq_iff_eq] at this
      obtain ⟨s, hs, hok⟩ := immsOK_get himms this.2
      simp only [immOK] at hok
      cases hp : parseNat s with
      | none => rw [hp] at hok; cases hok
      | some n =>
        have : immNat op imms i = .ok n := by simp [immNat, hs, hp]
        rw [this]; exact Errs.ok _
    · -- named immediates
      intro i hi
      have hc := strCompat_ok
      simp only [strCompat, List.all_eq_true] at hc
      have := hc _ hi
      simp only [hfind, Bool.and_eq_true, decide_eq_true_eq] at this
      have hlen := immsOK_length himms
      have hlt : i < imms.length := by omega
      have : immStr op imms i = .ok imms[i] := by simp [immStr, hlt]
      rw [this]; exact Errs.ok _
    · -- run mode
      intro m hm hne
      exfalso
      have hc := modeCompat_ok
      simp only [modeCompat, List.all_eq_true] at hc
      have := hc _ hm
      simp only [hfind] at this
      cases m <;> cases hcm : cx.mode <;> simp_all [modeOK]

/-! ## Constant blocks: what the prefix installed stays installed -/

def consts (s : St) : List Nat × List Bytes := (s.ms.intc, s.ms.bytec)

theorem pushV_consts {m m' : MS} {v : Val} (h : pushV m v = .ok m') : m'.intc = m.intc ∧ m'.bytec = m.bytec := by
  unfold pushV at h
  split at h
  · cases h; exact ⟨rfl, rfl⟩
  · cases h

theorem execSimple_consts {cx : Ctx} {i : Instr} {m m' : MS} (h : execSimple cx i m = some (.ok m')) :
    (m'.intc, m'.bytec) = updConsts (m.intc, m.bytec) i := by
  cases i <;> simp only [execSimple, Option.some.injEq, reduceCtorEq, updConsts] at h ⊢
  case label => cases h; rfl
  case pragma => cases h; rfl
  case intcblock vs => cases h; rfl
  case bytecblock vs => cases h; rfl
  case intc k =>
    split at h
    · have := pushV_consts h; rw [this.1, this.2]
    · cases h
  case bytec k =>
    split at h
    · have := pushV_consts h; rw [this.1, this.2]
    · cases h
  case pushInt n => have := pushV_consts h; rw [this.1, this.2]
  case pushBytes b => have := pushV_consts h; rw [this.1, this.2]
  case ret =>
    split at h
    · split at h <;> cases h
    · cases h
  case load n =>
    split at h
    · have := pushV_consts h; rw [this.1, this.2]
    · cases h
  case store n =>
    repeat' split at h
    all_goals first | (cases h; rfl) | cases h
  case prim op imms =>
    repeat' split at h
    all_goals first | (cases h; rfl) | cases h

theorem constsOKAt_at {p : Program} {k0 : Nat} (h : constsOKAt p k0 = true) {pc : Nat} {ln : Line}
    (hl : p[pc]? = some ln) :
    (if pc < k0 then isPrefixLine ln else (!isBlockLine ln && constLoadOK (constsUpto p k0) ln)) = true := by
  simp only [constsOKAt, List.all_eq_true, List.mem_range] at h
  have hlt : pc < p.size := by
    rcases Nat.lt_or_ge pc p.size with h' | h'
    · exact h'
    · rw [Array.getElem?_eq_none h'] at hl; cases hl
  have := h pc hlt
  rw [hl] at this
  exact this

theorem label_ge {p : Program} {k0 : Nat} (h : constsOKAt p k0 = true) {l : String} {t : Nat}
    (hf : findLabel p l = some t) : k0 ≤ t := by
  unfold findLabel at hf
  obtain ⟨ht, hp, _⟩ := Array.findIdx?_eq_some_iff_getElem.mp hf
  have hl : p[t]? = some p[t] := by simp [ht]
  have := constsOKAt_at h hl
  rcases Nat.lt_or_ge t k0 with hlt | hge
  · rw [if_pos hlt] at this
    unfold isPrefixLine at this
    cases hq : p[t].instr <;> rw [hq] at hp this <;> simp at hp this
  · exact hge

/-- before the split point: straight-line execution of the prefix; from it on: the blocks of the
    prefix are installed and every frame returns behind the prefix -/
def CInv (p : Program) (k0 : Nat) (s : St) : Prop :=
  (s.pc < k0 → s.calls = [] ∧ consts s = constsUpto p s.pc) ∧
  (k0 ≤ s.pc → consts s = constsUpto p k0 ∧ ∀ f ∈ s.calls, k0 ≤ f.retPc)

theorem cinv_init (p : Program) (k0 : Nat) (w0 : World) : CInv p k0 { ms := { world := w0 } } := by
  constructor
  · intro _; exact ⟨rfl, rfl⟩
  · intro h
    have : k0 = 0 := Nat.le_zero.mp h
    subst this
    exact ⟨rfl, by intro f hf; cases hf⟩

theorem jump_next {p : Program} {l : String} {s s' : St} (h : jump p l s = .next s') :
    ∃ t, findLabel p l = some t ∧ s' = { s with pc := t } := by
  unfold jump at h
  split at h
  · rename_i t ht; cases h; exact ⟨t, ht, rfl⟩
  · cases h

theorem updConsts_nonblock {c : List Nat × List Bytes} {ln : Line} (h : isBlockLine ln = false) :
    updConsts c ln.instr = c := by
  unfold isBlockLine at h
  unfold updConsts
  split <;> simp_all

theorem step_cinv {cx : Ctx} {p : Program} {k0 : Nat} (hk : constsOKAt p k0 = true) {s s' : St}
    (hi : CInv p k0 s) (hst : step cx p s = .next s') : CInv p k0 s' := by
  unfold step at hst
  cases hln : p[s.pc]? with
  | none => rw [hln] at hst; dsimp only at hst; split at hst <;> cases hst
  | some ln =>
    rw [hln] at hst
    dsimp only at hst
    have hline := constsOKAt_at hk hln
    -- the straight-line case, shared
    have straight : ∀ m : MS, (m.intc, m.bytec) = updConsts (s.ms.intc, s.ms.bytec) ln.instr →
        CInv p k0 { s with pc := s.pc + 1, ms := m } := by
      intro m hm
      rcases Nat.lt_or_ge s.pc k0 with hlt | hge
      · obtain ⟨hcalls, hcs⟩ := hi.1 hlt
        have hnext : (m.intc, m.bytec) = constsUpto p (s.pc + 1) := by
          rw [hm]; simp only [constsUpto, hln]; rw [← hcs]; rfl
        constructor
        · intro _; exact ⟨hcalls, hnext⟩
        · intro h2
          have : s.pc + 1 = k0 := by simp only at h2; omega
          refine ⟨by show (m.intc, m.bytec) = _; rw [hnext, this], ?_⟩
          intro f hf; simp only [hcalls] at hf; cases hf
      · obtain ⟨hcs, hfr⟩ := hi.2 hge
        rw [if_neg (by omega)] at hline
        simp only [Bool.and_eq_true, Bool.not_eq_true'] at hline
        constructor
        · intro h2; simp only at h2; omega
        · intro _
          refine ⟨?_, hfr⟩
          show (m.intc, m.bytec) = _
          rw [hm, updConsts_nonblock hline.1]; exact hcs
    cases hes : execSimple cx ln.instr s.ms with
    | some r =>
      rw [hes] at hst
      cases r with
      | halt o => cases hst
      | ok m =>
        dsimp only at hst
        cases hst
        exact straight m (execSimple_consts hes)
    | none =>
      rw [hes] at hst
      dsimp only at hst
      -- control instructions are no prefix lines: we are behind the prefix
      have hge : k0 ≤ s.pc := by
        rcases Nat.lt_or_ge s.pc k0 with hlt | hge
        · rw [if_pos hlt] at hline
          exfalso
          unfold isPrefixLine at hline
          cases hq : ln.instr <;> rw [hq] at hes hline <;> simp [execSimple] at hes hline
        · exact hge
      obtain ⟨hcs, hfr⟩ := hi.2 hge
      have keep : ∀ (t : Nat) (st : List Val) (cs : List Frame), k0 ≤ t → (∀ f ∈ cs, k0 ≤ f.retPc) →
          CInv p k0 { pc := t, calls := cs, ms := { s.ms with stack := st } } := by
        intro t st cs ht hcs'
        exact ⟨fun h => absurd ht (by simp only at h; omega), fun _ => ⟨hcs, hcs'⟩⟩
      have keep0 : ∀ (t : Nat) (cs : List Frame), k0 ≤ t → (∀ f ∈ cs, k0 ≤ f.retPc) →
          CInv p k0 { pc := t, calls := cs, ms := s.ms } := by
        intro t cs ht hcs'
        exact ⟨fun h => absurd ht (by simp only at h; omega), fun _ => ⟨hcs, hcs'⟩⟩
      cases hinstr : ln.instr <;> rw [hinstr] at hst hes <;> simp only [execSimple, reduceCtorEq] at hes <;> dsimp only at hst
      case b l =>
        obtain ⟨t, ht, rfl⟩ := jump_next hst
        exact keep0 t _ (label_ge hk ht) hfr
      case bz l =>
        split at hst
        · obtain ⟨t, ht, rfl⟩ := jump_next hst
          exact keep t _ _ (label_ge hk ht) hfr
        · cases hst; exact keep _ _ _ (by omega) hfr
        · cases hst
        · cases hst
      case bnz l =>
        split at hst
        · cases hst; exact keep _ _ _ (by omega) hfr
        · obtain ⟨t, ht, rfl⟩ := jump_next hst
          exact keep t _ _ (label_ge hk ht) hfr
        · cases hst
        · cases hst
      case callsub l =>
        obtain ⟨t, ht, rfl⟩ := jump_next hst
        refine keep0 t _ (label_ge hk ht) ?_
        intro f hf
        rcases List.mem_cons.mp hf with rfl | hf'
        · show k0 ≤ s.pc + 1; omega
        · exact hfr f hf'
      case retsub =>
        cases hcalls : s.calls with
        | nil => rw [hcalls] at hst; cases hst
        | cons f cs =>
          rw [hcalls] at hst hfr
          dsimp only at hst
          have hf := hfr f (by simp)
          have hcs' : ∀ g ∈ cs, k0 ≤ g.retPc := fun g hg => hfr g (by simp [hg])
          split at hst
          · cases hst; exact keep0 _ _ hf hcs'
          · split at hst
            · cases hst
            · split at hst
              · cases hst
              · cases hst; exact keep _ _ _ hf hcs'
      case proto a r =>
        cases hcalls : s.calls with
        | nil => rw [hcalls] at hst; cases hst
        | cons f cs =>
          rw [hcalls] at hst hfr
          dsimp only at hst
          split at hst
          · cases hst
          · split at hst
            · cases hst
            · cases hst
              refine keep0 _ _ (by omega) ?_
              intro g hg
              rcases List.mem_cons.mp hg with rfl | hg'
              · exact hfr f (by simp)
              · exact hfr g (by simp [hg'])
      case frameDig i =>
        cases hcalls : s.calls with
        | nil => rw [hcalls] at hst; cases hst
        | cons f cs =>
          rw [hcalls] at hst
          dsimp only at hst
          repeat' split at hst
          all_goals try (cases hst; done)
          cases hst
          rename_i m hm
          have := pushV_consts hm
          refine ⟨fun h => by simp only at h; omega, fun _ => ⟨?_, ?_⟩⟩
          · show (m.intc, m.bytec) = _; rw [this.1, this.2]; exact hcs
          · rw [hcalls] at hfr; exact hfr
      case frameBury i =>
        cases hcalls : s.calls with
        | nil => rw [hcalls] at hst; cases hst
        | cons f cs =>
          rw [hcalls] at hst
          dsimp only at hst
          repeat' split at hst
          all_goals try (cases hst; done)
          cases hst
          rw [hcalls] at hfr
          exact keep _ _ _ (by omega) hfr

/-! ## Lines, steps, runs -/

theorem allLegal_at {v : Nat} {m : Mode} {p : Program} (h : allLegal v m p = true) {pc : Nat} {ln : Line}
    (hl : p[pc]? = some ln) : pc = 0 ∨ lineLegal v m ln = true := by
  simp only [allLegal, List.all_eq_true, List.mem_range] at h
  have hlt : pc < p.size := by
    rcases Nat.lt_or_ge pc p.size with h' | h'
    · exact h'
    · rw [Array.getElem?_eq_none h'] at hl; cases hl
  have := h pc hlt
  rw [hl] at this
  simpa using this

theorem mem_of_getElem? {p : Program} {pc : Nat} {ln : Line} (hl : p[pc]? = some ln) : ln ∈ p.toList := by
  have := Array.mem_of_getElem? hl
  exact Array.mem_toList_iff.mpr this

/-- the per-line obligations of the legality run theorem -/
theorem simpleOK_legal {p : Program} {v : Nat} {mode : Mode} {cx : Ctx}
    (hp : pragmaOK p v = true) (hl : allLegal v mode p = true)
    (ht : hasTemplates p = false) (hcon : constsOK p = true) (hm : cx.mode = mode)
    (s : St) (hJ : hasConstLoads p = true → CInv p (prefixLen p) s)
    (ln : Line) (hln : p[s.pc]? = some ln) : SimpleOK NoIll cx ln.instr s.ms := by
  have hmem := mem_of_getElem? hln
  have htl : isTmplLine ln = false := by
    simp only [hasTemplates, List.any_eq_false] at ht
    simpa using ht ln hmem
  -- a constant-block load at the current pc: we are behind the prefix and the index is inside the block
  have hload : isConstLoad ln = true →
      constLoadOK (consts s) ln = true := by
    intro hcl
    have hhas : hasConstLoads p = true := by
      simp only [hasConstLoads, List.any_eq_true]
      exact ⟨ln, hmem, hcl⟩
    have hk : constsOKAt p (prefixLen p) = true := by
      simp only [constsOK, hhas, Bool.not_true, Bool.false_or] at hcon; exact hcon
    have hline := constsOKAt_at hk hln
    have hci := hJ hhas
    rcases Nat.lt_or_ge s.pc (prefixLen p) with hlt | hge
    · rw [if_pos hlt] at hline
      exfalso
      unfold isPrefixLine at hline
      unfold isConstLoad at hcl
      cases hq : ln.instr <;> rw [hq] at hcl hline <;> simp at hcl hline
    · rw [if_neg (by omega)] at hline
      simp only [Bool.and_eq_true] at hline
      rw [(hci.2 hge).1]; exact hline.2
  rcases allLegal_at hl hln with h0 | hleg
  · -- the pragma line
    rw [h0] at hln
    simp only [pragmaOK, hln, decide_eq_true_eq] at hp
    rw [hp]; trivial
  · cases hinstr : ln.instr <;> simp only [SimpleOK] <;>
      simp only [isTmplLine, hinstr, reduceCtorEq] at htl
    case intc i =>
      have := hload (by simp [isConstLoad, hinstr])
      simp only [constLoadOK, hinstr, consts] at this
      exact Or.inl (of_decide_eq_true this)
    case bytec i =>
      have := hload (by simp [isConstLoad, hinstr])
      simp only [constLoadOK, hinstr, consts] at this
      exact Or.inl (of_decide_eq_true this)
    case prim op imms =>
      simp only [lineLegal, hinstr, instrOK, Bool.and_eq_true, Bool.not_eq_true', beq_iff_eq] at hleg
      obtain ⟨hpl, ⟨hlit, hop⟩, himm⟩ := hleg
      rw [hop, himm, ← hm] at hpl
      refine prim_legal_errs hpl _ _ ?_
      intro o ho
      rw [hop, ho] at hlit
      exact hlit
    case load n =>
      simp only [lineLegal, hinstr, instrOK, Bool.and_eq_true, decide_eq_true_eq] at hleg
      exact Or.inl hleg.2.2
    case store n =>
      simp only [lineLegal, hinstr, instrOK, Bool.and_eq_true, decide_eq_true_eq] at hleg
      exact Or.inl hleg.2.2

theorem wf_parts {p : Program} {v : Nat} {mode : Mode} (h : wf p v mode = true) :
    pragmaOK p v = true ∧ allLegal v mode p = true ∧ labelsOK p = true ∧ constsOK p = true ∧
      closed p (colors p) = true := by
  simp only [wf, Bool.and_eq_true] at h
  exact ⟨h.1.1.1.1, h.1.1.1.2, h.1.1.2, h.1.2, h.2⟩

/-- **Legality soundness.**  A program accepted by `wf` at (v, mode) that contains no template
    placeholder, run in a context of that mode, never fails with `.illegal _` — no unknown opcode,
    no missing or malformed immediate, no opcode outside its mode, no scratch slot above 255, no
    constant-block load beyond the installed block — for every initial world and every fuel. -/
theorem wf_sound_illegal {p : Program} {v : Nat} {mode : Mode} (h : wf p v mode = true)
    (ht : hasTemplates p = false) :
    ∀ (cx : Ctx), cx.mode = mode → ∀ (fuel : Nat) (w0 : World) (msg : String),
      Avm.run cx p fuel w0 ≠ .fail (.illegal msg) := by
  intro cx hm fuel w0 msg he
  obtain ⟨hp, hl, _, hcon, hc⟩ := wf_parts h
  have := runFrom_good2 noIll_data (fun m _ => noIll_frame m) hc
    (fun s => hasConstLoads p = true → CInv p (prefixLen p) s)
    (fun s s' hj hst hhas => by
      have hk : constsOKAt p (prefixLen p) = true := by
        simp only [constsOK, hhas, Bool.not_true, Bool.false_or] at hcon; exact hcon
      exact step_cinv hk (hj hhas) hst)
    (fun s ln hj hln => simpleOK_legal hp hl ht hcon hm s hj ln hln) fuel _ (inv_init hc w0)
    (fun _ => cinv_init p (prefixLen p) w0)
  exact this _ he msg rfl

end PyTealV.Proofs.C04L
