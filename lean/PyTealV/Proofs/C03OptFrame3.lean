/- C03 — frame property of `Avm.execPrim`, part 3 of 4 (generated list of opcodes; see C03OptFrameTac) -/
import PyTealV.Proofs.C03OptFrameTac
namespace PyTealV.Models.Optimizer
open PyTealV PyTealV.Avm
set_option linter.unusedSimpArgs false

theorem primFrame_64 : PrimFrame "sha512_256" := by frame_tac
theorem primFrame_65 : PrimFrame "sha3_256" := by frame_tac
theorem primFrame_66 : PrimFrame "ed25519verify" := by frame_tac
theorem primFrame_67 : PrimFrame "ed25519verify_bare" := by frame_tac
theorem primFrame_68 : PrimFrame "pop" := by frame_tac
theorem primFrame_69 : PrimFrame "dup" := by frame_tac
theorem primFrame_70 : PrimFrame "dup2" := by frame_tac
theorem primFrame_71 : PrimFrame "swap" := by frame_tac
theorem primFrame_72 : PrimFrame "select" := by frame_tac
theorem primFrame_73 : PrimFrame "dig" := by frame_tac
theorem primFrame_74 : PrimFrame "bury" := by frame_tac
theorem primFrame_75 : PrimFrame "cover" := by frame_tac
theorem primFrame_76 : PrimFrame "uncover" := by frame_tac
theorem primFrame_77 : PrimFrame "popn" := by frame_tac
theorem primFrame_78 : PrimFrame "dupn" := by frame_tac
theorem primFrame_79 : PrimFrame "assert" := by frame_tac
theorem primFrame_80 : PrimFrame "txn" := by frame_tac
theorem primFrame_81 : PrimFrame "txna" := by frame_tac
theorem primFrame_82 : PrimFrame "txnas" := by frame_tac
theorem primFrame_83 : PrimFrame "gtxn" := by frame_tac
theorem primFrame_84 : PrimFrame "gtxna" := by frame_tac
theorem primFrame_85 : PrimFrame "gtxnas" := by frame_tac
theorem primFrame_86 : PrimFrame "gtxns" := by frame_tac
theorem primFrame_87 : PrimFrame "gtxnsa" := by frame_tac
theorem primFrame_88 : PrimFrame "gtxnsas" := by frame_tac
theorem primFrame_89 : PrimFrame "global" := by frame_tac
theorem primFrame_90 : PrimFrame "arg" := by frame_tac
theorem primFrame_91 : PrimFrame "arg_0" := by frame_tac
theorem primFrame_92 : PrimFrame "arg_1" := by frame_tac
theorem primFrame_93 : PrimFrame "arg_2" := by frame_tac
theorem primFrame_94 : PrimFrame "arg_3" := by frame_tac
theorem primFrame_95 : PrimFrame "args" := by frame_tac

end PyTealV.Models.Optimizer
