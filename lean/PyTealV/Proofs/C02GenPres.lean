/-
  C02Gen (part 9): a footprint theorem for the source semantics, used for the frame-pointer
  convention.  `Src.eval` keeps by-value parameters in scratch cells; the generated code keeps them
  in the stack frame.  For the two to agree when a parameter is read after a call, the parameter
  cells of the calling activation must be intact after the call: either the callee is declared
  re-entrant (then `Src.eval` saves and restores the caller's locals, parameters included), or the
  callee cannot reach the caller — then nothing that runs during the call writes those cells:

  `pres_all`: let `T` be a set of routines closed under "calls", and `S` a set of parameter slots
  that are not parameters of any routine of `T`.  Every evaluation of an arity-typed tree whose
  calls go to routines of `T` (in particular: of the body of a routine of `T`) leaves the cells `S`
  unchanged.  (Trees of the fragment never store into a parameter slot, and the opcodes of the
  fragment do not address scratch space by a run-time value once parameter slots are ignored.)
-/
import PyTealV.Proofs.C02GenSpill
import PyTealV.Proofs.C02GenProg
namespace PyTealV.Proofs.C02Gen
open PyTealV PyTealV.Avm PyTealV.Src PyTealV.Comp PyTealV.Models.Fragment PyTealV.Models.FragmentR
open PyTealV.Proofs.C02Spill (getSlot_setSlot)

/-- the cells `S` hold the same values in `w'` as in `w` -/
def Keep (S : List Nat) (w w' : World) : Prop := ∀ s ∈ S, getSlot w'.scratch s = getSlot w.scratch s

theorem Keep.refl (S : List Nat) (w : World) : Keep S w w := fun _ _ => rfl
theorem Keep.trans {S : List Nat} {a b c : World} (h1 : Keep S a b) (h2 : Keep S b c) : Keep S a c :=
  fun s hs => (h2 s hs).trans (h1 s hs)

/-- what the footprint theorem assumes about the program and the sets `S`, `T` -/
structure PresCtx (cx : Ctx) (p : Prog) (S T : List Nat) : Prop where
  /-- `S` consists of parameter slots -/
  sub : ∀ s ∈ S, s ∈ allParamSlots p
  /-- every routine of `T` is declared, has an arity-typed body, calls routines of `T` only, and
      none of its parameter slots is in `S` -/
  body : ∀ g ∈ T, ∃ sd, findSub p g = some sd ∧
    wtR (subK true p sd) false true (if sd.hasRet then 1 else 0) sd.body = true ∧
    (∀ g' ∈ okCallsOf p sd, g' ∈ T) ∧ (∀ kv ∈ sd.params, kv.2 ∉ S)

/-- the typing context of a tree whose calls stay inside `T` -/
structure KT (p : Prog) (T : List Nat) (K : RK) : Prop where
  ign : K.ign = allParamSlots p
  calls : ∃ l, K.okCalls = some l ∧ ∀ g ∈ l, g ∈ T
  callees : K.callees = calleesOf p
  strict : K.strict = false

section
variable {cx : Ctx} {p : Prog} {S T : List Nat}

/-- an opcode of the fragment leaves the cells `S` alone -/
theorem keep_prim (hC : PresCtx cx p S T) {K : RK} (hK : KT p T K) {op : String} {k n : Nat}
    (hsig : primSigK K op = some (k, n)) {imms : List String} {w w2 : World} {st st' : List Val}
    (h : execPrim cx op imms w st = .ok (st', w2)) : Keep S w w2 := by
  intro s hs
  exact execPrim_ign hK.strict hsig cx imms h s (hK.ign ▸ hC.sub s hs)

theorem keep_set {K : RK} (hC : PresCtx cx p S T) (hK : KT p T K) {w : World} {v : Nat} {x : Val}
    (hv : v ∉ K.ign) : Keep S w { w with scratch := setSlot w.scratch v x } := by
  intro s hs
  simp only [getSlot_setSlot]
  rw [if_neg]
  intro h; subst h; exact hv (hK.ign ▸ hC.sub s hs)

/-- the six evaluators leave `S` alone, by induction on the fuel -/
structure PresAll (cx : Ctx) (p : Prog) (S T : List Nat) (fuel : Nat) : Prop where
  ev : ∀ cur e w r w' K bc rc n, KT p T K → wtR K bc rc n e = true →
    eval ⟨cx, p, cur⟩ fuel e w = (r, w') → Keep S w w'
  args : ∀ cur es w acc r w' K, KT p T K → wtRArgs K es = true →
    evalArgs ⟨cx, p, cur⟩ fuel es w acc = (r, w') → Keep S w w'
  seq : ∀ cur es w r w' K bc rc n, KT p T K → wtRSeq K bc rc n es = true →
    evalSeq ⟨cx, p, cur⟩ fuel es w = (r, w') → Keep S w w'
  cond : ∀ cur arms w r w' K bc rc n, KT p T K → wtRArms K bc rc n arms = true →
    evalCond ⟨cx, p, cur⟩ fuel arms w = (r, w') → Keep S w w'
  forL : ∀ cur c st d w r w' K rc, KT p T K → wtR K false false 1 c = true → wtR K false rc 0 st = true →
    wtR K true rc 0 d = true → evalForLoop ⟨cx, p, cur⟩ fuel c st d w = (r, w') → Keep S w w'
  op : ∀ cur o es w r w' K, KT p T K → wtRArgs K es = true → Models.Optimizer.framedOps.contains o = true →
    evalOp ⟨cx, p, cur⟩ fuel o es w = (r, w') → Keep S w w'

theorem presAll_zero : PresAll cx p S T 0 where
  ev := by intro cur e w r w' K bc rc n _ _ h; simp only [eval] at h; cases h; exact .refl _ _
  args := by intro cur es w acc r w' K _ _ h; simp only [evalArgs] at h; cases h; exact .refl _ _
  seq := by intro cur es w r w' K bc rc n _ _ h; simp only [evalSeq] at h; cases h; exact .refl _ _
  cond := by intro cur arms w r w' K bc rc n _ _ h; simp only [evalCond] at h; cases h; exact .refl _ _
  forL := by intro cur c st d w r w' K rc _ _ _ _ h; simp only [evalForLoop] at h; cases h; exact .refl _ _
  op := by intro cur o es w r w' K _ _ _ h; simp only [evalOp] at h; cases h; exact .refl _ _

end

section Step
variable {cx : Ctx} {p : Prog} {S T : List Nat} {fuel : Nat}

theorem keep_bindW (hC : PresCtx cx p S T) {sd : SubDef} (hpar : ∀ kv ∈ sd.params, kv.2 ∉ S) (st : List Val)
    (w1 : World) : Keep S w1 (bindW sd st w1) := by
  intro s hs
  rw [bindW_scratch]
  refine getSlot_foldl_notin _ _ _ ?_
  intro hmem
  obtain ⟨pr, hpr, hpr1⟩ := List.mem_map.mp hmem
  have := (List.of_mem_zip hpr).1
  obtain ⟨kv, hkv, hkv2⟩ := List.mem_map.mp this
  exact hpar kv hkv (by rw [hkv2, hpr1]; exact hs)

theorem keep_restoreW {locals : List Var} {w1 w3 : World} (h : Keep S w1 w3) : Keep S w1 (restoreW locals w1 w3) := by
  intro s hs
  rw [restoreW_get]
  split
  · rfl
  · exact h s hs

theorem pres_call (hC : PresCtx cx p S T) (ih : PresAll cx p S T fuel) {cur : Option Nat} {f : Nat} {args : List Expr}
    {w w' : World} {r : Res} {K : RK} {bc rc : Bool} {n : Nat} (hK : KT p T K)
    (hw : wtR K bc rc n (.call f args) = true)
    (h : eval ⟨cx, p, cur⟩ (fuel + 1) (.call f args) w = (r, w')) : Keep S w w' := by
  simp only [wtR, Bool.and_eq_true] at hw
  obtain ⟨⟨⟨_, hallow⟩, hwa⟩, _⟩ := hw
  obtain ⟨l, hl, hlT⟩ := hK.calls
  rw [hl] at hallow
  simp only [List.contains_eq_mem, decide_eq_true_eq] at hallow
  have hfT : f ∈ T := hlT f hallow
  obtain ⟨sd, hsd, hwtb, hcallsb, hparb⟩ := hC.body f hfT
  simp only [eval, hsd] at h
  rcases hev : evalArgs ⟨cx, p, cur⟩ fuel args w [] with ⟨r1, w1⟩
  rw [hev] at h
  have k1 := ih.args cur args w [] r1 w1 K hK hwa hev
  cases r1 with
  | vals st =>
    simp only [] at h
    by_cases hlen : st.reverse.length ≠ sd.params.length
    · rw [if_pos hlen] at h
      cases h
      exact k1
    · rw [if_neg hlen] at h
      rcases hbody : eval ⟨cx, p, some f⟩ fuel sd.body (bindW sd st w1) with ⟨r3, w3⟩
      have hKb : KT p T (subK true p sd) := ⟨rfl, ⟨_, rfl, hcallsb⟩, rfl, rfl⟩
      have k2 : Keep S w1 w3 :=
        (keep_bindW hC hparb st w1).trans (ih.ev (some f) sd.body _ r3 w3 _ false true _ hKb hwtb hbody)
      have A : Keep S w w3 := k1.trans k2
      have B : ∀ locals, Keep S w (restoreW locals w1 w3) := fun locals => k1.trans (keep_restoreW k2)
      have hbody' := hbody
      simp only [bindW] at hbody'
      rw [hbody'] at h
      simp only [] at h
      repeat' split at h
      all_goals (cases h; first | exact A | exact B _)
  | _ =>
    simp only [] at h
    cases h
    exact k1

theorem presAll_succ (hC : PresCtx cx p S T) (ih : PresAll cx p S T fuel) : PresAll cx p S T (fuel + 1) where
  ev := by
    intro cur e w r w' K bc rc n hK hw h
    -- a sub-evaluation followed by a result that keeps its world, or passes it on unchanged
    have one : ∀ (e1 : Expr) {bc1 rc1 n1}, wtR K bc1 rc1 n1 e1 = true → ∀ r1 w1,
        eval ⟨cx, p, cur⟩ fuel e1 w = (r1, w1) → Keep S w w1 :=
      fun e1 _ _ _ hw1 r1 w1 he => ih.ev cur e1 w r1 w1 K _ _ _ hK hw1 he
    cases e with
    | int _ => simp only [eval] at h; cases h; exact .refl _ _
    | bytes _ => simp only [eval] at h; cases h; exact .refl _ _
    | index _ => simp only [eval] at h; cases h; exact .refl _ _
    | load _ => simp only [eval] at h; cases h; exact .refl _ _
    | brk => simp only [eval] at h; cases h; exact .refl _ _
    | cont => simp only [eval] at h; cases h; exact .refl _ _
    | err => simp only [eval] at h; cases h; exact .refl _ _
    | prim op imms args =>
      simp only [wtR, Bool.and_eq_true] at hw
      replace hw := hw.1
      cases hsig : primSigK K op with
      | none => rw [hsig] at hw; exact absurd hw.1 (by simp)
      | some kp =>
        simp only [eval] at h
        rcases hev : evalArgs ⟨cx, p, cur⟩ fuel args w [] with ⟨r1, w1⟩
        rw [hev] at h
        have k1 := ih.args cur args w [] r1 w1 K hK hw.2 hev
        cases r1 with
        | vals st =>
          simp only [] at h
          cases hB : execPrim cx op imms w1 st with
          | error f => rw [hB] at h; cases h; exact k1
          | ok x => obtain ⟨st', w2⟩ := x; rw [hB] at h; cases h; exact k1.trans (keep_prim hC hK hsig hB)
        | _ => simp only [] at h; cases h; exact k1
    | store v e =>
      simp only [wtR, Bool.and_eq_true, Bool.not_eq_true', List.contains_eq_mem, decide_eq_false_iff_not] at hw
      replace hw := hw.1
      simp only [eval] at h
      split at h
      · cases h; exact (one e hw.2 _ _ (by assumption)).trans (keep_set hC hK hw.1.2)
      · cases h; exact one e hw.2 _ _ (by assumption)
      · exact one e hw.2 _ _ h
    | multi op imms args outs =>
      simp only [wtR, Bool.and_eq_true] at hw
      replace hw := hw.1
      cases hsig : primSigK { K with dyn := false } op with
      | none => rw [hsig] at hw; exact absurd hw.1.1.2 (by simp)
      | some kp =>
        simp only [List.all_eq_true, Bool.and_eq_true, Bool.not_eq_true', List.contains_eq_mem,
          decide_eq_false_iff_not] at hw
        simp only [eval] at h
        rcases hev : evalArgs ⟨cx, p, cur⟩ fuel args w [] with ⟨r1, w1⟩
        rw [hev] at h
        have k1 := ih.args cur args w [] r1 w1 K hK hw.2 hev
        cases r1 with
        | vals st =>
          simp only [] at h
          cases hB : execPrim cx op imms w1 st with
          | error f => rw [hB] at h; cases h; exact k1
          | ok x =>
            obtain ⟨st', w2⟩ := x
            rw [hB] at h
            simp only [] at h
            have k2 : Keep S w1 w2 := fun s hs =>
              execPrim_ign (K := { K with dyn := false }) hK.strict hsig cx imms hB s (hK.ign ▸ hC.sub s hs)
            split at h
            · cases h
              refine k1.trans (k2.trans ?_)
              intro s hs
              refine getSlot_foldl_notin _ _ _ ?_
              intro hmem
              obtain ⟨pr, hpr, hpr1⟩ := List.mem_map.mp hmem
              have := (List.of_mem_zip hpr).1
              have hout := (hw.1.2 pr.1 (List.mem_reverse.mp this)).2
              exact hout (hK.ign ▸ hC.sub _ (hpr1 ▸ hs))
            · cases h; exact k1.trans k2
        | _ => simp only [] at h; cases h; exact k1
    | seq es =>
      simp only [wtR] at hw
      simp only [eval] at h
      exact ih.seq cur es w r w' K bc rc n hK hw h
    | ite c t e =>
      simp only [eval] at h
      cases e with
      | none =>
        simp only [wtR, Bool.and_eq_true] at hw
        split at h
        · have k1 := one c hw.1.2 _ _ (by assumption)
          split at h
          · exact k1.trans (ih.ev cur t _ r w' K _ _ _ hK hw.2 h)
          · cases h; exact k1
        · cases h; exact one c hw.1.2 _ _ (by assumption)
        · exact one c hw.1.2 _ _ h
      | some e =>
        simp only [wtR, Bool.and_eq_true] at hw
        split at h
        · have k1 := one c hw.1.1 _ _ (by assumption)
          split at h
          · exact k1.trans (ih.ev cur t _ r w' K _ _ _ hK hw.1.2 h)
          · exact k1.trans (ih.ev cur e _ r w' K _ _ _ hK hw.2 h)
        · cases h; exact one c hw.1.1 _ _ (by assumption)
        · exact one c hw.1.1 _ _ h
    | cond arms =>
      simp only [wtR] at hw
      simp only [eval] at h
      exact ih.cond cur arms w r w' K bc rc n hK hw h
    | while_ c b =>
      have hw0 := hw
      simp only [wtR, Bool.and_eq_true] at hw
      simp only [eval] at h
      have again : ∀ w2 r w', eval ⟨cx, p, cur⟩ fuel (.while_ c b) w2 = (r, w') → Keep S w2 w' :=
        fun w2 r w' hh => ih.ev cur _ w2 r w' K bc rc n hK hw0 hh
      split at h
      · have k1 := one c hw.1.2 _ _ (by assumption)
        split at h
        · cases h; exact k1
        · split at h
          · exact k1.trans ((ih.ev cur b _ _ _ K _ _ _ hK hw.2 (by assumption)).trans (again _ _ _ h))
          · exact k1.trans ((ih.ev cur b _ _ _ K _ _ _ hK hw.2 (by assumption)).trans (again _ _ _ h))
          · cases h; exact k1.trans (ih.ev cur b _ _ _ K _ _ _ hK hw.2 (by assumption))
          · exact k1.trans (ih.ev cur b _ _ _ K _ _ _ hK hw.2 h)
      · cases h; exact one c hw.1.2 _ _ (by assumption)
      · cases h; exact one c hw.1.2 _ _ (by assumption)
      · exact (one c hw.1.2 _ _ (by assumption)).trans (again _ _ _ h)
      · exact one c hw.1.2 _ _ h
    | for_ i c st b =>
      simp only [wtR, Bool.and_eq_true] at hw
      simp only [eval] at h
      have loop : ∀ w2 r w', evalForLoop ⟨cx, p, cur⟩ fuel c st b w2 = (r, w') → Keep S w2 w' :=
        fun w2 r w' hh => ih.forL cur c st b w2 r w' K rc hK hw.1.1.2 hw.1.2 hw.2 hh
      split at h
      · exact (one i hw.1.1.1.2 _ _ (by assumption)).trans (loop _ _ _ h)
      · cases h; exact one i hw.1.1.1.2 _ _ (by assumption)
      · have k1 := one i hw.1.1.1.2 _ _ (by assumption)
        split at h
        · exact k1.trans ((ih.ev cur st _ _ _ K _ _ _ hK hw.1.2 (by assumption)).trans (loop _ _ _ h))
        · cases h; exact k1.trans (ih.ev cur st _ _ _ K _ _ _ hK hw.1.2 (by assumption))
        · exact k1.trans (ih.ev cur st _ _ _ K _ _ _ hK hw.1.2 h)
      · exact one i hw.1.1.1.2 _ _ h
    | assert_ c =>
      simp only [wtR, Bool.and_eq_true] at hw
      simp only [eval] at h
      split at h
      · split at h <;> (cases h; exact one c hw.2 _ _ (by assumption))
      · cases h; exact one c hw.2 _ _ (by assumption)
      · exact one c hw.2 _ _ h
    | ret e =>
      cases e with
      | none => simp only [eval] at h; cases h; exact .refl _ _
      | some e =>
        simp only [wtR, Bool.and_eq_true] at hw
        simp only [eval] at h
        split at h
        · cases h; exact one e hw.2 _ _ (by assumption)
        · cases h; exact one e hw.2 _ _ (by assumption)
        · exact one e hw.2 _ _ h
    | exit e =>
      simp only [wtR] at hw
      simp only [eval] at h
      split at h
      · cases h; exact one e hw _ _ (by assumption)
      · cases h; exact one e hw _ _ (by assumption)
      · exact one e hw _ _ h
    | call f args => exact pres_call hC ih hK hw h
    | wideRatio ns ds =>
      simp only [wtR, Bool.and_eq_true] at hw
      have hwa : wtRArgs K (ns ++ ds) = true := by rw [wtRArgs_append, hw.1.1.2, hw.1.2]; rfl
      rw [eval_wideRatio] at h
      split at h
      · cases h; exact ih.args cur (ns ++ ds) w [] _ _ K hK hwa (by assumption)
      · exact ih.args cur (ns ++ ds) w [] r w' K hK hwa h
    | substring a b c =>
      simp only [wtR, Bool.and_eq_true] at hw
      simp only [eval] at h
      exact ih.op cur _ _ w r w' K hK (by simp only [wtRArgs, hw.1.1.2, hw.1.2, hw.2, Bool.and_self]) (by decide) h
    | extract a b c =>
      simp only [wtR, Bool.and_eq_true] at hw
      simp only [eval] at h
      exact ih.op cur _ _ w r w' K hK (by simp only [wtRArgs, hw.1.1.2, hw.1.2, hw.2, Bool.and_self]) (by decide) h
    | suffix a b =>
      simp only [wtR, Bool.and_eq_true] at hw
      simp only [eval] at h
      exact ih.op cur _ _ w r w' K hK (by simp only [wtRArgs, hw.1.2, hw.2, Bool.and_self]) (by decide) h
    | note e =>
      cases e with
      | none => simp only [eval] at h; cases h; exact .refl _ _
      | some e =>
        simp only [wtR] at hw
        simp only [eval] at h
        exact ih.ev cur e w r w' K bc rc n hK hw h
    | nonce b e =>
      simp only [wtR] at hw
      simp only [eval] at h
      exact ih.ev cur e w r w' K bc rc n hK hw h
  args := by
    intro cur es w acc r w' K hK hw h
    cases es with
    | nil => simp only [evalArgs] at h; cases h; exact .refl _ _
    | cons e es =>
      simp only [wtRArgs, Bool.and_eq_true] at hw
      simp only [evalArgs] at h
      split at h
      · exact (ih.ev cur e w _ _ K _ _ _ hK hw.1 (by assumption)).trans (ih.args cur es _ _ r w' K hK hw.2 h)
      · exact ih.ev cur e w _ _ K _ _ _ hK hw.1 h
  seq := by
    intro cur es w r w' K bc rc n hK hw h
    match es with
    | [] => simp only [evalSeq] at h; cases h; exact .refl _ _
    | [e] =>
      simp only [wtRSeq] at hw
      simp only [evalSeq] at h
      exact ih.ev cur e w r w' K bc rc n hK hw h
    | e :: e2 :: es =>
      simp only [wtRSeq, Bool.and_eq_true] at hw
      simp only [evalSeq] at h
      split at h
      · exact (ih.ev cur e w _ _ K _ _ _ hK hw.1 (by assumption)).trans (ih.seq cur _ _ r w' K bc rc n hK hw.2 h)
      · exact ih.ev cur e w _ _ K _ _ _ hK hw.1 h
  cond := by
    intro cur arms w r w' K bc rc n hK hw h
    match arms with
    | [] => simp only [evalCond] at h; cases h; exact .refl _ _
    | (c, b) :: rest =>
      simp only [wtRArms, Bool.and_eq_true] at hw
      simp only [evalCond] at h
      split at h
      · have k1 := ih.ev cur c w _ _ K _ _ _ hK hw.1.1 (by assumption)
        split at h
        · exact k1.trans (ih.ev cur b _ r w' K _ _ _ hK hw.1.2 h)
        · exact k1.trans (ih.cond cur rest _ r w' K bc rc n hK hw.2 h)
      · cases h; exact ih.ev cur c w _ _ K _ _ _ hK hw.1.1 (by assumption)
      · exact ih.ev cur c w _ _ K _ _ _ hK hw.1.1 h
  forL := by
    intro cur c st d w r w' K rc hK hwc hws hwd h
    simp only [evalForLoop] at h
    have after : ∀ w2 r w', (match eval ⟨cx, p, cur⟩ fuel st w2 with
          | (.vals _, w3) => evalForLoop ⟨cx, p, cur⟩ fuel c st d w3
          | (.brk, w3) => (.vals [], w3)
          | (.cont, w3) => (.fail (.unmodelled "continue inside For step"), w3)
          | r => r) = (r, w') → Keep S w2 w' := by
      intro w2 r w' hh
      split at hh
      · exact (ih.ev cur st w2 _ _ K _ _ _ hK hws (by assumption)).trans (ih.forL cur c st d _ r w' K rc hK hwc hws hwd hh)
      · cases hh; exact ih.ev cur st w2 _ _ K _ _ _ hK hws (by assumption)
      · cases hh; exact ih.ev cur st w2 _ _ K _ _ _ hK hws (by assumption)
      · exact ih.ev cur st w2 _ _ K _ _ _ hK hws hh
    split at h
    · have k1 := ih.ev cur c w _ _ K _ _ _ hK hwc (by assumption)
      split at h
      · cases h; exact k1
      · split at h
        · exact k1.trans ((ih.ev cur d _ _ _ K _ _ _ hK hwd (by assumption)).trans (after _ _ _ h))
        · exact k1.trans ((ih.ev cur d _ _ _ K _ _ _ hK hwd (by assumption)).trans (after _ _ _ h))
        · cases h; exact k1.trans (ih.ev cur d _ _ _ K _ _ _ hK hwd (by assumption))
        · exact k1.trans (ih.ev cur d _ _ _ K _ _ _ hK hwd h)
    · cases h; exact ih.ev cur c w _ _ K _ _ _ hK hwc (by assumption)
    · cases h; exact ih.ev cur c w _ _ K _ _ _ hK hwc (by assumption)
    · cases h; exact ih.ev cur c w _ _ K _ _ _ hK hwc (by assumption)
    · exact ih.ev cur c w _ _ K _ _ _ hK hwc h
  op := by
    intro cur o es w r w' K hK hw ho h
    simp only [evalOp] at h
    rcases hev : evalArgs ⟨cx, p, cur⟩ fuel es w [] with ⟨r1, w1⟩
    rw [hev] at h
    have k1 := ih.args cur es w [] r1 w1 K hK hw hev
    cases r1 with
    | vals st =>
      simp only [] at h
      cases hB : execPrim cx o [] w1 st with
      | error f => rw [hB] at h; cases h; exact k1
      | ok x =>
        obtain ⟨st', w2⟩ := x
        rw [hB] at h
        cases h
        refine k1.trans (fun s _ => ?_)
        rw [framed_scratch ho cx [] hB]
    | _ => simp only [] at h; cases h; exact k1

/-- **Footprint theorem.** -/
theorem pres_all (hC : PresCtx cx p S T) : ∀ fuel, PresAll cx p S T fuel
  | 0 => presAll_zero
  | f + 1 => presAll_succ hC (pres_all hC f)

end Step

/-! ### the caller's parameter cells survive an allowed call (frame-pointer convention) -/

theorem nodup_flatMap_disjoint {α β} (f : α → List β) : ∀ (l : List α), (l.flatMap f).Nodup →
    ∀ a ∈ l, ∀ b ∈ l, a ≠ b → ∀ x, x ∈ f a → x ∉ f b
  | [], _, a, ha, _, _, _, _, _ => by cases ha
  | c :: l, hnd, a, ha, b, hb, hab, x, hxa => by
    rw [List.flatMap_cons, List.nodup_append] at hnd
    obtain ⟨_, hl, hdis⟩ := hnd
    rcases List.mem_cons.mp ha with rfl | ha'
    · rcases List.mem_cons.mp hb with rfl | hb'
      · exact absurd rfl hab
      · intro hxb
        exact hdis x hxa x (List.mem_flatMap.mpr ⟨b, hb', hxb⟩) rfl
    · rcases List.mem_cons.mp hb with rfl | hb'
      · intro hxb
        exact hdis x hxb x (List.mem_flatMap.mpr ⟨a, ha', hxa⟩) rfl
      · exact nodup_flatMap_disjoint f l hl a ha' b hb' hab x hxa

theorem findSub_id {p : Prog} {g : Nat} {sd : SubDef} (h : findSub p g = some sd) : sd.id = g := by
  have := List.find?_some h
  simpa using this

theorem callInv_fp_of {P : PCtx} (hfp : P.fp = true) (hdyn : P.dyn = false) (hstr : P.strict = false) (hpnd : nodupB (allParamSlots P.p) = true)
    (hsubs : ∀ f sd, findSub P.p f = some sd → Present P f → subOkC true P.p sd = true)
    (hreach : ∀ f0 sd0, findSub P.p f0 = some sd0 → Present P f0 → ∀ g ∈ okCallsOf P.p sd0,
      sd0.reenters.contains g = false → ∀ h ∈ reachSet P.p g, Present P h) : CallInv P := by
  intro X cfg K cur hR f sd st w1 fuel r3 w3 hsd hallow hlen hev hinv _
  have hpnd' : (P.p.subs.flatMap (fun sd => sd.params.map (·.2))).Nodup := nodupB_nodup _ hpnd
  cases hR with
  | main _ _ _ hi => rw [hi, PCtx.vinv, hstr]; trivial
  | sub _ hfp' => rw [hfp] at hfp'; cases hfp'
  | @subFp f0 sd0 fr cs' st0 σc hpg hfp0 hsd0 hr0 hcs hpr hbase hl0 hh hign hi hdev0 hprot0 hact0 =>
    have hpres0 : Present P f0 := RoutOK.present (.subFp hpg hfp0 hsd0 hr0 hcs hpr hbase hl0 hh hign hi hdev0 hprot0 hact0)
    rw [hi] at hinv ⊢
    refine ⟨?_, by rw [PCtx.vinv, hstr]; trivial⟩
    replace hinv := hinv.1
    have hmem0 : sd0 ∈ P.p.subs := List.mem_of_find?_eq_some hsd0
    have hok0 := hsubs f0 sd0 hsd0 hpres0
    simp only [subOkC, Bool.and_eq_true, List.all_eq_true, Bool.not_true, Bool.false_or, List.contains_eq_mem,
      decide_eq_true_eq] at hok0
    have hploc : ∀ kv ∈ sd0.params, kv.2 ∈ sd0.locals := hok0.1.2
    intro pr hprm
    have hs0 : pr.1 ∈ sd0.params.map (·.2) := (List.of_mem_zip hprm).1
    obtain ⟨kv0, hkv0, hkv02⟩ := List.mem_map.mp hs0
    -- the call is allowed: `f` is re-entrant for `f0`, or cannot reach it
    simp only [callAllowed, subK, hfp, hdyn, hstr, Bool.false_eq_true, if_false, if_true, okCallsOf, List.contains_eq_mem, decide_eq_true_eq, List.mem_filter,
      Bool.or_eq_true, Bool.and_eq_true, Bool.not_eq_true', decide_eq_false_iff_not] at hallow
    by_cases hre : sd0.reenters.contains f = true
    · -- re-entrant: the cell is restored
      simp only [srcLocals, hsd0, hre, if_true]
      rw [restoreW_get, if_pos (hkv02 ▸ hploc kv0 hkv0)]
      exact hinv pr hprm
    · have hre' : sd0.reenters.contains f = false := by simpa using hre
      simp only [srcLocals, hsd0, hre']
      have hallow0 := hallow
      obtain ⟨_, hdisj⟩ := hallow
      rcases hdisj with hc | ⟨⟨hclosed, hfT⟩, hf0T⟩
      · simp only [List.contains_eq_mem, decide_eq_true_eq] at hre; exact absurd hc hre
      · -- `f` cannot reach `f0`: nothing writes the cell during the call
        have hid0 := findSub_id hsd0
        rw [hid0] at hf0T
        simp only [closedSet, List.all_eq_true] at hclosed
        have hC : PresCtx P.cx P.p (sd0.params.map (·.2)) (reachSet P.p f) := by
          refine ⟨fun s hs => ?_, fun g hg => ?_⟩
          · obtain ⟨kv, hkv, rfl⟩ := List.mem_map.mp hs
            exact mem_allParamSlots hmem0 hkv
          · have hcg := hclosed g hg
            cases hsg : findSub P.p g with
            | none => rw [hsg] at hcg; cases hcg
            | some sdg =>
              rw [hsg] at hcg
              simp only [List.all_eq_true, List.contains_eq_mem, decide_eq_true_eq] at hcg
              have hmemg : sdg ∈ P.p.subs := List.mem_of_find?_eq_some hsg
              have hokg := hsubs g sdg hsg (hreach f0 sd0 hsd0 hpres0 f
                (by simp only [okCallsOf, List.mem_filter, Bool.or_eq_true, Bool.and_eq_true, List.contains_eq_mem,
                      decide_eq_true_eq, Bool.not_eq_true', decide_eq_false_iff_not]; exact hallow0)
                hre' g hg)
              simp only [subOkC, Bool.and_eq_true] at hokg
              refine ⟨sdg, rfl, hokg.1.1.1.1.1.1.1.1, fun g' hg' => ?_, fun kv hkv hin => ?_⟩
              · simp only [okCallsOf, List.mem_filter] at hg'
                exact hcg g' hg'.1
              · have hne : sdg ≠ sd0 := by
                  intro heq
                  have := findSub_id hsg
                  rw [heq, hid0] at this
                  rw [← this] at hg
                  exact hf0T hg
                obtain ⟨kv1, hkv1, hkv12⟩ := List.mem_map.mp hin
                exact nodup_flatMap_disjoint (fun (sd : SubDef) => sd.params.map (·.2)) P.p.subs hpnd' sdg hmemg sd0 hmem0 hne
                  kv.2 (List.mem_map.mpr ⟨kv, hkv, rfl⟩) (hkv12 ▸ List.mem_map.mpr ⟨kv1, hkv1, rfl⟩)
        obtain ⟨sdf, hsdf, hwtf, hcallsf, hparf⟩ := hC.body f hfT
        rw [hsd] at hsdf
        cases hsdf
        have hKb : KT P.p (reachSet P.p f) (subK true P.p sd) := ⟨rfl, ⟨_, rfl, hcallsf⟩, rfl, rfl⟩
        have k := (keep_bindW hC hparf st w1).trans
          ((pres_all hC fuel).ev (some f) sd.body _ r3 w3 _ false true _ hKb hwtf hev)
        have := k pr.1 hs0
        show getSlot (restoreW [] w1 w3).scratch pr.1 = pr.2
        rw [restoreW_get, if_neg (by simp), this]
        exact hinv pr hprm

/-- whole programs generated by `genProg`: every declared routine has a graph -/
theorem callInv_fp {P : PCtx} (hfp : P.fp = true) (hdyn : P.dyn = false) (hstr : P.strict = false) (hfrag : inFragmentC true P.p = true)
    (hall : ∀ f sd, findSub P.p f = some sd → Present P f) : CallInv P := by
  simp only [inFragmentC, Bool.and_eq_true, List.all_eq_true, Bool.not_true, Bool.false_or] at hfrag
  obtain ⟨⟨⟨_, hsubs⟩, _⟩, hpnd⟩ := hfrag
  refine callInv_fp_of hfp hdyn hstr hpnd (fun f sd hsd _ => hsubs sd (List.mem_of_find?_eq_some hsd)) ?_
  intro f0 sd0 hsd0 _ g hg _ h hh
  -- members of a closed set are declared
  have hg' := hg
  simp only [okCallsOf, List.mem_filter, Bool.or_eq_true, Bool.and_eq_true] at hg'
  rcases hg'.2 with hc | ⟨⟨hclosed, _⟩, _⟩
  · rename_i hre; rw [hre] at hc; cases hc
  · simp only [closedSet, List.all_eq_true] at hclosed
    have := hclosed h hh
    cases hsh : findSub P.p h with
    | none => rw [hsh] at this; cases this
    | some sdh => exact hall h sdh hsh

end PyTealV.Proofs.C02Gen
