/-
  **Renaming invariance of the source semantics.**

  The translation validators identify every source variable with the scratch slot that the real
  compiler gave it (`Check.validateMain`, `Check.renamedProg`), and the validated-compilation
  theorems (`C01.compile_correct_validated`, `C02Compile.compile_correct_validated_prog[_ref]`)
  speak about the RENAMED program.  This file closes the gap to the program the user wrote:

    `runProg_rename`: under `renameOk f p` (decidable, `Check/RenameOk.lean`), for all contexts,
    fuels and initial worlds `w0`, `w0'` related by the renaming, `Src.runProg cx p fuel w0` and
    `Src.runProg cx (renameProg f p) fuel w0'` have the same outcome constructor, the same
    verdict / return value / failure, and final worlds that are equal on effects, globals,
    locals, boxes and inner transactions and related cell by cell on scratch space
    (`WR`: cell `v` of the original run = cell `f v` of the renamed run for every variable `v`
    of the program that is no by-reference parameter cell; a by-reference parameter cell holds
    `index s` on one side and `index (f s)` on the other, or equal values if it was never bound).

  `runProg_rename_world` takes `w0' = renameWorld f (varsP p) w0`; `runProg_rename_same` takes the
  same world on both sides under `StartOk` (cell `v` and cell `f v` of `w0` agree for every variable
  of the program — in particular for the empty scratch space all uses start from:
  `runProg_rename_empty`).

  Treatment of `index` (slot NUMBERS as values): the value of `index v` changes under renaming, so
  the theorem is about programs that use such values only as references (`dOk`: argument for a
  by-reference parameter, address operand of `vloads` / `vstores`; the discipline R9 of
  `Models/FragmentR.lean` implies it) — values are related by a logical relation that is equality
  everywhere except in by-reference parameter cells and on the operand positions that expect a
  reference.  Outside the discipline the statement is false: `index_counterexample`.

  Never-called routines: `varsP p` and the per-routine checks of `renameOk` range over the main
  routine and the routines it can reach (`Check.liveSet p`, closed under calls wherever it matters
  because `dOk` rejects a declared call target outside the set) — PyTeal does not compile the others.

  What `bindingsOk` does not give: `bindingsOk_not_enough`.
-/
import PyTealV.Proofs.RenameSem
namespace PyTealV.Proofs.Rename
open PyTealV PyTealV.Avm PyTealV.Src PyTealV.Comp PyTealV.Check PyTealV.Models.FragmentR

/-! ### from the decidable check to the semantic hypotheses -/

theorem rok_of_renameOk {cx : Ctx} {p : Prog} {f : Nat → Nat} (h : renameOk f p = true) : ROk ⟨cx, p, f⟩ := by
  simp only [renameOk, injOnB, Bool.and_eq_true, List.all_eq_true] at h
  obtain ⟨⟨⟨⟨hinj, _⟩, _⟩, hsubs⟩, hvals⟩ := h
  refine ⟨?_, ?_, ?_⟩
  · intro a ha b hb hab
    have := hinj a ha b hb
    simp only [Bool.or_eq_true, bne_iff_ne, ne_eq, beq_iff_eq] at this
    rcases this with h1 | h1
    · exact absurd hab h1
    · exact h1
  · intro g sd hg hsd
    have := hsubs sd (findSub_mem hsd)
    rw [findSub_id hsd] at this
    simp only [Bool.or_eq_true, Bool.not_eq_true', List.contains_eq_mem, decide_eq_false_iff_not] at this
    simp only [RCtx.dk, rpOf, hsd]
    rcases this with h1 | h1
    · exact absurd hg h1
    · exact h1
  · intro sd hsd hl v hv
    have := hvals sd hsd
    simp only [Bool.or_eq_true, Bool.not_eq_true', List.contains_eq_mem, decide_eq_false_iff_not, List.all_eq_true] at this
    rcases this with h1 | h1
    · exact absurd hl h1
    · simpa [RCtx.R] using h1 v hv

theorem main_of_renameOk {cx : Ctx} {p : Prog} {f : Nat → Nat} (h : renameOk f p = true) :
    dOk ((⟨cx, p, f⟩ : RCtx).dk none) p.main = true := by
  simp only [renameOk, Bool.and_eq_true] at h
  exact h.1.1.2

theorem fixes_of_renameOk {p : Prog} {f : Nat → Nat} (h : renameOk f p = true) {v : Nat} (hv : v ∈ varsP p) (hlt : v < 256) :
    f v = v := by
  simp only [renameOk, Bool.and_eq_true, fixesRequested, List.all_eq_true] at h
  have := h.1.1.1.2 v hv
  simp only [Bool.or_eq_true, decide_eq_true_eq, beq_iff_eq] at this
  rcases this with h1 | h1
  · omega
  · exact h1

/-! ### outcomes -/

/-- same constructor, same verdict / return value / failure, related final worlds -/
def OutRel (C : RCtx) : Outcome → Outcome → Prop
  | .done v w, .done v' w' => v' = v ∧ WR C (fun _ => False) w w'
  | .fail f, .fail f' => f' = f
  | .outOfFuel, .outOfFuel => True
  | _, _ => False

/-- `Src.runProg` after the evaluation of the main routine -/
def outOf (x : Res × World) : Outcome :=
  match x with
  | (.exit v, w) => (match v with
      | .u _ => .done v w
      | .b _ => .fail (.typeErr "return of bytes"))
  | (.ret (some v), w) => (match v with
      | .u _ => .done v w
      | .b _ => .fail (.typeErr "return of bytes"))
  | (.vals [v], w) => (match v with
      | .u _ => .done v w
      | .b _ => .fail (.typeErr "return of bytes"))
  | (.fail (.unmodelled "fuel"), _) => .outOfFuel
  | (.fail f, _) => .fail f
  | (_, _) => .fail (.illegal "main routine ended without a value")

theorem runProg_eq (cx : Ctx) (p : Prog) (fuel : Nat) (w0 : World) :
    Src.runProg cx p fuel w0 = outOf (eval { cx := cx, prog := p } fuel p.main w0) := rfl

theorem outOf_rel {C : RCtx} (r : Res) {w w' : World} (h : WR C (fun _ => False) w w') :
    OutRel C (outOf (r, w)) (outOf (r, w')) := by
  rcases r with (_ | ⟨(_ | _), (_ | ⟨_, _⟩)⟩) | _ | _ | (_ | (_ | _)) | (_ | _) | f
  all_goals try (simp only [outOf, OutRel]; done)
  all_goals try (simp only [outOf, OutRel]; exact ⟨trivial, h⟩)
  cases f
  all_goals try (simp only [outOf, OutRel]; done)
  rename_i msg
  by_cases hm : msg = "fuel"
  · subst hm; simp only [outOf, OutRel]
  · unfold outOf
    split <;> split <;> simp_all [OutRel] <;> grind

/-! ### the theorem -/

/-- **Renaming invariance of `Src.runProg`** (initial worlds related by the renaming). -/
theorem runProg_rename (cx : Ctx) (p : Prog) (f : Nat → Nat) (h : renameOk f p = true) (fuel : Nat) (w0 w0' : World)
    (h0 : WR ⟨cx, p, f⟩ (fun _ => False) w0 w0') :
    OutRel ⟨cx, p, f⟩ (Src.runProg cx p fuel w0) (Src.runProg cx (renameProg f p) fuel w0') := by
  have hok := rok_of_renameOk (cx := cx) h
  have hm := main_of_renameOk (cx := cx) h
  have hs := (ren_all hok fuel).ev none p.main (fun _ => False) w0 w0' hm (fun v hv => by cases hv)
    (fun c hc => by cases hc)
    (fun v hv => by simp only [RCtx.D, varsP, List.mem_append]; exact .inl (.inl hv)) h0
  obtain ⟨r, w1, w1', hx, hy, hW⟩ := hs.elim
  rw [runProg_eq, runProg_eq]
  have hx' : eval { cx := cx, prog := p } fuel p.main w0 = (r, w1) := hx
  have hy' : eval { cx := cx, prog := renameProg f p } fuel (renameProg f p).main w0' = (r, w1') := hy
  rw [hx', hy']
  exact outOf_rel r hW

/-- the world whose scratch cell `f v` holds what cell `v` of `w0` holds, for the variables `D` -/
def renameWorld (f : Nat → Nat) (D : List Nat) (w0 : World) : World :=
  { w0 with scratch := D.map (fun v => (f v, getSlot w0.scratch v)) }

theorem getSlot_of_find {sc : Scratch} {s : Nat} {x : Val} (h : sc.find? (·.1 == s) = some (s, x)) : getSlot sc s = x := by
  unfold getSlot; rw [h]

theorem getSlot_renameWorld {f : Nat → Nat} {D : List Nat} (hinj : ∀ a, a ∈ D → ∀ b, b ∈ D → f a = f b → a = b) (sc : Scratch)
    {v : Nat} (hv : v ∈ D) : getSlot (D.map (fun u => (f u, getSlot sc u))) (f v) = getSlot sc v := by
  have : ∀ (L : List Nat), (∀ u, u ∈ L → u ∈ D) → v ∈ L →
      (L.map (fun u => (f u, getSlot sc u))).find? (·.1 == f v) = some (f v, getSlot sc v) := by
    intro L
    induction L with
    | nil => intro _ h; cases h
    | cons u L ih =>
      intro hL hvL
      simp only [List.map_cons, List.find?_cons]
      by_cases hu : f u = f v
      · have := hinj u (hL u (List.mem_cons_self ..)) v hv hu
        subst this
        simp
      · have hne : (f u == f v) = false := by simpa using hu
        rw [hne]
        have hvL' : v ∈ L := by
          rcases List.mem_cons.mp hvL with h1 | h1
          · exact absurd (by rw [h1]) hu
          · exact h1
        exact ih (fun x hx => hL x (List.mem_cons_of_mem _ hx)) hvL'
  exact getSlot_of_find (this D (fun _ h => h) hv)

theorem wr_renameWorld (cx : Ctx) (p : Prog) (f : Nat → Nat) (h : renameOk f p = true) (w0 : World) :
    WR ⟨cx, p, f⟩ (fun _ => False) w0 (renameWorld f (varsP p) w0) := by
  have hok := rok_of_renameOk (cx := cx) h
  refine ⟨rfl, fun v hv => ?_⟩
  have : getSlot (renameWorld f (varsP p) w0).scratch (f v) = getSlot w0.scratch v :=
    getSlot_renameWorld hok.inj w0.scratch hv
  rw [this]
  unfold Cell
  split
  · exact .inr ⟨fun hh => hh, rfl⟩
  · rfl

/-- **Renaming invariance**, the renamed program started in the renamed world. -/
theorem runProg_rename_world (cx : Ctx) (p : Prog) (f : Nat → Nat) (h : renameOk f p = true) (fuel : Nat) (w0 : World) :
    OutRel ⟨cx, p, f⟩ (Src.runProg cx p fuel w0) (Src.runProg cx (renameProg f p) fuel (renameWorld f (varsP p) w0)) :=
  runProg_rename cx p f h fuel w0 _ (wr_renameWorld cx p f h w0)

/-- cell `v` and cell `f v` of the initial world agree, for every variable of the program -/
def StartOk (f : Nat → Nat) (D : List Nat) (w0 : World) : Prop :=
  ∀ v, v ∈ D → getSlot w0.scratch v = getSlot w0.scratch (f v)

theorem startOk_empty (f : Nat → Nat) (D : List Nat) (w0 : World) (h : w0.scratch = []) : StartOk f D w0 := by
  intro v _
  rw [h]
  rfl

theorem wr_same (cx : Ctx) (p : Prog) (f : Nat → Nat) (w0 : World) (h0 : StartOk f (varsP p) w0) :
    WR ⟨cx, p, f⟩ (fun _ => False) w0 w0 := by
  refine ⟨rfl, fun v hv => ?_⟩
  rw [← h0 v hv]
  unfold Cell
  split
  · exact .inr ⟨fun hh => hh, rfl⟩
  · rfl

/-- **Renaming invariance**, both programs started in the same world. -/
theorem runProg_rename_same (cx : Ctx) (p : Prog) (f : Nat → Nat) (h : renameOk f p = true) (fuel : Nat) (w0 : World)
    (h0 : StartOk f (varsP p) w0) :
    OutRel ⟨cx, p, f⟩ (Src.runProg cx p fuel w0) (Src.runProg cx (renameProg f p) fuel w0) :=
  runProg_rename cx p f h fuel w0 w0 (wr_same cx p f w0 h0)

/-- **Renaming invariance from the empty scratch space** (how every use starts): the outcomes are
    equal up to the relation on the final scratch contents. -/
theorem runProg_rename_empty (cx : Ctx) (p : Prog) (f : Nat → Nat) (h : renameOk f p = true) (fuel : Nat) (w0 : World)
    (h0 : w0.scratch = []) :
    OutRel ⟨cx, p, f⟩ (Src.runProg cx p fuel w0) (Src.runProg cx (renameProg f p) fuel w0) :=
  runProg_rename_same cx p f h fuel w0 (startOk_empty f _ w0 h0)

/-! ### what the relation says about the final worlds -/

/-- everything but scratch space is equal -/
theorem WR.effects {C : RCtx} {S : Nat → Prop} {w w' : World} (h : WR C S w w') :
    w'.effects = w.effects ∧ w'.globals = w.globals ∧ w'.locals = w.locals ∧ w'.boxes = w.boxes ∧
      w'.itxnB = w.itxnB ∧ w'.lastItxn = w.lastItxn := by
  have := h.rest
  rw [this]
  exact ⟨rfl, rfl, rfl, rfl, rfl, rfl⟩

/-- a variable that is no by-reference parameter cell: cell `v` = cell `f v` -/
theorem WR.var {C : RCtx} {S : Nat → Prop} {w w' : World} (h : WR C S w w') {v : Nat} (hv : v ∈ C.D) (hr : v ∉ C.R) :
    getSlot w.scratch v = getSlot w'.scratch (C.f v) := h.sc.plainAt hv hr

/-- a user-numbered slot (key `< 256`) of the program: same contents, same slot -/
theorem WR.requested {cx : Ctx} {p : Prog} {f : Nat → Nat} (hr : renameOk f p = true) {S : Nat → Prop} {w w' : World}
    (h : WR ⟨cx, p, f⟩ S w w') {v : Nat} (hv : v ∈ varsP p) (hlt : v < 256) (hnr : v ∉ allRefSlots p) :
    getSlot w.scratch v = getSlot w'.scratch v := by
  have := h.var (C := ⟨cx, p, f⟩) hv hnr
  rw [this]
  show getSlot w'.scratch (f v) = _
  rw [fixes_of_renameOk hr hv hlt]

/-! ### why the hypotheses are needed -/

/-- `bindingsOk` (what the validators check: the binding LIST is a function and injective) does not
    make the applied renaming injective on the variables of the program: a variable without a
    binding keeps its key and may be hit by a renamed one.  Then the renamed program computes
    something else (here 1 instead of 7) — `renameOk` rejects the pair. -/
theorem bindingsOk_not_enough :
    let bs : List (Nat × Nat) := [(256, 5)]
    let e : Expr := .seq [.store 256 (.int 7), .store 5 (.int 1), .load 256]
    bindingsOk bs = true ∧
    renameOk (applyBindings bs) { subs := [], main := e } = false ∧
    (∃ w, Src.runProg {} { subs := [], main := e } 10 {} = .done (.u 7) w) ∧
    (∃ w, Src.runProg {} { subs := [], main := renameVars (applyBindings bs) e } 10 {} = .done (.u 1) w) := by
  refine ⟨by decide, by decide, ⟨_, rfl⟩, ⟨_, rfl⟩⟩

/-- outside the discipline for `index` the statement is false: a program that returns the NUMBER of
    a variable returns another number after renaming. -/
theorem index_counterexample :
    let f : Nat → Nat := applyBindings [(256, 0)]
    let e : Expr := .index 256
    injOnB f (varsE e) = true ∧
    renameOk f { subs := [], main := e } = false ∧
    (∃ w, Src.runProg {} { subs := [], main := e } 10 {} = .done (.u 256) w) ∧
    (∃ w, Src.runProg {} { subs := [], main := renameVars f e } 10 {} = .done (.u 0) w) := by
  refine ⟨by decide, by decide, ⟨_, rfl⟩, ⟨_, rfl⟩⟩

/-- the same for the generic `loads` (a slot number computed at run time): the renamed program reads
    the cell of the renamed variable -/
theorem loads_counterexample :
    let f : Nat → Nat := applyBindings [(256, 0)]
    let e : Expr := .seq [.store 256 (.int 7), .prim "loads" [] [.int 0]]
    injOnB f (varsE e) = true ∧
    renameOk f { subs := [], main := e } = false ∧
    (∃ w, Src.runProg {} { subs := [], main := e } 10 {} = .done (.u 0) w) ∧
    (∃ w, Src.runProg {} { subs := [], main := renameVars f e } 10 {} = .done (.u 7) w) := by
  refine ⟨by decide, by decide, ⟨_, rfl⟩, ⟨_, rfl⟩⟩

/-! ### non-vacuity -/

/-- two automatically numbered variables (256 = `v`, 257 = the by-reference parameter cell of
    `inc`), one by-value parameter 258, one user-numbered slot 7;
    `inc(x: ScratchVar, d) = x.store(x.load() + d)`; main `v := 7; slot7 := 1; inc(v, 5); v + slot7` -/
def exProg : Prog :=
  { subs := [{ id := 0, name := "inc", params := [(.ref, 257), (.val, 258)], hasRet := false,
               body := .prim "vstores" [] [.load 257, .prim "+" [] [.prim "vloads" [] [.load 257], .load 258]],
               locals := [257, 258], reenters := [] }],
    main := .seq [.store 256 (.int 7), .store 7 (.int 1), .call 0 [.index 256, .int 5],
                  .ret (some (.prim "+" [] [.load 256, .load 7]))] }

/-- the slots a compiler could have chosen -/
def exBindings : List (Nat × Nat) := [(256, 0), (257, 1), (258, 2), (7, 7)]

theorem exProg_renameOk : renameOk (applyBindings exBindings) exProg = true := by decide

/-- both runs return 13; slot 7 holds 1 in both final worlds, variable 256 / slot 0 hold 12 -/
example : ∀ (cx : Ctx) (fuel : Nat) (w0 : World), w0.scratch = [] →
    OutRel ⟨cx, exProg, applyBindings exBindings⟩ (Src.runProg cx exProg fuel w0)
      (Src.runProg cx (renameProg (applyBindings exBindings) exProg) fuel w0) :=
  fun cx fuel w0 h0 => runProg_rename_empty cx exProg _ exProg_renameOk fuel w0 h0

/-- routines that the main routine cannot reach are not constrained (the compiler does not emit them,
    their variables get no slot): here a never-called routine that returns the NUMBER of a variable -/
example : renameOk (applyBindings exBindings)
    { exProg with subs := exProg.subs ++ [{ id := 1, name := "dead", params := [], hasRet := true, body := .index 300,
                                            locals := [], reenters := [] }] } = true := by decide

example : ∃ w w', Src.runProg {} exProg 20 {} = .done (.u 13) w ∧
    Src.runProg {} (renameProg (applyBindings exBindings) exProg) 20 {} = .done (.u 13) w' ∧
    getSlot w.scratch 256 = .u 12 ∧ getSlot w'.scratch 0 = .u 12 ∧ getSlot w.scratch 7 = .u 1 ∧ getSlot w'.scratch 7 = .u 1 ∧
    getSlot w.scratch 257 = .u 256 ∧ getSlot w'.scratch 1 = .u 0 :=
  ⟨_, _, rfl, rfl, rfl, rfl, rfl, rfl, rfl, rfl⟩

end PyTealV.Proofs.Rename
