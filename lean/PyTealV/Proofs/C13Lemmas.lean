/-
  C13 — helper lemmas: strings/byte arrays, the TEAL tokeniser and string-literal grammar on
  escaped text, hex, bit strings (RFC 4648), decimal numerals.
-/
import PyTealV.Avm.Syntax
import PyTealV.Models.Literals
import Lean.Elab.Term
namespace PyTealV.Proofs.C13
open PyTealV PyTealV.Avm PyTealV.Util PyTealV.Models.Literals

/-! ### access to the two `private` helpers of the trusted tokeniser (their defining equations,
    by `rfl`; nothing is assumed about them) -/

open Lean Elab Term in
elab "priv% " m:ident n:ident : term => do
  let nm := mkPrivateNameCore m.getId n.getId
  unless (← getEnv).contains nm do throwError "unknown private constant {nm}"
  return mkConst nm

theorem isWs_eq (c : Char) : (priv% PyTealV.Avm.Syntax PyTealV.Avm.isWs) c =
    decide (c = ' ' ∨ c = '\t' ∨ c = '\r') := rfl

theorem flush_eq (s : TokSt) : (priv% PyTealV.Avm.Syntax PyTealV.Avm.TokSt.flush) s =
    if s.cur.isEmpty then s
    else { s with toks := String.ofList s.cur.reverse :: s.toks, cur := [] } := rfl

theorem stripParen_eq (pre tok : String) : (priv% PyTealV.Avm.Syntax PyTealV.Avm.stripParen) pre tok =
    if tok.startsWith (pre ++ "(") ∧ tok.endsWith ")" then
      some ((tok.drop (pre.length + 1)).dropEnd 1).toString
    else none := rfl

/-! ### byte arrays and UTF-8 -/

theorem ba_size (bs : ByteArray) : bs.size = bs.data.toList.length := by
  cases bs; simp [ByteArray.size]

theorem toList_loop (bs : ByteArray) (i : Nat) (r : List UInt8) :
    ByteArray.toList.loop bs i r = r.reverse ++ bs.data.toList.drop i := by
  fun_induction ByteArray.toList.loop bs i r with
  | case1 i r h ih =>
    rw [ih]
    have h' : i < bs.data.toList.length := by rw [← ba_size]; exact h
    rw [List.drop_eq_getElem_cons h']
    have h2 : i < bs.data.size := by simpa using h'
    simp [ByteArray.get!, getElem!_pos bs.data i h2]
  | case2 i r h =>
    have : bs.data.toList.length ≤ i := by rw [← ba_size]; omega
    simp [List.drop_eq_nil_of_le this]

theorem ba_toList (bs : ByteArray) : bs.toList = bs.data.toList := by
  simp [ByteArray.toList, toList_loop]

/-- the UTF-8 encoding of a string is the concatenation of the encodings of its characters -/
theorem toUTF8_toList (s : String) :
    s.toUTF8.toList = s.toList.flatMap String.utf8EncodeChar := by
  have h : s.toByteArray = s.toList.utf8Encode := by
    have := String.toByteArray_ofList (l := s.toList)
    rwa [String.ofList_toList] at this
  rw [ba_toList, String.toUTF8, h, List.utf8Encode, List.toList_data_toByteArray]

theorem char_ofNat_toNat (n : Nat) (h : n < 128) : (Char.ofNat n).val.toNat = n := by
  have hv : n.isValidChar := by left; omega
  simp [Char.ofNat, hv, Char.ofNatAux]

theorem utf8_ascii (n : Nat) (h : n < 128) :
    (String.singleton (Char.ofNat n)).toUTF8.toList = [UInt8.ofNat n] := by
  have h' : n ≤ 127 := by omega
  rw [toUTF8_toList]
  simp [String.utf8EncodeChar, char_ofNat_toNat n h, h']

/-! ### the string-literal grammar, one escaped unit at a time -/

theorem pgo_simple (d : Char) (v : UInt8) (r acc)
    (h : (d, v) ∈ [('n', (10 : UInt8)), ('r', 13), ('t', 9), ('\\', 92), ('"', 34)]) :
    parseStringLiteral.go ('\\' :: d :: r) acc = parseStringLiteral.go r (v :: acc) := by
  simp at h
  rcases h with ⟨rfl, rfl⟩ | ⟨rfl, rfl⟩ | ⟨rfl, rfl⟩ | ⟨rfl, rfl⟩ | ⟨rfl, rfl⟩ <;>
    simp [parseStringLiteral.go]

theorem pgo_hex (a b : Char) (r acc) (x y : Nat) (ha : hexVal a = some x) (hb : hexVal b = some y) :
    parseStringLiteral.go ('\\' :: 'x' :: a :: b :: r) acc
      = parseStringLiteral.go r (UInt8.ofNat (x * 16 + y) :: acc) := by
  simp [parseStringLiteral.go, ha, hb]

theorem pgo_plain (c : Char) (r acc) (h1 : c ≠ '"') (h2 : c ≠ '\\') :
    parseStringLiteral.go (c :: r) acc
      = parseStringLiteral.go r ((String.singleton c).toUTF8.toList.reverse ++ acc) := by
  rw [parseStringLiteral.go.eq_def]
  split <;> simp_all

theorem pgo_end (acc) : parseStringLiteral.go ['"'] acc = some acc.reverse := by
  simp [parseStringLiteral.go]

/-! ### hex digits -/

theorem hexDigit_facts : ∀ n : Fin 16, hexVal (hexDigit n.val) = some n.val ∧
    hexDigit n.val ≠ '"' ∧ hexDigit n.val ≠ '\\' ∧ isHexChar (hexDigit n.val) = true ∧
    hexDigit n.val ≠ '\n' := by decide

theorem hexVal_hexDigit (n : Nat) (h : n < 16) : hexVal (hexDigit n) = some n :=
  (hexDigit_facts ⟨n, h⟩).1

/-- one byte of `escapeStr`'s output -/
def escByte (b : UInt8) : List Char := replaceQuote (unicodeEscapeByte b)

theorem replaceQuote_append (xs ys : List Char) :
    replaceQuote (xs ++ ys) = replaceQuote xs ++ replaceQuote ys := by
  simp [replaceQuote]

theorem replaceQuote_unicodeEscape (bs : Bytes) :
    replaceQuote (unicodeEscape bs) = bs.flatMap escByte := by
  induction bs with
  | nil => rfl
  | cons b bs ih =>
    simp only [unicodeEscape, List.flatMap_cons, replaceQuote_append] at *
    rw [ih]; rfl

theorem byte_toNat_lt (b : UInt8) : b.toNat < 256 := UInt8.toNat_lt b

theorem char_ofNat_inj (n : Nat) (h : n < 128) (c : Char) (hc : Char.ofNat n = c) : n = c.val.toNat := by
  rw [← hc, char_ofNat_toNat n h]

/-- The shapes `escByte` can take. -/
inductive Unit : UInt8 → List Char → Prop
  | simple (d : Char) (v : UInt8)
      (h : (d, v) ∈ [('n', (10 : UInt8)), ('r', 13), ('t', 9), ('\\', 92), ('"', 34)]) : Unit v ['\\', d]
  | plain (n : Nat) (h0 : 32 ≤ n) (h : n < 128) (h1 : Char.ofNat n ≠ '"') (h2 : Char.ofNat n ≠ '\\') :
      Unit (UInt8.ofNat n) [Char.ofNat n]
  | hex (x y : Nat) (hx : x < 16) (hy : y < 16) :
      Unit (UInt8.ofNat (x * 16 + y)) ['\\', 'x', hexDigit x, hexDigit y]

theorem escByte_unit (b : UInt8) : Unit b (escByte b) := by
  have hb := byte_toNat_lt b
  unfold escByte unicodeEscapeByte
  split
  · next h => subst h; exact .simple '\\' 92 (by simp)
  split
  · next h => subst h; exact .simple 't' 9 (by simp)
  split
  · next h => subst h; exact .simple 'n' 10 (by simp)
  split
  · next h => subst h; exact .simple 'r' 13 (by simp)
  split
  · next h92 _ _ _ h =>
    have hlt : b.toNat < 128 := by
      have := h.2; rw [UInt8.lt_iff_toNat_lt] at this; simp at this; omega
    have hge : 32 ≤ b.toNat := by
      have := h.1; rw [UInt8.le_iff_toNat_le] at this; simpa using this
    have hbn : b = UInt8.ofNat b.toNat := by simp
    by_cases hq : Char.ofNat b.toNat = '"'
    · have : b.toNat = 34 := char_ofNat_inj _ hlt _ hq
      have hb34 : b = 34 := by rw [hbn, this]; rfl
      subst hb34
      exact .simple '"' 34 (by simp)
    · have hbs : Char.ofNat b.toNat ≠ '\\' := by
        intro hc
        have : b.toNat = 92 := char_ofNat_inj _ hlt _ hc
        exact h92 (by rw [hbn, this]; rfl)
      simp only [replaceQuote, List.flatMap_cons, List.flatMap_nil, hq, if_false, List.append_nil]
      conv => lhs; rw [hbn]
      exact .plain b.toNat hge hlt hq hbs
  · have h1 := (hexDigit_facts ⟨b.toNat / 16, by omega⟩).2.1
    have h2 := (hexDigit_facts ⟨b.toNat % 16, by omega⟩).2.1
    simp only at h1 h2
    have hbn : b = UInt8.ofNat (b.toNat / 16 * 16 + b.toNat % 16) := by
      rw [Nat.div_add_mod']; simp
    simp [replaceQuote, h1, h2]
    conv => lhs; rw [hbn]
    exact .hex _ _ (by omega) (by omega)

/-- the string-literal grammar consumes one escaped unit and yields its byte -/
theorem pgo_unit {b : UInt8} {cs : List Char} (u : Unit b cs) (r : List Char) (acc : List UInt8) :
    parseStringLiteral.go (cs ++ r) acc = parseStringLiteral.go r (b :: acc) := by
  cases u with
  | simple d v h => exact pgo_simple d b r acc h
  | plain n h0 h h1 h2 =>
    rw [List.singleton_append, pgo_plain _ _ _ h1 h2, utf8_ascii n h]; rfl
  | hex x y hx hy =>
    exact pgo_hex _ _ r acc x y (hexVal_hexDigit x hx) (hexVal_hexDigit y hy)

theorem pgo_escaped (bs : Bytes) (acc : List UInt8) :
    parseStringLiteral.go (bs.flatMap escByte ++ ['"']) acc = some (acc.reverse ++ bs) := by
  induction bs generalizing acc with
  | nil => simp [pgo_end]
  | cons b bs ih =>
    rw [List.flatMap_cons, List.append_assoc, pgo_unit (escByte_unit b), ih]
    simp

/-- no unit contains a raw newline -/
theorem unit_no_newline {b : UInt8} {cs : List Char} (u : Unit b cs) : '\n' ∉ cs := by
  cases u with
  | simple d v h =>
    simp at h
    rcases h with ⟨rfl, _⟩ | ⟨rfl, _⟩ | ⟨rfl, _⟩ | ⟨rfl, _⟩ | ⟨rfl, _⟩ <;> decide
  | plain n h0 h h1 h2 =>
    intro hm
    simp at hm
    have := char_ofNat_inj n h '\n' hm.symm
    simp at this; omega
  | hex x y hx hy =>
    have h1 := (hexDigit_facts ⟨x, hx⟩).2.2.2.2
    have h2 := (hexDigit_facts ⟨y, hy⟩).2.2.2.2
    simp only at h1 h2
    simp [h1.symm, h2.symm]

theorem escapeChars_no_newline (bs : Bytes) : '\n' ∉ escapeChars bs := by
  simp only [escapeChars, replaceQuote_unicodeEscape]
  intro hm
  simp only [List.mem_cons, List.mem_append, List.mem_flatMap, List.mem_nil_iff, or_false] at hm
  rcases hm with hm | ⟨b, _, hm⟩ | hm
  · exact absurd hm (by decide)
  · exact unit_no_newline (escByte_unit b) hm
  · exact absurd hm (by decide)

/-! ### the tokeniser -/

/-- tokeniser state inside a string literal, not after a backslash -/
abbrev inStrSt (toks : List String) (cur : List Char) (b64 : Bool) : TokSt :=
  ⟨toks, cur, true, false, b64, false⟩

theorem tgo_str_plain (c : Char) (r toks cur b64) (h1 : c ≠ '"') (h2 : c ≠ '\\') :
    tokenise.go (c :: r) (inStrSt toks cur b64) = tokenise.go r (inStrSt toks (c :: cur) b64) := by
  simp [tokenise.go, h1, h2]

theorem tgo_str_esc (d : Char) (r toks cur b64) :
    tokenise.go ('\\' :: d :: r) (inStrSt toks cur b64)
      = tokenise.go r (inStrSt toks (d :: '\\' :: cur) b64) := by
  simp [tokenise.go]

theorem tgo_unit {b : UInt8} {cs : List Char} (u : Unit b cs) (r toks cur b64) :
    tokenise.go (cs ++ r) (inStrSt toks cur b64)
      = tokenise.go r (inStrSt toks (cs.reverse ++ cur) b64) := by
  cases u with
  | simple d v h => simpa using tgo_str_esc d r toks cur b64
  | plain n h0 h h1 h2 => simpa using tgo_str_plain _ r toks cur b64 h1 h2
  | hex x y hx hy =>
    have hx' := hexDigit_facts ⟨x, hx⟩
    have hy' := hexDigit_facts ⟨y, hy⟩
    simp only at hx' hy'
    simp only [List.cons_append, List.nil_append]
    rw [tgo_str_esc, tgo_str_plain _ _ _ _ _ hx'.2.1 hx'.2.2.1, tgo_str_plain _ _ _ _ _ hy'.2.1 hy'.2.2.1]
    simp

theorem tgo_escaped (bs : Bytes) (r toks cur b64) :
    tokenise.go (bs.flatMap escByte ++ r) (inStrSt toks cur b64)
      = tokenise.go r (inStrSt toks ((bs.flatMap escByte).reverse ++ cur) b64) := by
  induction bs generalizing cur with
  | nil => simp
  | cons b bs ih =>
    rw [List.flatMap_cons, List.append_assoc, tgo_unit (escByte_unit b), ih]
    simp

/-- tokeniser state outside a string literal -/
abbrev outSt (toks : List String) (cur : List Char) (b64 : Bool) : TokSt :=
  ⟨toks, cur, false, false, b64, false⟩

/-- characters that are simply appended to the current token outside a string -/
def okChar (b64 : Bool) (c : Char) : Prop :=
  c ≠ ' ' ∧ c ≠ '\t' ∧ c ≠ '\r' ∧ c ≠ '"' ∧ c ≠ '(' ∧ c ≠ ')' ∧ (c = '/' → b64 = true)

theorem tgo_plain (c : Char) (r toks cur b64) (h : okChar b64 c) :
    tokenise.go (c :: r) (outSt toks cur b64) = tokenise.go r (outSt toks (c :: cur) b64) := by
  obtain ⟨h1, h2, h3, h4, h5, h6, h7⟩ := h
  by_cases hs : c = '/'
  · subst hs; simp [tokenise.go, isWs_eq, h7 rfl]
  · simp [tokenise.go, isWs_eq, h1, h2, h3, h4, h5, h6, hs]

theorem tgo_plains (cs : List Char) (r toks cur b64) (h : ∀ c ∈ cs, okChar b64 c) :
    tokenise.go (cs ++ r) (outSt toks cur b64) = tokenise.go r (outSt toks (cs.reverse ++ cur) b64) := by
  induction cs generalizing cur with
  | nil => simp
  | cons c cs ih =>
    rw [List.cons_append, tgo_plain c _ _ _ _ (h c (by simp)), ih _ (fun c hc => h c (by simp [hc]))]
    simp

theorem tgo_space (r toks cur b64) (hc : cur ≠ []) :
    tokenise.go (' ' :: r) (outSt toks cur b64)
      = tokenise.go r (outSt (String.ofList cur.reverse :: toks) [] b64) := by
  simp [tokenise.go, isWs_eq, flush_eq, hc]

theorem tgo_quote (r toks b64) :
    tokenise.go ('"' :: r) (outSt toks [] b64) = tokenise.go r (inStrSt toks ['"'] b64) := by
  simp [tokenise.go, isWs_eq]

theorem tgo_close (r toks cur b64) :
    tokenise.go ('"' :: r) (inStrSt toks cur b64) = tokenise.go r (outSt toks ('"' :: cur) b64) := by
  simp [tokenise.go]

theorem tokenise_def (line : String) :
    tokenise line = ((priv% PyTealV.Avm.Syntax PyTealV.Avm.TokSt.flush)
      (tokenise.go line.toList {})).toks.reverse := rfl

theorem tokenise_end (l : List Char) (toks : List String) (cur : List Char) (b64 : Bool) (hc : cur ≠ [])
    (h : tokenise.go l {} = outSt toks cur b64) :
    tokenise (String.ofList l) = (String.ofList cur.reverse :: toks).reverse := by
  rw [tokenise_def, String.toList_ofList, h, flush_eq]
  simp [hc]

/-- an opcode followed by one space and a quoted, escaped string is exactly two tokens -/
theorem tokenise_op_escaped (op : List Char) (hop : ∀ c ∈ op, okChar false c) (hne : op ≠ [])
    (bs : Bytes) :
    tokenise (String.ofList (op ++ ' ' :: escapeChars bs))
      = [String.ofList op, String.ofList (escapeChars bs)] := by
  have h : tokenise.go (op ++ ' ' :: escapeChars bs) {}
      = outSt [String.ofList op] ((escapeChars bs).reverse) false := by
    show tokenise.go (op ++ ' ' :: escapeChars bs) (outSt [] [] false) = _
    rw [tgo_plains op _ _ _ _ hop, tgo_space _ _ _ _ (by simpa using hne)]
    simp only [escapeChars, replaceQuote_unicodeEscape, List.append_nil, List.reverse_reverse]
    rw [tgo_quote, tgo_escaped, tgo_close]
    simp [tokenise.go]
  rw [tokenise_end _ _ _ _ (by simp [escapeChars]) h]
  simp

/-- an opcode, one space, and a payload of ordinary characters: two tokens -/
theorem tokenise_op_plain (op pl : List Char) (hop : ∀ c ∈ op, okChar false c) (hne : op ≠ [])
    (hpl : ∀ c ∈ pl, okChar false c) (hpne : pl ≠ []) :
    tokenise (String.ofList (op ++ ' ' :: pl)) = [String.ofList op, String.ofList pl] := by
  have h : tokenise.go (op ++ ' ' :: pl) {} = outSt [String.ofList op] pl.reverse false := by
    show tokenise.go (op ++ ' ' :: pl) (outSt [] [] false) = _
    rw [tgo_plains op _ _ _ _ hop, tgo_space _ _ _ _ (by simpa using hne)]
    have := tgo_plains pl [] [String.ofList op] [] false hpl
    simp only [List.append_nil] at this
    simp only [List.append_nil, List.reverse_reverse]
    rw [this]
    simp [tokenise.go]
  rw [tokenise_end _ _ _ _ (by simpa using hpne) h]
  simp

theorem tgo_open (r toks cur b64) :
    tokenise.go ('(' :: r) (outSt toks cur b64)
      = tokenise.go r (outSt toks ('(' :: cur)
          (b64 || decide (String.ofList cur.reverse = "base64") || decide (String.ofList cur.reverse = "b64"))) := by
  simp [tokenise.go, isWs_eq]

theorem tgo_closeParen (r toks cur b64) :
    tokenise.go (')' :: r) (outSt toks cur b64) = tokenise.go r (outSt toks (')' :: cur) false) := by
  simp [tokenise.go, isWs_eq]

/-- an opcode, one space, and `pre(text)`: two tokens; inside `base64(` / `b64(` a `/` is an
    ordinary character -/
theorem tokenise_op_paren (op pre text : List Char) (hop : ∀ c ∈ op, okChar false c) (hne : op ≠ [])
    (hpre : ∀ c ∈ pre, okChar false c)
    (htext : ∀ c ∈ text, okChar (decide (String.ofList pre = "base64") || decide (String.ofList pre = "b64")) c) :
    tokenise (String.ofList (op ++ ' ' :: (pre ++ '(' :: (text ++ [')']))))
      = [String.ofList op, String.ofList (pre ++ '(' :: (text ++ [')']))] := by
  have h : tokenise.go (op ++ ' ' :: (pre ++ '(' :: (text ++ [')']))) {}
      = outSt [String.ofList op] (pre ++ '(' :: (text ++ [')'])).reverse false := by
    show tokenise.go (op ++ ' ' :: (pre ++ '(' :: (text ++ [')']))) (outSt [] [] false) = _
    rw [tgo_plains op _ _ _ _ hop, tgo_space _ _ _ _ (by simpa using hne)]
    simp only [List.append_nil, List.reverse_reverse]
    rw [tgo_plains pre _ _ _ _ hpre, tgo_open]
    simp only [List.append_nil, List.reverse_reverse, Bool.false_or]
    rw [tgo_plains text _ _ _ _ htext, tgo_closeParen]
    simp [tokenise.go]
  rw [tokenise_end _ _ _ _ (by simp) h]
  simp

/-! ### `parseBytesLit` / `parseInstr` on a single token -/

theorem endsWith_iff (s pat : String) : s.endsWith pat = true ↔ pat.toList <:+ s.toList := by
  rw [String.endsWith, String.Slice.endsWith_string_iff]; simp

theorem parseBytesLit_hex (a : String) (h : ['0', 'x'] <+: a.toList) :
    parseBytesLit [a] = Option.map (fun x => (x, [])) (unhex (a.drop 2).copy) := by
  simp [parseBytesLit, h]

theorem parseBytesLit_str (a : String) (h0 : ¬ ['0', 'x'] <+: a.toList) (h : ['"'] <+: a.toList) :
    parseBytesLit [a] = Option.map (fun x => (x, [])) (parseStringLiteral a) := by
  simp [parseBytesLit, h0, h]

theorem parseBytesLit_b64 (a v : String) (h0 : ¬ ['0', 'x'] <+: a.toList) (h1 : ¬ ['"'] <+: a.toList)
    (h : (priv% PyTealV.Avm.Syntax PyTealV.Avm.stripParen) "base64" a = some v) :
    parseBytesLit [a] = Option.map (fun x => (x, [])) (base64Decode false v) := by
  simp [parseBytesLit, h0, h1, h]

theorem parseBytesLit_b32 (a v : String) (h0 : ¬ ['0', 'x'] <+: a.toList) (h1 : ¬ ['"'] <+: a.toList)
    (h64 : (priv% PyTealV.Avm.Syntax PyTealV.Avm.stripParen) "base64" a = none)
    (hb64 : (priv% PyTealV.Avm.Syntax PyTealV.Avm.stripParen) "b64" a = none)
    (h : (priv% PyTealV.Avm.Syntax PyTealV.Avm.stripParen) "base32" a = some v) :
    parseBytesLit [a] = Option.map (fun x => (x, [])) (base32Decode v) := by
  simp [parseBytesLit, h0, h1, h64, hb64, h]

theorem parseInstr_byte (sels) (a : String) (bs : Bytes) (ht : isTmpl a = false)
    (h : parseBytesLit [a] = some (bs, [])) :
    parseInstr sels ["byte", a] = .ok (.pushBytes bs) := by
  simp [parseInstr, ht, h]

theorem parseInstr_int (sels) (a : String) (n : Nat) (ht : isTmpl a = false)
    (hn : namedInt a = none) (hp : parseUint64 a = some n) :
    parseInstr sels ["int", a] = .ok (.pushInt n) := by
  simp [parseInstr, ht, hn, hp]

theorem isTmpl_false (a : String) (c : Char) (r : List Char) (h : a.toList = c :: r) (hc : c ≠ 'T') :
    isTmpl a = false := by
  simp [isTmpl, h]
  intro e; exact absurd e.symm hc

/-! ### ASCII case analysis by exhaustion -/

theorem char_eq_ofNat (c : Char) : c = Char.ofNat c.toNat := by simp

/-- a decidable property of characters that holds for all 128 ASCII characters -/
theorem ascii_forall (P : Char → Prop) (h : ∀ n : Fin 128, P (Char.ofNat n.val)) (c : Char)
    (hc : c.toNat < 128) : P c := by
  rw [char_eq_ofNat c]; exact h ⟨c.toNat, hc⟩

theorem isHexChar_ascii (c : Char) (h : isHexChar c = true) : c.toNat < 128 := by
  simp [isHexChar, Char.le_def, UInt32.le_iff_toNat_le] at h
  omega

theorem isB32Char_ascii (c : Char) (h : isB32Char c = true) : c.toNat < 128 := by
  simp [isB32Char, Char.le_def, UInt32.le_iff_toNat_le] at h
  omega

theorem isB64Char_ascii (c : Char) (h : isB64Char c = true) : c.toNat < 128 := by
  simp [isB64Char, Char.le_def, UInt32.le_iff_toNat_le] at h
  rcases h with h | h | h | h | h
  · omega
  · omega
  · omega
  · subst h; decide
  · subst h; decide

/-- lower-casing of a hex digit (`bytes.hex()` and the model's `hex` emit lower case) -/
def lowerHex (c : Char) : Char := if 'A' ≤ c ∧ c ≤ 'F' then Char.ofNat (c.toNat + 32) else c

instance (b : Bool) (c : Char) : Decidable (okChar b c) := by unfold okChar; infer_instance

def hexFact (c : Char) : Bool :=
  match hexVal c with
  | some v => decide (v < 16) && (hexDigit v == lowerHex c)
  | none => false

theorem hexChar_facts (c : Char) (h : isHexChar c = true) :
    okChar false c ∧ c ≠ ';' ∧ ∃ v, v < 16 ∧ hexVal c = some v ∧ hexDigit v = lowerHex c := by
  have key : isHexChar c = true → okChar false c ∧ c ≠ ';' ∧ hexFact c = true := by
    refine ascii_forall (fun c => isHexChar c = true → okChar false c ∧ c ≠ ';' ∧ hexFact c = true)
      ?_ c (isHexChar_ascii c h)
    decide
  obtain ⟨h1, h2, h3⟩ := key h
  refine ⟨h1, h2, ?_⟩
  unfold hexFact at h3
  cases hv : hexVal c with
  | none => simp [hv] at h3
  | some v => simp [hv] at h3; exact ⟨v, h3.1, rfl, h3.2⟩

/-! ### hex -/

theorem unhexChars_hex (bs : Bytes) : unhexChars (bs.flatMap hexOfByte) = some bs := by
  induction bs with
  | nil => rfl
  | cons b bs ih =>
    have hb := byte_toNat_lt b
    simp only [List.flatMap_cons, hexOfByte, List.cons_append, List.nil_append, unhexChars,
      hexVal_hexDigit (b.toNat / 16) (by omega), hexVal_hexDigit (b.toNat % 16) (by omega), ih]
    rw [Nat.div_add_mod']; simp

theorem hex_okChars (bs : Bytes) : ∀ c ∈ bs.flatMap hexOfByte, isHexChar c = true := by
  intro c hc
  simp only [List.mem_flatMap, hexOfByte] at hc
  obtain ⟨b, _, hc⟩ := hc
  have hb := byte_toNat_lt b
  simp at hc
  rcases hc with rfl | rfl
  · exact (hexDigit_facts ⟨b.toNat / 16, by omega⟩).2.2.2.1
  · exact (hexDigit_facts ⟨b.toNat % 16, by omega⟩).2.2.2.1

/-- an accepted base16 text decodes, to the bytes whose lower-case hex spelling is the text
    lower-cased (so: to the bytes the text denotes, whichever case the user wrote) -/
theorem unhexChars_valid : ∀ (cs : List Char), cs.length % 2 = 0 → (∀ c ∈ cs, isHexChar c = true) →
    ∃ bs, unhexChars cs = some bs ∧ bs.flatMap hexOfByte = cs.map lowerHex ∧ bs.length * 2 = cs.length
  | [], _, _ => ⟨[], rfl, rfl, rfl⟩
  | [_], h, _ => by simp at h
  | a :: b :: rest, h, hall => by
    obtain ⟨bs, h1, h2, h3⟩ := unhexChars_valid rest (by simp at h; omega)
      (fun c hc => hall c (by simp [hc]))
    obtain ⟨_, _, x, hx, hxa, hxd⟩ := hexChar_facts a (hall a (by simp))
    obtain ⟨_, _, y, hy, hyb, hyd⟩ := hexChar_facts b (hall b (by simp))
    refine ⟨UInt8.ofNat (x * 16 + y) :: bs, by simp [unhexChars, hxa, hyb, h1], ?_, by simp; omega⟩
    have e1 : (x * 16 + y) % 256 / 16 = x := by omega
    have e2 : (x * 16 + y) % 256 % 16 = y := by omega
    simp [hexOfByte, h2, e1, e2, hxd, hyd]

/-! ### decimal numerals -/

theorem foldl_opt {α β : Type} (f : Option α → β → Option α) (g : α → β → α) (P : β → Prop)
    (hf : ∀ a c, P c → f (some a) c = some (g a c)) (l : List β) (hl : ∀ c ∈ l, P c) (a : α) :
    l.foldl f (some a) = some (l.foldl g a) := by
  induction l generalizing a with
  | nil => rfl
  | cons c l ih =>
    rw [List.foldl_cons, hf a c (hl c (by simp)), ih (fun c hc => hl c (by simp [hc]))]; rfl

theorem isDigit_iff (c : Char) : c.isDigit = true ↔ '0' ≤ c ∧ c ≤ '9' := by
  simp [Char.isDigit, Char.le_def]

theorem parseNat_toString (n : Nat) : parseNat (toString n) = some n := by
  have hne : (toString n).isEmpty = false := by
    simp [Nat.toString_eq_repr, Nat.repr_ne_empty]
  simp only [parseNat, hne, Bool.false_eq_true, if_false]
  rw [Nat.toString_eq_repr, Nat.toList_repr]
  rw [foldl_opt _ (fun a c => a * 10 + (c.toNat - '0'.toNat)) (fun c => c.isDigit = true)
    (fun a c hc => by simp [(isDigit_iff c).mp hc]) _
    (fun c hc => Nat.isDigit_of_mem_toDigits (by decide) (by decide) hc)]
  have := Nat.ofDigitChars_ten_toDigits (n := n)
  rw [Nat.ofDigitChars_eq_foldl] at this
  conv => rhs; rw [← this]
  congr 2
  funext a c
  rw [Nat.mul_comm]

theorem namedInt_digit (a : String) (c : Char) (r : List Char) (h : a.toList = c :: r)
    (hc : c.isDigit = true) : namedInt a = none := by
  unfold namedInt
  split <;> first | rfl | (simp at h; (try obtain ⟨h1, _⟩ := h); subst_vars; simp at hc)

theorem toString_digits (n : Nat) : ∀ c ∈ (toString n).toList, c.isDigit = true := by
  intro c hc
  rw [Nat.toString_eq_repr, Nat.toList_repr] at hc
  exact Nat.isDigit_of_mem_toDigits (by decide) (by decide) hc

theorem toString_head (n : Nat) : ∃ c r, (toString n).toList = c :: r ∧ c.isDigit = true := by
  have h := toString_digits n
  cases hl : (toString n).toList with
  | nil =>
    rw [Nat.toString_eq_repr, Nat.toList_repr] at hl
    exact absurd hl Nat.toDigits_ne_nil
  | cons c r => exact ⟨c, r, rfl, h c (by rw [hl]; exact List.mem_cons_self)⟩

theorem digit_okChar (c : Char) (h : c.isDigit = true) : okChar false c ∧ c ≠ 'x' ∧ c ≠ 'T' := by
  have hlt : c.toNat < 128 := by
    have := (isDigit_iff c).mp h
    simp [Char.le_def, UInt32.le_iff_toNat_le] at this
    omega
  revert h
  refine ascii_forall (fun c => c.isDigit = true → okChar false c ∧ c ≠ 'x' ∧ c ≠ 'T') ?_ c hlt
  decide

theorem parseUint64_toString (n : Nat) (h : n < 2 ^ 64) : parseUint64 (toString n) = some n := by
  have h0 : ¬ ['0', 'x'] <+: (toString n).toList := by
    intro hp
    have : 'x' ∈ (toString n).toList := hp.subset (by simp)
    exact (digit_okChar _ (toString_digits n _ this)).2.1 rfl
  have h0' : ¬ ['0', 'x'] <+: Nat.toDigits 10 n := by
    simpa [Nat.toString_eq_repr, Nat.toList_repr] using h0
  have hp : parseNat n.repr = some n := by simpa [Nat.toString_eq_repr] using parseNat_toString n
  have h' : n < 18446744073709551616 := h
  simp [parseUint64, h0', hp, h']

/-! ### bit strings: the grammar's base32/base64 decoder against the RFC 4648 reading -/

theorem bitsOf_succ (w v : Nat) :
    bitsOf (w + 1) v = decide (v / 2 ^ w % 2 = 1) :: bitsOf w v := by
  simp only [bitsOf, List.range_succ_eq_map, List.map_cons, List.map_map]
  congr 1
  apply List.map_congr_left
  intro i _
  simp only [Function.comp, Nat.succ_eq_add_one]
  rw [show w + 1 - 1 - (i + 1) = w - 1 - i by omega]

theorem length_bitsOf (w v : Nat) : (bitsOf w v).length = w := by simp [bitsOf]

theorem bitsOf_add_mul (n a b : Nat) : bitsOf n (a * 2 ^ n + b) = bitsOf n b := by
  induction n generalizing a with
  | zero => simp [bitsOf]
  | succ n ih =>
    rw [bitsOf_succ, bitsOf_succ]
    have e : a * 2 ^ (n + 1) + b = (2 * a) * 2 ^ n + b := by rw [Nat.pow_succ]; ac_rfl
    congr 1
    · have : (a * 2 ^ (n + 1) + b) / 2 ^ n = 2 * a + b / 2 ^ n := by
        rw [e, Nat.add_comm, Nat.add_mul_div_right _ _ (Nat.two_pow_pos n), Nat.add_comm]
      rw [this, Nat.mul_add_mod]
    · rw [e, ih]

theorem bitsOf_append (m n a b : Nat) (hb : b < 2 ^ n) :
    bitsOf (m + n) (a * 2 ^ n + b) = bitsOf m a ++ bitsOf n b := by
  induction m with
  | zero => simp [bitsOf_add_mul]; simp [bitsOf]
  | succ m ih =>
    have e : m + 1 + n = (m + n) + 1 := by omega
    rw [e, bitsOf_succ, bitsOf_succ, ih, List.cons_append]
    congr 2
    have : (a * 2 ^ n + b) / 2 ^ (m + n) = a / 2 ^ m := by
      rw [Nat.pow_add, Nat.mul_comm (2 ^ m), ← Nat.div_div_eq_div_mul,
        Nat.add_comm, Nat.add_mul_div_right _ _ (Nat.two_pow_pos n), Nat.div_eq_of_lt hb, Nat.zero_add]
    rw [this]

theorem bitsOf_split (m n v : Nat) : bitsOf (m + n) v = bitsOf m (v / 2 ^ n) ++ bitsOf n (v % 2 ^ n) := by
  have := bitsOf_append m n (v / 2 ^ n) (v % 2 ^ n) (Nat.mod_lt _ (Nat.two_pow_pos n))
  rwa [Nat.div_add_mod'] at this

theorem bitsToNat_bitsOf_aux (w v acc : Nat) :
    (bitsOf w v).foldl (fun a b => a * 2 + (if b then 1 else 0)) acc = acc * 2 ^ w + v % 2 ^ w := by
  induction w generalizing acc with
  | zero => simp [bitsOf, Nat.mod_one]
  | succ w ih =>
    rw [bitsOf_succ, List.foldl_cons, ih, Nat.mod_pow_succ, Nat.pow_succ]
    have h2 : v / 2 ^ w % 2 < 2 := Nat.mod_lt _ (by decide)
    generalize v / 2 ^ w % 2 = d at h2
    generalize v % 2 ^ w = q
    generalize 2 ^ w = p
    have e1 : (acc * 2 + 1) * p = acc * (p * 2) + p := by
      rw [Nat.add_mul, Nat.mul_assoc, Nat.mul_comm 2 p, Nat.one_mul]
    have e0 : (acc * 2) * p = acc * (p * 2) := by rw [Nat.mul_assoc, Nat.mul_comm 2 p]
    have hd : d = 0 ∨ d = 1 := by omega
    rcases hd with rfl | rfl
    · simp [e0]
    · simp [e1]; omega

theorem bitsToNat_bitsOf (w v : Nat) : bitsToNat (bitsOf w v) = v % 2 ^ w := by
  simp [bitsToNat, bitsToNat_bitsOf_aux]

theorem bitsToBytes_cons8 (f x : Nat) (hx : x < 256) (rest : List Bool) :
    bitsToBytes (f + 1) (bitsOf 8 x ++ rest) = UInt8.ofNat x :: bitsToBytes f rest := by
  have hl : (bitsOf 8 x).length = 8 := length_bitsOf 8 x
  rw [bitsToBytes]
  have h1 : ¬ (bitsOf 8 x ++ rest).length < 8 := by simp [hl]
  rw [if_neg h1, List.take_left' hl, List.drop_left' hl, bitsToNat_bitsOf]
  congr 2
  exact Nat.mod_eq_of_lt hx

theorem bitsToBytes_bytes (bs : Bytes) (r : List Bool) (hr : r.length < 8) (f : Nat)
    (hf : bs.length < f) :
    bitsToBytes f (bs.flatMap (fun b => bitsOf 8 b.toNat) ++ r) = bs := by
  induction bs generalizing f with
  | nil =>
    cases f with
    | zero => omega
    | succ f => simp [bitsToBytes, hr]
  | cons b bs ih =>
    cases f with
    | zero => omega
    | succ f =>
      rw [List.flatMap_cons, List.append_assoc, bitsToBytes_cons8 _ _ (byte_toNat_lt b),
        ih f (by simp at hf; omega)]
      simp

theorem concatBits_lt (w : Nat) (vs : List Nat) (h : ∀ v ∈ vs, v < 2 ^ w) :
    concatBits w vs < 2 ^ (w * vs.length) := by
  induction vs with
  | nil => simp [concatBits]
  | cons v vs ih =>
    have hv := h v (by simp)
    have ih' := ih (fun v hv => h v (by simp [hv]))
    simp only [concatBits, List.length_cons, Nat.mul_succ]
    rw [Nat.add_comm (w * vs.length) w, Nat.pow_add]
    generalize 2 ^ (w * vs.length) = p at *
    generalize 2 ^ w = q at *
    calc v * p + concatBits w vs < v * p + p := by omega
      _ = (v + 1) * p := by rw [Nat.add_mul, Nat.one_mul]
      _ ≤ q * p := Nat.mul_le_mul_right p hv

theorem flatMap_bitsOf (w : Nat) (vs : List Nat) (h : ∀ v ∈ vs, v < 2 ^ w) :
    vs.flatMap (bitsOf w) = bitsOf (w * vs.length) (concatBits w vs) := by
  induction vs with
  | nil => simp [bitsOf, concatBits]
  | cons v vs ih =>
    have ih' := ih (fun v hv => h v (by simp [hv]))
    have hlt := concatBits_lt w vs (fun v hv => h v (by simp [hv]))
    rw [List.flatMap_cons, ih', concatBits, List.length_cons, Nat.mul_succ,
      Nat.add_comm (w * vs.length) w, bitsOf_append _ _ _ _ hlt]

theorem bitsOf_natToBE (k M : Nat) :
    bitsOf (8 * k) M = (natToBE k M).flatMap (fun b => bitsOf 8 b.toNat) := by
  induction k generalizing M with
  | zero => simp [bitsOf, natToBE]
  | succ k ih =>
    rw [show 8 * (k + 1) = 8 * k + 8 by omega, bitsOf_split, ih, natToBE]
    simp [List.flatMap_append]

theorem length_natToBE (k M : Nat) : (natToBE k M).length = k := by
  induction k generalizing M with
  | zero => rfl
  | succ k ih => simp [natToBE, ih]

/-- The grammar's bit-stream decoder computes the RFC 4648 reading (`leadingBytes`). -/
theorem bitsToBytes_flatMap (w : Nat) (vs : List Nat) (h : ∀ v ∈ vs, v < 2 ^ w) :
    bitsToBytes ((vs.flatMap (bitsOf w)).length + 1) (vs.flatMap (bitsOf w)) = leadingBytes w vs := by
  rw [flatMap_bitsOf w vs h, length_bitsOf]
  simp only [leadingBytes]
  generalize w * vs.length = T
  generalize concatBits w vs = N
  have hT : T = 8 * (T / 8) + T % 8 := by omega
  conv => lhs; rw [hT, bitsOf_split, bitsOf_natToBE]
  rw [← hT]
  apply bitsToBytes_bytes
  · rw [length_bitsOf]; omega
  · rw [length_natToBE]; omega

/-! ### the validators' languages -/

theorem mapM_some {α β : Type} (f : α → Option β) (P : β → Prop) (l : List α)
    (h : ∀ c ∈ l, ∃ v, f c = some v ∧ P v) :
    ∃ vs, l.mapM f = some vs ∧ vs.length = l.length ∧ ∀ v ∈ vs, P v := by
  induction l with
  | nil => exact ⟨[], by simp, rfl, by simp⟩
  | cons c l ih =>
    obtain ⟨v, hv, hp⟩ := h c (by simp)
    obtain ⟨vs, hvs, hl, hall⟩ := ih (fun c hc => h c (by simp [hc]))
    refine ⟨v :: vs, by simp [List.mapM_cons, hv, hvs], by simp [hl], ?_⟩
    intro x hx
    simp at hx
    rcases hx with rfl | hx
    · exact hp
    · exact hall x hx

def b64Fact (c : Char) : Bool :=
  match b64Val false c with
  | some v => decide (v < 64)
  | none => false

theorem b64Char_facts (c : Char) (h : isB64Char c = true) :
    okChar true c ∧ c ≠ '=' ∧ c ≠ ';' ∧ ∃ v, b64Val false c = some v ∧ v < 2 ^ 6 := by
  have key : isB64Char c = true → okChar true c ∧ c ≠ '=' ∧ c ≠ ';' ∧ b64Fact c = true := by
    refine ascii_forall (fun c => isB64Char c = true → okChar true c ∧ c ≠ '=' ∧ c ≠ ';' ∧ b64Fact c = true)
      ?_ c (isB64Char_ascii c h)
    decide
  obtain ⟨h1, h2, h3, h4⟩ := key h
  refine ⟨h1, h2, h3, ?_⟩
  unfold b64Fact at h4
  cases hv : b64Val false c with
  | none => simp [hv] at h4
  | some v => simp [hv] at h4; exact ⟨v, rfl, h4⟩

def b32Fact (c : Char) : Bool :=
  match b32Val c with
  | some v => decide (v < 32)
  | none => false

theorem b32Char_facts (c : Char) (h : isB32Char c = true) :
    okChar false c ∧ c ≠ '=' ∧ c ≠ ';' ∧ c ≠ '_' ∧ ∃ v, b32Val c = some v ∧ v < 2 ^ 5 := by
  have key : isB32Char c = true → okChar false c ∧ c ≠ '=' ∧ c ≠ ';' ∧ c ≠ '_' ∧ b32Fact c = true := by
    refine ascii_forall (fun c => isB32Char c = true → okChar false c ∧ c ≠ '=' ∧ c ≠ ';' ∧ c ≠ '_' ∧ b32Fact c = true)
      ?_ c (isB32Char_ascii c h)
    decide
  obtain ⟨h1, h2, h3, h3', h4⟩ := key h
  refine ⟨h1, h2, h3, h3', ?_⟩
  unfold b32Fact at h4
  cases hv : b32Val c with
  | none => simp [hv] at h4
  | some v => simp [hv] at h4; exact ⟨v, rfl, h4⟩

/-- shape of an accepted base64 text -/
theorem validBase64_shape (cs : List Char) (h : validBase64 cs = true) :
    (∀ c ∈ cs, isB64Char c = true ∨ c = '=') ∧
    (∀ c ∈ cs.filter (· ≠ '='), isB64Char c = true) ∧
    (cs.filter (· ≠ '=')).length % 4 ≠ 1 := by
  fun_induction validBase64 cs with
  | case1 => simp
  | case2 a b c d rest hall ih =>
    simp only [Bool.and_eq_true] at hall
    obtain ⟨⟨⟨ha, hb⟩, hc⟩, hd⟩ := hall
    obtain ⟨i1, i2, i3⟩ := ih h
    have na := (b64Char_facts a ha).2.1
    have nb := (b64Char_facts b hb).2.1
    have nc := (b64Char_facts c hc).2.1
    have nd := (b64Char_facts d hd).2.1
    refine ⟨?_, ?_, ?_⟩
    · intro x hx; simp at hx
      rcases hx with rfl | rfl | rfl | rfl | hx <;> simp_all
    · intro x hx; simp [na, nb, nc, nd] at hx
      rcases hx with rfl | rfl | rfl | rfl | hx
      · exact ha
      · exact hb
      · exact hc
      · exact hd
      · exact i2 x (by simp [hx])
    · simp at i3; simp [na, nb, nc, nd]; omega
  | case3 a b c d rest hall =>
    simp only [Bool.and_eq_true, Bool.or_eq_true, decide_eq_true_eq, List.isEmpty_iff] at h
    obtain ⟨⟨⟨hr, ha⟩, hb⟩, hcd⟩ := h
    subst hr
    have na := (b64Char_facts a ha).2.1
    have nb := (b64Char_facts b hb).2.1
    rcases hcd with ⟨rfl, rfl⟩ | ⟨hc, rfl⟩
    · simp [na, nb, ha, hb]
    · have nc := (b64Char_facts c hc).2.1
      simp [na, nb, nc, ha, hb, hc]
  | case4 cs h1 h2 => simp at h

theorem b32Tail_shape (cs : List Char) (h : b32Tail cs = true) :
    (∀ c ∈ cs, isB32Char c = true ∨ c = '=') ∧
    (cs.filter (· ≠ '=')) = cs.takeWhile isB32Char ∧
    (∀ c ∈ cs.takeWhile isB32Char, isB32Char c = true) ∧
    ((cs.takeWhile isB32Char).length = 2 ∨ (cs.takeWhile isB32Char).length = 4 ∨
     (cs.takeWhile isB32Char).length = 5 ∨ (cs.takeWhile isB32Char).length = 7) := by
  have hsplit : cs.takeWhile isB32Char ++ cs.dropWhile isB32Char = cs := List.takeWhile_append_dropWhile
  have hbody : ∀ c ∈ cs.takeWhile isB32Char, isB32Char c = true := fun c hc => (List.all_eq_true.mp (List.all_takeWhile (l := cs) (p := isB32Char))) c hc
  simp only [b32Tail, Bool.or_eq_true, Bool.and_eq_true, beq_iff_eq, List.isEmpty_iff] at h
  have hpad : ∀ c ∈ cs.dropWhile isB32Char, c = '=' := by
    intro c hc
    rcases h with ((⟨_, h⟩ | ⟨_, h⟩) | ⟨_, h⟩) | ⟨_, h⟩ <;>
      (rcases h with h | h <;> rw [h] at hc <;> simp at hc <;> first | exact hc | exact hc.2)
  have hlen : (cs.takeWhile isB32Char).length = 2 ∨ (cs.takeWhile isB32Char).length = 4 ∨
     (cs.takeWhile isB32Char).length = 5 ∨ (cs.takeWhile isB32Char).length = 7 := by
    rcases h with ((⟨h, _⟩ | ⟨h, _⟩) | ⟨h, _⟩) | ⟨h, _⟩ <;> simp [h]
  refine ⟨?_, ?_, hbody, hlen⟩
  · intro c hc
    rw [← hsplit] at hc
    rcases List.mem_append.mp hc with hc | hc
    · exact Or.inl (hbody c hc)
    · exact Or.inr (hpad c hc)
  · conv => lhs; rw [← hsplit]
    rw [List.filter_append]
    have e1 : (cs.takeWhile isB32Char).filter (· ≠ '=') = cs.takeWhile isB32Char := by
      apply List.filter_eq_self.mpr
      intro c hc
      simpa using (b32Char_facts c (hbody c hc)).2.1
    have e2 : (cs.dropWhile isB32Char).filter (· ≠ '=') = [] := by
      apply List.filter_eq_nil_iff.mpr
      intro c hc
      simp [hpad c hc]
    rw [e1, e2, List.append_nil]

/-- shape of an accepted base32 text -/
theorem validBase32_shape (cs : List Char) (h : validBase32 cs = true) :
    (∀ c ∈ cs, isB32Char c = true ∨ c = '=') ∧
    (∀ c ∈ cs.filter (· ≠ '='), isB32Char c = true) ∧
    ((cs.filter (· ≠ '=')).length % 8 ≠ 1 ∧ (cs.filter (· ≠ '=')).length % 8 ≠ 3 ∧
      (cs.filter (· ≠ '=')).length % 8 ≠ 6) := by
  fun_induction validBase32 cs with
  | case1 c1 c2 c3 c4 c5 c6 c7 c8 rest hall ih =>
    obtain ⟨i1, i2, i3⟩ := ih h
    simp only [List.all_cons, List.all_nil, Bool.and_true, Bool.and_eq_true] at hall
    obtain ⟨h1, h2, h3, h4, h5, h6, h7, h8⟩ := hall
    have n1 := (b32Char_facts c1 h1).2.1
    have n2 := (b32Char_facts c2 h2).2.1
    have n3 := (b32Char_facts c3 h3).2.1
    have n4 := (b32Char_facts c4 h4).2.1
    have n5 := (b32Char_facts c5 h5).2.1
    have n6 := (b32Char_facts c6 h6).2.1
    have n7 := (b32Char_facts c7 h7).2.1
    have n8 := (b32Char_facts c8 h8).2.1
    refine ⟨?_, ?_, ?_⟩
    · intro x hx; simp at hx
      rcases hx with rfl | rfl | rfl | rfl | rfl | rfl | rfl | rfl | hx <;> simp_all
    · intro x hx; simp [n1, n2, n3, n4, n5, n6, n7, n8] at hx
      rcases hx with rfl | rfl | rfl | rfl | rfl | rfl | rfl | rfl | hx
      · exact h1
      · exact h2
      · exact h3
      · exact h4
      · exact h5
      · exact h6
      · exact h7
      · exact h8
      · exact i2 x (by simp [hx])
    · simp at i3; simp [n1, n2, n3, n4, n5, n6, n7, n8]; omega
  | case2 c1 c2 c3 c4 c5 c6 c7 c8 rest hall =>
    simp only [Bool.and_eq_true, List.isEmpty_iff] at h
    obtain ⟨hr, ht⟩ := h
    subst hr
    obtain ⟨s1, s2, s3, s4⟩ := b32Tail_shape _ ht
    refine ⟨s1, ?_, ?_⟩
    · rw [s2]; exact s3
    · rw [s2]; omega
  | case3 cs hne =>
    simp only [Bool.or_eq_true, List.isEmpty_iff] at h
    rcases h with rfl | ht
    · simp
    · obtain ⟨s1, s2, s3, s4⟩ := b32Tail_shape _ ht
      refine ⟨s1, ?_, ?_⟩
      · rw [s2]; exact s3
      · rw [s2]; omega

/-! ### `base32(…)` / `base64(…)` literals -/

theorem stripParen_wrap (pre t : String) :
    (priv% PyTealV.Avm.Syntax PyTealV.Avm.stripParen) pre (pre ++ "(" ++ t ++ ")") = some t := by
  rw [stripParen_eq]
  have h1 : (pre ++ "(" ++ t ++ ")").startsWith (pre ++ "(") = true := by simp
  have h2 : (pre ++ "(" ++ t ++ ")").endsWith ")" = true := by
    rw [endsWith_iff]; exact ⟨pre.toList ++ '(' :: t.toList, by simp⟩
  rw [if_pos ⟨h1, h2⟩]
  refine congrArg some ?_
  apply String.toList_inj.mp
  have hd : List.drop (pre.toList.length + 1) (pre.toList ++ '(' :: (t.toList ++ [')']))
      = t.toList ++ [')'] := by
    rw [show pre.toList ++ '(' :: (t.toList ++ [')']) = (pre.toList ++ ['(']) ++ (t.toList ++ [')']) by simp]
    exact List.drop_left' (by simp)
  simp [← String.length_toList, hd]

theorem stripParen_none (pre a : String) (h : ¬ (pre ++ "(").toList <+: a.toList) :
    (priv% PyTealV.Avm.Syntax PyTealV.Avm.stripParen) pre a = none := by
  rw [stripParen_eq]
  have h1 : a.startsWith (pre ++ "(") = false := by simpa using h
  simp [h1]

theorem base64Decode_valid (cs : List Char) (h : validBase64 cs = true) :
    ∃ bs, base64Decode false (String.ofList cs) = some bs ∧ rfcBase64 cs = some bs := by
  obtain ⟨_, h2, h3⟩ := validBase64_shape cs h
  obtain ⟨vs, hvs, _, hlt⟩ := mapM_some (b64Val false) (· < 2 ^ 6) (cs.filter (· ≠ '='))
    (fun c hc => (b64Char_facts c (h2 c hc)).2.2.2)
  refine ⟨leadingBytes 6 vs, ?_, by rw [rfcBase64, if_pos h, hvs]; rfl⟩
  simp only [base64Decode, String.toList_ofList, hvs, if_neg h3]
  rw [bitsToBytes_flatMap 6 vs hlt]

theorem base32Decode_valid (cs : List Char) (h : validBase32 cs = true) :
    ∃ bs, base32Decode (String.ofList cs) = some bs ∧ rfcBase32 cs = some bs := by
  obtain ⟨_, h2, h3⟩ := validBase32_shape cs h
  obtain ⟨vs, hvs, _, hlt⟩ := mapM_some b32Val (· < 2 ^ 5) (cs.filter (· ≠ '='))
    (fun c hc => (b32Char_facts c (h2 c hc)).2.2.2.2)
  refine ⟨leadingBytes 5 vs, ?_, by rw [rfcBase32, if_pos h, hvs]; rfl⟩
  have h3' : ¬ ((cs.filter (· ≠ '=')).length % 8 = 1 ∨ (cs.filter (· ≠ '=')).length % 8 = 3 ∨
      (cs.filter (· ≠ '=')).length % 8 = 6) := by omega
  simp only [base32Decode, String.toList_ofList, hvs, if_neg h3']
  rw [bitsToBytes_flatMap 5 vs hlt]

theorem b32Tail_pad (cs : List Char) (h : b32Tail cs = true) :
    cs.filter (· ≠ '=') = cs ∨ cs.length = 8 := by
  have hsplit : cs.takeWhile isB32Char ++ cs.dropWhile isB32Char = cs := List.takeWhile_append_dropWhile
  obtain ⟨_, s2, _, _⟩ := b32Tail_shape cs h
  simp only [b32Tail, Bool.or_eq_true, Bool.and_eq_true, beq_iff_eq, List.isEmpty_iff] at h
  have hl : cs.length = (cs.takeWhile isB32Char).length + (cs.dropWhile isB32Char).length := by
    have := congrArg List.length hsplit
    simp only [List.length_append] at this
    omega
  have hnil : cs.dropWhile isB32Char = [] → cs.filter (· ≠ '=') = cs := by
    intro hp
    rw [s2]; conv => rhs; rw [← hsplit, hp]
    simp
  rcases h with ((⟨h, hp⟩ | ⟨h, hp⟩) | ⟨h, hp⟩) | ⟨h, hp⟩ <;> rcases hp with hp | hp
  · exact Or.inl (hnil hp)
  · right; rw [hl, h, hp]; simp
  · exact Or.inl (hnil hp)
  · right; rw [hl, h, hp]; simp
  · exact Or.inl (hnil hp)
  · right; rw [hl, h, hp]; simp
  · exact Or.inl (hnil hp)
  · right; rw [hl, h, hp]; simp

theorem validBase32_pad (cs : List Char) (h : validBase32 cs = true) :
    cs.filter (· ≠ '=') = cs ∨ cs.length % 8 = 0 := by
  fun_induction validBase32 cs with
  | case1 c1 c2 c3 c4 c5 c6 c7 c8 rest hall ih =>
    simp only [List.all_cons, List.all_nil, Bool.and_true, Bool.and_eq_true] at hall
    obtain ⟨h1, h2, h3, h4, h5, h6, h7, h8⟩ := hall
    have n1 := (b32Char_facts c1 h1).2.1
    have n2 := (b32Char_facts c2 h2).2.1
    have n3 := (b32Char_facts c3 h3).2.1
    have n4 := (b32Char_facts c4 h4).2.1
    have n5 := (b32Char_facts c5 h5).2.1
    have n6 := (b32Char_facts c6 h6).2.1
    have n7 := (b32Char_facts c7 h7).2.1
    have n8 := (b32Char_facts c8 h8).2.1
    rcases ih h with ih | ih
    · left; simp [n1, n2, n3, n4, n5, n6, n7, n8]; simpa using ih
    · right; simp; omega
  | case2 c1 c2 c3 c4 c5 c6 c7 c8 rest hall =>
    simp only [Bool.and_eq_true, List.isEmpty_iff] at h
    obtain ⟨hr, ht⟩ := h
    subst hr
    right; simp
  | case3 cs hne =>
    simp only [Bool.or_eq_true, List.isEmpty_iff] at h
    rcases h with rfl | ht
    · simp
    · rcases b32Tail_pad cs ht with h | h
      · exact Or.inl h
      · right; omega

/-! ### string literals made of unescaped characters (the `method "…"` line) -/

theorem utf8_singleton (c : Char) : (String.singleton c).toUTF8.toList = String.utf8EncodeChar c := by
  rw [toUTF8_toList]; simp

theorem pgo_plains (cs : List Char) (h : ∀ c ∈ cs, c ≠ '"' ∧ c ≠ '\\') (acc : List UInt8) :
    parseStringLiteral.go (cs ++ ['"']) acc
      = some (acc.reverse ++ cs.flatMap String.utf8EncodeChar) := by
  induction cs generalizing acc with
  | nil => simp [pgo_end]
  | cons c cs ih =>
    obtain ⟨h1, h2⟩ := h c (by simp)
    rw [List.cons_append, pgo_plain _ _ _ h1 h2, ih (fun c hc => h c (by simp [hc])), utf8_singleton]
    simp

theorem tgo_str_plains (cs : List Char) (h : ∀ c ∈ cs, c ≠ '"' ∧ c ≠ '\\') (r toks cur b64) :
    tokenise.go (cs ++ r) (inStrSt toks cur b64)
      = tokenise.go r (inStrSt toks (cs.reverse ++ cur) b64) := by
  induction cs generalizing cur with
  | nil => simp
  | cons c cs ih =>
    obtain ⟨h1, h2⟩ := h c (by simp)
    rw [List.cons_append, tgo_str_plain _ _ _ _ _ h1 h2, ih (fun c hc => h c (by simp [hc]))]
    simp

/-- an opcode, one space and a quoted run of characters none of which is a quote or backslash -/
theorem tokenise_op_quoted (op : List Char) (hop : ∀ c ∈ op, okChar false c) (hne : op ≠ [])
    (cs : List Char) (h : ∀ c ∈ cs, c ≠ '"' ∧ c ≠ '\\') :
    tokenise (String.ofList (op ++ ' ' :: '"' :: (cs ++ ['"'])))
      = [String.ofList op, String.ofList ('"' :: (cs ++ ['"']))] := by
  have hg : tokenise.go (op ++ ' ' :: '"' :: (cs ++ ['"'])) {}
      = outSt [String.ofList op] ('"' :: (cs ++ ['"'])).reverse false := by
    show tokenise.go (op ++ ' ' :: '"' :: (cs ++ ['"'])) (outSt [] [] false) = _
    rw [tgo_plains op _ _ _ _ hop, tgo_space _ _ _ _ (by simpa using hne)]
    simp only [List.append_nil, List.reverse_reverse]
    rw [tgo_quote, tgo_str_plains cs h, tgo_close]
    simp [tokenise.go]
  rw [tokenise_end _ _ _ _ (by simp) hg]
  simp

theorem parseInstr_method (sels) (a : String) (sig sel : Bytes)
    (h : parseStringLiteral a = some sig) :
    parseInstr ((sig, sel) :: sels) ["method", a] = .ok (.pushBytes sel) := by
  simp [parseInstr, h]

theorem parseInstr_addr (sels) (a : String) (key : Bytes) (ht : isTmpl a = false)
    (h : parseAddr a = some key) :
    parseInstr sels ["addr", a] = .ok (.pushBytes key) := by
  simp [parseInstr, ht, h]

theorem rfcBase32_length (cs : List Char) (bs : Bytes) (h : rfcBase32 cs = some bs) :
    bs.length = 5 * (cs.filter (· ≠ '=')).length / 8 := by
  unfold rfcBase32 at h
  split at h
  · next hv =>
    obtain ⟨_, h2, _⟩ := validBase32_shape cs hv
    obtain ⟨vs, hvs, hl, _⟩ := mapM_some b32Val (· < 2 ^ 5) (cs.filter (· ≠ '='))
      (fun c hc => (b32Char_facts c (h2 c hc)).2.2.2.2)
    rw [hvs] at h
    simp only [Option.map_some, Option.some.injEq] at h
    subst h
    simp [leadingBytes, length_natToBE, hl]
  · cases h

theorem b32Tail_takeWhile (cs : List Char) (h : b32Tail cs = true) :
    cs.filter (· ≠ '=') = cs.takeWhile (· ≠ '=') := by
  have hsplit : cs.takeWhile isB32Char ++ cs.dropWhile isB32Char = cs := List.takeWhile_append_dropWhile
  obtain ⟨_, s2, s3, _⟩ := b32Tail_shape cs h
  rw [s2]
  simp only [b32Tail, Bool.or_eq_true, Bool.and_eq_true, beq_iff_eq, List.isEmpty_iff] at h
  have hb : ∀ c ∈ cs.takeWhile isB32Char, (decide (c ≠ '=')) = true := by
    intro c hc; simpa using (b32Char_facts c (s3 c hc)).2.1
  have hpad : cs.dropWhile isB32Char = [] ∨ ∃ k, cs.dropWhile isB32Char = '=' :: List.replicate k '=' := by
    rcases h with ((⟨_, h⟩ | ⟨_, h⟩) | ⟨_, h⟩) | ⟨_, h⟩ <;> rcases h with h | h
    all_goals first
      | exact Or.inl h
      | exact Or.inr ⟨_, by rw [h]; rfl⟩
  conv => rhs; rw [← hsplit]
  rw [List.takeWhile_append_of_pos hb]
  rcases hpad with hp | ⟨k, hp⟩ <;> rw [hp] <;> simp

theorem validBase32_takeWhile (cs : List Char) (h : validBase32 cs = true) :
    cs.filter (· ≠ '=') = cs.takeWhile (· ≠ '=') := by
  fun_induction validBase32 cs with
  | case1 c1 c2 c3 c4 c5 c6 c7 c8 rest hall ih =>
    simp only [List.all_cons, List.all_nil, Bool.and_true, Bool.and_eq_true] at hall
    obtain ⟨h1, h2, h3, h4, h5, h6, h7, h8⟩ := hall
    have n1 := (b32Char_facts c1 h1).2.1
    have n2 := (b32Char_facts c2 h2).2.1
    have n3 := (b32Char_facts c3 h3).2.1
    have n4 := (b32Char_facts c4 h4).2.1
    have n5 := (b32Char_facts c5 h5).2.1
    have n6 := (b32Char_facts c6 h6).2.1
    have n7 := (b32Char_facts c7 h7).2.1
    have n8 := (b32Char_facts c8 h8).2.1
    have := ih h
    simp [n1, n2, n3, n4, n5, n6, n7, n8]
    simpa using this
  | case2 c1 c2 c3 c4 c5 c6 c7 c8 rest hall =>
    simp only [Bool.and_eq_true, List.isEmpty_iff] at h
    obtain ⟨hr, ht⟩ := h
    subst hr
    exact b32Tail_takeWhile _ ht
  | case3 cs hne =>
    simp only [Bool.or_eq_true, List.isEmpty_iff] at h
    rcases h with rfl | ht
    · simp
    · exact b32Tail_takeWhile _ ht

end PyTealV.Proofs.C13
