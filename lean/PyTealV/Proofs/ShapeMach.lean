/-
  Graph-machine lemmas for `Proofs/Shape.lean`: reachability between program points of a block
  graph (`Reach`), termination (`Halts`), their variants "unless the 1000-deep operand stack
  overflows" (`ReachO`, `HaltO`), running a whole block, and the `Shape` relation that describes
  where the code of a source tree sits in a final graph.
-/
import PyTealV.Comp.Gen
import PyTealV.Models.Fragment
namespace PyTealV.Proofs.Shape
open PyTealV PyTealV.Avm PyTealV.Src PyTealV.Comp PyTealV.Models.Fragment

/-- the only permitted deviation of the machine from the source semantics -/
def ovf : Outcome := .fail (.logic "stack overflow")

section Mach
variable (cx : Ctx) (G : Graph)

/-- after some number of steps from `(p, m)` the machine is at `(p', m')` -/
def Reach (p : GPt) (m : MS) (p' : GPt) (m' : MS) : Prop :=
  ∃ n, ∀ k, grunAt cx G (n + k) p m = grunAt cx G k p' m'

/-- the run from `(p, m)` halts with outcome `o` -/
def Halts (p : GPt) (m : MS) (o : Outcome) : Prop := ∃ n, grunAt cx G n p m = .halt o

variable {cx G}

theorem Reach.refl (p : GPt) (m : MS) : Reach cx G p m p m := ⟨0, fun k => by rw [Nat.zero_add]⟩

theorem Reach.trans {p m p' m' p'' m''} (h1 : Reach cx G p m p' m') (h2 : Reach cx G p' m' p'' m'') :
    Reach cx G p m p'' m'' := by
  obtain ⟨n1, h1⟩ := h1
  obtain ⟨n2, h2⟩ := h2
  exact ⟨n1 + n2, fun k => by rw [Nat.add_assoc, h1, h2]⟩

theorem Reach.step {p m p' m'} (h : gstep cx G p m = .next p' m') : Reach cx G p m p' m' :=
  ⟨1, fun k => by rw [Nat.add_comm]; simp only [grunAt, h]⟩

theorem Reach.halts {p m p' m' o} (h1 : Reach cx G p m p' m') (h2 : Halts cx G p' m' o) :
    Halts cx G p m o := by
  obtain ⟨n1, h1⟩ := h1
  obtain ⟨n2, h2⟩ := h2
  exact ⟨n1 + n2, by rw [h1, h2]⟩

theorem Halts.step {p m o} (h : gstep cx G p m = .halt o) : Halts cx G p m o :=
  ⟨1, by simp only [grunAt, h]⟩

variable (cx G)
/-- reach, unless the operand stack overflows on the way -/
def ReachO (p : GPt) (m : MS) (p' : GPt) (m' : MS) : Prop := Halts cx G p m ovf ∨ Reach cx G p m p' m'
/-- halt with `o`, unless the operand stack overflows on the way -/
def HaltO (p : GPt) (m : MS) (o : Outcome) : Prop := Halts cx G p m ovf ∨ Halts cx G p m o
/-- halt with some failure -/
def Fails (p : GPt) (m : MS) : Prop := ∃ f, Halts cx G p m (.fail f)
variable {cx G}

theorem ReachO.refl (p : GPt) (m : MS) : ReachO cx G p m p m := .inr (.refl p m)
theorem ReachO.of_reach {p m p' m'} (h : Reach cx G p m p' m') : ReachO cx G p m p' m' := .inr h

theorem ReachO.trans {p m p' m' p'' m''} (h1 : ReachO cx G p m p' m') (h2 : ReachO cx G p' m' p'' m'') :
    ReachO cx G p m p'' m'' := by
  rcases h1 with h1 | h1
  · exact .inl h1
  · rcases h2 with h2 | h2
    · exact .inl (h1.halts h2)
    · exact .inr (h1.trans h2)

theorem ReachO.haltO {p m p' m' o} (h1 : ReachO cx G p m p' m') (h2 : HaltO cx G p' m' o) :
    HaltO cx G p m o := by
  rcases h1 with h1 | h1
  · exact .inl h1
  · rcases h2 with h2 | h2
    · exact .inl (h1.halts h2)
    · exact .inr (h1.halts h2)

theorem ReachO.fails {p m p' m'} (h1 : ReachO cx G p m p' m') (h2 : Fails cx G p' m') :
    Fails cx G p m := by
  rcases h1 with h1 | h1
  · exact ⟨_, h1⟩
  · obtain ⟨f, h2⟩ := h2
    exact ⟨f, h1.halts h2⟩

theorem HaltO.of_halts {p m o} (h : Halts cx G p m o) : HaltO cx G p m o := .inr h
theorem HaltO.fails {p m f} (h : HaltO cx G p m (.fail f)) : Fails cx G p m := by
  rcases h with h | h
  · exact ⟨_, h⟩
  · exact ⟨_, h⟩
theorem Fails.of_halts {p m f} (h : Halts cx G p m (.fail f)) : Fails cx G p m := ⟨f, h⟩

/-- block `b` of the graph holds exactly these ops and this successor -/
def Blk (G : Graph) (b : Nat) (ops : List Instr) (succ : Succ) : Prop :=
  G[b]? = some { ops := ops, succ := succ }

theorem run_ops {b : Nat} {blk : Block} (hb : G[b]? = some blk) :
    ∀ (ops pre : List Instr) (m : MS), blk.ops = pre ++ ops →
      match execOps cx ops m with
      | .ok m' => Reach cx G ⟨b, pre.length⟩ m ⟨b, blk.ops.length⟩ m'
      | .halt o => Halts cx G ⟨b, pre.length⟩ m o := by
  intro ops
  induction ops with
  | nil =>
    intro pre m hd
    simp only [List.append_nil] at hd
    simp only [execOps, hd]
    exact .refl _ _
  | cons x rest ih =>
    intro pre m hd
    have hx : blk.ops[pre.length]? = some x := by simp [hd]
    have hd' : blk.ops = (pre ++ [x]) ++ rest := by simp [hd]
    have ih' := fun m' => ih (pre ++ [x]) m' hd'
    simp only [List.length_append, List.length_cons, List.length_nil, Nat.zero_add] at ih'
    simp only [execOps]
    cases hs : execSimple cx x m with
    | none =>
      simp only []
      exact .step (by simp only [gstep, hb, hx, hs])
    | some sr =>
      cases sr with
      | ok m' =>
        simp only []
        have st : Reach cx G ⟨b, pre.length⟩ m ⟨b, pre.length + 1⟩ m' :=
          .step (by simp only [gstep, hb, hx, hs])
        have := ih' m'
        split at this
        · rename_i m'' he
          exact st.trans this
        · rename_i o he
          exact st.halts this
      | halt o =>
        simp only []
        exact .step (by simp only [gstep, hb, hx, hs])

/-- a block whose ops run through continues at its successor -/
theorem block_next {b k : Nat} {ops : List Instr} {m m' : MS} (hb : Blk G b ops (.next k))
    (h : execOps cx ops m = .ok m') : Reach cx G ⟨b, 0⟩ m ⟨k, 0⟩ m' := by
  have := run_ops (cx := cx) hb ops [] m rfl
  simp only [h, List.length_nil] at this
  refine this.trans (.step ?_)
  unfold Blk at hb
  simp only [gstep, hb, List.getElem?_eq_none (Nat.le_refl _)]

theorem block_halt {b : Nat} {ops : List Instr} {succ : Succ} {m : MS} {o : Outcome} (hb : Blk G b ops succ)
    (h : execOps cx ops m = .halt o) : Halts cx G ⟨b, 0⟩ m o := by
  have := run_ops (cx := cx) hb ops [] m rfl
  simp only [h, List.length_nil] at this
  exact this

/-- an empty conditional block pops the condition and branches -/
theorem block_cond {b t f : Nat} {n : Nat} {r : List Val} {ic : List Nat} {bcs : List Bytes} {w : World}
    (hb : Blk G b [] (.cond t f)) :
    Reach cx G ⟨b, 0⟩ ⟨.u n :: r, ic, bcs, w⟩ ⟨if n = 0 then f else t, 0⟩ ⟨r, ic, bcs, w⟩ := by
  refine .step ?_
  unfold Blk at hb
  cases n with
  | zero => simp only [gstep, hb, List.getElem?_nil, if_true]
  | succ n => simp only [gstep, hb, List.getElem?_nil, Nat.succ_ne_zero, if_false]

theorem block_cond_bytes {b t f : Nat} {x : Bytes} {r : List Val} {ic : List Nat} {bcs : List Bytes} {w : World}
    (hb : Blk G b [] (.cond t f)) :
    Halts cx G ⟨b, 0⟩ ⟨.b x :: r, ic, bcs, w⟩ (.fail (.typeErr "branch on bytes")) :=
  .step (by unfold Blk at hb; simp only [gstep, hb, List.getElem?_nil])

end Mach

/-! ### Where the code of a tree sits in a (final) graph -/

def lowInstr : Low → Instr
  | .one i => i
  | .consts i _ _ => i
  | .asGiven i => i

/-- the operand list the lowered form of Substring/Extract actually evaluates -/
def lowArgs : Low → Expr → Expr → Expr → List Expr
  | .one _, s, _, _ => [s]
  | .consts _ x y, s, _, _ => [s, .int x, .int y]
  | .asGiven _, s, a, b => [s, a, b]

mutual
  /-- `Shape G cfg e s k L`: the code of `e` starts at block `s` of `G`, continues at block `k`
      when `e` completes normally, and jumps to the targets in `L` on Break/Continue. -/
  inductive Shape (G : Graph) (cfg : GenCfg) : Expr → Nat → Nat → Option Loop → Prop
    | int {n s k L} : Blk G s [.pushInt n] (.next k) → Shape G cfg (.int n) s k L
    | bytes {b s k L} : Blk G s [.pushBytes b] (.next k) → Shape G cfg (.bytes b) s k L
    | prim {op imms args s ob k L} : Blk G ob [.prim op imms] (.next k) → ShapeArgs G cfg args s ob L →
        Shape G cfg (.prim op imms args) s k L
    | load {v s k L} : Blk G s [.load v] (.next k) → Shape G cfg (.load v) s k L
    | store {v e s ob k L} : Blk G ob [.store v] (.next k) → Shape G cfg e s ob L →
        Shape G cfg (.store v e) s k L
    | index {v s k L} :
        Blk G s [if cfg.markIndex then .prim "__index" [toString v] else .pushInt v] (.next k) →
        Shape G cfg (.index v) s k L
    | multi {op imms args outs s ob sb k L} : Blk G sb (outs.reverse.map .store) (.next k) →
        Blk G ob [.prim op imms] (.next sb) → ShapeArgs G cfg args s ob L →
        Shape G cfg (.multi op imms args outs) s k L
    | seq {es s k L} : ShapeSeq G cfg es s k L → Shape G cfg (.seq es) s k L
    | iteSome {c t e s br ts es endB k L} : Blk G endB [] (.next k) → Shape G cfg t ts endB L →
        Shape G cfg e es endB L → Blk G br [] (.cond ts es) → Shape G cfg c s br L →
        Shape G cfg (.ite c t (some e)) s k L
    | iteNone {c t s br ts endB k L} : Blk G endB [] (.next k) → Shape G cfg t ts endB L →
        Blk G br [] (.cond ts endB) → Shape G cfg c s br L →
        Shape G cfg (.ite c t none) s k L
    | cond {arms s endB errB k L} : Blk G endB [] (.next k) → Blk G errB [.err] .none →
        ShapeCond G cfg arms s endB errB L → Shape G cfg (.cond arms) s k L
    | while_ {c d hdr cs br ds endB k L} : Blk G endB [] (.next k) → Blk G hdr [] (.next cs) →
        Shape G cfg c cs br (some ⟨endB, hdr⟩) → Shape G cfg d ds hdr (some ⟨endB, hdr⟩) →
        Blk G br [] (.cond ds endB) → Shape G cfg (.while_ c d) hdr k L
    | for_ {i c st d s cs br ss shdr ds endB k L} : Blk G endB [] (.next k) →
        Shape G cfg c cs br (some ⟨endB, shdr⟩) → Shape G cfg st ss cs (some ⟨endB, shdr⟩) →
        Blk G shdr [] (.next ss) → Shape G cfg d ds shdr (some ⟨endB, shdr⟩) →
        Blk G br [] (.cond ds endB) → Shape G cfg i s cs (some ⟨endB, shdr⟩) →
        Shape G cfg (.for_ i c st d) s k L
    | brk {s k l} : Blk G s [] (.next l.brk) → Shape G cfg .brk s k (some l)
    | cont {s k l} : Blk G s [] (.next l.cont) → Shape G cfg .cont s k (some l)
    | assert3 {c s ob k L} : cfg.version ≥ 3 → Blk G ob [.prim "assert" []] (.next k) →
        Shape G cfg c s ob L → Shape G cfg (.assert_ c) s k L
    | assert2 {c s br endB errB k L} : ¬ cfg.version ≥ 3 → Blk G endB [] (.next k) →
        Blk G errB [.err] .none → Blk G br [] (.cond endB errB) → Shape G cfg c s br L →
        Shape G cfg (.assert_ c) s k L
    | ret {e s ob k L} : Blk G ob [if cfg.inSub then .retsub else .ret] (.next k) →
        Shape G cfg e s ob L → Shape G cfg (.ret (some e)) s k L
    | exit {e s ob k L} : Blk G ob [.ret] (.next k) → Shape G cfg e s ob L →
        Shape G cfg (.exit e) s k L
    | err {s k L} : Blk G s [.err] (.next k) → Shape G cfg .err s k L
    | noteNone {s k L} : Blk G s [] (.next k) → Shape G cfg (.note none) s k L
    | noteSome {e s k L} : Shape G cfg e s k L → Shape G cfg (.note (some e)) s k L
    | nonce {b e s es k L} : Shape G cfg e es k L →
        Blk G s [.pushBytes b, .prim "pop" []] (.next es) → Shape G cfg (.nonce b e) s k L
    | substring {str a b low s ob k L} : lowerSubstring cfg.version a b = .ok low →
        Blk G ob [lowInstr low] (.next k) → ShapeArgs G cfg (lowArgs low str a b) s ob L →
        Shape G cfg (.substring str a b) s k L
    | extract {str a l s ob k L} : Blk G ob [lowInstr (lowerExtract a l)] (.next k) →
        ShapeArgs G cfg (lowArgs (lowerExtract a l) str a l) s ob L →
        Shape G cfg (.extract str a l) s k L
    | suffixImm {str st s ob k L} : st < 256 → cfg.version ≥ 5 →
        Blk G ob [.prim "extract" [toString st, "0"]] (.next k) → ShapeArgs G cfg [str] s ob L →
        Shape G cfg (.suffix str (.int st)) s k L
    | suffixGen {str a s ob k L} : Blk G ob suffixOps (.next k) → ShapeArgs G cfg [str, a] s ob L →
        Shape G cfg (.suffix str a) s k L
  /-- operands left to right; the entry of an empty operand list is the continuation itself -/
  inductive ShapeArgs (G : Graph) (cfg : GenCfg) : List Expr → Nat → Nat → Option Loop → Prop
    | nil {k L} : ShapeArgs G cfg [] k k L
    | cons {e es s k' k L} : ShapeArgs G cfg es k' k L → Shape G cfg e s k' L →
        ShapeArgs G cfg (e :: es) s k L
  inductive ShapeSeq (G : Graph) (cfg : GenCfg) : List Expr → Nat → Nat → Option Loop → Prop
    | nil {s k L} : Blk G s [] (.next k) → ShapeSeq G cfg [] s k L
    | cons {e es s k' k L} : ShapeSeq G cfg es k' k L → Shape G cfg e s k' L →
        ShapeSeq G cfg (e :: es) s k L
  /-- `Cond` arms: entry, the common end block, the `err` block reached when no arm fires -/
  inductive ShapeCond (G : Graph) (cfg : GenCfg) : List (Expr × Expr) → Nat → Nat → Nat → Option Loop → Prop
    | nil {endB errB L} : ShapeCond G cfg [] errB endB errB L
    | cons {c b rest s br bs nxt endB errB L} : ShapeCond G cfg rest nxt endB errB L →
        Shape G cfg b bs endB L → Blk G br [] (.cond bs nxt) → Shape G cfg c s br L →
        ShapeCond G cfg ((c, b) :: rest) s endB errB L
end

end PyTealV.Proofs.Shape
