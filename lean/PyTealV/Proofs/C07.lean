/-
  C07 — ABI decoding and element access return the encoded components.

  Model: `PyTealV.Models.AbiDecode` (the index computation of the emitted code).
  Specification: `PyTealV.Arc4` (`encode`, `split`, `decode_encode`).
-/
import PyTealV.Proofs.C07Lemmas
import PyTealV.Proofs.ShapeSem
set_option linter.unusedSimpArgs false
namespace PyTealV.Proofs.C07
open PyTealV PyTealV.Arc4 PyTealV.Avm PyTealV.Util PyTealV.Models.AbiDecode

instance instDecEqExcept {ε α} [DecidableEq ε] [DecidableEq α] : DecidableEq (Except ε α)
  | .ok a, .ok b => if h : a = b then isTrue (by rw [h]) else isFalse (by intro e; cases e; exact h rfl)
  | .error a, .error b => if h : a = b then isTrue (by rw [h]) else isFalse (by intro e; cases e; exact h rfl)
  | .ok _, .error _ => isFalse (by intro e; cases e)
  | .error _, .ok _ => isFalse (by intro e; cases e)

/-- what an ABI variable of type `t` holding the value `v` contains: bool ↦ 0/1, byte / uintN ↦
    the number, every other type ↦ its encoding (`none`: `v` has no encoding as a `t`) -/
def stored (t : Ty) (v : V) : Option Val :=
  match t, v with
  | .bool, .bool b => some (.u (if b then 1 else 0))
  | .byte, .uint n => (encode .byte (.uint n)).map (fun _ => .u n)
  | .uint bits, .uint n => (encode (.uint bits) (.uint n)).map (fun _ => .u n)
  | t, v => (encode t v).map .b

/-! ### from `located` to `split` -/

theorem split_access (ks : List Kind) (bs : Bytes) (pieces : List Piece) (i : Nat)
    (hs : split ks bs = some pieces) (hi : i < ks.length) :
    ∃ k p, ks[i]? = some k ∧ pieces[i]? = some p ∧
      accessAt bs (walk ks i {}) k (ks.drop (i + 1)) = .ok (pieceVal p) ∧
      (∀ n, k = .stat n → i + 1 = ks.length →
         (allStatic ks = true → (walk ks i {}).offset + n = bs.length) ∧
         ((walk ks i {}).offset = 0 → n = bs.length)) := by
  simp only [split] at hs
  split at hs
  · rename_i items rest hr
    split at hs
    · rename_i hcond
      obtain ⟨k, p, hk, hp, hacc, _, hlast⟩ :=
        located bs ks 0 items rest pieces i {} (by simpa using hr) hs (Nat.zero_le _) hi rfl rfl
      refine ⟨k, p, hk, hp, hacc, ?_⟩
      intro n hkn hl
      obtain ⟨h1, h2⟩ := hlast n hkn hl
      have hoff := hasOff_readHeads _ _ _ _ hr
      rw [groupKinds_any_dyn] at hoff
      constructor
      · intro hall
        rw [allStatic_iff] at hall
        have : hasOff items = false := by rw [hoff]; simpa using hall
        rw [this] at hcond
        exact h1 (by simpa using hcond)
      · intro h0
        cases ho : hasOff items with
        | true => have := h2 ho; omega
        | false =>
          rw [ho] at hcond
          have := h1 (by simpa using hcond)
          omega
    · cases hs
  · cases hs


/-! ### typed layer -/

theorem encodeFields_get : ∀ (ts : List Ty) (vs : List V) (ps : List Part) (i : Nat),
    encodeFields ts vs = some ps → i < ts.length →
    ∃ t v e, ts[i]? = some t ∧ vs[i]? = some v ∧ encode t v = some e ∧ ps[i]? = some (toPart t v e)
  | [], [], _, i, _, hi => by simp at hi
  | [], _ :: _, _, _, h, _ => by simp [encodeFields] at h
  | _ :: _, [], _, _, h, _ => by simp [encodeFields] at h
  | t :: ts, v :: vs, ps, i, h, hi => by
    simp only [encodeFields] at h
    split at h
    · rename_i e ps' he hps
      cases h
      cases i with
      | zero => exact ⟨t, v, e, rfl, rfl, he, rfl⟩
      | succ i =>
        obtain ⟨t', v', e', h1, h2, h3, h4⟩ := encodeFields_get ts vs ps' i hps (by simpa using hi)
        exact ⟨t', v', e', by simpa using h1, by simpa using h2, h3, by simpa using h4⟩
    · cases h

/-- the stored value as a function of the encoding (every type but bool) -/
def valOf (t : Ty) (e : Bytes) : Val :=
  match t with
  | .byte => .u (beNat e)
  | .uint _ => .u (beNat e)
  | _ => .b e

theorem stored_of_encode (t : Ty) (v : V) (e : Bytes) (h : encode t v = some e) (hb : t ≠ .bool) :
    stored t v = some (valOf t e) := by
  cases t with
  | bool => exact absurd rfl hb
  | byte =>
    cases v with
    | uint n =>
      simp only [stored, h, Option.map_some, valOf]
      simp only [encode] at h
      split at h
      · rename_i hn; cases h; simp [beNat, Nat.mod_eq_of_lt hn]
      · cases h
    | bool b => simp [encode] at h
    | seq vs => simp [encode] at h
  | uint bits =>
    cases v with
    | uint n =>
      simp only [stored, h, Option.map_some, valOf]
      simp only [encode] at h
      split at h
      · rename_i hc
        cases h
        simp only [Bool.and_eq_true, decide_eq_true_eq] at hc
        have hbb : bits / 8 * 8 = bits := by
          have := hc.1; simp [uintOk] at this; omega
        have hn : n < 256 ^ (bits / 8) := by
          rw [show (256 : Nat) = 2 ^ 8 by rfl, ← Nat.pow_mul, Nat.mul_comm, hbb]; exact hc.2
        rw [beNat_beBytes _ _ hn]
      · cases h
    | bool b => simp [encode] at h
    | seq vs => simp [encode] at h
  | address => cases v <;> simp_all [stored, valOf]
  | string => cases v <;> simp_all [stored, valOf]
  | sarray e' n => cases v <;> simp_all [stored, valOf]
  | darray e' => cases v <;> simp_all [stored, valOf]
  | tuple ts => cases v <;> simp_all [stored, valOf]

theorem stored_bool (v : V) (e : Bytes) (h : encode .bool v = some e) :
    ∃ b, v = .bool b ∧ toPart .bool v e = .bit b ∧ stored .bool v = some (.u (if b then 1 else 0)) := by
  cases v with
  | bool b => exact ⟨b, rfl, rfl, rfl⟩
  | uint n => simp [encode] at h
  | seq vs => simp [encode] at h

theorem slice_whole (bs e : Bytes) (n : Nat) (h : sliceB bs 0 (0 + n) = .ok e) (hn : n = bs.length) : e = bs := by
  subst hn
  simp only [sliceB] at h
  split at h
  · simp at h; exact h.symm
  · cases h

theorem slice_get (bs e : Bytes) (off : Nat) (h : sliceB bs off (off + 1) = .ok e) :
    ∃ x, bs[off]? = some x ∧ e = [x] := by
  simp only [sliceB] at h
  split at h
  · rename_i hc
    have hlt : off < bs.length := by omega
    refine ⟨bs[off], List.getElem?_eq_getElem hlt, ?_⟩
    simp only [Nat.add_sub_cancel_left, Except.ok.injEq] at h
    rw [← h, List.take_one, List.head?_drop, List.getElem?_eq_getElem hlt]
    rfl
  · cases h

theorem decodeCheck_ok (t : Ty) (hs : supported t = true) (a b c : Bool) (h : (c && b) = false) :
    decodeCheck t a b c = .ok () := by
  cases t with
  | uint bits =>
    simp only [supported] at hs
    have : ¬ bits > 64 := by
      simp only [uintSupported, Bool.or_eq_true, beq_iff_eq] at hs; omega
    simp [decodeCheck, this, hs]
  | _ => simp [decodeCheck, h]

/-- the four call shapes with which `_index_tuple` decodes a static member: all of them yield
    the value of the slice `[off, off + staticLen t)` -/
theorem decodeRun_static (t : Ty) (bs e : Bytes) (off : Nat) (hs : supported t = true)
    (hb : t ≠ .bool) (hd : isDynamic t = false)
    (hsl : sliceB bs off (off + staticLen t) = .ok e) :
    decodeRun t bs (some off) none (some (staticLen t)) = .ok (valOf t e) ∧
    (off = 0 → decodeRun t bs none none (some (staticLen t)) = .ok (valOf t e)) ∧
    (off + staticLen t = bs.length → decodeRun t bs (some off) none none = .ok (valOf t e)) ∧
    (off = 0 → staticLen t = bs.length → decodeRun t bs none none none = .ok (valOf t e)) := by
  have hbytes : ∀ (s : Option Nat) (l : Option Nat),
      (s = some off ∨ (s = none ∧ off = 0)) →
      (l = some (staticLen t) ∨ (l = none ∧ off + staticLen t = bs.length)) →
      (match substringForDecoding s none l with
       | .ok sl => (evalSlice bs sl).map Val.b
       | .error _ => .error (Fail.illegal "unreachable: build-time error")) = .ok (.b e) := by
    intro s l hs' hl'
    rcases hs' with rfl | ⟨rfl, h0⟩ <;> rcases hl' with rfl | ⟨rfl, hl⟩
    · simp [substringForDecoding, evalSlice, hsl, Except.map]
    · simp [substringForDecoding, evalSlice, ← hl, hsl, Except.map]
    · subst h0; rw [Nat.zero_add] at hsl; simp [substringForDecoding, evalSlice, hsl, Except.map]
    · subst h0
      have := slice_whole bs e _ hsl (by omega)
      simp [substringForDecoding, evalSlice, this, Except.map]
  cases t with
  | bool => exact absurd rfl hb
  | string => simp [isDynamic] at hd
  | darray _ => simp [isDynamic] at hd
  | byte =>
    simp only [staticLen] at hsl
    obtain ⟨x, hx, rfl⟩ := slice_get bs e off hsl
    refine ⟨?_, ?_, ?_, ?_⟩ <;> intros <;> subst_vars <;>
      simp_all [decodeRun, opGetByte, valOf, beNat]
  | uint bits =>
    simp only [supported, uintSupported, Bool.or_eq_true, beq_iff_eq] at hs
    simp only [staticLen] at hsl ⊢
    rcases hs with ((rfl | rfl) | rfl) | rfl
    · obtain ⟨x, hx, rfl⟩ := slice_get bs e off hsl
      refine ⟨?_, ?_, ?_, ?_⟩ <;> intros <;> subst_vars <;>
        simp_all [decodeRun, opGetByte, valOf, beNat]
    · refine ⟨?_, ?_, ?_, ?_⟩ <;> intros <;> subst_vars <;>
        simp_all [decodeRun, opExtractUint, valOf, Except.map, beToNat_eq]
    · refine ⟨?_, ?_, ?_, ?_⟩ <;> intros <;> subst_vars <;>
        simp_all [decodeRun, opExtractUint, valOf, Except.map, beToNat_eq]
    · refine ⟨?_, ?_, ?_, ?_⟩
      · simp_all [decodeRun, opExtractUint, valOf, Except.map, beToNat_eq]
      · intro h0; subst h0
        simp_all [decodeRun, opExtractUint, valOf, Except.map, beToNat_eq]
      · intro _
        simp_all [decodeRun, opExtractUint, valOf, Except.map, beToNat_eq]
      · intro h0 hl; subst h0
        have := slice_whole bs e _ hsl hl
        subst this
        have h8 : e.length ≤ 8 := by omega
        simp [decodeRun, opBtoi, valOf, h8, beToNat_eq]
  | address =>
    refine ⟨hbytes _ _ (.inl rfl) (.inl rfl), fun h0 => hbytes _ _ (.inr ⟨rfl, h0⟩) (.inl rfl),
      fun hl => hbytes _ _ (.inl rfl) (.inr ⟨rfl, hl⟩), fun h0 hl => hbytes _ _ (.inr ⟨rfl, h0⟩) (.inr ⟨rfl, by omega⟩)⟩
  | sarray e' n =>
    refine ⟨hbytes _ _ (.inl rfl) (.inl rfl), fun h0 => hbytes _ _ (.inr ⟨rfl, h0⟩) (.inl rfl),
      fun hl => hbytes _ _ (.inl rfl) (.inr ⟨rfl, hl⟩), fun h0 hl => hbytes _ _ (.inr ⟨rfl, h0⟩) (.inr ⟨rfl, by omega⟩)⟩
  | tuple ts =>
    refine ⟨hbytes _ _ (.inl rfl) (.inl rfl), fun h0 => hbytes _ _ (.inr ⟨rfl, h0⟩) (.inl rfl),
      fun hl => hbytes _ _ (.inl rfl) (.inr ⟨rfl, hl⟩), fun h0 hl => hbytes _ _ (.inr ⟨rfl, h0⟩) (.inr ⟨rfl, by omega⟩)⟩


theorem supportedList_get : ∀ (ts : List Ty) (i : Nat) (t : Ty), supportedList ts = true → ts[i]? = some t →
    supported t = true
  | [], _, _, _, h => by simp at h
  | a :: ts, 0, t, hs, h => by
    simp only [supportedList, Bool.and_eq_true] at hs
    simp at h; subst h; exact hs.1
  | a :: ts, i + 1, t, hs, h => by
    simp only [supportedList, Bool.and_eq_true] at hs
    exact supportedList_get ts i t hs.2 (by simpa using h)

/-- a type that is stored as bytes decodes through `substring_for_decoding` -/
theorem decodeRun_dynamic (t : Ty) (hd : isDynamic t = true) (bs : Bytes) (s e l : Option Nat) :
    decodeRun t bs s e l =
      match substringForDecoding s e l with
      | .ok sl => (evalSlice bs sl).map .b
      | .error _ => .error (.illegal "unreachable: build-time error") := by
  cases t <;> first | (simp [isDynamic] at hd; done) | rfl

theorem kind_of_static (t : Ty) (hb : t ≠ .bool) (hd : isDynamic t = false) : kind t = .stat (staticLen t) := by
  cases t <;> simp_all [kind, mkKind]

theorem kind_of_dynamic (t : Ty) (hd : isDynamic t = true) : kind t = .dyn := by
  cases t <;> simp_all [kind, mkKind, isDynamic]

theorem toPart_piece (t : Ty) (v : V) (e : Bytes) (hb : t ≠ .bool) :
    partPiece (toPart t v e) = .bytes e := by
  cases t <;> first | exact absurd rfl hb | (simp only [toPart]; split <;> rfl)

theorem sliceB_len {bs r : Bytes} {a b : Nat} (h : sliceB bs a b = .ok r) : r.length ≤ bs.length := by
  simp only [sliceB] at h
  split at h
  · cases h; simp; omega
  · cases h

/-- whatever bytes the emitted code extracts, they are a slice of the input -/
theorem accessAt_len {bs r : Bytes} {st : WalkSt} {k : Kind} {after : List Kind}
    (h : accessAt bs st k after = .ok (.b r)) : r.length ≤ bs.length := by
  cases k with
  | bit =>
    simp only [accessAt, opGetBit] at h
    cases hg : getBitB bs (if st.ignoreNext > 0 then st.lastBoolStart * 8 + (st.lastBoolLength - st.ignoreNext)
      else st.offset * 8) with
    | error f => rw [hg] at h; cases h
    | ok n => rw [hg] at h; cases h
  | stat n =>
    simp only [accessAt] at h
    cases hs : sliceB bs st.offset (st.offset + n) with
    | error f => rw [hs] at h; cases h
    | ok r' => rw [hs] at h; cases h; exact sliceB_len hs
  | dyn =>
    simp only [accessAt] at h
    split at h
    · rename_i s e _ _
      cases hs : sliceB bs s e with
      | error f => rw [hs] at h; cases h
      | ok r' => rw [hs] at h; cases h; exact sliceB_len hs
    · cases h
    · cases h

/-- **indexTuple_correct**: on the reference encoding of a tuple, `tuple[i]` (for every shape and
    every in-range `i`) leaves in the output variable exactly what a variable of the member type
    holding the member value contains: 0/1 for a bool, the number for byte / uintN, the member's
    own encoding otherwise. -/
theorem indexTuple_correct (ts : List Ty) (vs : List V) (bs : Bytes) (i : Nat)
    (hsup : supportedList ts = true) (henc : encode (.tuple ts) (.seq vs) = some bs) (hi : i < ts.length) :
    ∃ code t v sv, tupleElem ts i = .ok code ∧ ts[i]? = some t ∧ vs[i]? = some v ∧
      stored t v = some sv ∧ code bs = .ok sv ∧
      (t ≠ .bool → ∀ e, encode t v = some e → e.length ≤ bs.length) := by
  have henc' : (encodeFields ts vs).bind assemble = some bs := by
    simp only [encode] at henc
    split at henc
    · exact henc
    · cases henc
  obtain ⟨ps, hps, hasm⟩ := Option.bind_eq_some_iff.1 henc'
  have hsp := split_assemble ps bs hasm
  rw [encodeFields_kinds ts vs ps hps] at hsp
  obtain ⟨k, p, hk, hp, hacc, hlast⟩ := split_access (kinds ts) bs _ i hsp (by rw [kinds_length]; exact hi)
  obtain ⟨t, v, e, ht, hv, he, hpi⟩ := encodeFields_get ts vs ps i hps hi
  rw [kinds_get, ht] at hk
  simp only [Option.map_some, Option.some.injEq] at hk
  rw [List.getElem?_map, hpi] at hp
  simp only [Option.map_some, Option.some.injEq] at hp
  have hst := supportedList_get ts i t hsup ht
  have hki : (kinds ts)[i]? = some k := by rw [kinds_get, ht, ← hk]; rfl
  simp only [tupleElem, obsList_eq, ht, indexTuple, hki]
  by_cases hb : t = .bool
  · -- a bool member: one bit
    subst hb
    obtain ⟨b, rfl, hpart, hsto⟩ := stored_bool v e he
    rw [hpart] at hp
    subst hp
    have hkb : k = .bit := by rw [← hk]; rfl
    subst hkb
    simp only [accessAt, partPiece, pieceVal] at hacc
    by_cases hig : (walk (kinds ts) i {}).ignoreNext > 0
    · simp only [hig, ↓reduceIte] at hacc ⊢
      exact ⟨_, _, _, _, rfl, rfl, hv, hsto, hacc, fun h => absurd rfl h⟩
    · simp only [hig, ↓reduceIte] at hacc ⊢
      exact ⟨_, _, _, _, rfl, rfl, hv, hsto, hacc, fun h => absurd rfl h⟩
  · rw [toPart_piece t v e hb] at hp
    subst hp
    have hsto := stored_of_encode t v e he hb
    have hlenfact : ∀ e', encode t v = some e' → e'.length ≤ bs.length := by
      intro e' he'
      rw [he] at he'; cases he'
      exact accessAt_len hacc
    cases hd : isDynamic t with
    | true =>
      -- a dynamic member: from its head offset to the next dynamic member's head offset / the end
      have hkd : k = .dyn := by rw [← hk]; exact kind_of_dynamic t hd
      subst hkd
      have hval : valOf t e = .b e := by cases t <;> simp_all [valOf, isDynamic]
      rw [hval] at hsto
      simp only [accessAt, pieceVal, dynEnd] at hacc
      have hck := decodeCheck_ok t hst
      cases hnd : nextDyn (List.drop (i + 1) (kinds ts)) 0 ((walk (kinds ts) i {}).offset + 2) with
      | mk hasNext q =>
        rw [hnd] at hacc
        cases hu : u16At bs (walk (kinds ts) i {}).offset with
        | error f => rw [hu] at hacc; cases hasNext <;> simp at hacc <;> (split at hacc <;> cases hacc)
        | ok s0 =>
          rw [hu] at hacc
          cases hasNext with
          | false =>
            simp only at hacc
            simp only [Bool.not_false, ↓reduceIte, runPlan, decodeInto, Option.isSome_some, Option.isSome_none,
              hck true false false rfl]
            refine ⟨_, _, _, _, rfl, rfl, hv, hsto, ?_, fun _ => hlenfact⟩
            simp only [evalIdxO, evalIdx, hu, Except.map, decodeRun_dynamic t hd, substringForDecoding,
              Option.isSome_none, Bool.false_and, Bool.false_eq_true, ↓reduceIte, evalSlice]
            exact hacc
          | true =>
            simp only at hacc
            cases hq : u16At bs q with
            | error f => rw [hq] at hacc; cases hacc
            | ok e0 =>
              rw [hq] at hacc
              simp only [Bool.not_true, Bool.false_eq_true, ↓reduceIte, runPlan, decodeInto, Option.isSome_some,
                Option.isSome_none, hck true true false rfl]
              refine ⟨_, _, _, _, rfl, rfl, hv, hsto, ?_, fun _ => hlenfact⟩
              simp only [evalIdxO, evalIdx, hu, hq, Except.map, decodeRun_dynamic t hd, substringForDecoding,
                Option.isSome_none, Option.isSome_some, Bool.false_and, Bool.false_eq_true, ↓reduceIte, evalSlice]
              exact hacc
    | false =>
      -- a static member: the fixed slice, through one of four call shapes
      have hks : k = .stat (staticLen t) := by rw [← hk]; exact kind_of_static t hb hd
      subst hks
      simp only [accessAt, pieceVal] at hacc
      have hsl : sliceB bs (walk (kinds ts) i {}).offset ((walk (kinds ts) i {}).offset + staticLen t) = .ok e := by
        cases hx : sliceB bs (walk (kinds ts) i {}).offset ((walk (kinds ts) i {}).offset + staticLen t) with
        | error f => rw [hx] at hacc; cases hacc
        | ok e' => rw [hx] at hacc; simp only [Except.map, Except.ok.injEq, Val.b.injEq] at hacc; rw [hacc]
      obtain ⟨ha, hb', hc, hd'⟩ := decodeRun_static t bs e _ hst hb hd hsl
      have hck := decodeCheck_ok t hst
      have hl := hlast (staticLen t) rfl
      rw [kinds_length] at hl ⊢
      dsimp only
      by_cases h1 : i + 1 = ts.length ∧ (walk (kinds ts) i {}).offset = 0
      · rw [if_pos h1]
        simp only [runPlan, decodeInto, Option.isSome_none, hck false false false rfl]
        refine ⟨_, _, _, _, rfl, rfl, hv, hsto, ?_, fun _ => hlenfact⟩
        simp only [evalIdxO]
        exact hd' h1.2 ((hl h1.1).2 h1.2)
      · by_cases h2 : i + 1 = ts.length ∧ allStatic (kinds ts) = true
        · rw [if_neg h1, if_pos h2]
          simp only [runPlan, decodeInto, Option.isSome_none, Option.isSome_some, hck true false false rfl]
          refine ⟨_, _, _, _, rfl, rfl, hv, hsto, ?_, fun _ => hlenfact⟩
          simp only [evalIdxO, evalIdx, Except.map]
          exact hc ((hl h2.1).1 h2.2)
        · by_cases h3 : (walk (kinds ts) i {}).offset = 0
          · rw [if_neg h1, if_neg h2, if_pos h3]
            simp only [runPlan, decodeInto, Option.isSome_none, Option.isSome_some, hck false false true rfl]
            refine ⟨_, _, _, _, rfl, rfl, hv, hsto, ?_, fun _ => hlenfact⟩
            simp only [evalIdxO, evalIdx, Except.map]
            exact hb' h3
          · rw [if_neg h1, if_neg h2, if_neg h3]
            simp only [runPlan, decodeInto, Option.isSome_none, Option.isSome_some, hck true false true rfl]
            refine ⟨_, _, _, _, rfl, rfl, hv, hsto, ?_, fun _ => hlenfact⟩
            simp only [evalIdxO, evalIdx, Except.map]
            exact ha


/-! ### arrays: the tuple layout of `n` equal members -/

theorem walk_replicate_stat (s n i : Nat) (st : WalkSt) (h0 : st.ignoreNext = 0) (hi : i ≤ n) :
    walk (List.replicate n (.stat s)) i st = { st with offset := st.offset + i * s } := by
  induction i generalizing n st with
  | zero => simp [walk]
  | succ i ih =>
    cases n with
    | zero => omega
    | succ n =>
      have hnp : ¬ st.ignoreNext > 0 := by omega
      simp only [List.replicate_succ, walk, hnp, ↓reduceIte]
      rw [ih n { st with offset := st.offset + s } h0 (by omega)]
      simp only [WalkSt.mk.injEq, and_self, and_true]
      rw [Nat.succ_mul]; omega

theorem walk_replicate_dyn (n i : Nat) (st : WalkSt) (h0 : st.ignoreNext = 0) (hi : i ≤ n) :
    walk (List.replicate n .dyn) i st = { st with offset := st.offset + i * 2 } := by
  induction i generalizing n st with
  | zero => simp [walk]
  | succ i ih =>
    cases n with
    | zero => omega
    | succ n =>
      have hnp : ¬ st.ignoreNext > 0 := by omega
      simp only [List.replicate_succ, walk, hnp, ↓reduceIte]
      rw [ih n { st with offset := st.offset + 2 } h0 (by omega)]
      simp only [WalkSt.mk.injEq, and_self, and_true]
      omega

theorem consecBits_replicate (n : Nat) : consecBits (List.replicate n .bit) = n := by
  induction n with
  | zero => rfl
  | succ n ih => simp [List.replicate_succ, consecBits, ih]

theorem accessAt_replicate_bit (bs : Bytes) (n i : Nat) (after : List Kind) (hi : i < n) :
    accessAt bs (walk (List.replicate n .bit) i {}) .bit after = opGetBit bs i := by
  cases n with
  | zero => omega
  | succ n =>
    cases i with
    | zero => simp [List.replicate_succ, walk, accessAt]
    | succ i =>
      rw [List.replicate_succ, walk_bit_lt _ i {} rfl (by rw [consecBits_replicate]; omega), consecBits_replicate]
      have hpos : n - i > 0 := by omega
      simp only [accessAt, hpos, ↓reduceIte]
      congr 1
      omega

theorem nextDyn_replicate_dyn (m p : Nat) :
    nextDyn (List.replicate m .dyn) 0 p = (decide (0 < m), p) := by
  cases m with
  | zero => rfl
  | succ m => simp [List.replicate_succ, nextDyn]

theorem optMap_get {α β} (f : α → Option β) : ∀ (as : List α) (r : List β) (i : Nat),
    optMap f as = some r → i < as.length → ∃ a b, as[i]? = some a ∧ f a = some b ∧ r[i]? = some b
  | [], _, i, _, hi => by simp at hi
  | a :: as, r, i, h, hi => by
    obtain ⟨b, bs, hb, hbs, rfl⟩ := (optMap_eq_some_cons f a as r).1 h
    cases i with
    | zero => exact ⟨a, b, rfl, hb, rfl⟩
    | succ i =>
      obtain ⟨a', b', h1, h2, h3⟩ := optMap_get f as bs i hbs (by simpa using hi)
      exact ⟨a', b', by simpa using h1, h2, by simpa using h3⟩

/-- element `i` of an assembled sequence of `vs.length` elements of type `e`, as the emitted
    code of a tuple of equal members would read it -/
theorem array_pieces (e : Ty) (vs : List V) (ps : List Part) (body : Bytes) (i : Nat)
    (hps : optMap (fun v => (encode e v).map (toPart e v)) vs = some ps)
    (hasm : assemble ps = some body) (hi : i < vs.length) :
    ∃ v ei, vs[i]? = some v ∧ encode e v = some ei ∧
      accessAt body (walk (List.replicate vs.length (kind e)) i {}) (kind e)
        (List.replicate (vs.length - (i + 1)) (kind e)) = .ok (pieceVal (partPiece (toPart e v ei))) := by
  have hk := elems_kinds e vs ps hps
  have hsp := split_assemble ps body hasm
  rw [hk] at hsp
  obtain ⟨k, p, hk', hp, hacc, _⟩ := split_access _ body _ i hsp (by simpa using hi)
  obtain ⟨v, part, hv, hpart, hpi⟩ := optMap_get _ vs ps i hps hi
  obtain ⟨ei, hei, rfl⟩ := Option.map_eq_some_iff.1 hpart
  rw [List.getElem?_replicate, if_pos hi] at hk'
  cases hk'
  rw [List.getElem?_map, hpi] at hp
  simp only [Option.map_some, Option.some.injEq] at hp
  subst hp
  rw [List.drop_replicate] at hacc
  exact ⟨v, ei, hv, hei, hacc⟩


/-- what the body of an array holds at element `i`, by kind of element -/
theorem array_elem_facts (e : Ty) (vs : List V) (ps : List Part) (body : Bytes) (i : Nat)
    (hps : optMap (fun v => (encode e v).map (toPart e v)) vs = some ps)
    (hasm : assemble ps = some body) (hi : i < vs.length) :
    ∃ v ei, vs[i]? = some v ∧ encode e v = some ei ∧
      (e = .bool → ∃ b, v = .bool b ∧ opGetBit body i = .ok (.u (if b then 1 else 0))) ∧
      (e ≠ .bool → isDynamic e = false →
        sliceB body (i * staticLen e) (i * staticLen e + staticLen e) = .ok ei) ∧
      (isDynamic e = true → ∃ s0 e0, u16At body (i * 2) = .ok s0 ∧
        (if i + 1 = vs.length then e0 = body.length else u16At body (i * 2 + 2) = .ok e0) ∧
        sliceB body s0 e0 = .ok ei) ∧
      (e ≠ .bool → ei.length ≤ body.length) := by
  obtain ⟨v, ei, hv, hei, hacc⟩ := array_pieces e vs ps body i hps hasm hi
  refine ⟨v, ei, hv, hei, ?_, ?_, ?_, ?_⟩
  rotate_left 3
  · intro hb
    rw [toPart_piece e v ei hb] at hacc
    exact accessAt_len hacc
  · intro hb
    subst hb
    obtain ⟨b, rfl, hpart, _⟩ := stored_bool v ei hei
    have hk : kind .bool = .bit := rfl
    rw [hk, accessAt_replicate_bit body _ i _ hi, hpart] at hacc
    exact ⟨b, rfl, hacc⟩
  · intro hb hd
    rw [kind_of_static e hb hd, walk_replicate_stat _ _ i {} rfl (by omega), toPart_piece e v ei hb] at hacc
    simp only [accessAt, pieceVal, Nat.zero_add] at hacc
    cases hx : sliceB body (i * staticLen e) (i * staticLen e + staticLen e) with
    | error f => rw [hx] at hacc; cases hacc
    | ok e' => rw [hx] at hacc; simp only [Except.map, Except.ok.injEq, Val.b.injEq] at hacc; rw [hacc]
  · intro hd
    have hb : e ≠ .bool := by intro h; subst h; simp [isDynamic] at hd
    rw [kind_of_dynamic e hd, walk_replicate_dyn _ i {} rfl (by omega), toPart_piece e v ei hb] at hacc
    simp only [accessAt, pieceVal, Nat.zero_add, dynEnd, nextDyn_replicate_dyn] at hacc
    cases hu : u16At body (i * 2) with
    | error f => rw [hu] at hacc; split at hacc <;> simp_all
    | ok s0 =>
      rw [hu] at hacc
      by_cases hl : i + 1 = vs.length
      · have hm : ¬ 0 < vs.length - (i + 1) := by omega
        simp only [hm, decide_false] at hacc
        refine ⟨s0, body.length, rfl, by simp [hl], ?_⟩
        cases hx : sliceB body s0 body.length with
        | error f => rw [hx] at hacc; cases hacc
        | ok e' => rw [hx] at hacc; simp only [Except.map, Except.ok.injEq, Val.b.injEq] at hacc; rw [hacc]
      · have hm : 0 < vs.length - (i + 1) := by omega
        simp only [hm, decide_true] at hacc
        cases hq : u16At body (i * 2 + 2) with
        | error f => rw [hq] at hacc; cases hacc
        | ok e0 =>
          rw [hq] at hacc
          dsimp only at hacc
          refine ⟨s0, e0, rfl, by simp [hl], ?_⟩
          cases hx : sliceB body s0 e0 with
          | error f => rw [hx] at hacc; cases hacc
          | ok e' => rw [hx] at hacc; simp only [Except.map, Except.ok.injEq, Val.b.injEq] at hacc; rw [hacc]

theorem opMul_ok (a b : Nat) (h : a * b < two64) : opMul a b = .ok (a * b) := by simp [opMul, h]
theorem opAdd_ok (a b : Nat) (h : a + b < two64) : opAdd a b = .ok (a + b) := by simp [opAdd, h]

theorem sliceB_shift (pre body : Bytes) (a b : Nat) :
    sliceB (pre ++ body) (a + pre.length) (b + pre.length) = sliceB body a b := by
  simp only [sliceB, List.length_append]
  by_cases h : a ≤ b ∧ b ≤ body.length
  · rw [if_pos h, if_pos (by omega)]
    rw [show a + pre.length = pre.length + a by omega, ← List.drop_drop, List.drop_left]
    congr 2; omega
  · rw [if_neg h, if_neg (by omega)]

theorem u16At_shift (pre body : Bytes) (p : Nat) : u16At (pre ++ body) (p + pre.length) = u16At body p := by
  simp only [u16At]
  rw [show p + pre.length + 2 = (p + 2) + pre.length by omega, sliceB_shift]

theorem getBitB_shift (pre body : Bytes) (i : Nat) :
    getBitB (pre ++ body) (i + pre.length * 8) = getBitB body i := by
  simp only [getBitB]
  have e1 : (i + pre.length * 8) / 8 = pre.length + i / 8 := by omega
  have e2 : (i + pre.length * 8) % 8 = i % 8 := by omega
  rw [e1, e2, List.getElem?_append_right (by omega)]
  simp

theorem sliceB_some_le {bs e : Bytes} {a b : Nat} (h : sliceB bs a b = .ok e) : a ≤ b ∧ b ≤ bs.length := by
  simp only [sliceB] at h
  split at h
  · assumption
  · cases h

theorem u16At_lt {bs : Bytes} {p v : Nat} (h : u16At bs p = .ok v) : v < 65536 := by
  simp only [u16At] at h
  cases hs : sliceB bs p (p + 2) with
  | error f => rw [hs] at h; cases h
  | ok r =>
    rw [hs] at h
    simp only [Except.map, Except.ok.injEq] at h
    have hl := sliceB_some_le hs
    simp only [sliceB] at hs
    rw [if_pos hl] at hs
    simp only [Except.ok.injEq] at hs
    have hrl : r.length = 2 := by rw [← hs]; simp; omega
    match r, hrl with
    | [a, b], _ =>
      subst h
      have ha := a.toNat_lt
      have hb := b.toNat_lt
      simp [beToNat]; omega

theorem u16_prefix (n : Nat) (h : n < lim16) (body : Bytes) :
    (u16 n).length = 2 ∧ u16At (u16 n ++ body) 0 = .ok n := by
  refine ⟨u16_length n, ?_⟩
  simp only [u16At, sliceB, List.length_append, u16_length]
  rw [if_pos (by omega)]
  simp only [u16_eq n h, List.drop_zero, Nat.zero_add, Nat.sub_zero, Except.map]
  simp only [List.cons_append, List.take, beToNat, List.foldl]
  have := u16_value n h
  simp only [Nat.zero_mul, Nat.zero_add]
  rw [this]


theorem isBool_false_of_ne {e : Ty} (h : e ≠ .bool) : isBool e = false := by
  cases hbb : isBool e with
  | false => rfl
  | true => exact absurd ((isBool_iff e).1 hbb) h

/-- common core of the static- and dynamic-array theorems: `pre` is the length prefix
    (`[]` for `T[N]`, the uint16 count for `T[]`) -/
theorem arrayElemCode_correct (e : Ty) (n : Option Nat) (vs : List V) (ps : List Part)
    (body pre bs : Bytes) (i : Nat) (hsup : supported e = true)
    (hps : optMap (fun v => (encode e v).map (toPart e v)) vs = some ps)
    (hasm : assemble ps = some body) (hi : i < vs.length) (hvl : vs.length < lim16)
    (hbs : bs = pre ++ body)
    (hn : (n = some vs.length ∧ pre = []) ∨ (n = none ∧ pre = u16 vs.length))
    (hlen : bs.length < two64) :
    ∃ code v sv, arrayElemCode e n = .ok code ∧ vs[i]? = some v ∧ stored e v = some sv ∧
      code bs i = .ok sv ∧ (e ≠ .bool → ∀ ei, encode e v = some ei → ei.length ≤ bs.length) := by
  obtain ⟨v, ei, hv, hei, hbool, hstat, hdyn, hlenb⟩ := array_elem_facts e vs ps body i hps hasm hi
  have hlenfact : e ≠ .bool → ∀ ei', encode e v = some ei' → ei'.length ≤ bs.length := by
    intro hb ei' he'
    rw [hei] at he'; cases he'
    have := hlenb hb
    rw [hbs]; simp; omega
  have h64 : two64 = 18446744073709551616 := by decide
  have hlim : lim16 = 65536 := rfl
  by_cases hb : e = .bool
  · -- bool elements: bit `i` (`+16` behind a length prefix)
    subst hb
    obtain ⟨b, rfl, hget⟩ := hbool rfl
    refine ⟨_, _, _, by simp only [arrayElemCode, isBool, ↓reduceIte]; rfl, hv, rfl, ?_, fun h => absurd rfl h⟩
    rcases hn with ⟨rfl, rfl⟩ | ⟨rfl, rfl⟩
    · subst hbs
      simpa [isDyn] using hget
    · subst hbs
      have : opAdd i 16 = .ok (i + 16) := opAdd_ok _ _ (by omega)
      simp only [↓reduceIte, this, opGetBit]
      have := getBitB_shift (u16 vs.length) body i
      rw [u16_length] at this
      rw [this]
      exact hget
  · have hnb := isBool_false_of_ne hb
    have hsto := stored_of_encode e v ei hei hb
    cases hd : isDynamic e with
    | false =>
      -- static elements: `stride * i (+2)`, fixed length
      have hsl := hstat hb hd
      have hle := sliceB_some_le hsl
      have hstr : stride e = .ok (staticLen e) := by rw [stride_eq, headLen, hd]; rfl
      have hck := decodeCheck_ok e hsup true false true rfl
      have hblen : bs.length = pre.length + body.length := by rw [hbs]; simp
      have hmul : opMul (staticLen e) i = .ok (staticLen e * i) := by
        apply opMul_ok; rw [Nat.mul_comm]; omega
      refine ⟨_, v, _, by simp only [arrayElemCode, hnb, Bool.false_eq_true, ↓reduceIte, hstr, isDyn_eq, hd, hck]; rfl,
        hv, hsto, ?_, hlenfact⟩
      rcases hn with ⟨rfl, rfl⟩ | ⟨rfl, rfl⟩
      · simp only [List.nil_append] at hbs
        subst hbs
        have := (decodeRun_static e bs ei (staticLen e * i) hsup hb hd (by rw [Nat.mul_comm]; exact hsl)).1
        simpa [hmul, bind, Except.bind, pure, Except.pure] using this
      · have hpl : (u16 vs.length).length = 2 := u16_length _
        have hadd : opAdd (staticLen e * i) 2 = .ok (staticLen e * i + 2) := by
          apply opAdd_ok; rw [Nat.mul_comm]; omega
        have hsl' : sliceB bs (staticLen e * i + 2) (staticLen e * i + 2 + staticLen e) = .ok ei := by
          have := sliceB_shift (u16 vs.length) body (i * staticLen e) (i * staticLen e + staticLen e)
          rw [hpl, ← hbs, hsl] at this
          rw [← this]; congr 1 <;> rw [Nat.mul_comm] <;> omega
        have := (decodeRun_static e bs ei (staticLen e * i + 2) hsup hb hd hsl').1
        simpa [hmul, hadd, bind, Except.bind, pure, Except.pure] using this
    | true =>
      -- dynamic elements: head slot `i` (and `i + 1`, or the end of the encoding)
      obtain ⟨s0, e0, hu, hend, hsl⟩ := hdyn hd
      have hle := sliceB_some_le hsl
      have hstr : stride e = .ok 2 := by rw [stride_eq, headLen, hd]; rfl
      have hck := decodeCheck_ok e hsup true true false rfl
      have hblen : bs.length = pre.length + body.length := by rw [hbs]; simp
      have hmul : opMul 2 i = .ok (2 * i) := opMul_ok _ _ (by omega)
      have hidx : opAdd i 1 = .ok (i + 1) := opAdd_ok _ _ (by omega)
      have hval : valOf e ei = .b ei := by cases e <;> simp_all [valOf, isDynamic]
      rw [hval] at hsto
      refine ⟨_, v, _, by simp only [arrayElemCode, hnb, Bool.false_eq_true, ↓reduceIte, hstr, isDyn_eq, hd, hck]; rfl,
        hv, hsto, ?_, hlenfact⟩
      rcases hn with ⟨rfl, rfl⟩ | ⟨rfl, rfl⟩
      · simp only [List.nil_append] at hbs
        subst hbs
        rw [Nat.mul_comm] at hu hend
        by_cases hl : i + 1 = vs.length
        · rw [if_pos hl] at hend
          subst hend
          simp [hmul, hidx, hu, hl, arrayLength, bind, Except.bind, pure, Except.pure, decodeRun_dynamic e hd,
            substringForDecoding, evalSlice, hsl, Except.map]
        · rw [if_neg hl] at hend
          have hadd : opAdd (2 * i) 2 = .ok (2 * i + 2) := opAdd_ok _ _ (by omega)
          simp [hmul, hidx, hu, hl, hadd, hend, arrayLength, bind, Except.bind, pure, Except.pure,
            decodeRun_dynamic e hd, substringForDecoding, evalSlice, hsl, Except.map]
      · have hpl : (u16 vs.length).length = 2 := u16_length _
        have hadd : opAdd (2 * i) 2 = .ok (2 * i + 2) := opAdd_ok _ _ (by omega)
        have hu' : u16At bs (2 * i + 2) = .ok s0 := by
          have := u16At_shift (u16 vs.length) body (i * 2)
          rw [hpl, ← hbs, hu] at this
          rw [← this]; congr 1; omega
        have hs0 : opAdd s0 2 = .ok (s0 + 2) := opAdd_ok _ _ (by have := u16At_lt hu; omega)
        have hal : arrayLength none bs = .ok vs.length := by
          have := (u16_prefix vs.length hvl body).2
          rw [← hbs] at this
          simp only [arrayLength, opExtractUint]
          simp only [u16At] at this
          cases hx : sliceB bs 0 (0 + 2) with
          | error f => rw [hx] at this; cases this
          | ok r => rw [hx] at this; simp only [Except.map, Except.ok.injEq] at this; simp [Except.map, this]
        have hsl' : ∀ e1, sliceB body s0 e1 = .ok ei → sliceB bs (s0 + 2) (e1 + 2) = .ok ei := by
          intro e1 h1
          have := sliceB_shift (u16 vs.length) body s0 e1
          rw [hpl, ← hbs, h1] at this
          exact this
        by_cases hl : i + 1 = vs.length
        · rw [if_pos hl] at hend
          subst hend
          have hfin := hsl' _ hsl
          have hbl : body.length + 2 = bs.length := by omega
          rw [hbl] at hfin
          simp [hmul, hidx, hadd, hu', hs0, hal, hl, bind, Except.bind, pure, Except.pure, decodeRun_dynamic e hd,
            substringForDecoding, evalSlice, hfin, Except.map]
        · rw [if_neg hl] at hend
          have hq' : u16At bs (2 * i + 2 + 2) = .ok e0 := by
            have := u16At_shift (u16 vs.length) body (i * 2 + 2)
            rw [hpl, ← hbs, hend] at this
            rw [← this]; congr 1; omega
          have hadd2 : opAdd (2 * i + 2) 2 = .ok (2 * i + 2 + 2) := opAdd_ok _ _ (by omega)
          have he0 : opAdd e0 2 = .ok (e0 + 2) := opAdd_ok _ _ (by have := u16At_lt hend; omega)
          have hfin := hsl' _ hsl
          simp [hmul, hidx, hadd, hadd2, hu', hq', hs0, he0, hal, hl, bind, Except.bind, pure, Except.pure,
            decodeRun_dynamic e hd, substringForDecoding, evalSlice, hfin, Except.map]


theorem encode_sarray_parts {e : Ty} {n : Nat} {vs : List V} {bs : Bytes}
    (h : encode (.sarray e n) (.seq vs) = some bs) :
    vs.length = n ∧ n < lim16 ∧
      ∃ ps, optMap (fun v => (encode e v).map (toPart e v)) vs = some ps ∧ assemble ps = some bs := by
  simp only [encode] at h
  split at h
  · rename_i hc
    obtain ⟨ps, hps, hasm⟩ := Option.bind_eq_some_iff.1 h
    exact ⟨hc.1, hc.2, ps, hps, hasm⟩
  · cases h

theorem encode_darray_parts {e : Ty} {vs : List V} {bs : Bytes}
    (h : encode (.darray e) (.seq vs) = some bs) :
    vs.length < lim16 ∧
      ∃ ps body, optMap (fun v => (encode e v).map (toPart e v)) vs = some ps ∧ assemble ps = some body ∧
        bs = u16 vs.length ++ body := by
  simp only [encode] at h
  split at h
  · rename_i hc
    obtain ⟨body, hbody, rfl⟩ := Option.map_eq_some_iff.1 h
    obtain ⟨ps, hps, hasm⟩ := Option.bind_eq_some_iff.1 hbody
    exact ⟨hc, ps, body, hps, hasm, rfl⟩
  · cases h

/-- **arrayElem_inrange_correct**: on the reference encoding of a static or dynamic array (static
    or dynamic elements, bool elements), `array[i]` with a run-time index `i` inside the bounds
    leaves in the output variable what a variable of the element type holding element `i`
    contains.  (`bs.length < 2^64` always holds on the AVM, where byte strings have at most 4096
    bytes.) -/
theorem arrayElem_inrange_correct (arr e : Ty) (vs : List V) (bs : Bytes) (i : Nat)
    (harr : (∃ n, arr = .sarray e n) ∨ arr = .darray e) (hsup : supported e = true)
    (henc : encode arr (.seq vs) = some bs) (hlen : bs.length < two64) (hi : i < vs.length) :
    ∃ code v sv, arrayElem arr = .ok code ∧ vs[i]? = some v ∧ stored e v = some sv ∧
      code bs i = .ok sv ∧ (e ≠ .bool → ∀ ei, encode e v = some ei → ei.length ≤ bs.length) := by
  rcases harr with ⟨n, rfl⟩ | rfl
  · obtain ⟨hn, hl, ps, hps, hasm⟩ := encode_sarray_parts henc
    subst hn
    exact arrayElemCode_correct e (some vs.length) vs ps bs [] bs i hsup hps hasm hi hl rfl (.inl ⟨rfl, rfl⟩) hlen
  · obtain ⟨hl, ps, body, hps, hasm, hbs⟩ := encode_darray_parts henc
    exact arrayElemCode_correct e none vs ps body (u16 vs.length) bs i hsup hps hasm hi hl hbs (.inr ⟨rfl, rfl⟩) hlen

/-- the same for an index written as a Python int (it passes `StaticArray.__getitem__`'s
    build-time check because it is in range) -/
theorem arrayElemConst_inrange_correct (arr e : Ty) (vs : List V) (bs : Bytes) (i : Nat)
    (harr : (∃ n, arr = .sarray e n) ∨ arr = .darray e) (hsup : supported e = true)
    (henc : encode arr (.seq vs) = some bs) (hlen : bs.length < two64) (hi : i < vs.length) :
    ∃ code v sv, arrayElemConst arr i = .ok code ∧ vs[i]? = some v ∧ stored e v = some sv ∧
      code bs = .ok sv := by
  obtain ⟨code, v, sv, hc, hv, hs, hr, _⟩ := arrayElem_inrange_correct arr e vs bs i harr hsup henc hlen hi
  rcases harr with ⟨n, rfl⟩ | rfl
  · obtain ⟨hn, _, _⟩ := encode_sarray_parts henc
    simp only [arrayElem, arrayOf] at hc
    have : ¬ i ≥ n := by omega
    exact ⟨fun bs => code bs i, v, sv, by simp [arrayElemConst, arrayOf, this, hc, Except.map], hv, hs, hr⟩
  · simp only [arrayElem, arrayOf] at hc
    exact ⟨fun bs => code bs i, v, sv, by simp [arrayElemConst, arrayOf, hc, Except.map], hv, hs, hr⟩

/-- **length_correct**: `length()` of a dynamic array reads the element count from the first two
    bytes; static arrays and tuples answer with their compile-time length -/
theorem length_correct (e : Ty) (vs : List V) (bs : Bytes) :
    (encode (.darray e) (.seq vs) = some bs →
      ∃ code, lengthCode (.darray e) = .ok code ∧ code bs = .ok vs.length) ∧
    (∀ n, encode (.sarray e n) (.seq vs) = some bs →
      ∃ code, lengthCode (.sarray e n) = .ok code ∧ code bs = .ok vs.length) := by
  constructor
  · intro henc
    obtain ⟨hl, ps, body, _, _, hbs⟩ := encode_darray_parts henc
    refine ⟨_, rfl, ?_⟩
    have := (u16_prefix vs.length hl body).2
    rw [← hbs] at this
    simp only [arrayLength, opExtractUint]
    simp only [u16At] at this
    cases hx : sliceB bs 0 (0 + 2) with
    | error f => rw [hx] at this; cases this
    | ok r => rw [hx] at this; simp only [Except.map, Except.ok.injEq] at this; simp [Except.map, this]
  · intro n henc
    obtain ⟨hn, _, _⟩ := encode_sarray_parts henc
    exact ⟨_, rfl, by simp [arrayLength, hn]⟩

/-- `length()` of a tuple -/
theorem length_tuple (ts : List Ty) (bs : Bytes) :
    ∃ code, lengthCode (.tuple ts) = .ok code ∧ code bs = .ok ts.length := ⟨_, rfl, rfl⟩


/-! ### `string` and `address` (arrays of `byte` under another name) -/

theorem arrayElemCode_byte (n : Option Nat) : arrayElemCode .byte n = arrayElemCode (.uint 8) n := by
  simp only [arrayElemCode, isBool, Bool.false_eq_true, ↓reduceIte, stride, isDyn, byteLen, decodeCheck,
    uintSupported]
  rfl

theorem stored_byte_uint8 (v : V) : stored .byte v = stored (.uint 8) v := by
  cases v with
  | uint n => simp only [stored, encode_byte_uint8]
  | bool b => simp [stored, encode]
  | seq vs => simp [stored, encode]

/-- `string[i]` / `address[i]` (both yield a `byte`) -/
theorem arrayElem_bytes_correct (arr : Ty) (vs : List V) (bs : Bytes) (i : Nat)
    (harr : arr = .string ∨ arr = .address) (henc : encode arr (.seq vs) = some bs)
    (hlen : bs.length < two64) (hi : i < vs.length) :
    ∃ code v sv, arrayElem arr = .ok code ∧ vs[i]? = some v ∧ stored .byte v = some sv ∧
      code bs i = .ok sv := by
  rcases harr with rfl | rfl
  · have hn := encode_norm .string (.seq vs)
    simp only [Ty.norm] at hn
    rw [henc] at hn
    obtain ⟨code, v, sv, hc, hv, hs, hr, _⟩ :=
      arrayElem_inrange_correct (.darray (.uint 8)) (.uint 8) vs bs i (.inr rfl) rfl hn hlen hi
    refine ⟨code, v, sv, ?_, hv, by rw [stored_byte_uint8]; exact hs, hr⟩
    simpa [arrayElem, arrayOf, arrayElemCode_byte] using hc
  · have hn := encode_norm .address (.seq vs)
    simp only [Ty.norm] at hn
    rw [henc] at hn
    obtain ⟨code, v, sv, hc, hv, hs, hr, _⟩ :=
      arrayElem_inrange_correct (.sarray (.uint 8) 32) (.uint 8) vs bs i (.inl ⟨32, rfl⟩) rfl hn hlen hi
    refine ⟨code, v, sv, ?_, hv, by rw [stored_byte_uint8]; exact hs, hr⟩
    simpa [arrayElem, arrayOf, arrayElemCode_byte] using hc

/-- `String.length()` -/
theorem length_string (vs : List V) (bs : Bytes) (henc : encode .string (.seq vs) = some bs) :
    ∃ code, lengthCode .string = .ok code ∧ code bs = .ok vs.length := by
  have hn := encode_norm .string (.seq vs)
  simp only [Ty.norm] at hn
  rw [henc] at hn
  obtain ⟨code, hc, hr⟩ := (length_correct (.uint 8) vs bs).1 hn
  exact ⟨code, by simpa [lengthCode, arrayOf] using hc, hr⟩

/-! ### paths of element accesses -/

/-- the component of a value that one step selects (specification side) -/
def stepV : Ty → V → Step → Option (Ty × V)
  | .tuple ts, .seq vs, .tup i =>
    match ts[i]?, vs[i]? with
    | some t, some v => some (t, v)
    | _, _ => none
  | .sarray e _, .seq vs, .arrC i => (vs[i]?).map (fun v => (e, v))
  | .sarray e _, .seq vs, .arrE i => (vs[i]?).map (fun v => (e, v))
  | .darray e, .seq vs, .arrC i => (vs[i]?).map (fun v => (e, v))
  | .darray e, .seq vs, .arrE i => (vs[i]?).map (fun v => (e, v))
  | _, _, _ => none

def pathV : Ty → V → List Step → Option (Ty × V)
  | t, v, [] => some (t, v)
  | t, v, s :: rest =>
    match stepV t v s with
    | some (t', v') => pathV t' v' rest
    | none => none

theorem step_correct (t : Ty) (v : V) (bs : Bytes) (s : Step) (t' : Ty) (v' : V)
    (hsup : supported t = true) (henc : encode t v = some bs) (hlen : bs.length < two64)
    (hstep : stepV t v s = some (t', v')) :
    ∃ code sv, stepCode t s = .ok code ∧ stepTy t s = some t' ∧ supported t' = true ∧
      stored t' v' = some sv ∧ code bs = .ok sv ∧
      (t' ≠ .bool → ∀ e, encode t' v' = some e → e.length ≤ bs.length) := by
  have harrE : ∀ (arr e : Ty) (vs : List V) (i : Nat), ((∃ n, arr = .sarray e n) ∨ arr = .darray e) →
      supported e = true → encode arr (.seq vs) = some bs → vs[i]? = some v' →
      ∃ code sv, (arrayElem arr).map (fun f bs => f bs i) = .ok code ∧ stored e v' = some sv ∧ code bs = .ok sv ∧
        (e ≠ .bool → ∀ e', encode e v' = some e' → e'.length ≤ bs.length) := by
    intro arr e vs i harr hse he hv
    have hi : i < vs.length := by
      rcases Nat.lt_or_ge i vs.length with h | h
      · exact h
      · rw [List.getElem?_eq_none h] at hv; cases hv
    obtain ⟨code, v0, sv, hc, hv0, hs, hr, hl⟩ := arrayElem_inrange_correct arr e vs bs i harr hse he hlen hi
    rw [hv] at hv0; cases hv0
    exact ⟨fun bs => code bs i, sv, by simp [hc, Except.map], hs, hr, hl⟩
  have harrC : ∀ (arr e : Ty) (vs : List V) (i : Nat), ((∃ n, arr = .sarray e n) ∨ arr = .darray e) →
      supported e = true → encode arr (.seq vs) = some bs → vs[i]? = some v' →
      ∃ code sv, arrayElemConst arr i = .ok code ∧ stored e v' = some sv ∧ code bs = .ok sv ∧
        (e ≠ .bool → ∀ e', encode e v' = some e' → e'.length ≤ bs.length) := by
    intro arr e vs i harr hse he hv
    have hi : i < vs.length := by
      rcases Nat.lt_or_ge i vs.length with h | h
      · exact h
      · rw [List.getElem?_eq_none h] at hv; cases hv
    obtain ⟨_, v0, _, _, hv0, _, _, hl⟩ := arrayElem_inrange_correct arr e vs bs i harr hse he hlen hi
    obtain ⟨code, v1, sv, hc, hv1, hs, hr⟩ := arrayElemConst_inrange_correct arr e vs bs i harr hse he hlen hi
    rw [hv] at hv0 hv1; cases hv0; cases hv1
    exact ⟨code, sv, hc, hs, hr, hl⟩
  cases t with
  | tuple ts =>
    cases v with
    | seq vs =>
      cases s with
      | tup i =>
        simp only [stepV] at hstep
        split at hstep
        · rename_i t0 v0 ht0 hv0
          cases hstep
          have hi : i < ts.length := by
            rcases Nat.lt_or_ge i ts.length with h | h
            · exact h
            · rw [List.getElem?_eq_none h] at ht0; cases ht0
          simp only [supported] at hsup
          obtain ⟨code, t1, v1, sv, hc, ht1, hv1, hs, hr, hl⟩ := indexTuple_correct ts vs bs i hsup henc hi
          rw [ht0] at ht1; cases ht1
          rw [hv0] at hv1; cases hv1
          exact ⟨code, sv, hc, ht0, supportedList_get ts i _ hsup ht0, hs, hr, hl⟩
        · cases hstep
      | arrC i => simp [stepV] at hstep
      | arrE i => simp [stepV] at hstep
    | bool b => cases s <;> simp [stepV] at hstep
    | uint n => cases s <;> simp [stepV] at hstep
  | sarray e n =>
    cases v with
    | seq vs =>
      simp only [supported] at hsup
      cases s with
      | tup i => simp [stepV] at hstep
      | arrC i =>
        simp only [stepV, Option.map_eq_some_iff] at hstep
        obtain ⟨v0, hv0, hp⟩ := hstep
        cases hp
        obtain ⟨code, sv, hc, hs, hr, hl⟩ := harrC _ t' vs i (.inl ⟨n, rfl⟩) hsup henc hv0
        exact ⟨code, sv, hc, rfl, hsup, hs, hr, hl⟩
      | arrE i =>
        simp only [stepV, Option.map_eq_some_iff] at hstep
        obtain ⟨v0, hv0, hp⟩ := hstep
        cases hp
        obtain ⟨code, sv, hc, hs, hr, hl⟩ := harrE _ t' vs i (.inl ⟨n, rfl⟩) hsup henc hv0
        exact ⟨code, sv, hc, rfl, hsup, hs, hr, hl⟩
    | bool b => cases s <;> simp [stepV] at hstep
    | uint n => cases s <;> simp [stepV] at hstep
  | darray e =>
    cases v with
    | seq vs =>
      simp only [supported] at hsup
      cases s with
      | tup i => simp [stepV] at hstep
      | arrC i =>
        simp only [stepV, Option.map_eq_some_iff] at hstep
        obtain ⟨v0, hv0, hp⟩ := hstep
        cases hp
        obtain ⟨code, sv, hc, hs, hr, hl⟩ := harrC _ t' vs i (.inr rfl) hsup henc hv0
        exact ⟨code, sv, hc, rfl, hsup, hs, hr, hl⟩
      | arrE i =>
        simp only [stepV, Option.map_eq_some_iff] at hstep
        obtain ⟨v0, hv0, hp⟩ := hstep
        cases hp
        obtain ⟨code, sv, hc, hs, hr, hl⟩ := harrE _ t' vs i (.inr rfl) hsup henc hv0
        exact ⟨code, sv, hc, rfl, hsup, hs, hr, hl⟩
    | bool b => cases s <;> simp [stepV] at hstep
    | uint n => cases s <;> simp [stepV] at hstep
  | bool => cases v <;> cases s <;> simp [stepV] at hstep
  | byte => cases v <;> cases s <;> simp [stepV] at hstep
  | uint _ => cases v <;> cases s <;> simp [stepV] at hstep
  | address => cases v <;> cases s <;> simp [stepV] at hstep
  | string => cases v <;> cases s <;> simp [stepV] at hstep

/-- a value from which a further step is possible is stored as its encoding -/
theorem stored_bytes_of_step (t : Ty) (v : V) (s : Step) (p : Ty × V) (sv : Val)
    (hstep : stepV t v s = some p) (hs : stored t v = some sv) :
    t ≠ .bool ∧ ∃ bs, encode t v = some bs ∧ sv = .b bs := by
  cases t <;> cases v <;> cases s <;> simp [stepV] at hstep <;>
    (simp only [stored, Option.map_eq_some_iff] at hs
     obtain ⟨bs, hb, rfl⟩ := hs
     exact ⟨by simp, bs, hb, rfl⟩)

/-- continuation-passing composition used by `pathCode` -/
def stepK (code : Code) (k : Val → M Val) : Val → M Val := fun v =>
  match v with
  | .b bs =>
    match code bs with
    | .ok v' => k v'
    | .error f => .error f
  | .u _ => .error (.typeErr "expected bytes")

theorem pathCode_cons (t : Ty) (s : Step) (rest : List Step) (code : Code) (t1 tf : Ty) (k : Val → M Val)
    (hc : stepCode t s = .ok code) (hty : stepTy t s = some t1) (hk : pathCode t1 rest = .ok (tf, k)) :
    pathCode t (s :: rest) = .ok (tf, stepK code k) := by
  rw [pathCode]; simp only [hc, hty, hk]; rfl

/-- **path_correct**: decoding followed by any path of in-range element accesses (tuple index,
    array index as Python int or run-time value, nested arbitrarily) reaches exactly the
    component of the original value that the path denotes. -/
theorem path_correct : ∀ (path : List Step) (t : Ty) (v : V) (bs : Bytes) (t' : Ty) (v' : V),
    supported t = true → encode t v = some bs → bs.length < two64 → pathV t v path = some (t', v') →
    ∀ sv0, stored t v = some sv0 →
    ∃ k sv, pathCode t path = .ok (t', k) ∧ stored t' v' = some sv ∧ k sv0 = .ok sv
  | [], t, v, bs, t', v', _, _, _, hp, sv0, hs0 => by
    simp only [pathV, Option.some.injEq, Prod.mk.injEq] at hp
    obtain ⟨rfl, rfl⟩ := hp
    exact ⟨_, sv0, rfl, hs0, rfl⟩
  | s :: rest, t, v, bs, t', v', hsup, henc, hlen, hp, sv0, hs0 => by
    simp only [pathV] at hp
    split at hp
    · rename_i t1 v1 hstep
      obtain ⟨hnb, bs0, hb0, rfl⟩ := stored_bytes_of_step t v s _ sv0 hstep hs0
      rw [henc] at hb0; cases hb0
      obtain ⟨code, sv1, hc, hty, hsup1, hs1, hr, hl⟩ := step_correct t v bs s t1 v1 hsup henc hlen hstep
      cases rest with
      | nil =>
        simp only [pathV, Option.some.injEq, Prod.mk.injEq] at hp
        obtain ⟨rfl, rfl⟩ := hp
        exact ⟨stepK code (fun v => .ok v), sv1, pathCode_cons t s [] code t1 t1 _ hc hty rfl, hs1,
          by simp [stepK, hr]⟩
      | cons s2 rest2 =>
        have hp' := hp
        simp only [pathV] at hp'
        split at hp'
        · rename_i t2 v2 hstep2
          obtain ⟨hnb1, bs1, hb1, rfl⟩ := stored_bytes_of_step t1 v1 s2 _ sv1 hstep2 hs1
          have hlen1 : bs1.length < two64 := Nat.lt_of_le_of_lt (hl hnb1 bs1 hb1) hlen
          obtain ⟨k, sv, hk, hs, hrun⟩ :=
            path_correct (s2 :: rest2) t1 v1 bs1 t' v' hsup1 hb1 hlen1 hp (.b bs1) hs1
          exact ⟨stepK code k, sv, pathCode_cons t s _ code t1 t' k hc hty hk, hs, by simp [stepK, hr, hrun]⟩
        · cases hp'
    · cases hp

/-- top-level `v.decode(bytes)` of a reference encoding stores the value -/
theorem decodeTop_correct (t : Ty) (v : V) (bs : Bytes) (hsup : supported t = true)
    (henc : encode t v = some bs) :
    ∃ code sv, decodeTop t = .ok code ∧ stored t v = some sv ∧ code bs = .ok sv := by
  have hck := decodeCheck_ok t hsup false false false rfl
  have hcode : decodeTop t = .ok (fun bs => decodeRun t bs none none none) := by
    simp only [decodeTop, decodeInto, Option.isSome_none, hck]; rfl
  suffices h : ∃ sv, stored t v = some sv ∧ decodeRun t bs none none none = .ok sv by
    obtain ⟨sv, h1, h2⟩ := h
    exact ⟨_, sv, hcode, h1, h2⟩
  by_cases hb : t = .bool
  · subst hb
    obtain ⟨b, rfl, _, hs⟩ := stored_bool v bs henc
    refine ⟨_, hs, ?_⟩
    simp only [encode, Option.some.injEq] at henc
    subst henc
    cases b <;> decide
  · have hsto := stored_of_encode t v bs henc hb
    refine ⟨_, hsto, ?_⟩
    cases hd : isDynamic t with
    | true =>
      have hval : valOf t bs = .b bs := by cases t <;> simp_all [valOf, isDynamic]
      rw [hval, decodeRun_dynamic t hd]
      simp [substringForDecoding, evalSlice, Except.map]
    | false =>
      have hl := encode_len_static t v bs henc hd
      have hsl : sliceB bs 0 (0 + staticLen t) = .ok bs := by
        rw [sliceB_ok bs 0 _ (by omega) (by omega)]
        simp [← hl]
      exact (decodeRun_static t bs bs 0 hsup hb hd hsl).2.2.2 rfl hl.symm

/-- **decodePath_correct**: `decode()` of the reference encoding followed by a path of in-range
    element accesses yields the stored form of the component the path denotes. -/
theorem decodePath_correct (t : Ty) (v : V) (bs : Bytes) (path : List Step) (t' : Ty) (v' : V)
    (hsup : supported t = true) (henc : encode t v = some bs) (hlen : bs.length < two64)
    (hp : pathV t v path = some (t', v')) :
    ∃ code sv, decodePath t path = .ok (t', code) ∧ stored t' v' = some sv ∧ code bs = .ok sv := by
  obtain ⟨c0, sv0, hc0, hs0, hr0⟩ := decodeTop_correct t v bs hsup henc
  obtain ⟨k, sv, hk, hs, hr⟩ := path_correct path t v bs t' v' hsup henc hlen hp sv0 hs0
  refine ⟨fun bs => match c0 bs with | .ok v => k v | .error f => .error f, sv, ?_, hs, by simp [hr0, hr]⟩
  simp only [decodePath, hc0, hk]
  rfl

/-! ### out of range -/

/-
  The property as stated ("indexing an array outside its bounds makes the program fail rather
  than return data"), at full strength:

    theorem arrayElem_oob_fails (arr e : Ty) (vs : List V) (bs : Bytes) (i : Nat)
        (harr : (∃ n, arr = .sarray e n) ∨ arr = .darray e) (hsup : supported e = true)
        (henc : encode arr (.seq vs) = some bs) (hi : vs.length ≤ i) (h64 : i < two64) :
        ∃ code f, arrayElem arr = .ok code ∧ code bs i = .error f

  It is FALSE of the unchanged code (and of this model, which agrees with the real programs on
  every executed case): `oob_bool_counterexample`, `oob_dynamic_element_counterexample`,
  `oob_zero_width_counterexample` below.  What is true: `arrayElem_oob_fails_partial`.
-/

theorem decodeRun_static_fail (t : Ty) (bs : Bytes) (off : Nat) (hs : supported t = true)
    (hb : t ≠ .bool) (hd : isDynamic t = false) (hpos : 0 < staticLen t)
    (hout : bs.length < off + staticLen t) :
    ∃ f, decodeRun t bs (some off) none (some (staticLen t)) = .error f := by
  have hsl : ∀ k, bs.length < off + k → ∃ f, sliceB bs off (off + k) = .error f := by
    intro k hk
    simp only [sliceB]
    rw [if_neg (by omega)]
    exact ⟨_, rfl⟩
  have hget : bs.length < off + 1 → ∃ f, opGetByte bs off = .error f := by
    intro h
    have : bs[off]? = none := List.getElem?_eq_none (by omega)
    simp only [opGetByte, this]
    exact ⟨_, rfl⟩
  cases t with
  | bool => exact absurd rfl hb
  | string => simp [isDynamic] at hd
  | darray _ => simp [isDynamic] at hd
  | byte => simpa [decodeRun] using hget (by simpa [staticLen] using hout)
  | uint bits =>
    simp only [supported, uintSupported, Bool.or_eq_true, beq_iff_eq] at hs
    simp only [staticLen] at hout
    rcases hs with ((rfl | rfl) | rfl) | rfl
    · simpa [decodeRun] using hget (by simpa using hout)
    · obtain ⟨f, hf⟩ := hsl 2 (by simpa using hout)
      exact ⟨f, by simp [decodeRun, opExtractUint, hf, Except.map]⟩
    · obtain ⟨f, hf⟩ := hsl 4 (by simpa using hout)
      exact ⟨f, by simp [decodeRun, opExtractUint, hf, Except.map]⟩
    · obtain ⟨f, hf⟩ := hsl 8 (by simpa using hout)
      exact ⟨f, by simp [decodeRun, opExtractUint, hf, Except.map]⟩
  | address =>
    obtain ⟨f, hf⟩ := hsl _ hout
    exact ⟨f, by simp [decodeRun, substringForDecoding, evalSlice, hf, Except.map]⟩
  | sarray e' n =>
    obtain ⟨f, hf⟩ := hsl _ hout
    exact ⟨f, by simp [decodeRun, substringForDecoding, evalSlice, hf, Except.map]⟩
  | tuple ts =>
    obtain ⟨f, hf⟩ := hsl _ hout
    exact ⟨f, by simp [decodeRun, substringForDecoding, evalSlice, hf, Except.map]⟩

/-- length of an array of `n` static, non-bool elements -/
theorem sarray_static_length (e : Ty) (n : Nat) (vs : List V) (bs : Bytes) (hb : e ≠ .bool)
    (hd : isDynamic e = false) (h : encode (.sarray e n) (.seq vs) = some bs) :
    bs.length = n * staticLen e := by
  rw [encode_len_static _ _ _ h (by simpa [isDynamic] using hd), staticLen_sarray e n hb, headLen, hd]
  rfl

/-- the code `ArrayElement.store_into` emits for static, non-bool elements -/
def staticElemCode (e : Ty) (s : Nat) (lengthDynamic : Bool) : Bytes → Nat → M Val := fun bs idx => do
  let byteIndex0 ← opMul s idx
  let byteIndex ← if lengthDynamic then opAdd byteIndex0 2 else pure byteIndex0
  decodeRun e bs (some byteIndex) none (some s)

theorem arrayElemCode_static (e : Ty) (n : Option Nat) (hsup : supported e = true) (hb : e ≠ .bool)
    (hd : isDynamic e = false) : arrayElemCode e n = .ok (staticElemCode e (staticLen e) n.isNone) := by
  have hnb := isBool_false_of_ne hb
  have hstr : stride e = .ok (staticLen e) := by rw [stride_eq, headLen, hd]; rfl
  have hck := decodeCheck_ok e hsup true false true rfl
  simp only [arrayElemCode, hnb, Bool.false_eq_true, ↓reduceIte, hstr, isDyn_eq, hd, hck]
  rfl

theorem staticElemCode_fail (e : Ty) (bs : Bytes) (i m : Nat) (d : Bool) (hsup : supported e = true)
    (hb : e ≠ .bool) (hd : isDynamic e = false) (hpos : 0 < staticLen e) (hi : m ≤ i)
    (hlen : bs.length = (if d then 2 else 0) + staticLen e * m) :
    ∃ f, staticElemCode e (staticLen e) d bs i = .error f := by
  have hmono : staticLen e * m ≤ staticLen e * i := Nat.mul_le_mul_left _ hi
  simp only [staticElemCode, bind, Except.bind, pure, Except.pure]
  cases hm : opMul (staticLen e) i with
  | error f => exact ⟨f, rfl⟩
  | ok b0 =>
    simp only [opMul] at hm
    split at hm
    · cases hm
      cases d with
      | false =>
        simp only [Bool.false_eq_true, ↓reduceIte, Nat.zero_add] at hlen ⊢
        exact decodeRun_static_fail e bs _ hsup hb hd hpos (by omega)
      | true =>
        simp only [↓reduceIte] at hlen ⊢
        cases ha : opAdd (staticLen e * i) 2 with
        | error f => exact ⟨f, rfl⟩
        | ok b2 =>
          simp only [opAdd] at ha
          split at ha
          · cases ha
            exact decodeRun_static_fail e bs _ hsup hb hd hpos (by omega)
          · cases ha
    · cases hm

/-- **arrayElem_oob_fails_partial**: for arrays (static or dynamic) whose elements are static,
    not bool and not zero-width, every index at or beyond the length makes the emitted code fail
    (`extract3` / `extract_uintN` / `getbyte` range check, or `*`/`+` overflow). -/
theorem arrayElem_oob_fails_partial (arr e : Ty) (vs : List V) (bs : Bytes) (i : Nat)
    (harr : (∃ n, arr = .sarray e n) ∨ arr = .darray e) (hsup : supported e = true)
    (hb : e ≠ .bool) (hd : isDynamic e = false) (hpos : 0 < staticLen e)
    (henc : encode arr (.seq vs) = some bs) (hi : vs.length ≤ i) :
    ∃ code f, arrayElem arr = .ok code ∧ code bs i = .error f := by
  rcases harr with ⟨n, rfl⟩ | rfl
  · obtain ⟨hn, _, _⟩ := encode_sarray_parts henc
    have hlen := sarray_static_length e n vs bs hb hd henc
    rw [← hn, Nat.mul_comm] at hlen
    obtain ⟨f, hf⟩ := staticElemCode_fail e bs i vs.length false hsup hb hd hpos hi (by simpa using hlen)
    exact ⟨_, f, arrayElemCode_static e (some n) hsup hb hd, hf⟩
  · obtain ⟨hl, ps, body, hps, hasm, hbs⟩ := encode_darray_parts henc
    have hbody : encode (.sarray e vs.length) (.seq vs) = some body := by
      simp [encode, hl, hps, hasm]
    have hlen := sarray_static_length e vs.length vs body hb hd hbody
    have hbl : bs.length = 2 + body.length := by rw [hbs]; simp
    rw [Nat.mul_comm] at hlen
    obtain ⟨f, hf⟩ := staticElemCode_fail e bs i vs.length true hsup hb hd hpos hi (by simp; omega)
    exact ⟨_, f, arrayElemCode_static e none hsup hb hd, hf⟩

/-- **oob_bool_counterexample**: `bool[3]` = (true,true,true) is the single byte `e0`; the emitted
    code for a run-time index is a bare `getbit`, so index 5 reads a padding bit and returns
    `false` instead of failing (first failing index: 8). -/
theorem oob_bool_counterexample :
    encode (.sarray .bool 3) (.seq [.bool true, .bool true, .bool true]) = some [0xe0] ∧
    ∃ code, arrayElem (.sarray .bool 3) = .ok code ∧ code [0xe0] 5 = .ok (.u 0) ∧
      (∃ f, code [0xe0] 8 = .error f) := by
  refine ⟨by decide, _, rfl, by decide, ?_⟩
  exact ⟨_, rfl⟩

/-- **oob_dynamic_element_counterexample**: `string[2]` = ("","") indexed by 2 reads its "head
    slots" from the tail (the two length prefixes `0000`) and returns the empty byte string –
    which is not even the encoding of a string. -/
theorem oob_dynamic_element_counterexample :
    encode (.sarray .string 2) (.seq [.seq [], .seq []]) = some [0, 4, 0, 6, 0, 0, 0, 0] ∧
    ∃ code, arrayElem (.sarray .string 2) = .ok code ∧ code [0, 4, 0, 6, 0, 0, 0, 0] 2 = .ok (.b []) :=
  ⟨by decide, _, rfl, by decide⟩

/-- the same through a dynamic array and a Python-int index (which no build-time check can reject) -/
theorem oob_dynamic_array_counterexample :
    encode (.darray .bool) (.seq [.bool true, .bool true, .bool true]) = some [0, 3, 0xe0] ∧
    ∃ code, arrayElemConst (.darray .bool) 6 = .ok code ∧ code [0, 3, 0xe0] = .ok (.u 0) :=
  ⟨by decide, _, rfl, by decide⟩

/-- degenerate: elements with an empty encoding are "found" at every index -/
theorem oob_zero_width_counterexample :
    encode (.sarray (.tuple []) 3) (.seq [.seq [], .seq [], .seq []]) = some [] ∧
    ∃ code, arrayElem (.sarray (.tuple []) 3) = .ok code ∧ code [] 100 = .ok (.b []) :=
  ⟨by decide, _, rfl, by decide⟩

/-- a Python-int index at or beyond the length of a *static* array is rejected at build time -/
theorem arrayElemConst_static_rejects (e : Ty) (n i : Nat) (h : n ≤ i) :
    arrayElemConst (.sarray e n) i = .error "TealInputError: Index out of bounds" := by
  simp [arrayElemConst, arrayOf, h]

/-! ### the opcode choice of `substring.py` -/

open PyTealV.Comp PyTealV.Src PyTealV.Proofs.Ops PyTealV.Proofs.Shape in
/-- operands the lowered instruction finds on the stack (top first) -/
def lowStack (x : Val) : Low → List Val
  | .one _ => [x]
  | .consts _ a b => [.u b, .u a, x]
  | .asGiven _ => []

open PyTealV.Comp PyTealV.Src PyTealV.Proofs.Ops PyTealV.Proofs.Shape in
/-- **substring_choice_equiv**: for all constant ranges and every program version, whichever
    opcode `SubstringExpr/ExtractExpr/SuffixExpr.__get_op` picks (`extract s l`, `extract3` with
    pushed constants, `substring s e`, `substring3`, `extract s 0`, `dig 1; len; substring3`)
    computes what the generic three-operand form computes on the same string – same bytes, or
    failure in both (incl. the switch at 256 and `extract s 0` = suffix).  `BlockSim … ops gst sst
    op`: running `ops` on stack `gst ++ σ` equals running the source-level `op` on `sst`. -/
theorem substring_choice_equiv (cx : Ctx) (σ : List Val) (ic : List Nat) (bcs : List Bytes) (w : World)
    (version st y : Nat) (x : Val) :
    -- Substring(x, Int st, Int y)
    (∀ low, lowerSubstring version (.int st) (.int y) = .ok low →
      low = .asGiven (.prim "substring3" []) ∨
      BlockSim cx [lowInstr low] (lowStack x low) [.u y, .u st, x] "substring3" σ ic bcs w) ∧
    -- Extract(x, Int st, Int y)
    (lowerExtract (.int st) (.int y) = .asGiven (.prim "extract3" []) ∨
      BlockSim cx [lowInstr (lowerExtract (.int st) (.int y))] (lowStack x (lowerExtract (.int st) (.int y)))
        [.u y, .u st, x] "extract3" σ ic bcs w) ∧
    -- Suffix(x, Int st)
    (st < 256 → BlockSim cx [.prim "extract" [toString st, "0"]] [x] [.u st, x] "suffix" σ ic bcs w) ∧
    BlockSim cx suffixOps [.u st, x] [.u st, x] "suffix" σ ic bcs w := by
  refine ⟨?_, ?_, fun h => sim_suffix_imm x h, sim_suffix_gen (.u st) x⟩
  · intro low hlow
    rcases lowerSubstring_cases hlow with rfl | ⟨st', en', ha, hb, hle, hc⟩
    · exact .inl rfl
    · cases ha; cases hb
      rcases hc with ⟨rfl, h0, h1, h2⟩ | rfl | ⟨rfl, h1, h2⟩
      · exact .inr (sim_sub_extract x hle h1 h2 h0)
      · exact .inr (sim_sub_consts x hle)
      · exact .inr (sim_sub_substring x h1 h2)
  · rcases lowerExtract_cases (.int st) (.int y) with h | ⟨st', ln', ha, hb, hl, h1, h0, h2⟩
    · exact .inl h
    · cases ha; cases hb
      rw [hl]
      exact .inr (sim_ext_extract x h1 h2 h0)

/-- the source-level operations of `substring_choice_equiv` are the model's `evalSlice` -/
theorem evalSlice_is_execPrim (cx : Ctx) (w : World) (bs : Bytes) (s y : Nat) :
    execPrim cx "substring3" [] w [.u y, .u s, .b bs] = (evalSlice bs (.substring s y)).map (fun r => ([.b r], w)) ∧
    execPrim cx "extract3" [] w [.u y, .u s, .b bs] = (evalSlice bs (.extract s y)).map (fun r => ([.b r], w)) ∧
    execPrim cx "suffix" [] w [.u s, .b bs] = (evalSlice bs (.suffix s)).map (fun r => ([.b r], w)) := by
  refine ⟨?_, ?_, ?_⟩
  · unfold execPrim
    rw [Ops.m20_substring3]
    simp only [pop3, asB, asU, evalSlice, bind, Except.bind, pure, Except.pure, Except.map]
    try (cases sliceB bs s y <;> rfl)
  · unfold execPrim
    rw [Ops.m20_extract3]
    simp only [pop3, asB, asU, evalSlice, bind, Except.bind, pure, Except.pure, Except.map]
    try (cases sliceB bs s (s + y) <;> rfl)
  · unfold execPrim
    rw [Ops.m20_suffix]
    simp only [pop2, asB, asU, evalSlice, bind, Except.bind, pure, Except.pure, Except.map]
    try (cases sliceB bs s bs.length <;> rfl)

/-! ### non-vacuity -/

/-- `(bool,bool,uint16,string,bool[9],string)`: bool run, static member, two dynamic members
    around a packed bool array; every member through the model -/
example :
    let ts := [Ty.bool, .bool, .uint 16, .string, .sarray .bool 9, .string]
    let vs := [V.bool true, .bool false, .uint 513, .seq [.uint 104, .uint 105],
               .seq (List.replicate 9 (.bool true)), .seq [.uint 33]]
    supportedList ts = true ∧
    encode (.tuple ts) (.seq vs) =
      some [0x40 + 0x40, 2, 1, 0, 9, 0xff, 0x80, 0, 13, 0, 2, 104, 105, 0, 1, 33] ∧
    (obsList ts).bind (fun ks => indexTuple ks 1) = .ok (.bit 1) ∧
    (obsList ts).bind (fun ks => indexTuple ks 3) = .ok (.dec (some (.u16 3)) (some (.u16 7)) none) ∧
    (obsList ts).bind (fun ks => indexTuple ks 4) = .ok (.dec (some (.lit 5)) none (some (.lit 2))) ∧
    (obsList ts).bind (fun ks => indexTuple ks 5) = .ok (.dec (some (.u16 7)) none none) := by decide

example : ∃ code, tupleElem [Ty.bool, .bool, .uint 16, .string] 3 = .ok code ∧
    code [0x80, 2, 1, 0, 5, 0, 2, 104, 105] = .ok (.b [0, 2, 104, 105]) := ⟨_, rfl, by decide⟩

end PyTealV.Proofs.C07
