/- Recipes: S-expression form of programs and contexts (see DESIGN appendix B). -/
import PyTealV.Sexp
import PyTealV.Src
namespace PyTealV.Recipe
open PyTealV PyTealV.Avm PyTealV.Src

def val? : Sexp → Option Val
  | .list [.atom "u", n] => n.nat?.map .u
  | .list [.atom "b", h] => h.hex?.map .b
  | _ => none

partial def expr? : Sexp → Option Expr
  | .atom "break" => some .brk
  | .atom "continue" => some .cont
  | .atom "err" => some .err
  | .list (.atom "int" :: [n]) => n.nat?.map .int
  | .list (.atom "bytes" :: [h]) => h.hex?.map .bytes
  | .list (.atom "prim" :: .atom op :: .list imms :: args) => do
      let imms ← imms.mapM Sexp.str?
      let args ← args.mapM expr?
      pure (.prim op imms args)
  | .list [.atom "load", v] => v.nat?.map .load
  | .list [.atom "store", v, e] => do pure (.store (← v.nat?) (← expr? e))
  | .list [.atom "index", v] => v.nat?.map .index
  | .list [.atom "multi", .atom op, .list imms, .list args, .list outs] => do
      pure (.multi op (← imms.mapM Sexp.str?) (← args.mapM expr?) (← outs.mapM Sexp.nat?))
  | .list (.atom "seq" :: es) => do pure (.seq (← es.mapM expr?))
  | .list [.atom "if", c, t] => do pure (.ite (← expr? c) (← expr? t) none)
  | .list [.atom "if", c, t, e] => do pure (.ite (← expr? c) (← expr? t) (some (← expr? e)))
  | .list (.atom "cond" :: arms) => do
      let arms ← arms.mapM (fun a => match a with
        | .list [c, b] => do pure ((← expr? c), (← expr? b))
        | _ => none)
      pure (.cond arms)
  | .list [.atom "while", c, b] => do pure (.while_ (← expr? c) (← expr? b))
  | .list [.atom "for", i, c, s, b] => do pure (.for_ (← expr? i) (← expr? c) (← expr? s) (← expr? b))
  | .list [.atom "assert", c] => do pure (.assert_ (← expr? c))
  | .list [.atom "ret"] => some (.ret none)
  | .list [.atom "ret", e] => do pure (.ret (some (← expr? e)))
  | .list [.atom "exit", e] => do pure (.exit (← expr? e))
  | .list (.atom "call" :: f :: args) => do pure (.call (← f.nat?) (← args.mapM expr?))
  | .list [.atom "wideratio", .list ns, .list ds] => do pure (.wideRatio (← ns.mapM expr?) (← ds.mapM expr?))
  | .list [.atom "substring", a, b, c] => do pure (.substring (← expr? a) (← expr? b) (← expr? c))
  | .list [.atom "extract", a, b, c] => do pure (.extract (← expr? a) (← expr? b) (← expr? c))
  | .list [.atom "suffix", a, b] => do pure (.suffix (← expr? a) (← expr? b))
  | .list [.atom "note"] => some (.note none)
  | .list [.atom "note", e] => do pure (.note (some (← expr? e)))
  | .list [.atom "nonce", h, e] => do pure (.nonce (← h.hex?) (← expr? e))
  | _ => none

def param? : Sexp → Option (ParamKind × Var)
  | .list [.atom "val", v] => v.nat?.map (fun v => (.val, v))
  | .list [.atom "ref", v] => v.nat?.map (fun v => (.ref, v))
  | _ => none

def sub? : Sexp → Option SubDef
  | .list [.atom "sub", id, .atom name, .atom hasRet, .list (.atom "params" :: ps),
           .list (.atom "locals" :: ls), .list (.atom "reenters" :: rs), body] => do
      pure { id := ← id.nat?, name := name, params := ← ps.mapM param?, hasRet := hasRet == "1",
             body := ← expr? body, locals := ← ls.mapM Sexp.nat?, reenters := ← rs.mapM Sexp.nat? }
  | _ => none

def prog? : Sexp → Option Prog
  | .list [.atom "prog", .list (.atom "subs" :: ss), .list (.atom "mainlocals" :: ls), main] => do
      pure { subs := ← ss.mapM sub?, main := ← expr? main, mainLocals := ← ls.mapM Sexp.nat? }
  | _ => none

def field? : Sexp → Option (String × List Val)
  | .list (.atom f :: vs) => do pure (f, ← vs.mapM val?)
  | _ => none

def txn? : Sexp → Option (List (String × List Val))
  | .list (.atom "txn" :: fs) => fs.mapM field?
  | _ => none

def kv? : Sexp → Option (Bytes × Val)
  | .list [k, v] => do pure (← k.hex?, ← val? v)
  | _ => none

/-- (ctx MODE VERSION (args HEX*) (group TXN*) GI (global (F VAL)*) SALT (gstate (K V)*)) -/
def ctx? : Sexp → Option (Ctx × World)
  | .list [.atom "ctx", .atom mode, ver, .list (.atom "args" :: as), .list (.atom "group" :: ts), gi,
           .list (.atom "global" :: gs), salt, .list (.atom "gstate" :: kvs)] => do
      let gF ← gs.mapM (fun g => match g with
        | .list [.atom f, v] => do pure (f, ← val? v)
        | _ => none)
      let cx : Ctx := { mode := if mode == "sig" then .sig else .app, version := ← ver.nat?,
                        args := ← as.mapM Sexp.hex?, group := ← ts.mapM txn?, groupIndex := ← gi.nat?,
                        globalF := gF, oracleSalt := ← salt.nat? }
      let w : World := { globals := ← kvs.mapM kv? }
      pure (cx, w)
  | _ => none

end PyTealV.Recipe
