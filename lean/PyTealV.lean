import PyTealV.Util
import PyTealV.Avm.Syntax
import PyTealV.Avm.Sem
import PyTealV.Src
import PyTealV.Sexp
import PyTealV.Recipe
import PyTealV.Compare
