# op signature table in the order of execPrim's match (pops, pushes); None = not in fragment
SIGS = [
 ("+",2,1),("-",2,1),("*",2,1),("/",2,1),("%",2,1),("<",2,1),(">",2,1),("<=",2,1),(">=",2,1),
 ("&&",2,1),("||",2,1),("==",2,1),("!=",2,1),("!",1,1),("~",1,1),("&",2,1),("|",2,1),("^",2,1),
 ("shl",2,1),("shr",2,1),("sqrt",1,1),("bitlen",1,1),("exp",2,1),("mulw",2,2),("addw",2,2),("expw",2,2),
 ("divmodw",4,4),("divw",3,1),("len",1,1),("itob",1,1),("btoi",1,1),("concat",2,1),
 ("substring",1,1),("substring3",3,1),("extract",1,1),("extract3",3,1),
 ("extract_uint16",2,1),("extract_uint32",2,1),("extract_uint64",2,1),
 ("getbit",2,1),("setbit",3,1),("getbyte",2,1),("setbyte",3,1),("bzero",1,1),("replace2",2,1),("replace3",3,1),
 ("base64_decode",1,1),
 ("b+",2,1),("b-",2,1),("b*",2,1),("b/",2,1),("b%",2,1),("b<",2,1),("b>",2,1),("b<=",2,1),("b>=",2,1),
 ("b==",2,1),("b!=",2,1),("b|",2,1),("b&",2,1),("b^",2,1),("b~",1,1),("bsqrt",1,1),
 ("sha256",1,1),("keccak256",1,1),("sha512_256",1,1),("sha3_256",1,1),
 ("ed25519verify",3,1),("ed25519verify_bare",3,1),
 ("pop",1,0),("dup",1,2),("dup2",2,4),("swap",2,2),("select",3,1),
 ("dig",None,None),("bury",None,None),("cover",None,None),("uncover",None,None),("popn",None,None),("dupn",None,None),
 ("assert",1,0),("loads",1,1),("stores",2,0),
 ("txn",0,1),("txna",0,1),("txnas",1,1),("gtxn",0,1),("gtxna",0,1),("gtxnas",1,1),("gtxns",1,1),("gtxnsa",1,1),("gtxnsas",2,1),
 ("global",0,1),("arg",0,1),("arg_0",0,1),("arg_1",0,1),("arg_2",0,1),("arg_3",0,1),("args",1,1),
 ("app_global_get",1,1),("app_global_get_ex",2,2),("app_global_put",2,0),("app_global_del",1,0),
 ("app_local_get",2,1),("app_local_get_ex",3,2),("app_local_put",3,0),("app_local_del",2,0),("app_opted_in",2,1),
 ("balance",1,1),("min_balance",1,1),("asset_holding_get",2,2),("asset_params_get",1,2),("app_params_get",1,2),
 ("acct_params_get",1,2),("log",1,0),
 ("box_create",2,1),("box_put",2,0),("box_get",1,2),("box_len",1,2),("box_del",1,1),("box_extract",3,1),("box_replace",3,0),
 ("itxn_begin",0,0),("itxn_next",0,0),("itxn_field",1,0),("itxn_submit",0,0),("itxn",0,1),
 ("suffix",2,1),("vloads",1,1),("vstores",2,0),
]
def ident(op):
    m = {"+":"add","-":"sub","*":"mul","/":"div","%":"mod","<":"lt",">":"gt","<=":"le",">=":"ge","&&":"land","||":"lor",
         "==":"eq","!=":"ne","!":"not","~":"compl","&":"band","|":"bor","^":"bxor"}
    if op in m: return m[op]
    if op.startswith("b") and op[1:] in m: return "b"+m[op[1:]]
    return op
