from sigs import *
def m20_lemmas():
    n=len(SIGS)
    binders=' '.join(f'(a{i} : Unit → motive "{op}")' for i,(op,_,_) in enumerate(SIGS))
    args=' '.join(f'a{i}' for i in range(n))
    out=f'''section M20
universe u
variable (motive : String → Sort u) {binders} (dflt : (x : String) → motive x)
'''
    for i,(op,_,_) in enumerate(SIGS):
        out+=f'''theorem m20_{ident(op)} : @execPrim.match_20 motive "{op}" {args} dflt = a{i} () := rfl
'''
    out+='end M20\n'
    return out
if __name__=='__main__':
    print(m20_lemmas())
