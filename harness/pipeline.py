"""Program-level pipeline shared by the compiler properties: real compile → parse with the
independent grammar → certificate validation against the code-generation model → differential
execution (source semantics vs AVM on the real TEAL)."""
from __future__ import annotations

import json
from collections import Counter

from common import Driver, hexs
from recipes import Program, compile_real, gen_ctx, render_ctx, to_sexp


class Case:
    """One compiled program inside the driver."""

    _n = 0

    def __init__(self, d: Driver, prog: Program, version: int, **opts):
        Case._n += 1
        self.id = f"k{Case._n}"
        self.d, self.prog, self.version, self.opts = d, prog, version, opts
        self.sexp = to_sexp(prog)
        self.res = compile_real(prog, version, **opts)
        self.teal = self.res[1] if self.res[0] == "ok" else None
        self.loaded = False
        self.parse_error = None

    @property
    def ok(self):
        return self.res[0] == "ok"

    def load(self):
        if self.loaded or not self.ok:
            return
        a = self.d.ask(f"prog p{self.id} {self.sexp}")
        b = self.d.ask(f"teal t{self.id} {self.teal.encode('utf-8').hex()}")
        if a != "ok":
            self.parse_error = "recipe: " + a
        elif not b.startswith("ok"):
            self.parse_error = "teal: " + b
        self.loaded = True

    def validate(self) -> str:
        self.load()
        if self.parse_error:
            return "invalid " + self.parse_error
        if "(wideratio " in self.sexp:
            # WideRatio is modelled in the whole-program generator only (its arithmetic theorem is C16)
            out = self.d.ask(f"validateprog p{self.id} t{self.id} {self.version} 0")
            return out + " fragment=false" if out.startswith("valid") else out
        return self.d.ask(f"validate p{self.id} t{self.id} {self.version}")

    def cmp(self, ctx: dict, fuel=4000) -> str:
        self.load()
        if self.parse_error:
            return "perr " + self.parse_error
        c = self.d.ask(f"ctx c {render_ctx(ctx)}")
        if c != "ok":
            return "perr ctx " + c
        return self.d.ask(f"cmp p{self.id} t{self.id} c {fuel}")

    def replay_dict(self, ctx=None, extra=None) -> dict:
        from recipes import pack
        r = {"recipe": self.sexp, "program_pickle": pack(self.prog), "version": self.version, "mode": self.prog.mode, "options": self.opts,
             "teal": self.teal, "compile_result": list(self.res[:2]) if not self.ok else "ok"}
        if ctx is not None:
            r["ctx"] = render_ctx(ctx)
        if extra:
            r.update(extra)
        return r


def exec_diff(case: Case, r, n: int, stats: Counter):
    """Differential execution on n generated contexts. Returns (ctx, answer) of the first disagreement or None."""
    for _ in range(n):
        ctx = gen_ctx(r, case.prog.mode, case.version)
        out = case.cmp(ctx)
        head = out.split(" ", 2)
        stats["exec:" + " ".join(head[:2] if head[0] != "differ" else head[:1])] += 1
        if head[0] == "differ":
            return ctx, out
        if head[0] == "perr":
            stats["exec:perr"] += 1
            return ctx, out
    return None


def replay_case(path: str) -> int:
    """Generic replay: re-run source semantics and AVM on the recorded TEAL and context."""
    body = json.loads(open(path).read())
    d = Driver()
    print("what:", body.get("what"))
    if "program_pickle" in body:
        from recipes import unpack
        prog = unpack(body["program_pickle"])
        res = compile_real(prog, body["version"], **body.get("options", {}))
        print("recompiled with the current /repo:", res[0], (res[1:] if res[0] != "ok" else ""))
        if res[0] == "ok":
            if body.get("teal") and res[1] != body["teal"]:
                print("NOTE: the TEAL emitted now differs from the recorded one; using the current one")
            body["teal"] = res[1]
        from recipes import to_sexp
        body["recipe"] = to_sexp(prog)      # rendered afresh (keys re-established for this program)
    if "recipe" in body and body.get("teal"):
        print(d.ask(f"prog p {body['recipe']}"))
        print(d.ask(f"teal t {body['teal'].encode('utf-8').hex()}"))
        if "(subs)" in body["recipe"] and "(wideratio " not in body["recipe"]:
            print("validate:", d.ask(f"validate p t {body['version']}"))
        else:
            opts = body.get("options", {})
            fp = opts.get("frame_pointers", body["version"] >= 8)
            print("validateprog:", d.ask(f"validateprog p t {body['version']} {1 if fp else 0}"))
        if "ctx" in body:
            print(d.ask(f"ctx c {body['ctx']}"))
            print("source :", d.ask("eval p c 4000"))
            print("avm    :", d.ask("exec t c 32000"))
            print("compare:", d.ask("cmp p t c 4000"))
    else:
        print(json.dumps(body, indent=1)[:4000])
    d.close()
    return 0


def load_corpus(prop: str):
    """minimised past failures (recipes that exposed a seeded or genuine defect): run first by the checks"""
    from common import VERIF
    from recipes import unpack
    out = []
    d = VERIF / "corpus" / prop
    if d.is_dir():
        for f in sorted(d.glob("*.json")):
            try:
                b = json.loads(f.read_text())
                out.append((f.name, unpack(b["program_pickle"]), b["version"], b.get("options", {})))
            except Exception:  # noqa: BLE001
                continue
    return out
