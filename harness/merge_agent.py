"""Coordinator helper: copy an agent's new files into /verif and merge the Cmd.lean registration
and known_findings.json entries.  usage: merge_agent.py <scratch-verif-dir> <relative files...>"""
import json, re, shutil, sys
from pathlib import Path

src = Path(sys.argv[1]); dst = Path("/verif")
for rel in sys.argv[2:]:
    (dst / rel).parent.mkdir(parents=True, exist_ok=True)
    shutil.copy2(src / rel, dst / rel)
    print("copied", rel)
# Cmd.lean
a = (src / "lean/PyTealV/Cmd.lean").read_text(); b = (dst / "lean/PyTealV/Cmd.lean").read_text()
imports = [l for l in a.splitlines() if l.startswith("import ") and l not in b]
entries = [l for l in a.splitlines() if re.match(r'\s*\("', l) and l.strip().rstrip(",") not in {x.strip().rstrip(",") for x in b.splitlines()}]
if imports or entries:
    lines = b.splitlines()
    # imports after the last import line
    li = max(i for i, l in enumerate(lines) if l.startswith("import "))
    lines[li + 1:li + 1] = imports
    # entries before the closing bracket of extraCommands
    ci = next(i for i, l in enumerate(lines) if l.strip() == "]")
    ents = [e.rstrip().rstrip(",") + "," for e in entries]
    # make sure the previous last entry ends with a comma
    j = ci - 1
    while j >= 0 and not lines[j].strip():
        j -= 1
    if re.match(r'\s*\("', lines[j]) and not lines[j].rstrip().endswith(","):
        lines[j] = lines[j].rstrip() + ","
    lines[ci:ci] = ents
    # last entry: strip trailing comma
    k = ci + len(ents) - 1
    lines[k] = lines[k].rstrip().rstrip(",")
    (dst / "lean/PyTealV/Cmd.lean").write_text("\n".join(lines) + "\n")
    print("Cmd.lean: +%d imports, +%d entries" % (len(imports), len(entries)))
# known findings
kf_s = src / "known_findings.json"
if kf_s.exists():
    ks = json.loads(kf_s.read_text()); kd = json.loads((dst / "known_findings.json").read_text())
    have = {(f.get("property"), f.get("key")) for f in kd["findings"]}
    RETIRED = {("C17", "C17-dead-load-after-return-reported"), ("C09", "C09-contract-ignores-overriding-name"), ("C11", "C11-proto-leak-after-failed-compile"), ("C05", "C05-spill-return-kind"), ("C04", "C04-txna-index-over-255"), ("C04", "C04-assetcreator-below-v5"), ("C04", "C04-name-newline"), ("C18", "C18-name-newline"), ("C12", "C12-index-over-255"), ("C04", "C04-intc-over-255"), ("C13", "methodsig-unescaped")}   # decided not to be findings; never re-import
    add = [f for f in ks.get("findings", []) if (f.get("property"), f.get("key")) not in have and (f.get("property"), f.get("key")) not in RETIRED]
    kd["findings"] += add
    (dst / "known_findings.json").write_text(json.dumps(kd, indent=1))
    print("known_findings: +%d" % len(add))
