"""Regenerates the Lean data tables under lean/PyTealV/Gen/ from the LIVE PyTeal modules
(`common.REPO`), on every run of a check that depends on them.  A file is rewritten only when
its content changes, so an unchanged tree costs no Lean rebuild, and a changed `min_version`
in `pyteal/ir/ops.py` (or in one of the field enums) changes `Gen/*.lean` and thereby breaks the
`decide` proofs of `Proofs/C04.lean` that quantify over the complete tables.

  Gen/OpTable.lean     opTable      : (op text, min_version, Signature?, Application?)   per member of pyteal.ir.ops.Op
  Gen/FieldTable.lean  txnFields    : (arg_name, min_version, is_array, uint64?)           per TxnField
                       globalFields : (arg_name, min_version, uint64?)                     per GlobalField
                       simpleFields : (group, arg_name, min_version, type?)                the other named immediates

Every table `t` is emitted a second time as `tK` with each name replaced by the list of its code
points packed into one number (`OpSpec.Nm.ofString`): the kernel compares number literals fast and `String`s
slowly.  `Proofs/C04.lean` proves `t.map key = tK` (one pass) and does the look-ups on `tK`.
"""
from __future__ import annotations

import inspect
import sys
from pathlib import Path

from common import LEAN, REPO

GEN = LEAN / "PyTealV" / "Gen"


def _pt():
    if str(REPO) not in sys.path:
        sys.path.insert(0, str(REPO))
    import pyteal as pt  # noqa: E402
    return pt


def lean_str(s: str) -> str:
    out = ['"']
    for ch in s:
        o = ord(ch)
        if ch == '"':
            out.append('\\"')
        elif ch == "\\":
            out.append("\\\\")
        elif ch == "\n":
            out.append("\\n")
        elif ch == "\t":
            out.append("\\t")
        elif ch == "\r":
            out.append("\\r")
        elif o < 32 or o == 127:
            out.append("\\x%02x" % o)
        else:
            out.append(ch)
    out.append('"')
    return "".join(out)


def lean_key(s: str) -> str:
    """`OpSpec.Nm.ofString`: code points + 1 as base-2^21 digits, first character least significant"""
    v = 0
    for ch in reversed(s):
        v = ord(ch) + 1 + 2097152 * v
    return str(v)


def lean_bool(b) -> str:
    return "true" if b else "false"


def write_if_changed(path: Path, text: str) -> bool:
    path.parent.mkdir(parents=True, exist_ok=True)
    if path.exists() and path.read_text() == text:
        return False
    path.write_text(text)
    return True


# ------------------------------------------------------------------------------ extraction


def op_rows():
    pt = _pt()
    from pyteal.ir.ops import Mode, Op
    rows = []
    for op in Op:
        rows.append((op.value.value, int(op.min_version), bool(op.mode & Mode.Signature), bool(op.mode & Mode.Application)))
    return rows


def _is_uint(t):
    pt = _pt()
    return t == pt.TealType.uint64


def txn_rows():
    from pyteal.ast.txn import TxnField
    return [(f.arg_name, int(f.min_version), bool(f.is_array), _is_uint(f.type_of())) for f in TxnField]


def global_rows():
    from pyteal.ast.global_ import GlobalField
    return [(f.arg_name, int(f.min_version), _is_uint(f.type_of())) for f in GlobalField]


def _enum_rows(group, enum, typed):
    rows = []
    for f in enum:
        ty = None
        if typed:
            ty = _is_uint(f.type_of())
        rows.append((group, f.arg_name, int(f.min_version), ty))
    return rows


def _classmethod_rows(group, cls, nargs):
    """Field names that exist only as literals inside classmethods (AssetHolding, AssetParam,
    AppParam): call every public classmethod with dummy arguments and read the MaybeValue built.
    The minimum version is what the default compile check enforces: the op's min_version."""
    pt = _pt()
    rows = []
    for name, member in inspect.getmembers(cls):
        if name.startswith("_") or not callable(member):
            continue
        try:
            mv = member(*[pt.Int(0) for _ in range(nargs)])
        except Exception:  # noqa: BLE001
            continue
        imm = getattr(mv, "immediate_args", None)
        op = getattr(mv, "op", None)
        if not imm or op is None:
            continue
        rows.append((group, str(imm[0]), int(op.min_version), _is_uint(mv.types[0])))
    # order of declaration in the source file is irrelevant for the Lean side; sort for stability
    return sorted(set(rows))


def simple_rows():
    pt = _pt()
    from pyteal.ast.acct import AccountParamField
    from pyteal.ast.base64decode import Base64Encoding
    from pyteal.ast.block import BlockField
    from pyteal.ast.ec import EllipticCurve
    from pyteal.ast.ecdsa import EcdsaCurve
    from pyteal.ast.jsonref import JsonRefType
    from pyteal.ast.vrfverify import VrfVerifyStandard
    rows = []
    rows += _classmethod_rows("asset_holding", pt.AssetHolding, 2)
    rows += _classmethod_rows("asset_params", pt.AssetParam, 1)
    rows += _classmethod_rows("app_params", pt.AppParam, 1)
    rows += _enum_rows("acct_params", AccountParamField, True)
    rows += _enum_rows("base64", Base64Encoding, False)
    rows += _enum_rows("json", JsonRefType, True)
    rows += _enum_rows("ecdsa", EcdsaCurve, False)
    rows += _enum_rows("vrf", VrfVerifyStandard, False)
    rows += _enum_rows("block", BlockField, True)
    rows += _enum_rows("ec", EllipticCurve, False)
    return rows


# ------------------------------------------------------------------------------ rendering

HEADER = "-- GENERATED by harness/translate.py from the live PyTeal modules. Do not edit by hand.\n"


def render_op_table(rows) -> str:
    body = ",\n".join(f"  ({lean_str(n)}, {v}, {lean_bool(s)}, {lean_bool(a)})" for n, v, s, a in rows)
    bodyk = ",\n".join(f"  ({lean_key(n)}, {v}, {lean_bool(s)}, {lean_bool(a)})" for n, v, s, a in rows)
    return (HEADER + "namespace PyTealV.Gen\n\n"
            "/-- (opcode text, min_version, Signature mode, Application mode) for every member of `pyteal.ir.ops.Op` -/\n"
            "def opTable : List (String × Nat × Bool × Bool) := [\n" + body + "\n]\n\n"
            "/-- the same rows, names as `OpSpec.Nm` keys -/\n"
            "def opTableK : List (Nat × Nat × Bool × Bool) := [\n" + bodyk + "\n]\n\nend PyTealV.Gen\n")


def _opt_bool(b):
    return "none" if b is None else f"some {lean_bool(b)}"


def render_field_table(txn, glob, simple) -> str:
    out = [HEADER + "namespace PyTealV.Gen\n"]
    for kind, key in (("", lean_str), ("K", lean_key)):
        nm = "String" if kind == "" else "Nat"
        t = ",\n".join(f"  ({key(n)}, {v}, {lean_bool(arr)}, {lean_bool(u)})" for n, v, arr, u in txn)
        g = ",\n".join(f"  ({key(n)}, {v}, {lean_bool(u)})" for n, v, u in glob)
        s = ",\n".join(f"  ({key(grp)}, {key(n)}, {v}, {_opt_bool(u)})" for grp, n, v, u in simple)
        out.append("/-- (arg_name, min_version, is_array, type is uint64) for every member of `pyteal.TxnField` -/\n"
                   f"def txnFields{kind} : List ({nm} × Nat × Bool × Bool) := [\n" + t + "\n]\n")
        out.append("/-- (arg_name, min_version, type is uint64) for every member of `pyteal.GlobalField` -/\n"
                   f"def globalFields{kind} : List ({nm} × Nat × Bool) := [\n" + g + "\n]\n")
        out.append("/-- (group, arg_name, min_version, declared type is uint64 / bytes / none) for the other named immediates -/\n"
                   f"def simpleFields{kind} : List ({nm} × {nm} × Nat × Option Bool) := [\n" + s + "\n]\n")
    out.append("end PyTealV.Gen\n")
    return "\n".join(out)


def regenerate() -> dict:
    """Rewrite Gen/*.lean from the live modules. Returns what was found and whether files changed."""
    ops = op_rows()
    txn, glob, simple = txn_rows(), global_rows(), simple_rows()
    c1 = write_if_changed(GEN / "OpTable.lean", render_op_table(ops))
    c2 = write_if_changed(GEN / "FieldTable.lean", render_field_table(txn, glob, simple))
    return {"ops": ops, "txn": txn, "global": glob, "simple": simple, "changed": [n for n, c in (("OpTable", c1), ("FieldTable", c2)) if c],
            "repo": str(REPO)}


if __name__ == "__main__":
    r = regenerate()
    print(f"ops={len(r['ops'])} txn={len(r['txn'])} global={len(r['global'])} simple={len(r['simple'])} changed={r['changed']} repo={r['repo']}")
