"""Regenerates /verif/MANIFEST.json from the table below (run by hand after adding a check)."""
import json
from pathlib import Path

VERIF = Path(__file__).resolve().parent.parent
props = [json.loads(l) for l in open(VERIF / "properties.jsonl")]
base = json.load(open("/root/.vp/BASELINE.json"))

# id -> (category, technique, text, note, design_ref)
CHECKS = {
    "C01": ("translation_validation",
            "Lean 4: proven-sound certificate checker (simulation between model graph and real TEAL) + universal codegen-correctness theorem; differential execution as failing-input search",
            "Every explored program: the real compiler's TEAL is parsed by an independent grammar and a simulation certificate against the "
            "Lean code-generation model is checked by `Check.closed` (soundness theorem: equal outcomes on ALL contexts); the model itself is "
            "proved correct w.r.t. the source semantics for all trees of the fragment. Proof-strength over inputs and paths, "
            "validation-strength over programs; the real TEAL is additionally executed against the source semantics.",
            "Trusted: Lean kernel, AVM spec (Avm/*.lean), source semantics (Src.lean), recipe builders; subroutines are covered by C02, options by C03.",
            "DESIGN.md Part II C01"),
}

NOT_YET = "check not built yet (work in progress, see DESIGN.md section 10 build order)"


def main():
    checks = []
    for p in props:
        pid = p["id"]
        if pid not in CHECKS:
            continue
        cat, tech, text, note, ref = CHECKS[pid]
        checks.append({
            "property_id": pid,
            "quick_cmd": f"./check {pid} --tier quick",
            "thorough_cmd": f"./check {pid} --tier thorough",
            "evidence_file": f"evidence/{pid}.json",
            "replay_cmd_template": f"./check {pid} --replay {{path}}",
            "engine": "lean-model",
            "level_claimed": {"category": cat, "text": text, "design_ref": ref},
            "level_note": note,
            "technique": tech,
        })
    m = {
        "version": 1,
        "setup_cmd": "cd lean && lake build PyTealV driver",
        "hooks": {"guard": "ALGORAND_PYTEAL_VERIF",
                  "enable": "no source hooks exist; checks import /repo's working tree as is (./check sets the variable for future use)",
                  "baseline_off_cmd": base["cmd"].replace("--junitxml=<file>", "").strip(),
                  "source_commits": [], "add_only": True},
        "engines": [
            {"name": "lean-model", "path": "lean", "serves_properties": sorted(CHECKS),
             "kind_free_text": "Lean 4 executable specs (AVM, source semantics, ARC-4), models of PyTeal passes, theorems, verified checkers; native driver"},
            {"name": "harness", "path": "harness", "serves_properties": sorted(CHECKS),
             "kind_free_text": "Python: recipe generation, real-API builders, correspondence and oracle passes, evidence"}],
        "checks": checks,
        "notes": "See DESIGN.md. Properties move from not_applicable to checks as their machinery lands.",
        "not_applicable": [{"property_id": p["id"], "reason": NOT_YET} for p in props if p["id"] not in CHECKS],
    }
    (VERIF / "MANIFEST.json").write_text(json.dumps(m, indent=1))
    print("checks:", [c["property_id"] for c in checks])


if __name__ == "__main__":
    main()
