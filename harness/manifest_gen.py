"""Regenerates /verif/MANIFEST.json from the table below (run by hand after adding a check)."""
import json
from pathlib import Path

VERIF = Path(__file__).resolve().parent.parent
props = [json.loads(l) for l in open(VERIF / "properties.jsonl")]
base = json.load(open("/root/.vp/BASELINE.json"))

# id -> (category, technique, text, note, design_ref)
CHECKS = {
    "C01": ("translation_validation",
            "Lean 4: end-to-end theorem compile_correct_original (source semantics of the ORIGINAL tree vs the REAL TEAL under decidable hypotheses evaluated per program) = proven-sound certificate checker (simulation between model graph and real TEAL) + universal codegen-correctness theorem gen_correct + renaming invariance; differential execution as failing-input search",
            "Every explored program: the real compiler's TEAL is parsed by an independent grammar and a simulation certificate against the "
            "Lean code-generation model is checked by `Check.closed` (soundness theorem: equal outcomes on ALL contexts); the model itself is "
            "proved correct w.r.t. the source semantics for all trees of the fragment. Proof-strength over inputs and paths, "
            "validation-strength over programs; the real TEAL is additionally executed against the source semantics. The variable renaming the "
            "validator discovers is covered by Proofs/Rename.lean (renameOk, evaluated per program).",
            "Trusted: Lean kernel, AVM spec (Avm/*.lean), source semantics (Src.lean), recipe builders; subroutines are covered by C02, options by C03.",
            "DESIGN.md Part II C01"),
    "C02": ("translation_validation",
            "Lean 4: end-to-end theorem compile_correct_validated_prog (source semantics vs the REAL TEAL whenever the decidable hypothesis composedOk holds; evaluated per program) = universal code-generation theorem genProg_correct (Src.runProg vs the multi-routine graph machine, for every program of the decidable fragment inFragmentC: calls in operand/statement position, recursion with spill/restore, BOTH calling conventions, by-value and by-reference parameters) + proven-sound whole-program certificate checker (simR_sound: routine graphs of the code-generation model incl. prologues, frame_dig parameters, callsub with spill/restore, retsub vs the real TEAL, all contexts) + universal spill theorem tied to the real function on an exhaustive grid; differential execution against the source semantics; families and random ABI call graphs with independently computed verdicts",
            "Call-graph programs (self/mutual recursion, by-value/by-reference parameters, none/uint64/bytes/anytype/ABI results, calls in operand "
            "position, early Return) are compiled by the real compiler for versions 4..10 x frame_pointers x scratch_slots; the real TEAL is related "
            "to the model's routine graphs by a checked certificate and executed on the Lean AVM spec against the Lean source semantics on generated "
            "contexts. For programs inside inFragmentR (reported per run) the model graphs are PROVED to mean what the source program means.",
            "Trusted: AVM frame rules (callsub/retsub/proto/frame_dig/frame_bury), the source semantics of calls in Src.lean. Not proved (executed "
            "only): ABI outputs / ABI subroutines, WideRatio outside the side conditions W1/W2 (first two factors syntactically uint64, no exit/call in later factors: both needed, counterexample theorems), the optimiser. The theorems speak about the ORIGINAL "
            "program (renaming invariance Proofs/Rename.lean under the decidable renameOk, evaluated per program).",
            "DESIGN.md Part II C02"),
    "C03": ("proof",
            "Lean 4 proof (partial, labelled): slot_to_stack_sound_partial / optimizer_only_removes / execPrim_frame on a model of the scratch-slot optimiser (Iterate order, candidate scan, dependency scan, removal) against the block-graph machine; optimizer_counterexample proves the unrestricted statement false (known finding); the model is compared with the real apply_global_optimizations on generated block graphs; C03Options.options_independent / options_agree: version and frame-pointer settings of one program agree whenever both are inside the composed end-to-end theorems (hypotheses evaluated per program, optimiser off); every setting pair is also decided by differential execution of the real TEAL texts incl. the stack at every routine exit",
            "Optimiser: for every routine graph, context, fuel and start state, when every access to a cancelled slot belongs to an adjacent "
            "store/load pair (decidable; what the pass establishes except for the known finding) the optimised routine has the same halt, verdict, "
            "effects, remaining slots and stack. Tie: the real pass is run on generated graphs of real TealBlock objects and compared op for op with "
            "the model; every graph is also executed before/after. Version / frame-pointer settings: one program, every setting under which it "
            "compiles, executed on the same contexts (verdict, return value, effects, user-numbered slots, stack at routine exits for twins).",
            "Trusted: Lean kernel, AVM spec, block-graph machine, harness encoding of real graphs. The optimiser theorem is partial (hypothesis "
            "pairsOnly; underflow clause); equivalence across versions and across frame_pointers is a theorem for programs inside the composed fragments with the optimiser off, exploration otherwise. Two known findings "
            "(dead stores deleted by the optimiser leave their value on the stack, pinned by the repository's own optimizer_test; control transfer in operand position).",
            "DESIGN.md Part II C03"),
    "C15": ("proof",
            "Lean 4 proof: Base64-VLQ and Revision-3 mappings round-trip theorems (all integer lists / all well-formed tables), annotated-line stripping theorem against the TEAL tokeniser; correspondence with the real codecs; frame-capture parts decided by differential execution of generated source files with/without source maps",
            "Codec theorems are universal; the model is compared with the real _base64vlq_encode/_decode, R3SourceMap.to_json/from_json every "
            "run; the parts that depend on CPython frame introspection (TEAL identical with/without map, one entry per line, marker "
            "attribution) are decided by running generated multi-file projects in fresh processes (labelled exploration in the evidence).",
            "Trusted: Lean kernel, TEAL tokeniser spec, tabulate layout (checked on every produced line), CPython frames/executing/algosdk as "
            "runtime. Three known findings (user file whose path contains a PyTeal-internal path fragment is misattributed; the feature gate, and a source-map request in a router's second compilation, renumber scratch slots); one defect repaired (consistency recompile ignored assembly_type_track).",
            "DESIGN.md Part II C15"),
    "C04": ("proof",
            "Lean 4: verified legality / control-flow checker `Flow.wf` run on the real TEAL of every explored program (soundness theorems over Avm.step: no run-off, no undefined label, no retsub in main, no illegal opcode/immediate), finite-table theorems by decide +kernel over opcode and field tables regenerated from the live modules",
            "wf_sound_control / wf_sound_inside / wf_sound_illegal are proved for all programs, contexts and run lengths; the checker is run "
            "on the real output of every generated program, of an opcode/field catalogue at every version and mode, and of all golden TEAL "
            "files; `optable_agrees` / `fieldtable_agrees` compare the regenerated PyTeal tables with a hand-written AVM table entry by entry.",
            "Trusted: Lean kernel, hand-written OpSpec (anchored by 185 golden TEAL files), Avm grammar and semantics, translate.py. Five defects "
            "repaired with fix: commits (array index over 255, routine name with a line break, AssetCreator below v5, constant blocks over 256 entries, non-int slot ids written into the text); one remains (itxn_field fields that cannot be set are accepted by SetField).",
            "DESIGN.md Part II C04"),
    "C05": ("proof",
            "Lean 4: verified abstract interpreter `StackCheck` (certificate: abstract type stack per pc, routine summaries) run on the real TEAL of every explored program; soundness theorems over Avm.step (no underflow, no pop below the routine base, no frame misuse, type errors only where an operand is `any`), per-opcode signature lemmas against execPrim",
            "stackcheck_sound / run_sound / no_any_no_type_error hold for every accepted certificate, all contexts and run lengths; the checker "
            "decides per program ALL control-flow paths; it is run on the real output of generated programs (all versions, modes, options, "
            "subroutines, recursion, routers, ABI subroutines, multi-values) and all golden TEAL files.",
            "Trusted: Lean kernel, Avm semantics, field type table regenerated from the live enums (CtxOK hypothesis), signatures of the "
            "uncovered opcodes (divmodw, ledger look-ups returning bytes, itxn reads: programs using them are reported covered=false). "
            "Two known findings (control in operand position, optimiser dead stores).",
            "DESIGN.md Part II C05"),
    "C11": ("proof",
            "Lean 4 proof: session state machine of PyTeal's process-global state (session_inv and compile_history_independent for all histories; renaming invariance of slot assignment on the C10 model) checked against the real API after every operation; multi-process differential execution across hash seeds and prior histories",
            "The logic (counters, frame-pointer marker, declaration caches, relative-order dependence of slot/label numbering) is proved on "
            "the model and the model is compared with the real interpreter state after every API operation; hash-seed / fresh-process "
            "behaviour, which no Lean model exhibits, is decided by running the same target after different histories in separate "
            "interpreters (labelled exploration in the evidence).",
            "Trusted: Lean kernel, model = code (tied per operation), C10 slot model. One known finding (second Router.compile_program "
            "below v8 has slot-id ties whose numbering depends on set order; programs equal modulo slot renaming); one defect repaired.",
            "DESIGN.md Part II C11"),
    "C06": ("proof",
            "Lean 4 proof: descr_agree / uintSet_range / encodeTuple_correct / pySet_correct on a model of the TypeSpec descriptors and of the byte computation emitted by _encode_tuple, uint_set/uint_encode, Array.set, String/Address.set, over the ARC-4 specification; descriptor correspondence on every type shape; real programs built through the public API, compiled for v5..10 in scratch-slot and frame-variable back-ends, executed on the AVM spec and compared with algosdk",
            "For every nested type and well-typed input the modelled set() computes exactly Arc4.encode of the value; a Python int that "
            "does not fit is rejected while the program is built, an expression that does not fit makes the program fail, offsets >= 2^16 "
            "fail (build or run) and never wrap. Tied to the real code by descriptor comparison on every type shape and by executing the "
            "real TEAL of generated (type, value) programs and comparing the logged bytes with algosdk, Arc4.encode and the model.",
            "Trusted: Lean kernel, Arc4.lean (validated against algosdk every run), transcription of the ABI encoders (tied per case), AVM "
            "spec. Offsets near 2^16 are unreachable by execution (4096-byte AVM limit): that part rests on the theorem alone.",
            "DESIGN.md Part II C06"),
    "C07": ("proof",
            "Lean 4 proof: indexTuple_correct / arrayElem_inrange_correct / length_correct / path_correct on a model of the index computation the emitted decoding code performs, against the ARC-4 specification (decode_encode, split_assemble); substring_choice_equiv for every opcode choice; real decode()+element-access programs executed on the AVM spec and compared with algosdk and the Lean codec",
            "For all type shapes, values and in-range positions the modelled slice/bit positions are the ones the ARC-4 specification reads; "
            "the model is tied to the real code by executing the real TEAL of generated (type, value, access path) programs in both storage "
            "back-ends for versions 5..10 and comparing every logged component with algosdk, the Lean decoder and the model, including "
            "out-of-range indices.",
            "Trusted: Lean kernel, Arc4.lean (validated against algosdk), AVM spec, the hand-written model (tied per case). Three known "
            "findings: out-of-range index into bool arrays, arrays of dynamic elements and zero-width elements does not fail.",
            "DESIGN.md Part II C07"),
    "C08": ("proof",
            "Lean 4 proof: the model of the router's dispatch conditions equals a specification written from the property text for every configuration and call (induction over the method list); full call matrix executed on the real approval/clear TEAL of generated routers",
            "router_dispatch_code / router_dispatch_partial / router_dispatch_fails_iff are universal over configurations; real Router objects "
            "are compiled for versions 6..10 and executed on the complete call matrix (selector, argument count, OnCompletion 0..5, "
            "create/non-create), the handler that ran being observed through a distinguishing log.",
            "Trusted: Lean kernel, transcription of router.py (tied by execution), AVM spec, algosdk selectors. One known finding (an all-ALL "
            "MethodConfig also accepts OnCompletion=ClearState in the approval program).",
            "DESIGN.md Part II C08"),
    "C14": ("proof",
            "Lean 4 proof: the model of MethodCall's emitted itxn_field sequence equals the ARC-4 calling-convention specification for every signature with at most 15 non-transaction arguments (counterexample beyond); real MethodCall expressions compiled, executed on the AVM spec and compared with an independent algosdk-based client encoder",
            "methodcall_marshal_partial is universal over signatures, argument kinds and orders; the recorded inner group of the real TEAL "
            "must equal the model's settings and an independent ARC-4 client encoding; malformed argument lists must be rejected at build time.",
            "Trusted: Lean kernel, ARC-4 convention as written in the spec part (cross-checked with algosdk), inner-transaction semantics of "
            "the AVM spec. One known finding (no tuple packing beyond 15 arguments).",
            "DESIGN.md Part II C14"),
    "C09": ("proof",
            "Lean 4 proof: arg_binding (the model of the router's argument-decoding glue equals the callee side of the ARC-4 convention for every signature), tuple_cutoff via the ARC-4 codec theorems, return_logged_once, contract_selectors; decoding events of the real TEAL compared with the model; echoing handlers executed on groups built by an independent algosdk client",
            "Universal theorems over signatures (any number and order of plain, reference and transaction parameters); per generated signature "
            "the real approval TEAL's decoding events equal the model's instruction list and the executed handler echoes exactly what an "
            "independent ARC-4 client encoded; non-void results are logged once with the return prefix; the contract lists the dispatched methods.",
            "Trusted: Lean kernel, ARC-4 convention as written in the spec part (cross-checked with algosdk each run), Arc4.lean, AVM spec, "
            "algosdk selectors/encodings. Two defects repaired (contract ignored overriding_name; contract dropped a positional parameter named output).",
            "DESIGN.md Part II C09"),
    "C10": ("proof",
            "Lean 4 proof: injectivity / requested-id / range / totality theorems on a model of assignScratchSlotsToSubroutines, correspondence on random and boundary slot layouts, marker programs executed on the AVM spec",
            "Universal theorems (any number of slots, any routine layout, any iteration order of the slot set) about the model of slot "
            "collection and assignment; the model is compared with the real functions on generated layouts every run and marker programs "
            "(every variable written with a distinct marker, then read back) are compiled by the real compiler and executed.",
            "Trusted: Lean kernel, object identity model of ScratchSlot (re-checked each run), AVM spec for the marker programs.",
            "DESIGN.md Part II C10"),
    "C12": ("proof",
            "Lean 4 proof: constants_sound / index_in_block / index_fits / nonconstant_ops_preserved on a model of createConstantBlocks (all op lists), run-equality theorem for pairs accepted by a decidable checker; exact-text correspondence with the real pass; site-by-site decoding and differential execution of both real TEAL texts",
            "Every rewritten constant-load site denotes the original value and every block index points at the entry holding it, for all op "
            "lists; the model equals the real createConstantBlocks textually on generated lists and whole programs; pairs of real TEAL texts "
            "(assembleConstants off/on) are accepted by `checkAssembled`, whose theorem gives equal runs on every context.",
            "Trusted: Lean kernel, transcription of constants.py/util.py and the CPython codecs (tied by correspondence), AVM grammar and "
            "semantics; SHA-512/256 uninterpreted. One defect (index > 255 beyond 256 distinct repeated constants) was repaired with a fix: commit; index_fits is now a full theorem.",
            "DESIGN.md Part II C12"),
    "C16": ("proof",
            "Lean 4 proof: wideRatio_exact / wideRatio_never_wraps for all factor lists and all uint64 values against the shared opcode semantics; op-for-op correspondence with the real WideRatio emission; execution of the real TEAL on boundary factors against big-integer arithmetic",
            "The emitted op sequence yields exactly floor(prod n / prod d) when every running product fits 128 bits, the divisor is non-zero and "
            "the quotient fits 64 bits, and fails otherwise, for every number of factors and every value; the model's op list equals the "
            "real compiler's for all shapes up to 8x8 and versions 5..10.",
            "Trusted: Lean kernel, execPrim for mulw,*,+,divmodw,uncover,dig,cover,swap,pop,!,assert.",
            "DESIGN.md Part II C16"),
    "C18": ("proof",
            "Lean 4 proof: every emitted comment line is tokenless for any text, sanitised labels are legal and injective, Comment/Pragma/Nonce are transparent in the code-generation model and the source semantics; base/variant instruction-stream comparison of real outputs with the independent tokeniser; differential execution",
            "Text-safety theorems are universal over annotation texts; stream identity of real outputs is decided per explored program and "
            "insertion point (streams from the independent tokeniser, labels alpha-renamed, Nonce pair removed) with every difference "
            "re-classified (optimiser off, control-flow isomorphism, opcode multiset) and executed on the AVM spec.",
            "Trusted: TEAL grammar incl. the newline-only line rule, recipe builders, Python-side stream comparison. Four known findings "
            "(wrapped literal changes opcode selection; annotation blocks slot optimisation; comment block changes layout; "
            "long comment hits the recursion limit); the routine-name line break was repaired.",
            "DESIGN.md Part II C18"),
    "C19": ("proof",
            "Lean 4 proof: assignable_sound / assignable_encode / assignable_decode on a line-by-line model of type_spec_is_assignable_to over an ARC-4 specification whose decode∘encode identity is proved; exhaustive pair enumeration against the real function; algosdk encodings under both types",
            "For every pair of type specs the model accepts, the ARC-4 layouts are equal and every value encodes to the same bytes; the model "
            "equals the real function on all pairs of a bounded universe (137^2 quick, 815^2 thorough) plus random deep pairs; accepted pairs' "
            "sampled values are encoded by algosdk under both signatures.",
            "Trusted: Lean kernel, Arc4.lean (validated against algosdk every run), transcription of the match/isinstance/== logic.",
            "DESIGN.md Part II C19"),
    "C20": ("exploration",
            "exhaustive enumeration of small control skeletons x placements x versions x options plus random well-typed programs, long and deep programs against the real compiler; outcome-class correspondence with the total Lean code-generation model",
            "The real compiler must answer TEAL or a PyTeal error for every explored program and accept every program that fits the target; "
            "all control skeletons up to the tier's size are enumerated (loop first, Break/Continue-only bodies, empty sequences, both arms "
            "empty, nested loops) in main and as the first statement of a subroutine.",
            "Trusted: prediction of acceptability (harness operator table). Four crash defects were repaired with fix: commits; one known "
            "finding (recursion limit on very long / deep programs).",
            "DESIGN.md Part II C20"),
    "C13": ("proof",
            "Lean 4 proof: round-trip theorems of the literal emitters against an independent TEAL literal grammar (all byte strings / integers), exhaustive single-byte and byte-pair correspondence with the real escapeStr/Bytes/Int/Addr/MethodSignature",
            "For every byte string and integer the emitted token text decodes, under the independent grammar, to exactly the value written; the "
            "model of the emitters is compared with the real constructors on all single bytes, byte pairs and random texts, and the real "
            "emitted lines are decoded by the grammar and compared with Python's own decoding.",
            "Trusted: TEAL literal grammar (Avm/Syntax.lean), RFC 4648 reading, byte-level model of CPython's unicode-escape (validated "
            "exhaustively on 1- and 2-byte inputs); SHA-512/256 uninterpreted (selectors from algosdk). One known finding (Addr checksum); "
            "MethodSignature escaping was repaired with a fix: commit (methodsig_correct is a full theorem).",
            "DESIGN.md Part II C13"),
    "C17": ("proof",
            "Lean 4 proof: soundness and completeness of the model of validateSlots w.r.t. syntactic paths (all graphs, termination proved), equivalence with an independent dataflow; correspondence on random block graphs and on programs with an independently computed read-before-write verdict",
            "validate_sound / validate_complete hold for every block graph; the model equals the real validateSlots on generated graphs "
            "(same error list) and the real compiler rejects a generated program exactly when an independent path enumeration finds a "
            "read-before-write path.",
            "Trusted: Lean kernel; that the compiled block graph has the paths of the source program (covered by C01). One known finding "
            "(dead load after return in the same block is reported).",
            "DESIGN.md Part II C17"),
}

NOT_YET = "check not built yet (work in progress, see DESIGN.md section 10 build order)"


def main():
    checks = []
    for p in props:
        pid = p["id"]
        if pid not in CHECKS:
            continue
        cat, tech, text, note, ref = CHECKS[pid]
        checks.append({
            "property_id": pid,
            "quick_cmd": f"./check {pid} --tier quick",
            "thorough_cmd": f"./check {pid} --tier thorough",
            "evidence_file": f"evidence/{pid}.json",
            "replay_cmd_template": f"./check {pid} --replay {{path}}",
            "engine": "lean-model",
            "level_claimed": {"category": cat, "text": text, "design_ref": ref},
            "level_note": note,
            "technique": tech,
        })
    m = {
        "version": 1,
        "setup_cmd": "cd lean && lake build PyTealV driver $(ls PyTealV/Proofs/*.lean | sed 's#/#.#g; s#\\.lean$##')",
        "hooks": {"guard": "ALGORAND_PYTEAL_VERIF",
                  "enable": "no source hooks exist; checks import /repo's working tree as is (./check sets the variable for future use)",
                  "baseline_off_cmd": base["cmd"].replace("--junitxml=<file>", "").strip(),
                  "source_commits": [], "add_only": True},
        "engines": [
            {"name": "lean-model", "path": "lean", "serves_properties": sorted(CHECKS),
             "kind_free_text": "Lean 4 executable specs (AVM, source semantics, ARC-4), models of PyTeal passes, theorems, verified checkers; native driver"},
            {"name": "harness", "path": "harness", "serves_properties": sorted(CHECKS),
             "kind_free_text": "Python: recipe generation, real-API builders, correspondence and oracle passes, evidence"}],
        "checks": checks,
        "notes": "See DESIGN.md. Properties move from not_applicable to checks as their machinery lands.",
        "not_applicable": [{"property_id": p["id"], "reason": NOT_YET} for p in props if p["id"] not in CHECKS],
    }
    (VERIF / "MANIFEST.json").write_text(json.dumps(m, indent=1))
    print("checks:", [c["property_id"] for c in checks])


if __name__ == "__main__":
    main()
