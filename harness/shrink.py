"""Delta-debugging of recipes: greedy, type-preserving simplification while a predicate holds."""
from __future__ import annotations

from recipes import ANY, B, N, NARY, OPS, U, GLOBAL_FIELDS, TXN_FIELDS, Program, Sub, Var


def type_of(n, cur_sub=None):
    t = n[0]
    if t == "int":
        return U
    if t in ("bytes", "str"):
        return B
    if t == "op":
        return OPS[n[1]]["ret"]
    if t == "nary":
        return NARY[n[1]][3]
    if t == "txn":
        return TXN_FIELDS[n[1]][1]
    if t == "txna":
        return B
    if t == "gtxn":
        return TXN_FIELDS[n[2]][1]
    if t == "global":
        return GLOBAL_FIELDS[n[1]][1]
    if t == "arg":
        return B
    if t in ("load", "dload"):
        return n[1].ttype
    if t in ("index", "dindex", "wideratio"):
        return U
    if t == "seq":
        return type_of(n[1][-1], cur_sub) if n[1] else N
    if t == "if":
        return type_of(n[2], cur_sub)
    if t == "cond":
        return type_of(n[1][0][1], cur_sub)
    if t == "call":
        return n[1].ret
    if t in ("param", "pload"):
        return cur_sub.params[n[1]][1].ttype if cur_sub else ANY
    if t in ("comment", "pragma"):
        return type_of(n[2], cur_sub) if n[2] is not None else N
    if t == "nonce":
        return type_of(n[4], cur_sub)
    return N


def const_of(ty):
    if ty == U:
        return [("int", 0), ("int", 1)]
    if ty == B:
        return [("bytes", b"")]
    if ty == N:
        return [("seq", [])]
    return []


def children_paths(n, path=()):
    """yield (path, node) for every recipe node (tuples whose first element is a str tag)"""
    if isinstance(n, tuple) and n and n[0] == "itxn":
        # ("itxn", [[(field name, expr) ...] ...]): the (name, expr) pairs are not recipe nodes
        yield path, n
        for gi, fs in enumerate(n[1]):
            for fi, (_f, e) in enumerate(fs):
                yield from children_paths(e, path + (1, gi, fi, 1))
    elif isinstance(n, tuple) and n and isinstance(n[0], str):
        yield path, n
        for i, x in enumerate(n):
            if i == 0:
                continue
            yield from children_paths(x, path + (i,))
    elif isinstance(n, list):
        for i, x in enumerate(n):
            yield from children_paths(x, path + (i,))
    elif isinstance(n, tuple):
        for i, x in enumerate(n):
            yield from children_paths(x, path + (i,))


def get_at(n, path):
    for i in path:
        n = n[i]
    return n


def set_at(n, path, new):
    if not path:
        return new
    i = path[0]
    if isinstance(n, list):
        c = list(n)
        c[i] = set_at(n[i], path[1:], new)
        return c
    c = list(n)
    c[i] = set_at(n[i], path[1:], new)
    return tuple(c)


def size(n):
    return sum(1 for _ in children_paths(n))


def candidates(root, cur_sub):
    """smaller variants of root, most aggressive first"""
    nodes = list(children_paths(root))
    for path, n in nodes:
        t = n[0]
        ty = type_of(n, cur_sub)
        if t == "seq" and len(n[1]) > 0:
            has_val = ty != N
            lim = len(n[1]) - 1 if has_val else len(n[1])
            for i in range(lim):
                yield set_at(root, path, ("seq", n[1][:i] + n[1][i + 1:]))
            if len(n[1]) == 1:
                yield set_at(root, path, n[1][0])
        if t in ("break", "continue", "ret", "approve", "reject", "err", "exit", "param", "pload", "int", "bytes", "load"):
            if t in ("int",) and n[1] not in (0, 1):
                yield set_at(root, path, ("int", 0))
            continue
        for c in const_of(ty):
            if c != n and path:
                yield set_at(root, path, c)
        # replace by a child of the same type
        for cpath, c in children_paths(n):
            if cpath and c is not n and c[0] not in ("break", "continue") and type_of(c, cur_sub) == ty and ty != ANY:
                yield set_at(root, path, c)
        if t == "if" and n[3] is not None and ty == N:
            yield set_at(root, path, ("if", n[1], n[2], None))
        if t == "cond" and len(n[1]) > 1:
            for i in range(len(n[1])):
                yield set_at(root, path, ("cond", n[1][:i] + n[1][i + 1:]))
        if t in ("while", "for"):
            yield set_at(root, path, ("seq", []))
        if t == "assert" and len(n[1]) > 1:
            for i in range(len(n[1])):
                yield set_at(root, path, ("assert", n[1][:i] + n[1][i + 1:], n[2]))


def uses_sub(n, sid):
    return any(x[0] == "call" and x[1].sid == sid for _, x in children_paths(n))


def shrink(prog: Program, pred, budget=400) -> Program:
    """pred(Program) -> bool (True = still failing). Returns a smaller failing program."""
    best = prog
    tries = 0
    improved = True
    while improved and tries < budget:
        improved = False
        # drop unused subroutines
        for s in list(best.subs):
            if not uses_sub(best.main, s.sid) and not any(uses_sub(o.body, s.sid) for o in best.subs if o is not s):
                cand = clone(best, drop=(s.sid,))
                tries += 1
                if pred(cand):
                    best, improved = cand, True
        targets = [(None, best.main)] + [(s, s.body) for s in best.subs]
        for owner, root in targets:
            for cand_root in candidates(root, owner):
                if tries >= budget:
                    break
                if size(cand_root) >= size(root):
                    continue
                if owner is None:
                    cand = clone(best, main=cand_root)
                else:
                    cand = clone(best, bodies={owner.sid: cand_root})
                tries += 1
                try:
                    ok = pred(cand)
                except Exception:  # noqa: BLE001
                    ok = False
                if ok:
                    best, improved = cand, True
                    break
            if improved:
                break
    return best


def clone(prog: Program, main=None, bodies=None, drop=()) -> Program:
    """copy with fresh Sub objects; call nodes re-pointed by sid (candidates never alias `prog`)"""
    bodies = bodies or {}
    new = {s.sid: Sub(s.sid, s.name, s.params, s.ret, None, getattr(s, 'decl', None)) for s in prog.subs if s.sid not in drop}

    def fix(n):
        if isinstance(n, tuple) and n and n[0] == "call":
            return ("call", new[n[1].sid], [fix(a) for a in n[2]])
        if isinstance(n, tuple):
            return tuple(fix(x) for x in n)
        if isinstance(n, list):
            return [fix(x) for x in n]
        return n

    for s in prog.subs:
        if s.sid in new:
            new[s.sid].body = fix(bodies.get(s.sid, s.body))
    return Program(prog.mode, fix(main if main is not None else prog.main), prog.vars, list(new.values()), prog.dvars, getattr(prog, 'mvars', []))


# ----------------------------------------------------------------------------- recipe analyses


def control_in_operand(n, operand=False) -> bool:
    """True when Break/Continue/Return/Exit occurs where an enclosing expression still holds
    operands on the stack (PyTeal accepts this; see DESIGN.md section 9, finding 13)."""
    if not (isinstance(n, tuple) and n and isinstance(n[0], str)):
        if isinstance(n, (list, tuple)):
            return any(control_in_operand(x, operand) for x in n)
        return False
    t = n[0]
    if t in ("break", "continue", "ret", "approve", "reject", "exit"):
        if operand:
            return True
        if t in ("ret", "exit") and n[1] is not None:
            return control_in_operand(n[1], True)
        return False
    if t in ("op", "nary", "wideratio"):
        return any(control_in_operand(x, True) for x in n[1:])
    if t in ("store", "dstore", "pstore"):
        return control_in_operand(n[2], True)
    if t == "call":
        return any(control_in_operand(a, True) for a in n[2] if a and a[0] not in ("ref", "refparam"))
    if t == "assert":
        return any(control_in_operand(c, True) for c in n[1])
    if t == "txna":
        return control_in_operand(n[2], True) if not isinstance(n[2], int) else False
    if t == "seq":
        return any(control_in_operand(x, operand) for x in n[1])
    if t == "if":
        return control_in_operand(n[1], True) or control_in_operand(n[2], operand) or (n[3] is not None and control_in_operand(n[3], operand))
    if t == "cond":
        return any(control_in_operand(c, True) or control_in_operand(b, operand) for c, b in n[1])
    if t == "while":
        return control_in_operand(n[1], True) or control_in_operand(n[2], operand)
    if t == "for":
        return control_in_operand(n[1], operand) or control_in_operand(n[2], True) or control_in_operand(n[3], operand) or control_in_operand(n[4], operand)
    if t in ("comment", "pragma"):
        return n[2] is not None and control_in_operand(n[2], operand)
    if t == "nonce":
        return control_in_operand(n[4], operand)
    if t == "multi":
        # MultiValue: the arguments are operands, the statement using the outputs is in the position of the whole node
        return any(control_in_operand(a, True) for a in n[2]) or control_in_operand(n[4], operand)
    if t == "maybe":
        # MaybeValue: arguments are operands; the reducer over (value, hasValue) is in the position of the whole node
        return any(control_in_operand(x, True) for x in n[2]) or control_in_operand(n[5], operand)
    if t == "itxn":
        # inner transaction fields: every field value is an operand of its itxn_field
        return any(control_in_operand(e, True) for fields in n[1] for _f, e in fields)
    return False


def prog_control_in_operand(prog: Program) -> bool:
    return control_in_operand(prog.main) or any(control_in_operand(s.body) for s in prog.subs)


def instrument(prog: Program) -> Program:
    """neighbour of a program in which control flow is observable: a distinct Log after every statement
    of every Seq and at the head of every loop body / branch (application mode, version >= 5)"""
    counter = [0]

    def mark():
        counter[0] += 1
        return ("op", "Log", [("bytes", b"@" + counter[0].to_bytes(2, "big"))])

    def block(n):
        """statement-position node -> same node preceded by a marker"""
        return ("seq", [mark(), go(n)])

    def go(n):
        if not (isinstance(n, tuple) and n and isinstance(n[0], str)):
            return n
        t = n[0]
        if t == "op" and n[1] == "PopB":
            # a discarded value becomes an effect: a wrong value that is popped would otherwise stay invisible
            return ("op", "Log", [go(n[2][0])])
        if t == "op" and n[1] == "PopU":
            return ("op", "Log", [("op", "Itob", [go(n[2][0])])])
        if t == "store":
            return ("store", n[1], go(n[2]))
        if t == "seq":
            items = n[1]
            if not items:
                return n
            has_val = type_of(n) != N
            out = []
            for i, x in enumerate(items):
                out.append(go(x))
                if not (has_val and i == len(items) - 1) and x[0] not in ("break", "continue", "ret", "approve", "reject", "exit", "err"):
                    out.append(mark())
            if has_val:
                # markers must not follow the value
                out = [y for y in out[:-1]] + [out[-1]] if out[-1][0] != "op" or out[-1][1] != "Log" else out
            return ("seq", out)
        if t == "if" and type_of(n) == N:
            return ("if", n[1], block(n[2]), block(n[3]) if n[3] is not None else None)
        if t == "cond" and type_of(n) == N:
            return ("cond", [(c, block(b)) for c, b in n[1]])
        if t == "while":
            return ("while", n[1], block(n[2]))
        if t == "for":
            return ("for", n[1], n[2], n[3], block(n[4]))
        return n

    return clone(prog, main=go(prog.main), bodies={s.sid: go(s.body) for s in prog.subs})
