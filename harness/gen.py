"""Type-directed generator of (mostly valid) programs. Every random choice comes from the
single `random.Random` passed in, so a case replays from (seed, index)."""
from __future__ import annotations

from recipes import ANY, B, N, NARY, OPS, U, GLOBAL_FIELDS, ITXN_FIELDS, MAYBE, TXN_FIELDS, Program, Sub, Var, gen_u


RISKY = {"Minus", "Div", "Mod", "Exp", "Mul2", "ShiftLeft", "ShiftRight", "GetBitU", "GetBitB", "GetByte", "BytesMinus",
         "BytesDiv", "BytesMod", "ExtractUint16", "ExtractUint32", "ExtractUint64", "Btoi", "SetBitU", "SetBitB", "SetByte",
         "Divw", "Substring", "Extract", "Suffix", "BytesZero", "Balance", "MinBalance", "BytesSqrt", "Sqrt"}


class Cfg:
    def __init__(self, mode="app", version=10, max_depth=4, max_stmts=5, subs=0, effects=True, loops=True,
                 exits=True, dyn=False, wide=False, notes=False, breaks=True, byref=True, req_slots=True, recursive=False,
                 call_bias=0.0, control_in_operand=False, byref_p=0.2, itxn=True, maybe=True):
        self.__dict__.update(locals())
        del self.__dict__["self"]


def op_ok(o, cfg):
    return o["minv"] <= cfg.version and (o["mode"] == "both" or o["mode"] == cfg.mode)


class G:
    def __init__(self, r, cfg: Cfg):
        self.r, self.cfg = r, cfg
        self.vars: list[Var] = []
        self.dvars: list[Var] = []
        self.subs: list[Sub] = []
        self.in_loop = 0
        self.cur_sub: Sub | None = None
        self.counters = set()
        self.stats = {}
        self.operand = 0
        self.mvars: list[Var] = []

    def note(self, k):
        self.stats[k] = self.stats.get(k, 0) + 1

    # ---- leaves
    def leaf(self, ty):
        r = self.r
        c = r.random()
        cands = [v for v in self.visible() if v.ttype == ty and v.uid in self.assigned]
        if cands and c < 0.3:
            self.note("load")
            return ("load", r.choice(cands))
        if self.cur_sub is not None and c < 0.55:
            ps = [i for i, (k, v) in enumerate(self.cur_sub.params) if v.ttype == ty]
            if ps:
                i = r.choice(ps)
                self.note("param")
                return ("param", i) if self.cur_sub.params[i][0] == "val" else ("pload", i)
        if ty == U:
            if c < 0.7:
                return ("int", gen_u(r) if r.random() < 0.3 else r.randrange(0, 9))
            fs = [f for f, (_, t, mv) in TXN_FIELDS.items() if t == U and mv <= self.cfg.version]
            gs = [f for f, (_, t, mv) in GLOBAL_FIELDS.items() if t == U and mv <= self.cfg.version]
            self.note("field")
            k = r.random()
            if k < 0.5:
                return ("txn", r.choice(fs))
            if k < 0.65:
                # a field of another transaction of the group: constant index (gtxn) or computed index (gtxns, v3+)
                self.note("gtxn")
                gf = [f for f in fs if TXN_FIELDS[f][0] is not None]
                if self.cfg.version >= 3 and r.random() < 0.3:
                    return ("gtxn", ("op", "Mod", [("txn", "GroupIndex"), ("int", 2)]), r.choice(gf))
                return ("gtxn", r.randrange(0, 3), r.choice(gf))
            return ("global", r.choice(gs))
        else:
            if c < 0.6:
                k = r.choice([0, 1, 2, 3, 8, 8])
                if r.random() < 0.5:
                    return ("bytes", bytes(r.randrange(256) for _ in range(k)))
                return ("str", "".join(r.choice("ab c\"\\/;\n\té☃") for _ in range(k)))
            self.note("field")
            if self.cfg.mode == "sig" and r.random() < 0.5:
                return ("arg", r.randrange(0, 3))
            if r.random() < 0.5:
                if self.cfg.version >= 5 and r.random() < 0.3:
                    return ("txna", "ApplicationArgs", ("int", r.randrange(0, 4)))
                return ("txna", "ApplicationArgs", r.randrange(0, 4))
            fs = [f for f, (_, t, mv) in TXN_FIELDS.items() if t == B and mv <= self.cfg.version]
            return ("txn", r.choice(fs))

    def expr(self, ty, d):
        r = self.r
        if d <= 0 or r.random() < 0.25:
            return self.leaf(ty)
        if self.cfg.wide and ty == U and self.cfg.version >= 5 and r.random() < 0.06:
            self.note("wideratio")
            nn, nd = r.choice([(1, 2), (2, 1), (2, 2), (3, 2), (1, 3), (3, 3)])
            small = lambda: ("int", r.choice([1, 2, 3, 7, 2 ** 32, 2 ** 63]))  # noqa: E731
            return self.wide_guard(("wideratio", [self.expr(U, d - 1) if r.random() < 0.5 else small() for _ in range(nn)],
                                    [self.expr(U, d - 1) if r.random() < 0.3 else small() for _ in range(nd)]))
        if self.cfg.call_bias and r.random() < self.cfg.call_bias:
            callable_ = [s for s in self.subs if s.ret == ty and self.can_call(s)]
            if callable_:
                return self.call(r.choice(callable_), d)
        c = r.random()
        if c < 0.62:
            cands = [n for n, o in OPS.items() if o["ret"] == ty and op_ok(o, self.cfg)]
            # failure-prone operators are drawn less often so that most programs run to the end
            safe = [n for n in cands if n not in RISKY]
            n = r.choice(safe) if (safe and r.random() < 0.85) else r.choice(cands)
            o = OPS[n]
            self.note("op:" + n)
            return ("op", n, [self.expr(t, d - 1) for t in o["args"]])
        if c < 0.74:
            cands = [n for n, (_, _, it, ot, mv) in NARY.items() if ot == ty]
            n = r.choice(cands)
            k = r.choice([1, 2, 2, 3, 4])
            self.note("nary:" + n)
            return ("nary", n, [self.expr(NARY[n][2], d - 1) for _ in range(k)])
        if c < 0.84:
            self.note("if-expr")
            return ("if", self.expr(U, d - 1), self.expr(ty, d - 1), self.expr(ty, d - 1))
        if c < 0.9:
            k = r.choice([1, 2, 3])
            self.note("cond-expr")
            arms = [(self.expr(U, d - 1), self.expr(ty, d - 1)) for _ in range(k)]
            if r.random() < 0.75:
                arms.append((("int", 1), self.expr(ty, d - 1)))
            return ("cond", arms)
        if c < 0.95:
            # Seq with a value at the end
            self.note("seq-expr")
            self.operand += 1
            try:
                return ("seq", self.stmts(d - 1, r.choice([0, 1, 2])) + [self.expr(ty, d - 1)])
            finally:
                self.operand -= 1
        callable_ = [s for s in self.subs if s.ret == ty and self.can_call(s)]
        if callable_:
            s = r.choice(callable_)
            return self.call(s, d)
        if self.cfg.wide and ty == U and self.cfg.version >= 5:
            self.note("wideratio")
            return self.wide_guard(("wideratio", [self.expr(U, d - 1) for _ in range(r.choice([1, 2, 3]))],
                                    [self.expr(U, d - 1) for _ in range(r.choice([1, 2]))]))
        return self.leaf(ty)

    def wide_guard(self, n):
        """The source semantics evaluates every factor of a WideRatio and multiplies afterwards, the emitted code multiplies while it
        evaluates: the two readings part when a running product overflows BEFORE a later factor leaves the program successfully
        (Lean: `wide_exit_counterexample`; C16's wording, 'every running product taken left to right', is the code's). Factors after the
        first two numerators therefore hold no successful exit and no call, so that both readings agree on every generated program."""
        def leaves(e):
            if isinstance(e, tuple) and e and e[0] in ("exit", "ret", "approve", "reject", "call"):
                return True
            return isinstance(e, (tuple, list)) and any(leaves(x) for x in e if isinstance(x, (tuple, list)))
        fix = lambda e: ("int", self.r.choice([1, 2, 3, 7])) if leaves(e) else e  # noqa: E731
        return ("wideratio", n[1][:2] + [fix(e) for e in n[1][2:]], [fix(e) for e in n[2]])

    def can_call(self, s):
        if self.no_calls:
            return False
        if self.cfg.recursive:
            return True
        return s.body is not None

    def visible(self):
        return [v for v in self.vars if self.owner.get(v.uid) in (None, self.cur_sub.sid if self.cur_sub else None)]

    def call(self, s: Sub, d):
        args = []
        for j, (kind, pv) in enumerate(s.params):
            if self.cfg.recursive and j == 0:
                # depth counter: strictly decreasing along every call chain, so recursion terminates
                if self.cur_sub is None:
                    args.append(("int", self.r.choice([0, 1, 2, 3])))
                else:
                    args.append(("op", "Minus", [("param", 0), ("int", 1)]))
                continue
            if kind == "ref" and self.cur_sub is not None and self.r.random() < 0.7:
                fwd = [i for i, (k2, v2) in enumerate(self.cur_sub.params) if k2 == "ref" and v2.ttype == pv.ttype]
                if fwd:
                    self.note("forward-ref-param")
                    args.append(("refparam", self.r.choice(fwd)))
                    continue
            if kind == "ref":
                cands = [v for v in self.visible() if v.ttype == pv.ttype and v.uid in self.assigned]
                if not cands:
                    v = self.new_var(pv.ttype)
                    cands = [v]
                args.append(("ref", self.r.choice(cands)))
            else:
                args.append(self.expr(pv.ttype, d - 1))
        self.note("call")
        return ("call", s, args)

    def new_var(self, ty, slot=None):
        v = Var(ty, slot)
        self.vars.append(v)
        owner = self.cur_sub.sid if self.cur_sub is not None else None
        self.owner[v.uid] = owner
        self.pre_init.setdefault(owner, []).append(v)
        self.assigned.add(v.uid)
        return v

    # ---- statements
    def stmt(self, d):
        r = self.r
        c = r.random()
        cfg = self.cfg
        if d <= 0:
            c = c * 0.45
        if c < 0.22 and self.cur_sub is not None and r.random() < 0.35:
            refs = [i for i, (k2, _v2) in enumerate(self.cur_sub.params) if k2 == "ref"]
            if refs:
                j = r.choice(refs)
                self.note("store-through-ref")
                return ("pstore", j, self.expr(self.cur_sub.params[j][1].ttype, d))
        if c < 0.22:
            cands = [v for v in self.visible() if v.uid not in self.counters]
            if not cands or r.random() < 0.2:
                ty = r.choice([U, U, B])
                slot = None
                if cfg.req_slots and r.random() < 0.2:
                    free = [s for s in range(0, 256) if s not in {v.slot for v in self.vars}]
                    if self.cur_sub is not None:
                        free = [None]
                    # low ids are where the compiler's own numbering starts: requested ids just above the first free id collide first
                    slot = r.choice(free[:8]) if (free[0] is not None and r.random() < 0.5) else r.choice(free)
                v = self.new_var(ty, slot)
            else:
                v = r.choice(cands)
            self.note("store")
            return ("store", v, self.expr(v.ttype, d))
        if c < 0.235 and not self.operand:
            # a variable that has been read before is stored again and read back at once (an adjacent store/load pair whose
            # slot has OTHER loads elsewhere: the slot optimiser must leave it alone)
            cands = [v for v in self.visible() if v.uid in self.assigned and v.uid not in self.counters and v.ttype == U]
            if cands:
                v = r.choice(cands)
                self.note("restore-reload")
                # the earlier read sits in an EARLIER block: a conditional between it and the pair starts a new block at the join
                join = ("if", ("op", "Gt", [("txn", "Fee"), ("int", r.choice([0, 5, 1000]))]), ("op", "PopU", [("int", r.randrange(9))]), None)
                return ("seq", [("op", "PopU", [("load", v)]), join, ("store", v, self.expr(U, d - 1)), ("op", "PopU", [("load", v)])])
        if c < 0.3:
            ty = r.choice([U, B])
            self.note("pop")
            return ("op", "PopU" if ty == U else "PopB", [self.expr(ty, d)])
        if c < 0.38 and cfg.effects and cfg.mode == "app":
            ch = r.random()
            if ch < 0.4 and cfg.version >= 5:
                self.note("log")
                return ("op", "Log", [self.expr(B, d)])
            key = ("bytes", r.choice([b"k0", b"k1", b"k2"]))
            if ch < 0.7:
                self.note("gput")
                return ("op", "GlobalPutU", [key, self.expr(U, d)])
            if ch < 0.85:
                self.note("gput")
                return ("op", "GlobalPutB", [key, self.expr(B, d)])
            self.note("gdel")
            return ("op", "GlobalDel", [key])
        if c < 0.41 and cfg.effects and cfg.mode == "app" and cfg.version >= 5 and cfg.itxn:
            self.note("itxn")
            ntx = 1 if (cfg.version < 6 or r.random() < 0.7) else 2
            group = []
            for _ in range(ntx):
                fs = [("TypeEnum", ("int", r.choice([1, 4])))]
                for f in r.sample([k for k in ITXN_FIELDS if k != "TypeEnum"], r.choice([1, 2, 3])):
                    fs.append((f, self.expr(ITXN_FIELDS[f][1], max(0, d - 1))))
                group.append(fs)
            return ("itxn", group)
        if c < 0.43 and cfg.mode == "app" and cfg.maybe and self.operand == 0:
            kind = r.choice(sorted(MAYBE))
            ctor, teal, imms, argt, vty, minv = MAYBE[kind]
            if minv <= cfg.version:
                self.note("maybe")
                args = [self.expr(t, max(0, d - 1)) if t == U else ("bytes", r.choice([b"k0", b"k1", b"zz"])) for t in argt]
                val_v, ok_v = Var(U if vty == ANY else vty), Var(U)
                self.mvars += [val_v, ok_v]
                if vty == ANY:
                    use = ("op", "PopU", [("nary", "Add", [("load", ok_v), ("int", 1)])])
                elif vty == B:
                    use = ("op", "PopU", [("nary", "Add", [("load", ok_v), ("op", "Len", [("load", val_v)])])])
                else:
                    use = ("op", "PopU", [("nary", "Add", [("load", ok_v), ("load", val_v)])])
                return ("maybe", kind, args, val_v, ok_v, use)
        if c < 0.44 and cfg.maybe and self.operand == 0:
            from recipes import MULTI
            kind = r.choice(sorted(MULTI))
            _op_, _teal, argt, outt, minv = MULTI[kind]
            if minv <= cfg.version:
                self.note("multi")
                args = [self.expr(U, max(0, d - 1)) if r.random() < 0.5 else ("int", r.choice([0, 1, 2, 3, 7, 2 ** 32, 2 ** 63, 2 ** 64 - 1])) for _ in argt]
                outs = [Var(U) for _ in outt]
                self.mvars += outs
                # every output has its own weight, so exchanged outputs change the value
                acc = ("load", outs[0])
                for i, v in enumerate(outs[1:], 1):
                    acc = ("op", "BitwiseXor", [acc, ("op", "Div", [("load", v), ("int", i + 1)])])
                if cfg.mode == "app" and cfg.effects:
                    use = ("op", "GlobalPutU", [("bytes", b"k1"), acc])
                else:
                    use = ("op", "PopU", [acc])
                return ("multi", kind, args, outs, use)
        if c < 0.45:
            self.note("assert")
            k = r.choice([1, 1, 2, 3])
            conds = [self.mostly_true(d) for _ in range(k)]
            return ("assert", conds, r.choice([None, None, "chk"]))
        if c < 0.6:
            self.note("if")
            has_else = r.random() < 0.5
            return ("if", self.expr(U, d - 1), self.block(d - 1), self.block(d - 1) if has_else else None)
        if c < 0.66:
            self.note("cond")
            k = r.choice([1, 2, 3])
            arms = [(self.expr(U, d - 1), self.block(d - 1)) for _ in range(k)]
            if r.random() < 0.6:
                arms.append((("int", 1), self.block(d - 1)))
            return ("cond", arms)
        if c < 0.8 and cfg.loops:
            return self.loop(d)
        ctl_ok = self.operand == 0 or cfg.control_in_operand
        if c < 0.86 and self.in_loop and cfg.breaks and ctl_ok:
            self.note("break/continue")
            inner = ("break",) if r.random() < 0.5 else ("continue",)
            if r.random() < 0.25:
                # bare (unconditional) Break/Continue, possibly the last statement of the body
                self.note("bare-break/continue")
                return inner
            return ("if", self.expr(U, d - 1), inner, None)
        if c < 0.9 and cfg.exits and ctl_ok:
            self.note("early-exit")
            if self.cur_sub is not None:
                ex = ("ret", None if self.cur_sub.ret == N else self.expr(self.cur_sub.ret, d - 1))
            else:
                ex = r.choice([("approve",), ("reject",), ("ret", self.expr(U, d - 1)), ("err",)])
            return ("if", self.expr(U, d - 1), ex, None)
        callable_ = [s for s in self.subs if s.ret == N and self.can_call(s)]
        if callable_:
            return self.call(r.choice(callable_), d)
        if cfg.notes and r.random() < 0.5:
            self.note("comment")
            return ("comment", r.choice(["hello", "a\nb", "x // y", "q\"uote", "semi;colon", "é☃"]), None)
        return ("op", "PopU", [self.expr(U, d)])

    def mostly_true(self, d):
        r = self.r
        if r.random() < 0.8:
            e = self.expr(U, d - 1)
            return ("nary", "Or", [e, ("int", 1)])
        return self.expr(U, d - 1)

    def loop(self, d):
        r = self.r
        i = self.new_var(U)
        self.counters.add(i.uid)
        n = r.choice([0, 1, 2, 3, 5])
        self.in_loop += 1
        body = self.block(d - 1)
        self.in_loop -= 1
        inc = ("store", i, ("op", "Add2", [("load", i), ("int", 1)]))
        cond = ("op", "Lt", [("load", i), ("int", n)])
        if r.random() < 0.5:
            self.note("for")
            return ("for", ("store", i, ("int", 0)), cond, inc, body)
        self.note("while")
        # the increment comes first so that Continue cannot skip it
        return ("seq", [("store", i, ("int", 0)), ("while", cond, ("seq", [inc, body]))])

    def stmts(self, d, k):
        return [self.stmt(d) for _ in range(k)]

    def block(self, d):
        k = self.r.choice([1, 1, 2, 3])
        ss = self.stmts(d, k)
        return ss[0] if len(ss) == 1 and self.r.random() < 0.5 else ("seq", ss)

    # ---- whole programs
    def gen_sub(self, sid):
        r = self.r
        nparams = r.choice([0, 1, 2, 3])
        params = []
        if self.cfg.recursive:
            params.append(("val", Var(U)))
        for _ in range(nparams):
            kind = "ref" if (self.cfg.byref and r.random() < self.cfg.byref_p) else "val"
            params.append((kind, Var(r.choice([U, U, B]))))
        ret = r.choice([N, U, U, B])
        decl = "any" if (ret != N and r.random() < 0.15) else ret
        if decl == "any":
            self.note("sub:anytype")
        s = Sub(sid, r.choice(["f", "g", "helper", "my_sub", "x1"]) + str(sid), params, ret, None, decl)
        return s

    def sub_body(self, s: Sub, d):
        body = self.stmts(d, self.r.choice([0, 1, 2]))
        if s.ret == N:
            if self.r.random() < 0.2 and self.cfg.exits:
                # the routine ends in an If/ElseIf ladder without a final Else whose arms all return:
                # control still falls out of the ladder when no condition holds
                self.note("ladder-tail")
                arm = lambda: ("seq", self.stmts(d - 1, self.r.choice([0, 1])) + [("ret", None)])  # noqa: E731
                ladder = ("if", self.expr(U, d - 1), arm(), None)
                for _ in range(self.r.choice([1, 1, 2])):
                    ladder = ("if", self.expr(U, d - 1), arm(), ladder)
                body = body + [ladder]
            return body if body else [("op", "PopU", [("int", 0)])]
        return body + [self.expr(s.ret, d)]

    def fill_sub(self, s: Sub):
        self.cur_sub = s
        saved_loop = self.in_loop
        self.in_loop = 0
        d = self.cfg.max_depth - 1
        if self.cfg.recursive:
            self.no_calls = True
            base = self.sub_body(s, max(1, d - 1))
            self.no_calls = False
            rec = self.sub_body(s, d)
            init = [("store", v, ("int", 0) if v.ttype == U else ("bytes", b"")) for v in self.pre_init.get(s.sid, [])]
            s.body = ("seq", init + [("if", ("op", "EqU", [("param", 0), ("int", 0)]), ("seq", base), ("seq", rec))])
        else:
            body = self.sub_body(s, d)
            init = [("store", v, ("int", 0) if v.ttype == U else ("bytes", b"")) for v in self.pre_init.get(s.sid, [])]
            s.body = ("seq", init + body)
        self.cur_sub = None
        self.in_loop = saved_loop

    def program(self) -> Program:
        r, cfg = self.r, self.cfg
        self.pre_init = {}
        self.assigned = set()
        self.owner = {}
        self.no_calls = False
        for _ in range(r.choice([0, 1, 2, 3])):
            self.new_var(r.choice([U, U, B]))
        for sid in range(cfg.subs):
            self.subs.append(self.gen_sub(sid))
        # bodies may call subroutines with a smaller id (no recursion here; recursive families are separate)
        all_subs = self.subs
        if cfg.recursive:
            for s in all_subs:
                self.fill_sub(s)
        else:
            self.subs = []
            for s in all_subs:
                self.fill_sub(s)
                self.subs.append(s)
        # a global variable whose only initialisation is inside a subroutine that main calls first: main (and the
        # other routines) then load a slot that their own code never stores
        setup_call = []
        mine = [v for v in self.pre_init.get(None, []) if v.slot is None or True]
        if cfg.subs > 0 and mine and cfg.version >= 4 and r.random() < 0.3:
            self.note("global initialised in a subroutine")
            moved = [v for v in mine if r.random() < 0.7] or mine[:1]
            self.pre_init[None] = [v for v in mine if v not in moved]
            setup = Sub(len(self.subs), "setup" + str(len(self.subs)), [], N, None)
            setup.body = ("seq", [("store", v, ("int", r.randrange(0, 5)) if v.ttype == U else ("bytes", b"g")) for v in moved])
            self.subs.append(setup)
            setup_call = [("call", setup, [])]
        body = self.stmts(cfg.max_depth, r.choice(range(1, cfg.max_stmts + 1)))
        tail = r.random()
        if tail < 0.4:
            last = ("approve",)
        elif tail < 0.8:
            last = ("ret", self.expr(U, cfg.max_depth - 1))
        else:
            last = self.expr(U, cfg.max_depth - 1)
        init = [("store", v, ("int", 0) if v.ttype == U else ("bytes", b"")) for v in self.pre_init.get(None, [])]
        if init and cfg.exits and r.random() < 0.25:
            # a guard that leaves the routine on one arm while the sibling arm is the ONLY initialisation of a variable:
            # everything after the conditional is reached through the storing arm only
            self.note("guarded initialisation")
            j = r.randrange(len(init))
            leave = r.choice([("reject",), ("err",), ("approve",), ("ret", ("int", 1))])
            cond = ("op", "Gt", [("txn", "NumAppArgs"), ("int", r.choice([5, 9]))])
            init[j] = ("if", cond, leave, init[j]) if r.random() < 0.6 else ("if", ("op", "Not", [cond]), init[j], leave)
        main = ("seq", setup_call + init + body + [last])
        return Program(cfg.mode, main, self.vars, self.subs, self.dvars, self.mvars)


def required_version(n) -> int:
    """minimum program version the constructs of a recipe need"""
    m = 2
    if isinstance(n, tuple):
        t = n[0] if n else None
        if t == "op":
            m = max(m, OPS[n[1]]["minv"])
            if n[1] == "Suffix":
                a = n[2][1]
                m = max(m, 5 if (a[0] == "int" and a[1] < 256) else 3)
            if n[1] in ("Substring",):
                pass
        if t == "assert":
            pass
        if t == "call":
            m = max(m, 4)
        if t == "txna" and not isinstance(n[2], int):
            m = max(m, 5)
        if t == "wideratio":
            m = max(m, 5)
        if t == "itxn":
            m = max(m, 6 if len(n[1]) > 1 else 5)
        if t == "maybe":
            from recipes import MAYBE
            m = max(m, MAYBE[n[1]][5])
        if t == "multi":
            from recipes import MULTI
            m = max(m, MULTI[n[1]][4])
        if t in ("dload", "dstore"):
            m = max(m, 5)
        if t in ("pload", "pstore"):
            m = max(m, 5)
        if t == "gtxn":
            m = max(m, TXN_FIELDS[n[2]][2], 2 if isinstance(n[1], int) else 3)
        if t == "txn" or t == "global":
            tbl = TXN_FIELDS if t == "txn" else GLOBAL_FIELDS
            m = max(m, tbl[n[1]][2])
        for x in n:
            if isinstance(x, (tuple, list)):
                m = max(m, required_version(x))
    elif isinstance(n, list):
        for x in n:
            m = max(m, required_version(x))
    return m


def rejected_by_design(n) -> bool:
    """constructs the compiler deliberately refuses whatever the target: Substring with constant end < start"""
    if isinstance(n, tuple):
        if n and n[0] == "op" and n[1] == "Substring":
            a, b = n[2][1], n[2][2]
            if a[0] == "int" and b[0] == "int" and b[1] < a[1]:
                return True
        return any(rejected_by_design(x) for x in n if isinstance(x, (tuple, list)))
    if isinstance(n, list):
        return any(rejected_by_design(x) for x in n)
    return False
