#!/bin/bash
# usage: check_seeded.sh [parallel]   -- every stored seeded change against the check of its property (scratch worktrees of /repo,
# VERIF_REPO; /repo itself is never patched).  Writes seeded/KILL_MATRIX.txt: <id> <check> caught|MISSED|tool-failure
cd "$(dirname "$0")/.."
P=${1:-6}
ONLY=${2:-}
one() {
  id=$1; prop=$(python3 -c "import json;print(json.load(open('seeded/$id/meta.json'))['property'])")
  W=/tmp/seedrun_$id; rm -rf $W
  git -C /repo worktree add -q $W HEAD || { echo "$id $prop worktree-failed"; return; }
  if ! git -C $W apply "$(realpath seeded/$id/patch.diff)" 2>/dev/null; then echo "$id $prop patch-does-not-apply"; git -C /repo worktree remove --force $W; return; fi
  mkdir -p /tmp/seedrun_ev_$id
  VERIF_REPO=$W VERIF_SEED=0 VERIF_EVIDENCE_DIR=/tmp/seedrun_ev_$id VERIF_REPLAY_DIR=/tmp/seedrun_ev_$id timeout 1500 ./check $prop --tier quick > /tmp/seedrun_$id.log 2>&1; rc=$?
  git -C /repo worktree remove --force $W     # (no `worktree prune` here: it would race with a sibling's `worktree add`)
  n=$(grep -c '^VIOLATION' /tmp/seedrun_$id.log)
  if [ $rc -eq 1 ] && [ $n -gt 0 ]; then echo "$id $prop caught violations=$n with_input=$(grep '^VIOLATION' /tmp/seedrun_$id.log | grep -vc no-failing-input-found)";
  elif [ $rc -eq 0 ]; then echo "$id $prop MISSED"; else echo "$id $prop tool-failure rc=$rc"; fi
}
export -f one
if [ -n "$ONLY" ]; then
  # re-run only the given ids (comma separated) and merge into the matrix
  echo "$ONLY" | tr ',' '\n' | xargs -P $P -I{} bash -c 'one {}' | sort > /tmp/kill_part.txt
  grep -v -F -f <(awk '{print $1" "}' /tmp/kill_part.txt) seeded/KILL_MATRIX.txt > /tmp/kill_rest.txt
  cat /tmp/kill_rest.txt /tmp/kill_part.txt | sort > seeded/KILL_MATRIX.txt
else
  ls seeded | grep -v -e gitkeep -e KILL | xargs -P $P -I{} bash -c 'one {}' | sort > seeded/KILL_MATRIX.txt
fi
git -C /repo worktree prune
cat seeded/KILL_MATRIX.txt | awk '{print $3}' | sort | uniq -c
