"""Shared machinery of every check: paths, seeding, Lean build + axiom audit, the driver
pipe, evidence writing and the violation / known-finding protocol."""
from __future__ import annotations

import hashlib
import json
import os
import random
import re
import subprocess
import sys
import time
from pathlib import Path

VERIF = Path(__file__).resolve().parent.parent
LEAN = VERIF / "lean"
REPO = Path(os.environ.get("VERIF_REPO", "/repo"))
# experiments on modified copies of the repository (VERIF_REPO) may redirect their output so that they do not overwrite the
# evidence and replays of the registered runs
EVIDENCE = Path(os.environ.get("VERIF_EVIDENCE_DIR") or VERIF / "evidence")
REPLAYS = Path(os.environ.get("VERIF_REPLAY_DIR") or VERIF / "replays")
KNOWN = VERIF / "known_findings.json"
DRIVER = LEAN / ".lake" / "build" / "bin" / "driver"
ALLOWED_AXIOMS = {"propext", "Classical.choice", "Quot.sound"}
GUARD = "ALGORAND_PYTEAL_VERIF"
MAX_REPLAYS = 8


class ToolFailure(Exception):
    """Infrastructure failure (exit 2, never a VIOLATION)."""


def seed() -> int:
    try:
        return int(os.environ.get("VERIF_SEED", "0"))
    except ValueError:
        return 0


def rng(tag: str) -> random.Random:
    h = hashlib.sha256(f"{seed()}:{tag}".encode()).digest()
    return random.Random(int.from_bytes(h[:8], "big"))


def run(cmd, cwd=None, timeout=3600, env=None, check=False):
    e = dict(os.environ)
    if env:
        e.update(env)
    p = subprocess.run(cmd, cwd=cwd, capture_output=True, text=True, timeout=timeout, env=e)
    if check and p.returncode != 0:
        raise ToolFailure(f"{cmd} failed:\n{p.stdout}\n{p.stderr}")
    return p


# --------------------------------------------------------------------------- Lean side

_built: set[str] = set()


def lake_build(targets: list[str]) -> tuple[bool, str]:
    """Build the given lake targets. Returns (ok, log)."""
    p = run(["lake", "build", *targets], cwd=LEAN, timeout=3000)
    return p.returncode == 0, p.stdout + p.stderr


def ensure_driver() -> None:
    if "driver" in _built:
        return
    ok, log = lake_build(["driver"])
    if not ok or not DRIVER.exists():
        raise ToolFailure("driver does not build:\n" + log[-4000:])
    _built.add("driver")


FORBIDDEN = re.compile(r"\b(sorry|admit|native_decide|bv_decide|implemented_by|unsafe)\b|^axiom\s|maxHeartbeats\s+0", re.M)


def strip_lean_comments(src: str) -> str:
    src = re.sub(r"/-.*?-/", "", src, flags=re.S)
    src = re.sub(r"--[^\n]*", "", src)
    return src


def grep_forbidden(files: list[Path]) -> list[str]:
    hits = []
    for f in files:
        body = strip_lean_comments(f.read_text())
        # string literals may mention the words; drop them too
        body = re.sub(r'"(?:\\.|[^"\\])*"', '""', body)
        for m in FORBIDDEN.finditer(body):
            hits.append(f"{f.relative_to(VERIF)}: {m.group(0).strip()}")
    return hits


def audit_axioms(module: str, theorems: list[str]) -> dict[str, list[str]]:
    """`#print axioms` for every named theorem of `module`; returns theorem -> axioms."""
    src = f"import {module}\n" + "\n".join(f"#print axioms {t}" for t in theorems) + "\n"
    # one file per process: two checks auditing the same module at the same time must not share it
    tmp = LEAN / ".lake" / f"audit_{module.replace('.', '_')}_{os.getpid()}.lean"
    tmp.parent.mkdir(exist_ok=True)
    tmp.write_text(src)
    p = run(["lake", "env", "lean", str(tmp)], cwd=LEAN, timeout=1200)
    out = p.stdout + p.stderr
    try:
        tmp.unlink()
    except OSError:
        pass
    if p.returncode != 0:
        raise ToolFailure("axiom audit failed:\n" + out[-3000:])
    res: dict[str, list[str]] = {}
    # (theorem names may end in primes: `run_combine'`)
    for m in re.finditer(r"^'(\S+)' depends on axioms: \[([^\]]*)\]", out, re.M):
        res[m.group(1)] = [a.strip() for a in m.group(2).replace("\n", " ").split(",") if a.strip()]
    for m in re.finditer(r"^'(\S+)' does not depend on any axioms", out, re.M):
        res[m.group(1)] = []
    return res


def list_theorems(lean_file: Path) -> list[str]:
    """Names of the theorems declared in a proof file (namespace-qualified)."""
    names, ns = [], []
    for line in strip_lean_comments(lean_file.read_text()).splitlines():
        m = re.match(r"\s*namespace\s+(\S+)", line)
        if m:
            ns.append(m.group(1))
            continue
        m = re.match(r"\s*end\s+(\S+)", line)
        if m and ns and ns[-1] == m.group(1):
            ns.pop()
            continue
        m = re.match(r"\s*(?:@\[[^\]]*\]\s*)?(?:private\s+|protected\s+)?theorem\s+(\S+)", line)
        if m:
            names.append(".".join(ns + [m.group(1)]))
    return names


class ProofStatus:
    def __init__(self):
        self.modules: list[str] = []
        self.theorems: dict[str, list[str]] = {}
        self.build_ok = True
        self.log = ""
        self.problems: list[str] = []

    @property
    def ok(self):
        return self.build_ok and not self.problems


def check_proofs(modules: list[str], extra_files: list[Path] = ()) -> ProofStatus:
    """Build proof modules, grep for escape hatches, audit axioms of every theorem in them."""
    st = ProofStatus()
    st.modules = modules
    ok, log = lake_build(modules)
    st.build_ok, st.log = ok, log
    if not ok:
        st.problems.append("lake build failed for " + ", ".join(modules))
        return st
    files = [LEAN / (m.replace(".", "/") + ".lean") for m in modules] + list(extra_files)
    st.problems += ["forbidden construct: " + h for h in grep_forbidden(files)]
    for m in modules:
        f = LEAN / (m.replace(".", "/") + ".lean")
        thms = list_theorems(f)
        if not thms:
            continue
        ax = audit_axioms(m, thms)
        for t in thms:
            a = ax.get(t)
            if a is None:
                st.problems.append(f"theorem {t} not found by #print axioms")
                continue
            st.theorems[t] = a
            bad = [x for x in a if x not in ALLOWED_AXIOMS]
            if bad:
                st.problems.append(f"theorem {t} depends on {bad}")
    if os.environ.get("VERIF_TIER_RUNNING") == "thorough" and not st.problems:
        # thorough tier: the compiled proof modules are replayed by Lean's independent checker
        t0 = time.time()
        p = run(["lake", "env", "leanchecker", *modules], cwd=LEAN, timeout=2400)
        st.leanchecker = f"{'accepted' if p.returncode == 0 else 'REJECTED'}: {len(modules)} modules in {round(time.time() - t0, 1)} s"
        if p.returncode != 0:
            st.problems.append("leanchecker rejects the compiled modules: " + (p.stdout + p.stderr)[-600:])
    return st


class Driver:
    """Line protocol to the native Lean driver."""

    def __init__(self):
        ensure_driver()
        # binary pipes: no universal-newline translation (answers may echo raw CR bytes)
        self.p = subprocess.Popen([str(DRIVER)], stdin=subprocess.PIPE, stdout=subprocess.PIPE)
        self.n = 0

    def ask(self, line: str) -> str:
        assert "\n" not in line
        self.p.stdin.write(line.encode("utf-8") + b"\n")
        self.p.stdin.flush()
        out = self.p.stdout.readline()
        if out == b"":
            raise ToolFailure("driver died on: " + line[:300])
        self.n += 1
        return out.rstrip(b"\n").decode("utf-8", "replace")

    def ask_many(self, lines: list[str]) -> list[str]:
        # one line at a time: long lines would fill the pipe buffers in a pipelined exchange
        return [self.ask(l) for l in lines]

    def close(self):
        try:
            self.p.stdin.close()
            self.p.wait(timeout=10)
        except Exception:
            self.p.kill()


def hexs(b: bytes) -> str:
    return b.hex() if b else "-"


# --------------------------------------------------------------------------- protocol


def load_known() -> dict:
    if KNOWN.exists():
        return json.loads(KNOWN.read_text())
    return {"findings": [], "fixed": []}


class Report:
    """Collects what a check run covered and decides the exit code."""

    def __init__(self, prop: str, tier: str, level: str):
        self.prop, self.tier, self.level = prop, tier, level
        self.t0 = time.time()
        self.coverage: dict = {}
        self.assumptions: list[str] = []
        self.violations: list[dict] = []
        self.known_hits: list[str] = []
        self.notes: list[str] = []
        self.known = [f for f in load_known().get("findings", []) if f.get("property") == prop]

    # -- findings -----------------------------------------------------------
    def match_known(self, key: str) -> dict | None:
        for f in self.known:
            if f.get("key") == key:
                return f
        return None

    def violation(self, what: str, replay: dict, key: str | None = None, no_input: bool = False):
        """Record a violation (or a KNOWN-FINDING when `key` is listed)."""
        if key is not None:
            k = self.match_known(key)
            if k is not None:
                msg = f"KNOWN-FINDING: property={self.prop} {k.get('what', key)}"
                if msg not in self.known_hits:
                    self.known_hits.append(msg)
                return
        self.n_violations = getattr(self, "n_violations", 0) + 1
        if len(self.violations) >= MAX_REPLAYS:
            return      # counted in the evidence; no further replay files for this run
        REPLAYS.mkdir(parents=True, exist_ok=True)
        body = dict(replay)
        body.update({"property": self.prop, "what": what, "seed": seed(), "tier": self.tier})
        h = hashlib.sha256(json.dumps(body, sort_keys=True, default=str).encode()).hexdigest()[:12]
        path = REPLAYS / f"{self.prop}-{h}.json"
        path.write_text(json.dumps(body, indent=1, default=str))
        shown = str(path.relative_to(VERIF)) if VERIF in path.parents else str(path)
        self.violations.append({"what": what, "replay": shown, "no_input": no_input})

    # -- finish ---------------------------------------------------------------
    def finish(self) -> int:
        EVIDENCE.mkdir(exist_ok=True)
        ev = {
            "property_id": self.prop,
            "tier": self.tier,
            "seed": seed(),
            "level": self.level,
            "coverage": self.coverage,
            "assumptions": self.assumptions,
            "wall_s": round(time.time() - self.t0, 2),
            "violations": getattr(self, "n_violations", len(self.violations)),
            "known_findings_reproduced": self.known_hits,
            "notes": self.notes,
        }
        (EVIDENCE / f"{self.prop}.json").write_text(json.dumps(ev, indent=1, default=str))
        for m in self.known_hits:
            print(m)
        seen = set()
        for v in self.violations:
            line = f"VIOLATION property={self.prop} replay={v['replay']}" + (" no-failing-input-found" if v["no_input"] else "")
            if line not in seen:
                print(f"# {v['what'][:300]}")
                print(line)
                seen.add(line)
        if self.violations:
            return 1
        print(f"OK property={self.prop} tier={self.tier} wall={ev['wall_s']}s")
        return 0


def proof_coverage(st: ProofStatus, checker_cmd: str, trusted: list[str]) -> dict:
    return {
        "obligations": len(st.theorems),
        "discharged": sum(1 for t, a in st.theorems.items() if all(x in ALLOWED_AXIOMS for x in a)) if st.build_ok else 0,
        "checker_cmd": checker_cmd,
        "trusted_base": trusted,
        "theorems": {t: a for t, a in st.theorems.items()},
        "leanchecker": getattr(st, "leanchecker", "not run (thorough tier only)"),
    }
