"""Hand-written program families built directly through the public PyTeal API, each with an
independently computed expected verdict (plain Python arithmetic). Used by C02/C03/C10."""

import sys

from common import REPO

sys.path.insert(0, str(REPO))
import pyteal as pt  # noqa: E402
from pyteal import abi  # noqa: E402


def fact_py(n):
    return 1 if n == 0 else n * fact_py(n - 1)


def fib_py(n):
    return n if n < 2 else fib_py(n - 1) + fib_py(n - 2)


def fam_fact(n):
    @pt.Subroutine(pt.TealType.uint64)
    def fact(x):
        return pt.If(x == pt.Int(0), pt.Int(1), x * fact(x - pt.Int(1)))

    return pt.Return(fact(pt.Int(n)) == pt.Int(fact_py(n))), 4


def fam_fib_locals(n):
    @pt.Subroutine(pt.TealType.uint64)
    def fib(x):
        a = pt.ScratchVar(pt.TealType.uint64)
        b = pt.ScratchVar(pt.TealType.uint64)
        return pt.If(x < pt.Int(2)).Then(x).Else(pt.Seq(a.store(fib(x - pt.Int(1))), b.store(fib(x - pt.Int(2))), a.load() + b.load()))

    return pt.Return(fib(pt.Int(n)) == pt.Int(fib_py(n))), 4


def fam_pending_operands(n):
    """operands already computed at the call site must survive the (recursive) call"""
    @pt.Subroutine(pt.TealType.uint64)
    def tri(x):
        loc = pt.ScratchVar(pt.TealType.uint64)
        return pt.Seq(loc.store(x * pt.Int(3)), pt.If(x == pt.Int(0), pt.Int(0), (loc.load() + x) - loc.load() + tri(x - pt.Int(1))))

    return pt.Return(pt.Int(1000) + tri(pt.Int(n)) + pt.Int(7) == pt.Int(1007 + n * (n + 1) // 2)), 4


def fam_even_odd(n):
    @pt.Subroutine(pt.TealType.uint64)
    def is_even(x):
        return pt.If(x == pt.Int(0), pt.Int(1), is_odd(x - pt.Int(1), pt.Bytes("pad")))

    @pt.Subroutine(pt.TealType.uint64)
    def is_odd(x, pad):
        keep = pt.ScratchVar(pt.TealType.bytes)
        return pt.Seq(keep.store(pad), pt.If(x == pt.Int(0), pt.Int(0), pt.Seq(pt.Assert(keep.load() == pt.Bytes("pad")), is_even(x - pt.Int(1)))))

    return pt.Return(is_even(pt.Int(n)) == pt.Int(1 if n % 2 == 0 else 0)), 4


def fam_mixed_return_kinds(n):
    """f: none <-> g: uint64, a local of f live across the call (restore depends on the callee)"""
    acc = pt.ScratchVar(pt.TealType.uint64)

    @pt.Subroutine(pt.TealType.none)
    def f(x):
        loc = pt.ScratchVar(pt.TealType.uint64)
        return pt.Seq(loc.store(x + pt.Int(100)), pt.If(x > pt.Int(0)).Then(pt.Pop(g(x - pt.Int(1)))), acc.store(acc.load() + loc.load()))

    @pt.Subroutine(pt.TealType.uint64)
    def g(x):
        mine = pt.ScratchVar(pt.TealType.uint64)
        return pt.Seq(mine.store(x * pt.Int(2)), f(x), mine.load())

    exp = sum(100 + k for k in range(n + 1))
    return pt.Seq(acc.store(pt.Int(0)), f(pt.Int(n)), pt.Return(acc.load() == pt.Int(exp))), 4


def fam_bytes_return(n):
    @pt.Subroutine(pt.TealType.bytes)
    def rep(x):
        tmp = pt.ScratchVar(pt.TealType.bytes)
        return pt.If(x == pt.Int(0)).Then(pt.Bytes("")).Else(pt.Seq(tmp.store(pt.Bytes("ab")), pt.Concat(tmp.load(), rep(x - pt.Int(1)), tmp.load())))

    return pt.Return(rep(pt.Int(n)) == pt.Bytes("ab" * (2 * n))), 4


def fam_byref(n):
    @pt.Subroutine(pt.TealType.none)
    def bump(v: pt.ScratchVar, by):
        return v.store(v.load() + by)

    @pt.Subroutine(pt.TealType.uint64)
    def twice(x):
        loc = pt.ScratchVar(pt.TealType.uint64)
        return pt.Seq(loc.store(x), bump(loc, pt.Int(5)), bump(loc, x), loc.load())

    return pt.Return(twice(pt.Int(n)) == pt.Int(2 * n + 5)), 5


def fam_abi_fact(n):
    @pt.ABIReturnSubroutine
    def fact(x: abi.Uint64, *, output: abi.Uint64) -> pt.Expr:
        rec = abi.Uint64()
        m = abi.Uint64()
        return pt.If(x.get() == pt.Int(0)).Then(output.set(1)).Else(
            m.set(x.get() - pt.Int(1)), fact(m).store_into(rec), output.set(x.get() * rec.get()))

    a, r = abi.Uint64(), abi.Uint64()
    return pt.Seq(a.set(n), fact(a).store_into(r), pt.Return(r.get() == pt.Int(fact_py(n)))), 6


def fam_abi_mixed(n):
    """ABI-returning routine calling a none-returning one that re-enters it"""
    total = pt.ScratchVar(pt.TealType.uint64)

    @pt.ABIReturnSubroutine
    def down(x: abi.Uint64, *, output: abi.Uint64) -> pt.Expr:
        keep = abi.Uint64()
        return pt.Seq(keep.set(x.get() + pt.Int(10)), pt.If(x.get() > pt.Int(0)).Then(side(x.get() - pt.Int(1))), output.set(keep.get()))

    @pt.Subroutine(pt.TealType.none)
    def side(y):
        t, r = abi.Uint64(), abi.Uint64()
        return pt.Seq(t.set(y), down(t).store_into(r), total.store(total.load() + r.get()))

    a, r = abi.Uint64(), abi.Uint64()
    exp = sum(10 + k for k in range(n))
    return pt.Seq(total.store(pt.Int(0)), a.set(n), down(a).store_into(r),
                  pt.Return(pt.And(r.get() == pt.Int(n + 10), total.load() == pt.Int(exp)))), 6


def fam_early_return(n):
    @pt.Subroutine(pt.TealType.uint64)
    def find(x):
        i = pt.ScratchVar(pt.TealType.uint64)
        return pt.Seq(
            pt.For(i.store(pt.Int(0)), i.load() < pt.Int(10), i.store(i.load() + pt.Int(1))).Do(
                pt.If(i.load() * i.load() >= x).Then(pt.Return(i.load()))),
            pt.Int(99))

    import math
    exp = next((i for i in range(10) if i * i >= n), 99)
    return pt.Return(pt.Int(5) + find(pt.Int(n)) == pt.Int(5 + exp)), 4


def fam_rec_byref_local(n):
    """a RECURSIVE routine whose local variable is handed by reference to another routine (its index is taken), is live across
    the re-entering call and read afterwards; plus a DynamicScratchVar cursor on a second local"""
    @pt.Subroutine(pt.TealType.none)
    def bump(v: pt.ScratchVar):
        return v.store(v.load() + pt.Int(1))

    @pt.Subroutine(pt.TealType.uint64)
    def f(k):
        acc = pt.ScratchVar(pt.TealType.uint64)
        other = pt.ScratchVar(pt.TealType.uint64)
        cur = pt.DynamicScratchVar(pt.TealType.uint64)
        return pt.Seq(acc.store(k), other.store(k * pt.Int(3)), bump(acc), cur.set_index(other), cur.store(cur.load() + pt.Int(2)),
                      pt.If(k == pt.Int(0)).Then(pt.Return(pt.Int(0))), f(k - pt.Int(1)) + acc.load() + other.load())

    def py(k):
        return 0 if k == 0 else py(k - 1) + (k + 1) + (3 * k + 2)
    return pt.Return(f(pt.Int(n)) == pt.Int(py(n))), 5


def fam_explicit_return_abi_local(n):
    """classic value-returning routines that create ABI values in their body (frame locals from v8) and leave through
    explicit Return(value) statements on every path"""
    from pyteal import abi

    @pt.Subroutine(pt.TealType.uint64)
    def clamp_inc(k):
        a = abi.Uint64()
        s = abi.String()
        return pt.Seq(a.set(k), s.set("xyz"), pt.If(a.get() >= pt.Int(10)).Then(pt.Return(pt.Int(10))),
                      pt.Return(a.get() + pt.Len(s.get()) - pt.Int(2)))

    @pt.Subroutine(pt.TealType.bytes)
    def tag(k):
        b = abi.Bool()
        u = abi.Uint64()
        return pt.Seq(b.set(k > pt.Int(0)), u.set(k), pt.If(b.get()).Then(pt.Return(pt.Itob(u.get()))).Else(pt.Return(pt.Bytes("zero"))))
    want = 10 if n >= 10 else n + 1
    wtag = n.to_bytes(8, "big") if n > 0 else b"zero"
    return pt.Return(pt.And(clamp_inc(pt.Int(n)) == pt.Int(want), tag(pt.Int(n)) == pt.Bytes(wtag))), 6


def fam_abi_many_locals(n):
    """an ABI-returning routine (reserved output cell) with n ABI locals: around the 128 frame entries they spill to scratch"""
    from pyteal import abi

    @pt.ABIReturnSubroutine
    def many(a: abi.Uint64, *, output: abi.Uint64) -> pt.Expr:
        vs = [abi.Uint64() for _ in range(n)]
        tot = a.get()
        for v in vs[:2] + vs[-3:]:
            tot = tot + v.get()
        return pt.Seq(*[v.set(pt.Int(i + 1)) for i, v in enumerate(vs)], output.set(tot))
    x, r_ = abi.Uint64(), abi.Uint64()
    want = 5 + 1 + 2 + (n - 2) + (n - 1) + n
    return pt.Seq(x.set(pt.Int(5)), many(x).store_into(r_), pt.Return(r_.get() == pt.Int(want))), 6


def fam_slot_capacity_chain(n):
    """a call chain caller -> mid -> leaf in which every routine keeps a local across its call, in a program whose main routine
    holds n further variables: 250 of them fill the 256 slots exactly (scratch convention: 6 routine slots), more must be refused"""
    @pt.Subroutine(pt.TealType.uint64)
    def leaf(z):
        w = pt.ScratchVar(pt.TealType.uint64)
        return pt.Seq(w.store(z * z), w.load() + z)

    @pt.Subroutine(pt.TealType.uint64)
    def mid(y):
        u = pt.ScratchVar(pt.TealType.uint64)
        return pt.Seq(u.store(y + pt.Int(1)), leaf(u.load()) + u.load() - y)

    @pt.Subroutine(pt.TealType.uint64)
    def caller(x):
        t = pt.ScratchVar(pt.TealType.uint64)
        return pt.Seq(t.store(x * pt.Int(2)), mid(x) + t.load() + x)
    vs = [pt.ScratchVar(pt.TealType.uint64) for _ in range(n)]
    tot = pt.Int(0)
    for v in vs[:2] + vs[-2:]:
        tot = tot + v.load()
    # caller(3): t = 6; mid(3): u = 4; leaf(4) = 16 + 4 = 20; mid = 20 + 4 - 3 = 21; caller = 21 + 6 + 3 = 30
    want = 30 + sum((list(range(n))[:2] + list(range(n))[-2:]))
    return pt.Seq(*[v.store(pt.Int(i)) for i, v in enumerate(vs)], pt.Return(caller(pt.Int(3)) + tot == pt.Int(want))), 2


def fam_two_spill_regimes(n):
    """a recursive routine with TWO re-entering call sites whose spill code differs: the callee of the first has more arguments than the
    routine has local slots (the spilled values are moved below the arguments), the second has fewer (the arguments are moved above them)"""
    def py_f(k):
        return 1 if k == 0 else py_g(k - 1, 2, 3) + py_f(k - 1) + 2 * k

    def py_g(a, b, c):
        return b + c + (py_f(a) if a > 0 else 0)

    @pt.Subroutine(pt.TealType.uint64)
    def f(k):
        t = pt.ScratchVar(pt.TealType.uint64)
        return pt.Seq(t.store(k * pt.Int(2)),
                      pt.If(k == pt.Int(0)).Then(pt.Int(1)).Else(g(k - pt.Int(1), pt.Int(2), pt.Int(3)) + f(k - pt.Int(1)) + t.load()))

    @pt.Subroutine(pt.TealType.uint64)
    def g(a, b, c):
        return b + c + pt.If(a > pt.Int(0)).Then(f(a)).Else(pt.Int(0))
    return pt.Return(pt.Int(7) + f(pt.Int(n)) == pt.Int(7 + py_f(n))), 4


def fam_early_return_value_tail(n):
    """a value-returning classic routine with an ABI local whose body ENDS in a plain value (the compiler appends the return) and has
    an explicit `Return(v)` in statement position earlier: both exits must hand back their own value under either convention"""
    from pyteal import abi

    @pt.Subroutine(pt.TealType.uint64)
    def f(k):
        a = abi.Uint64()
        extra = [abi.Uint64() for _ in range(n)]
        return pt.Seq(a.set(k + pt.Int(1)), *[e.set(pt.Int(40 + i)) for i, e in enumerate(extra)],
                      pt.If(k == pt.Int(0)).Then(pt.Return(pt.Int(7))),
                      pt.If(k == pt.Int(9)).Then(pt.Return(a.get() + pt.Int(1))),
                      a.get() * pt.Int(10))
    # f(0) = 7, f(9) = 11, f(4) = 50
    return pt.Return(pt.Int(100) + f(pt.Int(0)) + f(pt.Int(9)) + f(pt.Int(4)) == pt.Int(168)), 6


def fam_after_router(k):
    """a routine first compiled inside Router.compile_program (scratch convention; the Router rewinds the slot-id counter afterwards while
    the routine keeps its slots), then called by an ordinary program that holds k fresh variables across the call: the variables may carry
    the very ids of the routine's slots, they are different cells all the same"""
    from pyteal import abi
    hv = pt.ScratchVar(pt.TealType.uint64)

    @pt.Subroutine(pt.TealType.uint64)
    def bump(a):
        return pt.Seq(hv.store(a + pt.Int(1)), hv.load() + a)
    router = pt.Router("fam", pt.BareCallActions(no_op=pt.OnCompleteAction.create_only(pt.Approve())))

    def m(a, *, output):
        return output.set(bump(a.get()))
    m.__annotations__ = {"a": abi.Uint64, "output": abi.Uint64, "return": pt.Expr}
    router.add_method_handler(pt.ABIReturnSubroutine(m))
    router.compile_program(version=7)
    vs = [pt.ScratchVar(pt.TealType.uint64) for _ in range(k)]
    ok = pt.Int(1)
    for i, v in enumerate(vs):
        ok = pt.And(ok, v.load() == pt.Int(100 + i))
    # bump(5) = (5 + 1) + 5 = 11
    return pt.Seq(*[v.store(pt.Int(100 + i)) for i, v in enumerate(vs)], pt.Assert(bump(pt.Int(5)) == pt.Int(11)), pt.Return(ok)), 6


FAMILIES = {
    "after_router": (fam_after_router, [1, 4, 8, 12]),
    "two_spill_regimes": (fam_two_spill_regimes, [0, 1, 3]),
    "early_return_value_tail": (fam_early_return_value_tail, [0, 2]),
    "slot_capacity_chain": (fam_slot_capacity_chain, [3, 250, 251, 253, 254]),
    "abi_many_locals": (fam_abi_many_locals, [126, 127, 128, 130]),
    "explicit_return_abi_local": (fam_explicit_return_abi_local, [0, 3, 12]),
    "rec_byref_local": (fam_rec_byref_local, [0, 1, 3]),
    "fact": (fam_fact, [0, 1, 5]),
    "fib_locals": (fam_fib_locals, [0, 1, 2, 7]),
    "pending_operands": (fam_pending_operands, [0, 1, 4]),
    "even_odd": (fam_even_odd, [0, 1, 4, 5]),
    "mixed_return_kinds": (fam_mixed_return_kinds, [0, 1, 3]),
    "bytes_return": (fam_bytes_return, [0, 1, 3]),
    "byref": (fam_byref, [0, 3]),
    "abi_fact": (fam_abi_fact, [0, 1, 4]),
    "abi_mixed": (fam_abi_mixed, [0, 1, 3]),
    "early_return": (fam_early_return, [0, 5, 50, 200]),
}


class quiet_traces:
    """PyTeal formats the whole Python stack for every Expr it creates (diagnostics only). For the
    recursive ABI families the stacks are ~500 frames deep and a single compile takes minutes;
    inside this context the stdlib formatter is replaced by a stub (stated in the evidence)."""

    def __enter__(self):
        import traceback
        self.tb, self.saved = traceback, traceback.format_stack
        traceback.format_stack = lambda *a, **k: []

    def __exit__(self, *a):
        self.tb.format_stack = self.saved


def compile_family(name, n, version, **opt):
    if name.startswith("abi_"):
        with quiet_traces():
            return _compile_family(name, n, version, **opt)
    return _compile_family(name, n, version, **opt)


def _compile_family(name, n, version, **opt):
    import pyteal.errors as pe
    own = (pe.TealInputError, pe.TealCompileError, pe.TealTypeError, pe.TealInternalError, pe.TealPragmaError)
    fn, _ = FAMILIES[name]
    try:
        ast, minv = fn(n)
        if version < minv:
            return ("skip",)
        kw = {}
        if opt:
            kw["optimize"] = pt.OptimizeOptions(**opt)
        return ("ok", pt.compileTeal(ast, pt.Mode.Application, version=version, **kw))
    except own as e:
        return ("err", type(e).__name__, str(e)[:300])
    except Exception as e:  # noqa: BLE001
        return ("crash", type(e).__name__, str(e)[:300])
