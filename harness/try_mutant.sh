#!/bin/bash
# usage: try_mutant.sh <patch.diff> <check-id> [tier] [seed]   — applies the patch to /repo, runs the check, always undoes it
P=$1; C=$2; T=${3:-quick}; S=${4:-0}
git -C /repo apply "$P" || { echo "patch does not apply"; exit 3; }
VERIF_SEED=$S timeout 1500 ./check $C --tier $T > /tmp/mutant_run_$C.log 2>&1; rc=$?
git -C /repo checkout -- . ; git -C /repo status --short | head -3
echo "exit=$rc"; grep -c "^VIOLATION" /tmp/mutant_run_$C.log; grep "^VIOLATION\|^#" /tmp/mutant_run_$C.log | head -6 | cut -c1-260
