#!/bin/bash
# usage: try_mutant.sh <patch.diff> <check-id> [tier] [seed]
# Applies the patch to a scratch worktree of /repo (outside /repo and /verif), runs the check with
# VERIF_REPO pointing at it, removes the worktree.  /repo itself is never modified.
P=$(realpath $1); C=$2; T=${3:-quick}; S=${4:-0}
W=/tmp/mrepo_$$
git -C /repo worktree add -q $W HEAD || exit 3
git -C $W apply "$P" || { echo "patch does not apply"; git -C /repo worktree remove --force $W; exit 3; }
mkdir -p /tmp/mutant_ev_$C; VERIF_EVIDENCE_DIR=/tmp/mutant_ev_$C VERIF_REPLAY_DIR=/tmp/mutant_ev_$C VERIF_REPO=$W VERIF_SEED=$S timeout 1800 ./check $C --tier $T > /tmp/mutant_run_$C.log 2>&1; rc=$?
git -C /repo worktree remove --force $W
echo "exit=$rc violations=$(grep -c '^VIOLATION' /tmp/mutant_run_$C.log)"; grep "^VIOLATION\|^#" /tmp/mutant_run_$C.log | head -4 | cut -c1-260
