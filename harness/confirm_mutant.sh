#!/bin/bash
# usage: confirm_mutant.sh <ID> : confirms a seeded change in /tmp/mut/<ID> (worktree with the change applied) + /tmp/mut/<ID>_out
ID=$1; W=/tmp/mut/$ID; O=/tmp/mut/${ID}_out
cd $W || exit 9
git -C $W diff > $O/patch.confirm.diff
echo "== suite with change"; /venv/bin/python -m pytest -q -p no:cacheprovider --timeout=900 --continue-on-collection-errors 2>&1 | tail -1
echo "== demo WITH change"; (cd $O && PYTHONPATH=$W timeout 300 /venv/bin/python demo.py >/dev/null 2>&1; echo "exit=$?")
echo "== demo WITHOUT change"; (cd $O && PYTHONPATH=/repo timeout 300 /venv/bin/python demo.py >/dev/null 2>&1; echo "exit=$?")
