"""ARC-4 helpers shared by C06 / C07 / C19.

Codec types are small tuples (an AST independent of both PyTeal and algosdk):

    ("bool",) ("byte",) ("uint", N) ("address",) ("string",)
    ("sarray", T, n) ("darray", T) ("tuple", (T, ...))

Values are plain Python values in the form `algosdk.abi` accepts: bool, int, `bytes` of
length 32 for address, `str` for string, list for arrays and tuples.

This module provides
  * `sig(t)`                         ARC-4 signature string,
  * `sdk_type(t)`                    the reference codec object (`algosdk.abi.ABIType`),
  * `enum_types(size, ...)`          every type shape with exactly `size` constructor nodes,
  * `gen_type(r, depth, ...)`        a random type,
  * `gen_value(r, t)`                a random, boundary-biased, well-typed value,
  * `value_sexp(t, v)`               the S-expression the Lean driver reads (`arc4-encode`),
  * `parse_value(t, text)`           the inverse (Lean `arc4-decode` answer -> Python value),
  * `to_pyteal(abi, t)`              the PyTeal TypeSpec of the same signature,
  * `validate_spec(drv, r, n, ...)`  spec-vs-algosdk validation of the Lean `Arc4` module
                                     (signature, isDynamic, staticLen, encode, decode).
"""
from __future__ import annotations

import algosdk.abi as sdkabi
from algosdk import encoding as sdkenc

from common import hexs

PYTEAL_UINTS = (8, 16, 32, 64)
ALL_UINTS = tuple(range(8, 513, 8))

BOOL = ("bool",)
BYTE = ("byte",)
ADDRESS = ("address",)
STRING = ("string",)


def uint(n):
    return ("uint", n)


def sarray(t, n):
    return ("sarray", t, n)


def darray(t):
    return ("darray", t)


def tup(*ts):
    return ("tuple", tuple(ts))


# ------------------------------------------------------------------ descriptors (Python side)


def sig(t) -> str:
    k = t[0]
    if k in ("bool", "byte", "address", "string"):
        return k
    if k == "uint":
        return f"uint{t[1]}"
    if k == "sarray":
        return f"{sig(t[1])}[{t[2]}]"
    if k == "darray":
        return f"{sig(t[1])}[]"
    if k == "tuple":
        return "(" + ",".join(sig(x) for x in t[1]) + ")"
    raise ValueError(t)


def sdk_type(t) -> sdkabi.ABIType:
    return sdkabi.ABIType.from_string(sig(t))


def from_sdk(a: sdkabi.ABIType):
    """algosdk type object -> AST (ufixed unsupported)"""
    if isinstance(a, sdkabi.BoolType):
        return BOOL
    if isinstance(a, sdkabi.ByteType):
        return BYTE
    if isinstance(a, sdkabi.UintType):
        return uint(a.bit_size)
    if isinstance(a, sdkabi.AddressType):
        return ADDRESS
    if isinstance(a, sdkabi.StringType):
        return STRING
    if isinstance(a, sdkabi.ArrayStaticType):
        return sarray(from_sdk(a.child_type), a.static_length)
    if isinstance(a, sdkabi.ArrayDynamicType):
        return darray(from_sdk(a.child_type))
    if isinstance(a, sdkabi.TupleType):
        return tup(*[from_sdk(c) for c in a.child_types])
    raise ValueError(str(a))


def parse_sig(s: str):
    return from_sdk(sdkabi.ABIType.from_string(s))


def is_dynamic(t) -> bool:
    k = t[0]
    if k in ("string", "darray"):
        return True
    if k == "sarray":
        return is_dynamic(t[1])
    if k == "tuple":
        return any(is_dynamic(x) for x in t[1])
    return False


def size(t) -> int:
    k = t[0]
    if k in ("sarray", "darray"):
        return 1 + size(t[1])
    if k == "tuple":
        return 1 + sum(size(x) for x in t[1])
    return 1


def depth(t) -> int:
    k = t[0]
    if k in ("sarray", "darray"):
        return 1 + depth(t[1])
    if k == "tuple":
        return 1 + max([depth(x) for x in t[1]], default=0)
    return 1


# ------------------------------------------------------------------ enumeration / generation


def leaves(uints=PYTEAL_UINTS):
    return [BOOL, BYTE] + [uint(n) for n in uints] + [ADDRESS, STRING]


def _compositions(n, parts):
    if parts == 0:
        if n == 0:
            yield ()
        return
    for first in range(1, n - parts + 2):
        for rest in _compositions(n - first, parts - 1):
            yield (first,) + rest


_enum_cache: dict = {}


def enum_types(n: int, uints=PYTEAL_UINTS, lens=(0, 1, 3), max_arity=5):
    """All type shapes with exactly `n` constructor nodes (static array lengths from `lens`)."""
    key = (n, tuple(uints), tuple(lens), max_arity)
    if key in _enum_cache:
        return _enum_cache[key]
    out = []
    if n == 1:
        out = leaves(uints) + [tup()]
    elif n > 1:
        for e in enum_types(n - 1, uints, lens, max_arity):
            for ln in lens:
                out.append(sarray(e, ln))
            out.append(darray(e))
        for arity in range(1, min(max_arity, n - 1) + 1):
            for comp in _compositions(n - 1, arity):
                def rec(i):
                    if i == len(comp):
                        yield ()
                        return
                    for x in enum_types(comp[i], uints, lens, max_arity):
                        for rest in rec(i + 1):
                            yield (x,) + rest
                for fields in rec(0):
                    out.append(tup(*fields))
    _enum_cache[key] = out
    return out


def gen_type(r, max_depth=4, uints=PYTEAL_UINTS, max_arity=6, max_len=10):
    """Random type, biased towards bool runs and mixed static/dynamic members."""
    if max_depth <= 1 or r.random() < 0.3:
        return r.choice(leaves(uints) + [BOOL, BOOL, STRING, STRING])
    c = r.random()
    if c < 0.2:
        return sarray(gen_type(r, max_depth - 1, uints, max_arity, max_len), r.choice([0, 1, 2, 3, 7, 8, 9, max_len, 17]))
    if c < 0.45:
        return darray(gen_type(r, max_depth - 1, uints, max_arity, max_len))
    arity = r.choice([0, 1, 2, 2, 3, 3, 4, 5, max_arity, 10, 17]) if max_depth >= 2 else 2
    fields = []
    while len(fields) < arity:
        if r.random() < 0.35:  # a run of bools
            fields += [BOOL] * min(r.choice([1, 2, 7, 8, 9, 16]), arity - len(fields))
        else:
            fields.append(gen_type(r, max_depth - 1, uints, max_arity, max_len))
    return tup(*fields)


_WORDS = ["", "a", "hi", "hello", "été", "☃", "x" * 31, "y" * 32, "z" * 255, "w" * 256]


def gen_value(r, t, big=False):
    """Random well-typed value of type t (algosdk form), boundary-biased."""
    k = t[0]
    if k == "bool":
        return r.random() < 0.5
    if k == "byte":
        return r.choice([0, 1, 127, 128, 255, r.randrange(256)])
    if k == "uint":
        n = t[1]
        return r.choice([0, 1, 255, 256, (1 << n) - 1, 1 << (n - 1), r.randrange(1 << n), r.randrange(1 << n)]) % (1 << n)
    if k == "address":
        return r.choice([bytes(32), bytes([255] * 32), bytes(r.randrange(256) for _ in range(32))])
    if k == "string":
        if big and r.random() < 0.3:
            return "q" * r.choice([4095, 4096, 5000])
        if r.random() < 0.6:
            return r.choice(_WORDS)
        return "".join(r.choice("abc ü中") for _ in range(r.randrange(0, 12)))
    if k == "sarray":
        return [gen_value(r, t[1], big) for _ in range(t[2])]
    if k == "darray":
        n = r.choice([0, 1, 2, 3, 7, 8, 9, 16, 17]) if t[1][0] == "bool" else r.choice([0, 1, 2, 3, 5])
        return [gen_value(r, t[1], big) for _ in range(n)]
    if k == "tuple":
        return [gen_value(r, x, big) for x in t[1]]
    raise ValueError(t)


# ------------------------------------------------------------------ S-expressions


def value_sexp(t, v) -> str:
    """Render a Python value of type t for the Lean driver."""
    k = t[0]
    if k == "bool":
        return "T" if v else "F"
    if k in ("byte", "uint"):
        return str(int(v))
    if k == "address":
        if isinstance(v, str):
            v = sdkenc.decode_address(v)
        return "x" + bytes(v).hex()
    if k == "string":
        return "x" + (v.encode("utf-8") if isinstance(v, str) else bytes(v)).hex()
    if k in ("sarray", "darray"):
        if isinstance(v, (bytes, bytearray)):
            return "x" + bytes(v).hex()
        return "(" + " ".join(value_sexp(t[1], x) for x in v) + ")"
    if k == "tuple":
        # deliberately tolerant about the length: ill-typed values are rendered as they are
        ts = list(t[1])
        return "(" + " ".join(value_sexp(ts[i] if i < len(ts) else BOOL, x) for i, x in enumerate(v)) + ")"
    raise ValueError(t)


def _tokens(s):
    return s.replace("(", " ( ").replace(")", " ) ").split()


def _parse(tokens, i):
    if tokens[i] == "(":
        out = []
        i += 1
        while tokens[i] != ")":
            x, i = _parse(tokens, i)
            out.append(x)
        return out, i + 1
    return tokens[i], i + 1


def read_sexp(s: str):
    x, i = _parse(_tokens(s), 0)
    return x


def _shape(t, x):
    """Lean value tree (nested lists of atoms) -> Python value of type t (canonical form:
    address -> bytes, string -> bytes (utf-8), everything else as algosdk)."""
    k = t[0]
    if k == "bool":
        return x == "T"
    if k in ("byte", "uint"):
        return int(x)
    if k in ("address", "string"):
        return bytes(int(b) for b in x)
    if k in ("sarray", "darray"):
        return [_shape(t[1], y) for y in x]
    if k == "tuple":
        return [_shape(tt, y) for tt, y in zip(t[1], x)]
    raise ValueError(t)


def parse_value(t, text: str):
    return _shape(t, read_sexp(text))


def canonical(t, v):
    """Python value (algosdk form, as given to encode or as returned by decode) -> canonical
    form used for comparisons (address -> bytes, string -> utf-8 bytes)."""
    k = t[0]
    if k == "bool":
        return bool(v)
    if k in ("byte", "uint"):
        return int(v)
    if k == "address":
        return sdkenc.decode_address(v) if isinstance(v, str) else bytes(v)
    if k == "string":
        return v.encode("utf-8") if isinstance(v, str) else bytes(v)
    if k in ("sarray", "darray"):
        return [canonical(t[1], y) for y in v]
    if k == "tuple":
        return [canonical(tt, y) for tt, y in zip(t[1], v)]
    raise ValueError(t)


def flatten(t, v):
    """alias-free value: address / string / byte strings become lists of ints"""
    k = t[0]
    if k == "bool":
        return bool(v)
    if k in ("byte", "uint"):
        return int(v)
    if k in ("address", "string"):
        return list(canonical(t, v))
    if k in ("sarray", "darray"):
        if isinstance(v, (bytes, bytearray)):
            return list(v)
        return [flatten(t[1], y) for y in v]
    if k == "tuple":
        return [flatten(tt, y) for tt, y in zip(t[1], v)]
    raise ValueError(t)


def present(t, nv):
    """alias-free value -> the form algosdk wants for type t (raises when nv does not have the
    shape of t, or when a string's bytes are not UTF-8)"""
    k = t[0]
    if k == "bool":
        if not isinstance(nv, bool):
            raise TypeError("bool expected")
        return nv
    if k in ("byte", "uint"):
        if isinstance(nv, bool) or not isinstance(nv, int):
            raise TypeError("int expected")
        return nv
    if k in ("address", "string"):
        # (never call bytes() on an int: bytes(n) allocates n zero bytes)
        if not isinstance(nv, list) or not all(isinstance(x, int) and not isinstance(x, bool) and 0 <= x < 256 for x in nv):
            raise TypeError("byte sequence expected")
        return bytes(nv) if k == "address" else bytes(nv).decode("utf-8")
    if k in ("sarray", "darray"):
        if not isinstance(nv, list):
            raise TypeError("list expected")
        return [present(t[1], y) for y in nv]
    if k == "tuple":
        if not isinstance(nv, list) or len(nv) != len(t[1]):
            raise TypeError("tuple arity")
        return [present(tt, y) for tt, y in zip(t[1], nv)]
    raise ValueError(t)


def norm(t):
    """byte -> uint8, address -> uint8[32], string -> uint8[] (Python twin of Lean `Ty.norm`)"""
    k = t[0]
    if k == "byte":
        return uint(8)
    if k == "address":
        return sarray(uint(8), 32)
    if k == "string":
        return darray(uint(8))
    if k == "sarray":
        return sarray(norm(t[1]), t[2])
    if k == "darray":
        return darray(norm(t[1]))
    if k == "tuple":
        return tup(*[norm(x) for x in t[1]])
    return t


# ------------------------------------------------------------------ PyTeal side


def to_pyteal(abi, t):
    """The PyTeal TypeSpec with the same signature (`abi` = the imported `pyteal.abi`)."""
    k = t[0]
    if k == "bool":
        return abi.BoolTypeSpec()
    if k == "byte":
        return abi.ByteTypeSpec()
    if k == "uint":
        return {8: abi.Uint8TypeSpec, 16: abi.Uint16TypeSpec, 32: abi.Uint32TypeSpec, 64: abi.Uint64TypeSpec}[t[1]]()
    if k == "address":
        return abi.AddressTypeSpec()
    if k == "string":
        return abi.StringTypeSpec()
    if k == "sarray":
        return abi.StaticArrayTypeSpec(to_pyteal(abi, t[1]), t[2])
    if k == "darray":
        return abi.DynamicArrayTypeSpec(to_pyteal(abi, t[1]))
    if k == "tuple":
        return abi.TupleTypeSpec(*[to_pyteal(abi, x) for x in t[1]])
    raise ValueError(t)


# ------------------------------------------------------------------ reference codec wrappers


def ask_all(drv, lines, budget=12000):
    """Like Driver.ask_many but safe for long lines: a pipelined batch never holds more than
    `budget` bytes of questions (answers here are at most ~4x as long), so neither side can
    block on a full pipe; longer lines are asked one at a time."""
    out, batch, used = [], [], 0
    for ln in lines:
        if len(ln) > budget:
            if batch:
                out += drv.ask_many(batch)
                batch, used = [], 0
            out.append(drv.ask(ln))
            continue
        if used + len(ln) > budget or len(batch) >= 200:
            out += drv.ask_many(batch)
            batch, used = [], 0
        batch.append(ln)
        used += len(ln) + 1
    if batch:
        out += drv.ask_many(batch)
    return out


def sdk_encode(t, v):
    """bytes, or None when algosdk rejects the value"""
    try:
        return sdk_type(t).encode(v)
    except Exception:  # noqa: BLE001 - ABIEncodingError, OverflowError, ...
        return None


def lean_encode_line(t, v) -> str:
    return f"arc4-encode {sig(t)} {value_sexp(t, v)}"


def parse_encode_answer(ans: str):
    """-> ('ok', bytes) | ('none', None) | ('perr', text)"""
    w = ans.split()
    if w and w[0] == "ok":
        return "ok", (b"" if w[1] == "-" else bytes.fromhex(w[1]))
    if w and w[0] == "none":
        return "none", None
    return "perr", ans


def _mutate_illtyped(r, t, v):
    """Make one leaf of v ill-typed / out of range (returns None if no leaf can be broken)."""
    k = t[0]
    if k == "byte":
        return r.choice([256, 300])
    if k == "uint":
        return (1 << t[1]) + r.choice([0, 1, 5])
    if k == "address":
        return bytes(r.choice([31, 33]))
    if k == "sarray":
        if t[2] == 0:
            return None
        if r.random() < 0.4:
            return list(v) + [gen_value(r, t[1])]
        i = r.randrange(len(v))
        m = _mutate_illtyped(r, t[1], v[i])
        return None if m is None else v[:i] + [m] + v[i + 1:]
    if k == "darray":
        if not v:
            return None
        i = r.randrange(len(v))
        m = _mutate_illtyped(r, t[1], v[i])
        return None if m is None else v[:i] + [m] + v[i + 1:]
    if k == "tuple":
        idx = list(range(len(v)))
        r.shuffle(idx)
        for i in idx:
            m = _mutate_illtyped(r, t[1][i], v[i])
            if m is not None:
                return v[:i] + [m] + v[i + 1:]
        return None
    return None


def _has_empty(t) -> bool:
    """does the type contain a component whose encoding can be zero bytes long?"""
    k = t[0]
    if k == "sarray":
        return t[2] == 0 or _has_empty(t[1])
    if k == "darray":
        return _has_empty(t[1])
    if k == "tuple":
        return len(t[1]) == 0 or any(_has_empty(x) for x in t[1])
    return False


OVERFLOW_CASES = [
    # (type, value): an offset / length does not fit a uint16 -> no encoding exists
    (STRING, "a" * 65536),
    (tup(STRING, STRING), ["a" * 40000, "b" * 30000]),
    (tup(STRING, STRING, STRING), ["a" * 65000, "b" * 533, ""]),
    (darray(uint(64)), [1] * 65536),
    (tup(darray(BYTE), darray(BYTE)), [bytes(65530), bytes(3)]),
    # the largest encodings that do exist
    (STRING, "a" * 65535),
    (tup(STRING, STRING), ["a" * 65529, "b" * 7]),
    (tup(STRING, STRING, STRING), ["a" * 65000, "b" * 525, "tail"]),
    (darray(BYTE), bytes(65535)),
    (darray(BOOL), [True] * 2001),
]


def validate_spec(drv, r, n_types: int, values_per_type: int = 4, uints=ALL_UINTS, max_depth=4, extra_types=()):
    """Compare the Lean ARC-4 specification with algosdk on random (type, value) pairs.

    Returns (stats, mismatches) where mismatches is a list of dicts (empty = spec validated).
    """
    stats = {"types": 0, "descr": 0, "encode_ok": 0, "encode_rejected": 0, "decode": 0, "overflow_cases": 0,
             "dynamic_types": 0, "bool_packing_types": 0, "max_encoding_len": 0}
    bad = []
    types = list(extra_types) + [gen_type(r, r.choice([1, 2, 3, max_depth]), uints) for _ in range(n_types)]
    # descriptors
    answers = ask_all(drv, [f"arc4-descr {sig(t)}" for t in types])
    for t, a in zip(types, answers):
        st = sdk_type(t)
        stats["types"] += 1
        dyn = st.is_dynamic()
        stats["dynamic_types"] += int(dyn)
        stats["bool_packing_types"] += int("bool,bool" in sig(t) or "bool[" in sig(t))
        w = a.split()
        exp_len = None if dyn else st.byte_len()
        ok = (len(w) == 5 and w[0] == "ok" and w[1] == str(st) == sig(t) and w[2] == ("1" if dyn else "0")
              and (dyn or int(w[3]) == exp_len) and int(w[4]) == (2 if dyn else exp_len))
        stats["descr"] += 1
        if not ok:
            bad.append({"kind": "descr", "type": sig(t), "lean": a, "algosdk": [str(st), dyn, exp_len]})
    # encodings
    cases = []
    for t in types:
        for j in range(values_per_type):
            v = gen_value(r, t, big=(j == 0))
            cases.append((t, v))
            if j == 1:
                m = _mutate_illtyped(r, t, v)
                if m is not None:
                    cases.append((t, m))
    cases += OVERFLOW_CASES
    stats["overflow_cases"] = len(OVERFLOW_CASES)
    answers = ask_all(drv, [lean_encode_line(t, v) for t, v in cases])
    dec_cases = []
    for (t, v), a in zip(cases, answers):
        ref = sdk_encode(t, v)
        kind, got = parse_encode_answer(a)
        if ref is None:
            stats["encode_rejected"] += 1
            if kind != "none":
                bad.append({"kind": "encode", "type": sig(t), "value": value_sexp(t, v)[:400], "lean": a[:400], "algosdk": "rejects"})
        else:
            stats["encode_ok"] += 1
            stats["max_encoding_len"] = max(stats["max_encoding_len"], len(ref))
            if kind != "ok" or got != ref or "ILL-TYPED" in a:
                bad.append({"kind": "encode", "type": sig(t), "value": value_sexp(t, v)[:400], "lean": a[:400], "algosdk": hexs(ref)[:400]})
            elif len(ref) <= 20000:
                dec_cases.append((t, v, ref))
    # decoding of valid encodings (Lean decode must return the value; algosdk must agree)
    answers = ask_all(drv, [f"arc4-decode {sig(t)} {hexs(b)}" for t, v, b in dec_cases])
    for (t, v, b), a in zip(dec_cases, answers):
        stats["decode"] += 1
        want = canonical(t, v)
        try:
            ref = canonical(t, sdk_type(t).decode(b))
        except Exception as e:  # noqa: BLE001
            # algosdk's decoder refuses some valid encodings whose last components are
            # zero bytes long (e.g. `()[3]` = b"", `string[0][2]`); counted, and Lean is still held to `want`
            ref = want if _has_empty(t) else f"algosdk raised {e!r}"
            stats["sdk_decode_refused_empty_component"] = stats.get("sdk_decode_refused_empty_component", 0) + 1
        got = parse_value(t, a[3:]) if a.startswith("ok ") else a
        if got != want or ref != want:
            bad.append({"kind": "decode", "type": sig(t), "bytes": hexs(b)[:400], "lean": a[:400], "algosdk": str(ref)[:400], "value": value_sexp(t, v)[:400]})
    return stats, bad
