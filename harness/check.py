"""Entry point of every registered check: ./check Cxx --tier quick|thorough [--replay FILE]"""
import argparse
import importlib
import os
import sys
import traceback
from pathlib import Path

HERE = Path(__file__).resolve().parent
sys.path.insert(0, str(HERE))
sys.path.insert(0, str(HERE / "props"))
os.environ.setdefault("ALGORAND_PYTEAL_VERIF", "1")

import common  # noqa: E402


def main():
    ap = argparse.ArgumentParser()
    ap.add_argument("prop")
    ap.add_argument("--tier", default=os.environ.get("VERIF_TIER", "quick"), choices=["quick", "thorough"])
    ap.add_argument("--replay", default=None)
    a = ap.parse_args()
    try:
        os.environ["VERIF_TIER_RUNNING"] = a.tier      # (common.check_proofs: the thorough tier re-checks the compiled proofs with leanchecker)
        mod = importlib.import_module(a.prop.lower())
        if a.replay:
            return mod.replay(a.replay)
        return mod.run(a.tier)
    except common.ToolFailure as e:
        print("TOOL-FAILURE:", str(e)[-3000:], file=sys.stderr)
        return 2
    except Exception:  # noqa: BLE001
        traceback.print_exc()
        return 2


if __name__ == "__main__":
    sys.exit(main())
