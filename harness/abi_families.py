"""Random call graphs mixing ABI subroutines (ABIReturnSubroutine with `output`), plain subroutines,
by-value Expr parameters, ABI-typed parameters and by-reference ScratchVar parameters, with ABI and
ScratchVar locals that are live across (possibly recursive) calls.  Every routine computes a linear
function that a plain-Python mirror evaluates independently; the program approves iff the real
result (and the by-reference side effects) equal the mirror's."""

import sys

from common import REPO

sys.path.insert(0, str(REPO))
import pyteal as pt  # noqa: E402
from pyteal import abi  # noqa: E402

M64 = 2 ** 64
KINDS = ["expr", "u64", "u8", "bool", "ref"]
ABI_T = {"u64": abi.Uint64, "u8": abi.Uint8, "bool": abi.Bool}


class Spec:
    def __init__(self, r, idx, n_subs, recursive_ok):
        self.idx = idx
        self.abi_ret = r.random() < 0.6                       # ABIReturnSubroutine (output: Uint64) or Subroutine(uint64)
        k = r.choice([1, 2, 3, 4])
        self.kinds = [r.choice(KINDS) for _ in range(k)]
        self.kinds[0] = r.choice(["expr", "u64"])             # first parameter: depth counter
        if recursive_ok and "ref" in self.kinds:
            # by-reference parameters are not allowed in recursive routines
            self.kinds = [("expr" if x == "ref" else x) for x in self.kinds]
        self.coef = [r.randrange(1, 7) for _ in range(k)]
        self.c0 = r.randrange(0, 50)
        self.recursive = recursive_ok and r.random() < 0.6
        self.callee = r.randrange(0, idx) if (idx > 0 and r.random() < 0.7) else None
        self.ref_inc = r.randrange(1, 5)


def mirror(specs, i, args, depth=0):
    """plain-Python meaning: returns (result, new values of by-ref args)"""
    s = specs[i]
    vals = list(args)
    acc = s.c0
    for c, kd, v in zip(s.coef, s.kinds, vals):
        acc += c * (v if kd != "bool" else (1 if v else 0))
    # locals live across the calls
    keep = acc % M64
    refs = {j: vals[j] for j, kd in enumerate(s.kinds) if kd == "ref"}
    for j in refs:
        refs[j] = (refs[j] + s.ref_inc) % M64
    if s.recursive and vals[0] > 0:
        sub_args = [vals[0] - 1] + [(refs[j] if s.kinds[j] == "ref" else vals[j]) for j in range(1, len(vals))]
        r2, _ = mirror(specs, i, sub_args, depth + 1)
        acc += r2
    if s.callee is not None:
        t = specs[s.callee]
        cargs = []
        for j, kd in enumerate(t.kinds):
            base = (keep + j) % 200 if kd in ("u8",) else (keep + j) % 1000
            if j == 0:
                base = min(vals[0], 2)
            if kd == "bool":
                base = base % 2
            cargs.append(base)
        r3, _ = mirror(specs, s.callee, cargs, depth + 1)
        acc += r3
    acc += keep
    return acc % M64, refs


def build(specs):
    """real PyTeal subroutine objects for the specs"""
    fns = {}

    def make(i):
        s = specs[i]
        names = [f"p{j}" for j in range(len(s.kinds))]
        anns = []
        for n, kd in zip(names, s.kinds):
            if kd == "expr":
                anns.append(f"{n}: pt.Expr")
            elif kd == "ref":
                anns.append(f"{n}: pt.ScratchVar")
            else:
                anns.append(f"{n}: abi.{ABI_T[kd].__name__}")
        sig = ", ".join(anns)
        if s.abi_ret:
            src = f"def f{i}({sig}, *, output: abi.Uint64) -> pt.Expr:\n    return _body([{', '.join(names)}], output)\n"
        else:
            src = f"def f{i}({sig}) -> pt.Expr:\n    return _body([{', '.join(names)}], None)\n"

        def val(kd, p):
            if kd == "expr":
                return p
            if kd == "ref":
                return p.load()
            return p.get()

        def call_value(j, args):
            """uint64 Expr holding the result of calling routine j"""
            t = specs[j]
            tmp_store, built = [], []
            for kd, a in zip(t.kinds, args):
                if kd in ABI_T:
                    v = ABI_T[kd]()
                    tmp_store.append(v.set(a))
                    built.append(v)
                elif kd == "ref":
                    built.append(a)       # a ScratchVar
                else:
                    built.append(a)
            if t.abi_ret:
                res = abi.Uint64()
                return pt.Seq(*tmp_store, fns[j](*built).store_into(res), res.get())
            return pt.Seq(*tmp_store, fns[j](*built)) if tmp_store else fns[j](*built)

        def _body(ps, output):
            keep = abi.Uint64()                       # ABI local, live across the calls
            acc = pt.ScratchVar(pt.TealType.uint64)   # scratch local, live across the calls
            stmts = []
            e = pt.Int(s.c0)
            for c, kd, p in zip(s.coef, s.kinds, ps):
                e = e + pt.Int(c) * val(kd, p)
            stmts += [acc.store(e), keep.set(acc.load())]
            for kd, p in zip(s.kinds, ps):
                if kd == "ref":
                    stmts.append(p.store(p.load() + pt.Int(s.ref_inc)))
            if s.recursive:
                rec_args = [val(s.kinds[0], ps[0]) - pt.Int(1)]
                for kd, p in list(zip(s.kinds, ps))[1:]:
                    rec_args.append(val(kd, p))
                stmts.append(pt.If(val(s.kinds[0], ps[0]) > pt.Int(0)).Then(acc.store(acc.load() + call_value(i, rec_args))))
            if s.callee is not None:
                t = specs[s.callee]
                cargs = []
                holders = []
                for j, kd in enumerate(t.kinds):
                    mod = 200 if kd == "u8" else 1000
                    a = (keep.get() + pt.Int(j)) % pt.Int(mod)
                    if j == 0:
                        first = val(s.kinds[0], ps[0])
                        a = pt.If(first < pt.Int(2), first, pt.Int(2))
                    if kd == "bool":
                        a = a % pt.Int(2)
                    if kd == "ref":
                        h = pt.ScratchVar(pt.TealType.uint64)
                        holders.append(h.store(a))
                        a = h
                    cargs.append(a)
                stmts += holders
                stmts.append(acc.store(acc.load() + call_value(s.callee, cargs)))
            total = acc.load() + keep.get()
            if output is not None:
                return pt.Seq(*stmts, output.set(total))
            return pt.Seq(*stmts, total)

        g = {"pt": pt, "abi": abi, "_body": _body}
        exec(compile(src, f"<abi-family-{i}>", "exec", dont_inherit=True), g)
        fn = g[f"f{i}"]
        if s.abi_ret:
            fns[i] = pt.ABIReturnSubroutine(fn)
        else:
            fns[i] = pt.Subroutine(pt.TealType.uint64)(fn)

    for i in range(len(specs)):
        make(i)
    return fns


def gen_case(r):
    """returns (builder() -> Expr, expected description). Arithmetic stays far below 2^64."""
    n = r.choice([1, 2, 3])
    recursive_ok = r.random() < 0.6
    specs = [Spec(r, i, n, recursive_ok) for i in range(n)]
    top = n - 1
    s = specs[top]
    args = []
    for j, kd in enumerate(s.kinds):
        v = r.randrange(0, 4) if j == 0 else (r.randrange(0, 2) if kd == "bool" else r.randrange(0, 200))
        args.append(v)
    exp, refs = mirror(specs, top, args)

    def builder():
        fns = build(specs)
        pre, built, ref_vars = [], [], {}
        for j, (kd, v) in enumerate(zip(s.kinds, args)):
            if kd in ABI_T:
                a = ABI_T[kd]()
                pre.append(a.set(bool(v) if kd == "bool" else v))
                built.append(a)
            elif kd == "ref":
                sv = pt.ScratchVar(pt.TealType.uint64)
                pre.append(sv.store(pt.Int(v)))
                built.append(sv)
                ref_vars[j] = sv
            else:
                built.append(pt.Int(v))
        res = pt.ScratchVar(pt.TealType.uint64)
        if s.abi_ret:
            out = abi.Uint64()
            call = pt.Seq(fns[top](*built).store_into(out), res.store(out.get()))
        else:
            call = res.store(fns[top](*built))
        checks = [res.load() == pt.Int(exp)] + [ref_vars[j].load() == pt.Int(refs[j]) for j in ref_vars]
        return pt.Seq(*pre, pt.Pop(pt.Int(77)), call, pt.Return(pt.And(*checks) if len(checks) > 1 else checks[0]))

    descr = {"routines": [{"abi_ret": x.abi_ret, "kinds": x.kinds, "recursive": x.recursive, "callee": x.callee} for x in specs],
             "args": args, "expected": exp, "ref_side_effects": refs}
    return builder, descr


def compile_case(builder, version, **opt):
    import pyteal.errors as pe
    from families import quiet_traces
    own = (pe.TealInputError, pe.TealCompileError, pe.TealTypeError, pe.TealInternalError, pe.TealPragmaError)
    try:
        with quiet_traces():
            ast = builder()
            kw = {}
            if opt:
                kw["optimize"] = pt.OptimizeOptions(**opt)
            return ("ok", pt.compileTeal(ast, pt.Mode.Application, version=version, **kw))
    except own as e:
        return ("err", type(e).__name__, str(e)[:300])
    except Exception as e:  # noqa: BLE001
        return ("crash", type(e).__name__, str(e)[:300])
