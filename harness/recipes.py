"""Recipes: one description of a program, rendered (a) as real PyTeal objects through the public
API and (b) as an S-expression for the Lean side (source semantics / models)."""
from __future__ import annotations

import itertools
import linecache
import sys

from common import REPO, hexs

sys.path.insert(0, str(REPO))
import pyteal as pt  # noqa: E402  (the real, current code under /repo)

U, B, N, ANY = "u", "b", "none", "any"
TT = {U: pt.TealType.uint64, B: pt.TealType.bytes, N: pt.TealType.none, ANY: pt.TealType.anytype}


class Var:
    _n = itertools.count()

    def __init__(self, ttype=U, slot=None, name=None):
        self.ttype, self.slot = ttype, slot
        self.uid = next(Var._n)
        self.name = name or f"v{self.uid}"
        self.key = None  # assigned per program: slot if requested else 256+index

    def __repr__(self):
        return f"Var({self.name},{self.ttype},{self.slot})"


class Sub:
    def __init__(self, sid, name, params, ret, body=None, decl=None):
        self.sid, self.name, self.params, self.ret, self.body = sid, name, params, ret, body
        self.decl = decl or ret      # declared return type (ANY: TealType.anytype; `ret` is the kind every return really has)
        # params: list of (kind 'val'|'ref', Var)  -- Var is the model-side parameter cell

    def __repr__(self):
        return f"Sub({self.sid},{self.name})"


class Program:
    def __init__(self, mode, main, vars=(), subs=(), dvars=(), mvars=()):
        self.mode, self.main, self.vars, self.subs, self.dvars = mode, main, list(vars), list(subs), list(dvars)
        self.mvars = list(mvars)      # output cells of MultiValue/MaybeValue expressions (created by the expression itself)
        self.assign_keys()

    def all_vars(self):
        vs = list(self.vars) + list(self.dvars) + list(getattr(self, "mvars", []))
        for s in self.subs:
            vs += [v for _, v in s.params]
        return vs

    def assign_keys(self):
        k = 0
        for v in self.all_vars():
            if v.slot is not None:
                v.key = v.slot
            else:
                v.key = 256 + k
                k += 1


# ----------------------------------------------------------------------------- operator table
# name -> (constructor, teal op, arg types, result type, min version, mode)
OPS = {}


def _op(name, ctor, teal, args, ret, minv=2, mode="both"):
    OPS[name] = dict(ctor=ctor, teal=teal, args=args, ret=ret, minv=minv, mode=mode)


for _n, _c, _t in [("Minus", pt.Minus, "-"), ("Div", pt.Div, "/"), ("Mod", pt.Mod, "%"), ("BitwiseAnd", pt.BitwiseAnd, "&"),
                   ("BitwiseOr", pt.BitwiseOr, "|"), ("BitwiseXor", pt.BitwiseXor, "^"), ("Lt", pt.Lt, "<"), ("Le", pt.Le, "<="),
                   ("Gt", pt.Gt, ">"), ("Ge", pt.Ge, ">=")]:
    _op(_n, _c, _t, [U, U], U)
_op("Add2", lambda a, b: a + b, "+", [U, U], U)
_op("Mul2", lambda a, b: a * b, "*", [U, U], U)
_op("Exp", pt.Exp, "exp", [U, U], U, 4)
_op("ShiftLeft", pt.ShiftLeft, "shl", [U, U], U, 4)
_op("ShiftRight", pt.ShiftRight, "shr", [U, U], U, 4)
_op("EqU", pt.Eq, "==", [U, U], U)
_op("NeqU", pt.Neq, "!=", [U, U], U)
_op("EqB", pt.Eq, "==", [B, B], U)
_op("NeqB", pt.Neq, "!=", [B, B], U)
_op("GetBitU", pt.GetBit, "getbit", [U, U], U, 3)
_op("GetBitB", pt.GetBit, "getbit", [B, U], U, 3)
_op("GetByte", pt.GetByte, "getbyte", [B, U], U, 3)
for _n, _c, _t in [("BytesAdd", pt.BytesAdd, "b+"), ("BytesMinus", pt.BytesMinus, "b-"), ("BytesDiv", pt.BytesDiv, "b/"),
                   ("BytesMul", pt.BytesMul, "b*"), ("BytesMod", pt.BytesMod, "b%"), ("BytesAnd", pt.BytesAnd, "b&"),
                   ("BytesOr", pt.BytesOr, "b|"), ("BytesXor", pt.BytesXor, "b^")]:
    _op(_n, _c, _t, [B, B], B, 4)
for _n, _c, _t in [("BytesEq", pt.BytesEq, "b=="), ("BytesNeq", pt.BytesNeq, "b!="), ("BytesLt", pt.BytesLt, "b<"),
                   ("BytesLe", pt.BytesLe, "b<="), ("BytesGt", pt.BytesGt, "b>"), ("BytesGe", pt.BytesGe, "b>=")]:
    _op(_n, _c, _t, [B, B], U, 4)
_op("ExtractUint16", pt.ExtractUint16, "extract_uint16", [B, U], U, 5)
_op("ExtractUint32", pt.ExtractUint32, "extract_uint32", [B, U], U, 5)
_op("ExtractUint64", pt.ExtractUint64, "extract_uint64", [B, U], U, 5)
_op("Btoi", pt.Btoi, "btoi", [B], U)
_op("Itob", pt.Itob, "itob", [U], B)
_op("Len", pt.Len, "len", [B], U)
_op("BitLenU", pt.BitLen, "bitlen", [U], U, 4)
_op("BitLenB", pt.BitLen, "bitlen", [B], U, 4)
_op("Sha256", pt.Sha256, "sha256", [B], B)
_op("Sha512_256", pt.Sha512_256, "sha512_256", [B], B)
_op("Keccak256", pt.Keccak256, "keccak256", [B], B)
_op("Not", pt.Not, "!", [U], U)
_op("BitwiseNot", pt.BitwiseNot, "~", [U], U)
_op("Sqrt", pt.Sqrt, "sqrt", [U], U, 4)
_op("PopU", pt.Pop, "pop", [U], N)
_op("PopB", pt.Pop, "pop", [B], N)
_op("BytesNot", pt.BytesNot, "b~", [B], B, 4)
_op("BytesSqrt", pt.BytesSqrt, "bsqrt", [B], B, 6)
_op("BytesZero", pt.BytesZero, "bzero", [U], B, 4)
_op("Log", pt.Log, "log", [B], N, 5, "app")
_op("SetBitU", pt.SetBit, "setbit", [U, U, U], U, 3)
_op("SetBitB", pt.SetBit, "setbit", [B, U, U], B, 3)
_op("SetByte", pt.SetByte, "setbyte", [B, U, U], B, 3)
_op("Divw", pt.Divw, "divw", [U, U, U], U, 6)
_op("Substring", pt.Substring, "substring3", [B, U, U], B)
_op("Extract", pt.Extract, "extract3", [B, U, U], B, 5)
_op("Suffix", pt.Suffix, "suffix", [B, U], B)
_op("GlobalGet", pt.App.globalGet, "app_global_get", [B], ANY, 2, "app")
_op("GlobalPutU", pt.App.globalPut, "app_global_put", [B, U], N, 2, "app")
_op("GlobalPutB", pt.App.globalPut, "app_global_put", [B, B], N, 2, "app")
_op("GlobalDel", pt.App.globalDel, "app_global_del", [B], N, 2, "app")
_op("LocalGet", pt.App.localGet, "app_local_get", [U, B], ANY, 2, "app")
_op("LocalPutU", pt.App.localPut, "app_local_put", [U, B, U], N, 2, "app")
_op("LocalDel", pt.App.localDel, "app_local_del", [U, B], N, 2, "app")
_op("Balance", pt.Balance, "balance", [U], U, 2, "app")
_op("OptedIn", pt.App.optedIn, "app_opted_in", [U, U], U, 2, "app")
_op("BoxCreate", pt.App.box_create, "box_create", [B, U], U, 8, "app")
_op("BoxDelete", pt.App.box_delete, "box_del", [B], U, 8, "app")
_op("BoxPut", pt.App.box_put, "box_put", [B, B], N, 8, "app")
_op("BoxExtract", pt.App.box_extract, "box_extract", [B, U, U], B, 8, "app")
_op("BoxReplace", pt.App.box_replace, "box_replace", [B, U, B], N, 8, "app")
_op("MinBalance", pt.MinBalance, "min_balance", [U], U, 3, "app")
# n-ary constructors: rendered as a left fold of the binary op
NARY = {
    "Add": (pt.Add, "+", U, U, 2),
    "Mul": (pt.Mul, "*", U, U, 2),
    "And": (pt.And, "&&", U, U, 2),
    "Or": (pt.Or, "||", U, U, 2),
    "Concat": (pt.Concat, "concat", B, B, 2),
}

MAYBE = {  # kind -> (constructor, teal op, immediates, arg types, value type, min version)
    "GlobalGetEx": (lambda a, k: pt.App.globalGetEx(a, k), "app_global_get_ex", [], [U, B], ANY, 2),
    "LocalGetEx": (lambda acct, a, k: pt.App.localGetEx(acct, a, k), "app_local_get_ex", [], [U, U, B], ANY, 2),
    "AssetBalance": (lambda acct, asset: pt.AssetHolding.balance(acct, asset), "asset_holding_get", ["AssetBalance"], [U, U], U, 2),
    "AssetTotal": (lambda asset: pt.AssetParam.total(asset), "asset_params_get", ["AssetTotal"], [U], U, 2),
    "AssetCreator": (lambda asset: pt.AssetParam.creator(asset), "asset_params_get", ["AssetCreator"], [U], B, 5),
    "AcctBalance": (lambda a: pt.AccountParam.balance(a), "acct_params_get", ["AcctBalance"], [U], U, 6),
    "AcctAuthAddr": (lambda a: pt.AccountParam.authAddr(a), "acct_params_get", ["AcctAuthAddr"], [U], B, 6),
    "BoxGet": (lambda n: pt.App.box_get(n), "box_get", [], [B], B, 8),
    "BoxLen": (lambda n: pt.App.box_length(n), "box_len", [], [B], U, 8),
}
MULTI = {  # kind -> (Op, teal op, arg types, output types, min version): MultiValue built directly, n outputs
    "AddW": (pt.Op.addw, "addw", [U, U], [U, U], 2),
    "MulW": (pt.Op.mulw, "mulw", [U, U], [U, U], 3),
    "ExpW": (pt.Op.expw, "expw", [U, U], [U, U], 4),
    "DivModW": (pt.Op.divmodw, "divmodw", [U, U, U, U], [U, U, U, U], 4),
}
ITXN_FIELDS = {  # field -> (TxnField, type)
    "TypeEnum": (pt.TxnField.type_enum, U), "Amount": (pt.TxnField.amount, U), "Fee": (pt.TxnField.fee, U),
    "Receiver": (pt.TxnField.receiver, B), "Note": (pt.TxnField.note, B), "AssetAmount": (pt.TxnField.asset_amount, U),
    "XferAsset": (pt.TxnField.xfer_asset, U),
}


class _SlotView:
    """ScratchVar-like view of a MultiValue output slot"""

    def __init__(self, slot, ttype):
        self.slot, self.ttype = slot, ttype

    def load(self):
        return self.slot.load(self.ttype)

    def store(self, value):
        return self.slot.store(value)

    def index(self):
        return self.slot.index()


TXN_FIELDS = {  # field -> (accessor on TxnObject, type, min version)
    "Sender": ("sender", B, 2), "Fee": ("fee", U, 2), "FirstValid": ("first_valid", U, 2), "Note": ("note", B, 2),
    "Amount": ("amount", U, 2), "TypeEnum": ("type_enum", U, 2), "GroupIndex": ("group_index", U, 2),
    "ApplicationID": ("application_id", U, 2), "OnCompletion": ("on_completion", U, 2),
    "NumAppArgs": (None, U, 2), "NumAccounts": (None, U, 2), "RekeyTo": ("rekey_to", B, 2), "Receiver": ("receiver", B, 2),
}
GLOBAL_FIELDS = {
    "MinTxnFee": ("min_txn_fee", U, 2), "GroupSize": ("group_size", U, 2), "Round": ("round", U, 2),
    "LatestTimestamp": ("latest_timestamp", U, 2), "CurrentApplicationID": ("current_application_id", U, 2),
    "ZeroAddress": ("zero_address", B, 2), "CreatorAddress": ("creator_address", B, 3),
    "CurrentApplicationAddress": ("current_application_address", B, 5),
}


# ----------------------------------------------------------------------------- rendering: S-expression


def atoms(xs):
    return "(" + " ".join(xs) + ")"


class SexpRenderer:
    def __init__(self, prog: Program):
        self.prog = prog
        self.cur_sub = None
        # Var objects are shared between a program and its clones (shrink candidates): the keys of THIS program are
        # re-established before every rendering, otherwise a rejected candidate leaves its numbering behind
        prog.assign_keys()

    def prim(self, op, imms, args):
        return atoms(["prim", op, atoms([str(i) for i in imms])] + [self.e(a) for a in args])

    def e(self, n) -> str:
        t = n[0]
        if t == "int":
            return f"(int {n[1]})"
        if t == "bytes":
            return f"(bytes {hexs(n[1])})"
        if t == "str":
            return f"(bytes {hexs(n[1].encode('utf-8'))})"
        if t == "op":
            o = OPS[n[1]]
            if n[1] == "Substring":
                return atoms(["substring"] + [self.e(a) for a in n[2]])
            if n[1] == "Extract":
                return atoms(["extract"] + [self.e(a) for a in n[2]])
            if n[1] == "Suffix":
                return atoms(["suffix"] + [self.e(a) for a in n[2]])
            return self.prim(o["teal"], [], n[2])
        if t == "nary":
            _, teal, _, _, _ = NARY[n[1]]
            args = n[2]
            if len(args) == 1:
                # a one-operand NaryExpr is not a constant for the opcode selection of Substring/Extract/Suffix
                return atoms(["seq", self.e(args[0])])
            acc = self.e(args[0])
            for a in args[1:]:
                acc = atoms(["prim", teal, "()", acc, self.e(a)])
            return acc
        if t == "txn":
            return self.prim("txn", [n[1]], [])
        if t == "txna":
            if isinstance(n[2], int):
                return self.prim("txna", [n[1], n[2]], [])
            return self.prim("txnas", [n[1]], [n[2]])
        if t == "gtxn":
            if isinstance(n[1], int):
                return self.prim("gtxn", [n[1], n[2]], [])
            return self.prim("gtxns", [n[2]], [n[1]])
        if t == "global":
            return self.prim("global", [n[1]], [])
        if t == "arg":
            if isinstance(n[1], int):
                return self.prim("arg", [n[1]], [])
            return self.prim("args", [], [n[1]])
        if t == "load":
            return f"(load {n[1].key})"
        if t == "store":
            return f"(store {n[1].key} {self.e(n[2])})"
        if t == "index":
            return f"(index {n[1].key})"
        if t == "dset":
            return f"(store {n[1].key} (index {n[2].key}))"
        if t == "dload":
            return atoms(["prim", "vloads", "()", f"(load {n[1].key})"])
        if t == "dstore":
            return atoms(["prim", "vstores", "()", f"(load {n[1].key})", self.e(n[2])])
        if t == "dindex":
            return f"(load {n[1].key})"
        if t == "seq":
            return atoms(["seq"] + [self.e(x) for x in n[1]])
        if t == "if":
            return atoms(["if", self.e(n[1]), self.e(n[2])] + ([self.e(n[3])] if n[3] is not None else []))
        if t == "cond":
            return atoms(["cond"] + [atoms([self.e(c), self.e(b)]) for c, b in n[1]])
        if t == "while":
            return atoms(["while", self.e(n[1]), self.e(n[2])])
        if t == "for":
            return atoms(["for", self.e(n[1]), self.e(n[2]), self.e(n[3]), self.e(n[4])])
        if t == "break":
            return "break"
        if t == "continue":
            return "continue"
        if t == "assert":
            conds = n[1]
            if len(conds) == 1:
                return f"(assert {self.e(conds[0])})"
            return atoms(["seq"] + [f"(assert {self.e(c)})" for c in conds])
        if t == "ret":
            return "(ret)" if n[1] is None else f"(ret {self.e(n[1])})"
        if t == "approve":
            return "(exit (int 1))"
        if t == "reject":
            return "(exit (int 0))"
        if t == "exit":
            return f"(exit {self.e(n[1])})"
        if t == "err":
            return "err"
        if t == "call":
            sub, args = n[1], n[2]
            rendered = []
            for (kind, _pv), a in zip(sub.params, args):
                if kind == "ref" and a[0] == "refparam":
                    # forwarding one's own by-reference parameter: the reference itself is passed on
                    rendered.append(f"(load {self.cur_sub.params[a[1]][1].key})")
                elif kind == "ref":
                    rendered.append(f"(index {a[1].key})")
                else:
                    rendered.append(self.e(a))
            return atoms(["call", str(sub.sid)] + rendered)
        if t == "param":
            kind, pv = self.cur_sub.params[n[1]]
            assert kind == "val"
            return f"(load {pv.key})"
        if t == "pload":
            kind, pv = self.cur_sub.params[n[1]]
            return atoms(["prim", "vloads", "()", f"(load {pv.key})"])
        if t == "pstore":
            kind, pv = self.cur_sub.params[n[1]]
            return atoms(["prim", "vstores", "()", f"(load {pv.key})", self.e(n[2])])
        if t == "wideratio":
            return atoms(["wideratio", atoms([self.e(x) for x in n[1]]), atoms([self.e(x) for x in n[2]])])
        if t == "itxn":
            # Seq(Begin, SetField..., [Next, SetField...]*, Submit)
            parts = ["(prim itxn_begin ())"]
            for gi, fields in enumerate(n[1]):
                if gi > 0:
                    parts.append("(prim itxn_next ())")
                for f, e in fields:
                    parts.append(atoms(["prim", "itxn_field", atoms([f]), self.e(e)]))
            parts.append("(prim itxn_submit ())")
            return atoms(["seq"] + parts)
        if t == "maybe":
            # MaybeValue: Seq(multi-value op storing (value, hasValue), <reducer over the two outputs>)
            kind, args, val_v, ok_v, body = n[1], n[2], n[3], n[4], n[5]
            teal, imms = MAYBE[kind][1], MAYBE[kind][2]
            mv = atoms(["multi", teal, atoms(imms), atoms([self.e(a) for a in args]), atoms([str(val_v.key), str(ok_v.key)])])
            return atoms(["seq", mv, self.e(body)])
        if t == "multi":
            # MultiValue with n outputs: Seq(op storing its n results into n variables, <statement using them>)
            kind, args, outs, body = n[1], n[2], n[3], n[4]
            mv = atoms(["multi", MULTI[kind][1], "()", atoms([self.e(a) for a in args]), atoms([str(v.key) for v in outs])])
            return atoms(["seq", mv, self.e(body)])
        if t == "comment":
            return "(note)" if n[2] is None else f"(note {self.e(n[2])})"
        if t == "pragma":
            return f"(note {self.e(n[2])})"
        if t == "nonce":
            return f"(nonce {hexs(n[3])} {self.e(n[4])})"
        raise ValueError(f"unknown recipe node {t}")

    @staticmethod
    def falls_through(n) -> bool:
        """does the block graph PyTeal builds for `n` reach the successor of `n`? (Break/Continue
        blocks are re-wired to the loop; everything else, Return included, keeps its successor edge)"""
        if not (isinstance(n, tuple) and n and isinstance(n[0], str)):
            return True
        t = n[0]
        if t in ("break", "continue"):
            return False
        if t == "seq":
            return all(SexpRenderer.falls_through(x) for x in n[1])
        if t == "if":
            if n[3] is None:
                return True
            return SexpRenderer.falls_through(n[2]) or SexpRenderer.falls_through(n[3])
        if t == "cond":
            return any(SexpRenderer.falls_through(b) for _c, b in n[1])
        if t in ("comment", "pragma"):
            return n[2] is None or SexpRenderer.falls_through(n[2])
        if t == "nonce":
            return SexpRenderer.falls_through(n[4])
        return True

    def reachable(self, n):
        """recipe nodes whose code is part of the compiled block graph (dead code after a bare
        Break/Continue is never visited by the compiler's graph walks)"""
        if isinstance(n, tuple) and n and isinstance(n[0], str):
            yield n
            if n[0] == "seq":
                for x in n[1]:
                    yield from self.reachable(x)
                    if not self.falls_through(x):
                        break
                return
            for x in n[1:]:
                yield from self.reachable(x)
        elif isinstance(n, (list, tuple)):
            for x in n:
                yield from self.reachable(x)

    def vars_of(self, n, acc):
        """variables (keys) referenced by the compiled code of a node, for the local/global split"""
        for node in self.reachable(n):
            for x in node[1:]:
                if isinstance(x, Var):
                    acc.add(x.key)

    def calls_of(self, n, acc):
        for node in self.reachable(n):
            if node[0] == "call":
                acc.add(node[1].sid)

    def program(self) -> str:
        p = self.prog
        used = {}
        mv = set()
        self.vars_of(p.main, mv)
        used[None] = mv
        graph = {}
        for s in p.subs:
            sv = set(v.key for _, v in s.params)
            self.vars_of(s.body, sv)
            used[s.sid] = sv
            cs = set()
            self.calls_of(s.body, cs)
            graph[s.sid] = cs

        def local_to(r):
            others = set()
            for k, v in used.items():
                if k != r:
                    others |= v
            return sorted(used[r] - others)

        def reaches(a, b):
            seen, st = set(), list(graph.get(a, ()))
            while st:
                x = st.pop()
                if x in seen:
                    continue
                seen.add(x)
                if x == b:
                    return True
                st += list(graph.get(x, ()))
            return False

        subs = []
        for s in p.subs:
            self.cur_sub = s
            params = atoms(["params"] + [f"({k} {v.key})" for k, v in s.params])
            reent = sorted(c for c in graph[s.sid] if c == s.sid or reaches(c, s.sid))
            body = self.e(s.body)
            if s.ret == N:
                pass
            subs.append(atoms(["sub", str(s.sid), "n" + s.name.encode().hex(), "0" if s.ret == N else "1", params,
                               atoms(["locals"] + [str(k) for k in local_to(s.sid)]),
                               atoms(["reenters"] + [str(c) for c in reent]), body]))
        self.cur_sub = None
        return atoms(["prog", atoms(["subs"] + subs), atoms(["mainlocals"] + [str(k) for k in local_to(None)]), self.e(p.main)])


def to_sexp(prog: Program) -> str:
    return SexpRenderer(prog).program()


# ----------------------------------------------------------------------------- rendering: real PyTeal


class Builder:
    """Builds real PyTeal objects through the public API. A fresh Builder = fresh objects."""

    def __init__(self, prog: Program):
        self.prog = prog
        self.vars = {}
        for v in prog.vars:
            self.vars[v.uid] = pt.ScratchVar(TT[v.ttype], v.slot) if v.slot is not None else pt.ScratchVar(TT[v.ttype])
        for v in prog.dvars:
            self.vars[v.uid] = pt.DynamicScratchVar(TT[v.ttype])
        self.subs = {}
        self.params = None
        for s in prog.subs:
            self.subs[s.sid] = self.make_sub(s)

    def make_sub(self, s: Sub):
        names = [f"a{i}" for i in range(len(s.params))]
        anns = ", ".join(f"{n}: pt.ScratchVar" if k == "ref" else f"{n}: pt.Expr" for n, (k, _) in zip(names, s.params))
        src = f"def fn({anns}) -> pt.Expr:\n    return _body([{', '.join(names)}])\n"
        builder = self

        def _body(args):
            saved = builder.params
            builder.params = args
            try:
                return builder.e(s.body)
            finally:
                builder.params = saved

        g = {"pt": pt, "_body": _body}
        fname = f"<recipe-sub-{s.sid}-{len(s.params)}>"
        # PyTeal records a formatted stack for every Expr; make the synthetic file known to
        # linecache so that it is not searched for on disk each time
        linecache.cache[fname] = (len(src), None, src.splitlines(True), fname)
        exec(compile(src, fname, "exec", dont_inherit=True), g)
        fn = g["fn"]
        fn.__name__ = s.name
        return pt.Subroutine(TT[getattr(s, 'decl', s.ret)], name=s.name)(fn)

    def v(self, var: Var):
        return self.vars[var.uid]

    def e(self, n):
        t = n[0]
        if t == "int":
            return pt.Int(n[1])
        if t == "bytes":
            return pt.Bytes(n[1])
        if t == "str":
            return pt.Bytes(n[1])
        if t == "op":
            return OPS[n[1]]["ctor"](*[self.e(a) for a in n[2]])
        if t == "nary":
            return NARY[n[1]][0](*[self.e(a) for a in n[2]])
        if t == "txn":
            acc = TXN_FIELDS[n[1]][0]
            if n[1] == "NumAppArgs":
                return pt.Txn.application_args.length()
            if n[1] == "NumAccounts":
                return pt.Txn.accounts.length()
            return getattr(pt.Txn, acc)()
        if t == "txna":
            arr = {"ApplicationArgs": pt.Txn.application_args, "Accounts": pt.Txn.accounts}[n[1]]
            return arr[n[2] if isinstance(n[2], int) else self.e(n[2])]
        if t == "gtxn":
            g = pt.Gtxn[n[1] if isinstance(n[1], int) else self.e(n[1])]
            acc = TXN_FIELDS[n[2]][0]
            return getattr(g, acc)()
        if t == "global":
            return getattr(pt.Global, GLOBAL_FIELDS[n[1]][0])()
        if t == "arg":
            return pt.Arg(n[1] if isinstance(n[1], int) else self.e(n[1]))
        if t == "load":
            return self.v(n[1]).load()
        if t == "store":
            return self.v(n[1]).store(self.e(n[2]))
        if t == "index":
            return self.v(n[1]).index()
        if t == "dset":
            return self.v(n[1]).set_index(self.v(n[2]))
        if t == "dload":
            return self.v(n[1]).load()
        if t == "dstore":
            return self.v(n[1]).store(self.e(n[2]))
        if t == "dindex":
            return self.v(n[1]).index()
        if t == "seq":
            return pt.Seq([self.e(x) for x in n[1]])
        if t == "if":
            if n[3] is None:
                return pt.If(self.e(n[1])).Then(self.e(n[2]))
            return pt.If(self.e(n[1]), self.e(n[2]), self.e(n[3]))
        if t == "cond":
            return pt.Cond(*[[self.e(c), self.e(b)] for c, b in n[1]])
        if t == "while":
            return pt.While(self.e(n[1])).Do(self.e(n[2]))
        if t == "for":
            return pt.For(self.e(n[1]), self.e(n[2]), self.e(n[3])).Do(self.e(n[4]))
        if t == "break":
            return pt.Break()
        if t == "continue":
            return pt.Continue()
        if t == "assert":
            return pt.Assert(*[self.e(c) for c in n[1]], comment=n[2])
        if t == "ret":
            return pt.Return() if n[1] is None else pt.Return(self.e(n[1]))
        if t == "approve":
            return pt.Approve()
        if t == "reject":
            return pt.Reject()
        if t == "exit":
            return pt.ExitProgram(self.e(n[1]))
        if t == "err":
            return pt.Err()
        if t == "call":
            sub, args = n[1], n[2]
            built = []
            for (kind, _pv), a in zip(sub.params, args):
                if kind == "ref" and a[0] == "refparam":
                    built.append(self.params[a[1]])
                elif kind == "ref":
                    built.append(self.v(a[1]))
                else:
                    built.append(self.e(a))
            return self.subs[sub.sid](*built)
        if t == "param":
            return self.params[n[1]]
        if t == "pload":
            return self.params[n[1]].load()
        if t == "pstore":
            return self.params[n[1]].store(self.e(n[2]))
        if t == "wideratio":
            return pt.WideRatio([self.e(x) for x in n[1]], [self.e(x) for x in n[2]])
        if t == "itxn":
            parts = [pt.InnerTxnBuilder.Begin()]
            for gi, fields in enumerate(n[1]):
                if gi > 0:
                    parts.append(pt.InnerTxnBuilder.Next())
                for f, e in fields:
                    parts.append(pt.InnerTxnBuilder.SetField(ITXN_FIELDS[f][0], self.e(e)))
            parts.append(pt.InnerTxnBuilder.Submit())
            return pt.Seq(parts)
        if t == "maybe":
            kind, args, val_v, ok_v, body = n[1], n[2], n[3], n[4], n[5]
            mv = MAYBE[kind][0](*[self.e(a) for a in args])
            # the MaybeValue's output slots are the model's two variables
            self.vars[val_v.uid] = _SlotView(mv.output_slots[0], mv.types[0])
            self.vars[ok_v.uid] = _SlotView(mv.output_slots[1], mv.types[1])
            return pt.Seq(mv, self.e(body))
        if t == "multi":
            kind, args, outs, body = n[1], n[2], n[3], n[4]
            op, _teal, _argt, outt, _minv = MULTI[kind]
            mv = pt.MultiValue(op, [TT[x] for x in outt], args=[self.e(a) for a in args])
            for i, v in enumerate(outs):
                self.vars[v.uid] = _SlotView(mv.output_slots[i], mv.types[i])
            return pt.Seq(mv, self.e(body))
        if t == "comment":
            return pt.Comment(n[1]) if n[2] is None else pt.Comment(n[1], self.e(n[2]))
        if t == "pragma":
            return pt.Pragma(self.e(n[2]), compiler_version=n[1])
        if t == "nonce":
            return pt.Nonce(n[1], n[2], self.e(n[4]))
        raise ValueError(f"unknown recipe node {t}")

    def main(self):
        return self.e(self.prog.main)


PT_MODE = {"app": pt.Mode.Application, "sig": pt.Mode.Signature}


def compile_real(prog: Program, version: int, *, assemble=False, scratch_slots=None, frame_pointers=None, options_obj=None):
    """Compile with the real code. Returns ('ok', teal) | ('err', class name, message) | ('crash', class name, message)."""
    import pyteal.errors as pe
    import signal
    own = (pe.TealInputError, pe.TealCompileError, pe.TealTypeError, pe.TealInternalError, pe.TealPragmaError)

    class _Slow(BaseException):
        pass

    def _alarm(*_a):
        raise _Slow()

    old = signal.signal(signal.SIGALRM, _alarm)
    signal.setitimer(signal.ITIMER_REAL, COMPILE_TIMEOUT_S)
    try:
        return _compile_real(prog, version, own, assemble, scratch_slots, frame_pointers, options_obj)
    except _Slow:
        # compile time is not part of any property (the optimiser's structural block comparison and
        # validateSlots are exponential on some shapes); counted, never alarmed on
        return ("timeout", "CompileTimeout", f"compilation exceeded {COMPILE_TIMEOUT_S}s")
    finally:
        signal.setitimer(signal.ITIMER_REAL, 0)
        signal.signal(signal.SIGALRM, old)


COMPILE_TIMEOUT_S = 10


def _compile_real(prog, version, own, assemble, scratch_slots, frame_pointers, options_obj=None):
    try:
        b = Builder(prog)
        ast = b.main()
        kw = {}
        if scratch_slots is not None or frame_pointers is not None:
            okw = {}
            if scratch_slots is not None:
                okw["scratch_slots"] = scratch_slots
            if frame_pointers is not None:
                okw["frame_pointers"] = frame_pointers
            kw["optimize"] = pt.OptimizeOptions(**okw)
        if options_obj is not None:
            kw["optimize"] = options_obj       # an OptimizeOptions object that other compilations have used before
        teal = pt.compileTeal(ast, PT_MODE[prog.mode], version=version, assembleConstants=assemble, **kw)
        return ("ok", teal)
    except own as e:
        return ("err", type(e).__name__, str(e)[:300])
    except Exception as e:  # noqa: BLE001
        return ("crash", type(e).__name__, str(e)[:300])


# ----------------------------------------------------------------------------- contexts


def render_val(v):
    if isinstance(v, int):
        return f"(u {v})"
    return f"(b {hexs(v)})"


def render_ctx(ctx: dict) -> str:
    txns = []
    for t in ctx["group"]:
        fs = []
        for f, v in t.items():
            vs = v if isinstance(v, list) else [v]
            fs.append(atoms([f] + [render_val(x) for x in vs]))
        txns.append(atoms(["txn"] + fs))
    g = [atoms([f, render_val(v)]) for f, v in ctx["global"].items()]
    kvs = [atoms([hexs(k), render_val(v)]) for k, v in ctx.get("gstate", {}).items()]
    return atoms(["ctx", ctx["mode"], str(ctx["version"]), atoms(["args"] + [hexs(a) for a in ctx["args"]]),
                  atoms(["group"] + txns), str(ctx["gi"]), atoms(["global"] + g), str(ctx.get("salt", 0)),
                  atoms(["gstate"] + kvs)])


def gen_bytes(r, maxlen=10):
    k = r.choice([0, 1, 2, 4, 8, 8, 8, maxlen])
    return bytes(r.randrange(256) for _ in range(k))


INTERESTING = [0, 1, 2, 3, 7, 8, 255, 256, 2 ** 16 - 1, 2 ** 32 - 1, 2 ** 32, 2 ** 63, 2 ** 64 - 1]


def gen_u(r):
    c = r.random()
    if c < 0.45:
        return r.randrange(0, 6)
    if c < 0.75:
        return r.choice(INTERESTING)
    return r.randrange(0, 2 ** 64)


def gen_ctx(r, mode, version) -> dict:
    n = r.choice([1, 1, 2, 3])
    gi = r.randrange(n)
    group = []
    for i in range(n):
        nargs = r.choice([4, 4, 4, 5, 6, 2, 0])
        args = [gen_bytes(r) for _ in range(nargs)]
        naccts = r.choice([0, 1, 2])
        t = {
            "Sender": bytes([i + 1]) * 32, "Fee": gen_u(r) % 100000, "FirstValid": r.randrange(1, 1000), "Note": gen_bytes(r),
            "Amount": gen_u(r), "TypeEnum": r.choice([1, 6, 6, 4]), "GroupIndex": i, "ApplicationID": r.choice([0, 7, 7]),
            "OnCompletion": r.choice([0, 0, 1, 2, 3, 4, 5]), "NumAppArgs": nargs, "ApplicationArgs": args,
            "NumAccounts": naccts, "Accounts": [bytes([i + 1]) * 32] + [bytes([0x40 + j]) * 32 for j in range(naccts)],
            "RekeyTo": bytes(32), "Receiver": bytes([0x70 + i]) * 32,
        }
        group.append(t)
    glob = {"MinTxnFee": 1000, "GroupSize": n, "Round": r.randrange(1, 10 ** 6), "LatestTimestamp": r.randrange(1, 2 ** 32),
            "CurrentApplicationID": r.choice([7, 7, 9]), "ZeroAddress": bytes(32), "CreatorAddress": bytes([0xC0]) * 32,
            "CurrentApplicationAddress": bytes([0xA0]) * 32}
    gstate = {}
    for k in [b"k0", b"k1", b"k2"]:
        if r.random() < 0.5:
            gstate[k] = gen_u(r) if r.random() < 0.6 else gen_bytes(r)
    return {"mode": mode, "version": version, "args": [gen_bytes(r) for _ in range(r.choice([3, 3, 4, 5, 1, 0]))], "group": group, "gi": gi,
            "global": glob, "salt": r.randrange(1000), "gstate": gstate}


# ----------------------------------------------------------------------------- replay support


def pack(prog: Program) -> str:
    """serialise a recipe program for a replay file"""
    import base64
    import pickle
    return base64.b64encode(pickle.dumps(prog)).decode()


def unpack(s: str) -> Program:
    import base64
    import pickle
    return pickle.loads(base64.b64decode(s))
