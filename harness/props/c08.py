"""C08 - a Router-built approval program runs handler H, and only H, exactly when the call matches
H's registration; everything else is rejected; the clear-state program runs exactly the given action.

Parts (see DESIGN.md, section C08):

1. proofs        lean/PyTealV/Proofs/C08.lean over lean/PyTealV/Models/Router.lean: the model of the
                 condition logic router.py generates decides `dispatchCode` (= the spec `dispatch` plus
                 the all-ALL shortcut) for every accepted router with any number of methods
                 (`router_dispatch_code`, induction over the method list); `router_dispatch_partial`,
                 `router_dispatch_fails_iff`, `router_dispatch_counterexample`, `clear_runs_given_action`,
                 `accepted_iff_wellFormed` (what `add_method_handler` & the constructors enforce).
2. oracle on the REAL code: real `pt.Router` objects are built from generated configurations (handlers
                 log a distinguishing marker: method k -> "H<k>", bare action id -> "B<id>", clear action
                 -> "CLR<id>"), compiled with the real `Router.compile_program` (versions 6..10, frame
                 pointers on/off, scratch-slot optimisation on/off, constant assembly on/off); the real
                 approval / clear TEAL is executed by the Lean AVM on the full call matrix (first argument
                 in registered selectors, unknown 4 bytes, 3-byte prefix, selector+1 byte, empty string, no
                 arguments; exact / missing / extra arguments; OnCompletion 0..5; ApplicationID 0 / 7) and
                 the observed decision (which marker was logged / rejected / failed) is compared with the
                 spec `dispatch` (property on the real code) ...
3. correspondence ... and, outcome for outcome (incl. HOW it fails: err / assert / argument index), with
                 the Lean model of the generated logic; the constructors' / add_method_handler's
                 rejections (never-callable method, duplicate signature, selector collision found by a
                 birthday search, clear_state in MethodConfig / bare calls, contradicting OnCompleteAction)
                 are compared with the model's.
"""
import json
import linecache
import re
import sys
import time

import common
from common import Report, check_proofs, proof_coverage, Driver, rng, seed, hexs, ToolFailure

sys.path.insert(0, str(common.REPO))

PROOF_MODULES = ["PyTealV.Proofs.C08"]
REQUIRED_THEOREMS = ["PyTealV.Proofs.C08." + t for t in [
    "approvalCond_spec", "bareArms_spec", "addAll_spec", "addAll_ok", "condNodes_spec", "compile_spec",
    "accepted_iff_wellFormed", "add_ok_distinct", "router_dispatch_code", "dispatchCode_eq_dispatch",
    "router_dispatch_partial", "router_dispatch_fails_iff", "router_dispatch_counterexample",
    "clear_runs_given_action", "dispatch_method_iff", "dispatch_bare_iff", "dispatch_reject_iff",
    "runs_method_iff", "runs_bare_iff", "rejects_iff"]]
KEY_ALLALL = "C08-all-config-accepts-clearstate"

OC_NAMES = ["no_op", "opt_in", "close_out", "clear_state", "update_application", "delete_application"]  # index = OnCompletion
TY = {"uint64": "Uint64", "string": "String"}
SIG_SHAPES = [([], "void"), (["uint64"], "void"), ([], "uint64"), (["uint64", "string"], "uint64"), (["string"], "string"),
              (["uint64", "uint64", "uint64"], "void")]
ACTION_KINDS = ["expr", "exprret", "sub", "abi"]
FUEL = 20000
MAX_RECORDED = 40


class Real:
    """the code under test, imported at run time from common.REPO"""

    def __init__(self):
        import pyteal as pt
        import pyteal.errors as pe
        from algosdk import abi as sabi
        from families import quiet_traces
        self.pt, self.sabi, self.quiet = pt, sabi, quiet_traces
        self.own = (pe.TealInputError, pe.TealInternalError, pe.TealCompileError, pe.TealTypeError)


def sig_of(m) -> str:
    return f"{m['name']}({','.join(m['args'])}){m['ret']}"


def selector(real: Real, sig: str) -> bytes:
    return real.sabi.Method.from_signature(sig).get_selector()


# ============================================================================ real routers


def _mk_fn(name, params, body_call, g):
    src = f"def {name}({params}):\n    return {body_call}\n"
    fname = f"<c08-{name}-{abs(hash(params)) % 10 ** 8}>"
    linecache.cache[fname] = (len(src), None, src.splitlines(True), fname)
    exec(compile(src, fname, "exec", dont_inherit=True), g)
    return g[name]


def mk_abi_method(real: Real, m, k):
    pt = real.pt
    # (a value-less method may call its first parameter `output`: an ordinary positional parameter, part of the signature)
    params = [f"{'output' if (i == 0 and m.get('pos_output') and m['ret'] == 'void') else 'a' + str(i)}: pt.abi.{TY[t]}" for i, t in enumerate(m["args"])]
    if m["ret"] != "void":
        params.append(f"*, output: pt.abi.{TY[m['ret']]}")

    def _body(output):
        mark = pt.Log(pt.Bytes(f"H{k}"))
        if output is None:
            return mark
        return pt.Seq(mark, output.set(pt.Int(1000 + k)) if m["ret"] == "uint64" else output.set("r%d" % k))

    # via "add-override": the Python function has another name; it is registered under m["name"] with overriding_name
    pyname = m["name"] + "_impl" if m.get("via") == "add-override" else m["name"]
    fn = _mk_fn(pyname, ", ".join(params), "_body(output)" if m["ret"] != "void" else "_body(None)", {"pt": pt, "_body": _body})
    return fn


def mk_action(real: Real, kind, marker: str):
    """a bare / clear action of the given Python kind"""
    pt = real.pt
    log = pt.Log(pt.Bytes(marker))
    if kind == "expr":
        return log
    if kind == "exprret":
        return pt.Seq(log, pt.Approve())
    if kind == "sub":
        fn = _mk_fn("act_" + marker, "", "_b()", {"_b": lambda: pt.Log(pt.Bytes(marker))})
        return pt.Subroutine(pt.TealType.none)(fn)
    if kind == "abi":
        fn = _mk_fn("abiact_" + marker, "", "_b()", {"_b": lambda: pt.Log(pt.Bytes(marker))})
        return pt.ABIReturnSubroutine(fn)
    raise ValueError(kind)


def build_router(real: Real, cfg, stage_compile=None):
    """Router(...) + registrations through the public API. May raise PyTeal's own errors."""
    pt = real.pt
    CC = pt.CallConfig
    kw = {}
    shared = {}
    for oc_s, ent in cfg["bare"].items():
        cc, kind, aid = ent
        if kind is not None and cfg.get("share_actions") and (kind, aid) in shared:
            act = shared[(kind, aid)]      # ONE action object registered for several OnCompletion values
        else:
            act = mk_action(real, kind, f"B{aid}") if kind is not None else None
            shared[(kind, aid)] = act
        kw[OC_NAMES[int(oc_s)]] = pt.OnCompleteAction(action=act, call_config=CC(cc))
    bare = pt.BareCallActions(**kw) if (kw or cfg.get("bare_object", True)) else None
    clear = None
    if cfg["clear"] is not None:
        clear = mk_action(real, cfg["clear"][0], f"CLR{cfg['clear'][1]}")
    router = pt.Router("c08", bare, clear_state=clear)
    staged = cfg.get("staged_after")       # the router is compiled once after this many registrations, the rest is registered then
    for k, m in enumerate(cfg["methods"]):
        if staged is not None and k == staged and stage_compile is not None:
            stage_compile(router)
        fn = mk_abi_method(real, m, k)
        mc = dict(zip(OC_NAMES, [CC(c) for c in m["mc"]]))
        via = m.get("via", "add")
        if via == "default":  # MethodConfig(no_op=CALL) chosen by add_method_handler itself
            router.add_method_handler(pt.ABIReturnSubroutine(fn))
        elif via == "decorator":
            if mc["clear_state"] == CC.NEVER:
                del mc["clear_state"]
            router.method(fn, **mc)
        elif via == "decorator-sparse":
            router.method(fn, **{k: v for k, v in mc.items() if v != CC.NEVER})
        elif via == "add-override":
            router.add_method_handler(pt.ABIReturnSubroutine(fn), overriding_name=m["name"], method_config=pt.MethodConfig(**mc))
        else:
            router.add_method_handler(pt.ABIReturnSubroutine(fn), method_config=pt.MethodConfig(**mc))
    return router


def variants():
    vs = []
    for v in range(6, 11):
        for fp in ([False] if v < 8 else [False, True]):
            for ss in [False, True]:
                for asm in [False, True]:
                    vs.append({"version": v, "frame_pointers": fp, "scratch_slots": ss, "assemble_constants": asm})
    return vs


def compile_real(real: Real, cfg, var):
    """("ok", approval, clear, [(sig, selector)]) | ("err", exception type, message)"""
    pt = real.pt
    try:
        with real.quiet():
            fp = var["frame_pointers"] if var["version"] >= 8 else None

            def early(rt):
                # an earlier compilation of the half-registered router, same settings (its result is not looked at)
                try:
                    rt.compile_program(version=var["version"], assemble_constants=var["assemble_constants"],
                                       optimize=pt.OptimizeOptions(frame_pointers=fp, scratch_slots=var["scratch_slots"]))
                except real.own:
                    pass
            router = build_router(real, cfg, early)
            ap, cl, contract = router.compile_program(
                version=var["version"], assemble_constants=var["assemble_constants"],
                optimize=pt.OptimizeOptions(frame_pointers=fp, scratch_slots=var["scratch_slots"]))
        sels = [(m.get_signature(), m.get_selector()) for m in contract.methods]
        return ("ok", ap, cl, sels)
    except real.own as e:
        return ("err", type(e).__name__, str(e)[:300])


# ============================================================================ model side


def cfg_words(real: Real, cfg, sel_override=None):
    ms = []
    for i, m in enumerate(cfg["methods"]):
        sg = sig_of(m)
        sl = selector(real, sg) if sel_override is None else sel_override[i]
        ms.append(f"{hexs(sg.encode())}:{hexs(sl)}:{''.join(str(c) for c in m['mc'])}")
    bare = []
    for oc in range(6):
        ent = cfg["bare"].get(str(oc))
        if ent is None:
            bare.append("0.-")
        else:
            cc, kind, aid = ent
            bare.append(f"{cc}.{aid if kind is not None else '-'}")
    clear = "-" if cfg["clear"] is None else str(cfg["clear"][1])
    return (",".join(ms) if ms else "-"), ",".join(bare), clear


def call_words(call):
    args = "n" if not call["args"] else ",".join(hexs(bytes.fromhex(a)) for a in call["args"])
    return f"{args} {call['oc']} {call['app_id']}"


def ask_model(drv: Driver, real: Real, cfg, call):
    ms, bare, clear = cfg_words(real, cfg)
    ans = drv.ask(f"c08-dispatch {ms} {bare} {clear} {call_words(call)}")
    if ans.startswith("ok "):
        return dict(kv.split("=", 1) for kv in ans[3:].split(" "))
    if ans.startswith("err "):
        return {"err": ans[4:]}
    raise ToolFailure("c08-dispatch: " + ans)


ERR_CLASSES = [("never executed", "never"), ("hash collision", "collision"), ("re-registering", "duplicate"),
               ("contradicts", "contradicts"), ("clear state program from MethodConfig", "mc-clear"),
               ("register ABI method for clear state", "mc-clear"),
               ("clear state program from bare app call", "bare-clear")]


def err_class(msg: str) -> str:
    for pat, c in ERR_CLASSES:
        if pat in msg:
            return c
    return "other:" + msg[:60]


# ============================================================================ execution


def mk_ctx(call, version):
    from recipes import render_ctx
    args = [bytes.fromhex(a) for a in call["args"]]
    t = {"Sender": b"\x01" * 32, "Fee": 1000, "FirstValid": 5, "Note": b"", "Amount": 0, "TypeEnum": 6, "GroupIndex": 0,
         "ApplicationID": call["app_id"], "OnCompletion": call["oc"], "NumAppArgs": len(args), "ApplicationArgs": args,
         "NumAccounts": 0, "Accounts": [b"\x01" * 32], "RekeyTo": bytes(32), "Receiver": bytes(32)}
    glob = {"MinTxnFee": 1000, "GroupSize": 1, "Round": 10, "LatestTimestamp": 100, "CurrentApplicationID": 7,
            "ZeroAddress": bytes(32), "CreatorAddress": b"\xc0" * 32, "CurrentApplicationAddress": b"\xa0" * 32}
    return render_ctx({"mode": "app", "version": version, "args": [], "group": [t], "gi": 0, "global": glob, "salt": 0, "gstate": {}})


LOG_RE = re.compile(r"log:b([0-9a-f]*|-)")


def observe(ans: str) -> str:
    """AVM outcome -> the vocabulary of the model's outcomes"""
    if ans.startswith("done "):
        verdict = ans.split(" ")[1]
        logs = LOG_RE.findall(ans)
        if verdict == "u0":
            return "ret0" if not logs else "ret0+effects"
        if not logs:
            return "approve-nomarker"
        try:
            mark = bytes.fromhex(logs[0]).decode()
        except Exception:  # noqa: BLE001
            return "approve-badmarker"
        if re.fullmatch(r"H\d+", mark):
            return "run:m" + mark[1:]
        if re.fullmatch(r"B\d+", mark):
            return "run:b" + mark[1:]
        if re.fullmatch(r"CLR\d+", mark):
            return "run:c" + mark[3:]
        return "approve-badmarker"
    if ans.startswith("fail logic(err)"):
        return "fail:err"
    if ans.startswith("fail logic(assert failed)"):
        return "fail:assert"
    m = re.match(r"fail logic\(array field ApplicationArgs index (\d+) out of range\)", ans)
    if m:
        return "fail:argidx" if m.group(1) == "0" else "fail:decode"
    return "other:" + ans[:80]


def decision_of(obs: str) -> str:
    return obs[4:] if obs.startswith("run:") else ("reject" if obs.startswith(("fail:", "ret0")) else "?" + obs)


def arg_value(t, i):
    if t == "uint64":
        return (41 + i).to_bytes(8, "big")
    return (2).to_bytes(2, "big") + b"hi"


def calls_for(real: Real, cfg, r):
    """the full call matrix of one router"""
    firsts = []  # (class, first arg bytes, method index or None)
    sels = [selector(real, sig_of(m)) for m in cfg["methods"]]
    for k, s in enumerate(sels):
        firsts.append(("selector", s, k))
    unk = bytes(r.randrange(256) for _ in range(4))
    while unk in sels:
        unk = bytes(r.randrange(256) for _ in range(4))
    base = sels[0] if sels else b"\xde\xad\xbe\xef"
    firsts += [("unknown4", unk, None), ("prefix3", base[:3], None), ("plus1", base + b"\x00", None), ("emptybytes", b"", None)]
    shapes = []  # (first class, argument list, target method, arg-count class)
    for cls, f, k in firsts:
        if k is None:
            shapes.append((cls, [f], None, "exact"))
            shapes.append((cls, [f, arg_value("uint64", 0)], None, "extra"))
        else:
            tys = cfg["methods"][k]["args"]
            full = [arg_value(t, i) for i, t in enumerate(tys)]
            shapes.append((cls, [f] + full, k, "exact"))
            shapes.append((cls, [f] + full + [b"\x07"], k, "extra"))
            if tys:
                shapes.append((cls, [f] + full[:-1], k, "missing"))
    shapes.append(("noargs", [], None, "exact"))
    out = []
    for cls, args, k, cnt in shapes:
        for oc in range(6):
            for app_id in (0, 7):
                out.append({"args": [a.hex() for a in args], "oc": oc, "app_id": app_id, "first": cls, "target": k, "count": cnt})
    return out


class Ctx:
    def __init__(self, rep: Report):
        self.rep = rep
        self.real = Real()
        self.drv = Driver()
        self.known_sels = set()
        self.evals = 0
        self.clear_evals = 0
        self.model_queries = 0
        self.compiles = 0
        self.dist = {}
        self.distinct = set()
        self.variants_seen = {}
        self.samples = []
        self.rejections = {}
        self.mismatch = 0
        self.teal_perr = []
        self.suppressed = 0

    def count(self, key):
        self.dist[key] = self.dist.get(key, 0) + 1

    def violate(self, what, replay, key=None, no_input=False):
        """at most MAX_RECORDED replay files per run; the rest is only counted"""
        if key is None and len(self.rep.violations) >= MAX_RECORDED:
            self.suppressed += 1
            return
        self.rep.violation(what, replay, key=key, no_input=no_input)

    def load_teal(self, tid, text, sels):
        # every `method "sig"` literal of the text needs its selector (SHA-512/256 is computed outside Lean): also those the
        # contract does not list - a program dispatching on another signature than the registered one must be executable
        import re as _re
        extra = []
        for sg in set(_re.findall(r'^method "(.*)"', text, flags=_re.M)):
            if sg not in {x for x, _ in sels}:
                try:
                    extra.append((sg, selector(self.real, sg)))
                except Exception:  # noqa: BLE001  (not a parsable signature: the grammar will report it)
                    pass
        for sg, sl in list(sels) + extra:
            if sg not in self.known_sels:
                self.drv.ask(f"sel {hexs(sg.encode())} {hexs(sl)}")
                self.known_sels.add(sg)
        a = self.drv.ask(f"teal {tid} {hexs(text.encode())}")
        if not a.startswith("ok"):
            self.teal_perr.append(a[:200])
            return False
        return True


def is_quirk(cfg, call) -> bool:
    k = call.get("target")
    return call["oc"] == 3 and k is not None and all(cfg["methods"][k]["mc"][i] == 3 for i in (0, 1, 2, 4, 5))


def check_router(cx: Ctx, cfg, var, r, model_cache=None, max_calls=None):
    """one router x one compile variant x the whole call matrix"""
    real, drv, rep = cx.real, cx.drv, cx.rep
    res = compile_real(real, cfg, var)
    cx.compiles += 1
    vkey = f"v{var['version']}{'fp' if var['frame_pointers'] else ''}{'ss' if var['scratch_slots'] else ''}{'asm' if var['assemble_constants'] else ''}"
    cx.variants_seen[vkey] = cx.variants_seen.get(vkey, 0) + 1
    probe = {"args": [], "oc": 0, "app_id": 7}
    if res[0] == "err":
        mo = ask_model(drv, real, cfg, probe)
        cls = err_class(res[2])
        cx.rejections[cls] = cx.rejections.get(cls, 0) + 1
        if "err" not in mo or err_class(mo["err"]) != cls:
            cx.mismatch += 1
            cx.violate(f"router rejected by the real code ({res[1]}: {res[2][:120]}) but the model says {mo}",
                          {"kind": "router", "cfg": cfg, "variant": var, "call": probe}, no_input=True)
        return
    _, ap, cl, sels = res
    mo = ask_model(drv, real, cfg, probe)
    if "err" in mo:
        cx.mismatch += 1
        cx.violate(f"router accepted by the real code but rejected by the model ({mo['err']})",
                      {"kind": "router", "cfg": cfg, "variant": var, "call": probe}, no_input=True)
        return
    if not (cx.load_teal("A", ap, sels) and cx.load_teal("C", cl, sels)):
        return
    calls = calls_for(real, cfg, r)
    if max_calls is not None and len(calls) > max_calls:
        calls = r.sample(calls, max_calls)
    if model_cache is None:
        model_cache = {}
    for call in calls:
        ckey = (tuple(call["args"]), call["oc"], call["app_id"])
        mo = model_cache.get(ckey)
        if mo is None:
            mo = ask_model(drv, real, cfg, call)
            cx.model_queries += 1
            model_cache[ckey] = mo
        drv.ask("ctx X " + mk_ctx(call, var["version"]))
        obs = observe(drv.ask(f"exec A X {FUEL}"))
        cx.evals += 1
        dec = decision_of(obs)
        replay = {"kind": "call", "cfg": cfg, "variant": var, "call": call}
        # expected observation according to the model of the generated logic
        want = mo["approval"]
        k = call["target"]
        if want.startswith("run:m") and k is not None and call["count"] == "missing":
            want = "fail:decode"  # routed to the handler, whose argument decoding (property C09) then fails
        # (1) the property on the real code: observed decision = spec
        spec = mo["spec"]
        want_spec = "reject" if (spec.startswith("m") and call["count"] == "missing") else spec
        if dec != want_spec:
            if is_quirk(cfg, call) and obs == f"run:m{k}":
                cx.violate("all-ALL method runs under OnCompletion=ClearState", replay, key=KEY_ALLALL)
                cx.count("known:all-ALL/ClearState")
            else:
                cx.violate(f"call {call_words(call)} ({call['first']}/{call['count']}): real approval program -> {obs}, "
                              f"spec dispatch -> {spec}", replay)
        # (2) model <-> code, outcome for outcome
        if obs != want:
            cx.mismatch += 1
            if dec == want_spec:
                cx.violate(f"model of the generated logic says {mo['approval']} (expected observation {want}), "
                              f"real TEAL does {obs} on call {call_words(call)}", replay, no_input=True)
        # (3) model <-> spec (the theorem, re-checked on this instance)
        if mo["decision"] != spec and not is_quirk(cfg, call):
            cx.violate(f"model decision {mo['decision']} != spec {spec} outside the known all-ALL/ClearState case "
                          f"(contradicts router_dispatch_partial)", replay, no_input=True)
        cx.count("decision/" + ("method" if dec.startswith("m") else "bare" if dec.startswith("b") else obs))
        tcfg = tuple(cfg["methods"][k]["mc"]) if k is not None else tuple(sorted((o, e[0]) for o, e in cfg["bare"].items()))
        cx.distinct.add((tcfg, call["first"], call["count"], call["oc"], call["app_id"], obs))
        if len(cx.samples) < 12 and (cx.evals % 997 == 1 or (obs.startswith("run:") and len(cx.samples) < 4)):
            cx.samples.append({"variant": vkey, "methods": [sig_of(m) + ":" + "".join(map(str, m["mc"])) for m in cfg["methods"]],
                               "bare": cfg["bare"], "call": call_words(call), "observed": obs, "spec": spec, "model": mo["approval"]})
    # clear-state program
    for oc in (3, 0):
        for app_id in (7, 0):
            for args in ([], [sels[0][1].hex()] if sels else ["00"]):
                call = {"args": args, "oc": oc, "app_id": app_id, "first": "clear", "target": None, "count": "exact"}
                drv.ask("ctx X " + mk_ctx(call, var["version"]))
                obs = observe(drv.ask(f"exec C X {FUEL}"))
                cx.clear_evals += 1
                want = f"run:c{cfg['clear'][1]}" if cfg["clear"] is not None else "ret0"  # property text, directly
                replay = {"kind": "clear", "cfg": cfg, "variant": var, "call": call}
                if obs != want:
                    cx.violate(f"clear-state program -> {obs}, expected {want}", replay)
                if mo["clear"] != want or decision_of(mo["clear"]) != mo["clearspec"]:
                    cx.violate(f"model clear outcome {mo['clear']} / spec {mo['clearspec']} vs expected {want}", replay, no_input=True)
                cx.count("clear/" + ("run" if obs.startswith("run:c") else obs))


# ============================================================================ generators


def gen_mc(r):
    c = r.random()
    if c < 0.08:
        return [3, 3, 3, 0, 3, 3]
    if c < 0.16:
        x = r.choice([1, 2])
        return [x, x, x, 0, x, x]
    while True:
        mc = [r.choice([0, 0, 1, 2, 3]) for _ in range(6)]
        mc[3] = 0
        if any(mc):
            return mc


def gen_cfg(r, max_methods):
    n = r.choice([0, 1, 1, 2, 2, 3, 3, 4, 4] if max_methods <= 4 else [0, 1, 2, 3, 4, 5, 6])
    n = min(n, max_methods)
    methods = []
    for k in range(n):
        args, ret = r.choice(SIG_SHAPES)
        mc = gen_mc(r)
        via = "add"
        c = r.random()
        if mc == [1, 0, 0, 0, 0, 0] and c < 0.5:
            via = "default"
        elif c < 0.25:
            via = "decorator"
        elif c < 0.45 and any(x != 0 for x in mc):
            # only the keywords that differ from NEVER are written: the omitted ones must default to NEVER
            # (Router.method: no_op defaults to CALL only when NO on-completion keyword is given)
            via = "decorator-sparse"
        elif c < 0.65:
            # registered under another name than the Python function's: dispatch must use the REGISTERED signature
            via = "add-override"
        methods.append({"name": f"m{k}", "args": list(args), "ret": ret, "mc": mc, "via": via, "pos_output": r.random() < 0.25})
    if len(methods) >= 2 and r.random() < 0.3:
        # ARC-4 overloads: two handlers of ONE name with different argument lists (different signatures, different selectors)
        i, j = r.sample(range(len(methods)), 2)
        if methods[i]["args"] != methods[j]["args"]:
            methods[j]["name"] = methods[i]["name"]
    bare = {}
    if r.random() < 0.75:
        for oc in (0, 1, 2, 4, 5):
            if r.random() < 0.45:
                bare[str(oc)] = [r.choice([1, 2, 3]), r.choice(ACTION_KINDS), r.randrange(100)]
    clear = [r.choice(ACTION_KINDS), r.randrange(100)] if r.random() < 0.6 else None
    share = False
    if len(bare) >= 2 and r.random() < 0.4:
        # the same action (one Python object when `share_actions`) under several OnCompletion values, call configs of their own
        share = r.random() < 0.8
        ks = sorted(bare)
        src = bare[ks[0]]
        for k2 in ks[1:]:
            if r.random() < 0.7:
                bare[k2] = [bare[k2][0], src[1], src[2]]
    out = {"methods": methods, "bare": bare, "clear": clear, "bare_object": r.random() < 0.8, "share_actions": share}
    if len(methods) >= 2 and r.random() < 0.25:
        out["staged_after"] = r.randrange(1, len(methods))
    return out


def find_collision():
    """two method signatures with the same 4-byte selector (birthday search over SHA-512/256)"""
    from algosdk import encoding
    seen = {}
    i = 0
    while True:
        sg = f"c{i}()void"
        s = encoding.checksum(sg.encode())[:4]
        if s in seen:
            return seen[s], f"c{i}", s
        seen[s] = f"c{i}"
        i += 1


def run_rejections(cx: Ctx):
    """what the constructors and add_method_handler refuse, real vs model"""
    real, pt = cx.real, cx.real.pt
    var = {"version": 8, "frame_pointers": True, "scratch_slots": False, "assemble_constants": False}
    r = rng("c08-rej")
    base = {"bare": {}, "clear": None}
    m = lambda name, mc, **k: dict({"name": name, "args": [], "ret": "void", "mc": mc, "via": "add"}, **k)  # noqa: E731
    a, b, _ = find_collision()
    cases = [
        dict(base, methods=[m("m0", [0, 0, 0, 0, 0, 0])]),                               # never-callable
        dict(base, methods=[m("m0", [1, 0, 0, 0, 0, 0]), m("m1", [0, 0, 0, 0, 0, 0])]),
        dict(base, methods=[m("m0", [1, 0, 0, 0, 0, 0]), m("m0", [2, 0, 0, 0, 0, 0])]),  # duplicate signature
        dict(base, methods=[m(a, [1, 0, 0, 0, 0, 0]), m("mid", [3, 0, 0, 0, 0, 0]), m(b, [2, 0, 0, 0, 0, 0])]),  # selector collision
        dict(base, methods=[m("m0", [1, 0, 0, 1, 0, 0])]),                               # clear_state in MethodConfig
        dict(base, methods=[m("m0", [1, 0, 0, 3, 0, 0], via="decorator")]),
        dict(base, methods=[m("m0", [0, 0, 0, 2, 0, 0])]),
        {"methods": [], "bare": {"0": [0, "expr", 1]}, "clear": None},                   # action with NEVER
        {"methods": [], "bare": {"1": [1, None, 0]}, "clear": None},                     # call config without action
        {"methods": [], "bare": {"3": [1, "expr", 1]}, "clear": None},                   # bare clear_state
        {"methods": [], "bare": {"3": [3, "sub", 1], "0": [3, "expr", 2]}, "clear": ["expr", 9]},
    ]
    for cfg in cases:
        check_router(cx, cfg, var, r)
    # accepted twins (same shapes without the fault) so that the comparison is not one-sided
    for cfg in [dict(base, methods=[m(a, [1, 0, 0, 0, 0, 0]), m("mid", [3, 0, 0, 0, 0, 0])]),
                {"methods": [], "bare": {"0": [3, "expr", 2]}, "clear": ["expr", 9]}]:
        check_router(cx, cfg, var, r)


def replay_counterexample(cx: Ctx):
    """the input of `router_dispatch_counterexample` on the real code (known finding when it still reproduces)"""
    cfg = {"methods": [{"name": "m0", "args": [], "ret": "void", "mc": [3, 3, 3, 0, 3, 3], "via": "add"}], "bare": {}, "clear": None}
    r = rng("c08-cex")
    for var in [{"version": 6, "frame_pointers": False, "scratch_slots": False, "assemble_constants": False},
                {"version": 10, "frame_pointers": True, "scratch_slots": True, "assemble_constants": False}]:
        check_router(cx, cfg, var, r)


def run(tier: str) -> int:
    rep = Report("C08", tier, level="proof")
    st = check_proofs(PROOF_MODULES, extra_files=[common.LEAN / "PyTealV" / "Models" / "Router.lean"])
    rep.coverage.update(proof_coverage(st, "cd lean && lake build PyTealV.Proofs.C08", [
        "Lean 4 kernel; axioms propext, Classical.choice, Quot.sound only",
        "Models/Router.lean is a hand-written transcription of pyteal/ast/router.py (condition logic, Cond order, registration checks); "
        "tied to the real code by executing the real TEAL on the call matrix and comparing outcome for outcome",
        "handlers are opaque (identified by the marker they log); SHA-512/256 selectors come from algosdk, not from the model",
        "Lean AVM semantics (PyTealV.Avm.Sem) and TEAL grammar (PyTealV.Avm.Syntax) execute the real compiler output",
        "Cond / Assert / Seq compile to first-true-arm / fail-unless / sequence (properties C01, C05)",
    ]))
    if not st.ok:
        rep.violation("proof module does not build / audit: " + "; ".join(st.problems)[:400] + st.log[-600:],
                      {"kind": "proof", "modules": PROOF_MODULES}, no_input=True)
    missing = [t for t in REQUIRED_THEOREMS if t not in st.theorems]
    if st.ok and missing:
        rep.violation("required theorems missing: " + ", ".join(missing), {"kind": "proof", "missing": missing}, no_input=True)

    cx = Ctx(rep)
    t0 = time.time()
    vs = variants()
    try:
        replay_counterexample(cx)
        run_rejections(cx)
        r = rng("c08-routers")
        i = 0
        if tier == "quick":
            for i in range(60):
                cfg = gen_cfg(r, 4)
                mc = {}
                for j in range(2):
                    check_router(cx, cfg, vs[(2 * i + j) % len(vs)], r, model_cache=mc)
            for oc in (0, 1, 2, 4, 5):
                for cc in (1, 2, 3):
                    i += 1
                    kind = ACTION_KINDS[i % 4]
                    cfg = {"methods": [{"name": "m0", "args": [], "ret": "void", "mc": [1, 2, 3, 0, 1, 2], "via": "add"}] if i % 2 else [],
                           "bare": {str(oc): [cc, kind, 10 + oc]}, "clear": [kind, oc]}
                    check_router(cx, cfg, vs[i % len(vs)], r)
        else:
            # exhaustive single-method routers: all 4^5 MethodConfigs (incl. the never-callable one)
            for a in range(4):
                for b in range(4):
                    for c in range(4):
                        for d in range(4):
                            for e in range(4):
                                args, ret = SIG_SHAPES[i % len(SIG_SHAPES)]
                                cfg = {"methods": [{"name": "m0", "args": list(args), "ret": ret, "mc": [a, b, c, 0, d, e], "via": "add"}],
                                       "bare": {}, "clear": None}
                                if i % 7 == 3:
                                    cfg["bare"] = {"0": [3, "expr", 0]}
                                check_router(cx, cfg, vs[i % len(vs)], r)
                                i += 1
            # all single-OnCompletion bare configurations x action kinds, with and without a method next to them
            for oc in (0, 1, 2, 4, 5):
                for cc in (1, 2, 3):
                    for kind in ACTION_KINDS:
                        for with_method in (False, True):
                            cfg = {"methods": [{"name": "m0", "args": [], "ret": "void", "mc": [1, 2, 3, 0, 1, 2], "via": "add"}] if with_method else [],
                                   "bare": {str(oc): [cc, kind, 10 + oc]}, "clear": [kind, oc]}
                            check_router(cx, cfg, vs[i % len(vs)], r)
                            i += 1
            for k in range(1000):
                cfg = gen_cfg(r, 6)
                mc = {}
                for j in range(2):
                    check_router(cx, cfg, vs[(i + j * 13) % len(vs)], r, model_cache=mc)
                i += 1
    finally:
        cx.drv.close()
    if cx.teal_perr:
        raise ToolFailure("Lean TEAL grammar rejected real router output: " + cx.teal_perr[0])
    rep.assumptions += [
        "a call routed to a method with fewer application arguments than the signature needs fails inside the handler's "
        "argument decoding (counted as rejected; decoding itself is property C09); extra arguments are ignored",
        "OnCompletion ranges over 0..5 (the AVM admits nothing else); ApplicationID 0 = creation",
        "PyTeal's per-expression stack-trace formatting is stubbed during router construction/compilation (families.quiet_traces); "
        "diagnostics only, no influence on the generated TEAL",
    ]
    rep.coverage.update({
        "evaluations": cx.evals + cx.clear_evals,
        "approval_executions": cx.evals, "clear_executions": cx.clear_evals, "model_queries": cx.model_queries,
        "router_compilations": cx.compiles,
        "distinct_nontrivial": len(cx.distinct),
        "rule": "distinct (target MethodConfig | bare configuration, first-argument class, argument-count class, OnCompletion, "
                "ApplicationID, observed outcome) tuples executed on real TEAL",
        "distribution": dict(sorted(cx.dist.items())),
        "compile_variants": dict(sorted(cx.variants_seen.items())),
        "constructor_rejections": cx.rejections,
        "model_code_mismatches": cx.mismatch,
        "violations_not_recorded": cx.suppressed,
        "samples": cx.samples,
        "oracle_wall_s": round(time.time() - t0, 1),
    })
    return rep.finish()


def replay(path: str) -> int:
    body = json.loads(open(path).read())
    print("replay:", {k: body[k] for k in body if k not in ("what", "cfg")})
    if body.get("kind") not in ("call", "clear", "router"):
        print("nothing to re-run for kind", body.get("kind"))
        return 0
    real, drv = Real(), Driver()
    try:
        cfg, var, call = body["cfg"], body["variant"], body["call"]
        print("router :", json.dumps(cfg))
        print("variant:", var)
        res = compile_real(real, cfg, var)
        mo = ask_model(drv, real, cfg, call)
        if res[0] == "err":
            print("real   : rejected", res[1], res[2])
            print("model  :", mo)
            return 0
        _, ap, cl, sels = res
        for sg, sl in sels:
            drv.ask(f"sel {hexs(sg.encode())} {hexs(sl)}")
        which = cl if body["kind"] == "clear" else ap
        print(drv.ask(f"teal A {hexs(which.encode())}"))
        drv.ask("ctx X " + mk_ctx(call, var["version"]))
        ans = drv.ask(f"exec A X {FUEL}")
        print("call   :", call_words(call), f"({call.get('first')}/{call.get('count')})")
        print("real   :", ans, "->", observe(ans))
        print("model  :", mo)
        print("spec   :", mo.get("clearspec" if body["kind"] == "clear" else "spec"))
        print("---- real TEAL ----")
        print(which)
        return 0
    finally:
        drv.close()
